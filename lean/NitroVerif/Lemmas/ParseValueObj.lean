/-
Objects of the `Value` sub-language (helper lemmas for Props/C07 `render_parse_value`): the `ObjectField` rule
(`Name ~ ":" ~ Value` with arbitrary whitespace at both gaps) and the `ObjectValue` rule on the rendering of an object
whose field values are known to parse, by induction on the list of fields (same structure as `ParseValueList.lean`).
-/
import NitroVerif.Lemmas.ParseValueList
namespace NitroVerif.ValueParse
open NitroVerif.Peg NitroVerif.Gen NitroVerif.Build NitroVerif.TypeParse NitroVerif.StringParse NitroVerif.Gql

/-! ### positions inside a field written after a gap starting at `q` -/

/-- start of the name -/
def fQ0 (τ : Trivia) (q : Nat) (first : Bool) : Nat := q + (gapOf first (τ q)).length
/-- end of the name -/
def fQ1 (τ : Trivia) (q : Nat) (first : Bool) (k : Name) : Nat := fQ0 τ q first + k.toList.length
/-- after the colon -/
def fQ2 (τ : Trivia) (q : Nat) (first : Bool) (k : Name) : Nat := fQ1 τ q first k + (τ (fQ1 τ q first k)).length + 1
/-- start of the value -/
def fQ3 (τ : Trivia) (q : Nat) (first : Bool) (k : Name) : Nat := fQ2 τ q first k + (τ (fQ2 τ q first k)).length

theorem fieldsBody_cons (τ : Trivia) (q : Nat) (first : Bool) (k : Name) (pos : Pos) (v : Value)
    (fs : List (Name × Pos × Value)) :
    fieldsBody τ q first ((k, pos, v) :: fs) = gapOf first (τ q) ++ (k.toList ++ (τ (fQ1 τ q first k) ++ (':' ::
      (τ (fQ2 τ q first k) ++ (renderV τ (fQ3 τ q first k) v ++
        fieldsBody τ (fQ3 τ q first k + (renderV τ (fQ3 τ q first k) v).length) false fs))))) := by
  simp [fieldsBody, fQ0, fQ1, fQ2, fQ3]

/-- the `ObjectField` pair of `k: v` whose name starts at `q0` (`q1` end of the name, `q3` start of the value) -/
def fieldPair (τ : Trivia) (q0 q1 q3 : Nat) (v : Value) : Pair :=
  .mk R.ObjectField q0 (q3 + (renderV τ q3 v).length) [.mk R.Name q0 q1 [], valuePair τ q3 v]

theorem fieldPairs_cons (τ : Trivia) (q : Nat) (first : Bool) (k : Name) (pos : Pos) (v : Value)
    (fs : List (Name × Pos × Value)) :
    fieldPairs τ q first ((k, pos, v) :: fs) = fieldPair τ (fQ0 τ q first) (fQ1 τ q first k) (fQ3 τ q first k) v ::
      fieldPairs τ (fQ3 τ q first k + (renderV τ (fQ3 τ q first k) v).length) false fs := by
  simp [fieldPairs, fieldPair, valuePair, fQ0, fQ1, fQ2, fQ3]

/-! ### one field -/

theorem field_runs (τ : Trivia) (hτ : ∀ q, Ws (τ q)) (k : List Char) (v : Value) (hk : validName k) (hwf : WFV v)
    (hv : ValRuns τ v) (q0 : Nat) (g1 g2 : List Char) (hg1 : Ws g1) (hg2 : Ws g2) (rest : List Char) (hend : ValEnd rest) :
    RunsRule gList (B (k.length + g1.length + 1 + g2.length + (renderV τ (q0 + k.length + g1.length + 1 + g2.length) v).length))
      R.ObjectField .nonAtomic
      ⟨q0, k ++ (g1 ++ (':' :: (g2 ++ (renderV τ (q0 + k.length + g1.length + 1 + g2.length) v ++ rest))))⟩
      ⟨q0 + k.length + g1.length + 1 + g2.length + (renderV τ (q0 + k.length + g1.length + 1 + g2.length) v).length, rest⟩
      [fieldPair τ q0 (q0 + k.length) (q0 + k.length + g1.length + 1 + g2.length) v] := by
  generalize ht : renderV τ (q0 + k.length + g1.length + 1 + g2.length) v = t
  have hk1 : 1 ≤ k.length := by
    cases k with
    | nil => exact absurd hk id
    | cons d ds => simp
  -- the name
  have hnc : HeadNot nameCont (g1 ++ (':' :: (g2 ++ (t ++ rest)))) := by
    refine (valEnd_ws_append hg1 ?_).nameCont
    intro d r he hd
    cases he
    rcases hd with hd | hd | hd <;> first | exact absurd hd (by decide) | (revert hd; decide)
  have hname := runs_call (sk := true) (name_runs hk q0 _ hnc)
  have hs1 := skip_ws g1 hg1 (q0 + k.length) (':' :: (g2 ++ (t ++ rest))) (headNot_trivia_close (Or.inr (Or.inr (Or.inr rfl))))
  have hcolon : Runs gList 1 true (.str [':']) .nonAtomic ⟨q0 + k.length + g1.length, ':' :: (g2 ++ (t ++ rest))⟩
      ⟨q0 + k.length + g1.length + 1, g2 ++ (t ++ rest)⟩ [] :=
    runs_str (c := ⟨q0 + k.length + g1.length, ':' :: (g2 ++ (t ++ rest))⟩) (by simp [matchStr])
  have hs2 := skip_ws g2 hg2 (q0 + k.length + g1.length + 1) (t ++ rest) (ht ▸ renderV_headNot_trivia τ _ v hwf _)
  have hval := hv (q0 + k.length + g1.length + 1 + g2.length) rest hend
  rw [ht] at hval
  have hcall := runs_call (sk := true) hval
  have body := runs_seq_skip' hname hs1 (runs_seq_skip' hcolon hs2 hcall)
  have := runsRule_normal look_ObjectField (nsp (by decide) (by decide)) body
  refine RunsRule.cast (this.mono ?_) rfl rfl (by simp [fieldPair, valuePair, ht])
  simp [B]; omega

theorem field_fails_close {p : Nat} {r : List Char} : FailsRule gList 12 R.ObjectField .nonAtomic ⟨p, '}' :: r⟩ :=
  (failsRule_normal look_ObjectField (nsp (by decide) (by decide))
    (fails_seq_first (fails_call (name_fails (headNot_cons (by decide) _))))).mono (by omega)

/-! ### the fields of an object -/

/-- what follows a field: the next separator (whitespace, non-empty) or the padding and the closing brace -/
theorem valEnd_fields (τ : Trivia) (hτ : ∀ q, Ws (τ q)) (q : Nat) (fs : List (Name × Pos × Value)) (x : Char)
    (rest : List Char) (hx : x = ']' ∨ x = '}' ∨ x = ')') :
    ValEnd (fieldsBody τ q false fs ++ (τ (q + (fieldsBody τ q false fs).length) ++ x :: rest)) := by
  cases fs with
  | nil => simpa [fieldsBody] using valEnd_ws_append (hτ q) (valEnd_close hx)
  | cons f fs =>
    obtain ⟨k, pos, v⟩ := f
    rw [fieldsBody_cons, List.append_assoc]
    exact valEnd_ws_ne (ws_gapOf (hτ q)) (by simpa [gapOf] using sepOf_ne_nil (τ q))

/-- hypotheses on the fields: valid names, well-formed values that parse -/
abbrev FieldsOk (τ : Trivia) (fs : List (Name × Pos × Value)) : Prop :=
  ∀ f ∈ fs, validName f.1.toList ∧ WFV f.2.2 ∧ ValRuns τ f.2.2

/-- everything about the first field of `fieldsBody τ q first ((k, pos, v) :: fs)` followed by `tail`: the pieces of the
    text, the skip over the gap in front of it, and the `ObjectField` run -/
theorem field_step (τ : Trivia) (hτ : ∀ q, Ws (τ q)) (q : Nat) (first : Bool) (k : Name) (pos : Pos) (v : Value)
    (fs : List (Name × Pos × Value)) (hk : validName k.toList) (hwf : WFV v) (hv : ValRuns τ v)
    (tail : Nat → List Char) (hend : ∀ q', ValEnd (fieldsBody τ q' false fs ++ tail (q' + (fieldsBody τ q' false fs).length))) :
    ∃ (g ft : List Char) (q' : Nat),
      g = gapOf first (τ q) ∧ q' = q + g.length + ft.length ∧ 1 ≤ ft.length ∧
      fieldsBody τ q first ((k, pos, v) :: fs) = g ++ (ft ++ fieldsBody τ q' false fs) ∧
      (∃ fp, fieldPairs τ q first ((k, pos, v) :: fs) = fp :: fieldPairs τ q' false fs ∧
        Runs gList (B ft.length + 1) true (.call R.ObjectField) .nonAtomic
          ⟨q + g.length, ft ++ (fieldsBody τ q' false fs ++ tail (q' + (fieldsBody τ q' false fs).length))⟩
          ⟨q', fieldsBody τ q' false fs ++ tail (q' + (fieldsBody τ q' false fs).length)⟩ [fp]) ∧
      (∀ x : List Char, SkipTo (g.length + 60) ⟨q, g ++ (ft ++ x)⟩ ⟨q + g.length, ft ++ x⟩) ∧
      (∀ x : List Char, HeadNot (· = '}') (ft ++ x)) := by
  have hbody := fieldsBody_cons τ q first k pos v fs
  have hpairs := fieldPairs_cons τ q first k pos v fs
  simp only [fQ0, fQ1, fQ2, fQ3] at hbody hpairs
  generalize hg : gapOf first (τ q) = g at hbody hpairs
  generalize hg1 : τ (q + g.length + k.toList.length) = g1 at hbody hpairs
  generalize hg2 : τ (q + g.length + k.toList.length + g1.length + 1) = g2 at hbody hpairs
  generalize ht : renderV τ (q + g.length + k.toList.length + g1.length + 1 + g2.length) v = t at hbody hpairs
  have hgws : Ws g := hg ▸ ws_gapOf (hτ q)
  have hg1ws : Ws g1 := hg1 ▸ hτ _
  have hg2ws : Ws g2 := hg2 ▸ hτ _
  have hk1 : 1 ≤ k.toList.length := by
    cases hkl : k.toList with
    | nil => rw [hkl] at hk; exact absurd hk id
    | cons d ds => simp
  refine ⟨g, k.toList ++ (g1 ++ (':' :: (g2 ++ t))), q + g.length + k.toList.length + g1.length + 1 + g2.length + t.length,
    rfl, by simp; omega, by simp; omega, by rw [hbody]; simp, ?_, ?_, ?_⟩
  · refine ⟨_, hpairs, ?_⟩
    have := field_runs τ hτ k.toList v hk hwf hv (q + g.length) g1 g2 hg1ws hg2ws
      (fieldsBody τ (q + g.length + k.toList.length + g1.length + 1 + g2.length + t.length) false fs ++ tail ((q + g.length + k.toList.length + g1.length + 1 + g2.length + t.length) + (fieldsBody τ (q + g.length + k.toList.length + g1.length + 1 + g2.length + t.length) false fs).length)) (hend (q + g.length + k.toList.length + g1.length + 1 + g2.length + t.length))
    rw [ht] at this
    refine Runs.cast ((runs_call (sk := true) this).mono ?_) (by simp) rfl rfl
    simp [B]; omega
  · intro x
    have hnt : HeadNot trivia (k.toList ++ (g1 ++ (':' :: (g2 ++ t))) ++ x) := by
      cases hkl : k.toList with
      | nil => rw [hkl] at hk; exact absurd hk id
      | cons d ds =>
        rw [hkl] at hk
        exact headNot_cons (nameStart_not_trivia hk.1) _
    exact skip_ws g hgws q _ hnt
  · intro x
    cases hkl : k.toList with
    | nil => rw [hkl] at hk; exact absurd hk id
    | cons d ds =>
      rw [hkl] at hk
      refine headNot_cons ?_ _
      rintro rfl
      exact absurd hk.1 (by decide)

/-- the loop over the remaining fields, from the cursor right after a field -/
theorem fields_sr (τ : Trivia) (hτ : ∀ q, Ws (τ q)) (fs : List (Name × Pos × Value)) (hfs : FieldsOk τ fs) :
    ∀ (q : Nat) (rest : List Char),
      RunsSR (B ((fieldsBody τ q false fs).length + (τ (q + (fieldsBody τ q false fs).length)).length)) (.call R.ObjectField)
        ⟨q, fieldsBody τ q false fs ++ (τ (q + (fieldsBody τ q false fs).length) ++ '}' :: rest)⟩
        ⟨q + (fieldsBody τ q false fs).length, τ (q + (fieldsBody τ q false fs).length) ++ '}' :: rest⟩
        (fieldPairs τ q false fs) := by
  induction fs with
  | nil =>
    intro q rest
    have hs := skip_ws (τ q) (hτ q) q ('}' :: rest) (headNot_trivia_close (Or.inr (Or.inl rfl)))
    have hf := fails_call (sk := true) (field_fails_close (p := q + (τ q).length) (r := rest))
    have := runsSR_nil hs hf
    refine RunsSR.cast (this.mono ?_) (by simp [fieldsBody]) (by simp [fieldsBody]) (by simp [fieldPairs])
    simp [fieldsBody, B]; omega
  | cons f fs ih =>
    intro q rest
    obtain ⟨k, pos, v⟩ := f
    obtain ⟨hk, hwf, hv⟩ := hfs (k, pos, v) (List.mem_cons_self ..)
    have ih' := ih (fun w hw => hfs w (List.mem_cons_of_mem _ hw))
    obtain ⟨g, ft, q', hg, hq', hft1, hbody, ⟨fp, hpairs, hrun⟩, hskip, _⟩ :=
      field_step τ hτ q false k pos v fs hk hwf hv (fun e => τ e ++ '}' :: rest)
        (fun q' => valEnd_fields τ hτ q' fs '}' rest (Or.inr (Or.inl rfl)))
    have hg1 : 1 ≤ g.length := by
      rw [hg]; simp only [gapOf, Bool.false_eq_true, if_false]
      exact List.length_pos_iff.mpr (sepOf_ne_nil _)
    have hlen : q + (fieldsBody τ q false ((k, pos, v) :: fs)).length = q' + (fieldsBody τ q' false fs).length := by
      rw [hbody, hq']; simp; omega
    rw [hlen, hbody, hpairs]
    have := runsSR_cons (hskip _) hrun (ih' q' rest)
    refine RunsSR.cast (this.mono ?_) (by simp) rfl (by simp)
    simp [B]; omega

/-- `ObjectField+`'s tail after the first field: skip, `ObjectField*`, and the skip in front of the closing brace -/
theorem fields_plus (τ : Trivia) (hτ : ∀ q, Ws (τ q)) (fs : List (Name × Pos × Value)) (hfs : FieldsOk τ fs)
    (q : Nat) (rest : List Char) :
    ∃ c3 cE, SkipTo (B ((fieldsBody τ q false fs).length + (τ (q + (fieldsBody τ q false fs).length)).length) + 2)
        ⟨q, fieldsBody τ q false fs ++ (τ (q + (fieldsBody τ q false fs).length) ++ '}' :: rest)⟩ c3 ∧
      Runs gList (B ((fieldsBody τ q false fs).length + (τ (q + (fieldsBody τ q false fs).length)).length) + 2) true
        (.star (.call R.ObjectField)) .nonAtomic c3 cE (fieldPairs τ q false fs) ∧
      SkipTo (B ((fieldsBody τ q false fs).length + (τ (q + (fieldsBody τ q false fs).length)).length) + 2) cE
        ⟨q + (fieldsBody τ q false fs).length + (τ (q + (fieldsBody τ q false fs).length)).length, '}' :: rest⟩ := by
  cases fs with
  | nil =>
    have hs := skip_ws (τ q) (hτ q) q ('}' :: rest) (headNot_trivia_close (Or.inr (Or.inl rfl)))
    have hf := fails_call (sk := true) (field_fails_close (p := q + (τ q).length) (r := rest))
    have hst := runs_star_sk_nil hf
    have hs2 := skipTo_noop (p := q + (τ q).length) (rest := '}' :: rest) (headNot_trivia_close (Or.inr (Or.inl rfl)))
    refine ⟨_, _, SkipTo.cast (hs.mono ?_) (by simp [fieldsBody]) rfl, Runs.cast (hst.mono ?_) rfl rfl (by simp [fieldPairs]),
      SkipTo.cast (hs2.mono ?_) rfl (by simp [fieldsBody])⟩ <;>
      first | (simp [fieldsBody, B]; done) | (simp [fieldsBody, B]; omega)
  | cons f fs =>
    obtain ⟨k, pos, v⟩ := f
    obtain ⟨hk, hwf, hv⟩ := hfs (k, pos, v) (List.mem_cons_self ..)
    have hsr := fields_sr τ hτ fs (fun w hw => hfs w (List.mem_cons_of_mem _ hw))
    obtain ⟨g, ft, q', hg, hq', hft1, hbody, ⟨fp, hpairs, hrun⟩, hskip, _⟩ :=
      field_step τ hτ q false k pos v fs hk hwf hv (fun e => τ e ++ '}' :: rest)
        (fun q' => valEnd_fields τ hτ q' fs '}' rest (Or.inr (Or.inl rfl)))
    have hlen : q + (fieldsBody τ q false ((k, pos, v) :: fs)).length = q' + (fieldsBody τ q' false fs).length := by
      rw [hbody, hq']; simp; omega
    rw [hlen, hbody, hpairs]
    have hst := runs_star_sk_cons hrun (hsr q' rest)
    have hs2 := skip_ws (τ (q' + (fieldsBody τ q' false fs).length)) (hτ _) (q' + (fieldsBody τ q' false fs).length)
      ('}' :: rest) (headNot_trivia_close (Or.inr (Or.inl rfl)))
    refine ⟨_, _, SkipTo.cast ((hskip _).mono ?_) (by simp) rfl, Runs.cast (hst.mono ?_) rfl rfl (by simp),
      SkipTo.cast (hs2.mono ?_) rfl rfl⟩ <;> first | (simp [B]; done) | (simp [B]; omega)

theorem objHeads (rest : List Char) :
    HeadNot (· = '$') ('{' :: rest) ∧ HeadNot (fun d => d = '-' ∨ digit d) ('{' :: rest) ∧ HeadNot (· = '"') ('{' :: rest) ∧
    HeadNot nameStart ('{' :: rest) ∧ HeadNot trivia ('{' :: rest) ∧ HeadNot (· = '[') ('{' :: rest) :=
  ⟨headNot_cons (by decide) _, headNot_cons (by decide) _, headNot_cons (by decide) _, headNot_cons (by decide) _,
    headNot_cons (by decide) _, headNot_cons (by decide) _⟩

/-- the `Value` rule on an object whose fields parse -/
theorem value_obj (τ : Trivia) (hτ : ∀ q, Ws (τ q)) (fs : List (Name × Pos × Value)) (pos : Pos)
    (hfs : FieldsOk τ fs) : ValRuns τ (.obj fs pos) := by
  intro p rest _
  obtain ⟨a1, a2, a3, a4, a5, a6⟩ := objHeads (fieldsBody τ (p + 1) true fs ++
    (τ (p + 1 + (fieldsBody τ (p + 1) true fs).length) ++ ['}']) ++ rest)
  have etext : renderV τ p (.obj fs pos) ++ rest = '{' :: (fieldsBody τ (p + 1) true fs ++
      (τ (p + 1 + (fieldsBody τ (p + 1) true fs).length) ++ ['}']) ++ rest) := by simp [renderV]
  rw [etext]
  obtain ⟨f1, f2, f3⟩ := nonnum_fails (p := p) a1 a2
  have f4 := fails_call (sk := true) (stringValue_fails (p := p) a3)
  have f5 := fails_call (sk := true) (booleanValue_fails_head (p := p) a4)
  have f6 := fails_call (sk := true) (nullValue_fails_head (p := p) a4)
  have f7 := fails_call (sk := true) (enumValue_fails_head (p := p) a4 a5)
  have f8 := fails_call (sk := true) (listValue_fails (p := p) a6)
  have hov : RunsRule gList (60 * (renderV τ p (.obj fs pos)).length + 80) R.ObjectValue .nonAtomic
      ⟨p, '{' :: (fieldsBody τ (p + 1) true fs ++ (τ (p + 1 + (fieldsBody τ (p + 1) true fs).length) ++ ['}']) ++ rest)⟩
      ⟨p + (renderV τ p (.obj fs pos)).length, rest⟩ [innerV τ p (.obj fs pos)] := by
    have hopen : ∀ x : List Char, Runs gList 1 true (.str ['{']) .nonAtomic ⟨p, '{' :: x⟩ ⟨p + 1, x⟩ [] := fun x =>
      runs_str (c := ⟨p, '{' :: x⟩) (by simp [matchStr])
    cases fs with
    | nil =>
      have hs := skip_ws (τ (p + 1)) (hτ _) (p + 1) ('}' :: rest) (headNot_trivia_close (Or.inr (Or.inl rfl)))
      have hclose : Runs gList 1 true (.str ['}']) .nonAtomic ⟨p + 1 + (τ (p + 1)).length, '}' :: rest⟩
          ⟨p + 1 + (τ (p + 1)).length + 1, rest⟩ [] :=
        runs_str (c := ⟨p + 1 + (τ (p + 1)).length, '}' :: rest⟩) (by simp [matchStr])
      have alt := runs_choice_l (b := .seq (.str ['{']) (.seq (.plus (.call R.ObjectField)) (.str ['}'])))
        (runs_seq_skip' (hopen _) hs hclose)
      have := runsRule_normal look_ObjectValue (nsp (by decide) (by decide)) alt
      refine RunsRule.cast (this.mono ?_) (by simp [fieldsBody]) ?_
        (by first | (simp [innerV, fieldPairs, renderV, fieldsBody]; done) | (simp [innerV, fieldPairs, renderV, fieldsBody]; omega))
      · simp [renderV, fieldsBody]; omega
      · first | (simp [renderV, fieldsBody]; done) | (simp [renderV, fieldsBody]; omega)
    | cons f fs =>
      obtain ⟨k, kpos, v⟩ := f
      obtain ⟨hk, hwf, hv⟩ := hfs (k, kpos, v) (List.mem_cons_self ..)
      obtain ⟨g, ft, q', hg, hq', hft1, hbody, ⟨fp, hpairs, hrun⟩, hskip, hnc⟩ :=
        field_step τ hτ (p + 1) true k kpos v fs hk hwf hv (fun e => τ e ++ '}' :: rest)
          (fun q' => valEnd_fields τ hτ q' fs '}' rest (Or.inr (Or.inl rfl)))
      have hlen : p + 1 + (fieldsBody τ (p + 1) true ((k, kpos, v) :: fs)).length = q' + (fieldsBody τ q' false fs).length := by
        rw [hbody, hq']; simp; omega
      generalize hib : fieldsBody τ q' false fs = ib at *
      generalize hpad : τ (q' + ib.length) = pad at *
      have hL : (renderV τ p (.obj ((k, kpos, v) :: fs) pos)).length = g.length + ft.length + ib.length + pad.length + 2 := by
        have : renderV τ p (.obj ((k, kpos, v) :: fs) pos) = '{' :: (g ++ (ft ++ ib) ++ (pad ++ ['}'])) := by
          simp only [renderV]; rw [hlen, hbody, hpad]
        rw [this]; simp; omega
      have hinner : innerV τ p (.obj ((k, kpos, v) :: fs) pos) = .mk R.ObjectValue p
          (p + (renderV τ p (.obj ((k, kpos, v) :: fs) pos)).length) (fp :: fieldPairs τ q' false fs) := by
        simp [innerV, hpairs]
      rw [hinner, hL, hlen, hbody, hpad]
      -- first alternative `"{" ~ "}"` fails
      have alt1 := fails_seq_skip_last' (hopen _) (hskip (ib ++ (pad ++ '}' :: rest)))
        (strL_head_fails (la := .none) (sk := true) (at_ := .nonAtomic) (p := p + 1 + g.length) (xs := []) (hnc _))
      -- second alternative
      obtain ⟨c3, cE, k1, k2, k3⟩ := fields_plus τ hτ fs (fun w hw => hfs w (List.mem_cons_of_mem _ hw)) q' rest
      rw [hib, hpad] at k1 k2 k3
      have hplus := runs_plus_sk (runs_seq_skip' hrun k1 k2)
      have hclose : Runs gList 1 true (.str ['}']) .nonAtomic ⟨q' + ib.length + pad.length, '}' :: rest⟩
          ⟨q' + ib.length + pad.length + 1, rest⟩ [] :=
        runs_str (c := ⟨q' + ib.length + pad.length, '}' :: rest⟩) (by simp [matchStr])
      have alt2 := runs_seq_skip' (hopen _) (hskip (ib ++ (pad ++ '}' :: rest))) (runs_seq_skip' hplus k3 hclose)
      have := runsRule_normal look_ObjectValue (nsp (by decide) (by decide)) (runs_choice_r' alt1 alt2)
      refine RunsRule.cast (this.mono ?_) (by simp) ?_ (by first | (simp; done) | (simp; omega))
      · simp [B]; omega
      · first | rfl | (congr 1; omega)
  have := value_rule (runs_choice_r' f1 (runs_choice_r' f2 (runs_choice_r' f3 (runs_choice_r' f4
    (runs_choice_r' f5 (runs_choice_r' f6 (runs_choice_r' f7 (runs_choice_r' f8 (runs_call (sk := true) hov)))))))))
  refine RunsRule.cast (this.mono ?_) rfl rfl (by simp [valuePair])
  first | (simp [B]; done) | (simp [B]; omega)

end NitroVerif.ValueParse
