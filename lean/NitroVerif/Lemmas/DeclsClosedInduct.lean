/-
THE CLOSED FORM of C10, as a lemma over any declaration table that hosts the generated schema declaration file:
inside the namespace of target `t`, the alias of a schema type `T` (usable in the direction of `t`) admits exactly
`Ref_t(T)`. Kind by kind, then the induction on values.
-/
import NitroVerif.Lemmas.DeclsClosedExact
namespace NitroVerif.SchemaDecls
open NitroVerif.Gql NitroVerif.Ts NitroVerif.DeclCfg NitroVerif.RefTypes

/-- record sets only test each field at the value the record has for that key -/
theorem recordSpec_congr_get {α : Type} (pre : List (String × Bool × (J → Prop))) (l : List α) (key : α → String)
    (opt : α → Bool) (Pf Qf : α → J → Prop) (kvs : List (String × J))
    (h : ∀ a ∈ l, Pf a (J.get kvs (key a)) ↔ Qf a (J.get kvs (key a))) :
    RecordSpec (pre ++ l.map fun a => (key a, opt a, Pf a)) kvs ↔
      RecordSpec (pre ++ l.map fun a => (key a, opt a, Qf a)) kvs := by
  simp only [RecordSpec, List.mem_append, List.mem_map]
  constructor
  · rintro ⟨h1, h2⟩
    refine ⟨?_, ?_⟩
    · rintro f (hf | ⟨a, ha, rfl⟩)
      · exact h1 f (Or.inl hf)
      · rcases h1 _ (Or.inr ⟨a, ha, rfl⟩) with h' | h'
        · exact Or.inl h'
        · exact Or.inr ((h a ha).1 h')
    · intro kv hkv
      rcases h2 kv hkv with h' | ⟨f, hf | ⟨a, ha, rfl⟩, hk⟩
      · exact Or.inl h'
      · exact Or.inr ⟨f, Or.inl hf, hk⟩
      · exact Or.inr ⟨_, Or.inr ⟨a, ha, rfl⟩, hk⟩
  · rintro ⟨h1, h2⟩
    refine ⟨?_, ?_⟩
    · rintro f (hf | ⟨a, ha, rfl⟩)
      · exact h1 f (Or.inl hf)
      · rcases h1 _ (Or.inr ⟨a, ha, rfl⟩) with h' | h'
        · exact Or.inl h'
        · exact Or.inr ((h a ha).2 h')
    · intro kv hkv
      rcases h2 kv hkv with h' | ⟨f, hf | ⟨a, ha, rfl⟩, hk⟩
      · exact Or.inl h'
      · exact Or.inr ⟨f, Or.inl hf, hk⟩
      · exact Or.inr ⟨_, Or.inr ⟨a, ha, rfl⟩, hk⟩

theorem isInput_of_isOutput {t : Target} (h : t.isOutput = true) : t.isInput = false := by simp [Target.isInput, h]
theorem isOutput_of_isInput {t : Target} (h : t.isInput = true) : t.isOutput = false := by
  simpa [Target.isInput] using h

@[simp] theorem Ctx.new_target (c : Cfg) (doc : TsDoc) (t : Target) : (Ctx.new c doc t).target = t := rfl
@[simp] theorem Ctx.new_cfg (c : Cfg) (doc : TsDoc) (t : Target) : (Ctx.new c doc t).cfg = c := rfl
@[simp] theorem Ctx.new_scalarTypes (c : Cfg) (doc : TsDoc) (t : Target) :
    (Ctx.new c doc t).scalarTypes = DeclCfg.scalarTypes c doc := rfl
@[simp] theorem Ctx.new_schema (c : Cfg) (doc : TsDoc) (t : Target) : (Ctx.new c doc t).schema = ⟨doc⟩ := rfl

/-- in `E`, every configured scalar text is read as in the empty declaration environment -/
def ScalarsGlobal (c : Cfg) (doc : TsDoc) (E : Env) : Prop :=
  ∀ p ∈ scalarTypes c doc, ∀ t ∈ Target.all, ∀ v,
    Mem E v (c.parseOf (p.2.getType t)) ↔ Mem Env.empty v (c.parseOf (p.2.getType t))

/-- an environment without helper-type hooks reads the (abs-free) scalar texts globally -/
theorem scalarsGlobal_of_nohook {c : Cfg} {doc : TsDoc} (ok : DocOK c doc) {E : Env}
    (hh : ∀ d f as, E.appHook d f as = none) : ScalarsGlobal c doc E :=
  fun p hp t ht _ => mem_indep hh (fun _ _ _ => rfl) (ok.parses p hp t ht).1

section closed
variable {c : Cfg} {doc : TsDoc} {F : File} (hF : schemaFile c doc = .ok F) (ok : DocOK c doc)
variable {E : Env} {P : Scope} (H : Hosted E.decls P F) (hsc : ScalarsGlobal c doc E) (t : Target)

/-- the absolute reference to the alias of schema type `n` in the namespace of `t` -/
abbrev absRef (c : Cfg) (doc : TsDoc) (P : Scope) (t : Target) (n : Name) : Ty :=
  Ty.abs (P ++ [t.name]) (lname c doc n)

include hF in
/-- a definition whose kind fits the target is printed in the target's namespace -/
theorem fits_body {td : TypeDef} (hm : td ∈ typeDefsOf doc) (hfit : kindFits td.kind t = true) :
    ∃ ty, body (Ctx.new c doc t) td = .ok (some ty) := by
  obtain ⟨o, ho⟩ := body_ok hF t td hm
  unfold body at ho ⊢
  cases hk : td.kind <;> simp only [hk, kindFits, Ctx.new_target] at hfit ho ⊢
  · split at ho
    · exact ⟨_, rfl⟩
    · cases ho
  · exact ⟨objectBody (Ctx.new c doc t) td, by simp [isInput_of_isOutput hfit]⟩
  · exact ⟨interfaceBody (Ctx.new c doc t) td, by simp [isInput_of_isOutput hfit]⟩
  · exact ⟨unionBody (Ctx.new c doc t) td, by simp [isInput_of_isOutput hfit]⟩
  · exact ⟨_, rfl⟩
  · exact ⟨inputBody (Ctx.new c doc t) td, by simp [isOutput_of_isInput hfit]⟩

include hF ok H in
theorem mem_absRef {td : TypeDef} {ty : Ty} (hm : td ∈ typeDefsOf doc)
    (hb : body (Ctx.new c doc t) td = .ok (some ty)) (v : J) :
    Mem E v (absRef c doc P t td.name) ↔ Mem E v (globalise E.decls (P ++ [t.name]) [] ty) :=
  mem_alias_iff (hosted_body hF ok H t hm hb)

/-- the statement of the closed form at one value -/
def Agree (c : Cfg) (doc : TsDoc) (E : Env) (P : Scope) (t : Target) (v : J) : Prop :=
  ∀ td ∈ typeDefsOf doc, kindFits td.kind t = true →
    (Mem E v (absRef c doc P t td.name) ↔ Ref c ⟨doc⟩ t td.name v)

include hF ok H in
/-- the generated reference to a fitting type, bound in the namespace, is the absolute reference to its alias -/
theorem leaf_abs {td : TypeDef} (hm : td ∈ typeDefsOf doc) (hfit : kindFits td.kind t = true) :
    globalise E.decls (P ++ [t.name]) [] ((Ctx.new c doc t).leaf td.name) = absRef c doc P t td.name := by
  obtain ⟨ty, hb⟩ := fits_body hF t hm hfit
  exact hosted_leaf hF ok H t hm hb

include hF ok H in
theorem enum_case {td : TypeDef} (hm : td ∈ typeDefsOf doc) (hk : td.kind = .enum) (v : J) :
    Mem E v (absRef c doc P t td.name) ↔ Ref c ⟨doc⟩ t td.name v := by
  have hb : body (Ctx.new c doc t) td = .ok (some (enumBody td)) := by simp [body, hk]
  rw [mem_absRef hF ok H t hm hb, globalise_enumBody, mem_enumBody_iff, Ref_enum c ⟨doc⟩ t (typeDef?_of_mem ok hm) hk]

include hF ok H hsc in
theorem scalar_case {td : TypeDef} (hm : td ∈ typeDefsOf doc) (hk : td.kind = .scalar) (v : J) :
    Mem E v (absRef c doc P t td.name) ↔ Ref c ⟨doc⟩ t td.name v := by
  obtain ⟨ty, hb⟩ := fits_body hF t hm (by simp [hk, kindFits])
  have hb' := hb
  unfold body at hb'
  simp only [hk, Ctx.new_target, Ctx.new_cfg, Ctx.new_scalarTypes] at hb'
  split at hb'
  · rename_i n' sc hfind
    cases hb'
    have hfind' : (scalarTypes c doc).find? (·.1 == td.name) = some (n', sc) := hfind
    have hp : (n', sc) ∈ scalarTypes c doc := List.mem_of_find?_eq_some hfind'
    obtain ⟨hna, hfree⟩ := ok.parses (n', sc) hp t (Target.mem_all t)
    rw [mem_absRef hF ok H t hm hb,
      globalise_id _ _ _ (fun i hi => hosted_bag_unbound hF ok H t (hfree i hi)),
      hsc (n', sc) hp t (Target.mem_all t) v,
      Ref_scalar c ⟨doc⟩ t (typeDef?_of_mem ok hm) hk]
    constructor
    · intro h; exact ⟨sc, by simp [scalarType?, hfind'], h⟩
    · rintro ⟨sc', hsc', h⟩
      simp only [scalarType?, hfind'] at hsc'
      cases hsc'; exact h
  · cases hb'

include hF ok H in
theorem object_case {td : TypeDef} (hm : td ∈ typeDefsOf doc) (hk : td.kind = .object) (ht : t.isOutput = true)
    (v : J) (IH : ∀ y, jrank y < jrank v → Agree c doc E P t y) :
    Mem E v (absRef c doc P t td.name) ↔ Ref c ⟨doc⟩ t td.name v := by
  have hb : body (Ctx.new c doc t) td = .ok (some (objectBody (Ctx.new c doc t) td)) := by
    simp [body, hk, isInput_of_isOutput ht]
  rw [mem_absRef hF ok H t hm hb, objectBody, globalise_objectBodyL,
    mem_objectBodyL_iff _ (fun n x => Mem E x (globalise E.decls (P ++ [t.name]) [] ((Ctx.new c doc t).leaf n)))
      (fun _ _ => Iff.rfl),
    Ref_object c ⟨doc⟩ t (typeDef?_of_mem ok hm) hk ht]
  constructor
  · rintro ⟨kvs, rfl, hr⟩
    refine ⟨kvs, rfl, ?_⟩
    refine (recordSpec_congr_get [("__typename", false, fun x => x = .str td.name)] td.fields (fun f => f.name)
      (fun _ => false) _ _ kvs ?_).1 hr
    intro f hf
    apply conf_congr
    intro y hy
    obtain ⟨td', hm', hn', hk'⟩ := ok.fields td hm hk f hf
    have hfit' : kindFits td'.kind t = true := by
      cases hkk : td'.kind <;> simp_all [kindFits]
    rw [← hn', leaf_abs hF ok H t hm' hfit']
    exact IH y (by have := jrank_get kvs f.name; omega) td' hm' hfit'
  · rintro ⟨kvs, rfl, hr⟩
    refine ⟨kvs, rfl, ?_⟩
    refine (recordSpec_congr_get [("__typename", false, fun x => x = .str td.name)] td.fields (fun f => f.name)
      (fun _ => false) _ _ kvs ?_).2 hr
    intro f hf
    apply conf_congr
    intro y hy
    obtain ⟨td', hm', hn', hk'⟩ := ok.fields td hm hk f hf
    have hfit' : kindFits td'.kind t = true := by
      cases hkk : td'.kind <;> simp_all [kindFits]
    rw [← hn', leaf_abs hF ok H t hm' hfit']
    exact IH y (by have := jrank_get kvs f.name; omega) td' hm' hfit'

include hF ok H in
theorem input_case {td : TypeDef} (hm : td ∈ typeDefsOf doc) (hk : td.kind = .input) (ht : t.isInput = true)
    (v : J) (IH : ∀ y, jrank y < jrank v → Agree c doc E P t y) :
    Mem E v (absRef c doc P t td.name) ↔ Ref c ⟨doc⟩ t td.name v := by
  have hb : body (Ctx.new c doc t) td = .ok (some (inputBody (Ctx.new c doc t) td)) := by
    simp [body, hk, isOutput_of_isInput ht]
  rw [mem_absRef hF ok H t hm hb, inputBody, globalise_inputBodyL,
    mem_inputBodyL_iff _ (fun n x => Mem E x (globalise E.decls (P ++ [t.name]) [] ((Ctx.new c doc t).leaf n)))
      (fun _ _ => Iff.rfl),
    Ref_input c ⟨doc⟩ t (typeDef?_of_mem ok hm) hk ht]
  have key : ∀ kvs, jrank (J.obj kvs) = jrank v → ∀ f ∈ td.inputs,
      (Conf (fun n x => Mem E x (globalise E.decls (P ++ [t.name]) [] ((Ctx.new c doc t).leaf n))) f.ty
          (J.get kvs f.name) ↔ Conf (Ref c ⟨doc⟩ t) f.ty (J.get kvs f.name)) := by
    intro kvs hv f hf
    apply conf_congr
    intro y hy
    obtain ⟨td', hm', hn', hk'⟩ := ok.inputs td hm hk f hf
    have hfit' : kindFits td'.kind t = true := by
      rcases hk' with h | h | h <;> simp [h, kindFits, ht]
    rw [← hn', leaf_abs hF ok H t hm' hfit']
    exact IH y (by have := jrank_get kvs f.name; omega) td' hm' hfit'
  constructor
  · rintro ⟨kvs, rfl, hr⟩
    exact ⟨kvs, rfl, (recordSpec_congr_get [] td.inputs (fun f => f.name)
      (fun f => (Ctx.new c doc t).cfg.optionalInput && !f.ty.isNonNull) _ _ kvs (key kvs rfl)).1 hr⟩
  · rintro ⟨kvs, rfl, hr⟩
    exact ⟨kvs, rfl, (recordSpec_congr_get [] td.inputs (fun f => f.name)
      (fun f => (Ctx.new c doc t).cfg.optionalInput && !f.ty.isNonNull) _ _ kvs (key kvs rfl)).2 hr⟩

include hF ok H in
/-- interfaces and unions: through the object case at the same value -/
theorem members_case {td : TypeDef} (hm : td ∈ typeDefsOf doc) (ht : t.isOutput = true) (names : List Name)
    (hb : body (Ctx.new c doc t) td = .ok (some (membersBodyL (Ctx.new c doc t).leaf names)))
    (hk : td.kind = .interface ∨ td.kind = .union)
    (hposs : (Schema.mk doc).possibleTypes td.name = names)
    (hobj : ∀ n ∈ names, ∃ td' ∈ typeDefsOf doc, td'.name = n ∧ td'.kind = .object)
    (v : J) (IH : ∀ y, jrank y < jrank v → Agree c doc E P t y) :
    Mem E v (absRef c doc P t td.name) ↔ Ref c ⟨doc⟩ t td.name v := by
  rw [mem_absRef hF ok H t hm hb, globalise_membersBodyL,
    mem_membersBodyL_iff _ (fun n x => Mem E x (globalise E.decls (P ++ [t.name]) [] ((Ctx.new c doc t).leaf n)))
      (fun _ _ => Iff.rfl),
    Ref_abstract c ⟨doc⟩ t (typeDef?_of_mem ok hm) hk ht, hposs]
  have key : ∀ n ∈ names, (Mem E v (globalise E.decls (P ++ [t.name]) [] ((Ctx.new c doc t).leaf n)) ↔
      Ref c ⟨doc⟩ t n v) := by
    intro n hn
    obtain ⟨td', hm', hn', hk'⟩ := hobj n hn
    have hfit' : kindFits td'.kind t = true := by simp [hk', kindFits, ht]
    rw [← hn', leaf_abs hF ok H t hm' hfit']
    exact object_case hF ok H t hm' hk' ht v IH
  constructor
  · rintro ⟨n, hn, h⟩; exact ⟨n, hn, (key n hn).1 h⟩
  · rintro ⟨n, hn, h⟩; exact ⟨n, hn, (key n hn).2 h⟩

theorem kind_of_beq {a b : TypeKind} (h : (a == b) = true) : a = b := by
  cases a <;> cases b <;> first | rfl | exact absurd h (by decide)

theorem objectImplementers_objects (doc : TsDoc) (iface : Name) :
    ∀ n ∈ (Schema.mk doc).objectImplementers iface, ∃ td' ∈ typeDefsOf doc, td'.name = n ∧ td'.kind = .object := by
  intro n hn
  simp only [Schema.objectImplementers, List.mem_map, List.mem_filter, Bool.and_eq_true] at hn
  obtain ⟨td', ⟨hm', hk', _⟩, rfl⟩ := hn
  exact ⟨td', by rw [← typeDefs_eq]; exact hm', rfl, kind_of_beq hk'⟩

include hF ok H hsc in
/-- one step of the induction on values: all kinds -/
theorem agree_step (v : J) (IH : ∀ y, jrank y < jrank v → Agree c doc E P t y) : Agree c doc E P t v := by
  intro td hm hfit
  cases hk : td.kind with
  | scalar => exact scalar_case hF ok H hsc t hm hk v
  | «enum» => exact enum_case hF ok H t hm hk v
  | object =>
    have ht : t.isOutput = true := by simpa [kindFits, hk] using hfit
    exact object_case hF ok H t hm hk ht v IH
  | input =>
    have ht : t.isInput = true := by simpa [kindFits, hk] using hfit
    exact input_case hF ok H t hm hk ht v IH
  | interface =>
    have ht : t.isOutput = true := by simpa [kindFits, hk] using hfit
    refine members_case hF ok H t hm ht ((Schema.mk doc).objectImplementers td.name) ?_ (Or.inl hk) ?_
      (objectImplementers_objects doc td.name) v IH
    · simp [body, hk, isInput_of_isOutput ht, interfaceBody, Ctx.new]
    · simp [Schema.possibleTypes, typeDef?_of_mem ok hm, hk]
  | union =>
    have ht : t.isOutput = true := by simpa [kindFits, hk] using hfit
    refine members_case hF ok H t hm ht (td.members.map (·.1)) ?_ (Or.inr hk) ?_ ?_ v IH
    · simp [body, hk, isInput_of_isOutput ht, unionBody]
    · simp [Schema.possibleTypes, typeDef?_of_mem ok hm, hk]
    · intro n hn
      obtain ⟨m, hmm, rfl⟩ := List.mem_map.1 hn
      exact ok.members td hm hk m hmm

include hF ok H hsc in
/-- THE CLOSED FORM (hosted): for every value, every definition whose kind fits the target -/
theorem agree_all : ∀ (n : Nat) (v : J), jrank v < n → Agree c doc E P t v := by
  intro n
  induction n with
  | zero => intro v h; omega
  | succ n ih =>
    intro v hv
    exact agree_step hF ok H hsc t v (fun y hy => ih y (by omega))

include hF ok H hsc in
/-- the closed form for any environment that reads the scalar texts globally (e.g. with the `Omit` hook installed) -/
theorem hosted_alias_exact' {td : TypeDef} (hm : td ∈ typeDefsOf doc) (hfit : kindFits td.kind t = true) (v : J) :
    Mem E v (absRef c doc P t td.name) ↔ Ref c ⟨doc⟩ t td.name v :=
  agree_all hF ok H hsc t (jrank v + 1) v (Nat.lt_succ_self _) td hm hfit

include hF ok H in
theorem hosted_alias_exact (hh : ∀ d f as, E.appHook d f as = none) {td : TypeDef} (hm : td ∈ typeDefsOf doc)
    (hfit : kindFits td.kind t = true) (v : J) :
    Mem E v (absRef c doc P t td.name) ↔ Ref c ⟨doc⟩ t td.name v :=
  hosted_alias_exact' hF ok H (scalarsGlobal_of_nohook ok hh) t hm hfit v

/-! ### the qualified route `ns.T` -/

include hF ok H in
/-- from the top of the hosted file, `<namespace of t>.T` is the alias of `T` in that namespace (`T` = SCHEMA name) -/
theorem hosted_qualified_inner {td : TypeDef} {ty : Ty} (hm : td ∈ typeDefsOf doc)
    (hb : body (Ctx.new c doc t) td = .ok (some ty)) :
    E.decls.resolveQ P [t.name, td.name] = some (aliasDecl c doc P t td ty) := by
  have hns : E.decls.namespaces.contains (P ++ [t.name]) = true := hosted_ns_mem hF H t
  have h1 : E.decls.resolveNsAux t.name (P.length + 1) P = some (P ++ [t.name]) := by
    simp only [Decls.resolveNsAux, hns, if_true]
  have e1 : [td.name].dropLast = [] := rfl
  have e2 : [td.name].getLast? = some td.name := rfl
  simp only [Decls.resolveQ, h1, e1, e2, List.append_nil, List.length_singleton, beq_self_eq_true,
    Bool.or_true, if_true]
  exact hosted_findExported_hit hF ok H t hm hb

include hF ok H in
/-- from a scope where the name `A` denotes the hosting path `P` (`import type * as A`), `A.<namespace of t>.T` is the
    alias of `T` in that namespace -/
theorem hosted_qualified_outer {sc : Scope} {A : String}
    (hA : E.decls.resolveNsAux A (sc.length + 1) sc = some P)
    {td : TypeDef} {ty : Ty} (hm : td ∈ typeDefsOf doc) (hb : body (Ctx.new c doc t) td = .ok (some ty)) :
    E.decls.resolveQ sc [A, t.name, td.name] = some (aliasDecl c doc P t td ty) := by
  have hns : E.decls.namespaces.contains (P ++ [t.name]) = true := hosted_ns_mem hF H t
  have e1 : [t.name, td.name].dropLast = [t.name] := rfl
  have e2 : [t.name, td.name].getLast? = some td.name := rfl
  simp only [Decls.resolveQ, hA, e1, e2, hns, Bool.true_or, if_true]
  exact hosted_findExported_hit hF ok H t hm hb

/-! ### the top-level representatives -/

theorem repTarget_fits (td : TypeDef) : kindFits td.kind (repTarget td) = true := by
  unfold repTarget
  cases hk : td.kind <;> rfl

include hF ok H in
/-- the top-level alias of `td` (under its local name) admits exactly `Ref` of `td` for the target its representative
    points into: `__ResolverInput` for input objects, `__OperationOutput` for everything else -/
theorem hosted_rep_exact (hh : ∀ d f as, E.appHook d f as = none) {td : TypeDef} (hm : td ∈ typeDefsOf doc) (v : J) :
    Mem E v (Ty.abs P (lname c doc td.name)) ↔ Ref c ⟨doc⟩ (repTarget td) td.name v := by
  obtain ⟨ty, hb⟩ := fits_body hF (repTarget td) hm (repTarget_fits td)
  have hq := hosted_qualified_inner hF ok H (repTarget td) hm hb
  have hbody : E.decls.body? (P ++ [lname c doc td.name]) = some ([], absRef c doc P (repTarget td) td.name) := by
    simp only [Decls.body?, List.getLast?_concat, List.dropLast_concat, hosted_findLocal_top hF ok H hm, repDecl,
      globalise, List.contains_nil, Bool.false_eq_true, if_false, hq]
    rfl
  rw [Ty.abs, mem_alias_iff hbody]
  exact hosted_alias_exact hF ok H (repTarget td) hh hm (repTarget_fits td) v

include hF ok H in
/-- from a scope where `A` denotes the hosting path, `A.T` is the top-level representative of `T` -/
theorem hosted_qualified_top {sc : Scope} {A : String}
    (hA : E.decls.resolveNsAux A (sc.length + 1) sc = some P) {td : TypeDef} (hm : td ∈ typeDefsOf doc) :
    E.decls.resolveQ sc [A, td.name] = some (repDecl c doc P td) := by
  have e1 : [td.name].dropLast = [] := rfl
  have e2 : [td.name].getLast? = some td.name := rfl
  simp only [Decls.resolveQ, hA, e1, e2, List.append_nil, List.length_singleton, beq_self_eq_true, Bool.or_true,
    if_true]
  exact hosted_findExported_top hF ok H hm

end closed

end NitroVerif.SchemaDecls
