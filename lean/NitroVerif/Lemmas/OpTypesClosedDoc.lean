/-
C01/C02, second stage, fuels (part 5): whole documents, with the fuels the model really uses.

For a document the operation checker accepts (schema side conditions of prove-c08b's walk lemma, Lemmas/StagesGen*.lean)
that passes the coherence check, `OpTypes.resultTree` — `implTree` run with `fuelFor D = 2·docSize D + 4` and
`mfuelFor D = docSize D + 64` — returns a tree for every definition, provided the wrapper depth of the schema's field
types is not absurd: `(Dn + 1)·(G + 1) ≤ docSize D + 64`, `Dn` = any nesting bound the document fits, `G` = the deepest
list / non-null nesting of a field type.
-/
import NitroVerif.Lemmas.StagesGenC
import NitroVerif.Lemmas.OpTypesClosedDepth
import NitroVerif.Lemmas.OpTypesClosedNoPanic
namespace NitroVerif.OpTypes.Closed
open NitroVerif.Gql NitroVerif.CheckOp NitroVerif.Valid NitroVerif.OpTypes NitroVerif.OpTypes.Ref NitroVerif.Stages

theorem selOf_eq (x : ExecDef) : selOf x = selOfDef x := by cases x <;> rfl

/-- decidable form of `FitsDoc` -/
def fitsDocB (D : Doc) (R : Nat) : Bool := D.all fun x => (selOf x).all (fitsS (OpTypes.fragsOf D) R)

theorem fitsDoc_of_check {D : Doc} {R : Nat} (h : fitsDocB D R = true) : FitsDoc D R := by
  intro x hx s hs
  exact List.all_eq_true.1 (List.all_eq_true.1 h x hx) s hs

theorem fitsDoc_mono {D : Doc} {R R' : Nat} (hle : R ≤ R') (h : FitsDoc D R) : FitsDoc D R' :=
  fun x hx s hs => fitsS_le hle (h x hx s hs)

/-- the operation checker establishes that fragment names are unique -/
theorem fragsSelf_of_checked {S : Schema} {D : Doc} (h : checkOp S D = []) : FragsSelf D := by
  intro f hf
  rw [opFragsOf_eq_fragMap]
  refine fragMap_of_mem (accepted_nodup h) ?_
  simp only [CheckOp.fragsOf, List.mem_filterMap]
  exact ⟨_, hf, rfl⟩

theorem bvClosed_inDoc {D : Doc} {R mfuel : Nat} (hfit : FitsDoc D R) (hself : FragsSelf D) (hm : docSize D ≤ mfuel) :
    BVClosed (OpTypes.fragsOf D) mfuel (InDoc D) where
  ok := fun _ h => boolVars_inDoc hfit hself h hm
  field := fun ⟨x, hx, hni, hs⟩ hm => ⟨x, hx, hni, .field hs hm⟩
  inline := fun ⟨x, hx, hni, hs⟩ hm => ⟨x, hx, hni, .inline hs hm⟩
  spread := fun _ _ hF => ⟨.frag _, (fragsOf_mem hF).1, ⟨fun _ h => (by cases h), Closed.Sub.refl⟩⟩

section
variable {S : Schema} {D : Doc} (hS : schemaOkB S = true) (hI : ifaceOkB S = true) (hSI : skipIncludeB S = true)
  (h : checkOp S D = [])
include hS hI hSI h

/-- an accepted document has no fragment cycle: all its definitions fit some nesting bound -/
theorem fitsDoc_of_checked : ∃ R, FitsDoc D R := by
  have key : ∀ (L : List ExecDef), (∀ x ∈ L, x ∈ D) →
      ∃ R, ∀ x ∈ L, ∀ s ∈ selOf x, fitsS (OpTypes.fragsOf D) R s = true := by
    intro L
    induction L with
    | nil => intro _; exact ⟨0, fun _ hx => by cases hx⟩
    | cons y L ih =>
      intro hsub
      obtain ⟨R2, h2⟩ := ih (fun x hx => hsub x (List.mem_cons_of_mem _ hx))
      have h1 : ∃ R1, ∀ s ∈ selOf y, fitsS (OpTypes.fragsOf D) R1 s = true := by
        by_cases hni : ∀ i, y ≠ .imp i
        · obtain ⟨A, seen, vars, hA, hq⟩ := def_walked hS hI hSI h (hsub y (by simp)) hni
          obtain ⟨_, _, _, Dp, hDp⟩ := quietSet_ok hS hI hSI (accepted_condsDefined h) hA hq
          exact ⟨Dp, fun s hs => (hDp s (by rw [← selOf_eq]; exact hs)).1⟩
        · cases y with
          | imp i => exact ⟨0, fun _ hs => by cases hs⟩
          | op o => exact absurd (fun i => by simp) hni
          | frag f => exact absurd (fun i => by simp) hni
      obtain ⟨R1, h1⟩ := h1
      refine ⟨max R1 R2, fun x hx s hs => ?_⟩
      rcases List.mem_cons.1 hx with rfl | hx
      · exact fitsS_le (Nat.le_max_left _ _) (h1 s hs)
      · exact fitsS_le (Nat.le_max_right _ _) (h2 x hx s hs)
  obtain ⟨R, hR⟩ := key D (fun _ hx => hx)
  exact ⟨R, hR⟩

/-- … and, being cycle-free, fits its own size -/
theorem fitsDoc_docSize_of_checked : FitsDoc D (docSize D) := by
  obtain ⟨R, hR⟩ := fitsDoc_of_checked hS hI hSI h
  exact fitsDoc_docSize hR (fragsSelf_of_checked h)

/-- one definition: the model's own fuels suffice -/
theorem def_tree_model_fuels {x : ExecDef} (hx : x ∈ D) {Dc d : Nat} (hcoh : cohDefB S D Dc d x = true)
    {Dn : Nat} (hfitD : FitsDoc D Dn) (hG : (Dn + 1) * (fieldDepthBound S + 1) ≤ docSize D + 64) :
    ∀ r, resultTree S D x = some r → ∃ T, r = .ok T := by
  intro r hr
  by_cases hni : ∀ i, x ≠ .imp i
  · -- a bound that is at most the size of the document
    have hfitM : FitsDoc D (min Dn (docSize D)) := by
      rcases Nat.le_total Dn (docSize D) with hle | hle
      · rw [Nat.min_eq_left hle]; exact hfitD
      · rw [Nat.min_eq_right hle]; exact fitsDoc_docSize_of_checked hS hI hSI h
    generalize hDm : min Dn (docSize D) = Dm at hfitM
    have hDm1 : Dm ≤ Dn := by rw [← hDm]; exact Nat.min_le_left _ _
    have hDm2 : Dm ≤ docSize D := by rw [← hDm]; exact Nat.min_le_right _ _
    obtain ⟨A, seen, vars, hA, hq⟩ := def_walked hS hI hSI h hx hni
    obtain ⟨ct, hct, hcomp, Dp, hDp⟩ := quietSet_ok hS hI hSI (accepted_condsDefined h) hA hq
    have hpar := parentsOk_of_composite hS hct hcomp
    simp only [cohDefB, Bool.and_eq_true, List.all_eq_true] at hcoh
    have hC : ∀ d', Coh (ctxOf S D) d' (Sb1 (selOfDef x)) (rootNameOf S x) :=
      coh_of_cohB (ctxOf S D) Dc d (selOfDef x) (rootNameOf S x) hcoh.1 hcoh.2
    have hfitx : ∀ s ∈ selOfDef x, fitsS (OpTypes.fragsOf D) Dm s = true := by
      intro s hs; exact hfitM x hx s (by rw [selOf_eq]; exact hs)
    have E : NPEnv (ctxOf S D) (OpTypes.mfuelFor D) (fieldDepthBound S) Dm :=
      ⟨typeNamesNodup_of_valid hS, fieldDepth_of_check (c := ctxOf S D) (fieldDepthBound_ok S), by
        have : (Dm + 1) * (fieldDepthBound S + 1) ≤ (Dn + 1) * (fieldDepthBound S + 1) :=
          Nat.mul_le_mul_right _ (by omega)
        unfold OpTypes.mfuelFor; omega⟩
    have HB : BVClosed (ctxOf S D).F (OpTypes.mfuelFor D) (InDoc D) :=
      bvClosed_inDoc hfitM (fragsSelf_of_checked h) (by unfold OpTypes.mfuelFor; omega)
    have key : ∀ p : Pos, ∃ T, implTree S (OpTypes.fragsOf D) (OpTypes.mfuelFor D) (OpTypes.fuelFor D)
        (.nonNull (.named (rootNameOf S x) p)) (selOfDef x) = .ok T := by
      intro p
      exact implTree_ok' (c := ctxOf S D) HB E (Nat.le_refl _) (ty := .nonNull (.named (rootNameOf S x) p))
        (by unfold OpTypes.fuelFor; omega)
        (by simpa [GType.unwrapped, ctxOf] using hpar)
        (by
          intro o ho s hs
          exact selOkB_down Dm Dp o s ((hDp s hs).2 o (by simpa [GType.unwrapped, ctxOf] using ho)) (hfitx s hs))
        hfitx ⟨x, hx, hni, by rw [selOf_eq]; exact .refl⟩
        (by simpa [GType.unwrapped] using hC)
    cases x with
    | imp i => exact absurd rfl (hni i)
    | op o =>
      simp only [resultTree, Option.some.injEq] at hr
      subst hr
      exact key {}
    | frag f =>
      simp only [resultTree, Option.some.injEq] at hr
      subst hr
      exact key f.condPos
  · have : ∃ i, x = .imp i := by
      cases x with
      | imp i => exact ⟨i, rfl⟩
      | op o => exact absurd (fun i => by simp) hni
      | frag f => exact absurd (fun i => by simp) hni
    obtain ⟨i, rfl⟩ := this
    simp [resultTree] at hr

end

/-! ### the fuel of the executable specification -/

/-- `FuelOk` is a conjunction of two decidable facts: the selection set fits the nesting bound, and its expanded size is
    within the specification's fuel -/
theorem fuelOk_iff (c : Exec.Ctx) (Dn : Nat) (ss : List Selection) :
    FuelOk c Dn ss ↔ (ss.all (fits c.F Dn) = true ∧ eszL c.F Dn ss ≤ c.fuel) := by
  unfold FuelOk
  rw [List.all_eq_true]

end NitroVerif.OpTypes.Closed
