/-
`parse_no_panic`, the walk through the builders (helper lemmas for Props/C08), part 1: the framework and the
string / value / argument / directive / type builders.

`Good inp p` collects what is known of a pair `p` of a parse tree of `inp` that passed `validate_unicode_escapes`:
* `deep` — every pair of the tree has children in the shape of its rule (`run_children_in_shape`),
* `wit`  — every pair of the tree is witnessed by an evaluation of its rule's body on `inp` (`Lemmas/ParseWit.lean`),
* `esc`  — every `NormalStringValue` pair of the tree passed the loop of `validate_unicode_escapes` (fix fff8e9c: a `\u`
  escape denotes a scalar value or is half of a surrogate pair `\uHHHH\uLLLL` inside that string).
`Quiet r` says that the builder result `r` is a value or the model's own depth bound — never one of the Rust panics.
Each lemma `quiet_X` is: `Good inp p → p.rule = R.X → Quiet (buildX (Ctx.spec inp) … p)`. The matcher sites are
discharged by the kernel-evaluated acceptance of the extracted pattern against the shape of the GENERATED grammar
(`acc_*`), the text sites by `Lemmas/ParseText.lean`.
-/
import NitroVerif.Lemmas.ValueNoPanic
import NitroVerif.Lemmas.ParseText
namespace NitroVerif.Shape
open NitroVerif.Peg NitroVerif.Gen NitroVerif.Gen.Parts NitroVerif.Build NitroVerif.ParseText

/-- the computation ends in a value or in the model's own depth bound: no Rust panic -/
def Quiet {α} (r : M α) : Prop := ∀ e, r = .error e → e = Panic.fuel

theorem Quiet.ok {α} (a : α) : Quiet (.ok a : M α) := by intro e h; cases h
theorem Quiet.pure {α} (a : α) : Quiet (pure a : M α) := Quiet.ok a
theorem Quiet.fuel {α} : Quiet (.error .fuel : M α) := by intro e h; cases h; rfl
theorem Quiet.of_eq {α} {r : M α} {a : α} (h : r = .ok a) : Quiet r := h ▸ Quiet.ok a
theorem Quiet.of_ex {α} {r : M α} (h : ∃ a, r = .ok a) : Quiet r := let ⟨_, h⟩ := h; Quiet.of_eq h

theorem Quiet.bind {α β} {m : M α} {f : α → M β} (hm : Quiet m) (hf : ∀ a, m = .ok a → Quiet (f a)) :
    Quiet (m >>= f) := by
  intro e h
  cases hm' : m with
  | error e' =>
    rw [hm'] at h
    have h2 : (Except.error e' : M β) = .error e := h
    cases h2
    exact hm _ hm'
  | ok a =>
    rw [hm'] at h
    exact hf a hm' e h

theorem Quiet.mapM {α β} {f : α → M β} : ∀ {l : List α}, (∀ x ∈ l, Quiet (f x)) → Quiet (l.mapM f) := by
  intro l
  induction l with
  | nil => intro _; simp only [List.mapM_nil]; exact Quiet.pure _
  | cons x l ih =>
    intro h
    simp only [List.mapM_cons]
    refine Quiet.bind (h x (List.mem_cons_self ..)) fun b _ => ?_
    refine Quiet.bind (ih fun y hy => h y (List.mem_cons_of_mem _ hy)) fun bs _ => Quiet.pure _

theorem Quiet.of_noPanic {α} {r : M α} (h : NoPanic r) : Quiet r := by
  rcases h with ⟨v, hv⟩ | hv
  · exact Quiet.of_eq hv
  · exact hv ▸ Quiet.fuel

theorem ok_bind {α β} (a : α) (f : α → M β) : ((Except.ok a : M α) >>= f) = f a := rfl

/-! ### `Good` -/

theorem flat_sub_flatList {q c : Pair} : ∀ {cs : List Pair}, c ∈ cs → q ∈ flat c → q ∈ flatList cs := by
  intro cs
  induction cs with
  | nil => intro h; cases h
  | cons x cs ih =>
    intro hc hq
    simp only [flatList, List.mem_append]
    rcases List.mem_cons.mp hc with rfl | hc
    · exact Or.inl hq
    · exact Or.inr (ih hc hq)

theorem self_mem_flat (p : Pair) : p ∈ flat p := by
  cases p; simp [flat]

theorem child_flat {p c q : Pair} (hc : c ∈ p.children) (hq : q ∈ flat c) : q ∈ flat p := by
  cases p with
  | mk r s e cs =>
    simp only [flat, List.mem_cons]
    exact Or.inr (flat_sub_flatList hc hq)

structure Good (inp : List Char) (p : Pair) : Prop where
  deep : DeepOk gList p
  wit : Wit gList inp p
  esc : ∀ q ∈ flat p, q.rule = R.NormalStringValue → scanEscapes (Ctx.spec inp) none (stringCharacters q) = none

theorem Good.child {inp : List Char} {p c : Pair} (h : Good inp p) (hc : c ∈ p.children) : Good inp c :=
  ⟨(deep_parts h.deep).2 c hc, h.wit.children c hc, fun q hq hr => h.esc q (child_flat hc hq) hr⟩

/-- `only_child()` + dispatch -/
theorem Good.only {inp : List Char} {p : Pair} {allowed : List RuleId} (h : Good inp p) (site : String)
    (hacc : accepts (.onlyChild allowed) (ruleShape gList p.rule) = true) :
    ∃ c, p.children = [c] ∧ (allowed = [] ∨ c.rule ∈ allowed) ∧ Good inp c ∧ onlyChildOf allowed site p = .ok c ∧
      onlyChild p = .ok c := by
  obtain ⟨hm, _⟩ := deep_parts h.deep
  obtain ⟨c, hc, ha⟩ := only_child_of_shape hacc hm
  refine ⟨c, hc, ha, h.child (by simp [hc]), ?_, ?_⟩
  · simp [onlyChildOf, onlyChild, hc, ha, bind, Except.bind]
  · simp [onlyChild, hc]

theorem Good.all {inp : List Char} {p : Pair} {r : RuleId} (h : Good inp p)
    (hacc : accepts (.allChildren r) (ruleShape gList p.rule) = true) :
    allChildren r p = .ok p.children ∧ ∀ c ∈ p.children, c.rule = r ∧ Good inp c := by
  obtain ⟨h1, h2⟩ := allChildren_of_shape hacc h.deep
  exact ⟨h1, fun c hc => ⟨(h2 c hc).1, h.child hc⟩⟩

theorem Good.parts {inp : List Char} {p : Pair} {items : List Item} (h : Good inp p)
    (hacc : accepts (.parts items) (ruleShape gList p.rule) = true) :
    ∃ l, matchParts items p.children = .ok l ∧ ResOk items l p.children :=
  parts_of_shape hacc (deep_parts h.deep).1

theorem resOk_cons_req {r : RuleId} {is : List Item} {l : List (Option Pair)} {cs : List Pair}
    (h : ResOk (.req r :: is) l cs) : ∃ p l', l = some p :: l' ∧ p.rule = r ∧ p ∈ cs ∧ ResOk is l' cs := by
  rcases l with _ | ⟨o, l'⟩
  · simp [ResOk] at h
  · cases o with
    | none => simp [ResOk] at h
    | some p => exact ⟨p, l', rfl, by simpa [ResOk] using h⟩

theorem resOk_cons_opt {r : RuleId} {is : List Item} {l : List (Option Pair)} {cs : List Pair}
    (h : ResOk (.opt r :: is) l cs) :
    ∃ o l', l = o :: l' ∧ (∀ p, o = some p → p.rule = r ∧ p ∈ cs) ∧ ResOk is l' cs := by
  rcases l with _ | ⟨o, l'⟩
  · simp [ResOk] at h
  · exact ⟨o, l', rfl, by simpa [ResOk] using h⟩

theorem resOk_nil {l : List (Option Pair)} {cs : List Pair} (h : ResOk [] l cs) : l = [] := by
  cases l with
  | nil => rfl
  | cons o l => simp [ResOk] at h

/-! ### strings -/

theorem escape_decodes {digits : List Char} (h : escapeDenotesChar digits = true) :
    ∃ c, (parseHexU32 digits >>= fun n => charFromU32 n) = .ok c := by
  unfold escapeDenotesChar at h
  cases hp : parseHexU32 digits with
  | error e => simp [hp] at h
  | ok n =>
    simp only [hp] at h
    exact ⟨Char.ofNat n, by simp [bind, Except.bind, charFromU32, h]⟩

/-- one `StringCharacter` that is not a `\uXXXX` escape; a `\u{…}` escape must have passed the validation -/
theorem quiet_decodeChar {inp : List Char} {sc ch : Pair} (hg : Good inp sc)
    (hoc : onlyChildOf OC_StringCharacter "StringCharacter" sc = .ok ch) (hch : ch.rule ∈ OC_StringCharacter)
    (hgch : Good inp ch) (hne : ch.rule ≠ R.EscapedUnicode4)
    (hbr : ch.rule = R.EscapedUnicodeBrace → escapeDenotesChar (((asStr (Ctx.spec inp) ch).drop 3).take
      ((asStr (Ctx.spec inp) ch).length - 4)) = true) :
    Quiet (decodeChar (Ctx.spec inp) sc) := by
  unfold decodeChar
  rw [hoc, ok_bind]
  by_cases h1 : ch.rule = R.EscapedUnicodeBrace
  · rw [if_pos h1]
    obtain ⟨d, _, _, _, hod, _⟩ := hgch.only "EscapedUnicodeBrace" (h1 ▸ acc_EscapedUnicodeBrace)
    obtain ⟨d', hd', htxt⟩ := unicodeBrace_child hgch.wit h1
    have hdd : d = d' := by
      have : onlyChildOf OC_EscapedUnicodeBrace "EscapedUnicodeBrace" ch = .ok d' := by
        simp [onlyChildOf, onlyChild, hd', OC_EscapedUnicodeBrace, bind, Except.bind]
      rw [hod] at this
      cases this; rfl
    subst hdd
    rw [hod, ok_bind]
    have hbad := hbr h1
    rw [← htxt] at hbad
    exact Quiet.of_ex (escape_decodes hbad)
  · rw [if_neg h1, if_neg hne]
    by_cases h3 : ch.rule = R.EscapedCharacter
    · rw [if_pos h3]
      exact Quiet.of_ex (escapedCharacter_ok hgch.wit h3)
    · rw [if_neg h3]
      by_cases h4 : ch.rule = R.NormalStringCharacter
      · rw [if_pos h4]
        obtain ⟨d, hd⟩ := normalChar_text hgch.wit h4
        rw [hd]
        exact Quiet.ok _
      · simp [OC_StringCharacter, h1, hne, h3, h4] at hch

theorem Quiet.map {α β} {m : M α} {f : α → β} (hm : Quiet m) : Quiet (f <$> m) := by
  intro e h
  cases hm' : m with
  | error e' =>
    rw [hm'] at h
    have h2 : (Except.error e' : M β) = .error e := h
    cases h2
    exact hm _ hm'
  | ok a => rw [hm'] at h; cases h

theorem hexOk_some {digits : List Char} {c : Nat} (h : hexOk digits = some c) : parseHexU32 digits = .ok c := by
  unfold hexOk at h
  cases hp : parseHexU32 digits with
  | ok n => rw [hp] at h; cases h; rfl
  | error e => rw [hp] at h; cases h

/-- the code of a `\uXXXX` pair of a parse tree whose digits parse -/
theorem unicode4Code_of_hexOk {inp : List Char} {ch : Pair} {c : Nat} (hw : Wit gList inp ch)
    (hr : ch.rule = R.EscapedUnicode4) (h : hexOk ((asStr (Ctx.spec inp) ch).drop 2) = some c) :
    unicode4Code (Ctx.spec inp) ch = .ok c := by
  have hlen := unicode4_len hw hr
  unfold unicode4Code
  dsimp only
  rw [if_neg (by omega)]
  exact hexOk_some h

/-- the characters of a string are `StringCharacter` pairs of the tree -/
def CharsOk (inp : List Char) (l : List Pair) : Prop := ∀ sc ∈ l, sc.rule = R.StringCharacter ∧ Good inp sc

theorem charsOk_head {inp : List Char} {sc : Pair} {rest : List Pair} (h : CharsOk inp (sc :: rest)) :
    ∃ ch, sc.children = [ch] ∧ ch.rule ∈ OC_StringCharacter ∧ Good inp ch ∧
      onlyChildOf OC_StringCharacter "StringCharacter" sc = .ok ch ∧ onlyChild sc = .ok ch := by
  obtain ⟨hr, hg⟩ := h sc (List.mem_cons_self ..)
  obtain ⟨ch, hc, hch, hgch, hoc, hoc'⟩ := hg.only "StringCharacter" (hr ▸ acc_StringCharacter)
  refine ⟨ch, hc, ?_, hgch, hoc, hoc'⟩
  rcases hch with h | h
  · simp [OC_StringCharacter] at h
  · exact h

/-- the loop of `build_string_value` on the characters of a string that passed the loop of `validate_unicode_escapes`
    (fix fff8e9c) never panics. (a) no pending lead; (b) a leading surrogate is pending: the next character is its trailing
    surrogate, which the builder peeks and skips. -/
theorem quiet_decodeChars {inp : List Char} : ∀ (l : List Pair), CharsOk inp l →
    (scanEscapes (Ctx.spec inp) none (l.flatMap Pair.children) = none → Quiet (decodeChars (Ctx.spec inp) false l)) ∧
    (∀ lead, scanEscapes (Ctx.spec inp) (some lead) (l.flatMap Pair.children) = none →
      (∃ t, peekTrailing (Ctx.spec inp) l = .ok (some t) ∧ isTrailSurrogate t = true) ∧
      Quiet (decodeChars (Ctx.spec inp) true l)) := by
  intro l
  induction l with
  | nil =>
    intro _
    refine ⟨fun _ => ?_, fun lead h => ?_⟩
    · rw [decodeChars_nil]; exact Quiet.ok _
    · simp [scanEscapes] at h
  | cons sc rest ih =>
    intro hl
    obtain ⟨ch, hc, hch, hgch, hoc, hoc'⟩ := charsOk_head hl
    obtain ⟨iha, ihb⟩ := ih fun x hx => hl x (List.mem_cons_of_mem _ hx)
    have hflat : (sc :: rest).flatMap Pair.children = ch :: rest.flatMap Pair.children := by
      simp [List.flatMap_cons, hc]
    rw [hflat]
    have hgsc := (hl sc (List.mem_cons_self ..)).2
    -- what the builder peeks at `rest` when nothing is pending there
    have hpeek : scanEscapes (Ctx.spec inp) none (rest.flatMap Pair.children) = none →
        ∃ tr, peekTrailing (Ctx.spec inp) rest = .ok tr := by
      intro hs
      cases rest with
      | nil => exact ⟨none, peekTrailing_nil _⟩
      | cons sc2 r2 =>
        obtain ⟨ch2, hc2, _, hgch2, _, hoc2'⟩ := charsOk_head (fun x hx => hl x (List.mem_cons_of_mem _ hx))
        rw [peekTrailing_cons _ r2 hoc2']
        by_cases hu2 : ch2.rule = R.EscapedUnicode4
        · have hflat2 : (sc2 :: r2).flatMap Pair.children = ch2 :: r2.flatMap Pair.children := by
            simp [List.flatMap_cons, hc2]
          rw [hflat2] at hs
          cases hx : hexOk ((asStr (Ctx.spec inp) ch2).drop 2) with
          | none => simp [scanEscapes, hu2, hx] at hs
          | some c2 =>
            rw [trailingSurrogate_u4 _ hu2 (unicode4Code_of_hexOk hgch2.wit hu2 hx)]
            exact ⟨_, rfl⟩
        · rw [trailingSurrogate_other _ hu2]; exact ⟨_, rfl⟩
    refine ⟨fun hs => ?_, fun lead hs => ?_⟩
    · by_cases hu : ch.rule = R.EscapedUnicode4
      · cases hx : hexOk ((asStr (Ctx.spec inp) ch).drop 2) with
        | none => simp [scanEscapes, hu, hx] at hs
        | some code =>
          have hcode := unicode4Code_of_hexOk hgch.wit hu hx
          simp only [scanEscapes, hu, if_true, hx] at hs
          by_cases hlead : isLeadSurrogate code = true
          · rw [if_pos hlead] at hs
            obtain ⟨⟨t, hpk, ht⟩, hq⟩ := ihb ch hs
            rw [decodeChars_u4 _ rest hoc hu hcode hpk]
            show Quiet (if isLeadSurrogate code = true then _ else _)
            rw [if_pos hlead]
            refine Quiet.bind (Quiet.of_eq (a := Char.ofNat (surrogatePairCode code t)) ?_) fun c _ => Quiet.map hq
            simp [charFromU32, (surrogatePair_valid hlead ht).1]
          · rw [if_neg hlead] at hs
            by_cases hv : validScalar code = true
            · rw [if_pos hv] at hs
              obtain ⟨tr, hpk⟩ := hpeek hs
              rw [decodeChars_u4 _ rest hoc hu hcode hpk]
              have hq := iha hs
              have hc1 : Quiet (charFromU32 code) := Quiet.of_eq (a := Char.ofNat code) (by simp [charFromU32, hv])
              cases tr with
              | none => exact Quiet.bind hc1 fun c _ => Quiet.map hq
              | some t =>
                show Quiet (if isLeadSurrogate code = true then _ else _)
                rw [if_neg hlead]
                exact Quiet.bind hc1 fun c _ => Quiet.map hq
            · rw [if_neg hv] at hs; cases hs
      · have hs' : scanEscapes (Ctx.spec inp) none (rest.flatMap Pair.children) = none ∧
            (ch.rule = R.EscapedUnicodeBrace → escapeDenotesChar (((asStr (Ctx.spec inp) ch).drop 3).take
              ((asStr (Ctx.spec inp) ch).length - 4)) = true) := by
          simp only [scanEscapes, hu, if_false] at hs
          by_cases hb : ch.rule = R.EscapedUnicodeBrace
          · simp only [hb, if_true] at hs
            by_cases he : escapeDenotesChar (((asStr (Ctx.spec inp) ch).drop 3).take
                ((asStr (Ctx.spec inp) ch).length - 4)) = true
            · rw [if_pos he] at hs; exact ⟨hs, fun _ => he⟩
            · rw [if_neg he] at hs; cases hs
          · simp only [hb, if_false] at hs; exact ⟨hs, fun h => absurd h hb⟩
        rw [decodeChars_other _ rest hoc hu]
        exact Quiet.bind (quiet_decodeChar hgsc hoc hch hgch hu hs'.2) fun c _ => Quiet.map (iha hs'.1)
    · -- a lead is pending: this character must be its trailing surrogate
      by_cases hu : ch.rule = R.EscapedUnicode4
      · cases hx : hexOk ((asStr (Ctx.spec inp) ch).drop 2) with
        | none => simp [scanEscapes, hu, hx] at hs
        | some code =>
          simp only [scanEscapes, hu, if_true, hx] at hs
          by_cases ht : isTrailSurrogate code = true
          · rw [if_pos ht] at hs
            refine ⟨⟨code, ?_, ht⟩, ?_⟩
            · rw [peekTrailing_cons _ rest hoc', trailingSurrogate_u4 _ hu (unicode4Code_of_hexOk hgch.wit hu hx), if_pos ht]
            · rw [decodeChars_skip]; exact iha hs
          · rw [if_neg ht] at hs; cases hs
      · simp only [scanEscapes, hu, if_false] at hs
        by_cases hb : ch.rule = R.EscapedUnicodeBrace
        · simp [hb] at hs
        · simp [hb] at hs

theorem quiet_stringValueChars {inp : List Char} {p : Pair} (hg : Good inp p) (hr : p.rule = R.StringValue) :
    Quiet (stringValueChars (Ctx.spec inp) p) := by
  obtain ⟨c, _, hc, hgc, hoc, _⟩ := hg.only "StringValue" (hr ▸ acc_StringValue)
  unfold stringValueChars
  rw [hoc, ok_bind]
  split
  · exact Quiet.ok _
  · split
    · rename_i h1 h2
      have := blockString_len hgc.wit h2
      have hn : ¬ (asStr (Ctx.spec inp) c).length < 6 := by omega
      simp only [hn, if_false]
      exact Quiet.ok _
    · split
      · rename_i h1 h2 h3
        obtain ⟨_, hall⟩ := hgc.all (h3 ▸ acc_NormalStringValue)
        have hscan := hgc.esc c (self_mem_flat c) h3
        refine Quiet.bind ((quiet_decodeChars c.children hall).1 hscan) fun cs _ => Quiet.ok _
      · rename_i h1 h2 h3
        have : c.rule ∈ OC_StringValue := by
          rcases hc with h | h
          · simp [OC_StringValue] at h
          · exact h
        simp [OC_StringValue, h1, h2, h3] at this

theorem quiet_buildStringValue {inp : List Char} {p : Pair} (hg : Good inp p) (hr : p.rule = R.StringValue) :
    Quiet (buildStringValue (Ctx.spec inp) p) := by
  unfold buildStringValue
  exact Quiet.bind (quiet_stringValueChars hg hr) fun ⟨cs, pos⟩ _ => Quiet.ok _

theorem quiet_buildVariable {inp : List Char} {p : Pair} (hg : Good inp p) (hr : p.rule = R.Variable) :
    Quiet (buildVariable (Ctx.spec inp) p) := by
  obtain ⟨c, _, _, _, hoc, _⟩ := hg.only "Variable" (hr ▸ acc_Variable)
  unfold buildVariable
  rw [hoc]
  exact Quiet.ok _

/-! ### values, arguments, directives -/

theorem quiet_buildValue {inp : List Char} : ∀ fuel {p : Pair}, Good inp p → p.rule = R.Value →
    Quiet (buildValue (Ctx.spec inp) fuel p) := by
  intro fuel
  induction fuel with
  | zero => intro p _ _; simp only [buildValue]; exact Quiet.fuel
  | succ fuel ih =>
    intro p hg hr
    obtain ⟨c, _, hc, hgc, hoc, _⟩ := hg.only "Value" (hr ▸ acc_Value)
    simp only [buildValue]
    rw [hoc, ok_bind]
    split
    · rename_i h1
      exact Quiet.bind (quiet_buildVariable hgc h1) fun ⟨n, vp⟩ _ => Quiet.ok _
    · split
      · exact Quiet.ok _
      · split
        · exact Quiet.ok _
        · split
          · rename_i h1
            exact Quiet.bind (quiet_buildStringValue hgc h1) fun ⟨s, sp⟩ _ => Quiet.ok _
          · split
            · rename_i h1
              obtain ⟨kw, _, hkw, _, hok, _⟩ := hgc.only "BooleanValue" (h1 ▸ acc_BooleanValue)
              rw [hok, ok_bind]
              split
              · exact Quiet.ok _
              · split
                · exact Quiet.ok _
                · rename_i k1 k2
                  rcases hkw with h | h
                  · simp [OC_BooleanValue] at h
                  · simp [OC_BooleanValue, k1, k2] at h
            · split
              · exact Quiet.ok _
              · split
                · exact Quiet.ok _
                · split
                  · rename_i h1
                    obtain ⟨hall, hcs⟩ := hgc.all (h1 ▸ acc_ListValue)
                    rw [hall, ok_bind]
                    refine Quiet.bind (Quiet.mapM fun v hv => ?_) fun vs _ => Quiet.ok _
                    exact ih (hcs v hv).2 (hcs v hv).1
                  · split
                    · rename_i h1
                      obtain ⟨hall, hcs⟩ := hgc.all (h1 ▸ acc_ObjectValue)
                      rw [hall, ok_bind]
                      refine Quiet.bind (Quiet.mapM fun f hf => ?_) fun fs _ => Quiet.ok _
                      obtain ⟨hfr, hgf⟩ := hcs f hf
                      have hfr' : f.rule = R.ObjectField := hfr
                      obtain ⟨l, hl, hres⟩ := hgf.parts (hfr' ▸ acc_ObjectField)
                      obtain ⟨n, l, rfl, _, _, hres⟩ := resOk_cons_req hres
                      obtain ⟨v, l, rfl, hvr, hvm, hres⟩ := resOk_cons_req hres
                      cases resOk_nil hres
                      rw [hl, ok_bind]
                      simp only [get2, ok_bind]
                      exact Quiet.bind (ih (hgf.child hvm) hvr) fun v' _ => Quiet.ok _
                    · rename_i h1 h2 h3 h4 h5 h6 h7 h8 h9
                      rcases hc with h | h
                      · simp [OC_Value] at h
                      · simp [OC_Value, h1, h2, h3, h4, h5, h6, h7, h8, h9] at h

theorem quiet_buildArguments {inp : List Char} (fuel : Nat) {p : Pair} (hg : Good inp p) (hr : p.rule = R.Arguments) :
    Quiet (buildArguments (Ctx.spec inp) fuel p) := by
  obtain ⟨hall, hcs⟩ := hg.all (hr ▸ acc_Arguments)
  unfold buildArguments
  rw [hall, ok_bind]
  refine Quiet.mapM fun a ha => ?_
  obtain ⟨har, hga⟩ := hcs a ha
  have har' : a.rule = R.Argument := har
  obtain ⟨l, hl, hres⟩ := hga.parts (har' ▸ acc_Argument)
  obtain ⟨n, l, rfl, _, _, hres⟩ := resOk_cons_req hres
  obtain ⟨v, l, rfl, hvr, hvm, hres⟩ := resOk_cons_req hres
  cases resOk_nil hres
  rw [hl, ok_bind]
  simp only [get2, ok_bind]
  exact Quiet.bind (quiet_buildValue fuel (hga.child hvm) hvr) fun v' _ => Quiet.ok _

/-- an optional `parts!` item: if present it has the rule and is one of the children -/
abbrev OptOf (r : RuleId) (p : Pair) (o : Option Pair) : Prop := ∀ q, o = some q → q.rule = r ∧ q ∈ p.children

theorem quiet_optArgs {inp : List Char} (fuel : Nat) {p : Pair} (hg : Good inp p) {o : Option Pair}
    (ho : OptOf R.Arguments p o) : Quiet (optArgs (Ctx.spec inp) fuel o) := by
  cases o with
  | none => exact Quiet.ok _
  | some a => exact quiet_buildArguments fuel (hg.child (ho a rfl).2) (ho a rfl).1

theorem quiet_buildDirectives {inp : List Char} (fuel : Nat) {p : Pair} (hg : Good inp p) (hr : p.rule = R.Directives) :
    Quiet (buildDirectives (Ctx.spec inp) fuel p) := by
  obtain ⟨hall, hcs⟩ := hg.all (hr ▸ acc_Directives)
  unfold buildDirectives
  rw [hall, ok_bind]
  refine Quiet.mapM fun d hdm => ?_
  obtain ⟨hdr, hgd⟩ := hcs d hdm
  have hdr' : d.rule = R.Directive := hdr
  obtain ⟨l, hl, hres⟩ := hgd.parts (hdr' ▸ acc_Directive)
  obtain ⟨n, l, rfl, _, _, hres⟩ := resOk_cons_req hres
  obtain ⟨o, l, rfl, ho, hres⟩ := resOk_cons_opt hres
  cases resOk_nil hres
  rw [hl, ok_bind]
  exact Quiet.bind (quiet_optArgs fuel hgd ho) fun args _ => Quiet.ok _

theorem quiet_optDirs {inp : List Char} (fuel : Nat) {p : Pair} (hg : Good inp p) {o : Option Pair}
    (ho : OptOf R.Directives p o) : Quiet (optDirs (Ctx.spec inp) fuel o) := by
  cases o with
  | none => exact Quiet.ok _
  | some a => exact quiet_buildDirectives fuel (hg.child (ho a rfl).2) (ho a rfl).1

theorem quiet_buildType {inp : List Char} (fuel : Nat) {p : Pair} (hg : Good inp p) (hr : p.rule = R.«Type») :
    Quiet (buildType (Ctx.spec inp) fuel p) :=
  Quiet.of_noPanic ((buildType_noPanic (Ctx.spec inp) fuel).1 p hg.deep hr)

theorem acc_DefaultValue : accepts (.onlyChild OC_DefaultValue) (ruleShape gList R.DefaultValue) = true := by
  decide +kernel

theorem quiet_optDefault {inp : List Char} (fuel : Nat) {p : Pair} (hg : Good inp p) {o : Option Pair}
    (ho : OptOf R.DefaultValue p o) : Quiet (optDefault (Ctx.spec inp) fuel o) := by
  cases o with
  | none => exact Quiet.ok _
  | some dv =>
    obtain ⟨hdr, hdm⟩ := ho dv rfl
    obtain ⟨c, _, hc, hgc, _, hoc⟩ := (hg.child hdm).only "DefaultValue" (hdr ▸ acc_DefaultValue)
    have hcr : c.rule = R.Value := by
      rcases hc with h | h
      · simp [OC_DefaultValue] at h
      · simpa [OC_DefaultValue] using h
    simp only [optDefault]
    rw [hoc, ok_bind]
    exact Quiet.bind (quiet_buildValue fuel hgc hcr) fun v _ => Quiet.ok _

end NitroVerif.Shape
