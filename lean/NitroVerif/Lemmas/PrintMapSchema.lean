import NitroVerif.Lemmas.PrintMap
/-!
# C06 — printer call sites: the schema type printer

`schemaSites c doc` is a closed form (no `TSType`, no writer operations other than the mapped calls) of the `write_for`
calls with a non-builtin position that `SchemaTypePrinter::print_document` performs, in order;
`schemaOps_mapped` shows it is exactly the projection of the modelled operation sequence.
-/
namespace NitroVerif.PrintMap
open NitroVerif.Gql NitroVerif.DeclCfg NitroVerif.SchemaDecls

/-! ### sites of the constructed types -/

theorem tySitesList_append (a b : List TSTy) : tySitesList (a ++ b) = tySitesList a ++ tySitesList b := by
  induction a with
  | nil => simp [tySitesList]
  | cons t a ih => simp [tySitesList, ih]

theorem tySitesList_map {α} (l : List α) (f : α → TSTy) :
    tySitesList (l.map f) = l.flatMap (fun a => tySites (f a)) := by
  induction l with
  | nil => simp [tySitesList]
  | cons a l ih => simp [tySitesList, ih]

theorem fieldSites_map {α} (l : List α) (f : α → TSField) :
    fieldSites (l.map f) = l.flatMap (fun a => fieldSites [f a]) := by
  induction l with
  | nil => simp [fieldSites]
  | cons a l ih =>
    simp only [List.map_cons, List.flatMap_cons, ← ih]
    cases f a with
    | mk k kp ty ro opt d => simp [fieldSites]

theorem fieldSites_filterMap {α} (l : List α) (f : α → Option TSField) :
    fieldSites (l.filterMap f) = l.flatMap (fun a => match f a with | some x => fieldSites [x] | none => []) := by
  induction l with
  | nil => simp [fieldSites]
  | cons a l ih =>
    simp only [List.filterMap_cons, List.flatMap_cons]
    cases h : f a with
    | none => simpa using ih
    | some x =>
      cases x with
      | mk k kp ty ro opt d => simp [fieldSites, ih]

theorem tySites_tsUnion (ts : List TSTy) : tySites (tsUnion ts) = tySitesList ts := by
  match ts with
  | [] => simp [tsUnion, tySites, tySitesList]
  | [t] => simp [tsUnion, tySitesList]
  | t :: u :: r => simp [tsUnion, tySites]

/-- position of the named type at the bottom of a type reference -/
def leafPos : GType → Pos
  | .named _ p => p
  | .list t _ => leafPos t
  | .nonNull t => leafPos t

theorem tySites_tsOfTypeImpl (leaf : Name → Pos → TSTy) (t : GType) :
    tySites (tsOfTypeImpl leaf t).1 = tySites (leaf t.unwrapped (leafPos t)) := by
  induction t with
  | named n p => simp [tsOfTypeImpl, GType.unwrapped, leafPos]
  | list t p ih =>
    simp only [tsOfTypeImpl, GType.unwrapped, leafPos]
    split <;> simp [tySites, tySitesList, ih]
  | nonNull t ih => simp [tsOfTypeImpl, GType.unwrapped, leafPos, ih]

theorem tySites_tsOfType (leaf : Name → Pos → TSTy) (t : GType) :
    tySites (tsOfType leaf t) = tySites (leaf t.unwrapped (leafPos t)) := by
  unfold tsOfType
  rw [← tySites_tsOfTypeImpl]
  generalize tsOfTypeImpl leaf t = r
  obtain ⟨i, nullable⟩ := r
  cases nullable <;> simp [tySites, tySitesList]

mutual
theorem tySites_intoReadonly : ∀ t : TSTy, tySites (intoReadonly t) = tySites t
  | .var _ _ => by simp [intoReadonly]
  | .func f args => by simp [intoReadonly, tySites, tySitesList_intoReadonly args]
  | .strLit _ => by simp [intoReadonly]
  | .ns2 _ _ => by simp [intoReadonly]
  | .ns3 _ _ _ => by simp [intoReadonly]
  | .obj fs => by simp [intoReadonly, tySites, fieldSites_readonly fs]
  | .arr t => by simp [intoReadonly, tySites, tySites_intoReadonly t]
  | .roArr t => by simp [intoReadonly, tySites, tySites_intoReadonly t]
  | .union ts => by simp [intoReadonly, tySites, tySitesList_intoReadonly ts]
  | .inter ts => by simp [intoReadonly, tySites, tySitesList_intoReadonly ts]
  | .undefined => by simp [intoReadonly]
  | .null => by simp [intoReadonly]
  | .never => by simp [intoReadonly]
  | .unknown => by simp [intoReadonly]
  | .raw _ => by simp [intoReadonly]
theorem tySitesList_intoReadonly : ∀ ts : List TSTy, tySitesList (intoReadonlyList ts) = tySitesList ts
  | [] => by simp [intoReadonlyList]
  | t :: ts => by simp [intoReadonlyList, tySitesList, tySites_intoReadonly t, tySitesList_intoReadonly ts]
theorem fieldSites_readonly : ∀ fs : List TSField, fieldSites (fieldsReadonly fs) = fieldSites fs
  | [] => by simp [fieldsReadonly]
  | .mk k kp ty ro opt d :: r => by simp [fieldsReadonly, fieldSites, fieldSites_readonly r]
end

/-- the mapped call of an object key: only keys printed as raw identifiers go through `write_for` -/
def keySites (k : String) (p : Pos) : List POp := if isRawIdent k then node k p k else []

@[simp] theorem keySites_builtin (k : String) : keySites k bi = [] := by
  unfold keySites; split <;> simp

theorem tySites_localLeaf (x : Ctx) (t : GType) : tySites (tsOfType (localLeaf x) t) = [] := by
  rw [tySites_tsOfType]; simp [localLeaf, tySites]

/-! ### one type definition inside a namespace -/

/-- `"export type "` when the definition keeps its name, `"type "` when it is emitted under a `__tmp_` local name -/
def headerText (td : TypeDef) (localName : String) : String :=
  if td.name == localName then "export type " else "type "

/-- the two mapped calls of a declaration header: the keyword node, then the definition's NAME node -/
def headerSites (td : TypeDef) (localName : String) : List POp :=
  node (headerText td localName) td.pos (keywordOf td.kind) ++ node localName td.namePos td.name

/-- the mapped calls inside the body of a declaration -/
def bodySites (x : Ctx) (td : TypeDef) : List POp :=
  match td.kind with
  | .object => td.fields.flatMap fun f => keySites f.name f.pos
  | .union => td.members.flatMap fun m => if x.local m.1 == m.1 then node m.1 m.2 m.1 else []
  | .input => td.inputs.flatMap fun f => keySites f.name f.pos
  | _ => []

/-- is a definition of this kind printed in the namespace of the context's target? -/
def printed (x : Ctx) (td : TypeDef) : Bool :=
  match td.kind with
  | .scalar | .enum => true
  | .object | .interface | .union => !x.target.isInput
  | .input => !x.target.isOutput

def typeSites (x : Ctx) (td : TypeDef) : List POp :=
  if printed x td then headerSites td (x.local td.name) ++ bodySites x td else []

def itemSites (x : Ctx) : TsItem → List POp
  | .typeDef td => typeSites x td
  | _ => []

theorem mapped_exportTypeOps (td : TypeDef) (l : String) (body : List POp) :
    mappedOps (exportTypeOps td l body) = headerSites td l ++ mappedOps body := by
  unfold exportTypeOps headerSites headerText
  split <;> simp

theorem bodyOps_mapped (x : Ctx) (td : TypeDef) (r : Option (List POp)) (h : bodyOps x td = .ok r) :
    (r = none ∧ printed x td = false) ∨ (∃ b, r = some b ∧ printed x td = true ∧ mappedOps b = bodySites x td) := by
  unfold bodyOps at h
  cases hk : td.kind <;> simp only [hk] at h
  · -- scalar
    split at h
    · cases h; exact .inr ⟨_, rfl, by simp [printed, hk], by simp [bodySites, hk]⟩
    · cases h
  · -- object
    cases ht : x.target.isInput <;> simp only [ht] at h <;> cases h
    · refine .inr ⟨_, rfl, by simp [printed, hk, ht], ?_⟩
      rw [mapped_printTy]
      simp only [objectTy, tySites, fieldSites, plainField, node_builtin, bodySites, hk]
      rw [fieldSites_map]
      simp [fieldSites, tySites_localLeaf, keySites]
    · exact .inl ⟨rfl, by simp [printed, hk, ht]⟩
  · -- interface
    cases ht : x.target.isInput <;> simp only [ht] at h <;> cases h
    · refine .inr ⟨_, rfl, by simp [printed, hk, ht], ?_⟩
      rw [mapped_printTy]
      simp [interfaceTy, tySites_tsUnion, tySitesList_map, tySites, bodySites, hk]
    · exact .inl ⟨rfl, by simp [printed, hk, ht]⟩
  · -- union
    cases ht : x.target.isInput <;> simp only [ht] at h <;> cases h
    · refine .inr ⟨_, rfl, by simp [printed, hk, ht], ?_⟩
      rw [mapped_printTy]
      simp only [unionTy, tySites_tsUnion, tySitesList_map, bodySites, hk]
      congr 1
      funext m
      split <;> simp [tySites]
    · exact .inl ⟨rfl, by simp [printed, hk, ht]⟩
  · -- enum
    cases h
    refine .inr ⟨_, rfl, by simp [printed, hk], ?_⟩
    rw [mapped_printTy]
    simp [enumTy, tySites, tySitesList_map, bodySites, hk]
  · -- input
    cases ht : x.target.isOutput <;> simp only [ht] at h <;> cases h
    · refine .inr ⟨_, rfl, by simp [printed, hk, ht], ?_⟩
      rw [mapped_printTy]
      simp only [inputTy, tySites, bodySites, hk]
      rw [fieldSites_map]
      congr 1
      funext f
      have hty : tySites (if (x.cfg.optionalInput && !f.ty.isNonNull) = true then
          TSTy.union [intoReadonly (tsOfType (localLeaf x) f.ty), TSTy.undefined]
          else intoReadonly (tsOfType (localLeaf x) f.ty)) = [] := by
        split <;> simp [tySites, tySitesList, tySites_intoReadonly, tySites_localLeaf]
      simp only [inputField, fieldSites, List.append_nil, keySites, hty]
    · exact .inl ⟨rfl, by simp [printed, hk, ht]⟩

theorem printTypeOps_mapped (x : Ctx) (td : TypeDef) (ops : List POp) (h : printTypeOps x td = .ok ops) :
    mappedOps ops = typeSites x td := by
  unfold printTypeOps at h
  cases hb : bodyOps x td with
  | error e => simp [hb] at h
  | ok r =>
    rcases bodyOps_mapped x td r hb with ⟨rfl, hp⟩ | ⟨b, rfl, hp, hm⟩
    · simp only [hb] at h; cases h; simp [typeSites, hp]
    · simp only [hb] at h; cases h
      simp [typeSites, hp, mapped_exportTypeOps, hm]

theorem itemOps_mapped (x : Ctx) (it : TsItem) (ops : List POp) (h : itemOps x it = .ok ops) :
    mappedOps ops = itemSites x it := by
  cases it with
  | typeDef td => exact printTypeOps_mapped x td ops h
  | schemaDef _ => simp [itemOps] at h; subst h; rfl
  | directiveDef _ => simp [itemOps] at h; subst h; rfl
  | schemaExt _ => simp [itemOps] at h; subst h; rfl
  | typeExt _ => simp [itemOps] at h; subst h; rfl

theorem namespaceBodyOps_mapped (x : Ctx) : ∀ (doc : TsDoc) (ops : List POp), namespaceBodyOps x doc = .ok ops →
    mappedOps ops = doc.flatMap (itemSites x) := by
  intro doc
  induction doc with
  | nil => intro ops h; simp [namespaceBodyOps] at h; subst h; rfl
  | cons it rest ih =>
    intro ops h
    simp only [namespaceBodyOps] at h
    cases ha : itemOps x it with
    | error e => simp [ha] at h
    | ok a =>
      simp only [ha] at h
      cases hr : namespaceBodyOps x rest with
      | error e => simp [hr] at h
      | ok r =>
        simp only [hr] at h
        cases h
        simp [itemOps_mapped x it a ha, ih r hr]

theorem namespacesOps_mapped (c : Cfg) (doc : TsDoc) : ∀ (ts : List Target) (ops : List POp),
    namespacesOps c doc ts = .ok ops →
    mappedOps ops = ts.flatMap (fun t => doc.flatMap (itemSites (Ctx.new c doc t))) := by
  intro ts
  induction ts with
  | nil => intro ops h; simp [namespacesOps] at h; subst h; rfl
  | cons t rest ih =>
    intro ops h
    simp only [namespacesOps] at h
    cases hb : namespaceBodyOps (Ctx.new c doc t) doc with
    | error e => simp [hb] at h
    | ok body =>
      simp only [hb] at h
      cases hr : namespacesOps c doc rest with
      | error e => simp [hr] at h
      | ok r =>
        simp only [hr] at h
        cases h
        simp [namespaceBodyOps_mapped _ doc body hb, ih r hr]

/-! ### representatives -/

/-- the mapped calls of `print_representative`: the header again, and for an enum with `emitSchemaRuntime` the
    `export const` header and, per value, the property key and the string content -/
def reprSites (x : Ctx) (td : TypeDef) : List POp :=
  headerSites td (x.local td.name)
  ++ (if td.kind == .enum && x.cfg.emitSchemaRuntime then
        node "export const " td.pos (keywordOf td.kind) ++ node td.name td.namePos td.name
        ++ td.values.flatMap (fun v => node v.name v.pos v.name ++ node v.name v.pos v.name)
      else [])

def itemReprSites (x : Ctx) : TsItem → List POp
  | .typeDef td => reprSites x td
  | _ => []

theorem mapped_exportRepresentativeOps (td : TypeDef) (l : String) (t : Target) :
    mappedOps (exportRepresentativeOps td l t) = headerSites td l := by
  unfold exportRepresentativeOps headerSites headerText
  split <;> simp

theorem representativeOps_mapped (x : Ctx) (td : TypeDef) :
    mappedOps (representativeOps x td) = reprSites x td := by
  unfold representativeOps reprSites
  rw [mappedOps_append, mapped_exportRepresentativeOps]
  congr 1
  split
  · simp only [List.cons_append, List.nil_append, mappedOps_writeFor, mappedOps_write, mappedOps_indent,
      mappedOps_append, mappedOps_dedent, mappedOps_nil, List.append_nil, List.append_assoc]
    rw [mappedOps_flatMap]
    simp
  · rfl

theorem itemRepresentativeOps_mapped (x : Ctx) (it : TsItem) :
    mappedOps (itemRepresentativeOps x it ++ [.write "\n"]) = itemReprSites x it := by
  cases it <;> simp [itemRepresentativeOps, itemReprSites, representativeOps_mapped]

/-! ### the schema metadata type of the prelude -/

def isRootName (td : TypeDef) : Bool :=
  td.kind == .object && (td.name == "Query" || td.name == "Mutation" || td.name == "Subscription")

/-- the mapped calls of `print_prelude`: the root type references of the `__nitrogql_schema` type — from the first
    schema definition, else the object types called Query / Mutation / Subscription (their definition's name node) -/
def metadataSites (doc : TsDoc) : List POp :=
  match firstSchemaDef doc with
  | some sd => sd.roots.flatMap fun r => node r.2.1 r.2.2 r.2.1
  | none => (typeDefsOf doc).flatMap fun td => if isRootName td then node td.name td.namePos td.name else []

theorem preludeOps_mapped (doc : TsDoc) : mappedOps (preludeOps doc) = metadataSites doc := by
  unfold preludeOps metadataSites
  simp only [List.cons_append, List.nil_append, mappedOps_write, mappedOps_append, mappedOps_nil, List.append_nil,
    mapped_printTy, schemaMetadataTy]
  cases firstSchemaDef doc with
  | some sd =>
    simp only [tySites]
    rw [fieldSites_map]
    congr 1
    funext r
    obtain ⟨k, n, p⟩ := r
    simp [plainField, fieldSites, tySites]
  | none =>
    simp only [tySites]
    rw [fieldSites_filterMap]
    congr 1
    funext td
    unfold isRootName
    by_cases hk : td.kind = .object
    · by_cases h1 : td.name = "Query"
      · simp [hk, h1, typeKind_beq, plainField, fieldSites, tySites]
      · by_cases h2 : td.name = "Mutation"
        · simp [hk, h2, typeKind_beq, plainField, fieldSites, tySites]
        · by_cases h3 : td.name = "Subscription"
          · simp [hk, h3, typeKind_beq, plainField, fieldSites, tySites]
          · simp [hk, h1, h2, h3, typeKind_beq]
    · simp [hk, typeKind_beq]

/-! ### the whole file -/

/-- closed form of the mapped calls of `SchemaTypePrinter::print_document`, in order -/
def schemaSites (c : Cfg) (doc : TsDoc) : List POp :=
  metadataSites doc
  ++ Target.all.flatMap (fun t => doc.flatMap (itemSites (Ctx.new c doc t)))
  ++ doc.flatMap (itemReprSites (Ctx.new c doc .operationOutput))

theorem schemaOps_mapped (c : Cfg) (doc : TsDoc) (ops : List POp) (h : schemaOps c doc = .ok ops) :
    mappedOps ops = schemaSites c doc := by
  unfold schemaOps at h
  cases hn : namespacesOps c doc Target.all with
  | error e => simp [hn] at h
  | ok ns =>
    simp only [hn] at h
    cases h
    simp only [mappedOps_append, preludeOps_mapped, namespacesOps_mapped c doc _ ns hn, schemaSites]
    congr 1
    rw [mappedOps_flatMap]
    congr 1
    funext it
    exact itemRepresentativeOps_mapped _ it

end NitroVerif.PrintMap
