/-
C18 composed (helper lemmas): every position `check_operation_document` reports is a position of a node of the document
it was given or of the schema it was given (`checkOp_Q`, `checkOp_positions`).  Part 3: the spread handler, variable
definitions, operations, fragment definitions and the main loop.
-/
import NitroVerif.Lemmas.CliComposedPosWalk
namespace NitroVerif.CliComposed
open NitroVerif NitroVerif.Gql NitroVerif.CheckCommon NitroVerif.CheckOp

section defs
variable {S : Schema} {Q : Pos → Prop} (hS : SchemaQ S Q) {D : Doc} (hD : PQ Q (Doc.positions D))

theorem def_PQ {d : ExecDef} (hD : PQ Q (Doc.positions D)) (hd : d ∈ D) : PQ Q d.positions :=
  (pq_flatMap.mp hD) d hd

theorem fragMap_PQ (hD : PQ Q (Doc.positions D)) {n : Name} {f : FragmentDef} (h : fragMap D n = some f) :
    PQ Q f.positions := by
  unfold fragMap at h
  have hm : f ∈ fragsOf D := by
    have := List.mem_of_find?_eq_some h
    exact List.mem_reverse.mp this
  unfold fragsOf at hm
  obtain ⟨d, hd, he⟩ := List.mem_filterMap.mp hm
  cases d <;> simp at he
  subst he
  exact def_PQ hD hd

theorem fragment_parts {f : FragmentDef} (h : PQ Q f.positions) :
    Q f.namePos ∧ Q f.condPos ∧ Q f.pos ∧ PQ Q (dirsPositions f.dirs) ∧ PQ Q (Selection.positionsList f.sel) := by
  unfold FragmentDef.positions at h
  have h1 := pq_cons.mp h
  have h2 := pq_cons.mp h1.2
  have h3 := pq_cons.mp h2.2
  exact ⟨h1.1, h2.1, h3.1, (pq_append.mp h3.2).1, (pq_append.mp h3.2).2⟩

include hS hD in
/-- `check_fragment_spread`: positions of the spread, of the spread fragment's definition, of the schema -/
theorem spreadHandler_HQ : ∀ fuel, HQ S Q (spreadHandler S D fuel) := by
  intro fuel
  induction fuel with
  | zero =>
    intro seen vars root name namePos pos _ _ hp
    simp only [spreadHandler]
    exact allQ_single.mpr hp
  | succ fuel ih =>
    intro seen vars root name namePos pos hr hnp hp
    simp only [spreadHandler]
    apply allQ_ite
    · intro _; exact allQ_single.mpr hp
    · intro _
      cases hf : fragMap D name with
      | none => exact allQ_single.mpr hnp
      | some f =>
        simp only
        obtain ⟨_, _, hfpos, hfd, hfs⟩ := fragment_parts (fragMap_PQ hD hf)
        rw [allQ_append]
        refine ⟨checkDirectives_Q hS vars f.dirs _ hfd, ?_⟩
        cases hct : S.typeDef? f.cond with
        | none => exact allQ_nil
        | some ct =>
          simp only
          have hctq : FromS S ct := ⟨_, hct⟩
          rw [allQ_append]
          refine ⟨spreadApplicability_Q hS root ct pos hr hctq hp, ?_⟩
          apply allQ_ite
          · intro _
            exact checkSelectionSet_Q hS _ ih _ vars ct f.sel f.pos hctq hfpos hfs
          · intro _; exact allQ_nil

include hS in
theorem checkVariablesAux_Q (seen : List Name) (vs : List VarDef) (h : PQ Q (vs.flatMap VarDef.positions)) :
    AllQ Q (checkVariablesAux S seen vs) := by
  induction vs generalizing seen with
  | nil => exact allQ_nil
  | cons v vs ih =>
    rw [List.flatMap_cons] at h
    have hv := (pq_append.mp h).1
    unfold VarDef.positions at hv
    have hpos := (pq_cons.mp hv).1
    have hty := (pq_append.mp (pq_append.mp (pq_cons.mp hv).2).1).1
    have hdef := (pq_append.mp (pq_append.mp (pq_cons.mp hv).2).1).2
    have hdirs := (pq_append.mp (pq_cons.mp hv).2).2
    have htp : Q (typePos v.ty) := hty _ (typePos_mem v.ty)
    simp only [checkVariablesAux]
    rw [allQ_append, allQ_append, allQ_append]
    refine ⟨⟨⟨?_, checkDirectives_Q hS none v.dirs _ hdirs⟩, ?_⟩, ih _ (pq_append.mp h).2⟩
    · apply allQ_ite
      · intro _; exact allQ_single.mpr hpos
      · intro _; exact allQ_nil
    · cases isInputType? S v.ty.unwrapped with
      | none => exact allQ_single.mpr htp
      | some b =>
        cases b with
        | false => exact allQ_single.mpr htp
        | true =>
          simp only
          cases hd : v.default with
          | none => exact allQ_nil
          | some d =>
            simp only
            rw [hd] at hdef
            exact checkValue_Q' hS none d v.ty false hdef (Or.inr hty)

include hS hD in
theorem checkOperation_Q (o : OperationDef) (ho : PQ Q o.positions) : AllQ Q (checkOperation S D o) := by
  unfold OperationDef.positions at ho
  have hpos := (pq_cons.mp ho).1
  have h1 := pq_append.mp (pq_cons.mp ho).2
  have hsel := h1.2
  have hdirs := (pq_append.mp h1.1).2
  have hvars := (pq_append.mp (pq_append.mp h1.1).1).2
  unfold checkOperation
  apply allQ_ite
  · intro _; exact allQ_single.mpr hpos
  · intro _
    cases hr : S.typeDef? (S.rootName o.kind) with
    | none => exact allQ_single.mpr hpos
    | some root =>
      simp only
      rw [allQ_append, allQ_append, allQ_append]
      refine ⟨⟨⟨checkDirectives_Q hS _ o.dirs _ hdirs, checkVariablesAux_Q hS [] o.vars hvars⟩, ?_⟩, ?_⟩
      · apply allQ_ite
        · intro _; exact allQ_single.mpr hpos
        · intro _; exact allQ_nil
      · exact checkSelectionSet_Q hS _ (spreadHandler_HQ hS hD _) [] _ root o.sel o.pos ⟨_, hr⟩ hpos hsel

include hS hD in
theorem checkFragmentDefinition_Q (used : Bool) (f : FragmentDef) (hf : PQ Q f.positions) :
    AllQ Q (checkFragmentDefinition S D used f) := by
  obtain ⟨_, hcp, hpos, hdirs, hsel⟩ := fragment_parts hf
  unfold checkFragmentDefinition
  rw [allQ_append]
  constructor
  · apply allQ_ite
    · intro _; exact allQ_nil
    · intro _; exact allQ_filter (checkDirectives_Q hS none f.dirs _ hdirs)
  · cases ht : S.typeDef? f.cond with
    | none => exact allQ_single.mpr hcp
    | some t =>
      simp only
      apply allQ_ite
      · intro _
        apply allQ_ite
        · intro _; exact allQ_nil
        · intro _
          exact allQ_filter
            (checkSelectionSet_Q hS _ (spreadHandler_HQ hS hD _) [f.name] none t f.sel f.pos ⟨_, ht⟩ hpos hsel)
      · intro _; exact allQ_single.mpr hcp

theorem defHeader_Q (opNum : Nat) (earlier : List ExecDef) (d : ExecDef) (hd : PQ Q d.positions) :
    AllQ Q (defHeader opNum earlier d) := by
  cases d with
  | imp i => exact allQ_nil
  | frag f =>
    simp only [defHeader]
    apply allQ_ite
    · intro _; exact allQ_single.mpr (fragment_parts hd).1
    · intro _; exact allQ_nil
  | op o =>
    simp only [defHeader]
    simp only [ExecDef.positions, OperationDef.positions] at hd
    cases hn : o.name with
    | none =>
      simp only
      apply allQ_ite
      · intro _; exact allQ_single.mpr (pq_cons.mp hd).1
      · intro _; exact allQ_nil
    | some np =>
      obtain ⟨n, p⟩ := np
      simp only
      rw [hn] at hd
      have : Q p := (pq_append.mp (pq_append.mp (pq_append.mp (pq_cons.mp hd).2).1).1).1 p
        (by simp [optNamePos])
      apply allQ_ite
      · intro _; exact allQ_single.mpr this
      · intro _; exact allQ_nil

include hS hD in
theorem defBody_Q (d : ExecDef) (hd : PQ Q d.positions) : AllQ Q (defBody S D d) := by
  cases d with
  | imp i => exact allQ_nil
  | frag f => exact checkFragmentDefinition_Q hS hD _ f hd
  | op o => exact checkOperation_Q hS hD o hd

include hS hD in
theorem checkDefs_Q (opNum : Nat) (earlier rest : List ExecDef) (hr : ∀ d ∈ rest, PQ Q d.positions) :
    AllQ Q (checkDefs S D opNum earlier rest) := by
  induction rest generalizing earlier with
  | nil => exact allQ_nil
  | cons d rest ih =>
    simp only [checkDefs]
    rw [allQ_append, allQ_append]
    exact ⟨⟨defHeader_Q opNum earlier d (hr d (by simp)), defBody_Q hS hD d (hr d (by simp))⟩,
      ih _ (fun x hx => hr x (List.mem_cons_of_mem _ hx))⟩

include hS hD in
/-- **`check_operation_document` invents no position**: if `Q` holds of every position carried by a node of the
    operation document — and of the positions at which a fault of the schema itself would be reported (`SchemaQ`) —
    it holds of every position the checker reports -/
theorem checkOp_Q : AllQ Q (checkOp S D) :=
  checkDefs_Q hS hD _ [] D (fun _ hd => def_PQ hD hd)

end defs

/-- … in particular every reported position IS a position of a node of the operation document or of the schema
    document -/
theorem checkOp_positions (S : Schema) (D : Doc) :
    ∀ d ∈ checkOp S D, d.2 ∈ Doc.positions D ∨ d.2 ∈ TsDoc.positions S.items :=
  checkOp_Q (Q := fun p => p ∈ Doc.positions D ∨ p ∈ TsDoc.positions S.items)
    (schemaQ_of_positions (fun _ hp => Or.inr hp)) (fun _ hp => Or.inl hp)

end NitroVerif.CliComposed
