/-
Type extensions IV (helper lemmas for Props/C07Doc): the further alternatives of the extension rules — a union type
extension with directives only, an object type extension with interfaces only.
-/
import NitroVerif.Lemmas.ParseDocTsExtC
namespace NitroVerif.DocParse
open NitroVerif.Peg NitroVerif.Gen NitroVerif.Gen.Parts NitroVerif.Build NitroVerif.TypeParse NitroVerif.StringParse
open NitroVerif.Gql NitroVerif.ValueParse NitroVerif.Spec.Lex NitroVerif.ParseText

set_option linter.unusedSimpArgs false

variable {inp : List Char}

/-- an optional item that produced pairs did match -/
theorem runsK_of_opt {n : Nat} {a : Expr} {c c' : Cur} {ps : List Pair} (h : RunsK n (.opt a) c c' ps) (hne : ps ≠ []) :
    RunsK n a c c' ps := by
  obtain ⟨c1, h1, h2⟩ := h
  refine ⟨c1, ?_, h2⟩
  intro tr
  obtain ⟨tr', h'⟩ := h1 tr
  refine ⟨tr', fun f hf => ?_⟩
  have := h' (f + 1) (by omega)
  simp only [eval] at this
  split at this
  · simp only [Prod.mk.injEq, Out.ok.injEq] at this
    exact absurd this.2.2.symm hne
  · exact this

/-! ### union, directives only -/

def rUnionExtD (τ : Trivia) (sep : Bool) (p : Nat) (t : TypeDef) : List Char :=
  let tH := rExtHead τ false p (kindKw .union) t.name
  tH ++ rDirs τ sep (p + tH.length) t.dirs

def wpUnionExtD (τ : Trivia) (inp : List Char) (sep : Bool) (p : Nat) (t : TypeDef) : TypeDef :=
  let tH := rExtHead τ false p (kindKw .union) t.name
  { kind := .union, name := t.name, namePos := posAt inp (ehOffN τ p (kindKw .union)),
    dirs := wpDirs τ inp sep (p + tH.length) t.dirs, pos := posAt inp p }

theorem unionExtDT (τ : Trivia) (hτ : ∀ q, Ws (τ q)) (t : TypeDef) (hname : validName t.name.toList)
    (hdirs : WFDirs t.dirs) (hd : t.dirs ≠ []) {sep : Bool} {p : Nat} (h : HasAt inp p (rUnionExtD τ sep p t))
    (hn : Nxt inp tdBad sep (p + (rUnionExtD τ sep p t).length)) :
    KindExtOk inp R.UnionTypeExtension p (rUnionExtD τ sep p t) (wpUnionExtD τ inp sep p t) := by
  unfold KindExtOk
  simp only [rUnionExtD, wpUnionExtD] at h hn ⊢
  generalize hH : rExtHead τ false p (kindKw .union) t.name = tH at *
  generalize hD : rDirs τ sep (p + tH.length) t.dirs = tD at *
  have hlen : p + (tH ++ tD).length = p + tH.length + tD.length := by simp only [List.length_append]; omega
  rw [hlen] at hn ⊢
  have g0 : HasAt inp p tH := h.left
  have g1 : HasAt inp (p + tH.length) tD := h.right
  have n1 : Nxt inp (fun _ => False) false (p + tH.length) := by
    refine Nxt.rest g1 hn (hD ▸ hd_rDirs τ sep _ t.dirs) (P := (· = '@')) (by rintro c rfl; decide) (fun c hc => hc.elim) ?_
    intro ht _
    exact absurd (rDirs_eq_nil (hD.trans ht)) hd
  obtain ⟨hrun, hfail, hnm⟩ := extHeadK hτ (look_kindKw .union) (kindKw_valid .union) t.name hname
    (hH ▸ g0) (by rw [hH]; exact n1)
  rw [hH] at hrun hfail
  obtain ⟨prD, rD, hokD, hbD⟩ := dirsT τ hτ t.dirs hd hdirs (bad := tdBad) (Or.inr (Or.inl rfl)) (Or.inl rfl)
    (hD ▸ g1) (by rw [hD]; exact hn)
  rw [hD] at rD hbD
  have hnotEq : HeadNot (· = '=') (inp.drop (p + tH.length + tD.length)) :=
    headNot_mono (fun c (hc : c = '=') => Or.inr (Or.inr (Or.inr (Or.inr (Or.inr hc))))) hn.ok
  have f1 := hfail _ _ (fails_seq_K (runsK_opt_some rD) (fails_seq_1 (b := .call R.UnionMemberTypes) (str_fails (xs := []) hnotEq)))
  have r2 := hrun _ _ _ _ rD
  obtain ⟨e, rR⟩ := runsK_rule look_UnionTypeExtension' (by decide) (by decide) (runsK_choice_r f1 r2)
  have hlH : 1 ≤ tH.length := hH ▸ (hd_rExtHead τ false p _ t.name).length_pos
  refine ⟨_, rR.mono (by barith), ?_, ?_⟩
  · refine pairOk_mk (by decide) (by decide) ?_
    simp only [cleanL_append, cleanL_cons, cleanL_nil, and_true]
    exact ⟨cleanP_of (by decide) (by decide) trivial, cleanP_of (by decide) (by decide) trivial,
      cleanP_of (by decide) (by decide) trivial, hokD.clean⟩
  · intro fuel hf e'
    have hf' : tH.length + tD.length ≤ fuel := by simpa using hf
    have hch : [Pair.mk R.KEYWORD_extend p (p + kwExtend.length) []] ++
          ([Pair.mk (kindKwRule .union) (ehOffK τ p) (ehOffK τ p + (kindKw .union).length) []] ++
          ([Pair.mk R.Name (ehOffN τ p (kindKw .union)) (ehOffN τ p (kindKw .union) + t.name.toList.length) []] ++
            [prD])) =
        slotPairs [some (Pair.mk R.KEYWORD_extend p (p + kwExtend.length) []),
          some (Pair.mk R.KEYWORD_union (ehOffK τ p) (ehOffK τ p + (kindKw .union).length) []),
          some (Pair.mk R.Name (ehOffN τ p (kindKw .union))
            (ehOffN τ p (kindKw .union) + t.name.toList.length) []), some prD, none] := by simp [slotPairs, kindKwRule]
    rw [hch]
    have hm := matchParts_slots P_UnionTypeExtension _ p_unionExt_nodup
      (show slotsOk P_UnionTypeExtension [some (Pair.mk R.KEYWORD_extend p (p + kwExtend.length) []),
          some (Pair.mk R.KEYWORD_union (ehOffK τ p) (ehOffK τ p + (kindKw .union).length) []),
          some (Pair.mk R.Name (ehOffN τ p (kindKw .union))
            (ehOffN τ p (kindKw .union) + t.name.toList.length) []), some prD, none] from
        ⟨⟨_, rfl, rfl⟩, ⟨_, rfl, rfl⟩, ⟨_, rfl, rfl⟩, (fun x hx => by cases hx; exact hokD.rule),
          (fun x hx => by cases hx), trivial⟩)
    have hname' := hnm.slice
    simp only [show kwExtend.length = 6 from rfl] at hm
    simp [buildTypeExtension, onlyChildOf, onlyChild, Pair.children, OC_TypeExtension, Pair.rule, hm, optDirs,
      hbD fuel (by omega), namedTypeIdents, asString_spec', toPos_spec', Pair.start, Pair.stop, hname', At, bind,
      Except.bind, R.ScalarTypeExtension, R.ObjectTypeExtension, R.InterfaceTypeExtension, R.UnionTypeExtension]

/-- a union type extension: `= members` (with optional directives), or directives only -/
def rUnionExt (τ : Trivia) (sep : Bool) (p : Nat) (t : TypeDef) : List Char :=
  if t.members.isEmpty then rUnionExtD τ sep p t else rUnionExtM τ sep p t

def wpUnionExt (τ : Trivia) (inp : List Char) (sep : Bool) (p : Nat) (t : TypeDef) : TypeDef :=
  if t.members.isEmpty then wpUnionExtD τ inp sep p t else wpUnionExtM τ inp sep p t

theorem unionExtT (τ : Trivia) (hτ : ∀ q, Ws (τ q)) (t : TypeDef) (hname : validName t.name.toList)
    (hdirs : WFDirs t.dirs) (hne : t.members ≠ [] ∨ t.dirs ≠ []) (hmv : ∀ x ∈ t.members, validName x.1.toList)
    {sep : Bool} {p : Nat} (h : HasAt inp p (rUnionExt τ sep p t))
    (hn : Nxt inp tdBad sep (p + (rUnionExt τ sep p t).length)) :
    KindExtOk inp R.UnionTypeExtension p (rUnionExt τ sep p t) (wpUnionExt τ inp sep p t) := by
  simp only [rUnionExt, wpUnionExt] at h hn ⊢
  by_cases hm : t.members = []
  · have hd : t.dirs ≠ [] := hne.resolve_left (fun h => h hm)
    simp only [hm, List.isEmpty_nil, if_true] at h hn ⊢
    exact unionExtDT τ hτ t hname hdirs hd h hn
  · have hme : t.members.isEmpty = false := by
      cases hh : t.members with
      | nil => exact absurd hh hm
      | cons a r => rfl
    simp only [hme, Bool.false_eq_true, if_false] at h hn ⊢
    exact unionExtMT τ hτ t hname hdirs hm hmv h hn

/-! ### object, interfaces only -/

theorem objExtImplT (τ : Trivia) (hτ : ∀ q, Ws (τ q)) (t : TypeDef) (hname : validName t.name.toList)
    (himpl : ∀ x ∈ t.implements, validName x.1.toList) (hi : t.implements ≠ []) (hd : t.dirs = []) (hf : t.fields = [])
    {sep : Bool} {p : Nat} (h : HasAt inp p (rObjExt τ (kindKw .object) sep p t))
    (hn : Nxt inp tdBad sep (p + (rObjExt τ (kindKw .object) sep p t).length)) :
    KindExtOk inp R.ObjectTypeExtension p (rObjExt τ (kindKw .object) sep p t)
      (wpObjExt τ inp .object (kindKw .object) sep p t) := by
  unfold KindExtOk
  obtain ⟨m, ms, hms⟩ : ∃ m ms, t.implements = m :: ms := by
    cases hh : t.implements with
    | nil => exact absurd hh hi
    | cons m ms => exact ⟨m, ms, rfl⟩
  have hsN : (!t.implements.isEmpty || (sep && t.fields.isEmpty && t.dirs.isEmpty)) = true := by simp [hms]
  have hsI : (sep && t.fields.isEmpty && t.dirs.isEmpty) = sep := by simp [hd, hf]
  have hsN' : (!t.implements.isEmpty || sep) = true := by simp [hms]
  simp only [rObjExt, wpObjExt, hsN, hsI, hsN'] at h hn ⊢
  rw [hd, hf] at h hn ⊢
  simp only [rDirs, wpDirs, renderItems, mapItems, rOptFields, wpFieldDefs, List.length_nil, Nat.add_zero,
    List.append_nil] at h hn ⊢
  generalize hH : rExtHead τ true p (kindKw .object) t.name = tH at *
  generalize hI : rOptImpl τ sep (p + tH.length) t.implements = tI at *
  have hlen : p + (tH ++ tI).length = p + tH.length + tI.length := by simp only [List.length_append]; omega
  rw [hlen] at hn ⊢
  have g0 : HasAt inp p tH := h.left
  have g1 : HasAt inp (p + tH.length) tI := h.right
  have hdI : Hd (· = 'i') tI := by
    rw [← hI, hms]
    exact Hd.append (hd_tk (P := (· = 'i')) (hd_cons _ rfl)) _
  have n1 : Nxt inp (fun _ => False) true (p + tH.length) :=
    Nxt.of_hd_sep g1 hdI (by rintro c rfl; exact ⟨by decide, id⟩)
  obtain ⟨hrun, hfail, hnm⟩ := extHeadK hτ (look_kindKw .object) (kindKw_valid .object) t.name hname
    (hH ▸ g0) (by rw [hH]; exact n1)
  rw [hH] at hrun hfail
  obtain ⟨oI, rI, hokI, hbI⟩ := optImplT τ hτ t.implements himpl (bad := tdBad)
    (Or.inr (Or.inr (Or.inr (Or.inl rfl)))) (fun h0 => absurd h0 hi) (hI ▸ g1) (by rw [hI]; exact hn)
  rw [hI] at rI
  obtain ⟨prI, hoI⟩ : ∃ prI, oI = some prI := by
    cases oI with
    | some x => exact ⟨x, rfl⟩
    | none =>
      rw [hms] at hbI
      simp [optImplements, wpNames] at hbI
  subst hoI
  have hokI' := hokI prI rfl
  have rI' : RunsK (B tI.length + 50) (.call R.ImplementsInterfaces) (At inp (p + tH.length))
      (At inp (p + tH.length + tI.length)) [prI] := runsK_of_opt rI (by simp)
  have hbr : HeadNot (· = '{') (inp.drop (p + tH.length + tI.length)) :=
    headNot_mono (fun c (hc : c = '{') => Or.inr (Or.inr (Or.inl hc))) hn.ok
  have hat : HeadNot (· = '@') (inp.drop (p + tH.length + tI.length)) :=
    headNot_mono (fun c (hc : c = '@') => Or.inl hc) hn.ok
  have rDn : RunsK 30 (.opt (.call R.Directives)) (At inp (p + tH.length + tI.length))
      (At inp (p + tH.length + tI.length)) [] := (runsK_opt_none (directives_fails hat) hn.tok).mono (by simp)
  have f1 := hfail _ _ (fails_seq_K rI (fails_seq_K rDn (fieldsDef_fails hbr)))
  have f2 := hfail _ _ (fails_seq_K rI (fails_seq_1 (b := .not (.str ['{'])) (directives_fails hat)))
  have r3 := hrun _ _ _ _ (runsK_seq rI' (notBraceK hn.tok hbr))
  obtain ⟨e, rR⟩ := runsK_rule look_ObjectTypeExtension' (by decide) (by decide)
    (runsK_choice_r f1 (runsK_choice_r f2 r3))
  have hlH : 1 ≤ tH.length := hH ▸ (hd_rExtHead τ true p _ t.name).length_pos
  refine ⟨_, rR.mono (by barith), ?_, ?_⟩
  · refine pairOk_mk (by decide) (by decide) ?_
    simp only [cleanL_append, cleanL_cons, cleanL_nil, and_true]
    exact ⟨cleanP_of (by decide) (by decide) trivial, cleanP_of (by decide) (by decide) trivial,
      cleanP_of (by decide) (by decide) trivial, hokI'.clean⟩
  · intro fuel hf' e'
    have hch : [Pair.mk R.KEYWORD_extend p (p + kwExtend.length) []] ++
          ([Pair.mk (kindKwRule .object) (ehOffK τ p) (ehOffK τ p + (kindKw .object).length) []] ++
          ([Pair.mk R.Name (ehOffN τ p (kindKw .object)) (ehOffN τ p (kindKw .object) + t.name.toList.length) []] ++
            ([prI] ++ []))) =
        slotPairs [some (Pair.mk R.KEYWORD_extend p (p + kwExtend.length) []),
          some (Pair.mk R.KEYWORD_type (ehOffK τ p) (ehOffK τ p + (kindKw .object).length) []),
          some (Pair.mk R.Name (ehOffN τ p (kindKw .object))
            (ehOffN τ p (kindKw .object) + t.name.toList.length) []), some prI, none, none] := by
      simp [slotPairs, kindKwRule]
    rw [hch]
    have hm := matchParts_slots P_ObjectTypeExtension _ p_objectExt_nodup
      (show slotsOk P_ObjectTypeExtension [some (Pair.mk R.KEYWORD_extend p (p + kwExtend.length) []),
          some (Pair.mk R.KEYWORD_type (ehOffK τ p) (ehOffK τ p + (kindKw .object).length) []),
          some (Pair.mk R.Name (ehOffN τ p (kindKw .object))
            (ehOffN τ p (kindKw .object) + t.name.toList.length) []), some prI, none, none] from
        ⟨⟨_, rfl, rfl⟩, ⟨_, rfl, rfl⟩, ⟨_, rfl, rfl⟩, (fun x hx => by cases hx; exact hokI'.rule),
          (fun x hx => by cases hx), (fun x hx => by cases hx), trivial⟩)
    have hname' := hnm.slice
    simp only [show kwExtend.length = 6 from rfl] at hm
    simp [buildTypeExtension, onlyChildOf, onlyChild, Pair.children, OC_TypeExtension, Pair.rule, hm, hbI, optDirs,
      optFields, asString_spec', toPos_spec', Pair.start, Pair.stop, hname', At, bind, Except.bind,
      R.ScalarTypeExtension, R.ObjectTypeExtension]

/-- object type extensions: fields, directives or interfaces -/
theorem objExtAllT (τ : Trivia) (hτ : ∀ q, Ws (τ q)) (t : TypeDef) (hname : validName t.name.toList)
    (himpl : ∀ x ∈ t.implements, validName x.1.toList) (hdirs : WFDirs t.dirs) (hfields : ∀ f ∈ t.fields, WFFieldDef f)
    (hne : t.implements ≠ [] ∨ t.dirs ≠ [] ∨ t.fields ≠ []) {sep : Bool} {p : Nat}
    (h : HasAt inp p (rObjExt τ (kindKw .object) sep p t))
    (hn : Nxt inp tdBad sep (p + (rObjExt τ (kindKw .object) sep p t).length)) :
    KindExtOk inp R.ObjectTypeExtension p (rObjExt τ (kindKw .object) sep p t)
      (wpObjExt τ inp .object (kindKw .object) sep p t) := by
  by_cases hd : t.dirs = []
  · by_cases hf : t.fields = []
    · have hi : t.implements ≠ [] := by
        rcases hne with h | h | h
        · exact h
        · exact absurd hd h
        · exact absurd hf h
      exact objExtImplT τ hτ t hname himpl hi hd hf h hn
    · exact objExtT τ hτ t hname himpl hdirs hfields (Or.inr hf) h hn
  · exact objExtT τ hτ t hname himpl hdirs hfields (Or.inl hd) h hn

end NitroVerif.DocParse
