/-
C08 (stages after parsing), part: the schema / resolver declaration printers
(`schema_type_printer/{type_printer,context}.rs`, `resolver_type_printer/printer.rs`).

`Model/SchemaDecls.lean` (C09/C10) does NOT represent the panic sites of these printers (its header: "where the Rust
code would panic the model uses `localName` of the name; a checked schema has no such reference").  The sites are:

  S1  `context.local_type_names.get(n).expect("Local type name not generated")` — `local_type_names` has exactly the names
      of the document's type definitions (`make_local_type_names`).  `n` is (a) the printed definition's own name, (b) the
      name of an implementing object type found by `interface_implementers` — both are names of definitions by
      construction —, (c) the innermost named type of an object field or input-object field, (d) a union member.
  S2  `schema.get_type(self.name).and_then(as_input_object).and_then(fields.find(field.name)).expect("Type system error")`
      (input objects): the FIRST definition named like the printed input object must be an input object with that field.
  S3  `ts_types.get(def.name()).unwrap()` in resolver_type_printer: `ts_types` is built from the same definitions.
  S4  the two slices `&value[start_index..index]` of `get_bag_of_identifiers`: both indices come from `char_indices`.

This file TRANSCRIBES S1(c,d) and S2 as predicates on the resolved document (`declLookups`, `inputSelfLookupOk`) — a hand
transcription, not tied to the code by a K stream — and proves: a document the schema checker accepts has every looked-up
name defined; with unique type names (NOT guaranteed by the checker or the extension resolver, which only reject a
repeated name of the SAME kind) S2 succeeds; and `type A … input A …` is the kernel-checked witness that without unique
type names S2 fails on a document the checker accepts (the real code panics on it, see design-notes/C08.md).
-/
import NitroVerif.Lemmas.CheckTsAssemble
namespace NitroVerif.Stages
open NitroVerif.Gql NitroVerif.CheckTs NitroVerif.ValidTs

/-- S1(c,d): the names handed to `local_type_names.get` that are not names of definitions by construction -/
def declLookups (T : TsDoc) : List Name :=
  (typeDefs T).flatMap fun td =>
    match td.kind with
    | .object => td.fields.map (·.ty.unwrapped)
    | .input => td.inputs.map (·.ty.unwrapped)
    | .union => td.members.map (·.1)
    | _ => []

/-- the keys of `local_type_names` -/
def declKeys (T : TsDoc) : List Name := (typeDefs T).map (·.name)

/-- S2 for one input-object definition `td`: `schema.get_type(td.name)` (first definition of the name) is an input object
    that has every field of `td` -/
def inputSelfLookupOk (T : TsDoc) (td : TypeDef) : Bool :=
  td.kind != .input || td.inputs.all fun f =>
    match Schema.typeDef? ⟨T⟩ td.name with
    | some sd => sd.kind == .input && (sd.inputs.find? (·.name == f.name)).isSome
    | none => false

theorem known_mem_keys {T : TsDoc} {n : Name} (h : known ⟨T⟩ n = true) : n ∈ declKeys T := by
  unfold known at h
  cases ht : Schema.typeDef? ⟨T⟩ n with
  | none => rw [ht] at h; cases h
  | some d =>
    have hm := List.mem_of_find?_eq_some ht
    have hn : d.name = n := by simpa using List.find?_some ht
    exact List.mem_map.mpr ⟨d, hm, hn⟩

/-- S1: in a document the schema checker accepts every looked-up name is the name of a type definition -/
theorem declLookups_defined {T : TsDoc} (h : checkSchema T = []) : ∀ n ∈ declLookups T, n ∈ declKeys T := by
  intro n hn
  simp only [declLookups, List.mem_flatMap] at hn
  obtain ⟨td, htd, hn⟩ := hn
  apply known_mem_keys
  cases hk : td.kind with
  | scalar => simp [hk] at hn
  | interface => simp [hk] at hn
  | enum => simp [hk] at hn
  | object =>
    simp only [hk, List.mem_map] at hn
    obtain ⟨f, hf, rfl⟩ := hn
    have hff : f ∈ fieldsOfT td := by simp [fieldsOfT, isObjOrIface, hk, hf]
    obtain ⟨k, hk', _⟩ := outputFieldType_nil ((fieldsOfT_facts h htd).1 f hff).2.2.1
    exact known_of_kindOf hk'
  | input =>
    simp only [hk, List.mem_map] at hn
    obtain ⟨f, hf, rfl⟩ := hn
    have hfi : f ∈ inputValues T := by
      simp only [inputValues, List.mem_append, List.mem_flatMap]
      exact Or.inr ⟨td, htd, by simp [inputsOfT, hk, hf]⟩
    obtain ⟨k, hk', _⟩ := inputValueType_nil (inputValues_facts h hfi)
    exact known_of_kindOf hk'
  | union =>
    simp only [hk, List.mem_map] at hn
    obtain ⟨m, hm, rfl⟩ := hn
    have hmm : m ∈ membersOfT td := by simp [membersOfT, hk, hm]
    obtain ⟨d, hl, _⟩ := (membersOfT_facts h htd).1 m hmm
    exact known_of_lastTypeDef hl

theorem find_of_noDup : ∀ {l : List TypeDef}, noDup (l.map (·.name)) = true → ∀ t ∈ l,
    l.find? (·.name == t.name) = some t
  | [], _, _, h => by cases h
  | a :: l, hn, t, h => by
    simp only [List.map_cons, noDup, Bool.and_eq_true, Bool.not_eq_true'] at hn
    rcases List.mem_cons.1 h with rfl | h
    · simp
    · have hne : a.name ≠ t.name := by
        intro heq
        have : (l.map (·.name)).contains a.name = true := by
          rw [List.contains_iff_mem]; rw [heq]; exact List.mem_map_of_mem h
        rw [this] at hn; cases hn.1
      have : (a.name == t.name) = false := by simpa using hne
      simp only [List.find?_cons, this]
      exact find_of_noDup hn.2 t h

/-- S2: with unique type names the printer finds every input object's own definition, with all its fields -/
theorem inputSelfLookup_ok {T : TsDoc} (hu : uniqueTypeNames T = true) :
    ∀ td ∈ typeDefs T, inputSelfLookupOk T td = true := by
  intro td htd
  unfold inputSelfLookupOk
  cases hk : td.kind with
  | input =>
    simp only [bne_self_eq_false, Bool.false_or, List.all_eq_true]
    intro f hfm
    have hfind : Schema.typeDef? ⟨T⟩ td.name = some td := find_of_noDup hu td htd
    rw [hfind]
    simp only [hk, beq_self_eq_true, Bool.true_and]
    rw [List.find?_isSome]
    exact ⟨f, hfm, by simp⟩
  | _ => rfl

end NitroVerif.Stages
