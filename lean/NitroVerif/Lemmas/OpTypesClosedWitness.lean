/-
C01/C02, second stage: the witness of the end-to-end theorems.  The witness schema `W.S` (Lemmas/OpTypes.lean), the default
configuration (built-in scalar mappings), the schema declaration file THE MODEL of the schema printer emits for them
(`SchemaDecls.schemaFile` — not the hand-written `W.schemaFile` of the first stage), the one-line operation file
`import type * as Schema from ""`, and a specification context whose scalar value sets are the configured texts.
-/
import NitroVerif.Lemmas.OpTypesClosedHyp
import NitroVerif.Lemmas.OpTypesRefWitness
namespace NitroVerif.OpTypes.Closed.W
open NitroVerif.Gql NitroVerif.Ts NitroVerif.DeclCfg NitroVerif.SchemaDecls NitroVerif.RefTypes NitroVerif.OpTypes

/-- the default configuration: no `scalarTypes` entry, the built-in texts parsed -/
def cfg : Cfg := { parses := builtinParses }

/-- `directive @skip(if: Boolean!) on FIELD | FRAGMENT_SPREAD | INLINE_FRAGMENT` (the operation checker needs it defined) -/
def skipDef : TsItem :=
  .directiveDef { name := "skip", args := [{ name := "if", ty := .nonNull (.named "Boolean" {}) }],
                  locations := ["FIELD", "FRAGMENT_SPREAD", "INLINE_FRAGMENT"] }

/-- the witness schema of the first stage plus the definition of `@skip` -/
def doc : TsDoc := OpTypes.W.S.items ++ [skipDef]

def S : Schema := ⟨doc⟩

theorem typeDefs_S : S.typeDefs = OpTypes.W.S.typeDefs := rfl

/-- the schema declaration file the model emits for the witness schema -/
def file : File := match schemaFile cfg doc with | .ok f => f | .error _ => []

theorem file_ok : schemaFile cfg doc = .ok file := rfl

theorem docOK : DocOK cfg doc where
  distinct := by decide
  names := by decide
  notPrelude := by decide
  fields := by decide
  inputs := by decide
  members := by decide
  bagOK := by decide
  parses := by decide

/-- value set of a scalar = what its configured `__OperationOutput` text denotes, decided with a fixed fuel -/
def scalarOf (cfg : Cfg) (doc : TsDoc) (n : Name) (v : J) : Bool :=
  match scalarType? cfg doc n with
  | some sc => memG Env.empty 4 v (cfg.parseOf (sc.getType .operationOutput))
  | none => false

/-- the specification context of the witness -/
def ctx : Exec.Ctx := { S := S, F := fun _ => none, scalar := scalarOf cfg doc, fuel := 16 }

theorem scalarTypes_eq : scalarTypes cfg doc =
    [("Int", .single "number"), ("String", .single "string"), ("Boolean", .single "boolean")] := by decide

theorem prim_exact {p : String} (hp : p = "number" ∨ p = "string" ∨ p = "boolean") (v : J) :
    memG Env.empty 4 v (.prim p) = true ↔ Mem Env.empty v (.prim p) := by
  constructor
  · exact memG_sound 4 v _
  · intro h
    rcases hp with rfl | rfl | rfl <;>
      · rw [mem_prim_iff (by simp [Ty.isOpaque])] at h
        cases v <;> simp_all [primMem, memG, J.isNum, J.isStr, J.isBool]

theorem parse_number : cfg.parseOf ((ScalarCfg.single "number").getType .operationOutput) = .prim "number" := by
  simp [Cfg.parseOf, cfg, builtinParses, ScalarCfg.getType]
theorem parse_string : cfg.parseOf ((ScalarCfg.single "string").getType .operationOutput) = .prim "string" := by
  simp [Cfg.parseOf, cfg, builtinParses, ScalarCfg.getType]
theorem parse_boolean : cfg.parseOf ((ScalarCfg.single "boolean").getType .operationOutput) = .prim "boolean" := by
  simp [Cfg.parseOf, cfg, builtinParses, ScalarCfg.getType]

theorem scalar_cases {n : Name} {sc : ScalarCfg} (h : scalarType? cfg doc n = some sc) :
    ∃ p, cfg.parseOf (sc.getType .operationOutput) = .prim p ∧ (p = "number" ∨ p = "string" ∨ p = "boolean") := by
  unfold scalarType? at h
  split at h
  · rename_i n' s hf
    cases h
    have hm := List.mem_of_find?_eq_some hf
    rw [scalarTypes_eq] at hm
    simp only [List.mem_cons, Prod.mk.injEq, List.not_mem_nil, or_false] at hm
    rcases hm with ⟨_, rfl⟩ | ⟨_, rfl⟩ | ⟨_, rfl⟩
    · exact ⟨"number", parse_number, Or.inl rfl⟩
    · exact ⟨"string", parse_string, Or.inr (Or.inl rfl)⟩
    · exact ⟨"boolean", parse_boolean, Or.inr (Or.inr rfl)⟩
  · cases h

theorem cfgOk : CfgOk cfg ctx where
  scalars := by
    intro n sc v h
    have h' : scalarType? cfg doc n = some sc := h
    obtain ⟨p, hp, hpp⟩ := scalar_cases h'
    show scalarOf cfg doc n v = true ↔ _
    unfold scalarOf
    rw [h']
    simp only [hp]
    exact prim_exact hpp v
  plain := by
    intro p hp
    have hp' : p ∈ scalarTypes cfg doc := hp
    rw [scalarTypes_eq] at hp'
    simp only [List.mem_cons, List.not_mem_nil, or_false] at hp'
    rcases hp' with rfl | rfl | rfl <;> decide
  notNull := by
    intro p hp
    have hp' : p ∈ scalarTypes cfg doc := hp
    rw [scalarTypes_eq] at hp'
    simp only [List.mem_cons, List.not_mem_nil, or_false] at hp'
    rcases hp' with rfl | rfl | rfl
    · rw [parse_number,
        mem_prim_iff (by simp [Ty.isOpaque])]
      simp [primMem, J.isNum]
    · rw [parse_string,
        mem_prim_iff (by simp [Ty.isOpaque])]
      simp [primMem, J.isStr]
    · rw [parse_boolean,
        mem_prim_iff (by simp [Ty.isOpaque])]
      simp [primMem, J.isBool]
  inhabited := by
    intro n hc
    have e : ctx.S.typeDefs = OpTypes.W.ctx.S.typeDefs := rfl
    have h1 : OpTypes.W.ctx.S.isComposite n = true := by
      simpa only [Schema.isComposite, Schema.kindOf?, Schema.typeDef?, e] using hc
    have h2 := Ref.W.inhabitedW n h1
    simpa only [Schema.possibleTypes, Schema.objectImplementers, Schema.typeDef?, e] using h2

/-- the operation file of the witness: `import type * as Schema from ""` -/
def main : File := OpTypes.W.opFile

theorem main_flat : main.all (fun s => !s.isNamespace) = true := by decide
theorem main_imp : starImports main = [("", "Schema")] := by decide

end NitroVerif.OpTypes.Closed.W
