/-
C01/C02, second stage, fuels (part 3): the no-panic induction of the first stage (Lemmas/OpTypesRefNoPanicD/E.lean) with
its fuel hypothesis on `get_boolean_variables` made abstract.

The first stage asks `eszL c.F D ss ≤ mfuel` (expanded size) of every selection set the printer is called on, only to
conclude that `boolVars c.F mfuel ss` succeeds.  Here that conclusion is a hypothesis `BV ss` which is closed under the
steps of the recursion (`BVClosed`): sub-selection of a field, body of an inline fragment, body of a spread fragment.
`implTree_ok'` is `implTree_ok` with `BV ss` in place of the expanded-size bound; the proofs are those of the first stage.
-/
import NitroVerif.Lemmas.OpTypesRefNoPanicE
namespace NitroVerif.OpTypes.Closed
open NitroVerif.Gql NitroVerif.Ts NitroVerif.Exec NitroVerif.OpTypes NitroVerif.OpTypes.Ref

/-- a family of selection sets on which `get_boolean_variables` succeeds with fuel `mfuel`, closed under the recursion of
    the printer -/
structure BVClosed (F : FragMap) (mfuel : Nat) (BV : List Selection → Prop) : Prop where
  ok : ∀ ss, BV ss → ∃ vars, boolVars F mfuel ss = .ok vars
  field : ∀ {ss a n p args ds ss'}, BV ss → Selection.field a n p args ds (some ss') ∈ ss → BV ss'
  inline : ∀ {ss cond ds ss' p}, BV ss → Selection.inline cond ds ss' p ∈ ss → BV ss'
  spread : ∀ {ss nm np ds p fd}, BV ss → Selection.spread nm np ds p ∈ ss → F nm = some fd → BV fd.sel

def FFP' (c : Ctx) (mfuel : Nat) (BV : List Selection → Prop) (D : Nat) : Prop :=
  ∀ (fuel : Nat) (cnd : Cond) (ss ss0 : List Selection) (bv : List Name), 2 * D + 1 ≤ fuel →
    c.S.typeDef? cnd.obj.name = some cnd.obj →
    (∀ s ∈ ss, selOkB c.S c.F D cnd.obj.name s = true ∧ fitsS c.F D s = true) → BV ss →
    SubCoh c cnd.obj.name ss → boolVars c.F mfuel ss0 = .ok bv → cnd.vars.map (·.1) = bv →
    (∀ ds, RD c.F [] ss ds → RD c.F [] ss0 ds) →
    ∃ L, fieldsFor c.S c.F mfuel fuel cnd ss = .ok L

def IP' (c : Ctx) (mfuel : Nat) (BV : List Selection → Prop) (D : Nat) : Prop :=
  ∀ (fuel : Nat) (ty : GType) (ss : List Selection), 2 * D + 2 ≤ fuel → parentsOkB c.S ty.unwrapped = true →
    (∀ o ∈ c.S.possibleTypes ty.unwrapped, ∀ s ∈ ss, selOkB c.S c.F D o s = true) →
    (∀ s ∈ ss, fitsS c.F D s = true) → BV ss → (∀ d, Coh c d (Sb1 ss) ty.unwrapped) →
    ∃ T, implTree c.S c.F mfuel fuel ty ss = .ok T

section
variable {c : Ctx} {mfuel : Nat} {BV : List Selection → Prop} (HB : BVClosed c.F mfuel BV)
include HB

theorem ip_of_ffp' {G K D : Nat} (E : NPEnv c mfuel G K) (hDK : D ≤ K) (HF : FFP' c mfuel BV D) :
    IP' c mfuel BV D := by
  intro fuel ty ss hfuel hpar hsel hfit hbvs hC
  cases fuel with
  | zero => omega
  | succ f =>
    rw [implTree_succ]
    apply wrapTree_ok
    simp only [mkBranches, branchConds, bind, Except.bind]
    unfold parentsOkB at hpar
    cases hpo : parentObjects c.S ty.unwrapped with
    | error e => simp [hpo] at hpar
    | ok objs =>
      obtain ⟨vars, hbv⟩ := HB.ok ss hbvs
      simp only [hbv]
      obtain ⟨_, hobjs, _⟩ := parentObjects_spec hpo
      have hvn := boolVars_nodup hbv
      apply mapM_ok
      intro cnd hc
      simp only [List.mem_flatMap, List.mem_map] at hc
      obtain ⟨obj, hobj, a, ha, rfl⟩ := hc
      have hav := (assignments_mem vars a).1 ha
      obtain ⟨h1, h2, h3⟩ := hobjs obj hobj
      have hcoh : CohAt c (Sb1 ss) obj.name := by
        have := hC 1; simp only [Coh] at this; exact (this _ h3).1
      have hnest : ∀ t fd, PU c (Sb1 ss) obj.name allInc t → c.S.field? obj.name t.name = some fd →
          ∀ d, Coh c d (SubSet c (Sb1 ss) obj.name allInc t.key) fd.ty.unwrapped := by
        intro t fd ht hfd d
        have := hC (d + 1); simp only [Coh] at this; exact (this _ h3).2 t fd ht hfd
      have hsub : SubCoh c obj.name ss := by
        intro t fd s ht hs hfd d
        refine coh_subset d _ _ _ ?_ (hnest t fd (pu_sb1.2 ht) hfd d)
        intro s' hs'
        simp only [Sb1] at hs'; subst hs'
        exact ⟨t, pu_sb1.2 ht, rfl, hs⟩
      obtain ⟨L, hL⟩ := HF f ⟨obj, a⟩ ss ss vars (by omega) h1
        (fun s hs => ⟨hsel obj.name h3 s hs, hfit s hs⟩) hbvs hsub hbv hav (fun _ h => h)
      simp only [branchOf, bind, Except.bind, hL]
      obtain ⟨Lp, rfl, hgood, _⟩ := (impl_rel c mfuel E.nodup f).2 ⟨obj, a⟩ ss L hL h1 hsub
      have hK : NestLe c K (Sb1 ss) := nestLe_mono c hDK (nestLe_of_fits c D _ (by
        intro s hs x hx
        simp only [Sb1] at hs; subst hs
        exact fitsS_fits D x (hfit x hx)))
      have HM := mergeTrees_rel c mfuel
      have MP := mergeTrees_ok c mfuel
      obtain ⟨un, hun⟩ := class_ok (tag := false) (Lc := Lp.filter fun p => !p.2.1) HM MP E.depth E.fuel
        (fun q => by simp [List.mem_filter]) hgood hcoh hnest hK
      obtain ⟨al, hal⟩ := class_ok (tag := true) (Lc := Lp.filter fun p => p.2.1) HM MP E.depth E.fuel
        (fun q => by simp [List.mem_filter]) hgood hcoh hnest hK
      have e1 := filter_class Lp (fun b => !b)
      have e2 := filter_class Lp (fun b => b)
      simp only [deepMerge, e1, e2, hun, hal]
      exact ⟨_, rfl⟩

omit HB in
theorem ffp_zero' (c : Ctx) (mfuel : Nat) (BV : List Selection → Prop) : FFP' c mfuel BV 0 := by
  intro fuel cnd ss ss0 bv hfuel hcnd hsel _ _ _ _ _
  have : ss = [] := by
    cases ss with
    | nil => rfl
    | cons x xs => have := (hsel x (by simp)).1; simp [selOkB] at this
  subst this
  cases fuel with
  | zero => omega
  | succ f =>
    rw [fieldsFor_succ]
    simp [hcnd, bind, Except.bind, pure, Except.pure]

theorem ffp_succ' {D : Nat} (HF : FFP' c mfuel BV D) (HI : IP' c mfuel BV D) : FFP' c mfuel BV (D + 1) := by
  intro fuel cnd ss ss0 bv hfuel hcnd hsel hbvs hcoh hbv hvars hreach
  cases fuel with
  | zero => omega
  | succ f =>
    have cs_ok : ∀ ds, RD c.F [] ss0 ds → dirsOkB ds = true → ∃ b, checkSkip cnd.vars ds = .ok b := fun ds hrd hok =>
      checkSkip_ok cnd.vars ds (ifOk_of_boolVars hbv hvars hrd (dirsOk_if hok))
    have hfieldq : ∀ name, c.S.field? cnd.obj.name name = cnd.obj.fields.find? (·.name == name) := by
      intro name; simp [Schema.field?, Schema.fieldsOf, hcnd]
    rw [fieldsFor_succ]
    simp only [hcnd, bind, Except.bind]
    have hsimple : ∃ simple, ss.filterMapM (simpleOf cnd.obj cnd.vars
        (fun ty sub => implTree c.S c.F mfuel f ty sub)) = .ok simple := by
      apply filterMapM_ok
      intro s hs
      obtain ⟨hok, hfit⟩ := hsel s hs
      cases s with
      | field alias name np args dirs sub =>
        rw [simpleOf_field]
        simp only [selOkB, Bool.and_eq_true] at hok
        obtain ⟨hdirs, hfield⟩ := hok
        obtain ⟨sk, hsk⟩ := cs_ok dirs (hreach _ (rd_of_mem hs)) hdirs
        simp only [hsk, bind, Except.bind]
        have hft : ∃ fld, fieldTree cnd.obj (keyOf alias name) name sk sub
            (fun ty sub => implTree c.S c.F mfuel f ty sub) = .ok fld := by
          unfold fieldTree
          cases sk with
          | true => exact ⟨_, rfl⟩
          | false =>
            simp only [Bool.false_eq_true, ↓reduceIte]
            by_cases htn : (name == "__typename") = true
            · simp only [htn, ↓reduceIte]; exact ⟨_, rfl⟩
            · simp only [htn, Bool.false_eq_true, ↓reduceIte]
              simp only [htn, Bool.false_or] at hfield
              cases hfd : c.S.field? cnd.obj.name name with
              | none => simp [hfd] at hfield
              | some fd =>
                simp only [hfd] at hfield
                have hdf : directField? cnd.obj name = some fd.ty := by
                  unfold directField?
                  rw [← hfieldq, hfd]
                simp only [hdf]
                cases sub with
                | none => exact ⟨_, rfl⟩
                | some ss' =>
                  simp only [Bool.and_eq_true, List.all_eq_true] at hfield
                  simp only [fitsS] at hfit
                  obtain ⟨T, hT⟩ := HI f fd.ty ss' (by omega) hfield.1 (fun o ho s' hs' => hfield.2 o ho s' hs')
                    (fun s' hs' => List.all_eq_true.1 hfit s' hs') (HB.field hbvs hs)
                    (hcoh ⟨keyOf alias name, isAliased alias name, name, some ss'⟩ fd ss'
                      (inFlat_of_mem hs (.field rfl)) rfl hfd)
                  simp only [hT, bind, Except.bind]
                  exact ⟨_, rfl⟩
        obtain ⟨fld, hfld⟩ := hft
        simp only [hfld]
        exact ⟨_, rfl⟩
      | spread n np ds p => exact ⟨none, rfl⟩
      | inline cond ds sub p => exact ⟨none, rfl⟩
    have core : ∀ (s : Selection) (sub : List Selection) (dirs : List Directive), s ∈ ss →
        dirs = Selection.dirs s → dirsOkB dirs = true →
        (∀ x ∈ sub, selOkB c.S c.F D cnd.obj.name x = true) → (∀ x ∈ sub, fitsS c.F D x = true) →
        BV sub →
        (∀ t, InFlat c.S c.F cnd.obj.name allInc [] sub t → InFlat c.S c.F cnd.obj.name allInc [] [s] t) →
        (∀ d, RD c.F [] sub d → RD c.F [] [s] d) →
        ∃ l, (do
          let fs ← fieldsFor c.S c.F mfuel f cnd sub
          if ← checkSkip cnd.vars dirs then (.ok (toEmpty fs) : Except Panic (List Tagged)) else .ok fs) = .ok l := by
      intro s sub dirs hs hdirs hdok hsok hsfit hsz hemb hrd
      obtain ⟨fs, hfs⟩ := HF f cnd sub ss0 bv (by omega) hcnd (fun x hx => ⟨hsok x hx, hsfit x hx⟩) hsz
        (fun t fd s' ht => hcoh t fd s' (inFlat_of_mem hs (hemb t ht))) hbv hvars
        (fun d hd => hreach d (rd_into hs (hrd d hd)))
      obtain ⟨sk, hsk⟩ := cs_ok dirs (hreach _ (hdirs ▸ rd_of_mem hs)) hdok
      simp only [hfs, hsk, bind, Except.bind]
      cases sk <;> exact ⟨_, rfl⟩
    have hfrags : ∃ frags, ss.mapM (fragOf c.S c.F cnd (fun sub => fieldsFor c.S c.F mfuel f cnd sub)) = .ok frags := by
      apply mapM_ok
      intro s hs
      obtain ⟨hok, hfit⟩ := hsel s hs
      cases s with
      | field alias name np args dirs sub => exact ⟨[], rfl⟩
      | spread n np dirs p =>
        simp only [selOkB, Bool.and_eq_true] at hok
        obtain ⟨hdirs, hrest⟩ := hok
        simp only [fragOf]
        cases hF : c.F n with
        | none => simp [hF] at hrest
        | some fd =>
          simp only [hF, Bool.and_eq_true, Bool.or_eq_true, Bool.not_eq_true', List.all_eq_true] at hrest
          obtain ⟨hdef, happ⟩ := hrest
          obtain ⟨b, hb⟩ := fragmentApplies_ok (S := c.S) (obj := cnd.obj) hdef
          have hbs := fragmentApplies_spec c.S cnd.obj fd.cond b hcnd hb
          simp only [hb, bind, Except.bind]
          cases b with
          | false => exact ⟨[], rfl⟩
          | true =>
            simp only [↓reduceIte]
            simp only [fitsS, hF] at hfit
            refine core _ fd.sel dirs hs rfl hdirs ?_ (fun x hx => List.all_eq_true.1 hfit x hx)
              (HB.spread hbvs hs hF) ?_ ?_
            · rcases happ with h | h
              · rw [← hbs] at h; cases h
              · exact h
            · intro t ht; exact .spread rfl (by simp) hF hbs.symm ht
            · intro d hd; exact .spread (by simp) hF hd
      | inline cond dirs sub p =>
        simp only [selOkB, Bool.and_eq_true, Bool.or_eq_true, Bool.not_eq_true', List.all_eq_true] at hok
        obtain ⟨⟨hdirs, hdef⟩, happ⟩ := hok
        simp only [fitsS] at hfit
        have hfit' : ∀ x ∈ sub, fitsS c.F D x = true := fun x hx => List.all_eq_true.1 hfit x hx
        have hsz : BV sub := HB.inline hbvs hs
        cases cond with
        | none =>
          simp only [fragOf]
          refine core _ sub dirs hs rfl hdirs ?_ hfit' hsz ?_ ?_
          · rcases happ with h | h
            · simp [condApplies] at h
            · exact h
          · intro t ht; exact .inline rfl rfl ht
          · intro d hd; exact .inline hd
        | some tc =>
          obtain ⟨tcn, tcp⟩ := tc
          simp only at hdef
          obtain ⟨b, hb⟩ := fragmentApplies_ok (S := c.S) (obj := cnd.obj) hdef
          have hbs := fragmentApplies_spec c.S cnd.obj tcn b hcnd hb
          simp only [fragOf, hb, bind, Except.bind]
          cases b with
          | false => exact ⟨[], rfl⟩
          | true =>
            simp only [↓reduceIte]
            refine core _ sub dirs hs rfl hdirs ?_ hfit' hsz ?_ ?_
            · rcases happ with h | h
              · simp [condApplies, ← hbs] at h
              · exact h
            · intro t ht; exact .inline rfl (by simp [condApplies, ← hbs]) ht
            · intro d hd; exact .inline hd
    obtain ⟨simple, h1⟩ := hsimple
    obtain ⟨frags, h2⟩ := hfrags
    simp only [h1, h2]
    exact ⟨_, rfl⟩

theorem ffp_all' {G K : Nat} (E : NPEnv c mfuel G K) : ∀ D, D ≤ K → FFP' c mfuel BV D
  | 0, _ => ffp_zero' c mfuel BV
  | D + 1, h => by
    have hF := ffp_all' E D (by omega)
    exact ffp_succ' HB hF (ip_of_ffp' HB E (by omega) hF)

/-- **`get_type_for_selection_set` does not panic**, with the fuel hypothesis on `get_boolean_variables` abstract -/
theorem implTree_ok' {G K D : Nat} (E : NPEnv c mfuel G K) (hDK : D ≤ K) {fuel : Nat} {ty : GType}
    {ss : List Selection} (hfuel : 2 * D + 2 ≤ fuel) (hpar : parentsOkB c.S ty.unwrapped = true)
    (hsel : ∀ o ∈ c.S.possibleTypes ty.unwrapped, ∀ s ∈ ss, selOkB c.S c.F D o s = true)
    (hfit : ∀ s ∈ ss, fitsS c.F D s = true) (hbvs : BV ss)
    (hC : ∀ d, Coh c d (Sb1 ss) ty.unwrapped) : ∃ T, implTree c.S c.F mfuel fuel ty ss = .ok T :=
  ip_of_ffp' HB E hDK (ffp_all' HB E D hDK) fuel ty ss hfuel hpar hsel hfit hbvs hC

end

end NitroVerif.OpTypes.Closed
