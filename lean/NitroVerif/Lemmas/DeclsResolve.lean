/-
Name resolution in declaration tables (`Ts/Sem.lean`): every declaration a table built by `Decls.collect` contains
stems from a `type` statement of the file, and a successful lexical resolution of `n` returns a declaration named `n`.
Used to show that identifiers of scalar texts are bound by NO declaration of the generated schema file.
-/
import NitroVerif.Ts.Sem
namespace NitroVerif.Ts

mutual
/-- names bound by the `type` statements of a statement (at any namespace depth) -/
def Stmt.typeNames : Stmt → List String
  | .type _ n _ _ => [n]
  | .rawType _ n _ => [n]
  | .namespace _ _ body => Stmt.typeNamesList body
  | _ => []
def Stmt.typeNamesList : List Stmt → List String
  | [] => []
  | s :: r => s.typeNames ++ Stmt.typeNamesList r
end

theorem typeNamesList_append (a b : List Stmt) :
    Stmt.typeNamesList (a ++ b) = Stmt.typeNamesList a ++ Stmt.typeNamesList b := by
  induction a with
  | nil => simp [Stmt.typeNamesList]
  | cons s r ih => simp [Stmt.typeNamesList, ih]

theorem typeNamesList_flatMap {α : Type} (l : List α) (f : α → List Stmt) (n : String)
    (h : n ∈ Stmt.typeNamesList (l.flatMap f)) : ∃ a ∈ l, n ∈ Stmt.typeNamesList (f a) := by
  induction l with
  | nil => simp [Stmt.typeNamesList] at h
  | cons a r ih =>
    simp only [List.flatMap_cons, typeNamesList_append, List.mem_append] at h
    rcases h with h | h
    · exact ⟨a, List.mem_cons_self, h⟩
    · obtain ⟨b, hb, hn⟩ := ih h
      exact ⟨b, List.mem_cons_of_mem _ hb, hn⟩

/-- every declaration of a collected table was already in the accumulator or is named by a `type` statement -/
theorem collect_names : ∀ (fuel : Nat) (scope : Scope) (stmts : List Stmt) (acc : Decls) (d : Decl),
    d ∈ (Decls.collect fuel scope stmts acc).types → d ∈ acc.types ∨ d.name ∈ Stmt.typeNamesList stmts := by
  intro fuel
  induction fuel with
  | zero => intro scope stmts acc d h; simp [Decls.collect] at h; exact Or.inl h
  | succ fuel ih =>
    intro scope stmts acc d h
    cases stmts with
    | nil => simp [Decls.collect] at h; exact Or.inl h
    | cons s rest =>
      simp only [Decls.collect] at h
      rcases ih _ _ _ _ h with h1 | h1
      · cases s with
        | type ex n ps t =>
          simp only [List.mem_append, List.mem_singleton] at h1
          rcases h1 with h1 | rfl
          · exact Or.inl h1
          · exact Or.inr (by simp [Stmt.typeNamesList, Stmt.typeNames])
        | rawType ex n text =>
          simp only [List.mem_append, List.mem_singleton] at h1
          rcases h1 with h1 | rfl
          · exact Or.inl h1
          · exact Or.inr (by simp [Stmt.typeNamesList, Stmt.typeNames])
        | «namespace» ex n body =>
          rcases ih _ _ _ _ h1 with h2 | h2
          · exact Or.inl h2
          · exact Or.inr (by simp [Stmt.typeNamesList, Stmt.typeNames, h2])
        | «import» _ _ _ => exact Or.inl h1
        | exportList _ _ => exact Or.inl h1
        | const _ _ _ _ _ => exact Or.inl h1
        | exportDefault _ => exact Or.inl h1
        | doc _ => exact Or.inl h1
      · exact Or.inr (by simp [Stmt.typeNamesList, h1])

theorem ofFile_names (f : File) (d : Decl) (h : d ∈ (Decls.ofFile f).types) :
    d.name ∈ Stmt.typeNamesList f := by
  rcases collect_names _ _ _ _ d h with h | h
  · simp at h
  · exact h

theorem findLocal_some {d : Decls} {scope : Scope} {n : String} {x : Decl} (h : d.findLocal scope n = some x) :
    x ∈ d.types ∧ x.name = n := by
  unfold Decls.findLocal at h
  refine ⟨List.mem_of_find?_eq_some h, ?_⟩
  have := List.find?_some h
  simp only [Bool.and_eq_true, beq_iff_eq] at this
  exact this.2

theorem resolveRefAux_some {d : Decls} {n : String} : ∀ (fuel : Nat) (scope : Scope) (x : Decl),
    Decls.resolveRefAux d n fuel scope = some x → x ∈ d.types ∧ x.name = n := by
  intro fuel
  induction fuel with
  | zero => intro scope x h; simp [Decls.resolveRefAux] at h
  | succ fuel ih =>
    intro scope x h
    simp only [Decls.resolveRefAux] at h
    split at h
    · rename_i y hy; cases h; exact findLocal_some hy
    · split at h
      · cases h
      · exact ih _ _ h

/-- a name that no `type` statement of the file binds resolves to nothing, from every scope -/
theorem resolveRef_none_of_unbound (f : File) (scope : Scope) (n : String)
    (h : n ∉ Stmt.typeNamesList f) : (Decls.ofFile f).resolveRef scope n = none := by
  cases hr : (Decls.ofFile f).resolveRef scope n with
  | none => rfl
  | some x =>
    exfalso
    obtain ⟨hm, hn⟩ := resolveRefAux_some _ _ _ hr
    exact h (hn ▸ ofFile_names f x hm)


/-! ### exact content of a collected table -/

mutual
/-- the declarations a statement contributes when it stands in `scope` -/
def Stmt.decls (scope : Scope) : Stmt → List Decl
  | .type ex n ps t => [⟨scope, n, ex, ps.map (·.1), t⟩]
  | .rawType ex n text => [⟨scope, n, ex, [], .other "raw" [text]⟩]
  | .namespace _ n body => Stmt.declsList (scope ++ [n]) body
  | _ => []
def Stmt.declsList (scope : Scope) : List Stmt → List Decl
  | [] => []
  | s :: r => s.decls scope ++ Stmt.declsList scope r
end

theorem Stmt.size_pos (s : Stmt) : 1 ≤ s.size := by
  cases s <;> simp [Stmt.size]

/-- with enough fuel the table's declarations are exactly the accumulator's followed by the file's, in order -/
theorem collect_types_eq : ∀ (fuel : Nat) (scope : Scope) (stmts : List Stmt) (acc : Decls),
    Stmt.sizeList stmts ≤ fuel →
    (Decls.collect fuel scope stmts acc).types = acc.types ++ Stmt.declsList scope stmts := by
  intro fuel
  induction fuel with
  | zero =>
    intro scope stmts acc h
    cases stmts with
    | nil => simp [Decls.collect, Stmt.declsList]
    | cons s r => have := Stmt.size_pos s; simp [Stmt.sizeList] at h; omega
  | succ fuel ih =>
    intro scope stmts acc h
    cases stmts with
    | nil => simp [Decls.collect, Stmt.declsList]
    | cons s rest =>
      have hs := Stmt.size_pos s
      simp only [Stmt.sizeList] at h
      have hrest : Stmt.sizeList rest ≤ fuel := by omega
      simp only [Decls.collect]
      rw [ih _ _ _ hrest]
      cases s with
      | type ex n ps t => simp [Stmt.declsList, Stmt.decls]
      | rawType ex n text => simp [Stmt.declsList, Stmt.decls]
      | «namespace» ex n body =>
        have hb : Stmt.sizeList body ≤ fuel := by simp [Stmt.size] at h; omega
        rw [ih _ _ _ hb]
        simp [Stmt.declsList, Stmt.decls]
      | «import» _ _ _ => simp [Stmt.declsList, Stmt.decls]
      | exportList _ _ => simp [Stmt.declsList, Stmt.decls]
      | const _ _ _ _ _ => simp [Stmt.declsList, Stmt.decls]
      | exportDefault _ => simp [Stmt.declsList, Stmt.decls]
      | doc _ => simp [Stmt.declsList, Stmt.decls]

/-- the declaration table of a file lists exactly the declarations of its `type` statements, each with the
    namespace path it stands in, in file order -/
theorem ofFile_types (f : File) : (Decls.ofFile f).types = Stmt.declsList [] f := by
  unfold Decls.ofFile
  rw [collect_types_eq _ _ _ _ (Nat.le_succ _)]
  simp

end NitroVerif.Ts
