import NitroVerif.Lemmas.ValueTokens
import NitroVerif.Spec.GqlDocTokens
/-!
C16, token level: the specification's token parser (`Spec/GqlDocTokens.lean`) reads the canonical token stream of
every executable definition back (selections, selection sets, variable definitions, operations, fragments, documents).
Generic pieces (look-ahead predicate, fuel bounds by stream length, `manyUntil`, `parseDirs`) are shared with the
type-system part (`Lemmas/GqlPrintParseTs.lean`).
-/
namespace NitroVerif.C16
open NitroVerif.Gql NitroVerif.GqlTokens

/-! ### look-ahead -/

/-- the token list begins with the punctuator `s` -/
def startsP (s : String) : List LTok → Bool
  | [] => false
  | tok :: _ => tok = .p s

/-- the token list does not begin with a punctuator that could continue the construct before it -/
def stops (ts : List LTok) : Bool :=
  !startsP "!" ts && !startsP "(" ts && !startsP "@" ts && !startsP ":" ts && !startsP "{" ts && !startsP "=" ts &&
    !startsP "&" ts && !startsP "|" ts

structure Stops (ts : List LTok) : Prop where
  bang : startsP "!" ts = false
  paren : startsP "(" ts = false
  at_ : startsP "@" ts = false
  colon : startsP ":" ts = false
  brace : startsP "{" ts = false
  eq : startsP "=" ts = false
  amp : startsP "&" ts = false
  bar : startsP "|" ts = false

theorem stops_iff (ts : List LTok) : stops ts = true ↔ Stops ts := by
  constructor
  · intro h
    simp only [stops, Bool.and_eq_true, Bool.not_eq_true'] at h
    obtain ⟨⟨⟨⟨⟨⟨⟨h1, h2⟩, h3⟩, h4⟩, h5⟩, h6⟩, h7⟩, h8⟩ := h
    exact ⟨h1, h2, h3, h4, h5, h6, h7, h8⟩
  · intro h
    simp [stops, h.bang, h.paren, h.at_, h.colon, h.brace, h.eq, h.amp, h.bar]

theorem startsP_nil (s : String) : startsP s [] = false := rfl
theorem startsP_name (s n : String) (r : List LTok) : startsP s (.name n :: r) = false := by simp [startsP]
theorem startsP_str (s n : String) (r : List LTok) : startsP s (.str n :: r) = false := by simp [startsP]
theorem startsP_int (s n : String) (r : List LTok) : startsP s (.int n :: r) = false := by simp [startsP]
theorem startsP_float (s n : String) (r : List LTok) : startsP s (.float n :: r) = false := by simp [startsP]
theorem startsP_p (s s' : String) (r : List LTok) : startsP s (.p s' :: r) = decide (s' = s) := by simp [startsP]

theorem startsP_cons_false (s : String) (tok : LTok) (r : List LTok) (h : startsP s (tok :: r) = false) :
    tok ≠ .p s := by simpa [startsP] using h

theorem Stops.nil : Stops [] := ⟨rfl, rfl, rfl, rfl, rfl, rfl, rfl, rfl⟩
theorem Stops.name (n : String) (r : List LTok) : Stops (.name n :: r) := by
  constructor <;> exact startsP_name _ _ _
theorem Stops.str (n : String) (r : List LTok) : Stops (.str n :: r) := by
  constructor <;> exact startsP_str _ _ _
theorem Stops.close_brace (r : List LTok) : Stops (.p "}" :: r) := by constructor <;> simp [startsP]
theorem Stops.close_paren (r : List LTok) : Stops (.p ")" :: r) := by constructor <;> simp [startsP]
theorem Stops.dollar (r : List LTok) : Stops (.p "$" :: r) := by constructor <;> simp [startsP]
theorem Stops.dots (r : List LTok) : Stops (.p "..." :: r) := by constructor <;> simp [startsP]

/-! ### stream lengths bound the fuel the leaf parsers need -/

theorem depth_lt_length (t : GType) : depth t < (typeToks t).length := by
  induction t with
  | named n p => simp [depth, typeToks]
  | list t p ih => simp [depth, typeToks]; omega
  | nonNull t ih => simp [depth, typeToks]; omega

mutual
theorem size_le_length : (v : Value) → v.size ≤ (valueToks v).length
  | .var n _ => by simp [Value.size, valueToks]
  | .int s _ => by simp [Value.size, valueToks]
  | .float s _ => by simp [Value.size, valueToks]
  | .str s _ => by simp [Value.size, valueToks]
  | .bool b _ => by simp [Value.size, valueToks]
  | .null _ => by simp [Value.size, valueToks]
  | .enum n _ => by simp [Value.size, valueToks]
  | .list vs _ => by have := sizeList_le_length vs; simp [Value.size, valueToks]; omega
  | .obj fs _ => by have := sizeFields_le_length fs; simp [Value.size, valueToks]; omega
theorem sizeList_le_length : (vs : List Value) → Value.sizeList vs ≤ (valueListToks vs).length
  | [] => by simp [Value.sizeList, valueListToks]
  | v :: vs => by
    have := size_le_length v; have := sizeList_le_length vs
    simp [Value.sizeList, valueListToks]; omega
theorem sizeFields_le_length : (fs : List (Name × Pos × Value)) → Value.sizeFields fs ≤ (fieldToks fs).length
  | [] => by simp [Value.sizeFields, fieldToks]
  | (k, p, v) :: r => by
    have := size_le_length v; have := sizeFields_le_length r
    simp [Value.sizeFields, fieldToks]; omega
end

/-! ### leaves -/

theorem parse_type' (t : GType) (hwf : wfType t = true) (rest : List LTok) (f : Nat)
    (hf : (typeToks t).length ≤ f) (hr : startsP "!" rest = false) :
    parseType f (typeToks t ++ rest) = some (t.erasePos, rest) := by
  rw [parseType_typeToks t hwf rest f (by have := depth_lt_length t; omega)]
  split
  · rfl
  · cases rest with
    | nil => rfl
    | cons tok r => simp [bang, startsP_cons_false _ _ _ hr]

theorem parse_value' (v : Value) (hwf : wfValue v = true) (rest : List LTok) (f : Nat)
    (hf : 2 * (valueToks v).length ≤ f) : parseValue f (valueToks v ++ rest) = some (v.erasePos, rest) :=
  parse_value v hwf rest f (by have := size_le_length v; omega)

theorem parse_argsOpt (as : List Arg) (hwf : wfFields as = true) (rest : List LTok) (f : Nat)
    (hf : 2 * (argsToks as).length ≤ f) (hr : startsP "(" rest = false) :
    parseArgsOpt f (argsToks as ++ rest) = some (Value.erasePosFields as, rest) := by
  cases as with
  | nil =>
    cases rest with
    | nil => simp [argsToks, parseArgsOpt, Value.erasePosFields]
    | cons tok r => simp [argsToks, parseArgsOpt, Value.erasePosFields, startsP_cons_false _ _ _ hr]
  | cons a as =>
    have hl := sizeFields_le_length (a :: as)
    simp only [argsToks, List.length_cons, List.length_append, List.length_nil] at hf
    have h := parse_fields ")" (a :: as) hwf rest f (by omega)
    obtain ⟨k, p, v⟩ := a
    simp only [Value.erasePosFields] at h
    simp [argsToks, parseArgsOpt, h, Value.erasePosFields]

theorem parse_directive' (d : Directive) (hwf : wfDir d = true) (rest : List LTok) (f : Nat)
    (hf : 2 * (directiveToks d).length ≤ f) (hr : startsP "(" rest = false) :
    parseDirective f (directiveToks d ++ rest) = some (eraseDirective d, rest) := by
  unfold directiveToks eraseDirective
  unfold wfDir at hwf
  simp only [directiveToks, List.length_cons] at hf
  cases hargs : d.args with
  | nil =>
    cases rest with
    | nil => simp [argsToks, parseDirective, Value.erasePosFields]
    | cons tok r => simp [argsToks, parseDirective, Value.erasePosFields, startsP_cons_false _ _ _ hr]
  | cons a as =>
    rw [hargs] at hwf hf
    have hl := sizeFields_le_length (a :: as)
    simp only [argsToks, List.length_cons, List.length_append, List.length_nil] at hf
    have h := parse_fields ")" (a :: as) hwf rest f (by omega)
    obtain ⟨k, p, v⟩ := a
    simp only [Value.erasePosFields] at h
    simp [argsToks, parseDirective, h, Value.erasePosFields]

theorem parseDirs_stop (f : Nat) (rest : List LTok) (hr : startsP "@" rest = false) :
    parseDirs (f + 1) rest = some ([], rest) := by
  cases rest with
  | nil => simp [parseDirs]
  | cons tok r => simp [parseDirs, startsP_cons_false _ _ _ hr]

theorem parse_dirs (ds : List Directive) (hwf : wfDirs ds = true) (rest : List LTok) :
    ∀ (f : Nat), 2 * (dirsToks ds).length + 1 ≤ f → startsP "(" rest = false → startsP "@" rest = false →
    parseDirs f (dirsToks ds ++ rest) = some (eraseDirs ds, rest) := by
  induction ds with
  | nil =>
    intro f hf _ h2
    obtain ⟨g, rfl⟩ := succ_of_pos f (by omega)
    simpa [dirsToks, eraseDirs] using parseDirs_stop g rest h2
  | cons d ds ih =>
    intro f hf h1 h2
    obtain ⟨g, rfl⟩ := succ_of_pos f (by omega)
    simp only [wfDirs, List.all_cons, Bool.and_eq_true] at hwf
    simp only [dirsToks, List.length_append] at hf
    have hlen : 2 ≤ (directiveToks d).length := by simp [directiveToks]
    have hrest : startsP "(" (dirsToks ds ++ rest) = false := by
      cases ds with
      | nil => simpa [dirsToks] using h1
      | cons e es => simp [dirsToks, directiveToks, startsP]
    have hd := parse_directive' d hwf.1 (dirsToks ds ++ rest) g (by omega) hrest
    have hds := ih hwf.2 g (by omega) h1 h2
    have hshape : directiveToks d ++ (dirsToks ds ++ rest) =
        LTok.p "@" :: (LTok.name d.name :: argsToks d.args ++ (dirsToks ds ++ rest)) := by
      simp [directiveToks]
    rw [dirsToks, List.append_assoc]
    rw [hshape] at hd ⊢
    simp only [parseDirs, if_true, hd, hds]
    simp [eraseDirs]

/-- heads of streams that start with an optional part -/
theorem startsP_dirs (s : String) (hs : s ≠ "@") (ds : List Directive) (rest : List LTok)
    (h : startsP s rest = false) : startsP s (dirsToks ds ++ rest) = false := by
  cases ds with
  | nil => simpa [dirsToks] using h
  | cons d ds => simp [dirsToks, directiveToks, startsP]; exact fun e => hs e.symm

theorem startsP_args (s : String) (hs : s ≠ "(") (as : List Arg) (rest : List LTok)
    (h : startsP s rest = false) : startsP s (argsToks as ++ rest) = false := by
  cases as with
  | nil => simpa [argsToks] using h
  | cons d ds => simp [argsToks, startsP]; exact fun e => hs e.symm

/-! ### `manyUntil` -/

/-- `manyUntil` reads a list of nodes back: every node is read back by `p` when followed by something that `Stops`,
    its stream is non-empty, `Stops`, and does not start with the closing punctuator -/
theorem manyUntil_toks {α : Type} (close : String) (p : List LTok → Option (α × List LTok)) (t : α → List LTok)
    (er : α → α) (rest : List LTok) (hclose : Stops (.p close :: rest)) :
    ∀ (xs : List α) (f : Nat), xs.length + 1 ≤ f →
    (∀ x ∈ xs, ∀ r, Stops r → p (t x ++ r) = some (er x, r)) →
    (∀ x ∈ xs, ∀ r, Stops (t x ++ r) ∧ ∃ tok r', t x ++ r = tok :: r' ∧ tok ≠ .p close) →
    manyUntil close p f (listToks t xs ++ .p close :: rest) = some (xs.map er, rest) := by
  intro xs
  induction xs with
  | nil =>
    intro f hf _ _
    obtain ⟨g, rfl⟩ := succ_of_pos f (by simpa using hf)
    simp [listToks, manyUntil]
  | cons x xs ih =>
    intro f hf hp hs
    obtain ⟨g, rfl⟩ := succ_of_pos f (by omega)
    have hfollow : Stops (listToks t xs ++ .p close :: rest) := by
      cases xs with
      | nil => simpa [listToks] using hclose
      | cons y ys =>
        have := (hs y (by simp) (listToks t ys ++ .p close :: rest)).1
        simpa [listToks, List.append_assoc] using this
    have hx := hp x (by simp) _ hfollow
    obtain ⟨_, tok, r', he, hne⟩ := hs x (by simp) (listToks t xs ++ .p close :: rest)
    have hrec := ih g (by simp at hf; omega) (fun y hy => hp y (by simp [hy])) (fun y hy => hs y (by simp [hy]))
    rw [listToks, List.append_assoc]
    rw [he] at hx ⊢
    simp [manyUntil, hne, hx, hrec]

theorem many1Until_toks {α : Type} (close : String) (p : List LTok → Option (α × List LTok)) (t : α → List LTok)
    (er : α → α) (rest : List LTok) (hclose : Stops (.p close :: rest)) (x : α) (xs : List α) (f : Nat)
    (hf : xs.length + 2 ≤ f)
    (hp : ∀ y ∈ x :: xs, ∀ r, Stops r → p (t y ++ r) = some (er y, r))
    (hs : ∀ y ∈ x :: xs, ∀ r, Stops (t y ++ r) ∧ ∃ tok r', t y ++ r = tok :: r' ∧ tok ≠ .p close) :
    many1Until close p f (listToks t (x :: xs) ++ .p close :: rest) = some ((x :: xs).map er, rest) := by
  unfold many1Until
  rw [manyUntil_toks close p t er rest hclose (x :: xs) f (by simpa using hf) hp hs]
  rfl

theorem manyEnd_toks {α : Type} (p : List LTok → Option (α × List LTok)) (t : α → List LTok) (er : α → α) :
    ∀ (xs : List α) (f : Nat), xs.length + 1 ≤ f →
    (∀ x ∈ xs, ∀ r, (r = [] ∨ ∃ y r', r = t y ++ r' ∧ y ∈ xs) → p (t x ++ r) = some (er x, r)) →
    (∀ x ∈ xs, t x ≠ []) →
    manyEnd p f (listToks t xs) = some (xs.map er) := by
  intro xs
  induction xs with
  | nil =>
    intro f hf _ _
    obtain ⟨g, rfl⟩ := succ_of_pos f (by simpa using hf)
    simp [listToks, manyEnd]
  | cons x xs ih =>
    intro f hf hp hne
    obtain ⟨g, rfl⟩ := succ_of_pos f (by omega)
    have hx := hp x (by simp) (listToks t xs) (by
      cases xs with
      | nil => left; rfl
      | cons y ys => right; exact ⟨y, listToks t ys, rfl, by simp⟩)
    have hrec := ih g (by simp at hf; omega)
      (fun y hy r hr => hp y (by simp [hy]) r (by
        rcases hr with hr | ⟨z, r', hz, hm⟩
        · left; exact hr
        · right; exact ⟨z, r', hz, by simp [hm]⟩))
      (fun y hy => hne y (by simp [hy]))
    have hxne := hne x (by simp)
    rw [listToks]
    cases hsh : t x ++ listToks t xs with
    | nil => simp [hxne] at hsh
    | cons tok r' =>
      rw [hsh] at hx
      simp [manyEnd, hx, hrec]

/-! ### selections -/

theorem selectionsToks_eq (ss : List Selection) : selectionsToks ss = listToks selectionToks ss := by
  induction ss with
  | nil => rfl
  | cons s ss ih => simp [selectionsToks, listToks, ih]

theorem parseAlias_none (a : String) (X : List LTok) (h : startsP ":" X = false) :
    parseAlias a X = (none, a, X) := by
  unfold parseAlias
  split
  · rename_i colon n r
    simp [startsP_cons_false _ _ _ h]
  · rfl

theorem parseAlias_some (a n : String) (X : List LTok) :
    parseAlias a (.p ":" :: .name n :: X) = (some (a, Pos.none), n, X) := by
  simp [parseAlias]

/-- the first token of a selection: a name or `...` -/
theorem selectionToks_head (s : Selection) (r : List LTok) :
    Stops (selectionToks s ++ r) ∧ ∃ tok r', selectionToks s ++ r = tok :: r' ∧ tok ≠ .p "}" := by
  cases s with
  | field al n np as ds ss =>
    rcases al with _ | ⟨a, p⟩ <;> rcases ss with _ | xs
    · simp only [selectionToks, List.nil_append, List.cons_append]
      exact ⟨Stops.name _ _, _, _, rfl, by simp⟩
    · simp only [selectionToks, List.nil_append, List.cons_append]
      exact ⟨Stops.name _ _, _, _, rfl, by simp⟩
    · simp only [selectionToks, List.cons_append]
      exact ⟨Stops.name _ _, _, _, rfl, by simp⟩
    · simp only [selectionToks, List.cons_append]
      exact ⟨Stops.name _ _, _, _, rfl, by simp⟩
  | spread n np ds p =>
    simp only [selectionToks, List.cons_append]
    exact ⟨Stops.dots _, _, _, rfl, by simp⟩
  | inline c ds ss p =>
    simp only [selectionToks, List.cons_append]
    exact ⟨Stops.dots _, _, _, rfl, by simp⟩

theorem eraseSels_eq_map (ss : List Selection) : eraseSels ss = ss.map eraseSel := by
  induction ss with
  | nil => rfl
  | cons s ss ih => simp [eraseSels, ih]

theorem parseSelSet_of (g : Nat) (ss : List Selection) (rest : List LTok) (hne : ss.isEmpty = false)
    (h : parseSelections g (selectionsToks ss ++ .p "}" :: rest) = some (eraseSels ss, rest)) :
    parseSelSet (g + 1) (.p "{" :: (selectionsToks ss ++ .p "}" :: rest)) = some (eraseSels ss, rest) := by
  cases ss with
  | nil => simp at hne
  | cons s ss => simp only [eraseSels] at h ⊢; simp [parseSelSet, h]

mutual
theorem parse_selection : (s : Selection) → wfSel s = true → ∀ (rest : List LTok) (f : Nat), Stops rest →
    2 * (selectionToks s).length + 2 ≤ f → parseSelection f (selectionToks s ++ rest) = some (eraseSel s, rest)
  | .field al n np as ds none, hwf, rest, f, hr, hf => by
    obtain ⟨g, rfl⟩ := succ_of_pos f (by omega)
    simp only [wfSel, Bool.and_eq_true] at hwf
    have hX : startsP ":" (argsToks as ++ (dirsToks ds ++ rest)) = false :=
      startsP_args ":" (by decide) _ _ (startsP_dirs ":" (by decide) _ _ hr.colon)
    have hY : startsP "(" (dirsToks ds ++ rest) = false := startsP_dirs "(" (by decide) _ _ hr.paren
    rcases al with _ | ⟨a, p⟩
    · simp only [selectionToks, List.length_append, List.length_cons, List.length_nil] at hf
      have hargs := parse_argsOpt as hwf.1 (dirsToks ds ++ rest) g (by omega) hY
      have hdirs := parse_dirs ds hwf.2 rest g (by omega) hr.paren hr.at_
      simp only [selectionToks, List.nil_append, List.cons_append, List.append_assoc, List.append_nil]
      simp only [parseSelection, parseAlias_none n _ hX, hargs, hdirs]
      cases rest with
      | nil => simp [eraseSel, eraseOptName]
      | cons tok r => simp [eraseSel, eraseOptName, startsP_cons_false _ _ _ hr.brace]
    · simp only [selectionToks, List.length_append, List.length_cons, List.length_nil] at hf
      have hargs := parse_argsOpt as hwf.1 (dirsToks ds ++ rest) g (by omega) hY
      have hdirs := parse_dirs ds hwf.2 rest g (by omega) hr.paren hr.at_
      simp only [selectionToks, List.nil_append, List.cons_append, List.append_assoc, List.append_nil]
      simp only [parseSelection, parseAlias_some, hargs, hdirs]
      cases rest with
      | nil => simp [eraseSel, eraseOptName]
      | cons tok r => simp [eraseSel, eraseOptName, startsP_cons_false _ _ _ hr.brace]
  | .field al n np as ds (some xs), hwf, rest, f, hr, hf => by
    obtain ⟨g, rfl⟩ := succ_of_pos f (by omega)
    simp only [wfSel, Bool.and_eq_true, Bool.not_eq_true'] at hwf
    obtain ⟨⟨⟨hw1, hw2⟩, hne⟩, hw3⟩ := hwf
    have hX : startsP ":" (argsToks as ++ (dirsToks ds ++ LTok.p "{" :: (selectionsToks xs ++ LTok.p "}" :: rest))) = false :=
      startsP_args ":" (by decide) _ _ (startsP_dirs ":" (by decide) _ _ (by simp [startsP]))
    have hY : startsP "(" (dirsToks ds ++ LTok.p "{" :: (selectionsToks xs ++ LTok.p "}" :: rest)) = false :=
      startsP_dirs "(" (by decide) _ _ (by simp [startsP])
    rcases al with _ | ⟨a, p⟩
    · simp only [selectionToks, List.length_append, List.length_cons, List.length_nil] at hf
      obtain ⟨h, rfl⟩ := succ_of_pos g (by omega)
      have hargs := parse_argsOpt as hw1 _ (h + 1) (by omega) hY
      have hdirs := parse_dirs ds hw2 (LTok.p "{" :: (selectionsToks xs ++ LTok.p "}" :: rest)) (h + 1) (by omega)
        (by simp [startsP]) (by simp [startsP])
      have hsel := parseSelSet_of h xs rest hne (parse_selections xs hw3 rest h (by omega))
      simp only [selectionToks, List.nil_append, List.cons_append, List.append_assoc, List.append_nil]
      simp only [parseSelection, parseAlias_none n _ hX, hargs, hdirs, hsel]
      simp [eraseSel, eraseOptName]
    · simp only [selectionToks, List.length_append, List.length_cons, List.length_nil] at hf
      obtain ⟨h, rfl⟩ := succ_of_pos g (by omega)
      have hargs := parse_argsOpt as hw1 _ (h + 1) (by omega) hY
      have hdirs := parse_dirs ds hw2 (LTok.p "{" :: (selectionsToks xs ++ LTok.p "}" :: rest)) (h + 1) (by omega)
        (by simp [startsP]) (by simp [startsP])
      have hsel := parseSelSet_of h xs rest hne (parse_selections xs hw3 rest h (by omega))
      simp only [selectionToks, List.nil_append, List.cons_append, List.append_assoc, List.append_nil]
      simp only [parseSelection, parseAlias_some, hargs, hdirs, hsel]
      simp [eraseSel, eraseOptName]
  | .spread n np ds p, hwf, rest, f, hr, hf => by
    obtain ⟨g, rfl⟩ := succ_of_pos f (by omega)
    simp only [wfSel, Bool.and_eq_true, bne_iff_ne, ne_eq] at hwf
    simp only [selectionToks, List.length_cons] at hf
    have hdirs := parse_dirs ds hwf.2 rest g (by omega) hr.paren hr.at_
    simp only [selectionToks, List.cons_append]
    simp [parseSelection, hwf.1, hdirs, eraseSel]
  | .inline c ds ss p, hwf, rest, f, hr, hf => by
    obtain ⟨g, rfl⟩ := succ_of_pos f (by omega)
    simp only [wfSel, Bool.and_eq_true, Bool.not_eq_true'] at hwf
    obtain ⟨⟨hw2, hne⟩, hw3⟩ := hwf
    rcases c with _ | ⟨t, tp⟩
    · simp only [selectionToks, List.length_append, List.length_cons, List.length_nil] at hf
      obtain ⟨h, rfl⟩ := succ_of_pos g (by omega)
      have hdirs := parse_dirs ds hw2 (LTok.p "{" :: (selectionsToks ss ++ LTok.p "}" :: rest)) (h + 1) (by omega)
        (by simp [startsP]) (by simp [startsP])
      have hsel := parseSelSet_of h ss rest hne (parse_selections ss hw3 rest h (by omega))
      simp only [selectionToks, List.nil_append, List.cons_append, List.append_assoc, List.append_nil]
      cases ds with
      | nil =>
        simp only [dirsToks, List.nil_append] at hdirs ⊢
        simp [parseSelection, hdirs, hsel, eraseSel, eraseOptName]
      | cons d ds =>
        simp only [dirsToks, directiveToks, List.cons_append, List.append_assoc] at hdirs ⊢
        simp [parseSelection, hdirs, hsel, eraseSel, eraseOptName]
    · simp only [selectionToks, List.length_append, List.length_cons, List.length_nil] at hf
      obtain ⟨h, rfl⟩ := succ_of_pos g (by omega)
      have hdirs := parse_dirs ds hw2 (LTok.p "{" :: (selectionsToks ss ++ LTok.p "}" :: rest)) (h + 1) (by omega)
        (by simp [startsP]) (by simp [startsP])
      have hsel := parseSelSet_of h ss rest hne (parse_selections ss hw3 rest h (by omega))
      simp only [selectionToks, List.nil_append, List.cons_append, List.append_assoc, List.append_nil]
      simp [parseSelection, hdirs, hsel, eraseSel, eraseOptName]
theorem parse_selections : (ss : List Selection) → wfSels ss = true → ∀ (rest : List LTok) (f : Nat),
    2 * (selectionsToks ss).length + 3 ≤ f →
    parseSelections f (selectionsToks ss ++ LTok.p "}" :: rest) = some (eraseSels ss, rest)
  | [], _, rest, f, hf => by
    obtain ⟨g, rfl⟩ := succ_of_pos f (by omega)
    simp [selectionsToks, parseSelections, eraseSels]
  | s :: ss, hwf, rest, f, hf => by
    obtain ⟨g, rfl⟩ := succ_of_pos f (by omega)
    simp only [wfSels, Bool.and_eq_true] at hwf
    simp only [selectionsToks, List.length_append] at hf
    have hfollow : Stops (selectionsToks ss ++ LTok.p "}" :: rest) := by
      cases ss with
      | nil => simpa [selectionsToks] using Stops.close_brace rest
      | cons y ys =>
        have := (selectionToks_head y (selectionsToks ys ++ LTok.p "}" :: rest)).1
        simpa [selectionsToks, List.append_assoc] using this
    obtain ⟨_, tok, r', he, hne⟩ := selectionToks_head s (selectionsToks ss ++ LTok.p "}" :: rest)
    have hlen : 1 ≤ (selectionToks s).length := by
      have := congrArg List.length he
      simp only [List.length_append, List.length_cons] at this
      cases hs : selectionToks s with
      | nil =>
        exfalso
        have h2 := (selectionToks_head s []).2
        rw [hs] at h2
        obtain ⟨_, _, h3, _⟩ := h2
        simp at h3
      | cons a b => simp
    have hs := parse_selection s hwf.1 _ g hfollow (by omega)
    have hss := parse_selections ss hwf.2 rest g (by omega)
    rw [selectionsToks, List.append_assoc]
    rw [he] at hs ⊢
    simp [parseSelections, hne, hs, hss, eraseSels]
end

theorem parse_selSet (ss : List Selection) (hne : ss.isEmpty = false) (hwf : wfSels ss = true) (rest : List LTok)
    (f : Nat) (hf : 2 * (selectionSetToks ss).length + 2 ≤ f) :
    parseSelSet f (selectionSetToks ss ++ rest) = some (eraseSels ss, rest) := by
  simp only [selectionSetToks, List.length_cons, List.length_append, List.length_nil] at hf
  obtain ⟨g, rfl⟩ := succ_of_pos f (by omega)
  have := parseSelSet_of g ss rest hne (parse_selections ss hwf rest g (by omega))
  simpa [selectionSetToks, List.append_assoc] using this

end NitroVerif.C16
