/-
`Directive` and `Directives` in the offset / token-plus-gap form (helper lemmas for Props/C07Doc). The text of a directive
is the one of `ParseDirectives.lean` (`renderDir`: `@ gap name (gap (args))?`) followed by its trailing gap; a directive
list is `renderItems` of those. Unlike `directive_runs`, a name may follow a directive (separated by a gap).
-/
import NitroVerif.Lemmas.ParseDocLeaf
namespace NitroVerif.DocParse
open NitroVerif.Peg NitroVerif.Gen NitroVerif.Gen.Parts NitroVerif.Build NitroVerif.TypeParse NitroVerif.StringParse
open NitroVerif.Gql NitroVerif.ValueParse NitroVerif.Spec.Lex

set_option linter.unusedSimpArgs false

variable {inp : List Char}

/-- a directive followed by its trailing gap -/
def rDir (τ : Trivia) (sep : Bool) (p : Nat) (d : Directive) : List Char := tk τ sep p (renderDir τ p d)

theorem rDir_eq (τ : Trivia) (sep : Bool) (p : Nat) (d : Directive) : rDir τ sep p d = tk τ false p ['@'] ++
    (match d.args with
     | [] => tk τ sep (p + 1 + (τ (p + 1)).length) d.name.toList
     | a :: as => tk τ false (p + 1 + (τ (p + 1)).length) d.name.toList ++
        tk τ sep (dQ τ p d + (τ (dQ τ p d)).length) (renderArgs τ (dQ τ p d + (τ (dQ τ p d)).length) (a :: as))) := by
  cases hd : d.args with
  | nil => simp [rDir, tk, renderDir, hd, dirArgsText, dQ, gapS, Nat.add_assoc, Nat.add_comm, Nat.add_left_comm]
  | cons a as => simp [rDir, tk, renderDir, hd, dirArgsText, dQ, gapS, Nat.add_assoc, Nat.add_comm, Nat.add_left_comm]

theorem hd_rDir (τ : Trivia) (sep : Bool) (p : Nat) (d : Directive) : Hd (· = '@') (rDir τ sep p d) :=
  ⟨'@', _, rfl, rfl⟩

theorem hd_renderArgs (τ : Trivia) (p : Nat) (args : List Arg) : Hd (· = '(') (renderArgs τ p args) :=
  ⟨'(', _, rfl, rfl⟩

theorem hd_paren : ∀ d, d = '(' → ¬ trivia d ∧ ¬ (fun c : Char => c = '(') '@' ∧ ¬ nameCont d := by
  rintro d rfl; decide

/-- the `Directive` rule on a directive followed by its gap; what follows must not begin with `(` -/
theorem dirT (τ : Trivia) (hτ : ∀ q, Ws (τ q)) (d : Directive) (hwf : WFDir d) {sep : Bool} {p : Nat} {bad : Char → Prop}
    (hbad : bad '(') (h : HasAt inp p (rDir τ sep p d)) (hn : Nxt inp bad sep (p + (rDir τ sep p d).length)) :
    ∃ e, RunsK (B (rDir τ sep p d).length + 10) (.call R.Directive) (At inp p) (At inp (p + (rDir τ sep p d).length))
      [.mk R.Directive p e (dirChildren τ p d)] := by
  obtain ⟨hname, hargs⟩ := hwf
  have hq := rDir_eq τ sep p d
  cases hda : d.args with
  | nil =>
    rw [hda] at hq
    simp only at hq
    generalize hA : tk τ false p ['@'] = tA at hq
    generalize hp1 : p + 1 + (τ (p + 1)).length = p1 at hq
    generalize hN : tk τ sep p1 d.name.toList = tN at hq
    rw [hq] at h hn ⊢
    have hlenA : p + tA.length = p1 := by rw [← hA, ← hp1, tk_length]; simp [gapS]; omega
    have h1 : HasAt inp p (tk τ false p ['@']) := hA ▸ h.left
    have h2 : HasAt inp p1 (tk τ sep p1 d.name.toList) := by
      have := h.right; rw [hlenA, ← hN] at this; exact this
    have hn2 : Nxt inp bad sep (p1 + (tk τ sep p1 d.name.toList).length) := by
      refine hn.cast ?_
      rw [hN]; simp only [List.length_append]; omega
    have hnm := (nameT hτ hname h2 hn2).toK
    have ht1 : Tok (At inp (p + (tk τ false p ['@']).length)) := by
      rw [hA, hlenA]
      exact tok_of_hd h2 (hd_tk (hd_of_validName hname)) (fun d => nameStart_not_trivia)
    have hat := strT hτ ['@'] h1 ht1
    have hopt : RunsK _ (.opt (.call R.Arguments)) (At inp (p1 + (tk τ sep p1 d.name.toList).length)) _ [] :=
      runsK_opt_none (args_fails (headNot_mono (fun d hd => hd ▸ hbad) hn2.ok)) hn2.tok
    rw [hA, hlenA] at hat
    obtain ⟨e, hrule⟩ := runsK_rule look_Directive (by decide) (by decide) (runsK_seq hat (runsK_seq hnm hopt))
    refine ⟨e, RunsK.cast (hrule.mono ?_) rfl ?_ ?_⟩
    · rw [hN] at *; rw [← hA] at *; barith
    · rw [hN]; simp only [List.length_append]; congr 1; omega
    · simp [dirChildren, hda, dQ, At, ← hp1]
  | cons a as =>
    rw [hda] at hq
    simp only at hq
    generalize hA : tk τ false p ['@'] = tA at hq
    generalize hp1 : p + 1 + (τ (p + 1)).length = p1 at hq
    generalize hN : tk τ false p1 d.name.toList = tN at hq
    generalize hp2 : dQ τ p d + (τ (dQ τ p d)).length = p2 at hq
    generalize hG : tk τ sep p2 (renderArgs τ p2 (a :: as)) = tG at hq
    rw [hq] at h hn ⊢
    have hlenA : p + tA.length = p1 := by rw [← hA, ← hp1, tk_length]; simp [gapS]; omega
    have hlenN : p1 + tN.length = p2 := by
      rw [← hN, ← hp2, ← hp1, tk_length]; simp [gapS, dQ]; omega
    have h1 : HasAt inp p (tk τ false p ['@']) := hA ▸ h.left
    have h2 : HasAt inp p1 (tk τ false p1 d.name.toList) := by
      have := h.right.left; rw [hlenA, ← hN] at this; exact this
    have h3 : HasAt inp p2 (tk τ sep p2 (renderArgs τ p2 (a :: as))) := by
      have := h.right.right; rw [hlenA, hlenN, ← hG] at this; exact this
    have hn3 : Nxt inp bad sep (p2 + (tk τ sep p2 (renderArgs τ p2 (a :: as))).length) := by
      refine hn.cast ?_
      rw [hG]; simp only [List.length_append]; omega
    have hn2 : Nxt inp (fun _ => False) false (p1 + (tk τ false p1 d.name.toList).length) := by
      rw [hN, hlenN]
      exact Nxt.of_hd h3 (hd_tk (hd_renderArgs τ p2 (a :: as))) (by rintro d rfl; decide)
    have hnm := (nameT hτ hname h2 hn2).toK
    have ht1 : Tok (At inp (p + (tk τ false p ['@']).length)) := by
      rw [hA, hlenA]
      exact tok_of_hd h2 (hd_tk (hd_of_validName hname)) (fun d => nameStart_not_trivia)
    have hat := strT hτ ['@'] h1 ht1
    have hargsK := argsT τ hτ (a :: as) (by simp) (hda ▸ hargs) h3 hn3.tok
    rw [hA, hlenA] at hat
    rw [hN, hlenN] at hnm
    obtain ⟨e, hrule⟩ := runsK_rule look_Directive (by decide) (by decide)
      (runsK_seq hat (runsK_seq hnm (runsK_opt_some hargsK)))
    refine ⟨e, RunsK.cast (hrule.mono ?_) rfl ?_ ?_⟩
    · rw [hG] at *; rw [← hA, ← hN] at *; barith
    · rw [hG]; simp only [List.length_append]; congr 1; omega
    · simp [dirChildren, hda, At, ← hp1, ← hp2, dQ]

/-! ### the `Directives` list -/

/-- a (possibly empty) directive list: the directives one after another, each followed by its gap -/
def rDirs (τ : Trivia) (sep : Bool) (p : Nat) (ds : List Directive) : List Char := renderItems (rDir τ) false sep p ds

/-- the directives with the positions of their tokens -/
def wpDirs (τ : Trivia) (inp : List Char) (sep : Bool) (p : Nat) (ds : List Directive) : List Directive :=
  mapItems (rDir τ) false sep (fun _ q d => withPosD τ inp q d) p ds

def DirGood (τ : Trivia) (inp : List Char) : Bool → Nat → Directive → Pair → Prop := fun _ q d pr =>
  HasAt inp q (renderDir τ q d) ∧ ∃ e, pr = .mk R.Directive q e (dirChildren τ q d)

theorem wfDirs_mem {d : Directive} : ∀ {ds : List Directive}, WFDirs ds → d ∈ ds → WFDir d := by
  intro ds
  induction ds with
  | nil => intro _ h; cases h
  | cons x xs ih =>
    intro hwf h
    rcases List.mem_cons.mp h with rfl | h
    · exact hwf.1
    · exact ih hwf.2 h

theorem sizeFields_le_renderDir (τ : Trivia) (p : Nat) (d : Directive) (hwf : WFDir d) :
    Value.sizeFields d.args ≤ (renderDir τ p d).length := by
  cases hda : d.args with
  | nil => simp [Value.sizeFields]
  | cons a as =>
    have := sizeFields_le_args τ (a :: as) (hda ▸ hwf.2) (dQ τ p d + (τ (dQ τ p d)).length)
    simp only [renderDir, hda, dirArgsText, List.length_cons, List.length_append]
    omega

theorem clean_dirChildren (τ : Trivia) (p : Nat) (d : Directive) : CleanL (dirChildren τ p d) := by
  unfold dirChildren
  refine ⟨cleanP_of (by decide) (by decide) trivial, ?_⟩
  cases d.args with
  | nil => trivial
  | cons a as => exact ⟨clean_argsPair τ _ _, trivial⟩

theorem directives_fails {p : Nat} (h : HeadNot (· = '@') (inp.drop p)) :
    Fails gList 8 true (.call R.Directives) .nonAtomic (At inp p) :=
  fails_rule look_Directives (by decide) (by decide)
    (failsL_plus (la := .none) (fails_seq_1 (fails_call (directive_fails h))))

theorem rDir_length_ge (τ : Trivia) (s : Bool) (q : Nat) (d : Directive) :
    (renderDir τ q d).length ≤ (rDir τ s q d).length := by simp [rDir, tk]

/-- the `Directives` rule on a non-empty directive list (each directive followed by its gap); what follows must begin
    with neither `(` nor `@` -/
theorem dirsT (τ : Trivia) (hτ : ∀ q, Ws (τ q)) (ds : List Directive) (hne : ds ≠ []) (hwf : WFDirs ds) {sep : Bool}
    {p : Nat} {bad : Char → Prop} (hb1 : bad '(') (hb2 : bad '@') (h : HasAt inp p (rDirs τ sep p ds))
    (hn : Nxt inp bad sep (p + (rDirs τ sep p ds).length)) :
    ∃ pr, RunsK (B (rDirs τ sep p ds).length + 20) (.call R.Directives) (At inp p)
        (At inp (p + (rDirs τ sep p ds).length)) [pr] ∧ PairOk R.Directives p pr ∧
      ∀ fuel, (rDirs τ sep p ds).length ≤ fuel →
        buildDirectives (Ctx.spec inp) fuel pr = .ok (wpDirs τ inp sep p ds) := by
  cases ds with
  | nil => exact absurd rfl hne
  | cons d r =>
    have hfail : Fails gList (10 + 100) true (.call R.Directive) .nonAtomic
        (At inp (p + (renderItems (rDir τ) false sep p (d :: r)).length)) :=
      (fails_call (directive_fails (headNot_mono (fun c hc => hc ▸ hb2) hn.ok))).mono (by omega)
    obtain ⟨pss, hmany, hgood⟩ := items_many1K (rDir τ) false sep (.call R.Directive) (fun _ => (· = '(')) 10 (DirGood τ inp) r d p
      (fun x hx s q hat hnx => by
        obtain ⟨e, hr⟩ := dirT τ hτ x (wfDirs_mem hwf hx) (bad := (· = '(')) rfl hat hnx
        exact ⟨_, hr, hat.left, e, rfl⟩)
      (fun x _ s q => (hd_rDir τ s q x).mono (by rintro c rfl; decide))
      h (hn.mono (by rintro c rfl; exact hb1)) hfail
    obtain ⟨e, hrule⟩ := runsK_rule look_Directives (by decide) (by decide) (runsK_plus1 hmany)
    have hclean : CleanL pss := goodItems_clean (rDir τ) false sep (DirGood τ inp) (d :: r)
      (fun a _ s q pr hg => by
        obtain ⟨_, e, rfl⟩ := hg
        exact cleanP_of (by decide) (by decide) (clean_dirChildren τ q a)) p pss hgood
    refine ⟨_, hrule.mono (by simp only [rDirs]; barith), pairOk_mk (by decide) (by decide) hclean, ?_⟩
    intro fuel hfuel
    have hall := goodItems_all (rDir τ) false sep (DirGood τ inp) R.Directive (d :: r)
      (fun a _ s q pr hg => by obtain ⟨_, e, rfl⟩ := hg; rfl) p pss hgood
    simp only [At]
    rw [buildDirectives_eq _ _ _ _ _ hall]
    exact goodItems_mapM (rDir τ) false sep (DirGood τ inp) (dirFn (Ctx.spec inp) fuel) (fun _ q d => withPosD τ inp q d)
      fuel (d :: r) (fun a ha s q pr hg hlen => by
        obtain ⟨hat, e, rfl⟩ := hg
        have hw := wfDirs_mem hwf ha
        have h1 := sizeFields_le_renderDir τ q a hw
        have h2 := rDir_length_ge τ s q a
        exact dirFn_pair τ inp fuel q e a _ hat.drop (by omega)) p pss hfuel hgood

/-- `Directives?` -/
theorem optDirsT (τ : Trivia) (hτ : ∀ q, Ws (τ q)) (ds : List Directive) (hwf : WFDirs ds) {sep : Bool}
    {p : Nat} {bad : Char → Prop} (hb1 : bad '(') (hb2 : bad '@') (h : HasAt inp p (rDirs τ sep p ds))
    (hn : Nxt inp bad sep (p + (rDirs τ sep p ds).length)) :
    ∃ o : Option Pair, RunsK (B (rDirs τ sep p ds).length + 21) (.opt (.call R.Directives)) (At inp p)
        (At inp (p + (rDirs τ sep p ds).length)) o.toList ∧ (∀ pr ∈ o, PairOk R.Directives p pr) ∧
      (ds = [] → o = none) ∧
      ∀ fuel, (rDirs τ sep p ds).length ≤ fuel → optDirs (Ctx.spec inp) fuel o = .ok (wpDirs τ inp sep p ds) := by
  cases ds with
  | nil =>
    have hn' : Nxt inp bad sep p := by simpa [rDirs, renderItems] using hn
    refine ⟨none, ?_, by simp, fun _ => rfl, fun _ _ => rfl⟩
    have := runsK_opt_none (directives_fails (headNot_mono (fun c hc => hc ▸ hb2) hn'.ok)) hn'.tok
    simp only [rDirs, renderItems, List.length_nil, Nat.add_zero, Option.toList]
    exact this.mono (by barith)
  | cons d r =>
    obtain ⟨pr, hrun, hok, hb⟩ := dirsT τ hτ (d :: r) (by simp) hwf hb1 hb2 h hn
    refine ⟨some pr, (runsK_opt_some hrun).mono (by omega), ?_, by simp, fun fuel hf => ?_⟩
    · intro q hq; cases hq; exact hok
    · simpa [optDirs] using hb fuel hf

theorem hd_rDirs (τ : Trivia) (sep : Bool) (p : Nat) (ds : List Directive) :
    rDirs τ sep p ds = [] ∨ Hd (· = '@') (rDirs τ sep p ds) := by
  cases ds with
  | nil => exact Or.inl rfl
  | cons d r =>
    obtain ⟨s, tail, ht⟩ := renderItems_cons (rDir τ) false sep p d r
    exact Or.inr (by rw [rDirs, ht]; exact (hd_rDir τ s p d).append _)

theorem rDirs_eq_nil {τ : Trivia} {sep : Bool} {p : Nat} {ds : List Directive} (h : rDirs τ sep p ds = []) : ds = [] := by
  cases ds with
  | nil => rfl
  | cons d r =>
    obtain ⟨s, tail, ht⟩ := renderItems_cons (rDir τ) false sep p d r
    rw [rDirs, ht] at h
    have := (hd_rDir τ s p d).ne_nil
    simp_all

end NitroVerif.DocParse
