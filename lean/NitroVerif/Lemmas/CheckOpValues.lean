import NitroVerif.Lemmas.CheckOpArgs
/-! Values: `check_value` against the specification's input coercion (5.6.x) and variable usages (5.8.3, 5.8.5). -/
namespace NitroVerif.CheckOp
open NitroVerif.Gql NitroVerif.CheckCommon NitroVerif.Valid

theorem stripNonNull_eq (t : GType) : Valid.stripNonNull t = CheckCommon.stripNonNull t := by
  induction t with
  | named n p => rfl
  | list t p _ => rfl
  | nonNull t ih => simp only [Valid.stripNonNull, CheckCommon.stripNonNull, ih]

theorem baseNamed_fst (t : GType) : (baseNamed t).1 = t.unwrapped := by
  induction t with
  | named n p => rfl
  | list t p ih => simpa [baseNamed, GType.unwrapped] using ih
  | nonNull t ih => simpa [baseNamed, GType.unwrapped] using ih

theorem stripNonNull_unwrapped (t : GType) : (CheckCommon.stripNonNull t).unwrapped = t.unwrapped := by
  induction t with
  | named n p => rfl
  | list t p _ => rfl
  | nonNull t ih => simpa [CheckCommon.stripNonNull, GType.unwrapped] using ih

theorem stripNonNull_not_nonNull (t : GType) : ∀ x, CheckCommon.stripNonNull t ≠ .nonNull x := by
  induction t with
  | named n p => intro x h; cases h
  | list t p _ => intro x h; cases h
  | nonNull t ih => intro x; simpa [CheckCommon.stripNonNull] using ih x

theorem typeCompat_eq : ∀ (v e : GType), typeCompat v e = areTypesCompatible v e := by
  intro v
  induction v with
  | named n p =>
    intro e
    cases e with
    | named m q =>
      simp only [typeCompat, areTypesCompatible]
      rw [Bool.eq_iff_iff]; simp only [beq_iff_eq]; exact eq_comm
    | list e q => rfl
    | nonNull e => rfl
  | list v p ih =>
    intro e
    cases e with
    | named m q => rfl
    | list e q => simp only [typeCompat, areTypesCompatible]; exact ih e
    | nonNull e => rfl
  | nonNull v ih =>
    intro e
    cases e with
    | named m q => simp only [typeCompat, areTypesCompatible]; exact ih _
    | list e q => simp only [typeCompat, areTypesCompatible]; exact ih _
    | nonNull e => simp only [typeCompat, areTypesCompatible]; exact ih _

theorem quiet_ite {A : ErrKind → Bool} {b : Bool} {k : ErrKind} {p : Pos} (hk : A k = false)
    (h : Quiet A (if b then [] else [(k, p)])) : b = true := by
  cases b with
  | true => rfl
  | false => simp only [Bool.false_eq_true, if_false] at h; rw [quiet_single, hk] at h; cases h

theorem hasNonNullDefault_eq (d : VarDef) : hasNonNullDefault d = hasNonNullVariableDefault d := by
  unfold hasNonNullDefault hasNonNullVariableDefault
  cases d.default with
  | none => rfl
  | some dv => cases dv <;> rfl

/-- the variable case: a quiet `check_value` on `$n` means the variable is defined (unless `UnknownVariable` is
    allowed) and its usage is allowed by the specification's `IsVariableUsageAllowed` -/
theorem varCheck_quiet {A : ErrKind → Bool} (hA : Admissible A) {vars : Option (List VarDef)} {n : Name} {p : Pos}
    {t : GType} {ld : Bool} (h : Quiet A (varCheck vars n p t ld)) (hUV : A ErrKind.UnknownVariable = false) :
    ∃ vd, varDef? (vars.getD []) n = some vd ∧ usageAllowed vd ⟨n, p, t, ld⟩ = true := by
  unfold varCheck at h
  cases hv : varDef? (vars.getD []) n with
  | none =>
    simp only [hv] at h
    rw [quiet_single, hUV] at h; cases h
  | some d =>
    refine ⟨d, rfl, ?_⟩
    simp only [hv] at h
    have hk := hA _ (by decide : ErrKind.TypeMismatch ≠ ErrKind.UnknownVariable)
    unfold usageAllowed
    cases t with
    | named m q =>
      have hok := quiet_ite hk h
      simp only at hok ⊢
      rw [typeCompat_eq] at hok
      cases hty : d.ty <;> simpa [hty] using hok
    | list e q =>
      have hok := quiet_ite hk h
      simp only at hok ⊢
      rw [typeCompat_eq] at hok
      cases hty : d.ty <;> simpa [hty] using hok
    | nonNull inner =>
      have hok := quiet_ite hk h
      simp only at hok ⊢
      rw [hasNonNullDefault_eq] at hok
      cases hty : d.ty with
      | named m q =>
        simp only [hty, GType.isNonNull, Bool.not_false, if_true, Bool.and_eq_true, Bool.or_eq_true] at hok
        rcases hok with ⟨hd, hc⟩
        rw [typeCompat_eq] at hc
        rcases hd with hd | hd <;> simp [hd, hc]
      | list e q =>
        simp only [hty, GType.isNonNull, Bool.not_false, if_true, Bool.and_eq_true, Bool.or_eq_true] at hok
        rcases hok with ⟨hd, hc⟩
        rw [typeCompat_eq] at hc
        rcases hd with hd | hd <;> simp [hd, hc]
      | nonNull x =>
        simp only [hty, GType.isNonNull, Bool.not_true, Bool.false_eq_true, if_false] at hok
        rw [typeCompat_eq] at hok
        simpa using hok

/-- a list of names with a repetition can be shortened without changing its members -/
theorem exists_dup {N : List Name} (h : nodupB N = false) : ∃ a y b, N = a ++ y :: b ∧ y ∈ b := by
  induction N with
  | nil => simp [nodupB] at h
  | cons y N' ih =>
    simp only [nodupB, Bool.and_eq_false_iff, Bool.not_eq_false'] at h
    rcases h with h | h
    · exact ⟨[], y, N', rfl, by simpa using h⟩
    · obtain ⟨a, z, b, hN, hz⟩ := ih h
      exact ⟨y :: a, z, b, by simp [hN], hz⟩

/-- if as many names of the duplicate-free `L` occur in `N` as `N` is long, then `N` is duplicate-free and
    contained in `L` (the `seen_fields < value.fields.len()` test of the input-object case) -/
theorem full_count {L N : List Name} (hL : nodupB L = true)
    (h : ¬ (L.filter (fun x => N.contains x)).length < N.length) :
    nodupB N = true ∧ ∀ y ∈ N, L.contains y = true := by
  have h1 := matched_le hL N
  have hsub : ∀ y ∈ N, L.contains y = true := by
    intro y hy
    cases hc : L.contains y with
    | true => rfl
    | false =>
      exfalso
      have h2 := filter_length_strict (p := fun y => L.contains y) (q := fun _ => true) (fun _ _ => rfl) N
        ⟨y, hy, rfl, hc⟩
      have h3 : (N.filter (fun _ => true)).length = N.length := by rw [List.filter_eq_self.mpr (fun _ _ => rfl)]
      omega
  refine ⟨?_, hsub⟩
  cases hnd : nodupB N with
  | true => rfl
  | false =>
    exfalso
    obtain ⟨a, y, b, hN, hy⟩ := exists_dup hnd
    have hsame : L.filter (fun x => N.contains x) = L.filter (fun x => (a ++ b).contains x) := by
      apply List.filter_congr
      intro x _
      rw [hN, Bool.eq_iff_iff]
      simp only [List.contains_iff_mem, List.mem_append, List.mem_cons]
      constructor
      · rintro (h | rfl | h)
        · exact Or.inl h
        · exact Or.inr hy
        · exact Or.inr h
      · rintro (h | h)
        · exact Or.inl h
        · exact Or.inr (Or.inr h)
    have h4 := matched_le hL (a ++ b)
    have h5 : ((a ++ b).filter (fun y => L.contains y)).length ≤ (a ++ b).length := List.length_filter_le _ _
    rw [hsame] at h
    have : N.length = (a ++ b).length + 1 := by rw [hN]; simp; omega
    omega

/-- the key of a value field that has its expected name -/
theorem lookupField_isSome (S : Schema) (vars : Option (List VarDef)) (n : Name) (t : GType) (ld : Bool) :
    ∀ (fs : List (Name × Pos × Value)), (lookupField S vars fs n t ld).isSome = (fs.map (·.1)).contains n := by
  intro fs
  induction fs with
  | nil => simp [lookupField]
  | cons f fs ih =>
    obtain ⟨k, p, v⟩ := f
    simp only [lookupField, List.map_cons, List.contains_cons]
    by_cases hk : n = k
    · subst hk; simp
    · have h1 : (n == k) = false := beq_eq_false_iff_ne.mpr hk
      simp only [h1, Bool.false_eq_true, if_false, Bool.false_or]
      exact ih

/-- with unique keys every value field is the one `lookupField` finds for its key -/
theorem lookupField_of_mem (S : Schema) (vars : Option (List VarDef)) (t : GType) (ld : Bool) :
    ∀ (fs : List (Name × Pos × Value)), nodupB (fs.map (·.1)) = true → ∀ k p v, (k, p, v) ∈ fs →
      lookupField S vars fs k t ld = some (checkValue S vars v t ld) := by
  intro fs
  induction fs with
  | nil => intro _ k p v h; cases h
  | cons f fs ih =>
    obtain ⟨k', p', v'⟩ := f
    intro hnd k p v hmem
    simp only [List.map_cons] at hnd
    obtain ⟨hk', hnd'⟩ := (nodupB_cons_iff _ _).mp hnd
    simp only [lookupField]
    rcases List.mem_cons.mp hmem with h | h
    · cases h; simp
    · have hne : k ≠ k' := by
        rintro rfl
        exact hk' (List.mem_map.mpr ⟨(k, p, v), h, rfl⟩)
      have h1 : (k == k') = false := beq_eq_false_iff_ne.mpr hne
      simp only [h1, Bool.false_eq_true, if_false]
      exact ih hnd' k p v h

/-- what a quiet input-object case establishes -/
theorem objResult_quiet {A : ErrKind → Bool} (hA : Admissible A) {S : Schema} {vars : Option (List VarDef)}
    {fs : List (Name × Pos × Value)} {inputs : List InputValueDef} {p : Pos}
    (hU : nodupB (inputs.map (·.name)) = true)
    (h : Quiet A (objResult (inputs.map fun f => fieldOutcome (lookupField S vars fs f.name f.ty f.default.isSome) f) fs.length p)) :
    nodupB (fs.map (·.1)) = true ∧
    (∀ f ∈ fs, inputs.any (·.name == f.1) = true) ∧
    (∀ d ∈ inputs, (d.ty.isNonNull && d.default.isNone) = true → fs.any (·.1 == d.name) = true) ∧
    (∀ k p' v, (k, p', v) ∈ fs → ∀ d ∈ inputs, d.name = k → Quiet A (checkValue S vars v d.ty d.default.isSome)) := by
  unfold objResult at h
  rw [quiet_append] at h
  obtain ⟨hds, hres⟩ := h
  have hk := hA _ (by decide : ErrKind.TypeMismatch ≠ ErrKind.UnknownVariable)
  have hres := quiet_ite hk hres
  rw [Bool.and_eq_true] at hres
  obtain ⟨hok, hseen⟩ := hres
  have hseen' : ¬ ((inputs.map (·.name)).filter (fun x => (fs.map (·.1)).contains x)).length < (fs.map (·.1)).length := by
    have : ((inputs.map fun f => fieldOutcome (lookupField S vars fs f.name f.ty f.default.isSome) f).filter (·.seen)).length
        = ((inputs.map (·.name)).filter (fun x => (fs.map (·.1)).contains x)).length := by
      rw [List.filter_map, List.length_map, List.filter_map, List.length_map]
      congr 1
      apply List.filter_congr
      intro d _
      simp only [Function.comp]
      rw [← lookupField_isSome S vars d.name d.ty d.default.isSome fs]
      unfold fieldOutcome
      cases lookupField S vars fs d.name d.ty d.default.isSome with
      | none => simp only [Option.isSome_none]; split <;> rfl
      | some ds => rfl
    rw [this] at hseen
    simpa using hseen
  obtain ⟨hnd, hsub⟩ := full_count hU hseen'
  refine ⟨hnd, ?_, ?_, ?_⟩
  · intro f hf
    have := hsub f.1 (List.mem_map.mpr ⟨f, hf, rfl⟩)
    have : f.1 ∈ inputs.map (·.name) := by simpa using this
    obtain ⟨d, hd, hdn⟩ := List.mem_map.mp this
    exact List.any_eq_true.mpr ⟨d, hd, by simp [hdn]⟩
  · intro d hd hreq
    have := List.all_eq_true.mp hok _ (List.mem_map.mpr ⟨d, hd, rfl⟩)
    unfold fieldOutcome at this
    cases hl : lookupField S vars fs d.name d.ty d.default.isSome with
    | none => simp [hl, hreq] at this
    | some ds =>
      have hs : (lookupField S vars fs d.name d.ty d.default.isSome).isSome = true := by simp [hl]
      rw [lookupField_isSome] at hs
      have : d.name ∈ fs.map (·.1) := by simpa using hs
      obtain ⟨f, hf, hfn⟩ := List.mem_map.mp this
      exact List.any_eq_true.mpr ⟨f, hf, by simp [hfn]⟩
  · intro k p' v hmem d hd hdk
    have := quiet_flatMap.mp hds _ (List.mem_map.mpr ⟨d, hd, rfl⟩)
    rw [hdk, lookupField_of_mem S vars d.ty d.default.isSome fs hnd k p' v hmem] at this
    simpa [fieldOutcome] using this

end NitroVerif.CheckOp
