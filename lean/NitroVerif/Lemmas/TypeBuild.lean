/-
The builder half of the `Type` round trip (helper lemmas for Props/C07): `build_type` on the pair tree that the parser
produces for the rendering of `t` returns `t`, every position being the line/column of the corresponding token.
-/
import NitroVerif.Lemmas.TypeRoundTrip
namespace NitroVerif.TypeParse
open NitroVerif.Peg NitroVerif.Gen NitroVerif.Gen.Parts NitroVerif.Build NitroVerif.Gql

def posAt (inp : List Char) (p : Nat) : Pos := { line := (lineCol inp p).1, col := (lineCol inp p).2 }

/-- `t` with the positions of its tokens when rendered at offset `p` of `inp` -/
def withPos (inp : List Char) : Nat → GType → GType
  | p, .named n _ => .named n (posAt inp p)
  | p, .list t _ => .list (withPos inp (p + 1) t) (posAt inp p)
  | p, .nonNull t => .nonNull (withPos inp p t)

theorem withPos_erase (inp : List Char) (t : GType) : ∀ p, (withPos inp p t).erasePos = t.erasePos := by
  induction t with
  | named n pos => intro p; simp [withPos, GType.erasePos]
  | list t pos ih => intro p; simp [withPos, GType.erasePos, ih]
  | nonNull t ih => intro p; simp [withPos, GType.erasePos, ih]

/-- builder depth -/
def Dt : GType → Nat
  | .named _ _ => 1
  | .list t _ => Dt t + 2
  | .nonNull t => Dt t + 1

theorem toPos_spec (inp : List Char) (q : Pair) : toPos (Ctx.spec inp) q = posAt inp q.start := rfl
theorem asString_spec (inp : List Char) (q : Pair) :
    asString (Ctx.spec inp) q = String.ofList (slice inp q.start q.stop) := rfl

theorem innerPair_rule (t : GType) (p : Nat) : (innerPair t p).rule = innerRule t := by
  cases t <;> rfl

theorem buildTypeOf_inner (inp : List Char) (t : GType) (hwf : WF t) :
    ∀ (p : Nat) (rest : List Char) (k : Nat), inp.drop p = renderT t ++ rest →
      buildTypeOf (Ctx.spec inp) (Dt t + k) (innerPair t p) = .ok (withPos inp p t) := by
  induction t with
  | named n pos =>
    intro p rest k h
    have hs : slice inp p (p + n.toList.length) = n.toList := by simp [slice, renderT] at h ⊢; simp [h]
    simp only [Dt, Nat.add_comm 1, buildTypeOf, innerPair, Pair.rule]
    simp [R.NamedType, R.NonNullType, R.ListType, onlyChildOf, onlyChild, Pair.children, OC_NamedType, asString_spec,
      toPos_spec, Pair.start, Pair.stop, hs, withPos, bind, Except.bind]
  | list t pos ih =>
    intro p rest k h
    have h' : inp.drop (p + 1) = renderT t ++ (']' :: rest) := by
      rw [← List.drop_drop, h]; simp [renderT]
    have := ih hwf (p + 1) (']' :: rest) k h'
    simp only [Dt, show Dt t + 2 + k = (Dt t + k + 1) + 1 by omega, buildTypeOf, buildType, innerPair, Pair.rule]
    simp [R.NonNullType, R.ListType, onlyChild, Pair.children, toPos_spec, Pair.start, this, withPos,
      bind, Except.bind]
  | nonNull t ih =>
    intro p rest k h
    have h' : inp.drop p = renderT t ++ ('!' :: rest) := by rw [h]; simp [renderT]
    have := ih hwf.1 p ('!' :: rest) k h'
    have hr : (innerPair t p).rule = R.NamedType ∨ (innerPair t p).rule = R.ListType := by
      rw [innerPair_rule]
      cases t with
      | named => exact Or.inl rfl
      | list => exact Or.inr rfl
      | nonNull t' => simp [WF, GType.isNonNull] at hwf
    simp only [Dt, show Dt t + 1 + k = (Dt t + k) + 1 by omega, buildTypeOf, innerPair, Pair.rule]
    rcases hr with hr | hr <;>
      simp [R.NamedType, R.NonNullType, R.ListType, onlyChildOf, onlyChild, Pair.children, OC_NonNullType, hr, this,
        withPos, bind, Except.bind] <;> simp [R.NamedType, R.ListType] at hr ⊢ <;> simp [hr]

theorem buildType_typePair (inp : List Char) (t : GType) (hwf : WF t) (p : Nat) (rest : List Char) (k : Nat)
    (h : inp.drop p = renderT t ++ rest) :
    buildType (Ctx.spec inp) (Dt t + k + 1) (typePair t p) = .ok (withPos inp p t) := by
  simp only [buildType, typePair]
  simp [onlyChild, Pair.children, buildTypeOf_inner inp t hwf p rest k h, bind, Except.bind]

end NitroVerif.TypeParse

namespace NitroVerif.TypeParse
open NitroVerif.Peg NitroVerif.Gen NitroVerif.Build NitroVerif.Gql

/-- the list-of-characters rendering is the `Display` rendering of the shared vocabulary -/
theorem render_toList (t : GType) : t.render.toList = renderT t := by
  induction t with
  | named n pos => simp [GType.render, renderT]
  | list t pos ih => simp [GType.render, renderT, ih]
  | nonNull t ih => simp [GType.render, renderT, ih]

/-- the depth bounds are linear in the length of the text -/
theorem kin_linear (t : GType) : Kin t ≤ 60 * (renderT t).length + 14 := by
  induction t with
  | named n pos => simp [Kin, renderT]; omega
  | list t pos ih => simp [Kin, renderT]; omega
  | nonNull t ih => simp [Kin, renderT]; omega

theorem dt_linear (t : GType) : Dt t ≤ 2 * (renderT t).length + 1 := by
  induction t with
  | named n pos => simp [Dt, renderT]
  | list t pos ih => simp [Dt, renderT]; omega
  | nonNull t ih => simp [Dt, renderT]; omega

/-- parser half at the entry point -/
theorem parse_type_pairs (t : GType) (hwf : WF t) (fuel : Nat) (hf : Kty t ≤ fuel) :
    Peg.parse gList fuel R.«Type» (renderT t) = .pairs [typePair t 0] := by
  have h := (type_runs t hwf).2 0 [] (Or.inl rfl)
  obtain ⟨tr', h'⟩ := h {}
  have := h' fuel hf
  simp only [List.append_nil, Nat.zero_add] at this
  simp [Peg.parse, runTr, this]

end NitroVerif.TypeParse
