import NitroVerif.Model.GqlPrint
import NitroVerif.Spec.StripDirective
/-!
Helper lemmas for C16 `strip_exact`: where the directive is not applied, stripping changes nothing.
-/
namespace NitroVerif.Strip
open NitroVerif.Gql

def dirsClean (n : Name) (ds : List Directive) : Bool := ds.all fun d => d.name != n
def ivClean (n : Name) (v : InputValueDef) : Bool := dirsClean n v.dirs
def fieldClean (n : Name) (f : FieldDef) : Bool := dirsClean n f.dirs && f.args.all (ivClean n)
def enumValueClean (n : Name) (v : EnumValueDef) : Bool := dirsClean n v.dirs
/-- no application of `@n` below the type's own directive list -/
def typeInnerClean (n : Name) (t : TypeDef) : Bool :=
  t.fields.all (fieldClean n) && t.values.all (enumValueClean n) && t.inputs.all (ivClean n)

theorem map_eq_self {α} (f : α → α) (l : List α) (h : ∀ x ∈ l, f x = x) : l.map f = l := by
  induction l with
  | nil => rfl
  | cons a as ih =>
    simp only [List.map_cons]
    rw [h a (by simp), ih (fun x hx => h x (by simp [hx]))]

theorem dirs_clean (n : Name) (ds : List Directive) (h : dirsClean n ds = true) : dirs n ds = ds := by
  unfold dirs
  rw [List.filter_eq_self]
  intro d hd
  exact (List.all_eq_true.mp h) d hd

theorem inputValue_clean (n : Name) (v : InputValueDef) (h : ivClean n v = true) : inputValue n v = v := by
  unfold inputValue
  rw [dirs_clean n v.dirs h]

theorem inputValues_clean (n : Name) (vs : List InputValueDef) (h : vs.all (ivClean n) = true) :
    vs.map (inputValue n) = vs :=
  map_eq_self _ _ fun v hv => inputValue_clean n v ((List.all_eq_true.mp h) v hv)

theorem field_clean (n : Name) (f : FieldDef) (h : fieldClean n f = true) : field n f = f := by
  simp only [fieldClean, Bool.and_eq_true] at h
  unfold field
  rw [dirs_clean n f.dirs h.1, inputValues_clean n f.args h.2]

theorem enumValue_clean (n : Name) (v : EnumValueDef) (h : enumValueClean n v = true) : enumValue n v = v := by
  unfold enumValue
  rw [dirs_clean n v.dirs h]

/-- stripping a type whose inner parts are clean only filters its own directive list -/
theorem typeDef_inner_clean (n : Name) (t : TypeDef) (h : typeInnerClean n t = true) :
    typeDef n t = { t with dirs := dirs n t.dirs } := by
  simp only [typeInnerClean, Bool.and_eq_true] at h
  unfold typeDef
  rw [map_eq_self _ _ fun f hf => field_clean n f ((List.all_eq_true.mp h.1.1) f hf),
      map_eq_self _ _ fun v hv => enumValue_clean n v ((List.all_eq_true.mp h.1.2) v hv),
      inputValues_clean n t.inputs h.2]

/-- the arguments of the field are clean: stripping the field only filters its own directive list -/
theorem field_args_clean (n : Name) (f : FieldDef) (h : f.args.all (ivClean n) = true) :
    field n f = { f with dirs := dirs n f.dirs } := by
  unfold field
  rw [inputValues_clean n f.args h]

/-- an object type whose field arguments, enum values and input fields are clean -/
def objectInnerClean (n : Name) (t : TypeDef) : Bool :=
  t.fields.all (fun f => f.args.all (ivClean n)) && t.values.all (enumValueClean n) && t.inputs.all (ivClean n)

theorem map_congr' {α β} (f g : α → β) (l : List α) (h : ∀ x ∈ l, f x = g x) : l.map f = l.map g := by
  induction l with
  | nil => rfl
  | cons a as ih =>
    simp only [List.map_cons]
    rw [h a (by simp), ih (fun x hx => h x (by simp [hx]))]

theorem typeDef_object_clean (n : Name) (t : TypeDef) (h : objectInnerClean n t = true) :
    typeDef n t = { t with dirs := dirs n t.dirs, fields := t.fields.map fun f => { f with dirs := dirs n f.dirs } } := by
  simp only [objectInnerClean, Bool.and_eq_true] at h
  unfold typeDef
  rw [map_congr' (field n) (fun f => { f with dirs := dirs n f.dirs }) t.fields
        (fun f hf => field_args_clean n f ((List.all_eq_true.mp h.1.1) f hf)),
      map_eq_self _ _ fun v hv => enumValue_clean n v ((List.all_eq_true.mp h.1.2) v hv),
      inputValues_clean n t.inputs h.2]

end NitroVerif.Strip
