import NitroVerif.Lemmas.JsonTextRound
/-!
# C12, text level — the readers' answers do not depend on the fuel

`fuel_enough` (one induction on the fuel, for any lexical layer whose string scanner consumes what it reads): if
`value L f s = some (t, r)` then `r` is a proper suffix-length of `s` and `value L g s = some (t, r)` for EVERY `g` that is at
least `f` or at least `2 * (consumed characters) - 1`; likewise `elements` / `members` with `2 * consumed`.
Consequences: more fuel never changes an answer; `fuelFor s = 2 * length s + 2` is enough for every text (not only the
writer's): `parse s = none` means that NO fuel makes `s` a JSON text.
-/
namespace NitroVerif.JsonText
open NitroVerif

/-! ## consumption -/

theorem skipWs_length (ws : Char → Bool) : ∀ s, (skipWs ws s).length ≤ s.length
  | [] => by simp [skipWs]
  | c :: cs => by
    have := skipWs_length ws cs
    by_cases h : ws c = true <;> simp [skipWs, h] <;> omega

theorem skipWs_cons_length {ws : Char → Bool} {s : List Char} {c : Char} {r : List Char} (h : skipWs ws s = c :: r) :
    r.length + 1 ≤ s.length := by
  have := skipWs_length ws s
  rw [h] at this
  simpa using this

theorem digits_length : ∀ s, (digits s).2.length ≤ s.length
  | [] => by simp [digits]
  | c :: cs => by
    have := digits_length cs
    by_cases h : isDigit c = true <;> simp [digits, h] <;> omega

theorem intPart_length {s i r : List Char} (h : intPart s = some (i, r)) : r.length < s.length := by
  cases s with
  | nil => simp [intPart] at h
  | cons c cs =>
    simp only [intPart] at h
    split at h
    · simp only [Option.some.injEq, Prod.mk.injEq] at h; rw [← h.2]; simp
    · split at h
      · simp only [Option.some.injEq, Prod.mk.injEq] at h
        have := digits_length cs
        rw [← h.2]; simp; omega
      · cases h

theorem fracPart_length {s x r : List Char} (h : fracPart s = some (x, r)) : r.length ≤ s.length := by
  cases s with
  | nil => simp only [fracPart, Option.some.injEq, Prod.mk.injEq] at h; rw [← h.2]; simp
  | cons c cs =>
    simp only [fracPart] at h
    split at h
    · split at h
      · cases h
      · simp only [Option.some.injEq, Prod.mk.injEq] at h
        have := digits_length cs
        rw [← h.2]; simp; omega
    · simp only [Option.some.injEq, Prod.mk.injEq] at h; rw [← h.2]; simp

theorem expDigits_length {pre s x r : List Char} (h : expDigits pre s = some (x, r)) : r.length ≤ s.length := by
  unfold expDigits at h
  split at h
  · cases h
  · simp only [Option.some.injEq, Prod.mk.injEq] at h
    have := digits_length s
    rw [← h.2]; exact this

theorem expPart_length {s x r : List Char} (h : expPart s = some (x, r)) : r.length ≤ s.length := by
  cases s with
  | nil => simp only [expPart, Option.some.injEq, Prod.mk.injEq] at h; rw [← h.2]; simp
  | cons c cs =>
    simp only [expPart] at h
    split at h
    · cases cs with
      | nil => simp at h
      | cons d ds =>
        simp only at h
        split at h
        · have := expDigits_length h; simp; omega
        · have := expDigits_length h; simp at this ⊢; omega
    · simp only [Option.some.injEq, Prod.mk.injEq] at h; rw [← h.2]; simp

theorem number_length {s raw r : List Char} (h : number s = some (raw, r)) : r.length < s.length := by
  cases s with
  | nil => simp [number, intPart] at h
  | cons c cs =>
    unfold number at h
    by_cases hc : c = '-'
    · simp only [hc, if_true] at h
      cases hi : intPart cs with
      | none => simp [hi] at h
      | some p1 =>
        obtain ⟨i, r1⟩ := p1
        simp only [hi] at h
        cases hf : fracPart r1 with
        | none => simp [hf] at h
        | some p2 =>
          obtain ⟨x, r2⟩ := p2
          simp only [hf] at h
          cases he : expPart r2 with
          | none => simp [he] at h
          | some p3 =>
            obtain ⟨e, r3⟩ := p3
            simp only [he, Option.some.injEq, Prod.mk.injEq] at h
            have h1 := intPart_length hi
            have h2 := fracPart_length hf
            have h3 := expPart_length he
            rw [← h.2]; simp only [List.length_cons]; omega
    · simp only [hc, if_false] at h
      cases hi : intPart (c :: cs) with
      | none => simp [hi] at h
      | some p1 =>
        obtain ⟨i, r1⟩ := p1
        simp only [hi] at h
        cases hf : fracPart r1 with
        | none => simp [hf] at h
        | some p2 =>
          obtain ⟨x, r2⟩ := p2
          simp only [hf] at h
          cases he : expPart r2 with
          | none => simp [he] at h
          | some p3 =>
            obtain ⟨e, r3⟩ := p3
            simp only [he, Option.some.injEq, Prod.mk.injEq] at h
            have h1 := intPart_length hi
            have h2 := fracPart_length hf
            have h3 := expPart_length he
            rw [← h.2]; omega

theorem keyword_length : ∀ (ks s r : List Char), keyword ks s = some r → r.length ≤ s.length
  | [], s, r, h => by simp only [keyword, Option.some.injEq] at h; rw [h]; exact Nat.le_refl _
  | _ :: _, [], _, h => by simp [keyword] at h
  | k :: ks, c :: cs, r, h => by
    simp only [keyword] at h
    split at h
    · have := keyword_length ks cs r h; simp; omega
    · cases h

theorem push_length {c : Char} {o : Option (List Char × List Char)} {y : List Char × List Char}
    (h : push c o = some y) : ∃ p, o = some p ∧ y.2.length = p.2.length := by
  cases o with
  | none => simp [push] at h
  | some p => simp only [push, Option.some.injEq] at h; exact ⟨p, rfl, by rw [← h]⟩

theorem unicodeEscape_length {k : List Char → Option (List Char × List Char)}
    (hk : ∀ s y, k s = some y → y.2.length < s.length) (n : Nat) (r : List Char) (y : List Char × List Char)
    (h : unicodeEscape k n r = some y) : y.2.length < r.length + 1 := by
  unfold unicodeEscape at h
  split at h
  · split at h
    · rename_i b u l1 l2 l3 l4 r2
      split at h
      · split at h
        · split at h
          · obtain ⟨p, hp, he⟩ := push_length h
            have := hk _ _ hp
            simp; omega
          · cases h
        · cases h
      · cases h
    · cases h
  · split at h
    · cases h
    · obtain ⟨p, hp, he⟩ := push_length h
      have := hk _ _ hp
      omega

theorem strBodyFuel_length : ∀ (f : Nat) (s : List Char) (y : List Char × List Char),
    strBodyFuel f s = some y → y.2.length < s.length
  | 0, _, _, h => by simp [strBodyFuel] at h
  | _ + 1, [], _, h => by simp [strBodyFuel] at h
  | f + 1, c :: cs, y, h => by
    have ih := strBodyFuel_length f
    simp only [strBodyFuel] at h
    split at h
    · simp only [Option.some.injEq] at h; rw [← h]; simp
    · split at h
      · split at h
        · cases h
        · rename_i e r
          split at h
          · split at h
            · rename_i h1 h2 h3 h4 r1
              split at h
              · have := unicodeEscape_length ih _ _ _ h
                simp; omega
              · cases h
            · cases h
          · split at h
            · obtain ⟨p, hp, he⟩ := push_length h
              have := ih _ _ hp
              simp; omega
            · cases h
      · split at h
        · cases h
        · obtain ⟨p, hp, he⟩ := push_length h
          have := ih _ _ hp
          simp; omega

/-- what the induction needs of a lexical layer: its string scanner returns a shorter text -/
structure Consumes (L : Lex) : Prop where
  str : ∀ q s cs r, L.str q s = some (cs, r) → r.length < s.length

theorem rfc8259_consumes : Consumes rfc8259 where
  str := fun _ s cs r h => strBodyFuel_length _ s (cs, r) h

theorem codePoint_length : ∀ (s : List Char) (acc : Nat) (any : Bool) (n : Nat) (r : List Char),
    JsLit.codePoint acc any s = some (n, r) → r.length < s.length
  | [], _, _, _, _, h => by simp [JsLit.codePoint] at h
  | c :: cs, acc, any, n, r, h => by
    simp only [JsLit.codePoint] at h
    split at h
    · split at h
      · simp only [Option.some.injEq, Prod.mk.injEq] at h; rw [← h.2]; simp
      · cases h
    · split at h
      · split at h
        · have := codePoint_length cs _ _ _ _ h; simp; omega
        · cases h
      · cases h

theorem js_strBodyFuel_length (q : Char) (es : Bool) : ∀ (f : Nat) (s : List Char) (y : List Char × List Char),
    JsLit.strBodyFuel q es f s = some y → y.2.length < s.length
  | 0, _, _, h => by simp [JsLit.strBodyFuel] at h
  | _ + 1, [], _, h => by simp [JsLit.strBodyFuel] at h
  | f + 1, c :: cs, y, h => by
    have ih := js_strBodyFuel_length q es f
    simp only [JsLit.strBodyFuel] at h
    repeat' split at h
    all_goals first
      | (simp only [Option.some.injEq] at h; rw [← h]; simp; done)
      | (cases h; done)
      | (obtain ⟨p, hp, he⟩ := push_length h
         have := ih _ _ hp
         first
           | (have hcp := codePoint_length _ _ _ _ _ ‹JsLit.codePoint 0 false _ = some (_, _)›
              simp only [List.length_cons] at *; omega)
           | (simp only [List.length_cons] at *; omega))
      | (have := unicodeEscape_length ih _ _ _ h; simp only [List.length_cons] at *; omega)
      | (have := ih _ _ h; simp only [List.length_cons] at *; omega)

theorem jsLit_consumes (es : Bool) : Consumes (JsLit.lexOf es) where
  str := fun q s cs r h => js_strBodyFuel_length q es _ s (cs, r) h

/-! ## the induction -/

theorem pos_of_or {f g n : Nat} (hn : 1 ≤ n) (h : f + 1 ≤ g ∨ 2 * n ≤ g + 1) : ∃ g', g = g' + 1 := by
  refine ⟨g - 1, ?_⟩; omega

theorem fuel_enough {L : Lex} (hL : Consumes L) : ∀ (f : Nat),
    (∀ s t r, value L f s = some (t, r) → r.length < s.length ∧
      ∀ g, (f ≤ g ∨ 2 * (s.length - r.length) ≤ g + 1) → value L g s = some (t, r)) ∧
    (∀ s xs r, elements L f s = some (xs, r) → r.length < s.length ∧
      ∀ g, (f ≤ g ∨ 2 * (s.length - r.length) ≤ g) → elements L g s = some (xs, r)) ∧
    (∀ s kvs r, members L f s = some (kvs, r) → r.length < s.length ∧
      ∀ g, (f ≤ g ∨ 2 * (s.length - r.length) ≤ g) → members L g s = some (kvs, r))
  | 0 => by simp [value, elements, members]
  | f + 1 => by
    obtain ⟨ihv, ihe, ihm⟩ := fuel_enough hL f
    refine ⟨?_, ?_, ?_⟩
    · -- value
      intro s t r h
      simp only [value] at h
      cases hsk : skipWs L.ws s with
      | nil => simp [hsk] at h
      | cons c r0 =>
        have hlen := skipWs_cons_length hsk
        simp only [hsk] at h
        by_cases hq : L.quote c = true
        · simp only [hq, if_true] at h
          cases hstr : L.str c r0 with
          | none => simp [hstr] at h
          | some p =>
            obtain ⟨cs, r'⟩ := p
            simp only [hstr, Option.some.injEq, Prod.mk.injEq] at h
            obtain ⟨rfl, rfl⟩ := h
            have := hL.str _ _ _ _ hstr
            refine ⟨by omega, fun g hg => ?_⟩
            obtain ⟨g', rfl⟩ : ∃ g', g = g' + 1 := ⟨g - 1, by omega⟩
            simp [value, hsk, hq, hstr]
        · simp only [hq, Bool.false_eq_true, if_false] at h
          by_cases h1 : c = '['
          · subst h1
            simp only [if_true] at h
            cases hsk1 : skipWs L.ws r0 with
            | nil => simp [hsk1] at h
            | cons c1 r1 =>
              have hlen1 := skipWs_cons_length hsk1
              simp only [hsk1] at h
              by_cases hc1 : c1 = ']'
              · subst hc1
                simp only [if_true, Option.some.injEq, Prod.mk.injEq] at h
                obtain ⟨rfl, rfl⟩ := h
                refine ⟨by omega, fun g hg => ?_⟩
                obtain ⟨g', rfl⟩ : ∃ g', g = g' + 1 := ⟨g - 1, by omega⟩
                simp [value, hsk, hq, hsk1]
              · simp only [hc1, if_false] at h
                cases he : elements L f (c1 :: r1) with
                | none => simp [he] at h
                | some p =>
                  obtain ⟨xs, r'⟩ := p
                  simp only [he, Option.some.injEq, Prod.mk.injEq] at h
                  obtain ⟨rfl, rfl⟩ := h
                  obtain ⟨hl, hg'⟩ := ihe _ _ _ he
                  simp only [List.length_cons] at hl hg'
                  refine ⟨by omega, fun g hg => ?_⟩
                  obtain ⟨g', rfl⟩ : ∃ g', g = g' + 1 := ⟨g - 1, by omega⟩
                  have := hg' g' (by omega)
                  simp [value, hsk, hq, hsk1, hc1, this]
          · simp only [h1, if_false] at h
            by_cases h2 : c = '{'
            · subst h2
              simp only [if_true] at h
              cases hsk1 : skipWs L.ws r0 with
              | nil => simp [hsk1] at h
              | cons c1 r1 =>
                have hlen1 := skipWs_cons_length hsk1
                simp only [hsk1] at h
                by_cases hc1 : c1 = '}'
                · subst hc1
                  simp only [if_true, Option.some.injEq, Prod.mk.injEq] at h
                  obtain ⟨rfl, rfl⟩ := h
                  refine ⟨by omega, fun g hg => ?_⟩
                  obtain ⟨g', rfl⟩ : ∃ g', g = g' + 1 := ⟨g - 1, by omega⟩
                  simp [value, hsk, hq, h1, hsk1]
                · simp only [hc1, if_false] at h
                  cases hm : members L f (c1 :: r1) with
                  | none => simp [hm] at h
                  | some p =>
                    obtain ⟨kvs, r'⟩ := p
                    simp only [hm, Option.some.injEq, Prod.mk.injEq] at h
                    obtain ⟨rfl, rfl⟩ := h
                    obtain ⟨hl, hg'⟩ := ihm _ _ _ hm
                    simp only [List.length_cons] at hl hg'
                    refine ⟨by omega, fun g hg => ?_⟩
                    obtain ⟨g', rfl⟩ : ∃ g', g = g' + 1 := ⟨g - 1, by omega⟩
                    have := hg' g' (by omega)
                    simp [value, hsk, hq, h1, hsk1, hc1, this]
            · simp only [h2, if_false] at h
              -- the leaves: the same expression at every positive fuel
              have hleaf : r.length < s.length := by
                by_cases h3 : c = 't'
                · simp only [h3, if_true, Option.map_eq_some_iff] at h
                  obtain ⟨r', hk, he⟩ := h
                  simp only [Prod.mk.injEq] at he
                  have := keyword_length _ _ _ hk
                  rw [← he.2]; omega
                · simp only [h3, if_false] at h
                  by_cases h4 : c = 'f'
                  · simp only [h4, if_true, Option.map_eq_some_iff] at h
                    obtain ⟨r', hk, he⟩ := h
                    simp only [Prod.mk.injEq] at he
                    have := keyword_length _ _ _ hk
                    rw [← he.2]; omega
                  · simp only [h4, if_false] at h
                    by_cases h5 : c = 'n'
                    · simp only [h5, if_true, Option.map_eq_some_iff] at h
                      obtain ⟨r', hk, he⟩ := h
                      simp only [Prod.mk.injEq] at he
                      have := keyword_length _ _ _ hk
                      rw [← he.2]; omega
                    · simp only [h5, if_false] at h
                      cases hn : number (c :: r0) with
                      | none => simp [hn] at h
                      | some p =>
                        obtain ⟨raw, r'⟩ := p
                        simp only [hn, Option.some.injEq, Prod.mk.injEq] at h
                        have := number_length hn
                        simp only [List.length_cons] at this
                        rw [← h.2]; omega
              refine ⟨hleaf, fun g hg => ?_⟩
              obtain ⟨g', rfl⟩ : ∃ g', g = g' + 1 := ⟨g - 1, by omega⟩
              simp only [value, hsk, hq, Bool.false_eq_true, if_false, h1, h2]
              exact h
    · -- elements
      intro s xs r h
      simp only [elements] at h
      cases hv : value L f s with
      | none => simp [hv] at h
      | some p =>
        obtain ⟨x, r1⟩ := p
        simp only [hv] at h
        obtain ⟨hl1, hg1⟩ := ihv _ _ _ hv
        cases hsk : skipWs L.ws r1 with
        | nil => simp [hsk] at h
        | cons c r2 =>
          have hlen := skipWs_cons_length hsk
          simp only [hsk] at h
          by_cases hc : c = ','
          · subst hc
            simp only [if_true] at h
            cases he : elements L f r2 with
            | none => simp [he] at h
            | some q =>
              obtain ⟨ys, r3⟩ := q
              simp only [he, Option.some.injEq, Prod.mk.injEq] at h
              obtain ⟨rfl, rfl⟩ := h
              obtain ⟨hl2, hg2⟩ := ihe _ _ _ he
              refine ⟨by omega, fun g hg => ?_⟩
              obtain ⟨g', rfl⟩ : ∃ g', g = g' + 1 := ⟨g - 1, by omega⟩
              have e1 := hg1 g' (by omega)
              have e2 := hg2 g' (by omega)
              simp [elements, e1, hsk, e2]
          · simp only [hc, if_false] at h
            by_cases hc' : c = ']'
            · subst hc'
              simp only [if_true, Option.some.injEq, Prod.mk.injEq] at h
              obtain ⟨rfl, rfl⟩ := h
              refine ⟨by omega, fun g hg => ?_⟩
              obtain ⟨g', rfl⟩ : ∃ g', g = g' + 1 := ⟨g - 1, by omega⟩
              have e1 := hg1 g' (by omega)
              simp [elements, e1, hsk]
            · simp [hc'] at h
    · -- members
      intro s kvs r h
      simp only [members] at h
      cases hsk : skipWs L.ws s with
      | nil => simp [hsk] at h
      | cons q r0 =>
        have hlen := skipWs_cons_length hsk
        simp only [hsk] at h
        by_cases hq : L.quote q = true
        · simp only [hq, if_true] at h
          cases hstr : L.str q r0 with
          | none => simp [hstr] at h
          | some p =>
            obtain ⟨k, r1⟩ := p
            have hls := hL.str _ _ _ _ hstr
            simp only [hstr] at h
            by_cases hk : L.key k = true
            · simp only [hk, if_true] at h
              cases hsk1 : skipWs L.ws r1 with
              | nil => simp [hsk1] at h
              | cons c r2 =>
                have hlen1 := skipWs_cons_length hsk1
                simp only [hsk1] at h
                by_cases hc : c = ':'
                · subst hc
                  simp only [if_true] at h
                  cases hv : value L f r2 with
                  | none => simp [hv] at h
                  | some pv =>
                    obtain ⟨v, r3⟩ := pv
                    simp only [hv] at h
                    obtain ⟨hl1, hg1⟩ := ihv _ _ _ hv
                    cases hsk3 : skipWs L.ws r3 with
                    | nil => simp [hsk3] at h
                    | cons d r4 =>
                      have hlen3 := skipWs_cons_length hsk3
                      simp only [hsk3] at h
                      by_cases hd : d = ','
                      · subst hd
                        simp only [if_true] at h
                        cases hm : members L f r4 with
                        | none => simp [hm] at h
                        | some pm =>
                          obtain ⟨rest, r5⟩ := pm
                          simp only [hm, Option.some.injEq, Prod.mk.injEq] at h
                          obtain ⟨rfl, rfl⟩ := h
                          obtain ⟨hl2, hg2⟩ := ihm _ _ _ hm
                          refine ⟨by omega, fun g hg => ?_⟩
                          obtain ⟨g', rfl⟩ : ∃ g', g = g' + 1 := ⟨g - 1, by omega⟩
                          have e1 := hg1 g' (by omega)
                          have e2 := hg2 g' (by omega)
                          simp [members, hsk, hq, hstr, hk, hsk1, e1, hsk3, e2]
                      · simp only [hd, if_false] at h
                        by_cases hd' : d = '}'
                        · subst hd'
                          simp only [if_true, Option.some.injEq, Prod.mk.injEq] at h
                          obtain ⟨rfl, rfl⟩ := h
                          refine ⟨by omega, fun g hg => ?_⟩
                          obtain ⟨g', rfl⟩ : ∃ g', g = g' + 1 := ⟨g - 1, by omega⟩
                          have e1 := hg1 g' (by omega)
                          simp [members, hsk, hq, hstr, hk, hsk1, e1, hsk3]
                        · simp [hd'] at h
                · simp [hc] at h
            · simp [hk] at h
        · simp [hq] at h

/-- more fuel never changes an answer, and the standard fuel is enough for every text -/
theorem value_fuelFor {L : Lex} (hL : Consumes L) {f : Nat} {s : List Char} {t : Json} {r : List Char}
    (h : value L f s = some (t, r)) :
    (∀ g, f ≤ g → value L g s = some (t, r)) ∧ value L (fuelFor s) s = some (t, r) := by
  obtain ⟨_, hg⟩ := (fuel_enough hL f).1 s t r h
  refine ⟨fun g hfg => hg g (Or.inl hfg), hg _ (Or.inr ?_)⟩
  simp only [fuelFor]; omega

end NitroVerif.JsonText
