/-
C18 composed (helper lemmas): where the definitions of the document handed to `check_operation_document` come from —
every definition of `resolvedDoc E P v` is a (non-import) definition of the parsed document of SOME operation file of
the project: of `v` itself, or of the file an import chain fetched it from.
-/
import NitroVerif.Lemmas.CliComposed
import NitroVerif.Lemmas.CheckOpSoundNonEmpty
namespace NitroVerif.CliComposed
open NitroVerif NitroVerif.Gql NitroVerif.Cli

variable {Text κ : Type} [DecidableEq κ]

theorem lookup_mem {α β : Type} [BEq α] [LawfulBEq α] {l : List (α × β)} {k : α} {v : β} (h : l.lookup k = some v) :
    (k, v) ∈ l := by
  induction l with
  | nil => cases h
  | cons a l ih =>
    obtain ⟨a1, a2⟩ := a
    simp only [List.lookup] at h
    split at h
    · rename_i heq
      have : k = a1 := by simpa using heq
      subst this
      cases h
      simp
    · exact List.mem_cons_of_mem _ (ih h)

theorem mem_opDocs {E : Env Text κ} {P : Project Text κ} {p : κ} {D : Doc} (h : (p, D) ∈ opDocs E P) :
    ∃ w ∈ views E P, w.input.path = p ∧ w.doc = D := by
  unfold opDocs at h
  rw [List.mem_reverse, List.mem_map] at h
  obtain ⟨w, hw, he⟩ := h
  cases he
  exact ⟨w, hw, rfl, rfl⟩

theorem mem_defsOf {D : Doc} {x : ExecDef} (h : x ∈ defsOf D) : x ∈ D ∧ ∀ i, x ≠ .imp i := by
  unfold defsOf at h
  rw [List.mem_filter] at h
  refine ⟨h.1, ?_⟩
  intro i hi
  subst hi
  simp at h

theorem fetch_mem {docs : List (κ × Doc)} {x : Imports.DefId κ} {d : ExecDef} (h : fetch docs x = some d) :
    ∃ D, (x.1, D) ∈ docs ∧ d ∈ defsOf D := by
  unfold fetch at h
  split at h
  · rename_i D hl
    exact ⟨D, lookup_mem hl, List.mem_of_getElem? h⟩
  · cases h

/-- every definition of the checked document is a non-import definition of the parsed document of an operation file
    of the project (the file itself, or a file its imports reach) -/
theorem mem_resolvedDoc {E : Env Text κ} {P : Project Text κ} {v : OpView Text κ} (hv : v ∈ views E P) {x : ExecDef}
    (h : x ∈ resolvedDoc E P v) : ∃ w ∈ views E P, x ∈ defsOf w.doc := by
  unfold resolvedDoc at h
  split at h
  · rw [List.mem_append] at h
    rcases h with h | h
    · exact ⟨v, hv, h⟩
    · obtain ⟨id, _, hf⟩ := List.mem_filterMap.mp h
      obtain ⟨D, hD, hx⟩ := fetch_mem hf
      obtain ⟨w, hw, _, rfl⟩ := mem_opDocs hD
      exact ⟨w, hw, hx⟩
  · exact ⟨v, hv, h⟩

/-- the file's own definitions come first -/
theorem defsOf_sub_resolvedDoc (E : Env Text κ) (P : Project Text κ) (v : OpView Text κ) :
    ∀ x ∈ defsOf v.doc, x ∈ resolvedDoc E P v := by
  intro x hx
  unfold resolvedDoc
  split
  · exact List.mem_append_left _ hx
  · exact hx

theorem view_doc_of_parse {E : Env Text κ} {P : Project Text κ} {v : OpView Text κ} (hv : v ∈ views E P) :
    (∃ D, E.parseOp v.idx v.input.text = .ok D ∧ v.doc = D) ∨ v.doc = [] := by
  obtain ⟨j, f, _, rfl⟩ := (mem_views E P v).mp hv
  simp only [OpView.doc]
  cases h : E.parseOp (P.schemaTexts.length + j) f.text with
  | ok D => exact Or.inl ⟨D, rfl, rfl⟩
  | error e => exact Or.inr rfl

/-- if the parser only produces documents whose selection sets are non-empty (the grammar: `"{" Selection+ "}"`), the
    documents handed to the operation checker have that property -/
theorem nonEmpty_resolvedDoc {E : Env Text κ} {P : Project Text κ}
    (hp : ∀ i t D, E.parseOp i t = .ok D → Doc.NonEmptySelections D) {v : OpView Text κ} (hv : v ∈ views E P) :
    Doc.NonEmptySelections (resolvedDoc E P v) := by
  unfold Doc.NonEmptySelections Doc.nonEmptySelectionsB
  rw [List.all_eq_true]
  intro x hx
  obtain ⟨w, hw, hxw⟩ := mem_resolvedDoc hv hx
  rcases view_doc_of_parse hw with ⟨D, hD, he⟩ | he
  · rw [he] at hxw
    exact List.all_eq_true.mp (hp _ _ _ hD) x (mem_defsOf hxw).1
  · rw [he] at hxw
    simp [defsOf] at hxw

end NitroVerif.CliComposed
