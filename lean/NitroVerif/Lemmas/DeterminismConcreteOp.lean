/-
Helper lemmas for C17 (concrete part 2): the operation checker model `CheckOp.checkOp S D` reads the schema `S` only
through by-name lookups, the SET of type names (interface × interface applicability), the list of schema definitions
(root types); and reads the document `D` — apart from walking it — only through the fragment map, the number of
fragments / operations and the set of fragments reachable from operations.
Core Lean only.
-/
import NitroVerif.Lemmas.DeterminismConcreteTs
import NitroVerif.Model.CheckOp
namespace NitroVerif.Determinism
open NitroVerif.Gql NitroVerif.CheckCommon NitroVerif.CheckOp

/-- everything the operation checker (and the printers) read of a schema -/
structure SameSchema (S S' : Schema) : Prop extends SameView S S' where
  names : ∀ n, n ∈ S.typeNames ↔ n ∈ S'.typeNames
  schemaDefs : S.schemaDefs = S'.schemaDefs

section common
variable {S S' : Schema}

theorem op_namedLeaf_congr (h : SameView S S') (v : Value) (n : Name) (np : Pos) :
    namedLeaf S v n np = namedLeaf S' v n np := by
  unfold namedLeaf
  rw [h.ty]

theorem op_checkValue_congr_all (h : SameView S S') (vars : Option (List VarDef)) :
    (∀ v ty ld, CheckCommon.checkValue S vars v ty ld = CheckCommon.checkValue S' vars v ty ld) ∧
    (∀ fs n ty ld, lookupField S vars fs n ty ld = lookupField S' vars fs n ty ld) ∧
    (∀ vs ty, CheckCommon.checkValueList S vars vs ty = CheckCommon.checkValueList S' vars vs ty) := by
  apply CheckCommon.checkValue.mutual_induct (S := S)
    (motive_1 := fun v ty ld => CheckCommon.checkValue S vars v ty ld = CheckCommon.checkValue S' vars v ty ld)
    (motive_2 := fun fs n ty ld => lookupField S vars fs n ty ld = lookupField S' vars fs n ty ld)
    (motive_3 := fun vs ty => CheckCommon.checkValueList S vars vs ty = CheckCommon.checkValueList S' vars vs ty)
  all_goals (intros; simp_all [CheckCommon.checkValue, CheckCommon.checkValueList, lookupField, h.ty,
    op_namedLeaf_congr h])

theorem op_checkValue_congr (h : SameView S S') (vars : Option (List VarDef)) (v : Value) (ty : GType) (ld : Bool) :
    CheckCommon.checkValue S vars v ty ld = CheckCommon.checkValue S' vars v ty ld :=
  (op_checkValue_congr_all h vars).1 v ty ld

theorem op_argOutcomes_congr (h : SameView S S') (vars : Option (List VarDef)) (p : Pos) (args : List Arg)
    (defs : List InputValueDef) : argOutcomes S vars p args defs = argOutcomes S' vars p args defs := by
  unfold argOutcomes
  simp only [op_checkValue_congr h]

theorem op_checkArguments_congr (h : SameView S S') (vars : Option (List VarDef)) (p : Pos) (args : List Arg)
    (defs : List InputValueDef) :
    CheckCommon.checkArguments S vars p args defs = CheckCommon.checkArguments S' vars p args defs := by
  unfold CheckCommon.checkArguments
  simp only [op_argOutcomes_congr h]

theorem op_checkDirectivesAux_congr (h : SameView S S') (vars : Option (List VarDef)) (loc : String)
    (seen : List Name) (ds : List Directive) :
    CheckCommon.checkDirectivesAux S vars loc seen ds = CheckCommon.checkDirectivesAux S' vars loc seen ds := by
  induction ds generalizing seen with
  | nil => rfl
  | cons d ds ih => simp only [CheckCommon.checkDirectivesAux, h.dir, op_checkArguments_congr h, ih]

theorem op_checkDirectives_congr (h : SameView S S') (vars : Option (List VarDef)) (ds : List Directive)
    (loc : String) : CheckCommon.checkDirectives S vars ds loc = CheckCommon.checkDirectives S' vars ds loc :=
  op_checkDirectivesAux_congr h vars loc [] ds

theorem op_isInputType?_congr (h : SameView S S') (n : Name) : isInputType? S n = isInputType? S' n := by
  unfold isInputType?
  rw [h.kind]

end common

section op
variable {S S' : Schema}

theorem unionMemberImplements_congr (h : SameView S S') (iface : Name) (ms : List (Name × Pos)) :
    unionMemberImplements S iface ms = unionMemberImplements S' iface ms := by
  induction ms with
  | nil => rfl
  | cons m ms ih =>
    obtain ⟨m, mp⟩ := m
    simp only [unionMemberImplements, h.ty, ih]

theorem any_eq_of_mem_iff {α : Type} {l l' : List α} (h : ∀ x, x ∈ l ↔ x ∈ l') (p : α → Bool) :
    l.any p = l'.any p := by
  rw [Bool.eq_iff_iff, List.any_eq_true, List.any_eq_true]
  exact ⟨fun ⟨x, hx, hp⟩ => ⟨x, (h x).mp hx, hp⟩, fun ⟨x, hx, hp⟩ => ⟨x, (h x).mpr hx, hp⟩⟩

theorem spreadApplicability_congr (h : SameSchema S S') (root cond : TypeDef) (pos : Pos) :
    spreadApplicability S root cond pos = spreadApplicability S' root cond pos := by
  unfold spreadApplicability
  simp only [h.ty, unionMemberImplements_congr h.toSameView, any_eq_of_mem_iff h.names]

mutual
theorem checkSelections_schema_congr (h : SameSchema S S') (H : SpreadHandler) (seen : List Name)
    (vars : Option (List VarDef)) (root : TypeDef) (fields : List FieldDef) :
    ∀ ss, checkSelections S H seen vars root fields ss = checkSelections S' H seen vars root fields ss
  | [] => by simp only [checkSelections]
  | s :: ss => by
    simp only [checkSelections]
    rw [checkSelection_schema_congr h H seen vars root fields s,
      checkSelections_schema_congr h H seen vars root fields ss]
theorem checkSelection_schema_congr (h : SameSchema S S') (H : SpreadHandler) (seen : List Name)
    (vars : Option (List VarDef)) (root : TypeDef) (fields : List FieldDef) :
    ∀ s, checkSelection S H seen vars root fields s = checkSelection S' H seen vars root fields s
  | .field _ name namePos args dirs none => by
    simp only [checkSelection, op_checkDirectives_congr h.toSameView, op_checkArguments_congr h.toSameView, h.ty]
  | .field _ name namePos args dirs (some ss) => by
    simp only [checkSelection, op_checkDirectives_congr h.toSameView, op_checkArguments_congr h.toSameView, h.ty,
      fun ft ff => checkSelections_schema_congr h H seen vars ft ff ss]
  | .spread name namePos dirs pos => by
    simp only [checkSelection, op_checkDirectives_congr h.toSameView]
  | .inline cond dirs ss pos => by
    simp only [checkSelection, op_checkDirectives_congr h.toSameView, h.ty, spreadApplicability_congr h,
      fun ft ff => checkSelections_schema_congr h H seen vars ft ff ss]
end

theorem checkSelectionSet_schema_congr (h : SameSchema S S') (H : SpreadHandler) (seen : List Name)
    (vars : Option (List VarDef)) (root : TypeDef) (ss : List Selection) (anchor : Pos) :
    checkSelectionSet S H seen vars root ss anchor = checkSelectionSet S' H seen vars root ss anchor := by
  unfold checkSelectionSet
  simp only [checkSelections_schema_congr h]

theorem spreadHandler_schema_congr (h : SameSchema S S') (D : Doc) (fuel : Nat) :
    spreadHandler S D fuel = spreadHandler S' D fuel := by
  induction fuel with
  | zero => rfl
  | succ n ih =>
    simp only [spreadHandler, ih, op_checkDirectives_congr h.toSameView, h.ty, spreadApplicability_congr h,
      checkSelectionSet_schema_congr h]

theorem checkVariablesAux_congr (h : SameView S S') (seen : List Name) (vs : List VarDef) :
    checkVariablesAux S seen vs = checkVariablesAux S' seen vs := by
  induction vs generalizing seen with
  | nil => rfl
  | cons v vs ih =>
    simp only [checkVariablesAux, op_checkDirectives_congr h, op_isInputType?_congr h, op_checkValue_congr h, ih]

theorem hasExplicitSchema_congr (h : SameSchema S S') : hasExplicitSchema S = hasExplicitSchema S' := by
  unfold hasExplicitSchema
  rw [h.schemaDefs]

theorem explicitRoot?_congr (h : SameSchema S S') (k : OpKind) : S.explicitRoot? k = S'.explicitRoot? k := by
  unfold Schema.explicitRoot?
  rw [h.schemaDefs]

theorem rootName_congr (h : SameSchema S S') (k : OpKind) : S.rootName k = S'.rootName k := by
  unfold Schema.rootName
  rw [explicitRoot?_congr h]

theorem checkOperation_schema_congr (h : SameSchema S S') (D : Doc) (op : OperationDef) :
    checkOperation S D op = checkOperation S' D op := by
  unfold checkOperation
  simp only [hasExplicitSchema_congr h, explicitRoot?_congr h, rootName_congr h, h.ty,
    op_checkDirectives_congr h.toSameView, checkVariablesAux_congr h.toSameView, spreadHandler_schema_congr h,
    checkSelectionSet_schema_congr h]

theorem checkFragmentDefinition_schema_congr (h : SameSchema S S') (D : Doc) (used : Bool) (f : FragmentDef) :
    checkFragmentDefinition S D used f = checkFragmentDefinition S' D used f := by
  unfold checkFragmentDefinition
  simp only [h.ty, op_checkDirectives_congr h.toSameView, spreadHandler_schema_congr h,
    checkSelectionSet_schema_congr h]

theorem defBody_schema_congr (h : SameSchema S S') (D : Doc) (d : ExecDef) : defBody S D d = defBody S' D d := by
  cases d with
  | op o => simp only [defBody, checkOperation_schema_congr h]
  | frag f => simp only [defBody, checkFragmentDefinition_schema_congr h]
  | imp _ => rfl

theorem checkDefs_schema_congr (h : SameSchema S S') (D : Doc) (opNum : Nat) (earlier rest : List ExecDef) :
    checkDefs S D opNum earlier rest = checkDefs S' D opNum earlier rest := by
  induction rest generalizing earlier with
  | nil => rfl
  | cons d rest ih => simp only [checkDefs, defBody_schema_congr h, ih]

theorem checkOp_schema_congr (h : SameSchema S S') (D : Doc) : checkOp S D = checkOp S' D :=
  checkDefs_schema_congr h D _ [] D

end op

/-! ### a permutation of a name-distinct document with at most one schema definition is the same schema -/

theorem foldl_dedup_mem {α : Type} (f : α → Name) (l : List α) (acc : List Name) (n : Name) :
    n ∈ l.foldl (fun acc t => if acc.contains (f t) then acc else acc ++ [f t]) acc ↔ n ∈ acc ∨ n ∈ l.map f := by
  induction l generalizing acc with
  | nil => simp
  | cons a l ih =>
    simp only [List.foldl_cons, List.map_cons, List.mem_cons]
    rw [ih]
    by_cases hc : acc.contains (f a) = true
    · simp only [hc, if_true]
      have : f a ∈ acc := List.contains_iff_mem.mp hc
      constructor
      · rintro (h | h)
        · exact Or.inl h
        · exact Or.inr (Or.inr h)
      · rintro (h | h | h)
        · exact Or.inl h
        · exact Or.inl (h ▸ this)
        · exact Or.inr h
    · simp only [hc, Bool.false_eq_true, if_false, List.mem_append, List.mem_singleton]
      constructor
      · rintro ((h | h) | h)
        · exact Or.inl h
        · exact Or.inr (Or.inl h)
        · exact Or.inr (Or.inr h)
      · rintro (h | h | h)
        · exact Or.inl (Or.inl h)
        · exact Or.inl (Or.inr h)
        · exact Or.inr h

theorem mem_typeNames_iff (S : Schema) (n : Name) : n ∈ S.typeNames ↔ n ∈ S.typeDefs.map (·.name) := by
  unfold Schema.typeNames
  rw [foldl_dedup_mem (fun t : TypeDef => t.name)]
  simp

/-- with at most one element, a permutation is an equality -/
theorem eq_of_perm_of_length_le_one {α : Type} {l l' : List α} (hp : l.Perm l') (one : l.length ≤ 1) : l = l' := by
  match l, l', hp, one with
  | [], [], _, _ => rfl
  | [], _ :: _, hp, _ => exact absurd hp.symm.eq_nil (by simp)
  | _ :: _, [], hp, _ => exact absurd hp.eq_nil (by simp)
  | [a], [b], hp, _ => simpa using hp
  | [a], _ :: _ :: _, hp, _ => exact absurd hp.length_eq (by simp)
  | _ :: _ :: _, _, _, one => simp at one

theorem sameSchema_of_perm {T T' : TsDoc} (h : T.Perm T') (ndt : NoDupTypeNames T) (ndd : NoDupDirectiveNames T)
    (one : (Schema.mk T).schemaDefs.length ≤ 1) : SameSchema ⟨T⟩ ⟨T'⟩ :=
  { toSameView := sameView_of_perm h ndt ndd
    names := fun n => by
      rw [mem_typeNames_iff, mem_typeNames_iff]
      exact ((typeDefs_perm h).map _).mem_iff
    schemaDefs := eq_of_perm_of_length_le_one (h.filterMap _) one }

end NitroVerif.Determinism
