/-
C01/C02 refinement, specification side, part 3: the fuel of the executable CollectFields suffices.

`fits F D s`  — the selection `s`, with fragment spreads expanded, nests at most `D` deep (so: no fragment cycle is
                reachable from it);  `esz F D s` — its size with spreads expanded (stable in `D` once `fits`).
`FuelOk c D ss` — every selection of `ss` fits `D` and the expanded size of `ss` is at most `c.fuel`.  Then CollectFields
succeeds for every object type and every assignment, and every merged sub-selection it returns is `FuelOk` again.
-/
import NitroVerif.Lemmas.OpTypesRefSpec
namespace NitroVerif.OpTypes.Ref
open NitroVerif.Gql NitroVerif.Ts NitroVerif.Exec

abbrev FragMap := Name → Option FragmentDef

def fits (F : FragMap) : Nat → Selection → Bool
  | 0, _ => false
  | _ + 1, .field _ _ _ _ _ none => true
  | D + 1, .field _ _ _ _ _ (some ss) => ss.all (fits F D)
  | D + 1, .inline _ _ ss _ => ss.all (fits F D)
  | D + 1, .spread nm _ _ _ =>
    match F nm with
    | some f => f.sel.all (fits F D)
    | none => true

def esz (F : FragMap) : Nat → Selection → Nat
  | 0, _ => 1
  | _ + 1, .field _ _ _ _ _ none => 1
  | D + 1, .field _ _ _ _ _ (some ss) => 1 + (ss.map (esz F D)).sum
  | D + 1, .inline _ _ ss _ => 1 + (ss.map (esz F D)).sum
  | D + 1, .spread nm _ _ _ =>
    match F nm with
    | some f => 1 + (f.sel.map (esz F D)).sum
    | none => 1

def eszL (F : FragMap) (D : Nat) (ss : List Selection) : Nat := (ss.map (esz F D)).sum

theorem eszL_append (F : FragMap) (D : Nat) (a b : List Selection) : eszL F D (a ++ b) = eszL F D a + eszL F D b := by
  simp [eszL]

theorem eszL_cons (F : FragMap) (D : Nat) (s : Selection) (b : List Selection) :
    eszL F D (s :: b) = esz F D s + eszL F D b := by
  simp [eszL]

theorem esz_pos (F : FragMap) : ∀ (D : Nat) (s : Selection), 1 ≤ esz F D s
  | 0, _ => by simp [esz]
  | D + 1, .field _ _ _ _ _ none => by simp [esz]
  | D + 1, .field _ _ _ _ _ (some ss) => by simp [esz]
  | D + 1, .inline _ _ ss _ => by simp [esz]
  | D + 1, .spread nm _ _ _ => by
    simp only [esz]; split <;> omega

theorem fits_esz_succ (F : FragMap) : ∀ (D : Nat) (s : Selection), fits F D s = true →
    fits F (D + 1) s = true ∧ esz F (D + 1) s = esz F D s
  | 0, _, h => by simp [fits] at h
  | D + 1, s, h => by
    have hl : ∀ ss : List Selection, ss.all (fits F D) = true →
        ss.all (fits F (D + 1)) = true ∧ (ss.map (esz F (D + 1))).sum = (ss.map (esz F D)).sum := by
      intro ss hs
      induction ss with
      | nil => simp
      | cons x xs ih =>
        simp only [List.all_cons, Bool.and_eq_true] at hs
        obtain ⟨h1, h2⟩ := fits_esz_succ F D x hs.1
        obtain ⟨h3, h4⟩ := ih hs.2
        simp [h1, h2, h3, h4]
    cases s with
    | field a n p args ds sub =>
      cases sub with
      | none => simp [fits, esz]
      | some ss =>
        simp only [fits] at h
        obtain ⟨h1, h2⟩ := hl ss h
        simp only [fits, esz, h1, h2, and_self]
    | inline cnd ds ss p =>
      simp only [fits] at h
      obtain ⟨h1, h2⟩ := hl ss h
      simp only [fits, esz, h1, h2, and_self]
    | spread nm np ds p =>
      simp only [fits, esz] at h ⊢
      cases hF : F nm with
      | none => simp
      | some f =>
        simp only [hF] at h ⊢
        obtain ⟨h1, h2⟩ := hl f.sel h
        simp only [h1, h2, and_self]

theorem fitsAll_succ (F : FragMap) (D : Nat) (ss : List Selection) (h : ∀ s ∈ ss, fits F D s = true) :
    (∀ s ∈ ss, fits F (D + 1) s = true) ∧ eszL F (D + 1) ss = eszL F D ss := by
  induction ss with
  | nil => simp [eszL]
  | cons x xs ih =>
    obtain ⟨h1, h2⟩ := fits_esz_succ F D x (h x (by simp))
    obtain ⟨h3, h4⟩ := ih (fun s hs => h s (List.mem_cons_of_mem _ hs))
    refine ⟨fun s hs => ?_, ?_⟩
    · rcases List.mem_cons.1 hs with rfl | hs
      · exact h1
      · exact h3 s hs
    · rw [eszL_cons, eszL_cons, h2, h4]

/-- weight of the collected groups: one per field plus the expanded size of its sub-selection -/
def gW (F : FragMap) (D : Nat) (g : Groups) : Nat :=
  (g.map fun e => (e.2.map fun f => 1 + eszL F D (f.sub.getD [])).sum).sum

def GFits (F : FragMap) (D : Nat) (g : Groups) : Prop :=
  ∀ e ∈ g, ∀ f ∈ e.2, ∀ s ∈ f.sub.getD [], fits F D s = true

theorem gW_addField (F : FragMap) (D : Nat) (key : Name) (f : CField) : ∀ (g : Groups),
    gW F D (addField key f g) = gW F D g + (1 + eszL F D (f.sub.getD []))
  | [] => by simp [addField, gW]
  | (k0, fs0) :: r => by
    by_cases hk : (k0 == key) = true
    · simp only [addField, hk, ↓reduceIte, gW, List.map_cons, List.map_append, List.sum_cons, List.sum_append,
        List.map_nil, List.sum_nil]
      omega
    · have hk' : (k0 == key) = false := by simpa using hk
      have ih := gW_addField F D key f r
      simp only [gW] at ih
      simp only [addField, hk', Bool.false_eq_true, ↓reduceIte, gW, List.map_cons, List.sum_cons, ih]
      omega

theorem gFits_addField {F : FragMap} {D : Nat} {key : Name} {f : CField} {g : Groups} (hg : GFits F D g)
    (hf : ∀ s ∈ f.sub.getD [], fits F D s = true) : GFits F D (addField key f g) := by
  intro e he f' hf' s hs
  obtain ⟨k, fs⟩ := e
  have : InG (addField key f g) k f' := ⟨fs, he, hf'⟩
  rcases (inG_addField key f g k f').1 this with ⟨fs', h1, h2⟩ | ⟨_, rfl⟩
  · exact hg _ h1 _ h2 s hs
  · exact hf s hs

theorem gW_mem {F : FragMap} {D : Nat} : ∀ {g : Groups} {e : Name × List CField}, e ∈ g →
    eszL F D (mergedSub e.2) ≤ gW F D g
  | e0 :: g, e, h => by
    have hle : ∀ fs : List CField, eszL F D (mergedSub fs) ≤ (fs.map fun f => 1 + eszL F D (f.sub.getD [])).sum := by
      intro fs
      induction fs with
      | nil => simp [mergedSub, eszL]
      | cons f fs ih =>
        simp only [mergedSub, List.flatMap_cons, List.map_cons, List.sum_cons] at ih ⊢
        rw [eszL_append]; omega
    simp only [gW, List.map_cons, List.sum_cons]
    rcases List.mem_cons.1 h with rfl | h
    · have := hle e.2; omega
    · have := gW_mem (F := F) (D := D) h
      simp only [gW] at this; omega

section
variable (c : Ctx) (σ : Sigma) (o : Name)

/-- CollectFields terminates within the expanded size of its work list -/
theorem collectGo_fuel (D : Nat) : ∀ (n : Nat) (L : List Selection) (V : List Name) (g0 : Groups),
    (∀ s ∈ L, fits c.F D s = true) → eszL c.F D L ≤ n → GFits c.F D g0 →
    ∃ g, collectGo c σ o n L V g0 = some g ∧ GFits c.F D g ∧ gW c.F D g ≤ gW c.F D g0 + eszL c.F D L
  | 0, [], V, g0, _, _, hg => ⟨g0, by simp [collectGo], hg, by simp [eszL]⟩
  | 0, s :: rest, V, g0, _, hn, _ => by
    rw [eszL_cons] at hn; have := esz_pos c.F D s; omega
  | n + 1, [], V, g0, _, _, hg => ⟨g0, by simp [collectGo], hg, by simp [eszL]⟩
  | n + 1, s :: rest, V, g0, hfit, hn, hg => by
    rw [eszL_cons] at hn
    have hpos := esz_pos c.F D s
    have hrest : ∀ s' ∈ rest, fits c.F D s' = true := fun s' hs' => hfit s' (List.mem_cons_of_mem _ hs')
    have hs := hfit s (by simp)
    -- skipping `s`
    have skip : ∀ V', ∃ g, collectGo c σ o n rest V' g0 = some g ∧ GFits c.F D g ∧
        gW c.F D g ≤ gW c.F D g0 + eszL c.F D (s :: rest) := by
      intro V'
      obtain ⟨g, h1, h2, h3⟩ := collectGo_fuel D n rest V' g0 hrest (by omega) hg
      exact ⟨g, h1, h2, by rw [eszL_cons]; omega⟩
    simp only [collectGo]
    by_cases hinc : included σ (selDirs s) = true
    · simp only [hinc, Bool.not_true, Bool.false_eq_true, ↓reduceIte]
      cases D with
      | zero => simp [fits] at hs
      | succ D' =>
        have lift : ∀ ss : List Selection, ss.all (fits c.F D') = true →
            (∀ x ∈ ss, fits c.F (D' + 1) x = true) ∧ eszL c.F (D' + 1) ss = eszL c.F D' ss := by
          intro ss hss
          exact fitsAll_succ c.F D' ss (fun x hx => (List.all_eq_true.1 hss) x hx)
        cases s with
        | field alias name p args ds sub =>
          simp only
          have hsub : ∀ x ∈ (CField.mk name sub).sub.getD [], fits c.F (D' + 1) x = true := by
            cases sub with
            | none => simp
            | some ss => simp only [fits] at hs; exact (lift ss hs).1
          have hsz : 1 + eszL c.F (D' + 1) (sub.getD []) = esz c.F (D' + 1) (.field alias name p args ds sub) := by
            cases sub with
            | none => simp [esz, eszL]
            | some ss =>
              simp only [fits] at hs
              have h2 := (lift ss hs).2
              simp only [eszL] at h2
              simp only [esz, Option.getD_some, eszL]; omega
          obtain ⟨g, h1, h2, h3⟩ := collectGo_fuel (D' + 1) n rest V (addField (keyOf alias name) ⟨name, sub⟩ g0)
            hrest (by omega) (gFits_addField hg hsub)
          refine ⟨g, ?_, h2, ?_⟩
          · cases alias <;> exact h1
          · rw [gW_addField] at h3; rw [eszL_cons]; simp only at h3; omega
        | spread nm np ds p =>
          simp only
          split
          · exact skip V
          · cases hF : c.F nm with
            | none => simp only; exact skip (nm :: V)
            | some fd =>
              simp only
              split
              · simp only [fits, hF] at hs
                obtain ⟨hl1, hl2⟩ := lift fd.sel hs
                have hfit' : ∀ s' ∈ fd.sel ++ rest, fits c.F (D' + 1) s' = true := by
                  intro s' hs'
                  rcases List.mem_append.1 hs' with h | h
                  · exact hl1 s' h
                  · exact hrest s' h
                have hsz : esz c.F (D' + 1) (.spread nm np ds p) = 1 + eszL c.F (D' + 1) fd.sel := by
                  simp only [eszL] at hl2
                  simp only [esz, hF, eszL]; omega
                obtain ⟨g, h1, h2, h3⟩ := collectGo_fuel (D' + 1) n (fd.sel ++ rest) (nm :: V) g0 hfit'
                  (by rw [eszL_append]; omega) hg
                refine ⟨g, h1, h2, ?_⟩
                rw [eszL_append] at h3; rw [eszL_cons]; omega
              · exact skip (nm :: V)
        | inline cond ds ss p =>
          simp only [fits] at hs
          obtain ⟨hl1, hl2⟩ := lift ss hs
          have hsz : esz c.F (D' + 1) (.inline cond ds ss p) = 1 + eszL c.F (D' + 1) ss := by
            have h2 := hl2
            simp only [eszL] at h2
            simp only [esz, eszL]; omega
          have enter : ∃ g, collectGo c σ o n (ss ++ rest) V g0 = some g ∧ GFits c.F (D' + 1) g ∧
              gW c.F (D' + 1) g ≤ gW c.F (D' + 1) g0 + eszL c.F (D' + 1) (.inline cond ds ss p :: rest) := by
            have hfit' : ∀ s' ∈ ss ++ rest, fits c.F (D' + 1) s' = true := by
              intro s' hs'
              rcases List.mem_append.1 hs' with h | h
              · exact hl1 s' h
              · exact hrest s' h
            obtain ⟨g, h1, h2, h3⟩ := collectGo_fuel (D' + 1) n (ss ++ rest) V g0 hfit'
              (by rw [eszL_append]; omega) hg
            refine ⟨g, h1, h2, ?_⟩
            rw [eszL_append] at h3; rw [eszL_cons]; omega
          simp only
          cases cond with
          | none => exact enter
          | some tc =>
            simp only
            split
            · exact enter
            · exact skip V
    · have hinc' : included σ (selDirs s) = false := by simpa using hinc
      simp only [hinc', Bool.not_false, ↓reduceIte]
      exact skip V

end

/-- the fuel of the specification suffices for `ss` and everything nested in it -/
def FuelOk (c : Ctx) (D : Nat) (ss : List Selection) : Prop :=
  (∀ s ∈ ss, fits c.F D s = true) ∧ eszL c.F D ss ≤ c.fuel

theorem collectFields_fuel {c : Ctx} {D : Nat} {ss : List Selection} (h : FuelOk c D ss) (σ : Sigma) (o : Name) :
    ∃ g, collectFields c σ o ss = some g ∧ ∀ e ∈ g, FuelOk c D (mergedSub e.2) := by
  obtain ⟨g, h1, h2, h3⟩ := collectGo_fuel c σ o D c.fuel ss [] [] h.1 h.2 (by intro e he; cases he)
  refine ⟨g, h1, fun e he => ⟨?_, ?_⟩⟩
  · intro s hs
    simp only [mergedSub, List.mem_flatMap] at hs
    obtain ⟨f, hf, hs⟩ := hs
    exact h2 e he f hf s hs
  · have := gW_mem (F := c.F) (D := D) he
    have h0 : gW c.F D [] = 0 := by simp [gW]
    have := h.2
    omega

end NitroVerif.OpTypes.Ref
