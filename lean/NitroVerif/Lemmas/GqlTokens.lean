import NitroVerif.Model.GqlPrint
import NitroVerif.Spec.GqlTokens
/-!
Helper definitions and lemmas for C16 at token level: the lexical token a printer token stands for, and the
token parser of `Spec/GqlTokens.lean` run on canonical token streams of types.
-/
namespace NitroVerif.C16
open NitroVerif.Gql NitroVerif.GqlPrint

/-- the lexical token a printer token stands for (layout and indentation are `Ignored`) -/
def lex : Tok → List GqlTokens.LTok
  | .p s => [.p s]
  | .name s => [.name s]
  | .var n => [.p "$", .name n]
  | .int s => [.int s]
  | .float s => [.float s]
  | .str v => [.str v]
  | _ => []

theorem parseType_typeToks (t : GType) : GqlTokens.wfType t = true → ∀ (rest : List GqlTokens.LTok) (f : Nat),
    GqlTokens.depth t < f →
    GqlTokens.parseType f (GqlTokens.typeToks t ++ rest) =
      some (if t.isNonNull then (t.erasePos, rest) else GqlTokens.bang t.erasePos rest) := by
  induction t with
  | named n p =>
    intro _ rest f hf
    cases f with
    | zero => omega
    | succ f => simp [GqlTokens.typeToks, GqlTokens.parseType, GType.isNonNull, GType.erasePos]
  | list u p ih =>
    intro hwf rest f hf
    cases f with
    | zero => omega
    | succ f =>
      have hu := ih (by simpa [GqlTokens.wfType] using hwf) (GqlTokens.LTok.p "]" :: rest) f
        (by simp [GqlTokens.depth] at hf; omega)
      have hbang : GqlTokens.bang u.erasePos (GqlTokens.LTok.p "]" :: rest) = (u.erasePos, GqlTokens.LTok.p "]" :: rest) := by
        simp [GqlTokens.bang]
      have hu' : GqlTokens.parseType f (GqlTokens.typeToks u ++ GqlTokens.LTok.p "]" :: rest) =
          some (u.erasePos, GqlTokens.LTok.p "]" :: rest) := by
        rw [hu]; split <;> simp [hbang]
      simp [GqlTokens.typeToks, GqlTokens.parseType, hu', GType.isNonNull, GType.erasePos]
  | nonNull u ih =>
    intro hwf rest f hf
    simp only [GqlTokens.wfType, Bool.and_eq_true, Bool.not_eq_true'] at hwf
    have hu := ih hwf.2 (GqlTokens.LTok.p "!" :: rest) f (by simp [GqlTokens.depth] at hf; omega)
    simp only [hwf.1, Bool.false_eq_true, if_false] at hu
    have : GqlTokens.typeToks (.nonNull u) ++ rest = GqlTokens.typeToks u ++ GqlTokens.LTok.p "!" :: rest := by
      simp [GqlTokens.typeToks]
    rw [this, hu]
    simp [GqlTokens.bang, GType.isNonNull, GType.erasePos]

end NitroVerif.C16
