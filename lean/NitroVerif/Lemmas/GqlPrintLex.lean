import NitroVerif.Spec.GqlLexer
import NitroVerif.Lemmas.GqlPrintWritten
/-!
C16, character level: the lexer of `Spec/GqlLexer.lean` run on what `JustWriter` writes for a sequence of printer tokens
finds exactly the tokens the printer tokens stand for — provided every token is lexically what it claims (`dataOK`:
names are GraphQL Names, numbers GraphQL numbers; `fixedOK`: punctuators and layout) and is followed by a character
that ends it (`LexableK`).
-/
namespace NitroVerif.C16
open NitroVerif.Gql NitroVerif.GqlPrint NitroVerif.GqlTokens NitroVerif.GqlString NitroVerif.JsTemplate
open NitroVerif.GqlLexer

/-! ### scanners on a token followed by more text -/

def nameFollowOK : List Char → Bool
  | [] => true
  | c :: _ => !nameContinue c

def strFollowOK : List Char → Bool
  | [] => true
  | c :: _ => c != '"'

theorem spanName_append (s R : List Char) (hs : ∀ c ∈ s, nameContinue c = true) (hR : nameFollowOK R = true) :
    spanName (s ++ R) = (s, R) := by
  induction s with
  | nil =>
    cases R with
    | nil => rfl
    | cons c cs =>
      simp only [nameFollowOK, Bool.not_eq_true'] at hR
      simp [spanName, hR]
  | cons c cs ih =>
    have := ih (fun x hx => hs x (by simp [hx]))
    simp [spanName, hs c (by simp), this]

theorem scanNum_append (s R : List Char) : ∀ (st st' : NumSt), scanNum st s = (st', s, []) →
    (match R with | [] => True | c :: _ => numStep st' c = none) → scanNum st (s ++ R) = (st', s, R) := by
  induction s with
  | nil =>
    intro st st' h hR
    simp only [scanNum, Prod.mk.injEq, and_true] at h
    subst h
    cases R with
    | nil => rfl
    | cons c cs => simp only [List.nil_append, scanNum, hR]
  | cons c cs ih =>
    intro st st' h hR
    simp only [scanNum] at h
    cases hstep : numStep st c with
    | none => simp [hstep] at h
    | some st1 =>
      simp only [hstep, Prod.mk.injEq, List.cons.injEq, true_and] at h
      have h1 : scanNum st1 cs = (st', cs, []) := by
        rcases hsc : scanNum st1 cs with ⟨a, b, c'⟩
        rw [hsc] at h
        simp only at h
        obtain ⟨rfl, rfl, rfl⟩ := h
        rfl
      have := ih st1 st' h1 hR
      simp [scanNum, hstep, this]

/-- the text is exactly one IntValue -/
def validInt (s : List Char) : Bool :=
  (scanNum .start s).2.1 == s && (scanNum .start s).2.2.isEmpty &&
    ((scanNum .start s).1 == .zero || (scanNum .start s).1 == .int)

/-- the text is exactly one FloatValue -/
def validFloat (s : List Char) : Bool :=
  (scanNum .start s).2.1 == s && (scanNum .start s).2.2.isEmpty &&
    ((scanNum .start s).1 == .frac || (scanNum .start s).1 == .exp)

theorem numStep_stop (st : NumSt) (h : st = .zero ∨ st = .int ∨ st = .frac ∨ st = .exp) (c : Char)
    (hc : (isDigit c || c = '.' || nameStart c) = false) : numStep st c = none := by
  simp only [Bool.or_eq_false_iff, decide_eq_false_iff_not] at hc
  obtain ⟨⟨h1, h2⟩, h3⟩ := hc
  have he : ¬ (c = 'e' ∨ c = 'E') := by
    intro h'
    rcases h' with rfl | rfl <;> simp [nameStart, isLetter] at h3
  rcases h with rfl | rfl | rfl | rfl <;> simp [numStep, h1, h2, he]

theorem scanNum_valid (s R : List Char) (st' : NumSt) (hsc : scanNum .start s = (st', s, []))
    (hacc : st' = .zero ∨ st' = .int ∨ st' = .frac ∨ st' = .exp) (hR : numFollowOK R = true) :
    scanNum .start (s ++ R) = (st', s, R) := by
  apply scanNum_append s R .start st' hsc
  cases R with
  | nil => trivial
  | cons c cs =>
    simp only [numFollowOK, Bool.not_eq_true'] at hR
    exact numStep_stop st' hacc c hR

theorem scanNum_eta (st : NumSt) (s : List Char) :
    scanNum st s = ((scanNum st s).1, (scanNum st s).2.1, (scanNum st s).2.2) := rfl

theorem lexNumber_int (s R : List Char) (h : validInt s = true) (hR : numFollowOK R = true) :
    lexNumber (s ++ R) = some (.int (String.ofList s), R) := by
  simp only [validInt, Bool.and_eq_true, beq_iff_eq, Bool.or_eq_true, List.isEmpty_iff] at h
  obtain ⟨⟨h1, h2⟩, h3⟩ := h
  have hsc : scanNum .start s = ((scanNum .start s).1, s, []) := by
    conv => lhs; rw [scanNum_eta]
    rw [h1, h2]
  have := scanNum_valid s R _ hsc (by rcases h3 with h | h <;> simp [h]) hR
  unfold lexNumber
  rw [this]
  rcases h3 with h | h <;> simp [h, hR]

theorem lexNumber_float (s R : List Char) (h : validFloat s = true) (hR : numFollowOK R = true) :
    lexNumber (s ++ R) = some (.float (String.ofList s), R) := by
  simp only [validFloat, Bool.and_eq_true, beq_iff_eq, Bool.or_eq_true, List.isEmpty_iff] at h
  obtain ⟨⟨h1, h2⟩, h3⟩ := h
  have hsc : scanNum .start s = ((scanNum .start s).1, s, []) := by
    conv => lhs; rw [scanNum_eta]
    rw [h1, h2]
  have := scanNum_valid s R _ hsc (by rcases h3 with h | h <;> simp [h]) hR
  unfold lexNumber
  rw [this]
  rcases h3 with h | h <;> simp [h, hR]

/-- a valid number starts with `-` or a digit -/
theorem scanNum_head (s : List Char) (st' : NumSt) (hsc : scanNum .start s = (st', s, []))
    (hacc : st' ≠ .start) : ∃ c cs, s = c :: cs ∧ (c = '-' ∨ isDigit c = true) := by
  cases s with
  | nil => simp [scanNum] at hsc; exact absurd hsc.symm hacc
  | cons c cs =>
    refine ⟨c, cs, rfl, ?_⟩
    simp only [scanNum] at hsc
    cases hstep : numStep .start c with
    | none => simp [hstep] at hsc
    | some st1 =>
      simp only [numStep] at hstep
      by_cases h1 : c = '-'
      · left; exact h1
      · right
        by_cases h2 : c = '0'
        · subst h2; decide
        · by_cases h3 : isDigit c = true
          · exact h3
          · simp [h1, h2, h3] at hstep

theorem quotedRest_of_run (lit R : List Char) : ∀ (st : St) (v : List Char), quotedRun st lit = some v →
    quotedRest st (lit ++ R) = some (v, R) := by
  induction lit with
  | nil => intro st v h; simp [quotedRun] at h
  | cons c cs ih =>
    intro st v h
    simp only [quotedRun] at h
    simp only [List.cons_append, quotedRest]
    cases hstep : step st c with
    | fail => simp [hstep] at h
    | close =>
      simp only [hstep] at h
      cases cs with
      | nil => simp at h; subst h; rfl
      | cons d ds => simp at h
    | go out st' =>
      simp only [hstep, Option.map_eq_some_iff] at h
      obtain ⟨w, hw, rfl⟩ := h
      simp [ih st' w hw]

theorem blockRaw_some_length (X : List Char) : ∀ p, blockRaw X = some p → 3 ≤ X.length := by
  fun_induction blockRaw X with
  | case1 rest => intro p _; simp only [List.length_cons]; omega
  | case2 rest ih => intro p _; simp only [List.length_cons]; omega
  | case3 c rest h1 h2 hs ih =>
    intro p h
    simp only [Option.map_eq_some_iff] at h
    obtain ⟨q, hq, _⟩ := h
    have := ih q hq
    simp; omega
  | case4 => intro p h; simp at h
  | case5 => intro p h; simp at h

theorem doubleQ_append (X R : List Char) (h : 2 ≤ X.length) : doubleQ (X ++ R) = doubleQ X := by
  match X, h with
  | a :: b :: r, _ =>
    simp only [List.cons_append]
    unfold doubleQ
    split <;> split <;> simp_all

theorem tripleQ_append (X R : List Char) (h : 3 ≤ X.length) : tripleQ (X ++ R) = tripleQ X := by
  match X, h with
  | a :: b :: c :: r, _ =>
    simp only [List.cons_append]
    unfold tripleQ
    split <;> split <;> simp_all

theorem blockRaw_append (X R : List Char) : ∀ (raw r : List Char), blockRaw X = some (raw, r) →
    blockRaw (X ++ R) = some (raw, r ++ R) := by
  fun_induction blockRaw X with
  | case1 rest =>
    intro raw r h
    simp only [Option.some.injEq, Prod.mk.injEq] at h
    obtain ⟨rfl, rfl⟩ := h
    simp [blockRaw]
  | case2 rest ih =>
    intro raw r h
    simp only [Option.map_eq_some_iff] at h
    obtain ⟨⟨a, b⟩, hab, he⟩ := h
    simp only [Prod.mk.injEq] at he
    obtain ⟨rfl, rfl⟩ := he
    have := ih a b hab
    simp [blockRaw, this]
  | case3 c rest h1 h2 hs ih =>
    intro raw r h
    simp only [Option.map_eq_some_iff] at h
    obtain ⟨⟨a, b⟩, hab, he⟩ := h
    simp only [Prod.mk.injEq] at he
    obtain ⟨rfl, rfl⟩ := he
    have hrec := ih a b hab
    have hlen := blockRaw_some_length rest _ hab
    rw [List.cons_append]
    by_cases hq : c = '"'
    · subst hq
      have hd : doubleQ rest = false := by
        unfold doubleQ
        split
        · rename_i r' ; exact absurd rfl (fun e => h1 r' rfl e)
        · rfl
      rw [blockRaw_quote _ (by rw [doubleQ_append _ _ (by omega)]; exact hd), hrec]
      rfl
    · by_cases hb : c = '\\'
      · subst hb
        have ht : tripleQ rest = false := by
          unfold tripleQ
          split
          · rename_i r'; exact absurd rfl (fun e => h2 r' rfl e)
          · rfl
        rw [blockRaw_backslash _ (by rw [tripleQ_append _ _ hlen]; exact ht), hrec]
        rfl
      · rw [blockRaw_plain c _ hq hb hs, hrec]
        rfl
  | case4 => intro raw r h; simp at h
  | case5 => intro raw r h; simp at h

/-- a literal that is exactly one string token is also found as the first token of a longer text, provided the text
    does not go on with another `"` (the lookahead restriction of the empty string `""`) -/
theorem lexString_of_decode (lit R : List Char) (v : List Char) (h : decodeStringLiteral lit = some v)
    (hR : strFollowOK R = true) : ∃ cs, lit = '"' :: cs ∧ lexString (cs ++ R) = some (v, R) := by
  unfold decodeStringLiteral at h
  split at h
  · rename_i rest
    refine ⟨'"' :: '"' :: rest, rfl, ?_⟩
    cases hb : blockRaw rest with
    | none => simp [hb] at h
    | some p =>
      obtain ⟨raw, r⟩ := p
      cases r with
      | cons x xs => simp [hb] at h
      | nil =>
        simp only [hb, Option.some.injEq] at h
        subst h
        have := blockRaw_append rest R raw [] hb
        simp [lexString, this]
  · rename_i rest hne
    refine ⟨rest, rfl, ?_⟩
    have hq := quotedRest_of_run rest R .normal v h
    unfold lexString
    split
    · rename_i r heq
      -- rest ++ R starts with two quotes: then rest = ["\""] and R starts with a quote, or rest starts with two quotes
      cases rest with
      | nil => simp [quotedRun] at h
      | cons a as =>
        simp only [List.cons_append, List.cons.injEq] at heq
        obtain ⟨rfl, heq⟩ := heq
        cases as with
        | nil =>
          simp only [List.nil_append] at heq
          subst heq
          simp [strFollowOK] at hR
        | cons b bs =>
          simp only [List.cons_append, List.cons.injEq] at heq
          obtain ⟨rfl, _⟩ := heq
          cases bs with
          | nil => simp [quotedRun, step] at h
          | cons d ds =>
            exfalso
            simp [quotedRun, step] at h
    · exact hq
  · simp at h

end NitroVerif.C16
