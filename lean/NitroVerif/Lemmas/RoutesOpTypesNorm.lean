/-
C15: selection trees modulo the source positions inside leaf types (`normTree`), and the fact that merging
(`deep_merge.rs`) never looks at a leaf's type: it commutes with `normTree`.  The printed TypeScript type does not
depend on those positions (`toTs_normTree`).
-/
import NitroVerif.Lemmas.RoutesExcept
import NitroVerif.Model.OpTypes
namespace NitroVerif.Bridge
open NitroVerif NitroVerif.Gql NitroVerif.OpTypes

mutual
/-- the tree with the positions inside its leaf types erased -/
def normTree : SelTree → SelTree
  | .nonNull t => .nonNull (normTree t)
  | .list t => .list (normTree t)
  | .object bs => .object (normBranches bs)
def normBranches : List Branch → List Branch
  | [] => []
  | b :: bs => normBranch b :: normBranches bs
def normBranch : Branch → Branch
  | .mk n v u a => .mk n v (normFields u) (normFields a)
def normFields : List SField → List SField
  | [] => []
  | f :: fs => normField f :: normFields fs
def normField : SField → SField
  | .empty n => .empty n
  | .leaf n ty b => .leaf n ty.erasePos b
  | .object n sel => .object n (normTree sel)
end

theorem normBranches_eq (bs : List Branch) : normBranches bs = bs.map normBranch := by
  induction bs with
  | nil => rfl
  | cons b r ih => simp [normBranches, ih]

theorem normFields_eq (fs : List SField) : normFields fs = fs.map normField := by
  induction fs with
  | nil => rfl
  | cons b r ih => simp [normFields, ih]

@[simp] theorem normTree_object (bs : List Branch) : normTree (.object bs) = .object (bs.map normBranch) := by
  simp [normTree, normBranches_eq]

@[simp] theorem normBranch_mk (n : Name) (v : List (Name × Bool)) (u a : List SField) :
    normBranch (.mk n v u a) = .mk n v (u.map normField) (a.map normField) := by
  simp [normBranch, normFields_eq]

@[simp] theorem normField_name (f : SField) : (normField f).name = f.name := by
  cases f <;> rfl

@[simp] theorem normBranch_typeName (b : Branch) : (normBranch b).typeName = b.typeName := by
  cases b; simp [Branch.typeName]
@[simp] theorem normBranch_vars (b : Branch) : (normBranch b).vars = b.vars := by
  cases b; simp [Branch.vars]
@[simp] theorem normBranch_unaliased (b : Branch) : (normBranch b).unaliased = b.unaliased.map normField := by
  cases b; simp [Branch.unaliased]
@[simp] theorem normBranch_aliased (b : Branch) : (normBranch b).aliased = b.aliased.map normField := by
  cases b; simp [Branch.aliased]

/-! ### merging commutes with `normTree` -/

/-- `mt'` is `mt` on normalised trees -/
def MtComm (mt mt' : SelTree → SelTree → Except Panic SelTree) : Prop :=
  ∀ l r, mt' (normTree l) (normTree r) = (mt l r).map normTree

variable {mt mt' : SelTree → SelTree → Except Panic SelTree}

theorem mergeFieldsWith_comm (h : MtComm mt mt') (a b : SField) :
    mergeFieldsWith mt' (normField a) (normField b) = (mergeFieldsWith mt a b).map normField := by
  cases a <;> cases b <;> simp only [normField, mergeFieldsWith] <;> try rfl
  rename_i n l m r
  exact comm_bind (h l r) (fun x _ => rfl)

theorem mergeInto_comm (h : MtComm mt mt') (f : SField) : ∀ (gs : List SField),
    mergeInto mt' (normField f) (gs.map normField) = (mergeInto mt f gs).map (List.map normField)
  | [] => rfl
  | g :: gs => by
    simp only [List.map_cons, mergeInto, normField_name]
    split
    · exact comm_bind (mergeFieldsWith_comm h g f) (fun x _ => rfl)
    · exact comm_bind (mergeInto_comm h f gs) (fun x _ => rfl)

theorem any_name_norm (acc : List SField) (n : Name) :
    (acc.map normField).any (·.name == n) = acc.any (·.name == n) := by
  simp [List.any_map, Function.comp_def]

theorem deepMergeGo_comm (h : MtComm mt mt') : ∀ (fs acc : List SField),
    deepMergeGo mt' (fs.map normField) (acc.map normField) = (deepMergeGo mt fs acc).map (List.map normField)
  | [], acc => rfl
  | f :: fs, acc => by
    simp only [List.map_cons, deepMergeGo, normField_name, any_name_norm]
    split
    · exact comm_bind (mergeInto_comm h f acc) (fun x _ => deepMergeGo_comm h fs x)
    · have := deepMergeGo_comm h fs (acc ++ [f])
      simpa using this

theorem deepMergeWith_comm (h : MtComm mt mt') (fs : List SField) :
    deepMergeWith mt' (fs.map normField) = (deepMergeWith mt fs).map (List.map normField) :=
  deepMergeGo_comm h fs []

theorem filter_typeName_norm (right : List Branch) (p : Name → Bool) :
    (right.map normBranch).filter (fun b => p b.typeName) = (right.filter (fun b => p b.typeName)).map normBranch := by
  rw [List.filter_map]
  simp [Function.comp_def]

theorem mergeBranchesWith_comm (h : MtComm mt mt') (left right : List Branch) :
    mergeBranchesWith mt' (left.map normBranch) (right.map normBranch)
      = (mergeBranchesWith mt left right).map (List.map normBranch) := by
  unfold mergeBranchesWith
  refine comm_bind (g := List.map normBranch) (h := List.map (List.map normBranch))
    (comm_mapM (h := normBranch) (g := List.map normBranch) (fun lb _ => ?_)) (fun merged _ => ?_)
  · simp only [normBranch_typeName, normBranch_vars, normBranch_unaliased, normBranch_aliased]
    rw [filter_typeName_norm right (fun n => n == lb.typeName)]
    simp only [List.isEmpty_map]
    split
    · simp [Except.map]
    · refine comm_filterMapM (fun rb _ => ?_)
      simp only [normBranch_vars, normBranch_unaliased, normBranch_aliased]
      cases unifyVars lb.vars rb.vars with
      | none => rfl
      | some vars =>
        simp only [← List.map_append]
        refine comm_bind (deepMergeWith_comm h _) (fun u _ => ?_)
        refine comm_bind (deepMergeWith_comm h _) (fun a _ => ?_)
        simp [Except.map]
  · have hf : (right.map normBranch).filter (fun rb => !(left.map normBranch).any (·.typeName == rb.typeName))
        = (right.filter (fun rb => !left.any (·.typeName == rb.typeName))).map normBranch := by
      have := filter_typeName_norm right (fun n => !left.any (·.typeName == n))
      simpa [List.any_map, Function.comp_def] using this
    simp only [hf, Except.map, List.map_append, List.map_flatten]

theorem mergeTrees_comm : ∀ (fuel : Nat), MtComm (mergeTrees fuel) (mergeTrees fuel)
  | 0 => fun _ _ => rfl
  | fuel + 1 => by
    intro l r
    have ih := mergeTrees_comm fuel
    cases l <;> cases r <;> simp only [normTree, mergeTrees] <;> try rfl
    · exact comm_bind (ih _ _) (fun x _ => rfl)
    · exact comm_bind (ih _ _) (fun x _ => rfl)
    · rename_i bl br
      rw [normBranches_eq, normBranches_eq]
      exact comm_bind (mergeBranchesWith_comm ih bl br) (fun x _ => by simp [Except.map])

theorem deepMerge_comm (mfuel : Nat) (fs : List SField) :
    deepMerge mfuel (fs.map normField) = (deepMerge mfuel fs).map (List.map normField) :=
  deepMergeWith_comm (mergeTrees_comm mfuel) fs

/-- merging lists of fields that are equal after normalisation gives results that are equal after normalisation -/
theorem deepMerge_eqOn (mfuel : Nat) {fs₁ fs₂ : List SField} (h : fs₁.map normField = fs₂.map normField) :
    EqOn (List.map normField) (deepMerge mfuel fs₁) (deepMerge mfuel fs₂) := by
  unfold EqOn
  rw [← deepMerge_comm, ← deepMerge_comm, h]

/-! ### the printed type does not depend on the positions -/

mutual
theorem leafCore_erasePos (q : Name → Ts.Ty) : ∀ t : GType, leafCore q t.erasePos = leafCore q t
  | .named n p => rfl
  | .list t p => by simp only [GType.erasePos, leafCore, leafTs_erasePos q t]
  | .nonNull t => by simp only [GType.erasePos, leafCore, leafCore_erasePos q t]
theorem leafTs_erasePos (q : Name → Ts.Ty) : ∀ t : GType, leafTs q t.erasePos = leafTs q t
  | .named n p => rfl
  | .list t p => by simp only [GType.erasePos, leafTs, leafTs_erasePos q t]
  | .nonNull t => by simp only [GType.erasePos, leafTs, leafCore_erasePos q t]
end

mutual
theorem treeTs_norm (r : Refs) : ∀ (t : SelTree) (nn : Bool), treeTs r (normTree t) nn = treeTs r t nn
  | .nonNull t, nn => by simp only [normTree, treeTs, treeTs_norm r t]
  | .list t, nn => by simp only [normTree, treeTs, treeTs_norm r t]
  | .object bs, nn => by simp only [normTree, treeTs, branchesTs_norm r bs]
theorem branchesTs_norm (r : Refs) : ∀ bs : List Branch, branchesTs r (normBranches bs) = branchesTs r bs
  | [] => rfl
  | b :: bs => by simp only [normBranches, branchesTs, branchTs_norm r b, branchesTs_norm r bs]
theorem branchTs_norm (r : Refs) : ∀ b : Branch, branchTs r (normBranch b) = branchTs r b
  | .mk tn v un al => by simp only [normBranch, branchTs, fieldsTs_norm r tn un, fieldsTs_norm r tn al]
theorem fieldsTs_norm (r : Refs) (parent : Name) : ∀ fs : List SField, fieldsTs r parent (normFields fs) = fieldsTs r parent fs
  | [] => rfl
  | f :: fs => by simp only [normFields, fieldsTs, fieldTs_norm r parent f, fieldsTs_norm r parent fs]
theorem fieldTs_norm (r : Refs) (parent : Name) : ∀ f : SField, fieldTs r parent (normField f) = fieldTs r parent f
  | .empty n => rfl
  | .leaf n ty b => by simp only [normField, fieldTs, leafTs_erasePos]
  | .object n sel => by simp only [normField, fieldTs, treeTs_norm r sel]
end

theorem toTs_normTree (ns : String) (t : SelTree) : toTs ns (normTree t) = toTs ns t := treeTs_norm _ t false

end NitroVerif.Bridge
