/-
The bare `interface I` / `extend interface I` (helper lemmas for Props/C07, third stage). `ifaceDefT` / `ifaceExtT` exclude an
interface type definition / extension without interfaces, directives and fields, because `ImplementsInterfaces?` was shown to
fail only on a token that does not begin with `i` — and the next item of a document may be `interface …` or `input …`.
Here the condition is on the WORD: the text that follows does not begin with the letters `implements`
(`optImplT'`, `kw_fails_str`). Copies of `objPartsK`, `objExtPartsK`, `ifaceDefT`, `ifaceExtT`
(Lemmas/ParseDocTsDefC.lean, ParseDocTsExtC.lean) with that one change; the emptiness hypothesis disappears.
-/
import NitroVerif.Lemmas.ParseDocTsDoc
namespace NitroVerif.DocParse
open NitroVerif.Peg NitroVerif.Gen NitroVerif.Gen.Parts NitroVerif.Build NitroVerif.TypeParse NitroVerif.StringParse
open NitroVerif.Gql NitroVerif.ValueParse NitroVerif.Spec.Lex NitroVerif.ParseText

set_option linter.unusedSimpArgs false
set_option linter.unusedVariables false

variable {inp : List Char}

/-- `ImplementsInterfaces?`; if the list is empty the text that follows must not begin with the letters `implements` -/
theorem optImplT' (τ : Trivia) (hτ : ∀ q, Ws (τ q)) (ns : List (Name × Pos)) (hv : ∀ x ∈ ns, validName x.1.toList)
    {sep : Bool} {p : Nat} {bad : Char → Prop} (hb : bad '&') (hbi : ns = [] → matchStr kwImplements (inp.drop p) = none)
    (h : HasAt inp p (rOptImpl τ sep p ns))
    (hn : Nxt inp bad sep (p + (rOptImpl τ sep p ns).length)) :
    ∃ o : Option Pair, RunsK (B (rOptImpl τ sep p ns).length + 50) (.opt (.call R.ImplementsInterfaces)) (At inp p)
        (At inp (p + (rOptImpl τ sep p ns).length)) o.toList ∧ (∀ x ∈ o, PairOk R.ImplementsInterfaces p x) ∧
      optImplements (Ctx.spec inp) o = .ok (wpNames τ inp '&' sep (p + (tk τ true p kwImplements).length) ns) := by
  cases ns with
  | nil =>
    have hn' : Nxt inp bad sep p := by simpa [rOptImpl] using hn
    have hf := fails_rule look_ImplementsInterfaces (by decide) (by decide)
      (fails_seq_1 (kw_fails_str (la := .none) look_KEYWORD_implements (hbi rfl)))
    simp only [rOptImpl, List.length_nil, Nat.add_zero]
    exact ⟨none, (runsK_opt_none hf hn'.tok).mono (by barith), by simp, rfl⟩
  | cons n rest =>
    exact optImplT τ hτ (n :: rest) hv hb (fun h0 => by cases h0) h hn

theorem objPartsK' (τ : Trivia) (hτ : ∀ q, Ws (τ q)) {r : RuleId} {kw : List Char}
    (hl : gList.look r = some (.atomic, .seq (.str kw) (.not (.call R.NameContinue)))) (hkw : validName kw)
    (t : TypeDef) (hname : validName t.name.toList) (himpl : ∀ x ∈ t.implements, validName x.1.toList)
    (hdirs : WFDirs t.dirs) {sep : Bool} {p : Nat}
    (h : HasAt inp p (rObjDef τ kw sep p t)) (hn : Nxt inp tdBad sep (p + (rObjDef τ kw sep p t).length))
    (hni : t.implements = [] → t.dirs = [] → t.fields = [] →
      matchStr kwImplements (inp.drop (p + (rObjDef τ kw sep p t).length)) = none) :
    ∃ (oS oI oD : Option Pair) (p3 : Nat), p3 ≤ p + (rObjDef τ kw sep p t).length ∧ 1 ≤ p3 - p ∧
      HasAt inp p3 (rOptFields τ sep p3 t.fields) ∧ p3 + (rOptFields τ sep p3 t.fields).length = p + (rObjDef τ kw sep p t).length ∧
      (t.fields = [] → Tok (At inp p3) ∧ HeadNot (· = '{') (inp.drop p3)) ∧
      (∀ (T : Expr) (nT : Nat) (cE : Cur) (psT : List Pair), RunsK nT T (At inp p3) cE psT →
        RunsK (max nT (B (p3 - p) + 60) + 10)
          (.seq (.opt (.call R.Description)) (.seq (.call r) (.seq (.call R.Name) (.seq (.opt (.call R.ImplementsInterfaces))
            (.seq (.opt (.call R.Directives)) T))))) (At inp p) cE
          (slotPairs [oS, some (.mk r (dhOffK τ p t.desc) (dhOffK τ p t.desc + kw.length) []),
            some (.mk R.Name (dhOffN τ p t.desc kw) (dhOffN τ p t.desc kw + t.name.toList.length) []), oI, oD] ++ psT)) ∧
      (∀ (T : Expr) (nT : Nat), Fails gList nT true T .nonAtomic (At inp p3) →
        Fails gList (max nT (B (p3 - p) + 60) + 10) true
          (.seq (.opt (.call R.Description)) (.seq (.call r) (.seq (.call R.Name) (.seq (.opt (.call R.ImplementsInterfaces))
            (.seq (.opt (.call R.Directives)) T))))) .nonAtomic (At inp p)) ∧
      (t.dirs ≠ [] → ∃ prD, oD = some prD ∧ ∀ (T : Expr) (nT : Nat) (cE : Cur) (psT : List Pair), RunsK nT T (At inp p3) cE psT →
        RunsK (max nT (B (p3 - p) + 60) + 10)
          (.seq (.opt (.call R.Description)) (.seq (.call r) (.seq (.call R.Name) (.seq (.opt (.call R.ImplementsInterfaces))
            (.seq (.call R.Directives) T))))) (At inp p) cE
          (slotPairs [oS, some (.mk r (dhOffK τ p t.desc) (dhOffK τ p t.desc + kw.length) []),
            some (.mk R.Name (dhOffN τ p t.desc kw) (dhOffN τ p t.desc kw + t.name.toList.length) []), oI, oD] ++ psT)) ∧
      (∀ x ∈ oS, x.rule = R.Description ∧ CleanP x) ∧ optDesc (Ctx.spec inp) oS = .ok t.desc ∧
      HasAt inp (dhOffN τ p t.desc kw) t.name.toList ∧
      (∀ x ∈ oI, x.rule = R.ImplementsInterfaces ∧ CleanP x) ∧ (∀ x ∈ oD, x.rule = R.Directives ∧ CleanP x) ∧
      (∀ fuel, p3 - p ≤ fuel → optImplements (Ctx.spec inp) oI = .ok (wpObjDef τ inp .object kw sep p t).implements ∧
        optDirs (Ctx.spec inp) fuel oD = .ok (wpObjDef τ inp .object kw sep p t).dirs) ∧
      (wpObjDef τ inp .object kw sep p t).fields = wpFieldDefs τ inp (p3 + (tk τ false p3 ['{']).length) t.fields := by
  simp only [rObjDef, wpObjDef] at h hn hni ⊢
  generalize hsN : (!t.implements.isEmpty || (sep && t.fields.isEmpty && t.dirs.isEmpty)) = sN at *
  generalize hsI : (sep && t.fields.isEmpty && t.dirs.isEmpty) = sI at *
  generalize hsD : (sep && t.fields.isEmpty) = sD at *
  generalize hH : rDefHead τ sN p t.desc kw t.name = tH at *
  generalize hI : rOptImpl τ sI (p + tH.length) t.implements = tI at *
  generalize hD : rDirs τ sD (p + tH.length + tI.length) t.dirs = tD at *
  generalize hF : rOptFields τ sep (p + tH.length + tI.length + tD.length) t.fields = tF at *
  have hlen : p + (tH ++ (tI ++ (tD ++ tF))).length = p + tH.length + tI.length + tD.length + tF.length := by
    simp only [List.length_append]; omega
  rw [hlen] at hn hni ⊢
  have g0 : HasAt inp p tH := h.left
  have g1 : HasAt inp (p + tH.length) tI := h.right.left
  have g2 : HasAt inp (p + tH.length + tI.length) tD := h.right.right.left
  have g3 : HasAt inp (p + tH.length + tI.length + tD.length) tF := h.right.right.right
  have hlH : 1 ≤ tH.length := hH ▸ (hd_rDefHead τ sN p t.desc _ t.name hkw).length_pos
  -- what follows the directives / the interfaces / the name
  have n3 : Nxt inp (fun c => c = '@' ∨ c = '(' ∨ c = '&' ∨ (False ∧ t.dirs = [] ∧ c = 'i')) sD
      (p + tH.length + tI.length + tD.length) := by
    refine Nxt.rest' g3 hn (hF ▸ hd_rOptFields τ sep _ t.fields) (P := (· = '{')) ?_ ?_ ?_
    · rintro c rfl
      refine ⟨by decide, ?_, by decide⟩
      rintro (h | h | h | ⟨_, _, h⟩) <;> exact absurd h (by decide)
    · intro ht c hc
      have hf0 : t.fields = [] := rOptFields_eq_nil (hF.trans ht)
      rcases hc with h | h | h | ⟨h1, h2, _⟩
      · exact Or.inl h
      · exact Or.inr (Or.inl h)
      · exact Or.inr (Or.inr (Or.inr (Or.inl h)))
      · exact h1.elim
    · intro ht hs
      have : t.fields = [] := rOptFields_eq_nil (hF.trans ht)
      rw [← hsD, this] at hs
      simpa using hs
  have n2 : Nxt inp (fun c => c = '&' ∨ (False ∧ c = 'i')) sI (p + tH.length + tI.length) := by
    refine Nxt.rest' g2 n3 (hD ▸ hd_rDirs τ sD _ t.dirs) (P := (· = '@')) ?_ ?_ ?_
    · rintro c rfl
      refine ⟨by decide, ?_, by decide⟩
      rintro (h | ⟨_, h⟩) <;> exact absurd h (by decide)
    · intro ht c hc
      have hd0 : t.dirs = [] := rDirs_eq_nil (hD.trans ht)
      rcases hc with h | ⟨h1, h2⟩
      · exact Or.inr (Or.inr (Or.inl h))
      · exact Or.inr (Or.inr (Or.inr ⟨h1, hd0, h2⟩))
    · intro ht hs
      have hd0 : t.dirs = [] := rDirs_eq_nil (hD.trans ht)
      rw [← hsI, hd0] at hs
      simpa using hs
  have n1 : Nxt inp (fun _ => False) sN (p + tH.length) := by
    cases him : t.implements with
    | nil =>
      have htI : tI = [] := by rw [← hI, him]; rfl
      have hsn : sN = sI := by rw [← hsN, him]; simp
      subst htI
      rw [hsn]
      have : Nxt inp (fun c => c = '&' ∨ (False ∧ c = 'i')) sI (p + tH.length) := by simpa using n2
      exact ⟨this.tok, fun _ _ _ h => h, this.glue⟩
    | cons n ns =>
      have hsn : sN = true := by rw [← hsN, him]; simp
      rw [hsn]
      have hdI : Hd (· = 'i') tI := by
        rw [← hI, him]
        exact Hd.append (hd_tk (P := (· = 'i')) (hd_cons _ rfl)) _
      exact Nxt.of_hd_sep g1 hdI (by rintro c rfl; exact ⟨by decide, id⟩)
  obtain ⟨oS, hrun, hfail, hokS, hbS, hnm⟩ := defHeadK hτ hl hkw t.desc t.name hname (hH ▸ g0) (by rw [hH]; exact n1)
  rw [hH] at hrun hfail
  have himp0 : t.implements = [] → matchStr kwImplements (inp.drop (p + tH.length)) = none := by
    intro hi0
    have htI : tI = [] := by rw [← hI, hi0]; rfl
    subst htI
    by_cases hd0 : t.dirs = []
    · have htD : tD = [] := by rw [← hD, hd0]; rfl
      subst htD
      by_cases hf0 : t.fields = []
      · have htF : tF = [] := by rw [← hF, hf0]; rfl
        subst htF
        simpa using hni hi0 hd0 hf0
      · have hdF : Hd (· = '{') tF := by
          rcases (hF ▸ hd_rOptFields τ sep _ t.fields : tF = [] ∨ Hd (· = '{') tF) with h0 | h0
          · exact absurd (rOptFields_eq_nil (hF.trans h0)) hf0
          · exact h0
        have g3' : HasAt inp (p + tH.length) tF := by simpa using g3
        exact matchStr_none_of_head (headNot_of_hd g3' hdF (by rintro c rfl; decide))
    · have hdD : Hd (· = '@') tD := by
        rcases (hD ▸ hd_rDirs τ sD _ t.dirs : tD = [] ∨ Hd (· = '@') tD) with h0 | h0
        · exact absurd (rDirs_eq_nil (hD.trans h0)) hd0
        · exact h0
      have g2' : HasAt inp (p + tH.length) tD := by simpa using g2
      exact matchStr_none_of_head (headNot_of_hd g2' hdD (by rintro c rfl; decide))
  obtain ⟨oI, rI, hokI, hbI⟩ := optImplT' τ hτ t.implements himpl
    (bad := fun c => c = '&' ∨ (False ∧ c = 'i')) (Or.inl rfl) himp0
    (hI ▸ g1) (by rw [hI]; exact n2)
  rw [hI] at rI
  -- the directives: optional form, and — if there are any — the plain form with the same pair
  have hdirsK : ∃ oD : Option Pair,
      RunsK (B tD.length + 21) (.opt (.call R.Directives)) (At inp (p + tH.length + tI.length))
        (At inp (p + tH.length + tI.length + tD.length)) oD.toList ∧
      (∀ x ∈ oD, PairOk R.Directives (p + tH.length + tI.length) x) ∧
      (∀ fuel, tD.length ≤ fuel → optDirs (Ctx.spec inp) fuel oD = .ok (wpDirs τ inp sD (p + tH.length + tI.length) t.dirs)) ∧
      (t.dirs ≠ [] → ∃ prD, oD = some prD ∧ RunsK (B tD.length + 21) (.call R.Directives) (At inp (p + tH.length + tI.length))
        (At inp (p + tH.length + tI.length + tD.length)) [prD]) := by
    by_cases hd : t.dirs = []
    · obtain ⟨oD, rD, hokD, _, hbD⟩ := optDirsT τ hτ t.dirs hdirs
        (bad := fun c => c = '@' ∨ c = '(' ∨ c = '&' ∨ (False ∧ t.dirs = [] ∧ c = 'i')) (Or.inr (Or.inl rfl))
        (Or.inl rfl) (hD ▸ g2) (by rw [hD]; exact n3)
      rw [hD] at rD hbD
      exact ⟨oD, rD, hokD, hbD, fun h => absurd hd h⟩
    · obtain ⟨prD, rD', hokD', hbD'⟩ := dirsT τ hτ t.dirs hd hdirs
        (bad := fun c => c = '@' ∨ c = '(' ∨ c = '&' ∨ (False ∧ t.dirs = [] ∧ c = 'i')) (Or.inr (Or.inl rfl))
        (Or.inl rfl) (hD ▸ g2) (by rw [hD]; exact n3)
      rw [hD] at rD' hbD'
      refine ⟨some prD, (runsK_opt_some rD').mono (by omega), ?_, ?_, fun _ => ⟨prD, rfl, rD'.mono (by omega)⟩⟩
      · intro x hx; cases hx; exact hokD'
      · intro fuel hf; simpa [optDirs] using hbD' fuel hf
  obtain ⟨oD, rD, hokD, hbD, hreq⟩ := hdirsK
  refine ⟨oS, oI, oD, p + tH.length + tI.length + tD.length, by omega, by omega, hF ▸ g3, by rw [hF], ?_, ?_, ?_, ?_,
    hokS, hbS, hnm, fun x hx => ⟨(hokI x hx).rule, (hokI x hx).clean⟩, fun x hx => ⟨(hokD x hx).rule, (hokD x hx).clean⟩,
    ?_, rfl⟩
  · intro hf0
    have htF : tF = [] := by rw [← hF, hf0]; rfl
    subst htF
    have hn' : Nxt inp tdBad sep (p + tH.length + tI.length + tD.length) := by simpa using hn
    exact ⟨hn'.tok, headNot_mono (fun c (hc : c = '{') => Or.inr (Or.inr (Or.inl hc))) hn'.ok⟩
  · intro T nT cE psT hT
    have := hrun _ _ _ _ (runsK_seq rI (runsK_seq rD hT))
    refine RunsK.cast (this.mono ?_) rfl rfl (by simp [slotPairs])
    have e : p + tH.length + tI.length + tD.length - p = tH.length + tI.length + tD.length := by omega
    rw [e]; barith
  · intro T nT hT
    refine (hfail _ _ (fails_seq_K rI (fails_seq_K rD hT))).mono ?_
    have e : p + tH.length + tI.length + tD.length - p = tH.length + tI.length + tD.length := by omega
    rw [e]; barith
  · intro hd
    obtain ⟨prD, hoD, rD'⟩ := hreq hd
    refine ⟨prD, hoD, ?_⟩
    intro T nT cE psT hT
    have := hrun _ _ _ _ (runsK_seq rI (runsK_seq rD' hT))
    refine RunsK.cast (this.mono ?_) rfl rfl (by simp [slotPairs, hoD])
    have e : p + tH.length + tI.length + tD.length - p = tH.length + tI.length + tD.length := by omega
    rw [e]; barith
  · intro fuel hf
    exact ⟨hbI, hbD fuel (by omega)⟩



theorem ifaceDefT' (τ : Trivia) (hτ : ∀ q, Ws (τ q)) (t : TypeDef) (hname : validName t.name.toList)
    (himpl : ∀ x ∈ t.implements, validName x.1.toList) (hdirs : WFDirs t.dirs) (hfields : ∀ f ∈ t.fields, WFFieldDef f)
    {sep : Bool} {p : Nat} (h : HasAt inp p (rObjDef τ (kindKw .interface) sep p t))
    (hn : Nxt inp tdBad sep (p + (rObjDef τ (kindKw .interface) sep p t).length))
    (hni : t.implements = [] → t.dirs = [] → t.fields = [] →
      matchStr kwImplements (inp.drop (p + (rObjDef τ (kindKw .interface) sep p t).length)) = none) :
    KindDefOk inp R.InterfaceTypeDefinition p (rObjDef τ (kindKw .interface) sep p t)
      (wpObjDef τ inp .interface (kindKw .interface) sep p t) := by
  unfold KindDefOk
  obtain ⟨oS, oI, oD, p3, hp3, hp31, gF, hpe, hnof, hrun, hfail, hreq, hokS, hbS, hnm, hokI, hokD, hb, hfe⟩ :=
    objPartsK' τ hτ (look_kindKw .interface) (kindKw_valid .interface) t hname himpl hdirs h hn hni
  generalize hL : (rObjDef τ (kindKw .interface) sep p t).length = L at *
  have hname' := hnm.slice
  cases hfs : t.fields with
  | nil =>
    obtain ⟨htok, hbr⟩ := hnof hfs
    have hrun2 := hrun
    have hp3e : p3 = p + L := by rw [hfs] at hpe; simpa [rOptFields] using hpe
    have f1 := hfail _ _ (fieldsDef_fails hbr)
    have r2 := hrun2 _ _ _ _ (notBraceK htok hbr)
    obtain ⟨e, rR⟩ := runsK_rule look_InterfaceTypeDefinition (by decide) (by decide) (runsK_choice_r f1 r2)
    rw [slotPairs5_nil] at rR
    refine ⟨_, RunsK.cast (rR.mono ?_) rfl (by rw [hp3e]) rfl, ?_, ?_⟩
    · rw [hp3e]
      have : p + L - p = L := by omega
      rw [this]; barith
    · refine pairOk_mk (by decide) (by decide) ?_
      simp only [slotPairs, cleanL_append, cleanL_cons, cleanL_nil, and_true, Option.toList_some, Option.toList_none]
      exact ⟨clean_opt (fun x hx => (hokS x hx).2), cleanP_of (by decide) (by decide) trivial,
        cleanP_of (by decide) (by decide) trivial, clean_opt (fun x hx => (hokI x hx).2),
        clean_opt (fun x hx => (hokD x hx).2)⟩
    · intro fuel hf e'
      obtain ⟨hbI, hbD⟩ := hb fuel (by omega)
      have hm := matchParts_slots P_InterfaceTypeDefinition _ p_interface_nodup
        (show slotsOk P_InterfaceTypeDefinition [oS, some (Pair.mk (kindKwRule .interface) (dhOffK τ p t.desc)
            (dhOffK τ p t.desc + (kindKw .interface).length) []), some (Pair.mk R.Name (dhOffN τ p t.desc (kindKw .interface))
              (dhOffN τ p t.desc (kindKw .interface) + t.name.toList.length) []), oI, oD, none] from
          ⟨fun x hx => (hokS x hx).1, ⟨_, rfl, rfl⟩, ⟨_, rfl, rfl⟩, fun x hx => (hokI x hx).1, fun x hx => (hokD x hx).1,
            (fun x hx => by cases hx), trivial⟩)
      simp only [wpObjDef] at hbI hbD hfe ⊢
      simp [buildTypeDefinition, onlyChildOf, onlyChild, Pair.children, OC_TypeDefinition, Pair.rule, hm, hbS, hbI, hbD,
        hfs, optFields, wpFieldDefs, mapItems, asString_spec', toPos_spec', Pair.start, Pair.stop, hname', At, bind,
        Except.bind, R.ScalarTypeDefinition, R.ObjectTypeDefinition, R.InterfaceTypeDefinition]
  | cons a r =>
    rw [hfs] at gF hpe hfields hfe
    have htokE : Tok (At inp (p3 + (rOptFields τ sep p3 (a :: r)).length)) := by rw [hpe]; exact hn.tok
    obtain ⟨prF, rF, hokF, hbF⟩ := fieldsT τ hτ a r hfields gF htokE
    have r1 := hrun _ _ _ _ rF
    obtain ⟨e, rR⟩ := runsK_rule look_InterfaceTypeDefinition (by decide) (by decide) (runsK_choice_l r1)
    rw [slotPairs5_one] at rR
    have hlF : (rOptFields τ sep p3 (a :: r)).length = p + L - p3 := by omega
    have hlF1 := (hd_rBraced (rFieldDef τ) true τ '{' '}' sep p3 (a :: r)).length_pos
    simp only [rOptFields] at hlF
    have e1 : B (rBraced (rFieldDef τ) true τ '{' '}' sep p3 (a :: r)).length + 45 ≤ B L + 45 := by simp only [B]; omega
    have e2 : B (p3 - p) + 60 ≤ B L := by simp only [B]; omega
    refine ⟨_, RunsK.cast (rR.mono ?_) rfl (by rw [hpe]) rfl, ?_, ?_⟩
    · simp only [rOptFields]; omega
    · refine pairOk_mk (by decide) (by decide) ?_
      simp only [slotPairs, cleanL_append, cleanL_cons, cleanL_nil, and_true, Option.toList_some, Option.toList_none]
      exact ⟨clean_opt (fun x hx => (hokS x hx).2), cleanP_of (by decide) (by decide) trivial,
        cleanP_of (by decide) (by decide) trivial, clean_opt (fun x hx => (hokI x hx).2),
        clean_opt (fun x hx => (hokD x hx).2), hokF.clean⟩
    · intro fuel hf e'
      obtain ⟨hbI, hbD⟩ := hb fuel (by omega)
      have hbF' := hbF fuel (by omega)
      have hm := matchParts_slots P_InterfaceTypeDefinition _ p_interface_nodup
        (show slotsOk P_InterfaceTypeDefinition [oS, some (Pair.mk (kindKwRule .interface) (dhOffK τ p t.desc)
            (dhOffK τ p t.desc + (kindKw .interface).length) []), some (Pair.mk R.Name (dhOffN τ p t.desc (kindKw .interface))
              (dhOffN τ p t.desc (kindKw .interface) + t.name.toList.length) []), oI, oD, some prF] from
          ⟨fun x hx => (hokS x hx).1, ⟨_, rfl, rfl⟩, ⟨_, rfl, rfl⟩, fun x hx => (hokI x hx).1, fun x hx => (hokD x hx).1,
            (fun x hx => by cases hx; exact hokF.rule), trivial⟩)
      simp only [wpObjDef] at hbI hbD hfe ⊢
      simp [hfs] at hfe hbI hbD
      simp [buildTypeDefinition, onlyChildOf, onlyChild, Pair.children, OC_TypeDefinition, Pair.rule, hm, hbS, hbI, hbD,
        hbF', hfe, hfs, asString_spec', toPos_spec', Pair.start, Pair.stop, hname', At, bind,
        Except.bind, R.ScalarTypeDefinition, R.ObjectTypeDefinition, R.InterfaceTypeDefinition]


theorem objExtPartsK' (τ : Trivia) (hτ : ∀ q, Ws (τ q)) {r : RuleId} {kw : List Char}
    (hl : gList.look r = some (.atomic, .seq (.str kw) (.not (.call R.NameContinue)))) (hkw : validName kw)
    (t : TypeDef) (hname : validName t.name.toList) (himpl : ∀ x ∈ t.implements, validName x.1.toList)
    (hdirs : WFDirs t.dirs) {sep : Bool} {p : Nat}
    (h : HasAt inp p (rObjExt τ kw sep p t)) (hn : Nxt inp tdBad sep (p + (rObjExt τ kw sep p t).length))
    (hni : t.implements = [] → t.dirs = [] → t.fields = [] →
      matchStr kwImplements (inp.drop (p + (rObjExt τ kw sep p t).length)) = none) :
    ∃ (oI oD : Option Pair) (p3 : Nat), p3 ≤ p + (rObjExt τ kw sep p t).length ∧ 1 ≤ p3 - p ∧
      HasAt inp p3 (rOptFields τ sep p3 t.fields) ∧ p3 + (rOptFields τ sep p3 t.fields).length = p + (rObjExt τ kw sep p t).length ∧
      (t.fields = [] → Tok (At inp p3) ∧ HeadNot (· = '{') (inp.drop p3)) ∧
      (∀ (T : Expr) (nT : Nat) (cE : Cur) (psT : List Pair), RunsK nT T (At inp p3) cE psT →
        RunsK (max nT (B (p3 - p) + 60) + 10)
          (.seq (.call R.KEYWORD_extend) (.seq (.call r) (.seq (.call R.Name) (.seq (.opt (.call R.ImplementsInterfaces))
            (.seq (.opt (.call R.Directives)) T))))) (At inp p) cE
          (slotPairs [some (Pair.mk R.KEYWORD_extend p (p + kwExtend.length) []), some (.mk r (ehOffK τ p) (ehOffK τ p + kw.length) []),
            some (.mk R.Name (ehOffN τ p kw) (ehOffN τ p kw + t.name.toList.length) []), oI, oD] ++ psT)) ∧
      (∀ (T : Expr) (nT : Nat), Fails gList nT true T .nonAtomic (At inp p3) →
        Fails gList (max nT (B (p3 - p) + 60) + 10) true
          (.seq (.call R.KEYWORD_extend) (.seq (.call r) (.seq (.call R.Name) (.seq (.opt (.call R.ImplementsInterfaces))
            (.seq (.opt (.call R.Directives)) T))))) .nonAtomic (At inp p)) ∧
      (t.dirs ≠ [] → ∃ prD, oD = some prD ∧ ∀ (T : Expr) (nT : Nat) (cE : Cur) (psT : List Pair), RunsK nT T (At inp p3) cE psT →
        RunsK (max nT (B (p3 - p) + 60) + 10)
          (.seq (.call R.KEYWORD_extend) (.seq (.call r) (.seq (.call R.Name) (.seq (.opt (.call R.ImplementsInterfaces))
            (.seq (.call R.Directives) T))))) (At inp p) cE
          (slotPairs [some (Pair.mk R.KEYWORD_extend p (p + kwExtend.length) []), some (.mk r (ehOffK τ p) (ehOffK τ p + kw.length) []),
            some (.mk R.Name (ehOffN τ p kw) (ehOffN τ p kw + t.name.toList.length) []), oI, oD] ++ psT)) ∧
      HasAt inp (ehOffN τ p kw) t.name.toList ∧
      (∀ x ∈ oI, x.rule = R.ImplementsInterfaces ∧ CleanP x) ∧ (∀ x ∈ oD, x.rule = R.Directives ∧ CleanP x) ∧
      (∀ fuel, p3 - p ≤ fuel → optImplements (Ctx.spec inp) oI = .ok (wpObjExt τ inp .object kw sep p t).implements ∧
        optDirs (Ctx.spec inp) fuel oD = .ok (wpObjExt τ inp .object kw sep p t).dirs) ∧
      (wpObjExt τ inp .object kw sep p t).fields = wpFieldDefs τ inp (p3 + (tk τ false p3 ['{']).length) t.fields := by
  simp only [rObjExt, wpObjExt] at h hn hni ⊢
  generalize hsN : (!t.implements.isEmpty || (sep && t.fields.isEmpty && t.dirs.isEmpty)) = sN at *
  generalize hsI : (sep && t.fields.isEmpty && t.dirs.isEmpty) = sI at *
  generalize hsD : (sep && t.fields.isEmpty) = sD at *
  generalize hH : rExtHead τ sN p kw t.name = tH at *
  generalize hI : rOptImpl τ sI (p + tH.length) t.implements = tI at *
  generalize hD : rDirs τ sD (p + tH.length + tI.length) t.dirs = tD at *
  generalize hF : rOptFields τ sep (p + tH.length + tI.length + tD.length) t.fields = tF at *
  have hlen : p + (tH ++ (tI ++ (tD ++ tF))).length = p + tH.length + tI.length + tD.length + tF.length := by
    simp only [List.length_append]; omega
  rw [hlen] at hn hni ⊢
  have g0 : HasAt inp p tH := h.left
  have g1 : HasAt inp (p + tH.length) tI := h.right.left
  have g2 : HasAt inp (p + tH.length + tI.length) tD := h.right.right.left
  have g3 : HasAt inp (p + tH.length + tI.length + tD.length) tF := h.right.right.right
  have hlH : 1 ≤ tH.length := hH ▸ (hd_rExtHead τ sN p _ t.name).length_pos
  -- what follows the directives / the interfaces / the name
  have n3 : Nxt inp (fun c => c = '@' ∨ c = '(' ∨ c = '&' ∨ (False ∧ t.dirs = [] ∧ c = 'i')) sD
      (p + tH.length + tI.length + tD.length) := by
    refine Nxt.rest' g3 hn (hF ▸ hd_rOptFields τ sep _ t.fields) (P := (· = '{')) ?_ ?_ ?_
    · rintro c rfl
      refine ⟨by decide, ?_, by decide⟩
      rintro (h | h | h | ⟨_, _, h⟩) <;> exact absurd h (by decide)
    · intro ht c hc
      have hf0 : t.fields = [] := rOptFields_eq_nil (hF.trans ht)
      rcases hc with h | h | h | ⟨h1, h2, _⟩
      · exact Or.inl h
      · exact Or.inr (Or.inl h)
      · exact Or.inr (Or.inr (Or.inr (Or.inl h)))
      · exact h1.elim
    · intro ht hs
      have : t.fields = [] := rOptFields_eq_nil (hF.trans ht)
      rw [← hsD, this] at hs
      simpa using hs
  have n2 : Nxt inp (fun c => c = '&' ∨ (False ∧ c = 'i')) sI (p + tH.length + tI.length) := by
    refine Nxt.rest' g2 n3 (hD ▸ hd_rDirs τ sD _ t.dirs) (P := (· = '@')) ?_ ?_ ?_
    · rintro c rfl
      refine ⟨by decide, ?_, by decide⟩
      rintro (h | ⟨_, h⟩) <;> exact absurd h (by decide)
    · intro ht c hc
      have hd0 : t.dirs = [] := rDirs_eq_nil (hD.trans ht)
      rcases hc with h | ⟨h1, h2⟩
      · exact Or.inr (Or.inr (Or.inl h))
      · exact Or.inr (Or.inr (Or.inr ⟨h1, hd0, h2⟩))
    · intro ht hs
      have hd0 : t.dirs = [] := rDirs_eq_nil (hD.trans ht)
      rw [← hsI, hd0] at hs
      simpa using hs
  have n1 : Nxt inp (fun _ => False) sN (p + tH.length) := by
    cases him : t.implements with
    | nil =>
      have htI : tI = [] := by rw [← hI, him]; rfl
      have hsn : sN = sI := by rw [← hsN, him]; simp
      subst htI
      rw [hsn]
      have : Nxt inp (fun c => c = '&' ∨ (False ∧ c = 'i')) sI (p + tH.length) := by simpa using n2
      exact ⟨this.tok, fun _ _ _ h => h, this.glue⟩
    | cons n ns =>
      have hsn : sN = true := by rw [← hsN, him]; simp
      rw [hsn]
      have hdI : Hd (· = 'i') tI := by
        rw [← hI, him]
        exact Hd.append (hd_tk (P := (· = 'i')) (hd_cons _ rfl)) _
      exact Nxt.of_hd_sep g1 hdI (by rintro c rfl; exact ⟨by decide, id⟩)
  obtain ⟨hrun, hfail, hnm⟩ := extHeadK hτ hl hkw t.name hname (hH ▸ g0) (by rw [hH]; exact n1)
  rw [hH] at hrun hfail
  have himp0 : t.implements = [] → matchStr kwImplements (inp.drop (p + tH.length)) = none := by
    intro hi0
    have htI : tI = [] := by rw [← hI, hi0]; rfl
    subst htI
    by_cases hd0 : t.dirs = []
    · have htD : tD = [] := by rw [← hD, hd0]; rfl
      subst htD
      by_cases hf0 : t.fields = []
      · have htF : tF = [] := by rw [← hF, hf0]; rfl
        subst htF
        simpa using hni hi0 hd0 hf0
      · have hdF : Hd (· = '{') tF := by
          rcases (hF ▸ hd_rOptFields τ sep _ t.fields : tF = [] ∨ Hd (· = '{') tF) with h0 | h0
          · exact absurd (rOptFields_eq_nil (hF.trans h0)) hf0
          · exact h0
        have g3' : HasAt inp (p + tH.length) tF := by simpa using g3
        exact matchStr_none_of_head (headNot_of_hd g3' hdF (by rintro c rfl; decide))
    · have hdD : Hd (· = '@') tD := by
        rcases (hD ▸ hd_rDirs τ sD _ t.dirs : tD = [] ∨ Hd (· = '@') tD) with h0 | h0
        · exact absurd (rDirs_eq_nil (hD.trans h0)) hd0
        · exact h0
      have g2' : HasAt inp (p + tH.length) tD := by simpa using g2
      exact matchStr_none_of_head (headNot_of_hd g2' hdD (by rintro c rfl; decide))
  obtain ⟨oI, rI, hokI, hbI⟩ := optImplT' τ hτ t.implements himpl
    (bad := fun c => c = '&' ∨ (False ∧ c = 'i')) (Or.inl rfl) himp0
    (hI ▸ g1) (by rw [hI]; exact n2)
  rw [hI] at rI
  -- the directives: optional form, and — if there are any — the plain form with the same pair
  have hdirsK : ∃ oD : Option Pair,
      RunsK (B tD.length + 21) (.opt (.call R.Directives)) (At inp (p + tH.length + tI.length))
        (At inp (p + tH.length + tI.length + tD.length)) oD.toList ∧
      (∀ x ∈ oD, PairOk R.Directives (p + tH.length + tI.length) x) ∧
      (∀ fuel, tD.length ≤ fuel → optDirs (Ctx.spec inp) fuel oD = .ok (wpDirs τ inp sD (p + tH.length + tI.length) t.dirs)) ∧
      (t.dirs ≠ [] → ∃ prD, oD = some prD ∧ RunsK (B tD.length + 21) (.call R.Directives) (At inp (p + tH.length + tI.length))
        (At inp (p + tH.length + tI.length + tD.length)) [prD]) := by
    by_cases hd : t.dirs = []
    · obtain ⟨oD, rD, hokD, _, hbD⟩ := optDirsT τ hτ t.dirs hdirs
        (bad := fun c => c = '@' ∨ c = '(' ∨ c = '&' ∨ (False ∧ t.dirs = [] ∧ c = 'i')) (Or.inr (Or.inl rfl))
        (Or.inl rfl) (hD ▸ g2) (by rw [hD]; exact n3)
      rw [hD] at rD hbD
      exact ⟨oD, rD, hokD, hbD, fun h => absurd hd h⟩
    · obtain ⟨prD, rD', hokD', hbD'⟩ := dirsT τ hτ t.dirs hd hdirs
        (bad := fun c => c = '@' ∨ c = '(' ∨ c = '&' ∨ (False ∧ t.dirs = [] ∧ c = 'i')) (Or.inr (Or.inl rfl))
        (Or.inl rfl) (hD ▸ g2) (by rw [hD]; exact n3)
      rw [hD] at rD' hbD'
      refine ⟨some prD, (runsK_opt_some rD').mono (by omega), ?_, ?_, fun _ => ⟨prD, rfl, rD'.mono (by omega)⟩⟩
      · intro x hx; cases hx; exact hokD'
      · intro fuel hf; simpa [optDirs] using hbD' fuel hf
  obtain ⟨oD, rD, hokD, hbD, hreq⟩ := hdirsK
  refine ⟨oI, oD, p + tH.length + tI.length + tD.length, by omega, by omega, hF ▸ g3, by rw [hF], ?_, ?_, ?_, ?_,
    hnm, fun x hx => ⟨(hokI x hx).rule, (hokI x hx).clean⟩, fun x hx => ⟨(hokD x hx).rule, (hokD x hx).clean⟩,
    ?_, rfl⟩
  · intro hf0
    have htF : tF = [] := by rw [← hF, hf0]; rfl
    subst htF
    have hn' : Nxt inp tdBad sep (p + tH.length + tI.length + tD.length) := by simpa using hn
    exact ⟨hn'.tok, headNot_mono (fun c (hc : c = '{') => Or.inr (Or.inr (Or.inl hc))) hn'.ok⟩
  · intro T nT cE psT hT
    have := hrun _ _ _ _ (runsK_seq rI (runsK_seq rD hT))
    refine RunsK.cast (this.mono ?_) rfl rfl (by simp [slotPairs])
    have e : p + tH.length + tI.length + tD.length - p = tH.length + tI.length + tD.length := by omega
    rw [e]; barith
  · intro T nT hT
    refine (hfail _ _ (fails_seq_K rI (fails_seq_K rD hT))).mono ?_
    have e : p + tH.length + tI.length + tD.length - p = tH.length + tI.length + tD.length := by omega
    rw [e]; barith
  · intro hd
    obtain ⟨prD, hoD, rD'⟩ := hreq hd
    refine ⟨prD, hoD, ?_⟩
    intro T nT cE psT hT
    have := hrun _ _ _ _ (runsK_seq rI (runsK_seq rD' hT))
    refine RunsK.cast (this.mono ?_) rfl rfl (by simp [slotPairs, hoD])
    have e : p + tH.length + tI.length + tD.length - p = tH.length + tI.length + tD.length := by omega
    rw [e]; barith
  · intro fuel hf
    exact ⟨hbI, hbD fuel (by omega)⟩



theorem ifaceExtT' (τ : Trivia) (hτ : ∀ q, Ws (τ q)) (t : TypeDef) (hname : validName t.name.toList)
    (himpl : ∀ x ∈ t.implements, validName x.1.toList) (hdirs : WFDirs t.dirs) (hfields : ∀ f ∈ t.fields, WFFieldDef f)
    {sep : Bool} {p : Nat} (h : HasAt inp p (rObjExt τ (kindKw .interface) sep p t))
    (hn : Nxt inp tdBad sep (p + (rObjExt τ (kindKw .interface) sep p t).length))
    (hni : t.implements = [] → t.dirs = [] → t.fields = [] →
      matchStr kwImplements (inp.drop (p + (rObjExt τ (kindKw .interface) sep p t).length)) = none) :
    KindExtOk inp R.InterfaceTypeExtension p (rObjExt τ (kindKw .interface) sep p t)
      (wpObjExt τ inp .interface (kindKw .interface) sep p t) := by
  unfold KindExtOk
  obtain ⟨oI, oD, p3, hp3, hp31, gF, hpe, hnof, hrun, hfail, hreq, hnm, hokI, hokD, hb, hfe⟩ :=
    objExtPartsK' τ hτ (look_kindKw .interface) (kindKw_valid .interface) t hname himpl hdirs h hn hni
  generalize hL : (rObjExt τ (kindKw .interface) sep p t).length = L at *
  have hname' := hnm.slice
  cases hfs : t.fields with
  | nil =>
    obtain ⟨htok, hbr⟩ := hnof hfs
    have hrun2 := hrun
    have hp3e : p3 = p + L := by rw [hfs] at hpe; simpa [rOptFields] using hpe
    have f1 := hfail _ _ (fieldsDef_fails hbr)
    have r2 := hrun2 _ _ _ _ (notBraceK htok hbr)
    obtain ⟨e, rR⟩ := runsK_rule look_InterfaceTypeExtension' (by decide) (by decide) (runsK_choice_r f1 (runsK_choice_l r2))
    rw [slotPairs5e_nil] at rR
    refine ⟨_, RunsK.cast (rR.mono ?_) rfl (by rw [hp3e]) rfl, ?_, ?_⟩
    · rw [hp3e]
      have : p + L - p = L := by omega
      rw [this]; barith
    · refine pairOk_mk (by decide) (by decide) ?_
      simp only [slotPairs, cleanL_append, cleanL_cons, cleanL_nil, and_true, Option.toList_some, Option.toList_none]
      exact ⟨cleanP_of (by decide) (by decide) trivial, cleanP_of (by decide) (by decide) trivial,
        cleanP_of (by decide) (by decide) trivial, clean_opt (fun x hx => (hokI x hx).2),
        clean_opt (fun x hx => (hokD x hx).2)⟩
    · intro fuel hf e'
      obtain ⟨hbI, hbD⟩ := hb fuel (by omega)
      have hm := matchParts_slots P_InterfaceTypeExtension _ p_interfaceExt_nodup
        (show slotsOk P_InterfaceTypeExtension [some (Pair.mk R.KEYWORD_extend p (p + kwExtend.length) []), some (Pair.mk (kindKwRule .interface) (ehOffK τ p)
            (ehOffK τ p + (kindKw .interface).length) []), some (Pair.mk R.Name (ehOffN τ p (kindKw .interface))
              (ehOffN τ p (kindKw .interface) + t.name.toList.length) []), oI, oD, none] from
          ⟨⟨_, rfl, rfl⟩, ⟨_, rfl, rfl⟩, ⟨_, rfl, rfl⟩, fun x hx => (hokI x hx).1, fun x hx => (hokD x hx).1,
            (fun x hx => by cases hx), trivial⟩)
      simp only [wpObjExt] at hbI hbD hfe ⊢
      simp only [show kwExtend.length = 6 from rfl] at hm
      simp [buildTypeExtension, onlyChildOf, onlyChild, Pair.children, OC_TypeExtension, Pair.rule, hm, hbI, hbD,
        hfs, optFields, wpFieldDefs, mapItems, asString_spec', toPos_spec', Pair.start, Pair.stop, hname', At, bind,
        Except.bind, R.ScalarTypeExtension, R.ObjectTypeExtension, R.InterfaceTypeExtension]
  | cons a r =>
    rw [hfs] at gF hpe hfields hfe
    have htokE : Tok (At inp (p3 + (rOptFields τ sep p3 (a :: r)).length)) := by rw [hpe]; exact hn.tok
    obtain ⟨prF, rF, hokF, hbF⟩ := fieldsT τ hτ a r hfields gF htokE
    have r1 := hrun _ _ _ _ rF
    obtain ⟨e, rR⟩ := runsK_rule look_InterfaceTypeExtension' (by decide) (by decide) (runsK_choice_l r1)
    rw [slotPairs5e_one] at rR
    have hlF : (rOptFields τ sep p3 (a :: r)).length = p + L - p3 := by omega
    have hlF1 := (hd_rBraced (rFieldDef τ) true τ '{' '}' sep p3 (a :: r)).length_pos
    simp only [rOptFields] at hlF
    have e1 : B (rBraced (rFieldDef τ) true τ '{' '}' sep p3 (a :: r)).length + 45 ≤ B L + 45 := by simp only [B]; omega
    have e2 : B (p3 - p) + 60 ≤ B L := by simp only [B]; omega
    refine ⟨_, RunsK.cast (rR.mono ?_) rfl (by rw [hpe]) rfl, ?_, ?_⟩
    · simp only [rOptFields]; omega
    · refine pairOk_mk (by decide) (by decide) ?_
      simp only [slotPairs, cleanL_append, cleanL_cons, cleanL_nil, and_true, Option.toList_some, Option.toList_none]
      exact ⟨cleanP_of (by decide) (by decide) trivial, cleanP_of (by decide) (by decide) trivial,
        cleanP_of (by decide) (by decide) trivial, clean_opt (fun x hx => (hokI x hx).2),
        clean_opt (fun x hx => (hokD x hx).2), hokF.clean⟩
    · intro fuel hf e'
      obtain ⟨hbI, hbD⟩ := hb fuel (by omega)
      have hbF' := hbF fuel (by omega)
      have hm := matchParts_slots P_InterfaceTypeExtension _ p_interfaceExt_nodup
        (show slotsOk P_InterfaceTypeExtension [some (Pair.mk R.KEYWORD_extend p (p + kwExtend.length) []), some (Pair.mk (kindKwRule .interface) (ehOffK τ p)
            (ehOffK τ p + (kindKw .interface).length) []), some (Pair.mk R.Name (ehOffN τ p (kindKw .interface))
              (ehOffN τ p (kindKw .interface) + t.name.toList.length) []), oI, oD, some prF] from
          ⟨⟨_, rfl, rfl⟩, ⟨_, rfl, rfl⟩, ⟨_, rfl, rfl⟩, fun x hx => (hokI x hx).1, fun x hx => (hokD x hx).1,
            (fun x hx => by cases hx; exact hokF.rule), trivial⟩)
      simp only [wpObjExt] at hbI hbD hfe ⊢
      simp [hfs] at hfe hbI hbD
      simp only [show kwExtend.length = 6 from rfl] at hm
      simp [buildTypeExtension, onlyChildOf, onlyChild, Pair.children, OC_TypeExtension, Pair.rule, hm, hbI, hbD,
        hbF', hfe, hfs, asString_spec', toPos_spec', Pair.start, Pair.stop, hname', At, bind,
        Except.bind, R.ScalarTypeExtension, R.ObjectTypeExtension, R.InterfaceTypeExtension]



/-! ### what an item of a type-system document begins with: never the word `implements` -/

/-- the first words of the items of a type-system document -/
abbrev itemWords : List (List Char) :=
  [kindKw .scalar, kindKw .object, kindKw .interface, kindKw .union, kindKw .enum, kindKw .input, kwSchema, kwDirective,
    kwExtend]

/-- the text begins with `"` (a description) or with one of the item keywords -/
def ItemStart (t : List Char) : Prop := (∃ r, t = '"' :: r) ∨ (∃ W r, W ∈ itemWords ∧ t = W ++ r)

theorem ItemStart.append {t : List Char} (h : ItemStart t) (u : List Char) : ItemStart (t ++ u) := by
  rcases h with ⟨r, rfl⟩ | ⟨W, r, hW, rfl⟩
  · exact Or.inl ⟨r ++ u, rfl⟩
  · exact Or.inr ⟨W, r ++ u, hW, by simp⟩

theorem itemStart_notImpl {t : List Char} (h : ItemStart t) : matchStr kwImplements t = none := by
  rcases h with ⟨r, rfl⟩ | ⟨W, r, hW, rfl⟩
  · simp [matchStr]
  · simp only [itemWords, List.mem_cons, List.not_mem_nil, or_false] at hW
    rcases hW with rfl | rfl | rfl | rfl | rfl | rfl | rfl | rfl | rfl <;> simp [matchStr, kindKw]

theorem itemStart_tk (τ : Trivia) (s : Bool) (q : Nat) {W : List Char} (hW : W ∈ itemWords) : ItemStart (tk τ s q W) :=
  Or.inr ⟨W, _, hW, rfl⟩

theorem itemStart_descKw (τ : Trivia) (s : Bool) (p : Nat) (desc : Option String) {W : List Char} (hW : W ∈ itemWords)
    (rest : List Char) : ItemStart (rOptDesc τ p desc ++ (tk τ s (p + (rOptDesc τ p desc).length) W ++ rest)) := by
  cases desc with
  | none => simpa [rOptDesc] using (itemStart_tk τ s p hW).append rest
  | some d => exact Or.inl ⟨_, by simp only [rOptDesc, tk, quoted, List.cons_append]; rfl⟩

theorem kindKw_mem (k : TypeKind) : kindKw k ∈ itemWords := by cases k <;> simp [itemWords]

theorem itemStart_defHead (τ : Trivia) (sN : Bool) (p : Nat) (desc : Option String) (k : TypeKind) (name : Name)
    (Y : List Char) : ItemStart (rDefHead τ sN p desc (kindKw k) name ++ Y) := by
  simp only [rDefHead, List.append_assoc]
  exact itemStart_descKw τ true p desc (kindKw_mem k) _

theorem itemStart_extHead (τ : Trivia) (sN : Bool) (p : Nat) (kw : List Char) (name : Name) (Y : List Char) :
    ItemStart (rExtHead τ sN p kw name ++ Y) := by
  simp only [rExtHead, List.append_assoc]
  exact (itemStart_tk τ true p (W := kwExtend) (by simp [itemWords])).append _

theorem itemStart_rTsItem (τ : Trivia) (sep : Bool) (p : Nat) (it : TsItem) : ItemStart (rTsItem τ sep p it) := by
  cases it with
  | typeDef t =>
    simp only [rTsItem, rTypeDefAny]
    cases t.kind <;> simp only [rScalarDef, rObjDef, rUnionDef, rEnumDef, rInputDef] <;>
      exact itemStart_defHead τ _ p t.desc _ t.name _
  | schemaDef s =>
    simp only [rTsItem, rSchemaDef]
    exact itemStart_descKw τ false p s.desc (W := kwSchema) (by simp [itemWords]) _
  | directiveDef d =>
    simp only [rTsItem, rDirectiveDef]
    exact itemStart_descKw τ false p d.desc (W := kwDirective) (by simp [itemWords]) _
  | schemaExt s =>
    simp only [rTsItem, rSchemaExt]
    exact (itemStart_tk τ true p (W := kwExtend) (by simp [itemWords])).append _
  | typeExt t =>
    simp only [rTsItem, rTypeExtAny]
    cases t.kind <;> simp only [rScalarExt, rObjExt, rUnionExt, rUnionExtD, rUnionExtM, rEnumExt, rInputExt] <;>
      first
      | exact itemStart_extHead τ _ p _ t.name _
      | (split <;> exact itemStart_extHead τ _ p _ t.name _)

theorem hd_itemStart {t : List Char} (h : ItemStart t) : Hd (fun d => nameStart d ∨ d = '"') t := by
  rcases h with ⟨r, rfl⟩ | ⟨W, r, hW, rfl⟩
  · exact hd_cons _ (Or.inr rfl)
  · simp only [itemWords, List.mem_cons, List.not_mem_nil, or_false] at hW
    rcases hW with rfl | rfl | rfl | rfl | rfl | rfl | rfl | rfl | rfl <;>
      exact Hd.append (hd_cons _ (Or.inl (by decide))) _

theorem hd_rTsItemF (τ : Trivia) (sep : Bool) (p : Nat) (it : TsItem) :
    Hd (fun d => nameStart d ∨ d = '"') (rTsItem τ sep p it) := hd_itemStart (itemStart_rTsItem τ sep p it)

/-! ### items, the bare interface forms included -/

/-- an interface type definition / extension without interfaces, directives and fields: `interface I`, `extend interface I` -/
def BareIface : TsItem → Prop
  | .typeDef t => t.kind = .interface ∧ validName t.name.toList ∧ t.implements = [] ∧ t.dirs = [] ∧ t.fields = []
  | .typeExt t => t.kind = .interface ∧ validName t.name.toList ∧ t.implements = [] ∧ t.dirs = [] ∧ t.fields = []
  | _ => False

/-- well-formed items of a type-system document, the bare interface forms included -/
def WFTsItemF (it : TsItem) : Prop := WFTsItem it ∨ BareIface it

theorem tsItemTF (τ : Trivia) (hτ : ∀ q, Ws (τ q)) (it : TsItem) (hwf : WFTsItemF it) (sep : Bool) (p : Nat)
    (h : HasAt inp p (rTsItem τ sep p it)) (hn : Nxt inp tdBad sep (p + (rTsItem τ sep p it).length))
    (hni : matchStr kwImplements (inp.drop (p + (rTsItem τ sep p it).length)) = none) :
    TsItemOk inp p (rTsItem τ sep p it) (wpTsItem τ inp sep p it) := by
  rcases hwf with hwf | hb
  · exact tsItemT τ hτ it hwf sep p h hn
  · cases it with
    | typeDef t =>
      obtain ⟨hkind, hname, hi0, hd0, hf0⟩ := hb
      simp only [rTsItem, wpTsItem, rTypeDefAny, wpTypeDefAny, hkind] at h hn hni ⊢
      have hpre := h
      simp only [rObjDef] at hpre
      obtain ⟨h1, h2⟩ := defHead_prefix hname hpre
      exact tsItem_of_kind hτ .interface t.desc
        (ifaceDefT' τ hτ t hname (by rw [hi0]; intro x hx; cases hx) (by rw [hd0]; trivial)
          (by rw [hf0]; intro x hx; cases hx) h hn (fun _ _ _ => hni)) h1 h2 (by simp [rObjDef, rDefHead])
    | typeExt t =>
      obtain ⟨hkind, hname, hi0, hd0, hf0⟩ := hb
      simp only [rTsItem, wpTsItem, rTypeExtAny, wpTypeExtAny, hkind] at h hn hni ⊢
      have hpre := h
      simp only [rObjExt] at hpre
      obtain ⟨h1, h2⟩ := extHead_prefix hname hpre
      exact tsItem_of_ext hτ .interface
        (ifaceExtT' τ hτ t hname (by rw [hi0]; intro x hx; cases hx) (by rw [hd0]; trivial)
          (by rw [hf0]; intro x hx; cases hx) h hn (fun _ _ _ => hni)) h1 h2 (by simp [rObjExt, rExtHead])
    | schemaDef s => exact absurd hb id
    | directiveDef d => exact absurd hb id
    | schemaExt s => exact absurd hb id

/-! ### the document -/

section ItemsRunExt
variable {α : Type} (ri : Bool → Nat → α → List Char) (sepMid sepLast : Bool)

/-- `items_many1K` where every item additionally learns a property `Ext` of the offset right after it (here: the text there
    does not begin with the word `implements`), provided by the head of the next item -/
theorem items_many1K_ext {inp : List Char} (e : Expr) (bad : Bool → Char → Prop) (K : Nat)
    (Good : Bool → Nat → α → Pair → Prop) (Ext : Nat → Prop) :
    ∀ (r : List α) (a : α) (p : Nat),
      (∀ x ∈ a :: r, ∀ s p, HasAt inp p (ri s p x) → Nxt inp (bad s) s (p + (ri s p x).length) → Ext (p + (ri s p x).length) →
        ∃ pr, RunsK (B (ri s p x).length + K) e (At inp p) (At inp (p + (ri s p x).length)) [pr] ∧ Good s p x pr) →
      (∀ x ∈ a :: r, ∀ s p, Hd (fun d => ¬ trivia d ∧ ¬ bad sepMid d ∧ (sepMid = false → ¬ nameCont d)) (ri s p x)) →
      (∀ x ∈ a :: r, ∀ s q Y, HasAt inp q (ri s q x ++ Y) → Ext q) →
      HasAt inp p (renderItems ri sepMid sepLast p (a :: r)) →
      Nxt inp (bad sepLast) sepLast (p + (renderItems ri sepMid sepLast p (a :: r)).length) →
      Ext (p + (renderItems ri sepMid sepLast p (a :: r)).length) →
      Fails gList (K + 100) true e .nonAtomic (At inp (p + (renderItems ri sepMid sepLast p (a :: r)).length)) →
      ∃ pss, Many1K e (B (renderItems ri sepMid sepLast p (a :: r)).length + K + 1) (At inp p)
          (At inp (p + (renderItems ri sepMid sepLast p (a :: r)).length)) pss ∧
        GoodItems ri sepMid sepLast Good p (a :: r) pss := by
  intro r
  induction r with
  | nil =>
    intro a p hitem _ _ hat hE hX hfail
    simp only [renderItems] at hat hE hX hfail ⊢
    obtain ⟨pr, hrun, hgood⟩ := hitem a (List.mem_cons_self ..) sepLast p hat hE hX
    refine ⟨[pr], ⟨_, _, _, [pr], [], ?_, ?_, hrun, .nil hfail hE.tok, rfl⟩, pr, rfl, hgood⟩
    · omega
    · simp [B]; omega
  | cons b r ih =>
    intro a p hitem hhead hext hat hE hX hfail
    rw [renderItems_cons2] at hat hE hX hfail ⊢
    generalize hta : ri sepMid p a = ta at *
    generalize hrest : renderItems ri sepMid sepLast (p + ta.length) (b :: r) = tl at *
    have h1 := hat.left
    have h3 : HasAt inp (p + ta.length) tl := hat.right
    -- the next item's first character
    obtain ⟨s', tail, htail⟩ := renderItems_cons ri sepMid sepLast (p + ta.length) b r
    have hb := hhead b (List.mem_cons_of_mem _ (List.mem_cons_self ..)) s' (p + ta.length)
    have hbt : Hd (fun d => ¬ trivia d ∧ ¬ bad sepMid d ∧ (sepMid = false → ¬ nameCont d)) tl := by
      rw [← hrest, htail]; exact hb.append _
    have hnx : Nxt inp (bad sepMid) sepMid (p + ta.length) :=
      ⟨tok_of_hd h3 hbt (fun d h => h.1), headNot_of_hd h3 hbt (fun d h => h.2.1),
        fun hs => headNot_of_hd h3 hbt (fun d h => h.2.2 hs)⟩
    have hxn : Ext (p + ta.length) := by
      have h3' : HasAt inp (p + ta.length) (ri s' (p + ta.length) b ++ tail) := by rw [← htail, hrest]; exact h3
      exact hext b (List.mem_cons_of_mem _ (List.mem_cons_self ..)) s' (p + ta.length) tail h3'
    obtain ⟨pr, hrun, hgood⟩ := hitem a (List.mem_cons_self ..) sepMid p (hta ▸ h1) (by rw [hta]; exact hnx) (by rw [hta]; exact hxn)
    rw [hta] at hrun
    have hlen : p + (ta ++ tl).length = p + ta.length + tl.length := by simp; omega
    rw [hlen] at hE hX hfail ⊢
    obtain ⟨pss, hmany, hgoods⟩ := ih b (p + ta.length) (fun x hx => hitem x (List.mem_cons_of_mem _ hx))
      (fun x hx => hhead x (List.mem_cons_of_mem _ hx)) (fun x hx => hext x (List.mem_cons_of_mem _ hx)) (hrest ▸ h3)
      (by rw [hrest]; exact hE) (by rw [hrest]; exact hX) (by rw [hrest]; exact hfail)
    rw [hrest] at hmany
    obtain ⟨k, hk, hmany'⟩ := hmany.many
    have h1len : 1 ≤ ta.length := hta ▸ (hhead a (List.mem_cons_self ..) sepMid p).length_pos
    refine ⟨pr :: pss, ⟨_, k, _, [pr], pss, ?_, ?_, hrun, hmany', rfl⟩, pr, pss, rfl, ?_, ?_⟩
    · simp [B]; omega
    · simp [B] at hk ⊢; omega
    · exact hgood
    · rw [hta]; exact hgoods

end ItemsRunExt

/-- parsing and building the rendering of a non-empty list of well-formed items -/
theorem tsDocF_parse (τ : Trivia) (hτ : ∀ q, Ws (τ q)) (doc : List TsItem) (hne : doc ≠ []) (hwf : ∀ d ∈ doc, WFTsItemF d) :
    ∃ pr, Peg.parse gList (defaultFuel (rTsDoc τ doc)) R.TypeSystemExtensionDocument (rTsDoc τ doc) = .pairs [pr] ∧
      CleanP pr ∧ buildTypeSystemDocument (Ctx.spec (rTsDoc τ doc)) (4 * (rTsDoc τ doc).length + 64) [pr] =
        .ok (wpTsDoc τ (rTsDoc τ doc) doc) := by
  cases doc with
  | nil => exact absurd rfl hne
  | cons a r =>
    generalize hinp : rTsDoc τ (a :: r) = inp
    have hI : inp = τ 0 ++ renderItems (rTsItem τ) true false (τ 0).length (a :: r) := by rw [← hinp]; rfl
    generalize hG : τ 0 = g at hI
    generalize hT : renderItems (rTsItem τ) true false g.length (a :: r) = tI at hI
    have hg : HasAt inp 0 g := ⟨tI, by simpa using hI⟩
    have hat : HasAt inp (0 + g.length) tI := ⟨[], by rw [hI]; simp⟩
    have hend : inp.drop (0 + g.length + tI.length) = [] := by rw [hI]; simp
    have htokE : Tok (At inp (0 + g.length + tI.length)) := by
      simp only [Tok, At]; rw [hend]; exact headNot_nil _
    have hnE : Nxt inp tdBad false (0 + g.length + tI.length) :=
      ⟨htokE, by rw [hend]; exact headNot_nil _, fun _ => by rw [hend]; exact headNot_nil _⟩
    obtain ⟨pss, hmany, hgood⟩ := items_many1K_ext (rTsItem τ) true false (.call R.TypeSystemDefinitionOrExtension)
      (fun _ => tdBad) 130 (TsGood τ inp) (fun q => matchStr kwImplements (inp.drop q) = none) r a (0 + g.length)
      (fun x hx s q hx1 hx2 hx3 => by
        obtain ⟨pr, hr, hok, hb⟩ := tsItemTF τ hτ x (hwf x hx) s q hx1 hx2 hx3
        exact ⟨pr, hr, hok, hb⟩)
      (fun x hx s q => (hd_rTsItemF τ s q x).mono (by
        rintro c (hc | rfl)
        · have := nameStart_not_punct hc
          refine ⟨nameStart_not_trivia hc, ?_, fun h => by cases h⟩
          rintro (rfl | rfl | rfl | rfl | rfl | rfl) <;> simp_all
        · decide))
      (fun x hx s q Y hY => by
        rw [hY.drop, List.append_assoc]
        exact itemStart_notImpl ((itemStart_rTsItem τ s q x).append _))
      (by simpa [hT] using hat) (by simpa [hT] using hnE) (by simp only [Nat.zero_add] at hend ⊢; rw [hT, hend]; rfl)
      (by simpa [hT] using (tsItem_fails_eoi hend).mono (by omega : 100 ≤ 130 + 100))
    simp only [Nat.zero_add, hT] at hmany hgood
    have htokI : Tok (At inp (0 + g.length)) := by
      obtain ⟨s', tail, htl⟩ := renderItems_cons (rTsItem τ) true false g.length a r
      refine tok_of_hd hat (P := fun d => nameStart d ∨ d = '"') ?_ ?_
      · rw [← hT, htl]
        exact (hd_rTsItemF τ s' _ a).append _
      · rintro c (hc | rfl)
        · exact nameStart_not_trivia hc
        · decide
    have hgap : Gap inp 0 g := ⟨hg, hG ▸ hτ 0, htokI⟩
    have r0 : RunsK (g.length + 60) .soi (At inp 0) (At inp (0 + g.length)) [] :=
      ⟨At inp 0, (runs_soi true .nonAtomic (At inp 0) rfl).mono (by omega), hgap.skip⟩
    have rE : RunsK 23 (.call R.EOI) (At inp (g.length + tI.length)) (At inp (g.length + tI.length))
        [.mk R.EOI (g.length + tI.length) (g.length + tI.length) []] := by
      have hr : (At inp (g.length + tI.length)).rest = [] := by simpa [At] using hend
      have htk : Tok (At inp (g.length + tI.length)) := by simpa using htokE
      exact ⟨At inp (g.length + tI.length),
        (runs_call (runsRule_normal look_EOI (nsp (by decide) (by decide)) (runs_eoi true .nonAtomic _ hr))).mono
          (by omega), (skipTo_self htk).mono (by omega)⟩
    simp only [Nat.zero_add] at r0
    obtain ⟨e, rD⟩ := runsK_rule look_TSDocument (by decide) (by decide)
      (runsK_seq r0 (runsK_seq (runsK_plus1 hmany) rE))
    obtain ⟨c1, hruns, _⟩ := rD
    obtain ⟨tr', hh⟩ := hruns {}
    have hlenI : inp.length = g.length + tI.length := by rw [hI]; simp
    have hfuel : max (g.length + 60) (max (max (B tI.length + 130 + 1) 20 + 4) 23 + 1) + 1 + 2 ≤
        defaultFuel inp + 1 := by
      simp only [defaultFuel, B, hlenI]; omega
    have hp := hh (defaultFuel inp + 1) hfuel
    simp only [eval, At, List.drop_zero] at hp
    have hrule : ∀ x ∈ pss, x.rule = R.TypeSystemDefinitionOrExtension :=
      goodItems_forall (rTsItem τ) true false _ (fun x => x.rule = R.TypeSystemDefinitionOrExtension) (a :: r)
        (fun x _ s q pr hgd => hgd.1.rule) _ pss hgood
    have hclean : CleanL pss := goodItems_clean (rTsItem τ) true false _ (a :: r)
      (fun x _ s q pr hgd => hgd.1.clean) _ pss hgood
    refine ⟨.mk R.TypeSystemExtensionDocument 0 e
      ([] ++ (pss ++ [Pair.mk R.EOI (g.length + tI.length) (g.length + tI.length) []])),
      by simp [Peg.parse, runTr, hp], ?_, ?_⟩
    · refine cleanP_of (by decide) (by decide) ?_
      simp only [List.nil_append, cleanL_append, cleanL_cons, cleanL_nil, and_true]
      exact ⟨hclean, cleanP_of (by decide) (by decide) trivial⟩
    · simp only [buildTypeSystemDocument]
      rw [if_pos (show (Pair.mk R.TypeSystemExtensionDocument 0 e ([] ++ (pss ++ [Pair.mk R.EOI (g.length + tI.length)
        (g.length + tI.length) []]))).rule = R.TypeSystemExtensionDocument from rfl)]
      rw [show (Pair.mk R.TypeSystemExtensionDocument 0 e ([] ++ (pss ++ [Pair.mk R.EOI (g.length + tI.length)
        (g.length + tI.length) []]))).children = [] ++ (pss ++ [Pair.mk R.EOI (g.length + tI.length)
        (g.length + tI.length) []]) from rfl]
      rw [filter_tsItems pss _ hrule rfl]
      have := goodItems_mapM (rTsItem τ) true false (TsGood τ inp)
        (buildTypeSystemDefinitionOrExtension (Ctx.spec inp) (4 * inp.length + 64)) (wpTsItem τ inp)
        (4 * inp.length + 64) (a :: r) (fun x _ s q pr hgd hl => hgd.2 _ hl) g.length pss (by rw [hT, hlenI]; omega) hgood
      rw [this]
      simp only [wpTsDoc, hG]

/-- `parse_type_system_document` on the rendering of a type-system document returns the document with the true
    positions -/
theorem parseTs_rTsDocF (τ : Trivia) (hτ : ∀ q, Ws (τ q)) (doc : List TsItem) (hne : doc ≠ []) (hwf : ∀ d ∈ doc, WFTsItemF d) :
    parseTs (rTsDoc τ doc) = .ok (wpTsDoc τ (rTsDoc τ doc) doc) := by
  obtain ⟨pr, hp, hc, hb⟩ := tsDocF_parse τ hτ doc hne hwf
  simp only [parseTs, parseWith, hp, firstBadEscape_clean _ [pr] ⟨hc, trivial⟩, hb]


end NitroVerif.DocParse
