/-
Leaves of the document round trip in the offset form of `ParseDocBase.lean` (helper lemmas for Props/C07Doc): `Value`,
`Arguments`, `StringValue`, one `Directive` and the `Directives` list; the known pair trees contain no `\u` escape
(`Clean`); the builder's depth bound for values is at most the length of the text.
-/
import NitroVerif.Lemmas.ParseDocBase
namespace NitroVerif.DocParse
open NitroVerif.Peg NitroVerif.Gen NitroVerif.Gen.Parts NitroVerif.Build NitroVerif.TypeParse NitroVerif.StringParse
open NitroVerif.Gql NitroVerif.ValueParse NitroVerif.Spec.Lex

/-! ### `Clean` for the trees of the earlier levels -/

theorem clean_charPairs : ∀ (s : List Char) (p : Nat), CleanL (charPairs s p) := by
  intro s
  induction s with
  | nil => intro p; trivial
  | cons c cs ih =>
    intro p
    refine ⟨?_, ih _⟩
    unfold charPair
    split <;> exact cleanP_of (by decide) (by decide) ⟨cleanP_of (by decide) (by decide) trivial, trivial⟩

theorem clean_stringPair (s : List Char) (p : Nat) : CleanP (stringPair s p) := by
  cases s with
  | nil => exact cleanP_of (by decide) (by decide) ⟨cleanP_of (by decide) (by decide) trivial, trivial⟩
  | cons c cs =>
    exact cleanP_of (by decide) (by decide) ⟨cleanP_of (by decide) (by decide) (clean_charPairs _ _), trivial⟩

mutual
theorem clean_innerV (τ : Trivia) : (v : Value) → ∀ p, CleanP (innerV τ p v)
  | .var n _ => fun p => cleanP_of (by decide) (by decide) ⟨cleanP_of (by decide) (by decide) trivial, trivial⟩
  | .int s _ => fun p => cleanP_of (by decide) (by decide) trivial
  | .float s _ => fun p => cleanP_of (by decide) (by decide) trivial
  | .str s _ => fun p => clean_stringPair _ _
  | .bool b _ => fun p => by
    cases b <;> exact cleanP_of (by decide) (by decide) ⟨cleanP_of (by decide) (by decide) trivial, trivial⟩
  | .null _ => fun p => cleanP_of (by decide) (by decide) ⟨cleanP_of (by decide) (by decide) trivial, trivial⟩
  | .enum n _ => fun p => cleanP_of (by decide) (by decide) ⟨cleanP_of (by decide) (by decide) trivial, trivial⟩
  | .list vs _ => fun p => cleanP_of (by decide) (by decide) (clean_itemPairs τ vs _ _)
  | .obj fs _ => fun p => cleanP_of (by decide) (by decide) (clean_fieldPairs τ fs _ _)
theorem clean_itemPairs (τ : Trivia) : (vs : List Value) → ∀ q first, CleanL (itemPairs τ q first vs)
  | [] => fun q first => trivial
  | v :: vs => fun q first => by
    rw [itemPairs_cons]
    exact ⟨cleanP_of (by decide) (by decide) ⟨clean_innerV τ v _, trivial⟩, clean_itemPairs τ vs _ _⟩
theorem clean_fieldPairs (τ : Trivia) : (fs : List (Name × Pos × Value)) → ∀ q first, CleanL (fieldPairs τ q first fs)
  | [] => fun q first => trivial
  | (k, _, v) :: fs => fun q first => by
    rw [fieldPairs_cons]
    exact ⟨cleanP_of (by decide) (by decide) ⟨cleanP_of (by decide) (by decide) trivial,
      cleanP_of (by decide) (by decide) ⟨clean_innerV τ v _, trivial⟩, trivial⟩, clean_fieldPairs τ fs _ _⟩
end

theorem clean_valuePair (τ : Trivia) (p : Nat) (v : Value) : CleanP (valuePair τ p v) :=
  cleanP_of (by decide) (by decide) ⟨clean_innerV τ v p, trivial⟩

theorem clean_argPairs (τ : Trivia) : ∀ (fs : List (Name × Pos × Value)) (q : Nat) (first : Bool),
    CleanL (argPairs τ q first fs) := by
  intro fs
  induction fs with
  | nil => intro q first; trivial
  | cons f fs ih =>
    intro q first
    obtain ⟨k, kp, v⟩ := f
    rw [argPairs_cons]
    exact ⟨cleanP_of (by decide) (by decide) ⟨cleanP_of (by decide) (by decide) trivial, clean_valuePair τ _ v, trivial⟩,
      ih _ _⟩

theorem clean_argsPair (τ : Trivia) (p : Nat) (args : List Arg) : CleanP (argsPair τ p args) :=
  cleanP_of (by decide) (by decide) (clean_argPairs τ args _ _)

/-! ### the builder's depth bound for argument values is at most the length of the text -/

theorem sizeFields_le (τ : Trivia) : ∀ (fs : List (Name × Pos × Value)), WFFs fs → ∀ q first,
    Value.sizeFields fs ≤ (fieldsBody τ q first fs).length := by
  intro fs
  induction fs with
  | nil => intro _ q first; simp [Value.sizeFields]
  | cons w ws ih =>
    intro hwf q first
    obtain ⟨k, kp, v⟩ := w
    simp only [WFFs] at hwf
    have h1 := size_le_length τ v.size v (Nat.le_refl _) hwf.2.1 (fQ3 τ q first k)
    have h2 := ih hwf.2.2 (fQ3 τ q first k + (renderV τ (fQ3 τ q first k) v).length) false
    rw [fieldsBody_cons]
    simp only [Value.sizeFields, List.length_append, List.length_cons]
    omega

theorem sizeFields_le_args (τ : Trivia) (args : List Arg) (hwf : WFFs args) (p : Nat) :
    Value.sizeFields args ≤ (renderArgs τ p args).length := by
  have := sizeFields_le τ args hwf (p + 1) true
  simp only [renderArgs, List.length_cons, List.length_append]
  omega

/-! ### leaves: a token (or an already proved sub-language) followed by its trailing gap -/

variable {inp : List Char}

/-- the gap after a text `t` written at `p` as a `tk`: a `Gap`, and no name character right after `t` -/
theorem tk_gap {τ : Trivia} (hτ : ∀ q, Ws (τ q)) {sep : Bool} {p : Nat} {t : List Char} {bad : Char → Prop}
    (h : HasAt inp p (tk τ sep p t)) (hn : Nxt inp bad sep (p + (tk τ sep p t).length)) :
    HasAt inp p t ∧ Gap inp (p + t.length) (gapS sep (τ (p + t.length))) ∧ HeadNot nameCont (inp.drop (p + t.length)) := by
  have h1 : HasAt inp p t := h.left
  have h2 : HasAt inp (p + t.length) (gapS sep (τ (p + t.length))) := h.right
  have hn' : Nxt inp bad sep (p + t.length + (gapS sep (τ (p + t.length))).length) := by
    rw [tk_length, ← Nat.add_assoc] at hn; exact hn
  exact ⟨h1, Nxt.gap (hτ _) h2 hn'⟩

theorem strT {τ : Trivia} (hτ : ∀ q, Ws (τ q)) (s : List Char) {sep : Bool} {p : Nat}
    (h : HasAt inp p (tk τ sep p s)) (ht : Tok (At inp (p + (tk τ sep p s).length))) :
    RunsK (B (tk τ sep p s).length) (.str s) (At inp p) (At inp (p + (tk τ sep p s).length)) [] := by
  have hg : Gap inp (p + s.length) (gapS sep (τ (p + s.length))) :=
    ⟨h.right, ws_gapS (hτ _), by rw [tk_length, ← Nat.add_assoc] at ht; exact ht⟩
  refine RunsK.cast ((strK s h.left hg).mono ?_) rfl ?_ rfl
  · rw [tk_length]; barith
  · rw [tk_length, Nat.add_assoc]

theorem nameT {τ : Trivia} (hτ : ∀ q, Ws (τ q)) {n : List Char} (hv : validName n) {sep : Bool} {p : Nat}
    {bad : Char → Prop} (h : HasAt inp p (tk τ sep p n)) (hn : Nxt inp bad sep (p + (tk τ sep p n).length)) :
    RunsKE (B (tk τ sep p n).length) (.call R.Name) (At inp p) (At inp (p + n.length)) (At inp (p + (tk τ sep p n).length))
      [.mk R.Name p (p + n.length) []] := by
  obtain ⟨h1, hg, hglue⟩ := tk_gap hτ h hn
  refine RunsKE.cast ((nameK hv h1 hg hglue).mono ?_) rfl rfl ?_ rfl
  · rw [tk_length]; barith
  · rw [tk_length, Nat.add_assoc]

theorem kwT {τ : Trivia} (hτ : ∀ q, Ws (τ q)) {r : RuleId} {w : List Char}
    (hl : gList.look r = some (.atomic, .seq (.str w) (.not (.call R.NameContinue)))) {sep : Bool} {p : Nat}
    {bad : Char → Prop} (h : HasAt inp p (tk τ sep p w)) (hn : Nxt inp bad sep (p + (tk τ sep p w).length)) :
    RunsKE (B (tk τ sep p w).length) (.call r) (At inp p) (At inp (p + w.length)) (At inp (p + (tk τ sep p w).length))
      [.mk r p (p + w.length) []] := by
  obtain ⟨h1, hg, hglue⟩ := tk_gap hτ h hn
  refine RunsKE.cast ((kwK hl h1 hg hglue).mono ?_) rfl rfl ?_ rfl
  · rw [tk_length]; barith
  · rw [tk_length, Nat.add_assoc]

/-- what follows a value: a non-empty gap, or a token that cannot continue a name / number / string -/
theorem valEnd_at {q : Nat} {g : List Char} (hg : Gap inp q g)
    (hx : g = [] → HeadNot (fun d => nameCont d ∨ d = '.' ∨ d = '"') (inp.drop q)) : ValEnd (inp.drop q) := by
  cases hgl : g with
  | nil => exact hx hgl
  | cons d r =>
    rw [hg.has.drop, hgl]
    exact valEnd_ws_ne (hgl ▸ hg.ws) (by simp)

theorem valueT (τ : Trivia) (hτ : ∀ q, Ws (τ q)) (v : Value) (hwf : WFV v) {sep : Bool} {p : Nat} {bad : Char → Prop}
    (hbad : sep = false → ∀ d, d = '.' ∨ d = '"' → bad d) (h : HasAt inp p (tk τ sep p (renderV τ p v)))
    (hn : Nxt inp bad sep (p + (tk τ sep p (renderV τ p v)).length)) :
    RunsK (B (tk τ sep p (renderV τ p v)).length + 1) (.call R.Value) (At inp p)
      (At inp (p + (tk τ sep p (renderV τ p v)).length)) [valuePair τ p v] := by
  obtain ⟨h1, hg, hglue⟩ := tk_gap hτ h hn
  have hend : ValEnd (inp.drop (p + (renderV τ p v).length)) := by
    refine valEnd_at hg fun hnil => ?_
    have e : inp.drop (p + (renderV τ p v).length) = inp.drop (p + (tk τ sep p (renderV τ p v)).length) := by
      rw [tk_length, hnil]; simp
    have hsep : sep = false := by
      cases sep with
      | false => rfl
      | true => exact absurd hnil gapS_ne_nil
    intro d r he hd
    rcases hd with hd | hd
    · exact hglue d r he hd
    · rw [e] at he; exact hn.ok d r he (hbad hsep d hd)
  refine ⟨At inp (p + (renderV τ p v).length), ?_, ?_⟩
  · have := value_runs τ hτ v.size v (Nat.le_refl _) hwf p _ hend
    simp only [At]
    rw [h1.drop]
    exact (runs_call this).mono (by rw [tk_length]; barith)
  · refine SkipTo.cast (hg.skip.mono (by rw [tk_length]; barith)) rfl ?_
    rw [tk_length, Nat.add_assoc]

theorem argsT (τ : Trivia) (hτ : ∀ q, Ws (τ q)) (args : List Arg) (hne : args ≠ []) (hwf : WFFs args) {sep : Bool}
    {p : Nat} (h : HasAt inp p (tk τ sep p (renderArgs τ p args)))
    (ht : Tok (At inp (p + (tk τ sep p (renderArgs τ p args)).length))) :
    RunsK (B (tk τ sep p (renderArgs τ p args)).length + 1) (.call R.Arguments) (At inp p)
      (At inp (p + (tk τ sep p (renderArgs τ p args)).length)) [argsPair τ p args] := by
  have hg : Gap inp (p + (renderArgs τ p args).length) (gapS sep (τ (p + (renderArgs τ p args).length))) :=
    ⟨h.right, ws_gapS (hτ _), by rw [tk_length, ← Nat.add_assoc] at ht; exact ht⟩
  refine ⟨At inp (p + (renderArgs τ p args).length), ?_, ?_⟩
  · have hok : FieldsOk τ args := fun f hf' =>
      ⟨(wffs_mem hwf hf').1, (wffs_mem hwf hf').2, value_runs τ hτ f.2.2.size f.2.2 (Nat.le_refl _) (wffs_mem hwf hf').2⟩
    have := arguments_runs τ hτ args hne hok p (inp.drop (p + (renderArgs τ p args).length))
    simp only [At]
    rw [h.left.drop]
    exact (runs_call this).mono (by rw [tk_length]; barith)
  · refine SkipTo.cast (hg.skip.mono (by rw [tk_length]; barith)) rfl ?_
    rw [tk_length, Nat.add_assoc]

theorem args_fails {p : Nat} (h : HeadNot (· = '(') (inp.drop p)) :
    Fails gList 4 true (.call R.Arguments) .nonAtomic (At inp p) := fails_call (arguments_fails h)

theorem stringT {τ : Trivia} (hτ : ∀ q, Ws (τ q)) (s : List Char) {sep : Bool} {p : Nat}
    (h : HasAt inp p (tk τ sep p (quoted s))) (ht : Tok (At inp (p + (tk τ sep p (quoted s)).length)))
    (hq : HeadNot (· = '"') (inp.drop (p + (tk τ sep p (quoted s)).length))) :
    RunsK (B (tk τ sep p (quoted s)).length) (.call R.StringValue) (At inp p)
      (At inp (p + (tk τ sep p (quoted s)).length)) [stringPair s p] := by
  have hg : Gap inp (p + (quoted s).length) (gapS sep (τ (p + (quoted s).length))) :=
    ⟨h.right, ws_gapS (hτ _), by have := ht; rw [tk_length, ← Nat.add_assoc] at this; exact this⟩
  have hend : StrEnd s (inp.drop (p + (quoted s).length)) := by
    intro _
    cases hgl : gapS sep (τ (p + (quoted s).length)) with
    | nil =>
      have e : inp.drop (p + (quoted s).length) = inp.drop (p + (tk τ sep p (quoted s)).length) := by
        rw [tk_length, hgl]; simp
      rw [e]
      exact hq
    | cons d r =>
      rw [hg.has.drop, hgl]
      refine headNot_cons ?_ _
      rintro rfl
      exact absurd (ws_head_trivia hg.ws _ r hgl) (by decide)
  refine ⟨At inp (p + (quoted s).length), ?_, ?_⟩
  · have := stringValue_runs s p _ hend (at_ := .nonAtomic)
    simp only [At]
    rw [h.left.drop]
    refine (runs_call this).mono ?_
    have := specEscape_length_ge s
    rw [tk_length]; simp only [quoted, List.length_cons, List.length_append, List.length_nil]; barith
  · refine SkipTo.cast (hg.skip.mono (by rw [tk_length]; barith)) rfl ?_
    rw [tk_length, Nat.add_assoc]

theorem string_fails {p : Nat} (h : HeadNot (· = '"') (inp.drop p)) :
    Fails gList 8 true (.call R.StringValue) .nonAtomic (At inp p) := fails_call (stringValue_fails h)

end NitroVerif.DocParse
