import NitroVerif.Model.IntLit
import NitroVerif.Spec.IntLit
/-!
`int.value.parse::<i32>().is_ok()` (model: `IntLit.intLiteralFitsI32`, the checked-arithmetic digit loop of the Rust
standard library) is the mathematical range test on the integer the text denotes (specification:
`SpecInt.intTextInRange`): an intermediate overflow of the loop implies that the final value is out of range, because
appending digits never makes a number smaller.
-/
namespace NitroVerif.IntLit
open NitroVerif.SpecInt

theorem digitVal?_eq (c : Char) : digitVal? c = digit? c := rfl

theorem digit?_lt {c : Char} {d : Nat} (h : digit? c = some d) : d ≤ 9 := by
  unfold digit? at h
  split at h
  · rename_i hc
    simp only [Bool.and_eq_true, decide_eq_true_eq] at hc
    injection h with h
    omega
  · cases h

/-- appending digits never makes the number smaller -/
theorem digitsValue?_ge : ∀ (cs : List Char) (a n : Nat), digitsValue? cs a = some n → a ≤ n := by
  intro cs
  induction cs with
  | nil => intro a n h; simp only [digitsValue?] at h; injection h with h; omega
  | cons c cs ih =>
    intro a n h
    simp only [digitsValue?] at h
    cases hd : digit? c with
    | none => simp [hd] at h
    | some d =>
      simp only [hd] at h
      have := ih _ _ h
      omega

theorem inI32_iff (i : Int) : inI32 i = true ↔ (-2147483648 ≤ i ∧ i ≤ 2147483647) := by
  unfold inI32 i32Min i32Max
  rw [Bool.and_eq_true, decide_eq_true_iff, decide_eq_true_iff]

/-- the loop without a `-` sign: `Ok` exactly when the digits, appended to the accumulator, denote a number `≤ i32::MAX` -/
theorem i32Loop_pos : ∀ (cs : List Char) (a : Nat), a ≤ 2147483647 →
    (i32Loop false cs (a : Int) = true ↔ ∃ n, digitsValue? cs a = some n ∧ n ≤ 2147483647) := by
  intro cs
  induction cs with
  | nil => intro a ha; simp [i32Loop, digitsValue?, ha]
  | cons c cs ih =>
    intro a ha
    simp only [i32Loop, digitsValue?, digitVal?_eq]
    cases hd : digit? c with
    | none => simp
    | some d =>
      simp only []
      by_cases h1 : inI32 ((a : Int) * 10) = true
      · simp only [h1, if_true, Bool.false_eq_true, if_false]
        by_cases h2 : inI32 ((a : Int) * 10 + (d : Int)) = true
        · simp only [h2, if_true]
          have hle : a * 10 + d ≤ 2147483647 := by
            have := (inI32_iff _).mp h2; omega
          have := ih (a * 10 + d) hle
          simpa [Int.natCast_add, Int.natCast_mul] using this
        · simp only [h2, Bool.false_eq_true, if_false, false_iff]
          rintro ⟨n, hn, hle⟩
          have hge := digitsValue?_ge _ _ _ hn
          exact h2 ((inI32_iff _).mpr (by omega))
      · simp only [h1, Bool.false_eq_true, if_false, false_iff]
        rintro ⟨n, hn, hle⟩
        have hge := digitsValue?_ge _ _ _ hn
        exact h1 ((inI32_iff _).mpr (by omega))

/-- the loop after a `-` sign (the accumulator is `≤ 0`): `Ok` exactly when the digits denote a number `≤ 2^31` -/
theorem i32Loop_neg : ∀ (cs : List Char) (a : Nat), a ≤ 2147483648 →
    (i32Loop true cs (-(a : Int)) = true ↔ ∃ n, digitsValue? cs a = some n ∧ n ≤ 2147483648) := by
  intro cs
  induction cs with
  | nil => intro a ha; simp [i32Loop, digitsValue?, ha]
  | cons c cs ih =>
    intro a ha
    simp only [i32Loop, digitsValue?, digitVal?_eq]
    cases hd : digit? c with
    | none => simp
    | some d =>
      simp only []
      by_cases h1 : inI32 (-(a : Int) * 10) = true
      · simp only [h1, if_true]
        by_cases h2 : inI32 (-(a : Int) * 10 - (d : Int)) = true
        · simp only [h2, if_true]
          have hle : a * 10 + d ≤ 2147483648 := by
            have := (inI32_iff _).mp h2; omega
          have := ih (a * 10 + d) hle
          have he : -(a : Int) * 10 - (d : Int) = -((a * 10 + d : Nat) : Int) := by
            simp only [Int.natCast_add, Int.natCast_mul]; omega
          rw [he]; exact this
        · simp only [h2, Bool.false_eq_true, if_false, false_iff]
          rintro ⟨n, hn, hle⟩
          have hge := digitsValue?_ge _ _ _ hn
          exact h2 ((inI32_iff _).mpr (by omega))
      · simp only [h1, Bool.false_eq_true, if_false, false_iff]
        rintro ⟨n, hn, hle⟩
        have hge := digitsValue?_ge _ _ _ hn
        exact h1 ((inI32_iff _).mpr (by omega))

/-- `parse::<i32>().is_ok()` over a character list = "the text denotes an integer in `[-2^31, 2^31)`" -/
theorem parseI32Ok_iff (cs : List Char) :
    parseI32Ok cs = true ↔ ∃ i, intValue? cs = some i ∧ -2147483648 ≤ i ∧ i ≤ 2147483647 := by
  have hpos : ∀ ds : List Char, ds ≠ [] →
      (i32Loop false ds 0 = true ↔ ∃ i, (natValue? ds).map (fun n => (n : Int)) = some i ∧ -2147483648 ≤ i ∧ i ≤ 2147483647) := by
    intro ds hds
    have h := i32Loop_pos ds 0 (by omega)
    have hn : natValue? ds = digitsValue? ds 0 := by cases ds with | nil => exact absurd rfl hds | cons _ _ => rfl
    rw [hn]
    simp only [Int.natCast_zero] at h
    rw [h]
    constructor
    · rintro ⟨n, hn, hle⟩; exact ⟨n, by simp [hn], by omega, by omega⟩
    · rintro ⟨i, hi, h1, h2⟩
      cases hv : digitsValue? ds 0 with
      | none => simp [hv] at hi
      | some n => simp [hv] at hi; exact ⟨n, rfl, by omega⟩
  have hneg : ∀ ds : List Char, ds ≠ [] →
      (i32Loop true ds 0 = true ↔ ∃ i, (natValue? ds).map (fun n => -(n : Int)) = some i ∧ -2147483648 ≤ i ∧ i ≤ 2147483647) := by
    intro ds hds
    have h := i32Loop_neg ds 0 (by omega)
    have hn : natValue? ds = digitsValue? ds 0 := by cases ds with | nil => exact absurd rfl hds | cons _ _ => rfl
    rw [hn]
    simp only [Int.natCast_zero, Int.neg_zero] at h
    rw [h]
    constructor
    · rintro ⟨n, hn, hle⟩; exact ⟨-(n : Int), by simp [hn], by omega, by omega⟩
    · rintro ⟨i, hi, h1, h2⟩
      cases hv : digitsValue? ds 0 with
      | none => simp [hv] at hi
      | some n => simp [hv] at hi; exact ⟨n, rfl, by omega⟩
  match cs with
  | [] => simp [parseI32Ok, intValue?, natValue?]
  | c :: rest =>
    by_cases hp : c = '+'
    · subst hp
      cases rest with
      | nil => simp [parseI32Ok, intValue?, natValue?]
      | cons r rs =>
        have : parseI32Ok ('+' :: r :: rs) = i32Loop false (r :: rs) 0 := by simp [parseI32Ok]
        rw [this, hpos _ (by simp)]; simp only [intValue?]
    · by_cases hm : c = '-'
      · subst hm
        cases rest with
        | nil => simp [parseI32Ok, intValue?, natValue?]
        | cons r rs =>
          have : parseI32Ok ('-' :: r :: rs) = i32Loop true (r :: rs) 0 := by simp [parseI32Ok]
          rw [this, hneg _ (by simp)]; simp only [intValue?]
      · have h1 : parseI32Ok (c :: rest) = i32Loop false (c :: rest) 0 := by
          unfold parseI32Ok
          split <;> simp_all
        have h2 : intValue? (c :: rest) = (natValue? (c :: rest)).map fun n => (n : Int) := by
          unfold intValue?
          split <;> simp_all
        rw [h1, h2, hpos _ (by simp)]

/-- the characterisation asked for: the Rust test is the range test on the denoted integer -/
theorem intLiteralFitsI32_iff (s : String) :
    intLiteralFitsI32 s = true ↔ ∃ i, intValue? s.toList = some i ∧ -2147483648 ≤ i ∧ i ≤ 2147483647 :=
  parseI32Ok_iff s.toList

/-- model (Rust `parse::<i32>`) and specification (§3.5.1 range of the denoted integer) agree on every text -/
theorem intLiteralFitsI32_eq (s : String) : intLiteralFitsI32 s = intTextInRange s := by
  rw [Bool.eq_iff_iff, intLiteralFitsI32_iff]
  unfold intTextInRange
  cases h : intValue? s.toList with
  | none => simp
  | some i => simp

/-! kernel-evaluated boundary values -/
example : intLiteralFitsI32 "2147483647" = true ∧ intLiteralFitsI32 "2147483648" = false ∧
    intLiteralFitsI32 "-2147483648" = true ∧ intLiteralFitsI32 "-2147483649" = false ∧
    intLiteralFitsI32 "4294967296" = false ∧ intLiteralFitsI32 "-0" = true ∧ intLiteralFitsI32 "0" = true ∧
    intLiteralFitsI32 "+1" = true ∧ intLiteralFitsI32 "-" = false ∧ intLiteralFitsI32 "" = false ∧
    intLiteralFitsI32 "007" = true ∧ intLiteralFitsI32 "99999999999999999999999999" = false ∧
    intLiteralFitsI32 "--1" = false ∧ intLiteralFitsI32 "1e3" = false := by decide +kernel
example : intTextInRange "2147483647" = true ∧ intTextInRange "2147483648" = false ∧
    intTextInRange "-2147483648" = true ∧ intTextInRange "-2147483649" = false ∧ intTextInRange "-0" = true := by
  decide +kernel

end NitroVerif.IntLit
