/-
C15: the document views of the two routes and of a schema value.

* `Sees G s` — the lookups of the document view `G : Gql.Schema` (what the checker / printer models read) are the
  lookups of the schema value `s : SchemaIR.Schema`, after erasure;
* `sees_doc` — a type-system document sees the schema `ast_to_type_system` builds from it;
* `ofIR s`, `sees_ofIR` — the document view of a schema value;
* `agreeRoots_of_equiv` — **every lookup the operation checker model uses is a function of `lookupOf`**: two views
  that see `≃` schema values satisfy `AgreeRoots`.
-/
import NitroVerif.Lemmas.RoutesCheckOp
namespace NitroVerif.Bridge
open NitroVerif NitroVerif.Gql NitroVerif.SchemaIR NitroVerif.AstSchema NitroVerif.CheckCommon NitroVerif.CheckOp
open NitroVerif.IntrospectSpec NitroVerif.Routes

/-! ### `Sees` -/

structure Sees (G : Gql.Schema) (s : SchemaIR.Schema) : Prop where
  types : ∀ n, (G.typeDef? n).map tv = (s.typeDef? n).map eraseType
  directives : ∀ n, (G.directiveDef? n).map dv = (s.directiveDef? n).map eraseDirective
  declared : hasExplicitSchema G = s.rootsDeclared
  roots : ∀ k, G.explicitRoot? k = s.roots.get (convOpKind k)

/-- root type names of a schema value are not `__*` names -/
def RootsOk (s : SchemaIR.Schema) : Prop := ∀ k n, s.rootName k = some n → isIntrospectionName n = false

/-- type names of a schema value are pairwise distinct (what `SchemaBuilder::extend` guarantees) -/
def NamesNodup (s : SchemaIR.Schema) : Prop := (s.types.map (·.name)).Nodup

/-! ### small facts -/

theorem convTypeDef_name (t : TypeDef) : (convTypeDef t).name = t.name := by
  cases h : t.kind <;> simp [convTypeDef, h]

theorem convTypeDef_kind (t : TypeDef) : (convTypeDef t).kind = convKind t.kind := by
  cases h : t.kind <;> simp [convTypeDef, h, convKind]

theorem unconvTypeDef_name (t : ITypeDef) : (unconvTypeDef t).name = t.name := by
  cases t with | mk kind name desc fields interfaces possible members inputs =>
  cases kind <;> rfl

theorem gql_typeDefs_eq (doc : TsDoc) : (Gql.Schema.mk doc).typeDefs.map convTypeDef = userTypes doc := by
  induction doc with
  | nil => rfl
  | cons item rest ih =>
    cases item <;> simp_all [Gql.Schema.typeDefs, userTypes]

theorem gql_directiveDefs_eq (doc : TsDoc) :
    (Gql.Schema.mk doc).directiveDefs.map convDirectiveDef = userDirectives doc := by
  induction doc with
  | nil => rfl
  | cons item rest ih =>
    cases item <;> simp_all [Gql.Schema.directiveDefs, userDirectives]

theorem gql_schemaDefs_eq (doc : TsDoc) : (Gql.Schema.mk doc).schemaDefs = schemaDefs doc := by
  induction doc with
  | nil => rfl
  | cons item rest ih =>
    cases item <;> simp_all [Gql.Schema.schemaDefs, schemaDefs]

theorem typeKind_beq (a b : TypeKind) : (a == b) = decide (a = b) := by
  cases a <;> cases b <;> rfl

theorem beq_comm_str (a b : String) : (a == b) = (b == a) := by
  rw [Bool.eq_iff_iff, beq_iff_eq, beq_iff_eq]; exact eq_comm

theorem find?_map_name {α β : Type} (f : α → β) (nameA : α → String) (nameB : β → String)
    (h : ∀ a, nameB (f a) = nameA a) (l : List α) (n : String) :
    (l.map f).find? (fun b => nameB b == n) = (l.find? (fun a => nameA a == n)).map f := by
  induction l with
  | nil => rfl
  | cons x r ih =>
    simp only [List.map_cons, List.find?_cons, h]
    cases nameA x == n with
    | true => rfl
    | false => exact ih

theorem gql_typeDefs_append (a b : TsDoc) :
    (Gql.Schema.mk (a ++ b)).typeDefs = (Gql.Schema.mk a).typeDefs ++ (Gql.Schema.mk b).typeDefs := by
  simp [Gql.Schema.typeDefs, List.filterMap_append]
theorem gql_directiveDefs_append (a b : TsDoc) :
    (Gql.Schema.mk (a ++ b)).directiveDefs = (Gql.Schema.mk a).directiveDefs ++ (Gql.Schema.mk b).directiveDefs := by
  simp [Gql.Schema.directiveDefs, List.filterMap_append]
theorem gql_schemaDefs_append (a b : TsDoc) :
    (Gql.Schema.mk (a ++ b)).schemaDefs = (Gql.Schema.mk a).schemaDefs ++ (Gql.Schema.mk b).schemaDefs := by
  simp [Gql.Schema.schemaDefs, List.filterMap_append]

/-! ### a document sees its `ast_to_type_system` schema -/

theorem opKind_beq (a b : OpKind) : (a == b) = decide (a = b) := by
  cases a <;> cases b <;> rfl

theorem get_set (r : Roots) (k k' : OpK) (n : String) :
    (r.set k' n).get k = if k' = k then some n else r.get k := by
  cases k <;> cases k' <;> simp [Roots.set, Roots.get]

theorem convOpKind_inj {a b : OpKind} : convOpKind a = convOpKind b ↔ a = b := by
  cases a <;> cases b <;> simp [convOpKind]

theorem setRoots_get (k : OpKind) : ∀ (l : List (OpKind × Name × Pos)) (r : Roots),
    (setRoots r l).get (convOpKind k)
      = l.foldl (fun acc (x : OpKind × Name × Pos) => if x.1 == k then some x.2.1 else acc) (r.get (convOpKind k))
  | [], r => rfl
  | (k', n, p) :: rest, r => by
    simp only [setRoots, List.foldl_cons]
    rw [setRoots_get k rest, get_set, opKind_beq]
    simp only [convOpKind_inj, decide_eq_true_eq]

theorem foldRoots_get (k : OpKind) : ∀ (ds : List SchemaDef) (r : Roots),
    (foldRoots r ds).get (convOpKind k)
      = (ds.flatMap (·.roots)).foldl (fun acc (x : OpKind × Name × Pos) => if x.1 == k then some x.2.1 else acc)
          (r.get (convOpKind k))
  | [], r => rfl
  | d :: ds, r => by
    simp only [foldRoots, List.foldl_cons, List.flatMap_cons, List.foldl_append]
    have := foldRoots_get k ds (setRoots r d.roots)
    simp only [foldRoots] at this
    rw [this, setRoots_get]

theorem explicitRoot?_eq (G : Gql.Schema) (k : OpKind) :
    G.explicitRoot? k
      = (G.schemaDefs.flatMap (·.roots)).foldl
          (fun acc (x : OpKind × Name × Pos) => if x.1 == k then some x.2.1 else acc) none := rfl

theorem foldRoots_nil_get (ds : List SchemaDef) (h : ds.flatMap (·.roots) = []) (k : OpK) :
    (foldRoots {} ds).get k = none := by
  have : ∀ k' : OpKind, (foldRoots {} ds).get (convOpKind k') = none := by
    intro k'; rw [foldRoots_get, h]; cases k' <;> rfl
  cases k
  · exact this .query
  · exact this .mutation
  · exact this .subscription

/-- the schema definitions of a parsed document carry parsed positions -/
def ParsedSchemaDefs (doc : TsDoc) : Prop := ∀ d ∈ schemaDefs doc, d.pos.builtin = false

instance (doc : TsDoc) : Decidable (ParsedSchemaDefs doc) := by unfold ParsedSchemaDefs; infer_instance

theorem sees_doc (doc : TsDoc) (hp : ParsedSchemaDefs doc) : Sees ⟨doc⟩ (astToSchema doc) := by
  refine ⟨fun n => ?_, fun n => ?_, ?_, fun k => ?_⟩
  · simp only [SchemaIR.Schema.typeDef?, astToSchema_types, find?_extendTypes, List.nil_append,
      ← gql_typeDefs_eq, Gql.Schema.typeDef?]
    rw [find?_map_name convTypeDef (·.name) (·.name) convTypeDef_name, Option.map_map]
    rfl
  · simp only [SchemaIR.Schema.directiveDef?, astToSchema_directives, find?_extendDirectives, List.nil_append,
      ← gql_directiveDefs_eq, Gql.Schema.directiveDef?]
    rw [find?_map_name convDirectiveDef (·.name) (·.name) (fun _ => rfl), Option.map_map]
    rfl
  · simp only [hasExplicitSchema, gql_schemaDefs_eq, SchemaIR.Schema.rootsDeclared, astToSchema_explicit,
      astToSchema_roots]
    cases hs : schemaDefs doc with
    | nil => rfl
    | cons d rest =>
      have := hp d (by simp [hs])
      simp [this]
  · rw [astToSchema_roots, foldRoots_get, explicitRoot?_eq, gql_schemaDefs_eq]
    cases k <;> rfl

/-! ### the document view of a schema value -/

def unconvDirectiveDef (d : IDirectiveDef) : DirectiveDef :=
  { desc := d.desc, name := d.name, namePos := bpos, args := d.args.map unconvIV, repeatable := d.repeatable,
    locations := d.locations, pos := bpos }

/-- The document view of a schema value: `type_system_to_ast` (a schema definition listing the root types that are
    set, the type definitions in order) followed by the directive definitions.  The schema definition is there — and
    carries a parsed position — exactly when the schema value declares root types: this is what `check_operation`
    tests (`root_types_are_declared`, /repo 4dcb71b). -/
def ofIR (s : SchemaIR.Schema) : Gql.Schema :=
  ⟨(if s.rootsDeclared then [TsItem.schemaDef { desc := s.desc, roots := rootEntries s.roots, pos := {} }] else [])
    ++ s.types.map (fun t => TsItem.typeDef (unconvTypeDef t))
    ++ s.directives.map (fun d => TsItem.directiveDef (unconvDirectiveDef d))⟩

theorem gql_typeDefs_types (l : List ITypeDef) :
    (Gql.Schema.mk (l.map (fun t => TsItem.typeDef (unconvTypeDef t)))).typeDefs = l.map unconvTypeDef := by
  induction l with
  | nil => rfl
  | cons x r ih => simp_all [Gql.Schema.typeDefs]
theorem gql_typeDefs_dirs (l : List IDirectiveDef) :
    (Gql.Schema.mk (l.map (fun d => TsItem.directiveDef (unconvDirectiveDef d)))).typeDefs = [] := by
  induction l with
  | nil => rfl
  | cons x r ih => simp_all [Gql.Schema.typeDefs]
theorem gql_directiveDefs_types (l : List ITypeDef) :
    (Gql.Schema.mk (l.map (fun t => TsItem.typeDef (unconvTypeDef t)))).directiveDefs = [] := by
  induction l with
  | nil => rfl
  | cons x r ih => simp_all [Gql.Schema.directiveDefs]
theorem gql_directiveDefs_dirs (l : List IDirectiveDef) :
    (Gql.Schema.mk (l.map (fun d => TsItem.directiveDef (unconvDirectiveDef d)))).directiveDefs
      = l.map unconvDirectiveDef := by
  induction l with
  | nil => rfl
  | cons x r ih => simp_all [Gql.Schema.directiveDefs]
theorem gql_schemaDefs_types (l : List ITypeDef) :
    (Gql.Schema.mk (l.map (fun t => TsItem.typeDef (unconvTypeDef t)))).schemaDefs = [] := by
  induction l with
  | nil => rfl
  | cons x r ih => simp_all [Gql.Schema.schemaDefs]
theorem gql_schemaDefs_dirs (l : List IDirectiveDef) :
    (Gql.Schema.mk (l.map (fun d => TsItem.directiveDef (unconvDirectiveDef d)))).schemaDefs = [] := by
  induction l with
  | nil => rfl
  | cons x r ih => simp_all [Gql.Schema.schemaDefs]

theorem ofIR_typeDefs (s : SchemaIR.Schema) : (ofIR s).typeDefs = s.types.map unconvTypeDef := by
  simp only [ofIR, gql_typeDefs_append, gql_typeDefs_types, gql_typeDefs_dirs, List.append_nil]
  split <;> rfl

theorem ofIR_directiveDefs (s : SchemaIR.Schema) : (ofIR s).directiveDefs = s.directives.map unconvDirectiveDef := by
  simp only [ofIR, gql_directiveDefs_append, gql_directiveDefs_types, gql_directiveDefs_dirs, List.append_nil]
  split <;> rfl

theorem ofIR_schemaDefs (s : SchemaIR.Schema) :
    (ofIR s).schemaDefs
      = if s.rootsDeclared then [{ desc := s.desc, roots := rootEntries s.roots, pos := {} }] else [] := by
  simp only [ofIR, gql_schemaDefs_append, gql_schemaDefs_types, gql_schemaDefs_dirs, List.append_nil]
  split <;> rfl

theorem ofIR_typeDef? (s : SchemaIR.Schema) (n : Name) :
    (ofIR s).typeDef? n = (s.typeDef? n).map unconvTypeDef := by
  simp only [Gql.Schema.typeDef?, ofIR_typeDefs, SchemaIR.Schema.typeDef?]
  exact find?_map_name unconvTypeDef (·.name) (·.name) unconvTypeDef_name _ _

theorem ofIR_directiveDef? (s : SchemaIR.Schema) (n : Name) :
    (ofIR s).directiveDef? n = (s.directiveDef? n).map unconvDirectiveDef := by
  simp only [Gql.Schema.directiveDef?, ofIR_directiveDefs, SchemaIR.Schema.directiveDef?]
  exact find?_map_name unconvDirectiveDef (·.name) (·.name) (fun _ => rfl) _ _

theorem eraseDirective_roundtrip (d : IDirectiveDef) :
    eraseDirective (convDirectiveDef (unconvDirectiveDef d)) = eraseDirective d := by
  cases d with | mk name desc locations args repeatable =>
  simp [eraseDirective, convDirectiveDef, unconvDirectiveDef, List.map_map, Function.comp_def, eraseIV_roundtrip]

theorem rootEntries_get (r : Roots) (k : OpKind) :
    (rootEntries r).foldl (fun acc (x : OpKind × Name × Pos) => if x.1 == k then some x.2.1 else acc) none
      = r.get (convOpKind k) := by
  cases r with | mk q m s =>
  cases k <;> cases q <;> cases m <;> cases s <;> rfl

theorem sees_ofIR (s : SchemaIR.Schema) (hclean : ∀ t ∈ s.types, cleanType t = t) : Sees (ofIR s) s := by
  refine ⟨fun n => ?_, fun n => ?_, ?_, fun k => ?_⟩
  · rw [ofIR_typeDef?]
    cases hf : s.typeDef? n with
    | none => rfl
    | some t =>
      have ht : t ∈ s.types := List.mem_of_find?_eq_some hf
      simp only [Option.map_some, tv, eraseType_roundtrip, hclean t ht]
  · rw [ofIR_directiveDef?]
    cases hf : s.directiveDef? n with
    | none => rfl
    | some d => simp only [Option.map_some, dv, eraseDirective_roundtrip]
  · simp only [hasExplicitSchema, ofIR_schemaDefs]
    cases s.rootsDeclared <;> rfl
  · rw [explicitRoot?_eq, ofIR_schemaDefs]
    cases hd : s.rootsDeclared with
    | true => simp only [if_true, List.flatMap_cons, List.flatMap_nil, List.append_nil]; exact rootEntries_get _ _
    | false =>
      simp only [SchemaIR.Schema.rootsDeclared, Bool.or_eq_false_iff] at hd
      obtain ⟨⟨⟨_, hq⟩, hm⟩, hs⟩ := hd
      cases k <;> simp_all [convOpKind, Roots.get]

/-! ### `ifaceBoth` through a schema value -/

theorem contains_map_name {α : Type} (name : α → String) (acc : List α) (x : String) :
    (acc.map name).contains x = acc.any (fun u => name u == x) := by
  induction acc with
  | nil => rfl
  | cons a r ih =>
    simp only [List.map_cons, List.contains_cons, List.any_cons, ih]
    congr 1
    exact beq_comm_str _ _

theorem typeNames_fold (l : List TypeDef) (acc : List ITypeDef) :
    l.foldl (fun a t => if a.contains t.name then a else a ++ [t.name]) (acc.map (·.name))
      = (extendTypes acc (l.map convTypeDef)).map (·.name) := by
  induction l generalizing acc with
  | nil => rfl
  | cons t r ih =>
    simp only [List.foldl_cons, List.map_cons, extendTypes, contains_map_name, convTypeDef_name]
    split
    · exact ih acc
    · have := ih (acc ++ [convTypeDef t])
      simpa [convTypeDef_name] using this

/-- `type_names` of a document view = the names of the `ast_to_type_system` types, in order -/
theorem typeNames_eq (G : Gql.Schema) :
    G.typeNames = (extendTypes [] (G.typeDefs.map convTypeDef)).map (·.name) := by
  have := typeNames_fold G.typeDefs []
  simpa [Gql.Schema.typeNames] using this

theorem mem_extendTypes (acc l : List ITypeDef) (t : ITypeDef) (h : t ∈ extendTypes acc l) : t ∈ acc ∨ t ∈ l := by
  induction l generalizing acc with
  | nil => exact Or.inl h
  | cons x r ih =>
    simp only [extendTypes] at h
    rcases ih _ h with h | h
    · split at h
      · exact Or.inl h
      · rcases List.mem_append.mp h with h | h
        · exact Or.inl h
        · exact Or.inr (by simp_all)
    · exact Or.inr (by simp [h])

theorem extendTypes_names_iff (acc l : List ITypeDef) (n : String) :
    n ∈ (extendTypes acc l).map (·.name) ↔ n ∈ (acc ++ l).map (·.name) := by
  have h := find?_extendTypes acc l n
  constructor
  · intro hm
    obtain ⟨t, ht, hn⟩ := List.mem_map.mp hm
    rcases mem_extendTypes acc l t ht with h' | h'
    · exact List.mem_map.mpr ⟨t, by simp [h'], hn⟩
    · exact List.mem_map.mpr ⟨t, by simp [h'], hn⟩
  · intro hm
    obtain ⟨t, ht, hn⟩ := List.mem_map.mp hm
    have hs : ((acc ++ l).find? (·.name == n)).isSome = true := by
      rw [List.find?_isSome]; exact ⟨t, ht, by simp [hn]⟩
    rw [← h] at hs
    obtain ⟨u, hu⟩ := Option.isSome_iff_exists.mp hs
    exact List.mem_map.mpr ⟨u, List.mem_of_find?_eq_some hu, by simpa using List.find?_some hu⟩

theorem extendTypes_nodup (acc l : List ITypeDef) (h : (acc.map (·.name)).Nodup) :
    ((extendTypes acc l).map (·.name)).Nodup := by
  induction l generalizing acc with
  | nil => exact h
  | cons x r ih =>
    simp only [extendTypes]
    apply ih
    split
    · exact h
    · rename_i hany
      simp only [List.map_append, List.map_cons, List.map_nil]
      rw [List.nodup_append]
      refine ⟨h, by simp, ?_⟩
      intro a ha b hb
      have : b = x.name := by simpa using hb
      subst this
      intro e
      apply hany
      obtain ⟨u, hu, hun⟩ := List.mem_map.mp ha
      exact List.any_eq_true.mpr ⟨u, hu, by simp [hun, e]⟩

theorem find?_of_mem_nodup {l : List ITypeDef} (h : (l.map (·.name)).Nodup) {t : ITypeDef} (ht : t ∈ l) :
    l.find? (·.name == t.name) = some t := by
  induction l with
  | nil => cases ht
  | cons x r ih =>
    simp only [List.map_cons, List.nodup_cons] at h
    simp only [List.find?_cons]
    rcases List.mem_cons.mp ht with rfl | ht'
    · simp
    · have hne : (x.name == t.name) = false := by
        rw [beq_eq_false_iff_ne]
        intro e
        exact h.1 (e ▸ List.mem_map.mpr ⟨t, ht', rfl⟩)
      simp only [hne]
      exact ih h.2 ht'

/-- the test "`o` is an object type implementing both `a` and `b`" on a `Gql` definition and on a schema value -/
def bothQ (a b : Name) (o : TypeDef) : Bool := o.kind == .object && implementsIface o a && implementsIface o b
def bothQ' (a b : String) (t : ITypeDef) : Bool := t.kind == .object && t.interfaces.contains a && t.interfaces.contains b

theorem any_fst_eq (l : List (Name × Pos)) (a : Name) : l.any (·.1 == a) = (l.map (·.1)).contains a := by
  induction l with
  | nil => rfl
  | cons x r ih =>
    simp only [List.any_cons, List.map_cons, List.contains_cons, ih]
    congr 1
    exact beq_comm_str _ _

theorem bothQ_tv (a b : Name) (o : TypeDef) : bothQ a b o = bothQ' a b (tv o) := by
  unfold bothQ bothQ' implementsIface
  cases h : o.kind <;> simp [tv, eraseType, convTypeDef, h, any_fst_eq, typeKind_beq]

theorem bothQ'_erase (a b : String) (t : ITypeDef) : bothQ' a b (eraseType t) = bothQ' a b t := rfl

theorem mem_typeNames_iff' (G : Gql.Schema) (n : Name) : n ∈ G.typeNames ↔ (G.typeDef? n).isSome = true := by
  rw [typeNames_eq, extendTypes_names_iff, List.nil_append, Gql.Schema.typeDef?, List.find?_isSome]
  simp only [List.map_map, List.mem_map, Function.comp_def, convTypeDef_name]
  constructor
  · rintro ⟨t, ht, rfl⟩; exact ⟨t, ht, by simp⟩
  · rintro ⟨t, ht, hn⟩; exact ⟨t, ht, by simpa using hn⟩

theorem ifaceBoth_iff (G : Gql.Schema) (a b : Name) :
    ifaceBoth G a b = true ↔ ∃ n o, G.typeDef? n = some o ∧ bothQ a b o = true := by
  unfold ifaceBoth
  rw [List.any_eq_true]
  constructor
  · rintro ⟨n, _, h⟩
    cases ho : G.typeDef? n with
    | none => simp [ho] at h
    | some o => exact ⟨n, o, ho, by simpa [ho, bothQ] using h⟩
  · rintro ⟨n, o, ho, hq⟩
    refine ⟨n, (mem_typeNames_iff' G n).2 (by simp [ho]), ?_⟩
    simpa [ho, bothQ] using hq

theorem ifaceBoth_sees {G : Gql.Schema} {s : SchemaIR.Schema} (h : Sees G s) (a b : Name) :
    ifaceBoth G a b = true ↔ ∃ n t, s.typeDef? n = some t ∧ bothQ' a b t = true := by
  rw [ifaceBoth_iff]
  constructor
  · rintro ⟨n, o, ho, hq⟩
    have := h.types n
    rw [ho] at this
    cases ht : s.typeDef? n with
    | none => simp [ht] at this
    | some t =>
      refine ⟨n, t, ht, ?_⟩
      have e : tv o = eraseType t := by simpa [ht] using this
      rw [bothQ_tv, e, bothQ'_erase] at hq
      exact hq
  · rintro ⟨n, t, ht, hq⟩
    have := h.types n
    rw [ht] at this
    cases ho : G.typeDef? n with
    | none => simp [ho] at this
    | some o =>
      refine ⟨n, o, ho, ?_⟩
      have e : tv o = eraseType t := by simpa [ho] using this
      rw [bothQ_tv, e, bothQ'_erase]
      exact hq

/-- with distinct type names, "some object type implements both" is a function of `implementsB` -/
theorem both_iff_implementsB {s : SchemaIR.Schema} (hn : NamesNodup s) (a b : String) :
    (∃ n t, s.typeDef? n = some t ∧ bothQ' a b t = true) ↔ ∃ o, implementsB s a o = true ∧ implementsB s b o = true := by
  simp only [implementsB, SchemaIR.Schema.objectImplementers, List.contains_iff_mem, List.mem_map, List.mem_filter,
    Bool.and_eq_true, bothQ']
  constructor
  · rintro ⟨n, t, ht, ⟨hk, ha⟩, hb⟩
    have hm : t ∈ s.types := List.mem_of_find?_eq_some ht
    exact ⟨t.name, ⟨t, ⟨hm, hk, ha⟩, rfl⟩, ⟨t, ⟨hm, hk, hb⟩, rfl⟩⟩
  · rintro ⟨o, ⟨t₁, ⟨hm₁, hk₁, ha⟩, rfl⟩, ⟨t₂, ⟨hm₂, _, hb⟩, he⟩⟩
    have h1 := find?_of_mem_nodup hn hm₁
    have h2 := find?_of_mem_nodup hn hm₂
    rw [he, h1] at h2
    have : t₁ = t₂ := by simpa using h2
    subst this
    exact ⟨t₁.name, t₁, h1, ⟨hk₁, ha⟩, hb⟩

/-! ### root types -/

theorem rootsDeclared_false {s : SchemaIR.Schema} (h : s.rootsDeclared = false) (k : OpK) : s.roots.get k = none := by
  simp only [SchemaIR.Schema.rootsDeclared, Bool.or_eq_false_iff] at h
  obtain ⟨⟨⟨_, hq⟩, hm⟩, hs⟩ := h
  cases k <;> simp_all [Roots.get]

theorem defaultRootName_conv (k : OpKind) :
    Gql.Schema.defaultRootName k = SchemaIR.Schema.defaultRootName (convOpKind k) := by
  cases k <;> rfl

/-- the root type definition of an operation kind, through a schema value -/
theorem rootDef?_sees {G : Gql.Schema} {s : SchemaIR.Schema} (h : Sees G s) (k : OpKind) :
    (rootDef? G k).map tv = (s.rootName (convOpKind k)).bind (fun n => (s.typeDef? n).map eraseType) := by
  unfold rootDef? Gql.Schema.rootName SchemaIR.Schema.rootName
  rw [h.declared, h.roots]
  cases hd : s.rootsDeclared with
  | false =>
    simp only [Bool.false_and, Bool.false_eq_true, if_false, rootsDeclared_false hd, Option.getD_none,
      Option.bind_some, defaultRootName_conv]
    exact h.types _
  | true =>
    cases hr : s.roots.get (convOpKind k) with
    | none => simp
    | some n => simpa using h.types n

theorem viewRoot_eq {s : SchemaIR.Schema} (hr : RootsOk s) (k : OpK) :
    viewRoot s k = (s.rootName k).bind (fun n => (s.typeDef? n).map eraseType) := by
  unfold viewRoot
  cases hn : s.rootName k with
  | none => rfl
  | some n => simp [viewType, hr k n hn]

/-! ### Goal 1: the lookups of the checker are a function of `lookupOf` -/

theorem agreeRoots_of_equiv {G₁ G₂ : Gql.Schema} {s₁ s₂ : SchemaIR.Schema} (h₁ : Sees G₁ s₁) (h₂ : Sees G₂ s₂)
    (he : s₁ ≃ s₂) (n₁ : NamesNodup s₁) (n₂ : NamesNodup s₂) (r₁ : RootsOk s₁) (r₂ : RootsOk s₂) :
    AgreeRoots G₁ G₂ := by
  refine ⟨⟨fun n hn => ?_, fun n hn => ?_, fun a b => ?_⟩, fun k => ?_⟩
  · have := he.types n
    simp only [viewType, hn, Bool.false_eq_true, if_false] at this
    rw [h₁.types, h₂.types, this]
  · have := he.directives n
    simp only [viewDirective, hn, Bool.false_eq_true, if_false] at this
    rw [h₁.directives, h₂.directives, this]
  · rw [Bool.eq_iff_iff, ifaceBoth_sees h₁, ifaceBoth_sees h₂, both_iff_implementsB n₁, both_iff_implementsB n₂]
    simp only [he.implementers]
  · rw [rootDef?_sees h₁, rootDef?_sees h₂, ← viewRoot_eq r₁, ← viewRoot_eq r₂, he.roots]

/-! ### a decidable sufficient condition for `Closed` -/

def refOkB (S : Gql.Schema) (n : Name) : Bool := !isIntrospectionName n && (S.typeDef? n).isSome

def isObjectB (S : Gql.Schema) (n : Name) : Bool :=
  match S.typeDef? n with
  | some o => (match o.kind with | .object => true | _ => false)
  | none => false

/-- every reference inside a definition of the view is resolvable (checked over ALL definitions, which is more than
    `Closed` asks) -/
def closedB (S : Gql.Schema) : Bool :=
  S.typeDefs.all (fun td =>
    td.fields.all (fun f => !isIntrospectionName f.ty.unwrapped && f.args.all (fun a => refOkB S a.ty.unwrapped)) &&
    td.inputs.all (fun f => refOkB S f.ty.unwrapped) &&
    td.members.all (fun m => !isIntrospectionName m.1 && isObjectB S m.1) &&
    !isIntrospectionName td.name) &&
  S.directiveDefs.all (fun d => d.args.all (fun a => refOkB S a.ty.unwrapped))

theorem refOkB_iff (S : Gql.Schema) (n : Name) : refOkB S n = true ↔ RefOk S n := by
  simp [refOkB, RefOk]

theorem closed_of_closedB {S : Gql.Schema} (h : closedB S = true) : Closed S := by
  simp only [closedB, Bool.and_eq_true, List.all_eq_true, Bool.not_eq_true'] at h
  obtain ⟨ht, hd⟩ := h
  refine ⟨fun n td hf f hfm => ?_, fun n td hf f hfm => ?_, fun n td hf m hm => ?_, fun n dd hf a ha => ?_,
    fun n td hf => ?_⟩
  · have := (ht td (List.mem_of_find?_eq_some hf)).1.1.1 f hfm
    exact ⟨this.1, fun a ha => (refOkB_iff S _).1 (this.2 a ha)⟩
  · exact (refOkB_iff S _).1 ((ht td (List.mem_of_find?_eq_some hf)).1.1.2 f hfm)
  · have := (ht td (List.mem_of_find?_eq_some hf)).1.2 m hm
    refine ⟨this.1, ?_⟩
    have ho := this.2
    unfold isObjectB at ho
    cases hx : S.typeDef? m.1 with
    | none => simp [hx] at ho
    | some o =>
      refine ⟨o, rfl, ?_⟩
      simp only [hx] at ho
      cases hk : o.kind <;> simp_all
  · exact (refOkB_iff S _).1 (hd dd (List.mem_of_find?_eq_some hf) a ha)
  · have h1 := (ht td (List.mem_of_find?_eq_some hf)).2
    have h2 : td.name = n := by simpa using List.find?_some hf
    rw [← h2]; exact h1

end NitroVerif.Bridge
