/-
`parse_no_panic`, the walk through the builders (helper lemmas for Props/C08), part 3: type-system definitions and
extensions and `build_type_system_or_extension_document` (builder/type_system/*.rs, builder.rs).
-/
import NitroVerif.Lemmas.ParseQuietOp
namespace NitroVerif.Shape
open NitroVerif.Peg NitroVerif.Gen NitroVerif.Gen.Parts NitroVerif.Build NitroVerif.ParseText

/-! ### acceptance of the sites, evaluated by the kernel over the generated grammar and patterns -/

theorem acc_Description : accepts (.onlyChild OC_Description) (ruleShape gList R.Description) = true := by decide +kernel
theorem acc_InputValueDefinition :
    accepts (.parts P_InputValueDefinition) (ruleShape gList R.InputValueDefinition) = true := by decide +kernel
theorem acc_ArgumentsDefinition :
    accepts (.allChildren AC_ArgumentsDefinition) (ruleShape gList R.ArgumentsDefinition) = true := by decide +kernel
theorem acc_InputFieldsDefinition :
    accepts (.allChildren AC_InputFieldsDefinition) (ruleShape gList R.InputFieldsDefinition) = true := by decide +kernel
theorem acc_FieldsDefinition :
    accepts (.allChildren AC_FieldsDefinition) (ruleShape gList R.FieldsDefinition) = true := by decide +kernel
theorem acc_FieldDefinition : accepts (.parts P_FieldDefinition) (ruleShape gList R.FieldDefinition) = true := by decide +kernel
theorem acc_EnumValueDefinition :
    accepts (.parts P_EnumValueDefinition) (ruleShape gList R.EnumValueDefinition) = true := by decide +kernel
theorem acc_ImplementsInterfaces :
    accepts (.headThenAll R.KEYWORD_implements R.NamedType) (ruleShape gList R.ImplementsInterfaces) = true := by decide +kernel
theorem acc_UnionMemberTypes :
    accepts (.allChildren AC_UnionMemberTypes) (ruleShape gList R.UnionMemberTypes) = true := by decide +kernel
theorem acc_EnumValuesDefinition :
    accepts (.allChildren AC_EnumValuesDefinition) (ruleShape gList R.EnumValuesDefinition) = true := by decide +kernel
theorem acc_TypeDefinition : accepts (.onlyChild OC_TypeDefinition) (ruleShape gList R.TypeDefinition) = true := by decide +kernel
theorem acc_ScalarTypeDefinition :
    accepts (.parts P_ScalarTypeDefinition) (ruleShape gList R.ScalarTypeDefinition) = true := by decide +kernel
theorem acc_ObjectTypeDefinition :
    accepts (.parts P_ObjectTypeDefinition) (ruleShape gList R.ObjectTypeDefinition) = true := by decide +kernel
theorem acc_InterfaceTypeDefinition :
    accepts (.parts P_InterfaceTypeDefinition) (ruleShape gList R.InterfaceTypeDefinition) = true := by decide +kernel
theorem acc_UnionTypeDefinition :
    accepts (.parts P_UnionTypeDefinition) (ruleShape gList R.UnionTypeDefinition) = true := by decide +kernel
theorem acc_EnumTypeDefinition :
    accepts (.parts P_EnumTypeDefinition) (ruleShape gList R.EnumTypeDefinition) = true := by decide +kernel
theorem acc_InputObjectTypeDefinition :
    accepts (.parts P_InputObjectTypeDefinition) (ruleShape gList R.InputObjectTypeDefinition) = true := by decide +kernel
theorem acc_TypeExtension : accepts (.onlyChild OC_TypeExtension) (ruleShape gList R.TypeExtension) = true := by decide +kernel
theorem acc_ScalarTypeExtension :
    accepts (.parts P_ScalarTypeExtension) (ruleShape gList R.ScalarTypeExtension) = true := by decide +kernel
theorem acc_ObjectTypeExtension :
    accepts (.parts P_ObjectTypeExtension) (ruleShape gList R.ObjectTypeExtension) = true := by decide +kernel
theorem acc_InterfaceTypeExtension :
    accepts (.parts P_InterfaceTypeExtension) (ruleShape gList R.InterfaceTypeExtension) = true := by decide +kernel
theorem acc_UnionTypeExtension :
    accepts (.parts P_UnionTypeExtension) (ruleShape gList R.UnionTypeExtension) = true := by decide +kernel
theorem acc_EnumTypeExtension :
    accepts (.parts P_EnumTypeExtension) (ruleShape gList R.EnumTypeExtension) = true := by decide +kernel
theorem acc_InputObjectTypeExtension :
    accepts (.parts P_InputObjectTypeExtension) (ruleShape gList R.InputObjectTypeExtension) = true := by decide +kernel
theorem acc_RootOperationTypeDefinitions :
    accepts (.allChildren AC_RootOperationTypeDefinitions) (ruleShape gList R.RootOperationTypeDefinitions) = true := by
  decide +kernel
theorem acc_RootOperationTypeDefinition :
    accepts (.parts P_RootOperationTypeDefinition) (ruleShape gList R.RootOperationTypeDefinition) = true := by decide +kernel
theorem acc_SchemaDefinition : accepts (.parts P_SchemaDefinition) (ruleShape gList R.SchemaDefinition) = true := by decide +kernel
theorem acc_SchemaExtension : accepts (.parts P_SchemaExtension) (ruleShape gList R.SchemaExtension) = true := by decide +kernel
theorem acc_DirectiveDefinition :
    accepts (.parts P_DirectiveDefinition) (ruleShape gList R.DirectiveDefinition) = true := by decide +kernel
theorem acc_DirectiveLocations :
    accepts (.allChildren AC_DirectiveLocations) (ruleShape gList R.DirectiveLocations) = true := by decide +kernel
theorem acc_TypeSystemDefinitionOrExtension :
    accepts (.onlyChild OC_TypeSystemDefinitionOrExtension) (ruleShape gList R.TypeSystemDefinitionOrExtension) = true := by
  decide +kernel
theorem acc_TypeSystemDefinition :
    accepts (.onlyChild OC_TypeSystemDefinition) (ruleShape gList R.TypeSystemDefinition) = true := by decide +kernel
theorem acc_TypeSystemExtension :
    accepts (.onlyChild OC_TypeSystemExtension) (ruleShape gList R.TypeSystemExtension) = true := by decide +kernel

/-! ### descriptions, input values, fields, enum values -/

theorem quiet_optDesc {inp : List Char} {p : Pair} (hg : Good inp p) {o : Option Pair}
    (ho : OptOf R.Description p o) : Quiet (optDesc (Ctx.spec inp) o) := by
  cases o with
  | none => exact Quiet.ok _
  | some d =>
    obtain ⟨hdr, hdm⟩ := ho d rfl
    obtain ⟨c, _, hc, hgc, hoc, _⟩ := (hg.child hdm).only "Description" (hdr ▸ acc_Description)
    have hcr : c.rule = R.StringValue := by
      rcases hc with h | h
      · simp [OC_Description] at h
      · simpa [OC_Description] using h
    simp only [optDesc, buildDescription]
    rw [hoc, ok_bind]
    exact Quiet.bind (Quiet.bind (quiet_buildStringValue hgc hcr) fun ⟨_, _⟩ _ => Quiet.ok _) fun _ _ => Quiet.ok _

theorem quiet_buildInputValueDefinition {inp : List Char} (fuel : Nat) {p : Pair} (hg : Good inp p)
    (hr : p.rule = R.InputValueDefinition) : Quiet (buildInputValueDefinition (Ctx.spec inp) fuel p) := by
  obtain ⟨l, hl, hres⟩ := hg.parts (hr ▸ acc_InputValueDefinition)
  obtain ⟨desc, l, rfl, hdesc, hres⟩ := resOk_cons_opt hres
  obtain ⟨name, l, rfl, _, _, hres⟩ := resOk_cons_req hres
  obtain ⟨ty, l, rfl, htr, htm, hres⟩ := resOk_cons_req hres
  obtain ⟨dv, l, rfl, hdv, hres⟩ := resOk_cons_opt hres
  obtain ⟨dirs, l, rfl, hdirs, hres⟩ := resOk_cons_opt hres
  cases resOk_nil hres
  unfold buildInputValueDefinition
  rw [hl, ok_bind]
  refine Quiet.bind (quiet_optDesc hg hdesc) fun _ _ => ?_
  refine Quiet.bind (quiet_buildType fuel (hg.child htm) htr) fun _ _ => ?_
  refine Quiet.bind (quiet_optDefault fuel hg hdv) fun _ _ => ?_
  exact Quiet.bind (quiet_optDirs fuel hg hdirs) fun _ _ => Quiet.ok _

theorem quiet_buildArgumentsDefinition {inp : List Char} (fuel : Nat) {p : Pair} (hg : Good inp p)
    (hr : p.rule = R.ArgumentsDefinition) : Quiet (buildArgumentsDefinition (Ctx.spec inp) fuel p) := by
  obtain ⟨hall, hcs⟩ := hg.all (hr ▸ acc_ArgumentsDefinition)
  unfold buildArgumentsDefinition
  rw [hall, ok_bind]
  exact Quiet.mapM fun v hv => quiet_buildInputValueDefinition fuel (hcs v hv).2 (hcs v hv).1

theorem quiet_buildInputFieldsDefinition {inp : List Char} (fuel : Nat) {p : Pair} (hg : Good inp p)
    (hr : p.rule = R.InputFieldsDefinition) : Quiet (buildInputFieldsDefinition (Ctx.spec inp) fuel p) := by
  obtain ⟨hall, hcs⟩ := hg.all (hr ▸ acc_InputFieldsDefinition)
  unfold buildInputFieldsDefinition
  rw [hall, ok_bind]
  exact Quiet.mapM fun v hv => quiet_buildInputValueDefinition fuel (hcs v hv).2 (hcs v hv).1

theorem quiet_buildFieldsDefinition {inp : List Char} (fuel : Nat) {p : Pair} (hg : Good inp p)
    (hr : p.rule = R.FieldsDefinition) : Quiet (buildFieldsDefinition (Ctx.spec inp) fuel p) := by
  obtain ⟨hall, hcs⟩ := hg.all (hr ▸ acc_FieldsDefinition)
  unfold buildFieldsDefinition
  rw [hall, ok_bind]
  refine Quiet.mapM fun f hf => ?_
  obtain ⟨hfr, hgf⟩ := hcs f hf
  have hfr' : f.rule = R.FieldDefinition := hfr
  obtain ⟨l, hl, hres⟩ := hgf.parts (hfr' ▸ acc_FieldDefinition)
  obtain ⟨desc, l, rfl, hdesc, hres⟩ := resOk_cons_opt hres
  obtain ⟨name, l, rfl, _, _, hres⟩ := resOk_cons_req hres
  obtain ⟨args, l, rfl, hargs, hres⟩ := resOk_cons_opt hres
  obtain ⟨ty, l, rfl, htr, htm, hres⟩ := resOk_cons_req hres
  obtain ⟨dirs, l, rfl, hdirs, hres⟩ := resOk_cons_opt hres
  cases resOk_nil hres
  rw [hl, ok_bind]
  dsimp only
  refine Quiet.bind (quiet_optDesc hgf hdesc) fun _ _ => ?_
  cases args with
  | none =>
    dsimp only
    refine Quiet.bind (Quiet.pure _) fun _ _ => ?_
    refine Quiet.bind (quiet_buildType fuel (hgf.child htm) htr) fun _ _ => ?_
    exact Quiet.bind (quiet_optDirs fuel hgf hdirs) fun _ _ => Quiet.ok _
  | some a =>
    obtain ⟨har, ham⟩ := hargs a rfl
    dsimp only
    refine Quiet.bind (quiet_buildArgumentsDefinition fuel (hgf.child ham) har) fun _ _ => ?_
    refine Quiet.bind (quiet_buildType fuel (hgf.child htm) htr) fun _ _ => ?_
    exact Quiet.bind (quiet_optDirs fuel hgf hdirs) fun _ _ => Quiet.ok _

theorem quiet_buildEnumValueDefinition {inp : List Char} (fuel : Nat) {p : Pair} (hg : Good inp p)
    (hr : p.rule = R.EnumValueDefinition) : Quiet (buildEnumValueDefinition (Ctx.spec inp) fuel p) := by
  obtain ⟨l, hl, hres⟩ := hg.parts (hr ▸ acc_EnumValueDefinition)
  obtain ⟨desc, l, rfl, hdesc, hres⟩ := resOk_cons_opt hres
  obtain ⟨v, l, rfl, _, _, hres⟩ := resOk_cons_req hres
  obtain ⟨dirs, l, rfl, hdirs, hres⟩ := resOk_cons_opt hres
  cases resOk_nil hres
  unfold buildEnumValueDefinition
  rw [hl, ok_bind]
  refine Quiet.bind (quiet_optDesc hg hdesc) fun _ _ => ?_
  exact Quiet.bind (quiet_optDirs fuel hg hdirs) fun _ _ => Quiet.ok _

/-! ### `build_implements_interfaces` (hand-written loop) -/

theorem headAuto_tail {h r : RuleId} : ∀ (w : List RuleId), (headAuto h r).ok 1 w = true → ∀ x ∈ w, x = r := by
  intro w
  induction w with
  | nil => intro _ x hx; cases hx
  | cons a w ih =>
    intro hw x hx
    by_cases har : a = r
    · have h' : (headAuto h r).ok 1 w = true := by simpa [Auto.ok, Auto.run, headAuto, har] using hw
      rcases List.mem_cons.mp hx with rfl | hx
      · exact har
      · exact ih h' x hx
    · simp [Auto.ok, Auto.run, headAuto, har] at hw

theorem headAuto_ok {h r : RuleId} {w : List RuleId} (hw : (headAuto h r).ok 0 w = true) :
    ∃ w', w = h :: w' ∧ ∀ x ∈ w', x = r := by
  cases w with
  | nil => simp [Auto.ok, Auto.run, headAuto] at hw
  | cons a w =>
    by_cases hah : a = h
    · subst hah
      have h' : (headAuto a r).ok 1 w = true := by simpa [Auto.ok, Auto.run, headAuto] using hw
      exact ⟨w, rfl, headAuto_tail w h'⟩
    · simp [Auto.ok, Auto.run, headAuto, hah] at hw

theorem quiet_buildImplementsInterfaces {inp : List Char} {p : Pair} (hg : Good inp p)
    (hr : p.rule = R.ImplementsInterfaces) : Quiet (buildImplementsInterfaces (Ctx.spec inp) p) := by
  have hm := (deep_parts hg.deep).1
  rw [hr] at hm
  have hok : (headAuto R.KEYWORD_implements R.NamedType).ok 0 (p.children.map Pair.rule) = true :=
    acceptsA_sound (headAuto R.KEYWORD_implements R.NamedType) 0 (ruleShape gList R.ImplementsInterfaces)
      (by have h := acc_ImplementsInterfaces; simpa only [accepts] using h) _ hm
  obtain ⟨w', hw, hall⟩ := headAuto_ok hok
  unfold buildImplementsInterfaces
  cases hcs : p.children with
  | nil => rw [hcs] at hw; simp at hw
  | cons hd rest =>
    rw [hcs] at hw
    simp only [List.map_cons, List.cons.injEq] at hw
    obtain ⟨hhd, hrest⟩ := hw
    simp only [hhd, ne_eq, not_true_eq_false, if_false]
    refine Quiet.mapM fun n hn => ?_
    have : n.rule = R.NamedType := hall n.rule (hrest ▸ List.mem_map_of_mem hn)
    simp only [this, not_true_eq_false, if_false]
    exact Quiet.ok _

theorem quiet_optImplements {inp : List Char} {p : Pair} (hg : Good inp p) {o : Option Pair}
    (ho : OptOf R.ImplementsInterfaces p o) : Quiet (optImplements (Ctx.spec inp) o) := by
  cases o with
  | none => exact Quiet.ok _
  | some i => exact quiet_buildImplementsInterfaces (hg.child (ho i rfl).2) (ho i rfl).1

theorem quiet_unionMembers {inp : List Char} {p : Pair} (hg : Good inp p) {o : Option Pair}
    (ho : OptOf R.UnionMemberTypes p o) : Quiet (namedTypeIdents (Ctx.spec inp) AC_UnionMemberTypes o) := by
  cases o with
  | none => exact Quiet.ok _
  | some m =>
    obtain ⟨hmr, hmm⟩ := ho m rfl
    obtain ⟨hall, _⟩ := (hg.child hmm).all (hmr ▸ acc_UnionMemberTypes)
    simp only [namedTypeIdents]
    rw [hall, ok_bind]
    exact Quiet.ok _

theorem quiet_optFields {inp : List Char} (fuel : Nat) {p : Pair} (hg : Good inp p) {o : Option Pair}
    (ho : OptOf R.FieldsDefinition p o) : Quiet (optFields (Ctx.spec inp) fuel o) := by
  cases o with
  | none => exact Quiet.ok _
  | some f => exact quiet_buildFieldsDefinition fuel (hg.child (ho f rfl).2) (ho f rfl).1

theorem quiet_optEnumValues {inp : List Char} (fuel : Nat) {p : Pair} (hg : Good inp p) {o : Option Pair}
    (ho : OptOf R.EnumValuesDefinition p o) : Quiet (optEnumValues (Ctx.spec inp) fuel o) := by
  cases o with
  | none => exact Quiet.ok _
  | some v =>
    obtain ⟨hvr, hvm⟩ := ho v rfl
    obtain ⟨hall, hcs⟩ := (hg.child hvm).all (hvr ▸ acc_EnumValuesDefinition)
    simp only [optEnumValues]
    rw [hall, ok_bind]
    exact Quiet.mapM fun x hx => quiet_buildEnumValueDefinition fuel (hcs x hx).2 (hcs x hx).1

theorem quiet_optInputFields {inp : List Char} (fuel : Nat) {p : Pair} (hg : Good inp p) {o : Option Pair}
    (ho : OptOf R.InputFieldsDefinition p o) : Quiet (optInputFields (Ctx.spec inp) fuel o) := by
  cases o with
  | none => exact Quiet.ok _
  | some f => exact quiet_buildInputFieldsDefinition fuel (hg.child (ho f rfl).2) (ho f rfl).1

/-! ### type definitions and extensions -/

theorem quiet_buildTypeDefinition {inp : List Char} (fuel : Nat) {p : Pair} (hg : Good inp p)
    (hr : p.rule = R.TypeDefinition) : Quiet (buildTypeDefinition (Ctx.spec inp) fuel p) := by
  obtain ⟨c, _, hc, hgc, hoc, _⟩ := hg.only "TypeDefinition" (hr ▸ acc_TypeDefinition)
  unfold buildTypeDefinition
  rw [hoc, ok_bind]
  split
  · rename_i h1
    obtain ⟨l, hl, hres⟩ := hgc.parts (h1 ▸ acc_ScalarTypeDefinition)
    obtain ⟨desc, l, rfl, hdesc, hres⟩ := resOk_cons_opt hres
    obtain ⟨kw, l, rfl, _, _, hres⟩ := resOk_cons_req hres
    obtain ⟨name, l, rfl, _, _, hres⟩ := resOk_cons_req hres
    obtain ⟨dirs, l, rfl, hdirs, hres⟩ := resOk_cons_opt hres
    cases resOk_nil hres
    rw [hl, ok_bind]
    refine Quiet.bind (quiet_optDesc hgc hdesc) fun _ _ => ?_
    exact Quiet.bind (quiet_optDirs fuel hgc hdirs) fun _ _ => Quiet.ok _
  · split
    · rename_i h1 h2
      obtain ⟨l, hl, hres⟩ := hgc.parts (h2 ▸ acc_ObjectTypeDefinition)
      obtain ⟨desc, l, rfl, hdesc, hres⟩ := resOk_cons_opt hres
      obtain ⟨kw, l, rfl, _, _, hres⟩ := resOk_cons_req hres
      obtain ⟨name, l, rfl, _, _, hres⟩ := resOk_cons_req hres
      obtain ⟨impl, l, rfl, himpl, hres⟩ := resOk_cons_opt hres
      obtain ⟨dirs, l, rfl, hdirs, hres⟩ := resOk_cons_opt hres
      obtain ⟨fields, l, rfl, hfields, hres⟩ := resOk_cons_opt hres
      cases resOk_nil hres
      rw [hl, ok_bind]
      refine Quiet.bind (quiet_optDesc hgc hdesc) fun _ _ => ?_
      refine Quiet.bind (quiet_optImplements hgc himpl) fun _ _ => ?_
      refine Quiet.bind (quiet_optDirs fuel hgc hdirs) fun _ _ => ?_
      exact Quiet.bind (quiet_optFields fuel hgc hfields) fun _ _ => Quiet.ok _
    · split
      · rename_i h1 h2 h3
        obtain ⟨l, hl, hres⟩ := hgc.parts (h3 ▸ acc_InterfaceTypeDefinition)
        obtain ⟨desc, l, rfl, hdesc, hres⟩ := resOk_cons_opt hres
        obtain ⟨kw, l, rfl, _, _, hres⟩ := resOk_cons_req hres
        obtain ⟨name, l, rfl, _, _, hres⟩ := resOk_cons_req hres
        obtain ⟨impl, l, rfl, himpl, hres⟩ := resOk_cons_opt hres
        obtain ⟨dirs, l, rfl, hdirs, hres⟩ := resOk_cons_opt hres
        obtain ⟨fields, l, rfl, hfields, hres⟩ := resOk_cons_opt hres
        cases resOk_nil hres
        rw [hl, ok_bind]
        refine Quiet.bind (quiet_optDesc hgc hdesc) fun _ _ => ?_
        refine Quiet.bind (quiet_optImplements hgc himpl) fun _ _ => ?_
        refine Quiet.bind (quiet_optDirs fuel hgc hdirs) fun _ _ => ?_
        exact Quiet.bind (quiet_optFields fuel hgc hfields) fun _ _ => Quiet.ok _
      · split
        · rename_i h1 h2 h3 h4
          obtain ⟨l, hl, hres⟩ := hgc.parts (h4 ▸ acc_UnionTypeDefinition)
          obtain ⟨desc, l, rfl, hdesc, hres⟩ := resOk_cons_opt hres
          obtain ⟨kw, l, rfl, _, _, hres⟩ := resOk_cons_req hres
          obtain ⟨name, l, rfl, _, _, hres⟩ := resOk_cons_req hres
          obtain ⟨dirs, l, rfl, hdirs, hres⟩ := resOk_cons_opt hres
          obtain ⟨members, l, rfl, hmembers, hres⟩ := resOk_cons_opt hres
          cases resOk_nil hres
          rw [hl, ok_bind]
          refine Quiet.bind (quiet_optDesc hgc hdesc) fun _ _ => ?_
          refine Quiet.bind (quiet_optDirs fuel hgc hdirs) fun _ _ => ?_
          exact Quiet.bind (quiet_unionMembers hgc hmembers) fun _ _ => Quiet.ok _
        · split
          · rename_i h1 h2 h3 h4 h5
            obtain ⟨l, hl, hres⟩ := hgc.parts (h5 ▸ acc_EnumTypeDefinition)
            obtain ⟨desc, l, rfl, hdesc, hres⟩ := resOk_cons_opt hres
            obtain ⟨kw, l, rfl, _, _, hres⟩ := resOk_cons_req hres
            obtain ⟨name, l, rfl, _, _, hres⟩ := resOk_cons_req hres
            obtain ⟨dirs, l, rfl, hdirs, hres⟩ := resOk_cons_opt hres
            obtain ⟨values, l, rfl, hvalues, hres⟩ := resOk_cons_opt hres
            cases resOk_nil hres
            rw [hl, ok_bind]
            refine Quiet.bind (quiet_optDesc hgc hdesc) fun _ _ => ?_
            refine Quiet.bind (quiet_optDirs fuel hgc hdirs) fun _ _ => ?_
            exact Quiet.bind (quiet_optEnumValues fuel hgc hvalues) fun _ _ => Quiet.ok _
          · split
            · rename_i h1 h2 h3 h4 h5 h6
              obtain ⟨l, hl, hres⟩ := hgc.parts (h6 ▸ acc_InputObjectTypeDefinition)
              obtain ⟨desc, l, rfl, hdesc, hres⟩ := resOk_cons_opt hres
              obtain ⟨kw, l, rfl, _, _, hres⟩ := resOk_cons_req hres
              obtain ⟨name, l, rfl, _, _, hres⟩ := resOk_cons_req hres
              obtain ⟨dirs, l, rfl, hdirs, hres⟩ := resOk_cons_opt hres
              obtain ⟨fields, l, rfl, hfields, hres⟩ := resOk_cons_opt hres
              cases resOk_nil hres
              rw [hl, ok_bind]
              refine Quiet.bind (quiet_optDesc hgc hdesc) fun _ _ => ?_
              refine Quiet.bind (quiet_optDirs fuel hgc hdirs) fun _ _ => ?_
              exact Quiet.bind (quiet_optInputFields fuel hgc hfields) fun _ _ => Quiet.ok _
            · rename_i h1 h2 h3 h4 h5 h6
              rcases hc with h | h
              · simp [OC_TypeDefinition] at h
              · simp [OC_TypeDefinition, h1, h2, h3, h4, h5, h6] at h

theorem quiet_buildTypeExtension {inp : List Char} (fuel : Nat) {p : Pair} (hg : Good inp p)
    (hr : p.rule = R.TypeExtension) : Quiet (buildTypeExtension (Ctx.spec inp) fuel p) := by
  obtain ⟨c, _, hc, hgc, hoc, _⟩ := hg.only "TypeExtension" (hr ▸ acc_TypeExtension)
  unfold buildTypeExtension
  rw [hoc, ok_bind]
  split
  · rename_i h1
    obtain ⟨l, hl, hres⟩ := hgc.parts (h1 ▸ acc_ScalarTypeExtension)
    obtain ⟨kw, l, rfl, _, _, hres⟩ := resOk_cons_req hres
    obtain ⟨kw2, l, rfl, _, _, hres⟩ := resOk_cons_req hres
    obtain ⟨name, l, rfl, _, _, hres⟩ := resOk_cons_req hres
    obtain ⟨dirs, l, rfl, hdirs, hres⟩ := resOk_cons_opt hres
    cases resOk_nil hres
    rw [hl, ok_bind]
    exact Quiet.bind (quiet_optDirs fuel hgc hdirs) fun _ _ => Quiet.ok _
  · split
    · rename_i h1 h2
      obtain ⟨l, hl, hres⟩ := hgc.parts (h2 ▸ acc_ObjectTypeExtension)
      obtain ⟨kw, l, rfl, _, _, hres⟩ := resOk_cons_req hres
      obtain ⟨kw2, l, rfl, _, _, hres⟩ := resOk_cons_req hres
      obtain ⟨name, l, rfl, _, _, hres⟩ := resOk_cons_req hres
      obtain ⟨impl, l, rfl, himpl, hres⟩ := resOk_cons_opt hres
      obtain ⟨dirs, l, rfl, hdirs, hres⟩ := resOk_cons_opt hres
      obtain ⟨fields, l, rfl, hfields, hres⟩ := resOk_cons_opt hres
      cases resOk_nil hres
      rw [hl, ok_bind]
      refine Quiet.bind (quiet_optImplements hgc himpl) fun _ _ => ?_
      refine Quiet.bind (quiet_optDirs fuel hgc hdirs) fun _ _ => ?_
      exact Quiet.bind (quiet_optFields fuel hgc hfields) fun _ _ => Quiet.ok _
    · split
      · rename_i h1 h2 h3
        obtain ⟨l, hl, hres⟩ := hgc.parts (h3 ▸ acc_InterfaceTypeExtension)
        obtain ⟨kw, l, rfl, _, _, hres⟩ := resOk_cons_req hres
        obtain ⟨kw2, l, rfl, _, _, hres⟩ := resOk_cons_req hres
        obtain ⟨name, l, rfl, _, _, hres⟩ := resOk_cons_req hres
        obtain ⟨impl, l, rfl, himpl, hres⟩ := resOk_cons_opt hres
        obtain ⟨dirs, l, rfl, hdirs, hres⟩ := resOk_cons_opt hres
        obtain ⟨fields, l, rfl, hfields, hres⟩ := resOk_cons_opt hres
        cases resOk_nil hres
        rw [hl, ok_bind]
        refine Quiet.bind (quiet_optImplements hgc himpl) fun _ _ => ?_
        refine Quiet.bind (quiet_optDirs fuel hgc hdirs) fun _ _ => ?_
        exact Quiet.bind (quiet_optFields fuel hgc hfields) fun _ _ => Quiet.ok _
      · split
        · rename_i h1 h2 h3 h4
          obtain ⟨l, hl, hres⟩ := hgc.parts (h4 ▸ acc_UnionTypeExtension)
          obtain ⟨kw, l, rfl, _, _, hres⟩ := resOk_cons_req hres
          obtain ⟨kw2, l, rfl, _, _, hres⟩ := resOk_cons_req hres
          obtain ⟨name, l, rfl, _, _, hres⟩ := resOk_cons_req hres
          obtain ⟨dirs, l, rfl, hdirs, hres⟩ := resOk_cons_opt hres
          obtain ⟨members, l, rfl, hmembers, hres⟩ := resOk_cons_opt hres
          cases resOk_nil hres
          rw [hl, ok_bind]
          refine Quiet.bind (quiet_optDirs fuel hgc hdirs) fun _ _ => ?_
          exact Quiet.bind (quiet_unionMembers hgc hmembers) fun _ _ => Quiet.ok _
        · split
          · rename_i h1 h2 h3 h4 h5
            obtain ⟨l, hl, hres⟩ := hgc.parts (h5 ▸ acc_EnumTypeExtension)
            obtain ⟨kw, l, rfl, _, _, hres⟩ := resOk_cons_req hres
            obtain ⟨kw2, l, rfl, _, _, hres⟩ := resOk_cons_req hres
            obtain ⟨name, l, rfl, _, _, hres⟩ := resOk_cons_req hres
            obtain ⟨dirs, l, rfl, hdirs, hres⟩ := resOk_cons_opt hres
            obtain ⟨values, l, rfl, hvalues, hres⟩ := resOk_cons_opt hres
            cases resOk_nil hres
            rw [hl, ok_bind]
            refine Quiet.bind (quiet_optDirs fuel hgc hdirs) fun _ _ => ?_
            exact Quiet.bind (quiet_optEnumValues fuel hgc hvalues) fun _ _ => Quiet.ok _
          · split
            · rename_i h1 h2 h3 h4 h5 h6
              obtain ⟨l, hl, hres⟩ := hgc.parts (h6 ▸ acc_InputObjectTypeExtension)
              obtain ⟨kw, l, rfl, _, _, hres⟩ := resOk_cons_req hres
              obtain ⟨kw2, l, rfl, _, _, hres⟩ := resOk_cons_req hres
              obtain ⟨name, l, rfl, _, _, hres⟩ := resOk_cons_req hres
              obtain ⟨dirs, l, rfl, hdirs, hres⟩ := resOk_cons_opt hres
              obtain ⟨fields, l, rfl, hfields, hres⟩ := resOk_cons_opt hres
              cases resOk_nil hres
              rw [hl, ok_bind]
              refine Quiet.bind (quiet_optDirs fuel hgc hdirs) fun _ _ => ?_
              exact Quiet.bind (quiet_optInputFields fuel hgc hfields) fun _ _ => Quiet.ok _
            · rename_i h1 h2 h3 h4 h5 h6
              rcases hc with h | h
              · simp [OC_TypeExtension] at h
              · simp [OC_TypeExtension, h1, h2, h3, h4, h5, h6] at h

/-! ### schema definitions / extensions, directive definitions -/

theorem quiet_buildRootOperationTypeDefinitions {inp : List Char} {p : Pair} (hg : Good inp p)
    (hr : p.rule = R.RootOperationTypeDefinitions) :
    Quiet (buildRootOperationTypeDefinitions (Ctx.spec inp) p) := by
  obtain ⟨hall, hcs⟩ := hg.all (hr ▸ acc_RootOperationTypeDefinitions)
  unfold buildRootOperationTypeDefinitions
  rw [hall, ok_bind]
  refine Quiet.mapM fun d hd => ?_
  obtain ⟨hdr, hgd⟩ := hcs d hd
  have hdr' : d.rule = R.RootOperationTypeDefinition := hdr
  obtain ⟨l, hl, hres⟩ := hgd.parts (hdr' ▸ acc_RootOperationTypeDefinition)
  obtain ⟨ot, l, rfl, hotr, hotm, hres⟩ := resOk_cons_req hres
  obtain ⟨nt, l, rfl, _, _, hres⟩ := resOk_cons_req hres
  cases resOk_nil hres
  rw [hl, ok_bind]
  simp only [get2, ok_bind]
  exact Quiet.bind (Quiet.of_ex (operationType_ok (hgd.child hotm).wit hotr)) fun _ _ => Quiet.ok _

theorem quiet_buildSchemaDefinition {inp : List Char} (fuel : Nat) {p : Pair} (hg : Good inp p)
    (hr : p.rule = R.SchemaDefinition) : Quiet (buildSchemaDefinition (Ctx.spec inp) fuel p) := by
  obtain ⟨l, hl, hres⟩ := hg.parts (hr ▸ acc_SchemaDefinition)
  obtain ⟨desc, l, rfl, hdesc, hres⟩ := resOk_cons_opt hres
  obtain ⟨kw, l, rfl, _, _, hres⟩ := resOk_cons_req hres
  obtain ⟨dirs, l, rfl, hdirs, hres⟩ := resOk_cons_opt hres
  obtain ⟨roots, l, rfl, hrr, hrm, hres⟩ := resOk_cons_req hres
  cases resOk_nil hres
  unfold buildSchemaDefinition
  rw [hl, ok_bind]
  refine Quiet.bind (quiet_buildRootOperationTypeDefinitions (hg.child hrm) hrr) fun _ _ => ?_
  refine Quiet.bind (quiet_optDesc hg hdesc) fun _ _ => ?_
  exact Quiet.bind (quiet_optDirs fuel hg hdirs) fun _ _ => Quiet.ok _

theorem quiet_buildSchemaExtension {inp : List Char} (fuel : Nat) {p : Pair} (hg : Good inp p)
    (hr : p.rule = R.SchemaExtension) : Quiet (buildSchemaExtension (Ctx.spec inp) fuel p) := by
  obtain ⟨l, hl, hres⟩ := hg.parts (hr ▸ acc_SchemaExtension)
  obtain ⟨kw, l, rfl, _, _, hres⟩ := resOk_cons_req hres
  obtain ⟨kw2, l, rfl, _, _, hres⟩ := resOk_cons_req hres
  obtain ⟨dirs, l, rfl, hdirs, hres⟩ := resOk_cons_opt hres
  obtain ⟨roots, l, rfl, hroots, hres⟩ := resOk_cons_opt hres
  cases resOk_nil hres
  unfold buildSchemaExtension
  rw [hl, ok_bind]
  dsimp only
  refine Quiet.bind (quiet_optDirs fuel hg hdirs) fun _ _ => ?_
  cases roots with
  | none =>
    dsimp only
    exact Quiet.bind (Quiet.pure _) fun _ _ => Quiet.ok _
  | some r =>
    obtain ⟨hrr, hrm⟩ := hroots r rfl
    dsimp only
    exact Quiet.bind (quiet_buildRootOperationTypeDefinitions (hg.child hrm) hrr) fun _ _ => Quiet.ok _

theorem quiet_buildDirectiveDefinition {inp : List Char} (fuel : Nat) {p : Pair} (hg : Good inp p)
    (hr : p.rule = R.DirectiveDefinition) : Quiet (buildDirectiveDefinition (Ctx.spec inp) fuel p) := by
  obtain ⟨l, hl, hres⟩ := hg.parts (hr ▸ acc_DirectiveDefinition)
  obtain ⟨desc, l, rfl, hdesc, hres⟩ := resOk_cons_opt hres
  obtain ⟨kw, l, rfl, _, _, hres⟩ := resOk_cons_req hres
  obtain ⟨name, l, rfl, _, _, hres⟩ := resOk_cons_req hres
  obtain ⟨args, l, rfl, hargs, hres⟩ := resOk_cons_opt hres
  obtain ⟨rep, l, rfl, _, hres⟩ := resOk_cons_opt hres
  obtain ⟨on, l, rfl, _, _, hres⟩ := resOk_cons_req hres
  obtain ⟨locs, l, rfl, hlr, hlm, hres⟩ := resOk_cons_req hres
  cases resOk_nil hres
  obtain ⟨hall, _⟩ := (hg.child hlm).all (hlr ▸ acc_DirectiveLocations)
  unfold buildDirectiveDefinition
  rw [hl, ok_bind]
  dsimp only
  refine Quiet.bind (quiet_optDesc hg hdesc) fun _ _ => ?_
  cases args with
  | none =>
    dsimp only
    refine Quiet.bind (Quiet.pure _) fun _ _ => ?_
    rw [hall, ok_bind]
    exact Quiet.ok _
  | some a =>
    obtain ⟨har, ham⟩ := hargs a rfl
    dsimp only
    refine Quiet.bind (quiet_buildArgumentsDefinition fuel (hg.child ham) har) fun _ _ => ?_
    rw [hall, ok_bind]
    exact Quiet.ok _

theorem quiet_buildTypeSystemDefinitionOrExtension {inp : List Char} (fuel : Nat) {p : Pair} (hg : Good inp p)
    (hr : p.rule = R.TypeSystemDefinitionOrExtension) :
    Quiet (buildTypeSystemDefinitionOrExtension (Ctx.spec inp) fuel p) := by
  obtain ⟨c, _, hc, hgc, hoc, _⟩ :=
    hg.only "TypeSystemDefinitionOrExtension" (hr ▸ acc_TypeSystemDefinitionOrExtension)
  unfold buildTypeSystemDefinitionOrExtension
  rw [hoc, ok_bind]
  split
  · rename_i h1
    obtain ⟨d, _, hd, hgd, hod, _⟩ := hgc.only "TypeSystemDefinition" (h1 ▸ acc_TypeSystemDefinition)
    rw [hod, ok_bind]
    split
    · rename_i k1
      exact Quiet.bind (quiet_buildSchemaDefinition fuel hgd k1) fun _ _ => Quiet.pure _
    · split
      · rename_i k1 k2
        exact Quiet.bind (quiet_buildTypeDefinition fuel hgd k2) fun _ _ => Quiet.pure _
      · split
        · rename_i k1 k2 k3
          exact Quiet.bind (quiet_buildDirectiveDefinition fuel hgd k3) fun _ _ => Quiet.pure _
        · rename_i k1 k2 k3
          rcases hd with h | h
          · simp [OC_TypeSystemDefinition] at h
          · simp [OC_TypeSystemDefinition, k1, k2, k3] at h
  · split
    · rename_i h1 h2
      obtain ⟨e, _, he, hge, hoe, _⟩ := hgc.only "TypeSystemExtension" (h2 ▸ acc_TypeSystemExtension)
      rw [hoe, ok_bind]
      split
      · rename_i k1
        exact Quiet.bind (quiet_buildSchemaExtension fuel hge k1) fun _ _ => Quiet.pure _
      · split
        · rename_i k1 k2
          exact Quiet.bind (quiet_buildTypeExtension fuel hge k2) fun _ _ => Quiet.pure _
        · rename_i k1 k2
          rcases he with h | h
          · simp [OC_TypeSystemExtension] at h
          · simp [OC_TypeSystemExtension, k1, k2] at h
    · rename_i h1 h2
      rcases hc with h | h
      · simp [OC_TypeSystemDefinitionOrExtension] at h
      · simp [OC_TypeSystemDefinitionOrExtension, h1, h2] at h

/-- `build_type_system_or_extension_document` on the result of a parse with start rule `TypeSystemExtensionDocument` -/
theorem quiet_buildTypeSystemDocument {inp : List Char} (fuel : Nat) {p : Pair} (hg : Good inp p)
    (hr : p.rule = R.TypeSystemExtensionDocument) : Quiet (buildTypeSystemDocument (Ctx.spec inp) fuel [p]) := by
  simp only [buildTypeSystemDocument, hr, if_true]
  refine Quiet.mapM fun d hd => ?_
  obtain ⟨hdm, hdr⟩ := List.mem_filter.mp hd
  exact quiet_buildTypeSystemDefinitionOrExtension fuel (hg.child hdm) (by simpa using hdr)

end NitroVerif.Shape
