/-
C10 ∘ C05 — helper lemmas: which parts of the side conditions of the closed forms (`DocOK`, the argument condition of
`C10_resolver_args_closed`, `ResolversOK`) follow from the RULES OF THE TYPE-SYSTEM SPECIFICATION (`Spec/ValidTs.lean`:
the executable rule predicates the schema check is proved sound for), and which remain conditions on the configuration.
Nothing here mentions the checker model; `Props/C10ComposedChecked.lean` plugs C05's soundness theorems in.
-/
import NitroVerif.Lemmas.DeclsComposed
import NitroVerif.Lemmas.DeclsClosedResolvers
import NitroVerif.Spec.ValidTs
namespace NitroVerif.DeclsComposed
open NitroVerif.Gql NitroVerif.Ts NitroVerif.DeclCfg NitroVerif.SchemaDecls NitroVerif.RefTypes NitroVerif.ValidTs

theorem noDup_iff (l : List Name) : noDup l = true ↔ l.Nodup := by
  induction l with
  | nil => simp [noDup]
  | cons x xs ih => simp [noDup, ih]

theorem tmpPrefix_startsWithUU {n : Name} (h : hasTmpPrefix n = true) : startsWithUU n = true := by
  unfold hasTmpPrefix at h
  unfold startsWithUU
  have e : "__tmp_".toList = ['_', '_', 't', 'm', 'p', '_'] := by decide
  rw [e] at h
  match hn : n.toList, h with
  | a :: b :: r, h =>
    simp only [List.isPrefixOf, Bool.and_eq_true, beq_iff_eq] at h
    obtain ⟨rfl, rfl, _⟩ := h
    rfl
  | [a], h => simp [List.isPrefixOf] at h
  | [], h => simp [List.isPrefixOf] at h

theorem typeDefs_eq' (T : TsDoc) : ValidTs.typeDefs T = typeDefsOf T := typeDefs_eq T

theorem typeDef?_some {T : TsDoc} {n : Name} {td : TypeDef} (h : (Schema.mk T).typeDef? n = some td) :
    td ∈ typeDefsOf T ∧ td.name = n := by
  unfold Schema.typeDef? at h
  rw [typeDefs_eq] at h
  exact ⟨List.mem_of_find?_eq_some h, by simpa using List.find?_some h⟩

/-- a known name has a definition, and `kindOf?` is its kind -/
theorem known_def {T : TsDoc} {n : Name} (h : known ⟨T⟩ n = true) :
    ∃ td ∈ typeDefsOf T, td.name = n ∧ (Schema.mk T).kindOf? n = some td.kind := by
  unfold known at h
  cases hq : (Schema.mk T).typeDef? n with
  | none => rw [hq] at h; cases h
  | some td =>
    obtain ⟨h1, h2⟩ := typeDef?_some hq
    exact ⟨td, h1, h2, by simp [Schema.kindOf?, hq]⟩

/-- **The configuration part of `DocOK`** — what no schema check can establish: `bagOK`, no identifier of a configured
    scalar text starts with `__tmp_` (open finding, `C10_rename_counterexample`) or is one of the printer's seven own
    identifiers (`C10_namespace_capture_counterexample`); `parses`, the supplied parse of a text mentions only
    identifiers of the text and no internal absolute reference. -/
structure CfgOK (c : Cfg) (R : TsDoc) : Prop where
  bagOK : ∀ i ∈ bag (scalarTypes c R), hasTmpPrefix i = false ∧ i ∉ SchemaDecls.reservedNames
  parses : ∀ p ∈ scalarTypes c R, ∀ t ∈ Target.all,
    (c.parseOf (p.2.getType t)).noAbs = true ∧
      ∀ i ∈ (c.parseOf (p.2.getType t)).freeNames, i ∈ bag (scalarTypes c R)

theorem cfgOK_of_docOK {c : Cfg} {R : TsDoc} (ok : DocOK c R) : CfgOK c R := ⟨ok.bagOK, ok.parses⟩

section rules
variable {c : Cfg} {R : TsDoc}

/-- **`DocOK` from the specification's rules.** Unique type names, reserved names, resolvable references, output /
    input positions and object-typed union members give every schema part of `DocOK`; what REMAINS are the two
    conditions on the configuration: `bagOK` (no identifier of a configured scalar text starts with `__tmp_` or is one
    of the printer's seven own identifiers) and `parses` (the supplied parse of a text mentions only identifiers of
    the text and no internal absolute reference). -/
theorem docOK_of_rules (hu : uniqueTypeNames R = true) (hr : reservedNames R = true) (hk : knownTypeRefs R = true)
    (ho : outputPositions R = true) (hi : inputPositions R = true) (hm : unionMembersObjects R = true)
    (hbag : ∀ i ∈ bag (scalarTypes c R), hasTmpPrefix i = false ∧ i ∉ SchemaDecls.reservedNames)
    (hparses : ∀ p ∈ scalarTypes c R, ∀ t ∈ Target.all,
      (c.parseOf (p.2.getType t)).noAbs = true ∧
        ∀ i ∈ (c.parseOf (p.2.getType t)).freeNames, i ∈ bag (scalarTypes c R)) : DocOK c R := by
  have hname : ∀ a ∈ typeDefsOf R, startsWithUU a.name = false := by
    intro a ha
    simp only [ValidTs.reservedNames, Bool.and_eq_true, List.all_eq_true, typeDefs_eq'] at hr
    have := (hr.1 a ha).1.1.1
    simpa using this
  simp only [knownTypeRefs, Bool.and_eq_true, List.all_eq_true, typeDefs_eq'] at hk
  obtain ⟨hkt, hkv⟩ := hk
  refine ⟨?_, ?_, ?_, ?_, ?_, ?_, hbag, hparses⟩
  · rw [← typeDefs_eq']; exact (noDup_iff _).mp hu
  · intro a ha
    cases hp : hasTmpPrefix a.name with
    | false => rfl
    | true => have := tmpPrefix_startsWithUU hp; rw [hname a ha] at this; cases this
  · intro a ha hmem
    have : startsWithUU a.name = true := by
      simp only [preludeNames, List.mem_cons, List.not_mem_nil, or_false] at hmem
      rcases hmem with h | h | h <;> rw [h] <;> decide
    rw [hname a ha] at this; cases this
  · intro td htd hkind f hf
    have hf' : f ∈ fieldsOfT td := by simp [fieldsOfT, isObjOrIface, hkind, hf, kind_beq]
    obtain ⟨td', h1, h2, h3⟩ := known_def ((hkt td htd).1.1 f hf')
    refine ⟨td', h1, h2, ?_⟩
    simp only [outputPositions, List.all_eq_true, typeDefs_eq'] at ho
    have := ho td htd f hf'
    rw [h3] at this
    intro e; rw [e] at this; exact absurd this (by decide)
  · intro td htd hkind f hf
    have hf' : f ∈ inputValues R := by
      unfold inputValues
      refine List.mem_append_right _ (List.mem_flatMap.mpr ⟨td, by rw [typeDefs_eq']; exact htd, ?_⟩)
      simp [inputsOfT, hkind, hf, kind_beq]
    obtain ⟨td', h1, h2, h3⟩ := known_def (hkv f hf')
    refine ⟨td', h1, h2, ?_⟩
    simp only [inputPositions, List.all_eq_true] at hi
    have := hi f hf'
    rw [h3] at this
    revert this
    cases td'.kind <;> decide
  · intro td htd hkind m hmm
    have hm' : m ∈ membersOfT td := by simp [membersOfT, hkind, hmm, kind_beq]
    obtain ⟨td', h1, h2, h3⟩ := known_def ((hkt td htd).2 m hm')
    refine ⟨td', h1, h2, ?_⟩
    simp only [unionMembersObjects, List.all_eq_true, typeDefs_eq'] at hm
    have := hm td htd m hm'
    rw [h3] at this
    revert this
    cases td'.kind <;> decide

/-- the argument condition of the resolver `Args` closed form, for every field of every object / interface type: the
    arguments have defined scalar / enum / input-object types -/
theorem argsOK_of_rules (hk : knownTypeRefs R = true) (hi : inputPositions R = true) (td : TypeDef)
    (htd : td ∈ typeDefsOf R) (hkind : td.kind = .object ∨ td.kind = .interface) (f : FieldDef) (hf : f ∈ td.fields) :
    ∀ a ∈ f.args, ∃ td' ∈ typeDefsOf R, td'.name = a.ty.unwrapped ∧ kindFits td'.kind .resolverInput = true := by
  intro a ha
  simp only [knownTypeRefs, Bool.and_eq_true, List.all_eq_true] at hk
  have hf' : f ∈ fieldsOfT td := by rcases hkind with h | h <;> simp [fieldsOfT, isObjOrIface, h, hf, kind_beq]
  have ha' : a ∈ inputValues R := by
    unfold inputValues argLists
    refine List.mem_append_left _ (List.mem_flatten.mpr ⟨f.args, List.mem_append_left _ ?_, ha⟩)
    exact List.mem_flatMap.mpr ⟨td, by rw [typeDefs_eq']; exact htd, List.mem_map.mpr ⟨f, hf', rfl⟩⟩
  obtain ⟨td', h1, h2, h3⟩ := known_def (hk.2 a ha')
  refine ⟨td', h1, h2, ?_⟩
  simp only [inputPositions, List.all_eq_true] at hi
  have := hi a ha'
  rw [h3] at this
  revert this
  cases td'.kind <;> decide

/-- **`ResolversOK` from the rules.** Reserved names give "no type is called `__Resolver` / `__TypeResolver`" and "no
    field is called `__typename`" (for the kinds that have fields; `hfields`: the other kinds carry no field list — true
    of every parsed document). What remains: no type is called `Omit` (an ordinary GraphQL name the resolvers file
    would shadow) and no configured scalar text applies `Omit<…>`. -/
theorem resolversOK_of_rules (hr : ValidTs.reservedNames R = true)
    (hfields : ∀ td ∈ typeDefsOf R, td.kind ≠ .object → td.kind ≠ .interface → td.fields = [])
    (homit : ∀ td ∈ typeDefsOf R, td.name ≠ "Omit")
    (hno : ∀ p ∈ scalarTypes c R, ∀ t ∈ Target.all, (c.parseOf (p.2.getType t)).noOmit = true) :
    ResolverDecls.ResolversOK c R := by
  simp only [ValidTs.reservedNames, Bool.and_eq_true, List.all_eq_true, typeDefs_eq'] at hr
  refine ⟨hno, ?_, ?_⟩
  · intro td htd hmem
    have h1 : startsWithUU td.name = false := by simpa using (hr.1 td htd).1.1.1
    simp only [List.mem_cons, List.not_mem_nil, or_false] at hmem
    rcases hmem with h | h | h
    · rw [h] at h1; exact absurd h1 (by decide)
    · rw [h] at h1; exact absurd h1 (by decide)
    · exact homit td htd h
  · intro td htd f hf hn
    by_cases hk : td.kind = .object ∨ td.kind = .interface
    · have hf' : f ∈ fieldsOfT td := by rcases hk with h | h <;> simp [fieldsOfT, isObjOrIface, h, hf, kind_beq]
      have h1 : startsWithUU f.name = false := by simpa using ((hr.1 td htd).1.1.2 f hf').1
      rw [hn] at h1; exact absurd h1 (by decide)
    · have := hfields td htd (fun h => hk (Or.inl h)) (fun h => hk (Or.inr h))
      rw [this] at hf; cases hf

end rules

/-! ### the built-in-position type definitions of what the CLI resolves are the five built-in scalars -/

/-- names of the type definitions whose name sits at a built-in position -/
def bnames (l : List TypeDef) : List Name := (l.filter fun t => t.namePos.builtin).map (·.name)

theorem builtinNames_eq (T : TsDoc) : builtinNames (typeIdents T) = bnames (typeDefsOf T) := by
  unfold builtinNames typeIdents bnames
  rw [typeDefs_eq', List.filter_map, List.map_map]
  rfl

theorem bnames_map_refType (src : TsDoc) (l : List TypeDef) : bnames (l.map (ExtMerge.refType src)) = bnames l := by
  unfold bnames
  rw [List.filter_map, List.map_map]
  rfl

/-- if the user's definitions carry no built-in position (the parser never stamps one), the built-in-position type
    definitions of the resolved document do not repeat a name: they are the five scalars of `generate_builtins()` -/
theorem builtinTypeNamesDistinct_cli {user R : TsDoc} (h : ExtResolve.resolve (user ++ CliSchema.builtins) = .ok R)
    (hu : ∀ td, TsItem.typeDef td ∈ user → td.namePos.builtin = false) : builtinTypeNamesDistinct R = true := by
  unfold builtinTypeNamesDistinct
  rw [noDup_iff, builtinNames_eq]
  have hp : (bnames (typeDefsOf R)).Perm (bnames ((typeDefsOf (user ++ CliSchema.builtins)).map
      (ExtMerge.refType (user ++ CliSchema.builtins)))) := ((typeDefsOf_resolved h).filter _).map _
  rw [hp.nodup_iff, bnames_map_refType, typeDefsOf_append]
  have h1 : bnames (typeDefsOf user) = [] := by
    unfold bnames
    rw [List.map_eq_nil_iff, List.filter_eq_nil_iff]
    intro t ht
    simp [hu t (mem_typeDefsOf.mp ht)]
  unfold bnames at h1 ⊢
  rw [List.filter_append, List.map_append, h1, List.nil_append]
  decide

end NitroVerif.DeclsComposed
