/-
C01/C02 refinement, specification side, part 1: an order-free description of CollectFields.

`InFlat S F o inc V ss t` — "the field occurrence `t` (response key, aliased?, field name, sub-selection) is collected
from the selection set `ss` for an object of type `o`" when a selection is kept iff `inc dirs`, entering inline fragments
and fragment spreads whose type condition applies, and never entering a fragment of `V`.  It is an inductive predicate,
so it has no fuel, no order and no visited set; `collectGo_spec` shows that the groups CollectFields (Spec/Exec.lean,
work list + visitedFragments) returns contain exactly these occurrences (with `V = []`: visiting a fragment once
loses nothing).
-/
import NitroVerif.Lemmas.OpTypes
namespace NitroVerif.OpTypes.Ref
open NitroVerif.Gql NitroVerif.Ts NitroVerif.Exec

/-- a collected field occurrence -/
structure FT where
  key : Name
  aliased : Bool
  name : Name
  sub : Option (List Selection)

abbrev Inc := List Directive → Bool

def keyOf (alias : Option (Name × Pos)) (name : Name) : Name :=
  match alias with
  | some (a, _) => a
  | none => name

/-- the type condition of an inline fragment applies (no condition: always) -/
def condApplies (S : Schema) (o : Name) : Option (Name × Pos) → Bool
  | some (t, _) => fragmentTypeApplies S o t
  | none => true

inductive InFlat (S : Schema) (F : Name → Option FragmentDef) (o : Name) (inc : Inc) (V : List Name) :
    List Selection → FT → Prop where
  | field {alias name p args ds sub rest} : inc ds = true →
      InFlat S F o inc V (.field alias name p args ds sub :: rest) ⟨keyOf alias name, isAliased alias name, name, sub⟩
  | inline {cond ds ss p rest t} : inc ds = true → condApplies S o cond = true → InFlat S F o inc V ss t →
      InFlat S F o inc V (.inline cond ds ss p :: rest) t
  | spread {nm np ds p rest f t} : inc ds = true → nm ∉ V → F nm = some f → fragmentTypeApplies S o f.cond = true →
      InFlat S F o inc V f.sel t → InFlat S F o inc V (.spread nm np ds p :: rest) t
  | tail {s rest t} : InFlat S F o inc V rest t → InFlat S F o inc V (s :: rest) t

section
variable {S : Schema} {F : Name → Option FragmentDef} {o : Name} {inc : Inc}

theorem inFlat_nil {V : List Name} {t : FT} : ¬ InFlat S F o inc V [] t := by
  intro h; cases h

theorem inFlat_append {V : List Name} {a b : List Selection} {t : FT} :
    InFlat S F o inc V (a ++ b) t ↔ InFlat S F o inc V a t ∨ InFlat S F o inc V b t := by
  induction a with
  | nil => simp [inFlat_nil]
  | cons s a ih =>
    constructor
    · intro h
      rw [List.cons_append] at h
      cases h with
      | field hi => exact Or.inl (.field hi)
      | inline hi hc hs => exact Or.inl (.inline hi hc hs)
      | spread hi hv hf ha hs => exact Or.inl (.spread hi hv hf ha hs)
      | tail hr =>
        rcases ih.1 hr with h | h
        · exact Or.inl (.tail h)
        · exact Or.inr h
    · rintro (h | h)
      · rw [List.cons_append]
        cases h with
        | field hi => exact .field hi
        | inline hi hc hs => exact .inline hi hc hs
        | spread hi hv hf ha hs => exact .spread hi hv hf ha hs
        | tail hr => exact .tail (ih.2 (Or.inl hr))
      · rw [List.cons_append]; exact .tail (ih.2 (Or.inr h))

/-- avoiding fewer fragments collects more -/
theorem inFlat_mono {V V' : List Name} (hV : ∀ x ∈ V, x ∈ V') {ss : List Selection} {t : FT}
    (h : InFlat S F o inc V' ss t) : InFlat S F o inc V ss t := by
  induction h with
  | field hi => exact .field hi
  | inline hi hc _ ih => exact .inline hi hc ih
  | spread hi hv hf ha _ ih => exact .spread hi (fun hm => hv (hV _ hm)) hf ha ih
  | tail _ ih => exact .tail ih

/-- what is lost by additionally avoiding `nm` is collected from the body of `nm` -/
theorem inFlat_split {V : List Name} (nm : Name) {ss : List Selection} {t : FT}
    (h : InFlat S F o inc V ss t) :
    InFlat S F o inc (nm :: V) ss t ∨
      ∃ f, F nm = some f ∧ fragmentTypeApplies S o f.cond = true ∧ InFlat S F o inc (nm :: V) f.sel t := by
  induction h with
  | field hi => exact Or.inl (.field hi)
  | inline hi hc _ ih =>
    rcases ih with h | h
    · exact Or.inl (.inline hi hc h)
    · exact Or.inr h
  | @spread m np ds p rest f t hi hv hf ha _ ih =>
    rcases ih with h | h
    · by_cases hm : m = nm
      · subst hm; exact Or.inr ⟨f, hf, ha, h⟩
      · exact Or.inl (.spread hi (by simp [hm, hv]) hf ha h)
    · exact Or.inr h
  | tail _ ih =>
    rcases ih with h | h
    · exact Or.inl (.tail h)
    · exact Or.inr h

end

/-! ### the groups of CollectFields -/

/-- the field `f` is in the group of response key `k` -/
def InG (g : Groups) (k : Name) (f : CField) : Prop := ∃ fs, (k, fs) ∈ g ∧ f ∈ fs

theorem inG_nil {k : Name} {f : CField} : ¬ InG [] k f := by
  rintro ⟨fs, h, _⟩; cases h

theorem inG_addField (key : Name) (f : CField) : ∀ (g : Groups) (k : Name) (f' : CField),
    InG (addField key f g) k f' ↔ InG g k f' ∨ (k = key ∧ f' = f)
  | [], k, f' => by
    simp only [addField, InG, List.mem_singleton, Prod.mk.injEq, List.not_mem_nil, false_and, exists_false, false_or]
    constructor
    · rintro ⟨fs, ⟨rfl, rfl⟩, hf⟩; exact ⟨rfl, by simpa using hf⟩
    · rintro ⟨rfl, rfl⟩; exact ⟨[f'], ⟨rfl, rfl⟩, by simp⟩
  | (k0, fs0) :: r, k, f' => by
    by_cases hk : (k0 == key) = true
    · have hk' : k0 = key := by simpa using hk
      simp only [addField, hk, ↓reduceIte, InG, List.mem_cons, Prod.mk.injEq]
      constructor
      · rintro ⟨fs, (⟨rfl, rfl⟩ | hm), hf⟩
        · rcases List.mem_append.1 hf with hf | hf
          · exact Or.inl ⟨fs0, Or.inl ⟨rfl, rfl⟩, hf⟩
          · exact Or.inr ⟨hk', by simpa using hf⟩
        · exact Or.inl ⟨fs, Or.inr hm, hf⟩
      · rintro (⟨fs, (⟨rfl, rfl⟩ | hm), hf⟩ | ⟨rfl, rfl⟩)
        · exact ⟨fs ++ [f], Or.inl ⟨rfl, rfl⟩, List.mem_append.2 (Or.inl hf)⟩
        · exact ⟨fs, Or.inr hm, hf⟩
        · exact ⟨fs0 ++ [f'], Or.inl ⟨hk'.symm, rfl⟩, by simp⟩
    · have hk' : (k0 == key) = false := by simpa using hk
      have ih := inG_addField key f r k f'
      simp only [addField, hk', Bool.false_eq_true, ↓reduceIte]
      simp only [InG, List.mem_cons, Prod.mk.injEq] at ih ⊢
      constructor
      · rintro ⟨fs, (⟨rfl, rfl⟩ | hm), hf⟩
        · exact Or.inl ⟨fs, Or.inl ⟨rfl, rfl⟩, hf⟩
        · rcases ih.1 ⟨fs, hm, hf⟩ with ⟨fs', hm', hf'⟩ | h
          · exact Or.inl ⟨fs', Or.inr hm', hf'⟩
          · exact Or.inr h
      · rintro (⟨fs, (⟨rfl, rfl⟩ | hm), hf⟩ | h)
        · exact ⟨fs, Or.inl ⟨rfl, rfl⟩, hf⟩
        · obtain ⟨fs', hm', hf'⟩ := ih.2 (Or.inl ⟨fs, hm, hf⟩)
          exact ⟨fs', Or.inr hm', hf'⟩
        · obtain ⟨fs', hm', hf'⟩ := ih.2 (Or.inr h)
          exact ⟨fs', Or.inr hm', hf'⟩

/-- group lists are well formed: distinct keys, no empty group -/
def GroupsWF (g : Groups) : Prop := (g.map (·.1)).Nodup ∧ ∀ e ∈ g, e.2 ≠ []

theorem addField_keys (key : Name) (f : CField) : ∀ (g : Groups),
    ∀ k, k ∈ (addField key f g).map (·.1) ↔ k ∈ g.map (·.1) ∨ k = key
  | [], k => by simp [addField]
  | (k0, fs0) :: r, k => by
    by_cases hk : (k0 == key) = true
    · have hk' : k0 = key := by simpa using hk
      simp only [addField, hk, ↓reduceIte, List.map_cons, List.mem_cons]
      constructor
      · intro h; exact Or.inl h
      · rintro (h | rfl)
        · exact h
        · exact Or.inl hk'.symm
    · have hk' : (k0 == key) = false := by simpa using hk
      simp only [addField, hk', Bool.false_eq_true, ↓reduceIte, List.map_cons, List.mem_cons, addField_keys key f r k]
      constructor
      · rintro (h | h | h)
        · exact Or.inl (Or.inl h)
        · exact Or.inl (Or.inr h)
        · exact Or.inr h
      · rintro ((h | h) | h)
        · exact Or.inl h
        · exact Or.inr (Or.inl h)
        · exact Or.inr (Or.inr h)

theorem addField_wf (key : Name) (f : CField) : ∀ (g : Groups), GroupsWF g → GroupsWF (addField key f g)
  | [], _ => by simp [addField, GroupsWF]
  | (k0, fs0) :: r, ⟨hn, hne⟩ => by
    by_cases hk : (k0 == key) = true
    · simp only [addField, hk, ↓reduceIte]
      refine ⟨by simpa using hn, ?_⟩
      intro e he
      rcases List.mem_cons.1 he with rfl | he
      · simp
      · exact hne e (List.mem_cons_of_mem _ he)
    · have hk' : (k0 == key) = false := by simpa using hk
      have hk'' : k0 ≠ key := by simpa using hk
      simp only [List.map_cons, List.nodup_cons] at hn
      have ih := addField_wf key f r ⟨hn.2, fun e he => hne e (List.mem_cons_of_mem _ he)⟩
      simp only [addField, hk', Bool.false_eq_true, ↓reduceIte]
      refine ⟨?_, ?_⟩
      · simp only [List.map_cons, List.nodup_cons]
        refine ⟨?_, ih.1⟩
        intro hm
        rcases (addField_keys key f r k0).1 hm with h | h
        · exact hn.1 h
        · exact hk'' h
      · intro e he
        rcases List.mem_cons.1 he with rfl | he
        · exact hne _ (by simp)
        · exact ih.2 e he

section
variable (c : Ctx) (σ : Sigma) (o : Name)

/-- **CollectFields collects exactly the `InFlat` occurrences** (any fuel that suffices, any visited set `V`, any
    accumulated groups `g0`). -/
theorem collectGo_spec : ∀ (n : Nat) (L : List Selection) (V : List Name) (g0 g : Groups),
    collectGo c σ o n L V g0 = some g →
    (GroupsWF g0 → GroupsWF g) ∧
    ∀ k f, InG g k f ↔ InG g0 k f ∨ ∃ al, InFlat c.S c.F o (included σ) V L ⟨k, al, f.name, f.sub⟩
  | 0, [], V, g0, g, h => by
    simp only [collectGo] at h; cases h
    exact ⟨id, fun k f => by simp [inFlat_nil]⟩
  | 0, _ :: _, V, g0, g, h => by simp [collectGo] at h
  | n + 1, [], V, g0, g, h => by
    simp only [collectGo] at h; cases h
    exact ⟨id, fun k f => by simp [inFlat_nil]⟩
  | n + 1, s :: rest, V, g0, g, h => by
    simp only [collectGo] at h
    by_cases hinc : included σ (selDirs s) = true
    · simp only [hinc, Bool.not_true, Bool.false_eq_true, ↓reduceIte] at h
      cases s with
      | field alias name p args ds sub =>
        simp only at h
        obtain ⟨hw, hg⟩ := collectGo_spec n rest V _ g h
        refine ⟨fun h0 => hw (addField_wf _ _ _ h0), fun k f => ?_⟩
        rw [hg k f, inG_addField]
        simp only [selDirs] at hinc
        constructor
        · rintro ((h1 | ⟨rfl, rfl⟩) | ⟨al, h2⟩)
          · exact Or.inl h1
          · exact Or.inr ⟨isAliased alias name, by
              have := @InFlat.field c.S c.F o (included σ) V alias name p args ds sub rest hinc
              cases alias <;> exact this⟩
          · exact Or.inr ⟨al, .tail h2⟩
        · rintro (h1 | ⟨al, h2⟩)
          · exact Or.inl (Or.inl h1)
          · cases h2 with
            | field _ =>
              refine Or.inl (Or.inr ⟨?_, rfl⟩)
              cases alias <;> rfl
            | tail hr => exact Or.inr ⟨al, hr⟩
      | spread nm np ds p =>
        simp only [selDirs] at hinc
        simp only at h
        by_cases hv : V.contains nm = true
        · simp only [hv, ↓reduceIte] at h
          obtain ⟨hw, hg⟩ := collectGo_spec n rest V g0 g h
          refine ⟨hw, fun k f => ?_⟩
          rw [hg k f]
          have hv' : nm ∈ V := by simpa using hv
          constructor
          · rintro (h1 | ⟨al, h2⟩)
            · exact Or.inl h1
            · exact Or.inr ⟨al, .tail h2⟩
          · rintro (h1 | ⟨al, h2⟩)
            · exact Or.inl h1
            · cases h2 with
              | spread _ hnv _ _ _ => exact absurd hv' hnv
              | tail hr => exact Or.inr ⟨al, hr⟩
        · have hv' : nm ∉ V := by simpa using hv
          simp only [hv, Bool.false_eq_true, ↓reduceIte] at h
          -- the three ways of not entering / entering the fragment
          have skip : collectGo c σ o n rest (nm :: V) g0 = some g →
              (∀ f, c.F nm = some f → fragmentTypeApplies c.S o f.cond = false) →
              (GroupsWF g0 → GroupsWF g) ∧
              ∀ k f, InG g k f ↔ InG g0 k f ∨ ∃ al, InFlat c.S c.F o (included σ) V (.spread nm np ds p :: rest) ⟨k, al, f.name, f.sub⟩ := by
            intro h hna
            obtain ⟨hw, hg⟩ := collectGo_spec n rest (nm :: V) g0 g h
            refine ⟨hw, fun k f => ?_⟩
            rw [hg k f]
            constructor
            · rintro (h1 | ⟨al, h2⟩)
              · exact Or.inl h1
              · exact Or.inr ⟨al, .tail (inFlat_mono (fun x hx => List.mem_cons_of_mem _ hx) h2)⟩
            · rintro (h1 | ⟨al, h2⟩)
              · exact Or.inl h1
              · cases h2 with
                | spread _ _ hf ha _ => rw [hna _ hf] at ha; cases ha
                | tail hr =>
                  rcases inFlat_split nm hr with h3 | ⟨f', hf', ha', _⟩
                  · exact Or.inr ⟨al, h3⟩
                  · rw [hna _ hf'] at ha'; cases ha'
          cases hF : c.F nm with
          | none =>
            simp only [hF] at h
            exact skip h (fun f hf => by rw [hF] at hf; cases hf)
          | some fd =>
            simp only [hF] at h
            by_cases ha : fragmentTypeApplies c.S o fd.cond = true
            · simp only [ha, ↓reduceIte] at h
              obtain ⟨hw, hg⟩ := collectGo_spec n (fd.sel ++ rest) (nm :: V) g0 g h
              refine ⟨hw, fun k f => ?_⟩
              rw [hg k f]
              constructor
              · rintro (h1 | ⟨al, h2⟩)
                · exact Or.inl h1
                · rcases inFlat_append.1 h2 with h3 | h3
                  · exact Or.inr ⟨al, .spread hinc hv' hF ha
                      (inFlat_mono (fun x hx => List.mem_cons_of_mem _ hx) h3)⟩
                  · exact Or.inr ⟨al, .tail (inFlat_mono (fun x hx => List.mem_cons_of_mem _ hx) h3)⟩
              · rintro (h1 | ⟨al, h2⟩)
                · exact Or.inl h1
                · have key : ∀ {L' : List Selection} {t : FT}, InFlat c.S c.F o (included σ) V L' t →
                      InFlat c.S c.F o (included σ) (nm :: V) L' t ∨
                      InFlat c.S c.F o (included σ) (nm :: V) fd.sel t := by
                    intro L' t hL
                    rcases inFlat_split nm hL with h3 | ⟨f', hf', _, h4⟩
                    · exact Or.inl h3
                    · rw [hF] at hf'; cases hf'; exact Or.inr h4
                  cases h2 with
                  | spread _ _ hf _ hs =>
                    rw [hF] at hf; cases hf
                    rcases key hs with h3 | h3
                    · exact Or.inr ⟨al, inFlat_append.2 (Or.inl h3)⟩
                    · exact Or.inr ⟨al, inFlat_append.2 (Or.inl h3)⟩
                  | tail hr =>
                    rcases key hr with h3 | h3
                    · exact Or.inr ⟨al, inFlat_append.2 (Or.inr h3)⟩
                    · exact Or.inr ⟨al, inFlat_append.2 (Or.inl h3)⟩
            · have ha' : fragmentTypeApplies c.S o fd.cond = false := by simpa using ha
              simp only [ha', Bool.false_eq_true, ↓reduceIte] at h
              exact skip h (fun f hf => by rw [hF] at hf; cases hf; exact ha')
      | inline cond ds ss p =>
        simp only [selDirs] at hinc
        simp only at h
        have enter : collectGo c σ o n (ss ++ rest) V g0 = some g → condApplies c.S o cond = true →
            (GroupsWF g0 → GroupsWF g) ∧
            ∀ k f, InG g k f ↔ InG g0 k f ∨ ∃ al, InFlat c.S c.F o (included σ) V (.inline cond ds ss p :: rest) ⟨k, al, f.name, f.sub⟩ := by
          intro h hc
          obtain ⟨hw, hg⟩ := collectGo_spec n (ss ++ rest) V g0 g h
          refine ⟨hw, fun k f => ?_⟩
          rw [hg k f]
          constructor
          · rintro (h1 | ⟨al, h2⟩)
            · exact Or.inl h1
            · rcases inFlat_append.1 h2 with h3 | h3
              · exact Or.inr ⟨al, .inline hinc hc h3⟩
              · exact Or.inr ⟨al, .tail h3⟩
          · rintro (h1 | ⟨al, h2⟩)
            · exact Or.inl h1
            · cases h2 with
              | inline _ _ hs => exact Or.inr ⟨al, inFlat_append.2 (Or.inl hs)⟩
              | tail hr => exact Or.inr ⟨al, inFlat_append.2 (Or.inr hr)⟩
        cases cond with
        | none => exact enter h rfl
        | some tc =>
          obtain ⟨t, tp⟩ := tc
          simp only at h
          by_cases ha : fragmentTypeApplies c.S o t = true
          · simp only [ha, ↓reduceIte] at h
            exact enter h ha
          · have ha' : fragmentTypeApplies c.S o t = false := by simpa using ha
            simp only [ha', Bool.false_eq_true, ↓reduceIte] at h
            obtain ⟨hw, hg⟩ := collectGo_spec n rest V g0 g h
            refine ⟨hw, fun k f => ?_⟩
            rw [hg k f]
            constructor
            · rintro (h1 | ⟨al, h2⟩)
              · exact Or.inl h1
              · exact Or.inr ⟨al, .tail h2⟩
            · rintro (h1 | ⟨al, h2⟩)
              · exact Or.inl h1
              · cases h2 with
                | inline _ hc _ => simp [condApplies, ha'] at hc
                | tail hr => exact Or.inr ⟨al, hr⟩
    · have hinc' : included σ (selDirs s) = false := by simpa using hinc
      simp only [hinc', Bool.not_false, ↓reduceIte] at h
      obtain ⟨hw, hg⟩ := collectGo_spec n rest V g0 g h
      refine ⟨hw, fun k f => ?_⟩
      rw [hg k f]
      constructor
      · rintro (h1 | ⟨al, h2⟩)
        · exact Or.inl h1
        · exact Or.inr ⟨al, .tail h2⟩
      · rintro (h1 | ⟨al, h2⟩)
        · exact Or.inl h1
        · cases h2 with
          | field hi => simp [selDirs, hi] at hinc'
          | inline hi _ _ => simp [selDirs, hi] at hinc'
          | spread hi _ _ _ _ => simp [selDirs, hi] at hinc'
          | tail hr => exact Or.inr ⟨al, hr⟩

/-- CollectFields: the groups have distinct keys, no group is empty, and the grouped fields are exactly the collected
    occurrences -/
theorem collectFields_spec {ss : List Selection} {g : Groups} (h : collectFields c σ o ss = some g) :
    GroupsWF g ∧ ∀ k f, InG g k f ↔ ∃ al, InFlat c.S c.F o (included σ) [] ss ⟨k, al, f.name, f.sub⟩ := by
  obtain ⟨hw, hg⟩ := collectGo_spec c σ o c.fuel ss [] [] g h
  refine ⟨hw ⟨by simp, by simp⟩, fun k f => ?_⟩
  rw [hg k f]; simp [inG_nil]

end
end NitroVerif.OpTypes.Ref
