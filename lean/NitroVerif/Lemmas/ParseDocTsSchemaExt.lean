/-
Schema extensions as items of a type-system document (helper lemmas for Props/C07Doc):
`extend schema Directives? { roots }` and `extend schema Directives`.
-/
import NitroVerif.Lemmas.ParseDocTsExtD
namespace NitroVerif.DocParse
open NitroVerif.Peg NitroVerif.Gen NitroVerif.Gen.Parts NitroVerif.Build NitroVerif.TypeParse NitroVerif.StringParse
open NitroVerif.Gql NitroVerif.ValueParse NitroVerif.Spec.Lex NitroVerif.ParseText

set_option linter.unusedSimpArgs false

variable {inp : List Char}

def rOptRoots (τ : Trivia) (sep : Bool) (p : Nat) : List (OpKind × Name × Pos) → List Char
  | [] => []
  | a :: r => rRoots τ sep p (a :: r)

theorem hd_rOptRoots (τ : Trivia) (sep : Bool) (p : Nat) (rs : List (OpKind × Name × Pos)) :
    rOptRoots τ sep p rs = [] ∨ Hd (· = '{') (rOptRoots τ sep p rs) := by
  cases rs with
  | nil => exact Or.inl rfl
  | cons a r => exact Or.inr (hd_rBraced _ _ τ '{' '}' sep p _)

theorem rOptRoots_eq_nil {τ : Trivia} {sep : Bool} {p : Nat} {rs : List (OpKind × Name × Pos)}
    (h : rOptRoots τ sep p rs = []) : rs = [] := by
  cases rs with
  | nil => rfl
  | cons a r => exact absurd h (hd_rBraced _ _ τ '{' '}' sep p _).ne_nil

def rSchemaExt (τ : Trivia) (sep : Bool) (p : Nat) (s : SchemaDef) : List Char :=
  let tE := tk τ true p kwExtend
  let tK := tk τ false (p + tE.length) kwSchema
  let tD := rDirs τ (sep && s.roots.isEmpty) (p + tE.length + tK.length) s.dirs
  tE ++ (tK ++ (tD ++ rOptRoots τ sep (p + tE.length + tK.length + tD.length) s.roots))

def wpSchemaExt (τ : Trivia) (inp : List Char) (sep : Bool) (p : Nat) (s : SchemaDef) : SchemaDef :=
  let tE := tk τ true p kwExtend
  let tK := tk τ false (p + tE.length) kwSchema
  let tD := rDirs τ (sep && s.roots.isEmpty) (p + tE.length + tK.length) s.dirs
  { dirs := wpDirs τ inp (sep && s.roots.isEmpty) (p + tE.length + tK.length) s.dirs,
    roots := wpRoots τ inp (p + tE.length + tK.length + tD.length +
      (tk τ false (p + tE.length + tK.length + tD.length) ['{']).length) s.roots,
    pos := posAt inp p }

/-- well-formed schema extensions: directives or root operation types, valid names -/
def WFSchemaExt (s : SchemaDef) : Prop :=
  WFDirs s.dirs ∧ (s.dirs ≠ [] ∨ s.roots ≠ []) ∧ ∀ x ∈ s.roots, validName x.2.1.toList

theorem p_schemaExt_nodup : (P_SchemaExtension.map itemRule).Nodup := by decide

theorem hd_rSchemaExt (τ : Trivia) (sep : Bool) (p : Nat) (s : SchemaDef) :
    Hd (fun d => nameStart d ∨ d = '"') (rSchemaExt τ sep p s) := by
  simp only [rSchemaExt]
  exact Hd.append (hd_tk (P := fun d => nameStart d ∨ d = '"')
    ((hd_of_validName kw_words_valid.1).mono (fun _ h => Or.inl h))) _

theorem buildItem_schemaExt (ctx : Ctx) (fuel : Nat) (p e e2 e3 : Nat) (cs : List Pair) (sd : SchemaDef)
    (h : buildSchemaExtension ctx fuel (.mk R.SchemaExtension p e cs) = .ok sd) :
    buildTypeSystemDefinitionOrExtension ctx fuel (.mk R.TypeSystemDefinitionOrExtension p e3
      [.mk R.TypeSystemExtension p e2 [.mk R.SchemaExtension p e cs]]) = .ok (.schemaExt sd) := by
  simp [buildTypeSystemDefinitionOrExtension, onlyChildOf, onlyChild, Pair.children, Pair.rule,
    OC_TypeSystemDefinitionOrExtension, OC_TypeSystemExtension, h, bind, Except.bind, pure, Except.pure,
    R.TypeSystemDefinition, R.TypeSystemExtension, R.SchemaExtension]

theorem schemaExtT (τ : Trivia) (hτ : ∀ q, Ws (τ q)) (s : SchemaDef) (hwf : WFSchemaExt s) {sep : Bool} {p : Nat}
    (h : HasAt inp p (rSchemaExt τ sep p s)) (hn : Nxt inp tdBad sep (p + (rSchemaExt τ sep p s).length)) :
    TsItemOk inp p (rSchemaExt τ sep p s) (.schemaExt (wpSchemaExt τ inp sep p s)) := by
  obtain ⟨hdirs, hne, hrv⟩ := hwf
  unfold TsItemOk
  simp only [rSchemaExt, wpSchemaExt] at h hn ⊢
  generalize hsD : (sep && s.roots.isEmpty) = sD at *
  generalize hE : tk τ true p kwExtend = tE at *
  generalize hK : tk τ false (p + tE.length) kwSchema = tK at *
  generalize hD : rDirs τ sD (p + tE.length + tK.length) s.dirs = tD at *
  generalize hR : rOptRoots τ sep (p + tE.length + tK.length + tD.length) s.roots = tR at *
  have hlen : p + (tE ++ (tK ++ (tD ++ tR))).length = p + tE.length + tK.length + tD.length + tR.length := by
    simp only [List.length_append]; omega
  rw [hlen] at hn ⊢
  have g0 : HasAt inp p tE := h.left
  have g1 : HasAt inp (p + tE.length) tK := h.right.left
  have g2 : HasAt inp (p + tE.length + tK.length) tD := h.right.right.left
  have g3 : HasAt inp (p + tE.length + tK.length + tD.length) tR := h.right.right.right
  have hdK : Hd nameStart tK := hK ▸ hd_tk (hd_of_validName kw_words_valid.2.1)
  have hdE : Hd nameStart tE := hE ▸ hd_tk (hd_of_validName kw_words_valid.1)
  have n2 : Nxt inp (fun c => c = '@' ∨ c = '(') sD (p + tE.length + tK.length + tD.length) := by
    refine Nxt.rest g3 hn (hR ▸ hd_rOptRoots τ sep _ s.roots) (P := (· = '{')) ?_
      (fun c hc => hc.elim Or.inl (fun h => Or.inr (Or.inl h))) ?_
    · rintro c rfl
      refine ⟨by decide, ?_, by decide⟩
      rintro (h | h) <;> exact absurd h (by decide)
    · intro ht hs
      have : s.roots = [] := rOptRoots_eq_nil (hR.trans ht)
      rw [← hsD, this] at hs
      simpa using hs
  have n1 : Nxt inp (fun _ => False) false (p + tE.length + tK.length) := by
    refine Nxt.rest g2 n2 (hD ▸ hd_rDirs τ sD _ s.dirs) (P := (· = '@')) (by rintro c rfl; decide) (fun c hc => hc.elim) ?_
    intro ht _
    have hd0 : s.dirs = [] := rDirs_eq_nil (hD.trans ht)
    have hr0 : s.roots ≠ [] := hne.resolve_left (fun h => h hd0)
    rw [← hsD]
    cases hh : s.roots with
    | nil => exact absurd hh hr0
    | cons a r => simp
  have rE := kwT hτ look_KEYWORD_extend (hE ▸ g0) (bad := fun _ => False)
    (by rw [hE]; exact Nxt.of_hd_sep g1 hdK (fun d hd => ⟨nameStart_not_trivia hd, id⟩))
  rw [hE] at rE
  have rK := kwT hτ look_KEYWORD_schema (hK ▸ g1) (bad := fun _ => False) (by rw [hK]; exact n1)
  rw [hK] at rK
  have fd := tsd_fails_extend hτ (hE ▸ g0) (by rw [hE]; exact tok_of_hd g1 hdK (fun d => nameStart_not_trivia))
  have hlE : 1 ≤ tE.length := hdE.length_pos
  have hlK : 1 ≤ tK.length := hdK.length_pos
  cases hrs : s.roots with
  | nil =>
    have hd : s.dirs ≠ [] := hne.resolve_right (fun h => h hrs)
    have htR : tR = [] := by rw [← hR, hrs]; rfl
    subst htR
    simp only [List.length_nil, Nat.add_zero] at hn ⊢
    obtain ⟨prD, rD, hokD, hbD⟩ := dirsT τ hτ s.dirs hd hdirs (bad := tdBad) (Or.inr (Or.inl rfl)) (Or.inl rfl)
      (hD ▸ g2) (by
        rw [hD]
        have : sD = sep := by rw [← hsD, hrs]; simp
        rw [this]; exact hn)
    rw [hD] at rD hbD
    have hbr : HeadNot (· = '{') (inp.drop (p + tE.length + tK.length + tD.length)) :=
      headNot_mono (fun c (hc : c = '{') => Or.inr (Or.inr (Or.inl hc))) hn.ok
    have f1 := fails_seq_K rE.toK (fails_seq_K rK.toK (fails_seq_K (runsK_opt_some rD) (rootsDef_fails hbr)))
    have r2 := runsK_seq rE.toK (runsK_seq rK.toK (runsK_seq rD (notBraceK hn.tok hbr)))
    obtain ⟨e, rSE⟩ := runsK_rule look_SchemaExtension' (by decide) (by decide) (runsK_choice_r f1 r2)
    obtain ⟨e2, rTSE⟩ := runsK_rule look_TypeSystemExtension (by decide) (by decide)
      (runsK_choice_l (b := .call R.TypeExtension) rSE)
    obtain ⟨e3, rI⟩ := runsK_rule look_TSDOE (by decide) (by decide) (runsK_choice_r fd rTSE)
    refine ⟨_, rI.mono (by barith), ?_, ?_⟩
    · refine pairOk_mk (by decide) (by decide) ⟨cleanP_of (by decide) (by decide) ⟨cleanP_of (by decide) (by decide) ?_,
        trivial⟩, trivial⟩
      simp only [cleanL_append, cleanL_cons, cleanL_nil, and_true]
      exact ⟨cleanP_of (by decide) (by decide) trivial, cleanP_of (by decide) (by decide) trivial, hokD.clean⟩
    · intro fuel hf
      have hf' : tE.length + (tK.length + tD.length) ≤ fuel := by simpa using hf
      have hch : [Pair.mk R.KEYWORD_extend p (p + kwExtend.length) []] ++
            ([Pair.mk R.KEYWORD_schema (p + tE.length) (p + tE.length + kwSchema.length) []] ++ ([prD] ++ [])) =
          slotPairs [some (Pair.mk R.KEYWORD_extend p (p + kwExtend.length) []),
            some (Pair.mk R.KEYWORD_schema (p + tE.length) (p + tE.length + kwSchema.length) []), some prD, none] := by
        simp [slotPairs]
      have hm := matchParts_slots P_SchemaExtension _ p_schemaExt_nodup
        (show slotsOk P_SchemaExtension [some (Pair.mk R.KEYWORD_extend p (p + kwExtend.length) []),
            some (Pair.mk R.KEYWORD_schema (p + tE.length) (p + tE.length + kwSchema.length) []), some prD, none] from
          ⟨⟨_, rfl, rfl⟩, ⟨_, rfl, rfl⟩, (fun x hx => by cases hx; exact hokD.rule), (fun x hx => by cases hx), trivial⟩)
      refine buildItem_schemaExt _ _ _ _ _ _ _ _ ?_
      rw [hch]
      simp only [show kwSchema.length = 6 from rfl, show kwExtend.length = 6 from rfl] at hm
      have hsd : sD = sep := by rw [← hsD, hrs]; simp
      simp [buildSchemaExtension, Pair.children, hm, optDirs, hbD fuel (by omega), hsd, wpRoots, mapItems, toPos_spec',
        Pair.start, At, bind, Except.bind, pure, Except.pure]
  | cons a r =>
    rw [hrs] at hR hrv
    have hsd : sD = false := by rw [← hsD, hrs]; simp
    subst hsd
    obtain ⟨oD, rD, hokD, _, hbD⟩ := optDirsT τ hτ s.dirs hdirs (bad := fun c => c = '@' ∨ c = '(') (Or.inr rfl)
      (Or.inl rfl) (hD ▸ g2) (by rw [hD]; exact n2)
    rw [hD] at rD hbD
    simp only [rOptRoots] at hR
    obtain ⟨prR, rR, hokR, hbR⟩ := rootsT τ hτ a r hrv (hR ▸ g3) (by rw [hR]; exact hn.tok)
    rw [hR] at rR
    have r1 := runsK_seq rE.toK (runsK_seq rK.toK (runsK_seq rD rR))
    obtain ⟨e, rSE⟩ := runsK_rule look_SchemaExtension' (by decide) (by decide) (runsK_choice_l r1)
    obtain ⟨e2, rTSE⟩ := runsK_rule look_TypeSystemExtension (by decide) (by decide)
      (runsK_choice_l (b := .call R.TypeExtension) rSE)
    obtain ⟨e3, rI⟩ := runsK_rule look_TSDOE (by decide) (by decide) (runsK_choice_r fd rTSE)
    refine ⟨_, rI.mono (by barith), ?_, ?_⟩
    · refine pairOk_mk (by decide) (by decide) ⟨cleanP_of (by decide) (by decide) ⟨cleanP_of (by decide) (by decide) ?_,
        trivial⟩, trivial⟩
      simp only [cleanL_append, cleanL_cons, cleanL_nil, and_true]
      exact ⟨cleanP_of (by decide) (by decide) trivial, cleanP_of (by decide) (by decide) trivial,
        clean_opt (fun x hx => (hokD x hx).clean), hokR.clean⟩
    · intro fuel hf
      have hf' : tE.length + (tK.length + (tD.length + tR.length)) ≤ fuel := by simpa using hf
      have hch : [Pair.mk R.KEYWORD_extend p (p + kwExtend.length) []] ++
            ([Pair.mk R.KEYWORD_schema (p + tE.length) (p + tE.length + kwSchema.length) []] ++ (oD.toList ++ [prR])) =
          slotPairs [some (Pair.mk R.KEYWORD_extend p (p + kwExtend.length) []),
            some (Pair.mk R.KEYWORD_schema (p + tE.length) (p + tE.length + kwSchema.length) []), oD, some prR] := by
        simp [slotPairs]
      have hm := matchParts_slots P_SchemaExtension _ p_schemaExt_nodup
        (show slotsOk P_SchemaExtension [some (Pair.mk R.KEYWORD_extend p (p + kwExtend.length) []),
            some (Pair.mk R.KEYWORD_schema (p + tE.length) (p + tE.length + kwSchema.length) []), oD, some prR] from
          ⟨⟨_, rfl, rfl⟩, ⟨_, rfl, rfl⟩, fun x hx => (hokD x hx).rule, (fun x hx => by cases hx; exact hokR.rule),
            trivial⟩)
      refine buildItem_schemaExt _ _ _ _ _ _ _ _ ?_
      rw [hch]
      simp only [show kwSchema.length = 6 from rfl, show kwExtend.length = 6 from rfl] at hm
      simp [buildSchemaExtension, Pair.children, hm, hbD fuel (by omega), hbR, toPos_spec', Pair.start, At, bind,
        Except.bind, pure, Except.pure]

end NitroVerif.DocParse
