import NitroVerif.Lemmas.Loader
/-! Heap-safety invariant of the loader model and its preservation by every call (helper lemmas for C19). -/
set_option linter.unusedSectionVars false
namespace NitroVerif.Loader
variable {P S J : Type} [DecidableEq P]

/-! ### heap safety invariant -/

theorem unborrow_map_id (ids : List Nat) (h : List Buf) : (unborrow ids h).map (·.id) = h.map (·.id) := by
  simp only [unborrow, List.map_map]; congr 1; funext b; simp only [Function.comp]; split <;> rfl

theorem freeBufs_map_id (who : Option Nat) (ids : List Nat) (h : List Buf) : (freeBufs who ids h).map (·.id) = h.map (·.id) := by
  simp only [freeBufs, List.map_map]; congr 1; funext b; simp only [Function.comp]; split <;> rfl

@[simp] theorem unborrow_length (ids : List Nat) (h : List Buf) : (unborrow ids h).length = h.length := by simp [unborrow]
@[simp] theorem freeBufs_length (who : Option Nat) (ids : List Nat) (h : List Buf) : (freeBufs who ids h).length = h.length := by
  simp [freeBufs]

theorem mem_unborrow {ids : List Nat} {h : List Buf} {b' : Buf} :
    b' ∈ unborrow ids h ↔ ∃ b ∈ h, b' = if b.id ∈ ids then { b with borrowed := false } else b := by
  simp only [unborrow, List.mem_map]; constructor <;> (rintro ⟨b, hb, e⟩; exact ⟨b, hb, e.symm⟩)

theorem mem_freeBufs {who : Option Nat} {ids : List Nat} {h : List Buf} {b' : Buf} :
    b' ∈ freeBufs who ids h ↔ ∃ b ∈ h, b' = if b.id ∈ ids then
      { b with freed := b.freed + ids.count b.id, bad := b.bad || b.borrowed || decide (b.owner ≠ who) } else b := by
  simp only [freeBufs, List.mem_map]; constructor <;> (rintro ⟨b, hb, e⟩; exact ⟨b, hb, e.symm⟩)

theorem id_lt_of_ids {h : List Buf} (hids : h.map (·.id) = List.range h.length) {b : Buf} (hb : b ∈ h) : b.id < h.length := by
  have : b.id ∈ h.map (·.id) := List.mem_map_of_mem hb
  rw [hids] at this; simpa using this

theorem eq_of_id_eq {h : List Buf} (hids : h.map (·.id) = List.range h.length) {b b2 : Buf} (hb : b ∈ h) (hb2 : b2 ∈ h)
    (e : b.id = b2.id) : b = b2 := by
  have hn : (h.map (·.id)).Nodup := by rw [hids]; exact List.nodup_range
  clear hids
  induction h with
  | nil => simp at hb
  | cons x r ih =>
    simp only [List.map_cons, List.nodup_cons, List.mem_map, not_exists, not_and] at hn
    rcases List.mem_cons.mp hb with rfl | hb' <;> rcases List.mem_cons.mp hb2 with rfl | hb2'
    · rfl
    · exact absurd e.symm (hn.1 b2 hb2')
    · exact absurd e (hn.1 b hb')
    · exact ih hb' hb2' hn.2

structure HeapInv (σ : St P S J) : Prop where
  ids : σ.heap.map (·.id) = List.range σ.heap.length
  keys : KeysLt σ
  clean : ∀ b ∈ σ.heap, b.bad = false ∧ b.freed ≤ 1
  anon : ∀ b ∈ σ.heap, b.owner = none → b.freed = 1 ∧ b.borrowed = false
  ownerLt : ∀ b ∈ σ.heap, ∀ t, b.owner = some t → t < σ.next
  dropped : ∀ b ∈ σ.heap, ∀ t, b.owner = some t → lookup σ.tasks t = none → b.freed = 1 ∧ b.borrowed = false
  live : ∀ b ∈ σ.heap, ∀ t T, b.owner = some t → lookup σ.tasks t = some T →
    b.freed = 0 ∧ b.id ∈ T.drops ∧ (b.borrowed = true → ∃ e ∈ T.borrows, e.2 = b.id)
  task : ∀ t T, lookup σ.tasks t = some T →
    T.drops.Nodup ∧ (∀ id ∈ T.drops, ∃ b ∈ σ.heap, b.id = id ∧ b.owner = some t) ∧ (∀ e ∈ T.borrows, e.2 ∈ T.drops)

theorem heapInv_init : HeapInv (init : St P S J) := by
  refine ⟨rfl, keysLt_init, ?_, ?_, ?_, ?_, ?_, ?_⟩ <;> simp [init]

theorem heapInv_congr {σ σ' : St P S J} (h : HeapInv σ) (e1 : σ'.heap = σ.heap) (e2 : σ'.tasks = σ.tasks)
    (e3 : σ'.next = σ.next) : HeapInv σ' := by
  obtain ⟨a, b, c, d, e, f, g, i⟩ := h
  refine ⟨by rw [e1]; exact a, ?_, by rw [e1]; exact c, by rw [e1]; exact d, by rw [e1, e3]; exact e,
    by rw [e1, e2]; exact f, by rw [e1, e2]; exact g, by rw [e1, e2]; exact i⟩
  intro t ht; rw [e2]; rw [e3] at ht; exact b t ht

end NitroVerif.Loader
namespace NitroVerif.Loader
variable {P S J : Type} [DecidableEq P]

theorem unborrow_nil (h : List Buf) : unborrow [] h = h := by
  simp [unborrow]

theorem freeBufs_of_not_mem (who : Option Nat) (ids : List Nat) (h : List Buf) (hn : ∀ b ∈ h, b.id ∉ ids) :
    freeBufs who ids h = h := by
  unfold freeBufs
  conv => rhs; rw [← List.map_id h]
  apply List.map_congr_left
  intro b hb; simp [hn b hb]

theorem unborrow_of_not_mem (ids : List Nat) (h : List Buf) (hn : ∀ b ∈ h, b.id ∉ ids) :
    unborrow ids h = h := by
  unfold unborrow
  conv => rhs; rw [← List.map_id h]
  apply List.map_congr_left
  intro b hb; simp [hn b hb]

theorem freeBufs_append (who : Option Nat) (ids : List Nat) (h1 h2 : List Buf) :
    freeBufs who ids (h1 ++ h2) = freeBufs who ids h1 ++ freeBufs who ids h2 := by simp [freeBufs]

theorem heapInv_initiate_err (env : Env P S J) {σ : St P S J} (hi : HeapInv σ) (hd : σ.dead = false) {s : S} {c : Nat}
    (hp : env.parse s = .error c) (f : P) : HeapInv (step env σ (.call (.initiate f s))).1 := by
  rw [step_initiate_err env hd hp, register_err env _ _ _ _ hp]
  have hheap : dropTask none (σ.heap ++ [{ id := σ.heap.length, owner := none, freed := 0, borrowed := false, bad := false }])
      ({ root := f, files := [], borrows := [], drops := [] ++ [σ.heap.length] } : Task P S)
      = σ.heap ++ [{ id := σ.heap.length, owner := none, freed := 1, borrowed := false, bad := false }] := by
    simp only [dropTask, List.map_nil, unborrow_nil, List.nil_append, freeBufs_append]
    rw [freeBufs_of_not_mem]
    · simp [freeBufs]
    · intro b hb; have := id_lt_of_ids hi.ids hb; simp; omega
  simp only [hheap]
  obtain ⟨a, b, c', d, e, g, l, k⟩ := hi
  refine ⟨?_, b, ?_, ?_, ?_, ?_, ?_, ?_⟩
  · simp [List.range_succ, a]
  · intro x hx; simp at hx; rcases hx with hx | rfl; exact c' x hx; simp
  · intro x hx; simp at hx; rcases hx with hx | rfl; exact d x hx; simp
  · intro x hx; simp at hx; rcases hx with hx | rfl; exact e x hx; simp
  · intro x hx; simp at hx; rcases hx with hx | rfl; exact g x hx; simp
  · intro x hx; simp at hx; rcases hx with hx | rfl; exact l x hx; simp
  · intro t T hT
    obtain ⟨k1, k2, k3⟩ := k t T hT
    refine ⟨k1, ?_, k3⟩
    intro id hid; obtain ⟨x, hx, e1, e2⟩ := k2 id hid
    exact ⟨x, by simp [hx], e1, e2⟩

theorem heapInv_initiate_ok (env : Env P S J) {σ : St P S J} (hi : HeapInv σ) (hd : σ.dead = false) {s : S} {imps : List P}
    (hp : env.parse s = .ok imps) (f : P) : HeapInv (step env σ (.call (.initiate f s))).1 := by
  have hk' := step_keysLt env σ (.call (.initiate f s)) hi.keys
  rw [step_initiate_ok env hd hp, register_ok env _ _ _ _ hp] at hk' ⊢
  simp only [List.filter_nil, List.map_nil, unborrow_nil, List.nil_append] at hk' ⊢
  obtain ⟨a, b, c', d, e, g, l, k⟩ := hi
  refine ⟨?_, hk', ?_, ?_, ?_, ?_, ?_, ?_⟩
  · simp [List.range_succ, a]
  · intro x hx; simp at hx; rcases hx with hx | rfl; exact c' x hx; simp
  · intro x hx; simp at hx; rcases hx with hx | rfl; exact d x hx; simp
  · intro x hx t ht; simp at hx; rcases hx with hx | rfl
    · have := e x hx t ht; simp only; omega
    · simp at ht; subst ht; simp
  · intro x hx t ht; simp only; rw [lookup_cons]; simp at hx; rcases hx with hx | rfl
    · have hlt := e x hx t ht
      have : ¬ σ.next = t := by omega
      simp [this]; exact g x hx t ht
    · simp at ht; subst ht; simp
  · intro x hx t T ht; simp only; rw [lookup_cons]; simp at hx; rcases hx with hx | rfl
    · have hlt := e x hx t ht
      have : ¬ σ.next = t := by omega
      simp only [this, if_false]; exact l x hx t T ht
    · simp at ht; subst ht; simp; intro hT; subst hT; simp [insert, erase]
  · intro t T; simp only; rw [lookup_cons]; split
    · intro hT; simp at hT; subst hT
      rename_i e1; subst e1
      refine ⟨by simp, ?_, by simp [insert, erase]⟩
      intro id hid; simp at hid; subst hid
      exact ⟨{ id := σ.heap.length, owner := some σ.next, freed := 0, borrowed := true, bad := false }, by simp, rfl, rfl⟩
    · intro hT
      obtain ⟨k1, k2, k3⟩ := k t T hT
      refine ⟨k1, ?_, k3⟩
      intro id hid; obtain ⟨x, hx, e1, e2⟩ := k2 id hid
      exact ⟨x, by simp [hx], e1, e2⟩

end NitroVerif.Loader
namespace NitroVerif.Loader
variable {P S J : Type} [DecidableEq P]

theorem live_lt {σ : St P S J} (hk : KeysLt σ) {t : Nat} {T : Task P S} (hl : lookup σ.tasks t = some T) : t < σ.next := by
  by_cases h : σ.next ≤ t
  · rw [hk t h] at hl; simp at hl
  · omega

theorem heapInv_load_err (env : Env P S J) {σ : St P S J} (hi : HeapInv σ) (hd : σ.dead = false) {t : Nat} {T : Task P S}
    (hl : lookup σ.tasks t = some T) (f : P) {s : S} {c : Nat} (hp : env.parse s = .error c) :
    HeapInv (step env σ (.call (.load t f s))).1 := by
  have hk' := step_keysLt env σ (.call (.load t f s)) hi.keys
  rw [step_load_err env hd hl f hp, register_err env _ _ _ _ hp] at hk' ⊢
  have hlt := live_lt hi.keys hl
  obtain ⟨a, b, c', d, e, g, l, k⟩ := hi
  obtain ⟨kT1, kT2, kT3⟩ := k t T hl
  refine ⟨?_, hk', ?_, ?_, ?_, ?_, ?_, ?_⟩
  · simp [List.range_succ, a]
  · intro x hx; simp at hx; rcases hx with hx | rfl; exact c' x hx; simp
  · intro x hx; simp at hx; rcases hx with hx | rfl; exact d x hx; simp
  · intro x hx t' ht; simp at hx; rcases hx with hx | rfl
    · exact e x hx t' ht
    · simp at ht; subst ht; exact hlt
  · intro x hx t' ht; simp only; rw [lookup_insert]; simp at hx; rcases hx with hx | rfl
    · split
      · simp
      · exact g x hx t' ht
    · simp at ht; subst ht; simp
  · intro x hx t' T' ht; simp only; rw [lookup_insert]; simp at hx; rcases hx with hx | rfl
    · split
      · rename_i e1; subst e1; intro hT; simp at hT; subst hT
        obtain ⟨l1, l2, l3⟩ := l x hx t T ht hl
        exact ⟨l1, by simp [l2], l3⟩
      · exact l x hx t' T' ht
    · simp at ht; subst ht; simp; intro hT; subst hT; simp
  · intro t' T'; simp only; rw [lookup_insert]; split
    · intro hT; simp at hT; subst hT
      rename_i e1; subst e1
      refine ⟨?_, ?_, ?_⟩
      · rw [List.nodup_append]
        refine ⟨kT1, by simp, ?_⟩
        intro x hx y hy; simp at hy; subst hy
        obtain ⟨z, hz, e1, _⟩ := kT2 x hx
        have := id_lt_of_ids a hz; omega
      · intro id hid; simp at hid; rcases hid with hid | rfl
        · obtain ⟨x, hx, e1, e2⟩ := kT2 id hid
          exact ⟨x, by simp [hx], e1, e2⟩
        · exact ⟨{ id := σ.heap.length, owner := some t, freed := 0, borrowed := false, bad := false }, by simp, rfl, rfl⟩
      · intro e1 he1; simp; exact Or.inl (kT3 e1 he1)
    · intro hT
      obtain ⟨k1, k2, k3⟩ := k t' T' hT
      refine ⟨k1, ?_, k3⟩
      intro id hid; obtain ⟨x, hx, e1, e2⟩ := k2 id hid
      exact ⟨x, by simp [hx], e1, e2⟩

theorem heapInv_load_ok (env : Env P S J) {σ : St P S J} (hi : HeapInv σ) (hd : σ.dead = false) {t : Nat} {T : Task P S}
    (hl : lookup σ.tasks t = some T) (f : P) {s : S} {imps : List P} (hp : env.parse s = .ok imps) :
    HeapInv (step env σ (.call (.load t f s))).1 := by
  have hk' := step_keysLt env σ (.call (.load t f s)) hi.keys
  rw [step_load_ok env hd hl f hp, register_ok env _ _ _ _ hp] at hk' ⊢
  have hlt := live_lt hi.keys hl
  obtain ⟨a, b, c', d, e, g, l, k⟩ := hi
  obtain ⟨kT1, kT2, kT3⟩ := k t T hl
  generalize hold : (T.borrows.filter fun e => decide (e.1 = f)).map (·.2) = olds at hk' ⊢
  refine ⟨?_, hk', ?_, ?_, ?_, ?_, ?_, ?_⟩
  · simp [List.range_succ, a, unborrow_map_id]
  · intro x hx; simp only [List.mem_append, mem_unborrow, List.mem_singleton] at hx
    rcases hx with ⟨y, hy, rfl⟩ | rfl
    · split <;> exact c' y hy
    · simp
  · intro x hx; simp only [List.mem_append, mem_unborrow, List.mem_singleton] at hx
    rcases hx with ⟨y, hy, rfl⟩ | rfl
    · split
      · intro ho; exact ⟨(d y hy ho).1, rfl⟩
      · exact d y hy
    · simp
  · intro x hx t' ht; simp only [List.mem_append, mem_unborrow, List.mem_singleton] at hx
    rcases hx with ⟨y, hy, rfl⟩ | rfl
    · have : y.owner = some t' := by split at ht <;> exact ht
      exact e y hy t' this
    · simp at ht; subst ht; exact hlt
  · intro x hx t' ht; simp only; rw [lookup_insert]
    simp only [List.mem_append, mem_unborrow, List.mem_singleton] at hx
    rcases hx with ⟨y, hy, rfl⟩ | rfl
    · have ho : y.owner = some t' := by split at ht <;> exact ht
      split
      · simp
      · intro hn
        have := g y hy t' ho hn
        split <;> simp [this]
    · simp at ht; subst ht; simp
  · intro x hx t' T' ht; simp only; rw [lookup_insert]
    simp only [List.mem_append, mem_unborrow, List.mem_singleton] at hx
    rcases hx with ⟨y, hy, rfl⟩ | rfl
    · have ho : y.owner = some t' := by split at ht <;> exact ht
      split
      · rename_i e1; subst e1; intro hT; simp at hT; subst hT
        obtain ⟨l1, l2, l3⟩ := l y hy t T ho hl
        split
        · rename_i hmem; exact ⟨l1, by simp [l2], by simp⟩
        · rename_i hmem
          refine ⟨l1, by simp [l2], ?_⟩
          intro hb
          obtain ⟨e1, he1, he2⟩ := l3 hb
          refine ⟨e1, ?_, he2⟩
          rw [mem_insert]; right
          refine ⟨he1, ?_⟩
          intro hf
          apply hmem
          rw [← hold]; simp only [List.mem_map, List.mem_filter]
          exact ⟨e1, ⟨he1, by simp [hf]⟩, he2⟩
      · intro hT
        obtain ⟨l1, l2, l3⟩ := l y hy t' T' ho hT
        split
        · exact ⟨l1, l2, by simp⟩
        · exact ⟨l1, l2, l3⟩
    · simp at ht; subst ht; simp; intro hT; subst hT; simp [mem_insert]
  · intro t' T'; simp only; rw [lookup_insert]; split
    · intro hT; simp at hT; subst hT
      rename_i e1; subst e1
      refine ⟨?_, ?_, ?_⟩
      · rw [List.nodup_append]
        refine ⟨kT1, by simp, ?_⟩
        intro x hx y hy; simp at hy; subst hy
        obtain ⟨z, hz, e1, _⟩ := kT2 x hx
        have := id_lt_of_ids a hz; omega
      · intro id hid; simp at hid; rcases hid with hid | rfl
        · obtain ⟨x, hx, e1, e2⟩ := kT2 id hid
          refine ⟨if x.id ∈ olds then { x with borrowed := false } else x, ?_, ?_, ?_⟩
          · simp only [List.mem_append, mem_unborrow]; exact Or.inl ⟨x, hx, rfl⟩
          · split <;> exact e1
          · split <;> exact e2
        · exact ⟨{ id := σ.heap.length, owner := some t, freed := 0, borrowed := true, bad := false }, by simp, rfl, rfl⟩
      · intro e1 he1; rcases mem_insert.mp he1 with rfl | ⟨he1, _⟩
        · simp
        · simp; exact Or.inl (kT3 e1 he1)
    · intro hT
      obtain ⟨k1, k2, k3⟩ := k t' T' hT
      refine ⟨k1, ?_, k3⟩
      intro id hid; obtain ⟨x, hx, e1, e2⟩ := k2 id hid
      refine ⟨if x.id ∈ olds then { x with borrowed := false } else x, ?_, ?_, ?_⟩
      · simp only [List.mem_append, mem_unborrow]; exact Or.inl ⟨x, hx, rfl⟩
      · split <;> exact e1
      · split <;> exact e2

end NitroVerif.Loader
namespace NitroVerif.Loader
variable {P S J : Type} [DecidableEq P]

theorem count_one_of_nodup (l : List Nat) (a : Nat) (h : l.Nodup) (ha : a ∈ l) : l.count a = 1 := by
  induction l with
  | nil => simp at ha
  | cons x r ih =>
    rw [List.nodup_cons] at h
    rw [List.count_cons]
    rcases List.mem_cons.mp ha with rfl | ha'
    · have : List.count a r = 0 := List.count_eq_zero.mpr h.1
      simp [this]
    · have hne : x ≠ a := by intro e; subst e; exact h.1 ha'
      simp [hne, ih h.2 ha']

theorem free_pointwise {σ : St P S J} (hi : HeapInv σ) {t : Nat} {T : Task P S} (hl : lookup σ.tasks t = some T) :
    (∀ b' ∈ dropTask (some t) σ.heap T, ∃ y ∈ σ.heap, b'.id = y.id ∧ b'.owner = y.owner ∧
      ((y.owner = some t ∧ b'.freed = 1 ∧ b'.borrowed = false ∧ b'.bad = false) ∨ (y.owner ≠ some t ∧ b' = y))) ∧
    (∀ y ∈ σ.heap, y.owner ≠ some t → y ∈ dropTask (some t) σ.heap T) := by
  obtain ⟨a, b, c', d, e, g, l, k⟩ := hi
  obtain ⟨kT1, kT2, kT3⟩ := k t T hl
  have key : ∀ y ∈ σ.heap, y.owner ≠ some t → y.id ∉ T.drops ∧ y.id ∉ T.borrows.map (·.2) := by
    intro y hy ho
    have h1 : y.id ∉ T.drops := by
      intro hmem
      obtain ⟨z, hz, e1, e2⟩ := kT2 y.id hmem
      have := eq_of_id_eq a hz hy e1
      subst this; exact ho e2
    refine ⟨h1, ?_⟩
    intro hmem
    simp only [List.mem_map] at hmem
    obtain ⟨e1, he1, he2⟩ := hmem
    exact h1 (he2 ▸ kT3 e1 he1)
  constructor
  · intro b' hb'
    simp only [dropTask, mem_freeBufs] at hb'
    obtain ⟨u, hu, rfl⟩ := hb'
    obtain ⟨y, hy, rfl⟩ := mem_unborrow.mp hu
    refine ⟨y, hy, ?_⟩
    by_cases ho : y.owner = some t
    · obtain ⟨l1, l2, l3⟩ := l y hy t T ho hl
      have hc := (c' y hy).1
      have hcount : List.count y.id T.drops = 1 := count_one_of_nodup _ _ kT1 l2
      by_cases hb : y.id ∈ T.borrows.map (·.2)
      · simp [hb, l2, ho, l1, hcount, hc]
      · have hnb : y.borrowed = false := by
          cases hyb : y.borrowed with
          | false => rfl
          | true =>
            obtain ⟨e1, he1, he2⟩ := l3 hyb
            exact absurd (List.mem_map.mpr ⟨e1, he1, he2⟩) hb
        simp [hb, l2, ho, l1, hcount, hc, hnb]
    · obtain ⟨h1, h2⟩ := key y hy ho
      simp [h1, h2, ho]
  · intro y hy ho
    obtain ⟨h1, h2⟩ := key y hy ho
    simp only [dropTask, mem_freeBufs]
    refine ⟨y, mem_unborrow.mpr ⟨y, hy, by simp [h2]⟩, by simp [h1]⟩

theorem heapInv_free (env : Env P S J) {σ : St P S J} (hi : HeapInv σ) (hd : σ.dead = false) {t : Nat} {T : Task P S}
    (hl : lookup σ.tasks t = some T) : HeapInv (step env σ (.call (.free t))).1 := by
  have hk' := step_keysLt env σ (.call (.free t)) hi.keys
  rw [step_free_some env hd hl] at hk' ⊢
  obtain ⟨pw, pw2⟩ := free_pointwise hi hl
  obtain ⟨a, b, c', d, e, g, l, k⟩ := hi
  refine ⟨?_, hk', ?_, ?_, ?_, ?_, ?_, ?_⟩
  · simp only [dropTask, freeBufs_map_id, unborrow_map_id, freeBufs_length, unborrow_length]; exact a
  · intro x hx
    obtain ⟨y, hy, _, _, h | h⟩ := pw x hx
    · simp [h.2.1, h.2.2.2]
    · rw [h.2]; exact c' y hy
  · intro x hx ho
    obtain ⟨y, hy, _, e2, h | h⟩ := pw x hx
    · exact ⟨h.2.1, h.2.2.1⟩
    · rw [h.2] at ho ⊢; exact d y hy ho
  · intro x hx t' ht
    obtain ⟨y, hy, _, e2, _⟩ := pw x hx
    exact e y hy t' (e2 ▸ ht)
  · intro x hx t' ht; simp only; rw [lookup_erase]
    obtain ⟨y, hy, _, e2, h | h⟩ := pw x hx
    · intro _; exact ⟨h.2.1, h.2.2.1⟩
    · split
      · rename_i e1; subst e1; rw [h.2] at ht; exact absurd ht h.1
      · rw [h.2] at ht ⊢; exact g y hy t' ht
  · intro x hx t' T' ht; simp only; rw [lookup_erase]
    split
    · simp
    · rename_i hne
      obtain ⟨y, hy, _, e2, h | h⟩ := pw x hx
      · rw [e2, h.1] at ht; simp at ht; exact absurd ht.symm hne
      · rw [h.2] at ht ⊢; exact l y hy t' T' ht
  · intro t' T'; simp only; rw [lookup_erase]; split
    · simp
    · rename_i hne
      intro hT
      obtain ⟨k1, k2, k3⟩ := k t' T' hT
      refine ⟨k1, ?_, k3⟩
      intro id hid; obtain ⟨x, hx, e1, e2⟩ := k2 id hid
      refine ⟨x, pw2 x hx ?_, e1, e2⟩
      rw [e2]; simp; exact hne

theorem step_heapInv (env : Env P S J) (σ : St P S J) (op : Op P S) (hi : HeapInv σ) : HeapInv (step env σ op).1 := by
  cases hd : σ.dead with
  | true => rw [step_dead env σ op hd]; exact hi
  | false =>
  cases op with
  | getResult => simp only [step, hd]; simp; split <;> exact heapInv_congr hi rfl rfl rfl
  | call c =>
    cases c with
    | initiate f s =>
      cases hp : env.parse s with
      | error c => exact heapInv_initiate_err env hi hd hp f
      | ok imps => exact heapInv_initiate_ok env hi hd hp f
    | required t =>
      cases hl : lookup σ.tasks t with
      | none => rw [step_required_none env hd hl]; exact heapInv_congr hi rfl rfl rfl
      | some T => rw [step_required_some env hd hl]; exact heapInv_congr hi rfl rfl rfl
    | load t f s =>
      cases hl : lookup σ.tasks t with
      | none => rw [step_load_none env hd hl]; exact heapInv_congr hi rfl rfl rfl
      | some T =>
        cases hp : env.parse s with
        | error c => exact heapInv_load_err env hi hd hl f hp
        | ok imps => exact heapInv_load_ok env hi hd hl f hp
    | emit t =>
      cases hl : lookup σ.tasks t with
      | none => rw [step_emit_none env hd hl]; exact heapInv_congr hi rfl rfl rfl
      | some T =>
        simp only [step, stepCall, hd, hl]; simp; (repeat' split) <;> exact heapInv_congr hi rfl rfl rfl
    | free t =>
      cases hl : lookup σ.tasks t with
      | none => rw [step_free_none env hd hl]; exact hi
      | some T => exact heapInv_free env hi hd hl

theorem run_heapInv (env : Env P S J) (h : List (Op P S)) : ∀ σ : St P S J, HeapInv σ → HeapInv (runSt env σ h) := by
  induction h with
  | nil => intro σ hi; exact hi
  | cons op h ih => intro σ hi; exact ih _ (step_heapInv env σ op hi)

end NitroVerif.Loader
namespace NitroVerif.Loader
variable {P S J : Type} [DecidableEq P]

/-- with a total emitter a call on a live instance neither traps nor kills the instance -/
theorem step_call_alive (env : Env P S J) (he : EmitTotal env) (σ : St P S J) (hd : σ.dead = false) (hr : RootOk σ)
    (c : Call P S) : (step env σ (.call c)).1.dead = false ∧ (step env σ (.call c)).2 ≠ .trap := by
  cases c with
  | initiate f s =>
    cases hp : env.parse s with
    | error c => rw [step_initiate_err env hd hp]; exact ⟨hd, by simp⟩
    | ok imps => rw [step_initiate_ok env hd hp]; exact ⟨hd, by simp⟩
  | required t =>
    cases hl : lookup σ.tasks t with
    | none => rw [step_required_none env hd hl]; exact ⟨hd, by simp⟩
    | some T => rw [step_required_some env hd hl]; exact ⟨hd, by simp⟩
  | load t f s =>
    cases hl : lookup σ.tasks t with
    | none => rw [step_load_none env hd hl]; exact ⟨hd, by simp⟩
    | some T =>
      cases hp : env.parse s with
      | error c => rw [step_load_err env hd hl f hp]; exact ⟨hd, by simp⟩
      | ok imps => rw [step_load_ok env hd hl f hp]; exact ⟨hd, by simp⟩
  | emit t =>
    cases hl : lookup σ.tasks t with
    | none => rw [step_emit_none env hd hl]; exact ⟨hd, by simp⟩
    | some T =>
      cases h3 : lookup T.files T.root with
      | none => exact absurd h3 (hr t T hl)
      | some d =>
        rw [step_emit_some env hd hl h3]
        have het := he T.root (lookup T.files)
        cases h4 : env.emit T.root (lookup T.files) with
        | trap => exact absurd h4 het
        | js j => exact ⟨hd, by simp⟩
        | err e => exact ⟨hd, by simp⟩
  | free t =>
    cases hl : lookup σ.tasks t with
    | none => rw [step_free_none env hd hl]; exact ⟨hd, by simp⟩
    | some T => rw [step_free_some env hd hl]; exact ⟨hd, by simp⟩

theorem run_calls_alive (env : Env P S J) (he : EmitTotal env) (h : List (Call P S)) :
    ∀ σ : St P S J, σ.dead = false → RootOk σ → ∀ r ∈ runResps env σ (h.map .call), r ≠ .trap := by
  induction h with
  | nil => intro σ _ _ r hr; simp [runResps] at hr
  | cons c h ih =>
    intro σ hd hro r hr
    simp only [List.map_cons, runResps, List.mem_cons] at hr
    have ⟨h1, h2⟩ := step_call_alive env he σ hd hro c
    rcases hr with rfl | hr
    · exact h2
    · exact ih _ h1 (step_rootOk env σ _ hro) r hr

end NitroVerif.Loader
