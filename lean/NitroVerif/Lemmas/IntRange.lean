import NitroVerif.Spec.IntRange
import NitroVerif.Lemmas.IntLit
/-!
The 32-bit range of Int literals is PART of rule 5.6.1 (since `Valid.leafCoercible` requires it — fix e3584a3):
a value on which `valueIssues` does not report "5.6.1" has every integer literal at an `Int` position in range
(`intRangeOk`), through nested lists (and single values for list types), input objects and their fields.
-/
namespace NitroVerif.Valid
open NitroVerif NitroVerif.Gql

/-- an integer literal the specification coerces to `Int` is a 32-bit value -/
theorem int_leafCoercible_inRange {S : Schema} {s : String} {p : Pos}
    (h : leafCoercible S (.int s p) "Int" = true) : SpecInt.intTextInRange s = true := by
  unfold leafCoercible at h
  cases ht : S.typeDef? "Int" with
  | none => simp [ht] at h
  | some td =>
    simp only [ht] at h
    cases hk : td.kind <;> simp [hk] at h
    exact h

/-- `valueIssues` without a "5.6.1" entry ⇒ `intRangeOk` -/
theorem intRangeOk_of_no_5_6_1 (S : Schema) : ∀ (k : Nat) (v : Value), v.size ≤ k → ∀ (t : GType),
    "5.6.1" ∉ valueIssues S v t → intRangeOk S v t = true := by
  intro k
  induction k with
  | zero => intro v hv; cases v <;> simp [Value.size] at hv
  | succ k ih =>
    have hlist : ∀ (vs : List Value) (inner : GType), Value.sizeList vs ≤ k →
        "5.6.1" ∉ valueIssuesList S vs inner → intRangeOkList S vs inner = true := by
      intro vs inner
      induction vs with
      | nil => intro _ _; simp [intRangeOkList]
      | cons v vs ihvs =>
        intro hsz hx
        simp only [Value.sizeList] at hsz
        simp only [valueIssuesList, List.mem_append, not_or] at hx
        simp only [intRangeOkList, Bool.and_eq_true]
        exact ⟨ih v (by omega) inner hx.1, ihvs (by omega) hx.2⟩
    have hfields : ∀ (inputs : List InputValueDef) (fs : List (Name × Pos × Value)), Value.sizeFields fs ≤ k →
        "5.6.1" ∉ fieldIssues S fs inputs → intRangeOkFields S fs inputs = true := by
      intro inputs fs
      induction fs with
      | nil => intro _ _; simp [intRangeOkFields]
      | cons f fs ihfs =>
        obtain ⟨kk, p, v⟩ := f
        intro hsz hx
        simp only [Value.sizeFields] at hsz
        simp only [fieldIssues, List.mem_append, not_or] at hx
        simp only [intRangeOkFields, Bool.and_eq_true]
        refine ⟨?_, ihfs (by omega) hx.2⟩
        cases hfd : inputs.find? (·.name == kk) with
        | none => rfl
        | some d =>
          have h1 := hx.1
          simp only [hfd] at h1 ⊢
          exact ih v (by omega) d.ty h1
    intro v hsz t hx
    cases v with
    | var n p => simp [intRangeOk]
    | null p => simp [intRangeOk]
    | float s p => simp [intRangeOk]
    | str s p => simp [intRangeOk]
    | bool s p => simp [intRangeOk]
    | enum s p => simp [intRangeOk]
    | int s p =>
      simp only [valueIssues] at hx
      simp only [intRangeOk, Bool.or_eq_true, Bool.not_eq_true', beq_eq_false_iff_ne, ne_eq]
      by_cases hn : t.unwrapped = "Int"
      · right
        have hc : leafCoercible S (.int s p) t.unwrapped = true := by
          cases hc : leafCoercible S (.int s p) t.unwrapped with
          | true => rfl
          | false => simp [hc] at hx
        rw [hn] at hc
        exact int_leafCoercible_inRange hc
      · exact Or.inl hn
    | list vs p =>
      simp only [Value.size] at hsz
      simp only [valueIssues] at hx
      simp only [intRangeOk]
      split
      · rename_i inner ip hst
        simp only [hst] at hx
        exact hlist vs _ (by omega) hx
      · rfl
    | obj fs p =>
      simp only [Value.size] at hsz
      simp only [valueIssues] at hx
      simp only [intRangeOk]
      cases ht : S.typeDef? t.unwrapped with
      | none => rfl
      | some td =>
        simp only [ht] at hx ⊢
        by_cases hk : (td.kind == TypeKind.input) = true
        · simp only [hk, if_true, List.mem_append, not_or] at hx ⊢
          exact hfields _ fs (by omega) hx.2
        · simp [hk]

/-- rule 5.6.1 contains the 32-bit range of Int literals -/
theorem rule_int32_of_rule_5_6_1 (S : Schema) (D : Doc) (h : rule_5_6_1 S D = true) : rule_int32 S D = true := by
  unfold rule_5_6_1 valueRule at h
  unfold rule_int32
  rw [List.all_eq_true] at h ⊢
  intro tv htv
  have := h tv htv
  simp only [Bool.not_eq_true', List.contains_eq_mem, decide_eq_false_iff_not] at this
  exact intRangeOk_of_no_5_6_1 S _ tv.value (Nat.le_refl _) tv.ty this

end NitroVerif.Valid
