import NitroVerif.Model.Paths
/-! Helper lemmas for C20 (no property statements here). -/
namespace NitroVerif.Paths

def IsNormal : Comp → Prop
  | .normal _ => True
  | _ => False

def Normals (l : P) : Prop := ∀ c ∈ l, IsNormal c

theorem normals_nil : Normals [] := by intro c h; cases h

theorem normals_cons {c : Comp} {l : P} : Normals (c :: l) ↔ IsNormal c ∧ Normals l := by
  simp [Normals]

theorem normals_append {a b : P} : Normals (a ++ b) ↔ Normals a ∧ Normals b := by
  simp [Normals, or_imp, forall_and]

theorem normals_take {l : P} (n : Nat) (h : Normals l) : Normals (l.take n) :=
  fun c hc => h c (List.mem_of_mem_take hc)

theorem normals_drop {l : P} (n : Nat) (h : Normals l) : Normals (l.drop n) :=
  fun c hc => h c (List.mem_of_mem_drop hc)

theorem normals_dropLast {l : P} (h : Normals l) : Normals l.dropLast :=
  fun c hc => h c ((List.dropLast_sublist l).subset hc)

/-- folding the normalisation step over normal components appends them -/
theorem foldl_normStep_normals (s l : P) (h : Normals l) : l.foldl normStep s = s ++ l := by
  induction l generalizing s with
  | nil => simp
  | cons c l ih =>
    have ⟨hc, hl⟩ := normals_cons.mp h
    cases c <;> simp [IsNormal] at hc
    simp [List.foldl_cons, normStep, ih _ hl]

/-- `m` parent components drop the last `m` entries of the stack -/
theorem foldl_normStep_parents (s : P) (m : Nat) :
    (List.replicate m Comp.parent).foldl normStep s = s.take (s.length - m) := by
  induction m generalizing s with
  | zero => simp
  | succ m ih =>
    simp only [List.replicate_succ, List.foldl_cons, normStep]
    rw [ih, List.dropLast_eq_take, List.take_take]
    congr 1
    simp only [List.length_take]
    omega

/-- a clean absolute path: root followed by normal components -/
def CleanAbs (p : P) : Prop := ∃ ns, Normals ns ∧ p = .root :: ns

theorem normalize_cleanAbs {ns : P} (h : Normals ns) : normalize (.root :: ns) = .root :: ns := by
  simp [normalize, List.foldl_cons, normStep, foldl_normStep_normals _ _ h]

/-- executable "never pops at the root" check on the part after the root -/
def noClimbAux : Nat → P → Bool
  | _, [] => true
  | d, .cur :: r => noClimbAux d r
  | d, .normal _ :: r => noClimbAux (d + 1) r
  | 0, .parent :: _ => false
  | d + 1, .parent :: r => noClimbAux d r
  | _, .root :: _ => false

theorem foldl_normStep_noClimb (ns r : P) (hns : Normals ns) (h : noClimbAux ns.length r = true) :
    ∃ ns', Normals ns' ∧ r.foldl normStep (.root :: ns) = .root :: ns' := by
  induction r generalizing ns with
  | nil => exact ⟨ns, hns, rfl⟩
  | cons c r ih =>
    cases c with
    | root => simp [noClimbAux] at h
    | cur => simpa [noClimbAux, normStep] using ih ns hns (by simpa [noClimbAux] using h)
    | normal s =>
      have hn : Normals (ns ++ [Comp.normal s]) :=
        normals_append.mpr ⟨hns, by intro c hc; simp at hc; subst hc; trivial⟩
      have := ih (ns ++ [Comp.normal s]) hn (by simpa [noClimbAux] using h)
      simpa [normStep] using this
    | parent =>
      cases hlen : ns.length with
      | zero => simp [hlen, noClimbAux] at h
      | succ d =>
        rw [hlen] at h
        have hne : ns ≠ [] := by intro e; simp [e] at hlen
        have hd : ns.dropLast.length = d := by simp [hlen]
        have := ih ns.dropLast (normals_dropLast hns) (by rw [hd]; simpa [noClimbAux] using h)
        simp only [List.foldl_cons, normStep]
        rw [List.dropLast_cons_of_ne_nil hne]
        exact this

theorem commonPrefix_take : ∀ (a b : P), a.take (commonPrefix a b) = b.take (commonPrefix a b)
  | [], _ => by simp [commonPrefix]
  | _ :: _, [] => by simp [commonPrefix]
  | x :: as, y :: bs => by
    unfold commonPrefix
    split
    · next h => subst h; simp [commonPrefix_take as bs]
    · simp

theorem commonPrefix_le_left : ∀ (a b : P), commonPrefix a b ≤ a.length
  | [], _ => by simp [commonPrefix]
  | _ :: _, [] => by simp [commonPrefix]
  | x :: as, y :: bs => by
    unfold commonPrefix
    split
    · have := commonPrefix_le_left as bs; simp; omega
    · simp

theorem commonPrefix_le_right : ∀ (a b : P), commonPrefix a b ≤ b.length
  | [], _ => by simp [commonPrefix]
  | _ :: _, [] => by simp [commonPrefix]
  | x :: as, y :: bs => by
    unfold commonPrefix
    split
    · have := commonPrefix_le_right as bs; simp; omega
    · simp

theorem ups_normals (l : P) (h : Normals l) : ups l = some (List.replicate l.length .parent) := by
  induction l with
  | nil => simp [ups]
  | cons c l ih =>
    have ⟨hc, hl⟩ := normals_cons.mp h
    cases c <;> simp [IsNormal] at hc
    simp [ups, upOf, ih hl, List.replicate_succ]

theorem foldl_push_noRootCur (s l : P) (h : ∀ c ∈ l, c ≠ .root ∧ c ≠ .cur) : l.foldl push s = s ++ l := by
  induction l generalizing s with
  | nil => simp
  | cons c l ih =>
    have hc := h c (by simp)
    have hl : ∀ c ∈ l, c ≠ .root ∧ c ≠ .cur := fun c hc => h c (by simp [hc])
    cases c <;> simp at hc <;> simp [List.foldl_cons, push, ih _ hl]

theorem pop_cleanAbs {ns : P} (h : Normals ns) : pop (.root :: ns) = .root :: ns.dropLast := by
  unfold pop
  cases hns : ns with
  | nil => simp
  | cons c r =>
    have hne : (c :: r) ≠ [] := by simp
    have hl : (Comp.root :: c :: r).getLast? = some ((c :: r).getLast hne) := by
      simp [List.getLast?_eq_some_getLast, List.getLast_cons]
    rw [hl]
    have hin : IsNormal ((c :: r).getLast hne) := by
      apply h; rw [hns]; exact List.getLast_mem hne
    rw [List.dropLast_cons_of_ne_nil hne]
    cases hx : (c :: r).getLast hne <;> simp [hx, IsNormal] at hin ⊢

end NitroVerif.Paths
