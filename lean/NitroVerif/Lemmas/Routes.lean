/-
Lemmas for `C15_schema_eq` (second half): the schema of the JSON route read back from the specification's
introspection result and the schema of the SDL route answer every lookup alike.
-/
import NitroVerif.Lemmas.Introspect
import NitroVerif.Model.CliSchema
namespace NitroVerif.Routes
open NitroVerif NitroVerif.Gql NitroVerif.SchemaIR NitroVerif.AstSchema NitroVerif.IntrospectSpec NitroVerif.CliSchema

/-! ### `ast_to_type_system` as a function of the three kinds of definitions -/

theorem extendTypes_cons (acc : List ITypeDef) (x : ITypeDef) (r : List ITypeDef) :
    extendTypes acc (x :: r) = extendTypes (extendTypes acc [x]) r := by
  simp [extendTypes]

theorem extendDirectives_cons (acc : List IDirectiveDef) (x : IDirectiveDef) (r : List IDirectiveDef) :
    extendDirectives acc (x :: r) = extendDirectives (extendDirectives acc [x]) r := by
  simp [extendDirectives]

theorem extendTypes_append (acc a b : List ITypeDef) :
    extendTypes acc (a ++ b) = extendTypes (extendTypes acc a) b := by
  induction a generalizing acc with
  | nil => simp [extendTypes]
  | cons x r ih => simp only [List.cons_append, extendTypes, ih]

@[simp] theorem userTypes_schemaDef (d) (r : TsDoc) : userTypes (TsItem.schemaDef d :: r) = userTypes r := rfl
@[simp] theorem userDirectives_schemaDef (d) (r : TsDoc) : userDirectives (TsItem.schemaDef d :: r) = userDirectives r := rfl
@[simp] theorem schemaDefs_schemaDef (d) (r : TsDoc) : schemaDefs (TsItem.schemaDef d :: r) = d :: schemaDefs r := rfl
@[simp] theorem userTypes_typeDef (t) (r : TsDoc) : userTypes (TsItem.typeDef t :: r) = convTypeDef t :: userTypes r := rfl
@[simp] theorem userDirectives_typeDef (t) (r : TsDoc) : userDirectives (TsItem.typeDef t :: r) = userDirectives r := rfl
@[simp] theorem schemaDefs_typeDef (t) (r : TsDoc) : schemaDefs (TsItem.typeDef t :: r) = schemaDefs r := rfl
@[simp] theorem userTypes_directiveDef (d) (r : TsDoc) : userTypes (TsItem.directiveDef d :: r) = userTypes r := rfl
@[simp] theorem userDirectives_directiveDef (d) (r : TsDoc) : userDirectives (TsItem.directiveDef d :: r) = convDirectiveDef d :: userDirectives r := rfl
@[simp] theorem schemaDefs_directiveDef (d) (r : TsDoc) : schemaDefs (TsItem.directiveDef d :: r) = schemaDefs r := rfl
@[simp] theorem userTypes_schemaExt (d) (r : TsDoc) : userTypes (TsItem.schemaExt d :: r) = userTypes r := rfl
@[simp] theorem userDirectives_schemaExt (d) (r : TsDoc) : userDirectives (TsItem.schemaExt d :: r) = userDirectives r := rfl
@[simp] theorem schemaDefs_schemaExt (d) (r : TsDoc) : schemaDefs (TsItem.schemaExt d :: r) = schemaDefs r := rfl
@[simp] theorem userTypes_typeExt (t) (r : TsDoc) : userTypes (TsItem.typeExt t :: r) = userTypes r := rfl
@[simp] theorem userDirectives_typeExt (t) (r : TsDoc) : userDirectives (TsItem.typeExt t :: r) = userDirectives r := rfl
@[simp] theorem schemaDefs_typeExt (t) (r : TsDoc) : schemaDefs (TsItem.typeExt t :: r) = schemaDefs r := rfl
@[simp] theorem userTypes_nil : userTypes [] = [] := rfl
@[simp] theorem userDirectives_nil : userDirectives [] = [] := rfl
@[simp] theorem schemaDefs_nil : schemaDefs [] = [] := rfl

/-- roots after folding the schema definitions -/
def foldRoots (r : Roots) (ds : List SchemaDef) : Roots := ds.foldl (fun r d => setRoots r d.roots) r

theorem fold_step (doc : TsDoc) (b : B) :
    (doc.foldl step b).s.types = extendTypes b.s.types (userTypes doc) ∧
    (doc.foldl step b).s.directives = extendDirectives b.s.directives (userDirectives doc) ∧
    (doc.foldl step b).s.roots = foldRoots b.s.roots (schemaDefs doc) ∧
    (doc.foldl step b).s.explicitRoots =
      (if b.rootsNode then b.s.explicitRoots else
        match schemaDefs doc with
        | [] => b.s.explicitRoots
        | d :: _ => !d.pos.builtin) := by
  induction doc generalizing b with
  | nil => simp [foldRoots, extendTypes, extendDirectives]
  | cons item rest ih =>
    simp only [List.foldl_cons]
    obtain ⟨h1, h2, h3, h4⟩ := ih (step b item)
    rw [h1, h2, h3, h4]
    cases item with
    | schemaDef d =>
      cases hd : d.desc <;> cases hn : b.rootsNode <;> simp [step, hd, hn, foldRoots]
    | typeDef t => simp [step, foldRoots, extendTypes]
    | directiveDef d => simp [step, foldRoots, extendDirectives]
    | schemaExt d => simp [step] <;> rfl
    | typeExt t => simp [step] <;> rfl

theorem astToSchema_types (doc : TsDoc) : (astToSchema doc).types = extendTypes [] (userTypes doc) :=
  (fold_step doc {}).1
theorem astToSchema_directives (doc : TsDoc) :
    (astToSchema doc).directives = extendDirectives [] (userDirectives doc) := (fold_step doc {}).2.1
theorem astToSchema_roots (doc : TsDoc) : (astToSchema doc).roots = foldRoots {} (schemaDefs doc) :=
  (fold_step doc {}).2.2.1
theorem astToSchema_explicit (doc : TsDoc) :
    (astToSchema doc).explicitRoots = (match schemaDefs doc with | [] => false | d :: _ => !d.pos.builtin) := by
  have := (fold_step doc {}).2.2.2
  simpa [astToSchema] using this

/-! ### first-definition-wins lookup through `extendTypes` -/

theorem find?_extendTypes (acc l : List ITypeDef) (n : String) :
    (extendTypes acc l).find? (·.name == n) = (acc ++ l).find? (·.name == n) := by
  induction l generalizing acc with
  | nil => simp [extendTypes]
  | cons t r ih =>
    simp only [extendTypes]
    split
    · rename_i hany
      rw [ih, List.find?_append, List.find?_append, List.find?_cons]
      by_cases ht : (t.name == n) = true
      · obtain ⟨u, hu, hun⟩ := List.any_eq_true.mp hany
        have hn : (u.name == n) = true := by
          have h1 : u.name = t.name := by simpa using hun
          have h2 : t.name = n := by simpa using ht
          simp [h1, h2]
        have hsome : (acc.find? (·.name == n)).isSome = true := by
          rw [List.find?_isSome]; exact ⟨u, hu, hn⟩
        cases hf : acc.find? (·.name == n) with
        | none => simp [hf] at hsome
        | some x => simp
      · simp [ht]
    · rw [ih]; simp

theorem find?_extendDirectives (acc l : List IDirectiveDef) (n : String) :
    (extendDirectives acc l).find? (·.name == n) = (acc ++ l).find? (·.name == n) := by
  induction l generalizing acc with
  | nil => simp [extendDirectives]
  | cons t r ih =>
    simp only [extendDirectives]
    split
    · rename_i hany
      rw [ih, List.find?_append, List.find?_append, List.find?_cons]
      by_cases ht : (t.name == n) = true
      · obtain ⟨u, hu, hun⟩ := List.any_eq_true.mp hany
        have hn : (u.name == n) = true := by
          have h1 : u.name = t.name := by simpa using hun
          have h2 : t.name = n := by simpa using ht
          simp [h1, h2]
        have hsome : (acc.find? (·.name == n)).isSome = true := by
          rw [List.find?_isSome]; exact ⟨u, hu, hn⟩
        cases hf : acc.find? (·.name == n) with
        | none => simp [hf] at hsome
        | some x => simp
      · simp [ht]
    · rw [ih]; simp

/-- definitions that do not pass a filter do not change the filtered list -/
theorem filter_extendTypes (p : ITypeDef → Bool) (acc l : List ITypeDef) (h : ∀ t ∈ l, p t = false) :
    (extendTypes acc l).filter p = acc.filter p := by
  induction l generalizing acc with
  | nil => simp [extendTypes]
  | cons t r ih =>
    simp only [extendTypes]
    rw [ih _ (fun x hx => h x (by simp [hx]))]
    split
    · rfl
    · simp [h t (by simp)]

/-! ### the two sides -/

/-- the schema of the JSON route for the specification's introspection result of `M` -/
def jsonSide (M : TsDoc) : Schema := addBuiltinScalars (Introspect.readBack (specSchema M))

theorem userTypes_append (a b : TsDoc) : userTypes (a ++ b) = userTypes a ++ userTypes b := by
  simp [userTypes, List.filterMap_append]
theorem userDirectives_append (a b : TsDoc) : userDirectives (a ++ b) = userDirectives a ++ userDirectives b := by
  simp [userDirectives, List.filterMap_append]
theorem schemaDefs_append (a b : TsDoc) : schemaDefs (a ++ b) = schemaDefs a ++ schemaDefs b := by
  simp [schemaDefs, List.filterMap_append]

theorem userTypes_builtins : userTypes builtins = builtinScalarDefs := rfl
theorem schemaDefs_builtins : schemaDefs builtins = [] := rfl

/-- the directive definitions the SDL route appends -/
def sdlDirectives : List IDirectiveDef := userDirectives builtins

theorem cleanType_name (t : ITypeDef) : (cleanType t).name = t.name := by
  cases t with | mk kind name desc fields interfaces possible members inputs =>
  cases kind <;> rfl

theorem cleanType_convTypeDef (t : TypeDef) : cleanType (convTypeDef t) = convTypeDef t := by
  cases h : t.kind <;> simp [convTypeDef, cleanType, h]

theorem userTypes_clean (M : TsDoc) : ∀ t ∈ userTypes M, cleanType t = t := by
  intro t ht
  simp only [userTypes, List.mem_filterMap] at ht
  obtain ⟨item, _, hi⟩ := ht
  cases item <;> simp at hi
  subst hi
  exact cleanType_convTypeDef _

theorem map_clean_userTypes (M : TsDoc) : (userTypes M).map cleanType = userTypes M := by
  conv => rhs; rw [← List.map_id (userTypes M)]
  exact List.map_congr_left fun t ht => by simpa using userTypes_clean M t ht

/-- the non-user part of the types the specification lists: referenced built-in scalars and `__*` types -/
def specExtra (M : TsDoc) : List ITypeDef :=
  (referencedBuiltins (userTypes M ++ introspectionTypes) (builtinDirectives ++ userDirectives M)).map cleanType
    ++ introspectionTypes.map cleanType

theorem jsonSide_types (M : TsDoc) :
    (jsonSide M).types = extendTypes (extendTypes [] (userTypes M ++ specExtra M)) builtinScalarDefs := by
  simp [jsonSide, addBuiltinScalars, Introspect.readBack, specSchema, specExtra, map_clean_userTypes, List.map_append]

theorem routeSdl_types (M : TsDoc) :
    (routeSdl M).types = extendTypes [] (userTypes M ++ builtinScalarDefs) := by
  simp [routeSdl, astToSchema_types, userTypes_append, userTypes_builtins]

theorem intro_facts : ∀ t ∈ introspectionTypes.map cleanType, isIntrospectionName t.name = true ∧ t.interfaces = [] := by
  decide

theorem builtin_find : ∀ b ∈ builtinScalarNames,
    builtinScalarDefs.find? (·.name == b) = some { kind := .scalar, name := b } := by decide

/-- a non-`__` name found among the extra types of the specification is a built-in scalar, found identically among
    the five definitions the routes append -/
theorem specExtra_find (M : TsDoc) (n : String) (hn : isIntrospectionName n = false) (t : ITypeDef)
    (h : (specExtra M).find? (·.name == n) = some t) : builtinScalarDefs.find? (·.name == n) = some t := by
  have hmem := List.mem_of_find?_eq_some h
  have hname : t.name = n := by simpa using List.find?_some h
  simp only [specExtra, List.mem_append] at hmem
  rcases hmem with hm | hm
  · simp only [referencedBuiltins, List.map_map, List.mem_map, List.mem_filter, Function.comp_def] at hm
    obtain ⟨b, ⟨hb, _⟩, rfl⟩ := hm
    have : n = b := by rw [← hname]; rfl
    subst this
    exact builtin_find n hb
  · have := (intro_facts t hm).1
    rw [hname, hn] at this
    exact absurd this (by simp)

theorem typeDef?_jsonSide (M : TsDoc) (n : String) (hn : isIntrospectionName n = false) :
    (jsonSide M).typeDef? n = ((userTypes M).find? (·.name == n)).or (builtinScalarDefs.find? (·.name == n)) := by
  simp only [Schema.typeDef?, jsonSide_types, find?_extendTypes, List.nil_append, List.find?_append]
  cases hu : (userTypes M).find? (·.name == n) with
  | some t => simp
  | none =>
    cases hx : (specExtra M).find? (·.name == n) with
    | none => simp
    | some t => simp [specExtra_find M n hn t hx]

theorem typeDef?_routeSdl (M : TsDoc) (n : String) :
    (routeSdl M).typeDef? n = ((userTypes M).find? (·.name == n)).or (builtinScalarDefs.find? (·.name == n)) := by
  simp only [Schema.typeDef?, routeSdl_types, find?_extendTypes, List.nil_append, List.find?_append]

/-- lookup of a type by name: the same definition on both routes (no hypothesis on `M`) -/
theorem viewType_routes (M : TsDoc) (n : String) : viewType (jsonSide M) n = viewType (routeSdl M) n := by
  simp only [viewType]
  cases hn : isIntrospectionName n with
  | true => simp
  | false => simp [typeDef?_jsonSide M n hn, typeDef?_routeSdl]

/-! ### directives -/

def builtinDirectiveNames : List String := ["skip", "include", "deprecated", "specifiedBy"]

theorem builtinDirectives_names : builtinDirectives.map (·.name) = builtinDirectiveNames := by decide
theorem sdlDirectives_names : sdlDirectives.map (·.name) = builtinDirectiveNames ++ ["nitrogql_ts_type"] := by decide

/-- the four built-in directives are defined alike (after erasure) by the specification and by `generate_builtins()` -/
theorem builtinDirectives_agree : ∀ n ∈ builtinDirectiveNames,
    (builtinDirectives.find? (·.name == n)).isSome = true ∧
    (builtinDirectives.find? (·.name == n)).map eraseDirective
      = (sdlDirectives.find? (·.name == n)).map eraseDirective := by decide

theorem find?_directive_none (l : List IDirectiveDef) (n : String) (h : n ∉ l.map (·.name)) :
    l.find? (·.name == n) = none := by
  simp only [List.find?_eq_none]
  intro d hd hn
  exact h (List.mem_map.mpr ⟨d, hd, by simpa using hn⟩)

theorem jsonSide_directives (M : TsDoc) :
    (jsonSide M).directives = extendDirectives [] (builtinDirectives ++ userDirectives M) := by
  simp [jsonSide, addBuiltinScalars, Introspect.readBack, specSchema]

theorem routeSdl_directives (M : TsDoc) :
    (routeSdl M).directives = extendDirectives [] (userDirectives M ++ sdlDirectives) := by
  simp [routeSdl, astToSchema_directives, userDirectives_append, sdlDirectives]

/-- lookup of a directive by name, provided `M` does not redefine a built-in directive -/
theorem viewDirective_routes (M : TsDoc) (hd : ∀ d ∈ userDirectives M, d.name ∉ builtinDirectiveNames) (n : String) :
    viewDirective (jsonSide M) n = viewDirective (routeSdl M) n := by
  simp only [viewDirective]
  cases hn : isNitrogqlDirective n with
  | true => simp
  | false =>
    simp only [Schema.directiveDef?, jsonSide_directives, routeSdl_directives, find?_extendDirectives,
      List.nil_append, List.find?_append]
    by_cases hb : n ∈ builtinDirectiveNames
    · have hu : (userDirectives M).find? (·.name == n) = none := by
        simp only [List.find?_eq_none]
        intro d hdm hdn
        have : d.name = n := by simpa using hdn
        exact hd d hdm (this ▸ hb)
      obtain ⟨hsome, hag⟩ := builtinDirectives_agree n hb
      cases hf : builtinDirectives.find? (·.name == n) with
      | none => simp [hf] at hsome
      | some d => simpa [hu, hf] using hag
    · have h1 : builtinDirectives.find? (·.name == n) = none :=
        find?_directive_none _ _ (by rw [builtinDirectives_names]; exact hb)
      have h2 : sdlDirectives.find? (·.name == n) = none := by
        apply find?_directive_none
        rw [sdlDirectives_names]
        simp only [List.mem_append, List.mem_singleton, not_or]
        refine ⟨hb, fun h => ?_⟩
        simp [isNitrogqlDirective, h] at hn
      simp [h1, h2]

/-! ### root operation types -/

theorem jsonSide_roots (M : TsDoc) : (jsonSide M).roots = specRoots M ∧ (jsonSide M).explicitRoots = false := by
  simp [jsonSide, addBuiltinScalars, Introspect.readBack, specSchema]

theorem routeSdl_roots (M : TsDoc) :
    (routeSdl M).roots = foldRoots {} (schemaDefs M) ∧
    (routeSdl M).explicitRoots = (match schemaDefs M with | [] => false | d :: _ => !d.pos.builtin) := by
  simp [routeSdl, astToSchema_roots, astToSchema_explicit, schemaDefs_append, schemaDefs_builtins]

theorem default_names_facts : ∀ k ∈ allOpK,
    isIntrospectionName (Schema.defaultRootName k) = false ∧
    builtinScalarDefs.find? (·.name == Schema.defaultRootName k) = none := by decide

theorem specRoots_default_get (M : TsDoc) (h : schemaDefs M = []) (k : OpK) :
    (specRoots M).get k = defaultRoot (userTypes M) (Schema.defaultRootName k) := by
  cases k <;> simp [specRoots, h, Roots.get, Schema.defaultRootName]

/-- the root type an operation kind is checked against -/
theorem viewRoot_routes (M : TsDoc) (q : String) (hq : (specRoots M).query = some q)
    (h1 : (schemaDefs M).length ≤ 1)
    (hobj : schemaDefs M = [] → ∀ k t, (userTypes M).find? (·.name == Schema.defaultRootName k) = some t → t.kind = .object)
    (k : OpK) : viewRoot (jsonSide M) k = viewRoot (routeSdl M) k := by
  have hv : viewType (jsonSide M) = viewType (routeSdl M) := funext (viewType_routes M)
  obtain ⟨hjr, hje⟩ := jsonSide_roots M
  obtain ⟨hsr, hse⟩ := routeSdl_roots M
  simp only [viewRoot, hv]
  have hjname : (jsonSide M).rootName k = (specRoots M).get k := by
    simp [Schema.rootName, Schema.rootsDeclared, hjr, hje, hq]
  rw [hjname]
  cases hs : schemaDefs M with
  | cons d rest =>
    have hrest : rest = [] := by
      rw [hs] at h1
      cases rest with
      | nil => rfl
      | cons _ _ => simp at h1
    subst hrest
    have hroots : (routeSdl M).roots = specRoots M := by
      rw [hsr, hs]; simp [foldRoots, specRoots, hs]
    have hsname : (routeSdl M).rootName k = (specRoots M).get k := by
      simp [Schema.rootName, Schema.rootsDeclared, hroots, hq]
    rw [hsname]
  | nil =>
    have hsname : (routeSdl M).rootName k = some (Schema.defaultRootName k) := by
      simp [Schema.rootName, Schema.rootsDeclared, hsr, hse, hs, foldRoots]
    rw [hsname, specRoots_default_get M hs k]
    simp only [defaultRoot]
    split
    · rfl
    · rename_i hany
      obtain ⟨hi, hb⟩ := default_names_facts k (by cases k <;> simp [allOpK])
      have hu : (userTypes M).find? (·.name == Schema.defaultRootName k) = none := by
        cases hf : (userTypes M).find? (·.name == Schema.defaultRootName k) with
        | none => rfl
        | some t =>
          exfalso
          apply hany
          rw [List.any_eq_true]
          refine ⟨t, List.mem_of_find?_eq_some hf, ?_⟩
          have hn := List.find?_some hf
          have hk := hobj hs k t hf
          simp [hk] at hn ⊢
          exact hn
      simp [viewType, hi, typeDef?_routeSdl, hu, hb]

/-! ### implementers of an interface -/

def implP (i : String) (t : ITypeDef) : Bool := t.kind == .object && t.interfaces.contains i

theorem cleanType_kind (t : ITypeDef) : (cleanType t).kind = t.kind := by
  cases t with | mk kind name desc fields interfaces possible members inputs =>
  cases kind <;> rfl

theorem implP_builtinScalarDefs (i : String) : ∀ t ∈ builtinScalarDefs, implP i t = false := by
  intro t ht
  simp only [builtinScalarDefs, List.mem_map] at ht
  obtain ⟨b, _, rfl⟩ := ht
  simp [implP]

theorem implP_specExtra (M : TsDoc) (i : String) : ∀ t ∈ specExtra M, implP i t = false := by
  intro t ht
  simp only [specExtra, List.mem_append] at ht
  rcases ht with hm | hm
  · simp only [referencedBuiltins, List.map_map, List.mem_map, Function.comp_def] at hm
    obtain ⟨b, _, rfl⟩ := hm
    simp [implP, cleanType_kind]
  · simp [implP, (intro_facts t hm).2]

/-- the object types implementing an interface, in order — the same list on both routes when type names are distinct -/
theorem objectImplementers_routes (M : TsDoc) (hn : ((userTypes M).map (·.name)).Nodup) (i : String) :
    (jsonSide M).objectImplementers i = (routeSdl M).objectImplementers i := by
  have hJ : (jsonSide M).types.filter (implP i) = (userTypes M).filter (implP i) := by
    rw [jsonSide_types, filter_extendTypes _ _ _ (implP_builtinScalarDefs i), extendTypes_append,
      filter_extendTypes _ _ _ (implP_specExtra M i), extendTypes_nil_nodup _ hn]
  have hS : (routeSdl M).types.filter (implP i) = (userTypes M).filter (implP i) := by
    rw [routeSdl_types, extendTypes_append, filter_extendTypes _ _ _ (implP_builtinScalarDefs i),
      extendTypes_nil_nodup _ hn]
  have hfun : (fun t : ITypeDef => t.kind == IKind.object && t.interfaces.contains i) = implP i := rfl
  simp only [Schema.objectImplementers, hfun, hJ, hS]

theorem implementsB_routes (M : TsDoc) (hn : ((userTypes M).map (·.name)).Nodup) (i o : String) :
    implementsB (jsonSide M) i o = implementsB (routeSdl M) i o := by
  simp only [implementsB, objectImplementers_routes M hn i]

/-! ### validity hypotheses and the assembled equivalence -/

/-- what `C15_schema_eq` needs of a resolved type-system document (all decidable; every document that passes
    `check_type_system_document` and has a query root satisfies them) -/
structure ValidResolved (M : TsDoc) : Prop where
  /-- type names are pairwise distinct -/
  typeNames : ((userTypes M).map (·.name)).Nodup
  /-- no directive definition of `M` redefines `@skip @include @deprecated @specifiedBy` -/
  directives : ∀ d ∈ userDirectives M, d.name ∉ builtinDirectiveNames
  /-- at most one schema definition -/
  oneSchemaDef : (schemaDefs M).length ≤ 1
  /-- the schema has a query root (listed by the schema definition, or an object type `Query`) -/
  query : (specRoots M).query.isSome = true
  /-- without a schema definition, a type named like a default root is an object type -/
  defaultRoots : schemaDefs M = [] →
    ∀ t ∈ userTypes M, t.name ∈ ["Query", "Mutation", "Subscription"] → t.kind = .object

theorem routes_equiv (M : TsDoc) (h : ValidResolved M) : jsonSide M ≃ routeSdl M := by
  obtain ⟨q, hq⟩ := Option.isSome_iff_exists.mp h.query
  refine ⟨viewType_routes M, viewDirective_routes M h.directives, viewRoot_routes M q hq h.oneSchemaDef ?_,
    implementsB_routes M h.typeNames⟩
  intro hs k t hf
  refine h.defaultRoots hs t (List.mem_of_find?_eq_some hf) ?_
  have hn : t.name = Schema.defaultRootName k := by simpa using List.find?_some hf
  rw [hn]
  cases k <;> simp [Schema.defaultRootName]

theorem routeJson_spec (M : TsDoc) (q : String) (hq : (specRoots M).query = some q) :
    routeJson (introspectSpec M) = .ok (jsonSide M) := by
  have hq' : (specSchema M).roots.query = some q := by simpa [specSchema] using hq
  simp only [routeJson, introspectSpec, Introspect.fromIntrospection_encode (specSchema M) _ q hq', jsonSide]
  rfl

end NitroVerif.Routes
