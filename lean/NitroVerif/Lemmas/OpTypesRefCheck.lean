/-
C01/C02 refinement: a DECIDABLE sufficient check for the coherence hypothesis `∀ d, Coh c d {ss} n` of the refinement
theorem.  `flatL` lists (when nothing is skipped) the occurrences collected for an object type, `cohB` checks, for every
possible object type, pairwise agreement per response key (field name / having a sub-selection), leaf types of
fields without sub-selection, and recursively the sub-selections grouped by response key, down to the depth at which no
selection is left.  `cohB_sound`: the check implies the hypothesis (for selection sets without fragment cycles, `fits`).
-/
import NitroVerif.Lemmas.OpTypesRefThm
namespace NitroVerif.OpTypes.Ref
open NitroVerif.Gql NitroVerif.Ts NitroVerif.Exec NitroVerif.OpTypes

/-- occurrences collected from one selection for an object of type `o` when nothing is skipped -/
def flatSel (S : Schema) (F : FragMap) : Nat → Name → Selection → List FT
  | 0, _, _ => []
  | _ + 1, _, .field alias name _ _ _ sub => [⟨keyOf alias name, isAliased alias name, name, sub⟩]
  | D + 1, o, .inline cond _ ss _ => if condApplies S o cond then ss.flatMap (flatSel S F D o) else []
  | D + 1, o, .spread nm _ _ _ =>
    match F nm with
    | some f => if fragmentTypeApplies S o f.cond then f.sel.flatMap (flatSel S F D o) else []
    | none => []

def flatL (S : Schema) (F : FragMap) (D : Nat) (o : Name) (ss : List Selection) : List FT :=
  ss.flatMap (flatSel S F D o)

theorem flatSel_succ (S : Schema) (F : FragMap) : ∀ (D : Nat) (o : Name) (s : Selection), fits F D s = true →
    flatSel S F (D + 1) o s = flatSel S F D o s
  | 0, _, _, h => by simp [fits] at h
  | D + 1, o, s, h => by
    have hl : ∀ ss : List Selection, ss.all (fits F D) = true →
        ss.flatMap (flatSel S F (D + 1) o) = ss.flatMap (flatSel S F D o) := by
      intro ss hs
      induction ss with
      | nil => rfl
      | cons x xs ih =>
        simp only [List.all_cons, Bool.and_eq_true] at hs
        simp only [List.flatMap_cons, flatSel_succ S F D o x hs.1, ih hs.2]
    cases s with
    | field a n p args ds sub => simp [flatSel]
    | inline cnd ds ss p =>
      simp only [fits] at h
      simp only [flatSel, hl ss h]
    | spread nm np ds p =>
      simp only [fits] at h
      simp only [flatSel]
      cases hF : F nm with
      | none => rfl
      | some f => simp only [hF] at h ⊢; rw [hl f.sel h]

theorem flatL_succ (S : Schema) (F : FragMap) (D : Nat) (o : Name) (ss : List Selection)
    (h : ∀ s ∈ ss, fits F D s = true) : flatL S F (D + 1) o ss = flatL S F D o ss := by
  induction ss with
  | nil => rfl
  | cons x xs ih =>
    simp only [flatL, List.flatMap_cons] at ih ⊢
    rw [flatSel_succ S F D o x (h x (by simp)), ih (fun s hs => h s (List.mem_cons_of_mem _ hs))]

/-- the list contains every collected occurrence -/
theorem inFlat_mem_flatL {S : Schema} {F : FragMap} {o : Name} {inc : Inc} {ss : List Selection} {t : FT}
    (h : InFlat S F o inc [] ss t) : ∀ D, (∀ s ∈ ss, fits F D s = true) → t ∈ flatL S F D o ss := by
  induction h with
  | @field alias name p args ds sub rest _ =>
    intro D hf
    have := hf _ (List.mem_cons_self)
    cases D with
    | zero => simp [fits] at this
    | succ D => simp [flatL, flatSel]
  | @inline cond ds ss p rest t _ hc _ ih =>
    intro D hf
    have hs := hf _ (List.mem_cons_self)
    cases D with
    | zero => simp [fits] at hs
    | succ D =>
      simp only [fits] at hs
      have := ih D (fun s hsm => List.all_eq_true.1 hs s hsm)
      simp only [flatL, List.flatMap_cons, List.mem_append, flatSel, hc, ↓reduceIte]
      exact Or.inl this
  | @spread nm np ds p rest f t _ _ hF ha _ ih =>
    intro D hf
    have hs := hf _ (List.mem_cons_self)
    cases D with
    | zero => simp [fits] at hs
    | succ D =>
      simp only [fits, hF] at hs
      have := ih D (fun s hsm => List.all_eq_true.1 hs s hsm)
      simp only [flatL, List.flatMap_cons, List.mem_append, flatSel, hF, ha, ↓reduceIte]
      exact Or.inl this
  | @tail s rest t _ ih =>
    intro D hf
    have := ih D (fun s' hs' => hf s' (List.mem_cons_of_mem _ hs'))
    simp only [flatL, List.flatMap_cons, List.mem_append] at this ⊢
    exact Or.inr this

/-- sub-selections of listed occurrences still fit -/
theorem flatSel_sub_fits {S : Schema} {F : FragMap} : ∀ (D : Nat) (o : Name) (s : Selection), fits F D s = true →
    ∀ t ∈ flatSel S F D o s, ∀ s', t.sub = some s' → ∀ x ∈ s', fits F D x = true
  | 0, _, _, h => by simp [fits] at h
  | D + 1, o, s, h => by
    have hl : ∀ ss : List Selection, ss.all (fits F D) = true → ∀ t ∈ ss.flatMap (flatSel S F D o),
        ∀ s', t.sub = some s' → ∀ x ∈ s', fits F (D + 1) x = true := by
      intro ss hs t ht s' hsub x hx
      obtain ⟨y, hy, hty⟩ := List.mem_flatMap.1 ht
      exact (fits_esz_succ F D x (flatSel_sub_fits D o y (List.all_eq_true.1 hs y hy) t hty s' hsub x hx)).1
    cases s with
    | field a n p args ds sub =>
      intro t ht s' hsub x hx
      simp only [flatSel, List.mem_singleton] at ht; subst ht
      simp only at hsub; subst hsub
      simp only [fits] at h
      exact (fits_esz_succ F D x (List.all_eq_true.1 h x hx)).1
    | inline cnd ds ss p =>
      simp only [fits] at h
      intro t ht
      simp only [flatSel] at ht
      split at ht
      · exact hl ss h t ht
      · cases ht
    | spread nm np ds p =>
      simp only [fits] at h
      intro t ht
      simp only [flatSel] at ht
      cases hF : F nm with
      | none => simp [hF] at ht
      | some f =>
        simp only [hF] at h ht
        split at ht
        · exact hl f.sel h t ht
        · cases ht

/-! ### the check -/

def pairOk (ts : List FT) : Bool :=
  ts.all fun t => ts.all fun t' =>
    !(t.key == t'.key) || (t.name == t'.name && t.sub.isSome == t'.sub.isSome)

def leafCk (S : Schema) (o : Name) (ts : List FT) : Bool :=
  ts.all fun t => t.name == "__typename" || match S.field? o t.name with
    | some fd => t.sub.isSome || isLeafType S fd.ty.unwrapped
    | none => true

/-- the sub-selections of the listed occurrences with response key `k` -/
def subsAt (ts : List FT) (k : Name) : List (List Selection) :=
  ts.filterMap fun t => if t.key == k then t.sub else none

/-- the decidable coherence check: `sss` = the selection sets merged at this position, `n` = the named parent type,
    `D` = bound on fragment nesting, `d` = remaining nesting depth (at 0 nothing may be left) -/
def cohB (S : Schema) (F : FragMap) (D : Nat) : Nat → List (List Selection) → Name → Bool
  | 0, sss, _ => sss.all (·.isEmpty)
  | d + 1, sss, n => (S.possibleTypes n).all fun o =>
      let ts := sss.flatMap (flatL S F D o)
      pairOk ts && leafCk S o ts && ts.all fun t => match S.field? o t.name with
        | some fd => cohB S F D d (subsAt ts t.key) fd.ty.unwrapped
        | none => true

def Sbl (sss : List (List Selection)) : SSet := fun s => s ∈ sss

theorem coh_empty {c : Ctx} {Sb : SSet} {n : Name} (h : ∀ s, Sb s → s = []) : ∀ d, Coh c d Sb n
  | 0 => by simp [Coh]
  | d + 1 => by
    have hno : ∀ o inc t, ¬ PU c Sb o inc t := by
      rintro o inc t ⟨s, hs, hin⟩
      rw [h s hs] at hin; exact inFlat_nil hin
    simp only [Coh]
    intro o _
    exact ⟨⟨fun t _ ht => absurd ht (hno _ _ _), fun t _ ht => absurd ht (hno _ _ _)⟩,
      fun t _ ht => absurd ht (hno _ _ _)⟩

/-- **the check is sufficient**: it implies coherence at every depth -/
theorem cohB_sound (c : Ctx) (D : Nat) : ∀ (d : Nat) (sss : List (List Selection)) (n : Name),
    (∀ ss ∈ sss, ∀ s ∈ ss, fits c.F D s = true) → cohB c.S c.F D d sss n = true → ∀ d', Coh c d' (Sbl sss) n
  | 0, sss, n, _, h => by
    simp only [cohB, List.all_eq_true, List.isEmpty_iff] at h
    exact coh_empty (fun s hs => h s hs)
  | d + 1, sss, n, hfit, h => by
    intro d'
    cases d' with
    | zero => simp [Coh]
    | succ d' =>
      simp only [cohB, List.all_eq_true, Bool.and_eq_true] at h
      simp only [Coh]
      intro o ho
      obtain ⟨⟨hpair, hleaf⟩, hnest⟩ := h o ho
      have hmem : ∀ t, PU c (Sbl sss) o allInc t → t ∈ sss.flatMap (flatL c.S c.F D o) := by
        rintro t ⟨s, hs, hin⟩
        exact List.mem_flatMap.2 ⟨s, hs, inFlat_mem_flatL hin D (hfit s hs)⟩
      refine ⟨⟨?_, ?_⟩, ?_⟩
      · intro t t' ht ht' hk
        have := List.all_eq_true.1 (List.all_eq_true.1 hpair t (hmem t ht)) t' (hmem t' ht')
        simp only [Bool.or_eq_true, Bool.not_eq_true', beq_eq_false_iff_ne, ne_eq, Bool.and_eq_true, beq_iff_eq] at this
        rcases this with h1 | h1
        · exact absurd hk h1
        · exact ⟨h1.1, h1.2⟩
      · intro t fd ht htn hfd hsub
        have := List.all_eq_true.1 hleaf t (hmem t ht)
        simp only [htn, Bool.false_or, hfd, hsub, Option.isSome_none] at this
        exact this
      · intro t fd ht hfd
        have := hnest t (hmem t ht)
        simp only [hfd] at this
        have hfit' : ∀ ss ∈ subsAt (sss.flatMap (flatL c.S c.F D o)) t.key, ∀ s ∈ ss, fits c.F D s = true := by
          intro ss hss s hs
          simp only [subsAt, List.mem_filterMap] at hss
          obtain ⟨t', ht', hsome⟩ := hss
          split at hsome
          · obtain ⟨s0, hs0, ht0⟩ := List.mem_flatMap.1 ht'
            simp only [flatL] at ht0
            obtain ⟨y, hy, hty⟩ := List.mem_flatMap.1 ht0
            exact flatSel_sub_fits D o y (hfit s0 hs0 y hy) t' hty ss hsome s hs
          · cases hsome
        refine coh_subset d' _ _ _ ?_ (cohB_sound c D d _ _ hfit' this d')
        rintro s ⟨t', ht', hk', hs'⟩
        simp only [Sbl, subsAt, List.mem_filterMap]
        exact ⟨t', hmem t' ht', by simp [hk', hs']⟩

theorem sbl_single (ss : List Selection) : ∀ s, Sb1 ss s ↔ Sbl [ss] s := by
  intro s; simp [Sb1, Sbl]

/-- the coherence hypothesis of the refinement theorem from the decidable check -/
theorem coh_of_cohB (c : Ctx) (D d : Nat) (ss : List Selection) (n : Name) (hfit : ∀ s ∈ ss, fits c.F D s = true)
    (h : cohB c.S c.F D d [ss] n = true) : ∀ d', Coh c d' (Sb1 ss) n := by
  intro d'
  have := cohB_sound c D d [ss] n (by simpa using hfit) h d'
  exact coh_subset d' _ _ _ (fun s hs => (sbl_single ss s).1 hs) this

end NitroVerif.OpTypes.Ref
