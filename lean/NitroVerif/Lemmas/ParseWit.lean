/-
Every pair of a parse tree is WITNESSED by a successful evaluation of the body of its rule on the actual input
(helper lemmas for Props/C08 `parse_no_panic`, text-dependent panic sites): `Wit g inp p` records, for the pair
`(r, s, e, cs)` and recursively for all pairs below it, the rule's kind and body, how the body was run (`bodyCfg`), and
the evaluation `eval … body … ⟨s, inp.drop s⟩ = ok ⟨e, inp.drop e⟩ cs`. From it the TEXT of a pair is derived rule by
rule with the inversion lemmas of `Lemmas/PegInv.lean` (see `Lemmas/ParseText.lean`).
Induction on the interpreter's depth bound over its four mutually recursive functions, like `SpanInv` / `DeepInv`.
-/
import NitroVerif.Lemmas.SpanInv
namespace NitroVerif.Peg

/-- the pair (and every pair below it) was produced by a successful evaluation of its rule's body on `inp`,
    outside lookahead, under a configuration in which the rule emits a token pair -/
inductive Wit (g : G) (inp : List Char) : Pair → Prop where
  | mk {r : RuleId} {s e : Nat} {cs : List Pair} (kind : RuleKind) (body : Expr) (at_ : Atomicity) (fuel : Nat)
      (tr0 tr1 : Tr) (c c' : Cur) :
      g.look r = some (kind, body) → kind ≠ .silent →
      (bodyCfg (decide (g.ws = some r ∨ g.cm = some r)) kind at_).2.2 ≠ .atomic →
      CurOk inp c → CurOk inp c' → c.pos = s → c'.pos = e →
      eval g fuel (bodyCfg (decide (g.ws = some r ∨ g.cm = some r)) kind at_).1 body
        (bodyCfg (decide (g.ws = some r ∨ g.cm = some r)) kind at_).2.1 .none tr0 c = (tr1, .ok c' cs) →
      (∀ x ∈ cs, Wit g inp x) → Wit g inp (.mk r s e cs)

theorem Wit.children {g : G} {inp : List Char} {p : Pair} (h : Wit g inp p) : ∀ x ∈ p.children, Wit g inp x := by
  cases h with
  | mk _ _ _ _ _ _ _ _ _ _ _ _ _ _ _ _ hcs => exact hcs

structure WitInv (g : G) (inp : List Char) (fuel : Nat) : Prop where
  ev : ∀ sk e at_ tr c tr' c' ps, CurOk inp c → eval g fuel sk e at_ .none tr c = (tr', .ok c' ps) →
    ∀ p ∈ ps, Wit g inp p
  sk : ∀ sk at_ tr c tr' c' ps, CurOk inp c → doSkip g fuel sk at_ .none tr c = (tr', .ok c' ps) →
    ∀ p ∈ ps, Wit g inp p
  sr : ∀ a at_ tr c tr' c' ps, CurOk inp c → starRest g fuel a at_ .none tr c = (tr', .ok c' ps) →
    ∀ p ∈ ps, Wit g inp p
  cr : ∀ r at_ tr c tr' c' ps, CurOk inp c → callRule g fuel r at_ .none tr c = (tr', .ok c' ps) →
    ∀ p ∈ ps, Wit g inp p

theorem witInv (g : G) (inp : List Char) : ∀ fuel, WitInv g inp fuel := by
  intro fuel
  induction fuel with
  | zero =>
    exact ⟨fun _ _ _ _ _ _ _ _ _ h => by simp [eval_zero] at h, fun _ _ _ _ _ _ _ _ h => by simp [doSkip_zero] at h,
      fun _ _ _ _ _ _ _ _ h => by simp [starRest_zero] at h, fun _ _ _ _ _ _ _ _ h => by simp [callRule_zero] at h⟩
  | succ fuel ih =>
    have sp := spanInv g inp fuel
    have app2 : ∀ {p1 p2 : List Pair}, (∀ p ∈ p1, Wit g inp p) → (∀ p ∈ p2, Wit g inp p) →
        ∀ p ∈ p1 ++ p2, Wit g inp p := by
      intro p1 p2 h1 h2 p hp
      rcases List.mem_append.mp hp with h | h
      · exact h1 p h
      · exact h2 p h
    have nil : ∀ p ∈ ([] : List Pair), Wit g inp p := fun p hp => by cases hp
    refine ⟨?_, ?_, ?_, ?_⟩
    · intro sk e at_ tr c tr' c' ps hc h
      cases e with
      | str s => obtain ⟨_, rfl⟩ := eval_str_ok g h; exact nil
      | insens s => obtain ⟨_, rfl⟩ := eval_insens_ok g h; exact nil
      | range lo hi => obtain ⟨_, rfl⟩ := eval_range_ok g h; exact nil
      | any => obtain ⟨_, rfl⟩ := eval_any_ok g h; exact nil
      | soi => obtain ⟨_, rfl⟩ := eval_soi_ok g h; exact nil
      | eoi => obtain ⟨_, rfl⟩ := eval_eoi_ok g h; exact nil
      | seq a b =>
        obtain ⟨tr1, c1, p1, tr2, c2, p2, p3, h1, h2, h3, rfl⟩ := eval_seq_ok g h
        have hc1 := (sp.ev _ _ _ _ _ _ _ _ _ hc h1).1
        have hc2 := (sp.sk _ _ _ _ _ _ _ _ hc1 h2).1
        exact app2 (app2 (ih.ev _ _ _ _ _ _ _ _ hc h1) (ih.sk _ _ _ _ _ _ _ hc1 h2)) (ih.ev _ _ _ _ _ _ _ _ hc2 h3)
      | choice a b =>
        rcases eval_choice_ok g h with h1 | ⟨tr1, _, h2⟩
        · exact ih.ev _ _ _ _ _ _ _ _ hc h1
        · exact ih.ev _ _ _ _ _ _ _ _ hc h2
      | opt a =>
        rcases eval_opt_ok g h with h1 | ⟨_, rfl⟩
        · exact ih.ev _ _ _ _ _ _ _ _ hc h1
        · exact nil
      | star a =>
        cases sk with
        | true =>
          rcases eval_star_sk_ok g h with ⟨tr1, c1, p1, p2, h1, h2, rfl⟩ | ⟨_, rfl⟩
          · have hc1 := (sp.ev _ _ _ _ _ _ _ _ _ hc h1).1
            exact app2 (ih.ev _ _ _ _ _ _ _ _ hc h1) (ih.sr _ _ _ _ _ _ _ hc1 h2)
          · exact nil
        | false =>
          rcases eval_star_nosk_ok g h with ⟨tr1, c1, p1, p2, h1, h2, rfl⟩ | ⟨_, rfl⟩
          · have hc1 := (sp.ev _ _ _ _ _ _ _ _ _ hc h1).1
            exact app2 (ih.ev _ _ _ _ _ _ _ _ hc h1) (ih.ev _ _ _ _ _ _ _ _ hc1 h2)
          · exact nil
      | plus a => rw [eval_plus] at h; exact ih.ev _ _ _ _ _ _ _ _ hc h
      | rep n a => rw [eval_rep] at h; exact ih.ev _ _ _ _ _ _ _ _ hc h
      | not a => obtain ⟨_, rfl⟩ := eval_not_ok g h; exact nil
      | and a => obtain ⟨_, rfl⟩ := eval_and_ok g h; exact nil
      | call r => rw [eval_call] at h; exact ih.cr _ _ _ _ _ _ _ hc h
    · intro sk at_ tr c tr' c' ps hc h
      rcases doSkip_ok g h with ⟨_, _, e, _, h1⟩ | ⟨_, rfl⟩
      · exact ih.ev _ _ _ _ _ _ _ _ hc h1
      · exact nil
    · intro a at_ tr c tr' c' ps hc h
      rcases starRest_ok g h with ⟨tr1, c1, p1, tr2, c2, p2, p3, h1, h2, h3, rfl⟩ | ⟨_, rfl⟩
      · have hc1 := (sp.sk _ _ _ _ _ _ _ _ hc h1).1
        have hc2 := (sp.ev _ _ _ _ _ _ _ _ _ hc1 h2).1
        exact app2 (app2 (ih.sk _ _ _ _ _ _ _ hc h1) (ih.ev _ _ _ _ _ _ _ _ hc1 h2)) (ih.sr _ _ _ _ _ _ _ hc2 h3)
      · exact nil
    · intro r at_ tr c tr' c' ps hc h
      obtain ⟨kind, body, tr0, tr1, ps0, hl, hb, hps⟩ := callRule_ok g h
      have hdeep := ih.ev _ _ _ _ _ _ _ _ hc hb
      have hc' := (sp.ev _ _ _ _ _ _ _ _ _ hc hb).1
      by_cases hk : kind = .silent
      · simp only [hk, if_true] at hps; subst hps; exact hdeep
      · simp only [hk, if_false, true_and] at hps
        by_cases hseen : (bodyCfg (decide (g.ws = some r ∨ g.cm = some r)) kind at_).2.2 = .atomic
        · simp only [hseen, ne_eq, not_true_eq_false, if_false] at hps; subst hps; exact hdeep
        · simp only [ne_eq, hseen, not_false_eq_true, if_true] at hps
          subst hps
          intro p hp
          have : p = Pair.mk r c.pos c'.pos ps0 := by simpa using hp
          subst this
          exact .mk kind body at_ fuel tr0 tr1 c c' hl hk hseen hc hc' rfl rfl hb hdeep

/-- every top-level pair of a successful parse is witnessed (hence, by `Wit.children`, every pair at any depth) -/
theorem parse_wit (g : G) (fuel : Nat) (r : RuleId) (input : List Char) (ps : List Pair)
    (h : Peg.parse g fuel r input = .pairs ps) : ∀ p ∈ ps, Wit g input p := by
  unfold Peg.parse runTr at h
  rcases hc : callRule g fuel r .nonAtomic .none {} ⟨0, input⟩ with ⟨tr, o⟩
  rw [hc] at h
  cases o with
  | ok c' ps' =>
    simp only [ParseResult.pairs.injEq] at h
    subst h
    exact (witInv g input fuel).cr _ _ _ _ _ _ _ ⟨Nat.zero_le _, rfl⟩ hc
  | fail => simp at h
  | oof => simp at h

/-! ### fuel-agnostic forms of the inversion lemmas -/

variable (g : G)

theorem eval_pos {fuel sk e at_ la tr c tr' c' ps} (h : eval g fuel sk e at_ la tr c = (tr', .ok c' ps)) :
    ∃ f, fuel = f + 1 := by
  cases fuel with
  | zero => simp [eval_zero] at h
  | succ f => exact ⟨f, rfl⟩

theorem callRule_pos {fuel r at_ la tr c tr' c' ps} (h : callRule g fuel r at_ la tr c = (tr', .ok c' ps)) :
    ∃ f, fuel = f + 1 := by
  cases fuel with
  | zero => simp [callRule_zero] at h
  | succ f => exact ⟨f, rfl⟩

theorem doSkip_pos {fuel sk at_ la tr c tr' c' ps} (h : doSkip g fuel sk at_ la tr c = (tr', .ok c' ps)) :
    ∃ f, fuel = f + 1 := by
  cases fuel with
  | zero => simp [doSkip_zero] at h
  | succ f => exact ⟨f, rfl⟩

/-- a skip in a rule body generated without skip calls, or in an atomic / compound-atomic context, is a no-op -/
theorem doSkip_noop_ok {fuel sk at_ la tr c tr' c' ps} (hn : sk = false ∨ at_ ≠ .nonAtomic)
    (h : doSkip g fuel sk at_ la tr c = (tr', .ok c' ps)) : c' = c ∧ ps = [] := by
  obtain ⟨f, rfl⟩ := doSkip_pos g h
  rcases doSkip_ok g h with ⟨hsk, hat, _⟩ | h'
  · rcases hn with hn | hn
    · rw [hn] at hsk; cases hsk
    · exact absurd hat hn
  · exact h'

/-! ### the text between two consistent cursors -/

/-- the input between offsets `a` and `b` is exactly `t` -/
def Txt (inp : List Char) (a b : Nat) (t : List Char) : Prop :=
  a + t.length = b ∧ b ≤ inp.length ∧ inp.drop a = t ++ inp.drop b

theorem Txt.refl {inp : List Char} {a : Nat} (h : a ≤ inp.length) : Txt inp a a [] := ⟨rfl, h, rfl⟩

theorem Txt.append {inp : List Char} {a b c : Nat} {t u : List Char} (h1 : Txt inp a b t) (h2 : Txt inp b c u) :
    Txt inp a c (t ++ u) := by
  obtain ⟨l1, _, d1⟩ := h1
  obtain ⟨l2, b2, d2⟩ := h2
  refine ⟨by simp; omega, b2, ?_⟩
  rw [d1, d2, List.append_assoc]

theorem Txt.slice {inp : List Char} {a b : Nat} {t : List Char} (h : Txt inp a b t) : slice inp a b = t := by
  obtain ⟨l, _, d⟩ := h
  unfold Peg.slice
  rw [d, show b - a = t.length by omega]
  simp

theorem Txt.length {inp : List Char} {a b : Nat} {t : List Char} (h : Txt inp a b t) : t.length = b - a := by
  have := h.1; omega

/-- between two consistent cursors in order lies the slice -/
theorem txt_of_curOk {inp : List Char} {c c' : Cur} (_hc : CurOk inp c) (hc' : CurOk inp c') (hle : c.pos ≤ c'.pos) :
    Txt inp c.pos c'.pos (slice inp c.pos c'.pos) := by
  have h1 : (slice inp c.pos c'.pos).length = c'.pos - c.pos := by
    simp [Peg.slice]; have := hc'.1; omega
  refine ⟨by omega, hc'.1, ?_⟩
  unfold Peg.slice
  have : inp.drop c'.pos = (inp.drop c.pos).drop (c'.pos - c.pos) := by
    rw [List.drop_drop]; congr 1; omega
  rw [this, List.take_append_drop]

/-- a string terminal between consistent cursors -/
theorem txt_of_str {inp : List Char} {s : List Char} {c c' : Cur} (hc : CurOk inp c) (h : TermStep (.str s) c c') :
    Txt inp c.pos c'.pos s ∧ CurOk inp c' := by
  have hc' := (termStep_curOk hc h).1
  cases h with
  | str hm =>
    have e := matchStr_eq hm
    rw [hc.2] at e
    exact ⟨⟨rfl, hc'.1, by rw [e]; congr 1; exact hc'.2⟩, hc'⟩

/-- one character consumed by `ANY` or a range -/
theorem txt_of_any {inp : List Char} {c c' : Cur} (hc : CurOk inp c) (h : TermStep .any c c') :
    ∃ d, Txt inp c.pos c'.pos [d] ∧ CurOk inp c' := by
  have hc' := (termStep_curOk hc h).1
  cases h with
  | any hd =>
    rename_i d r
    rw [hc.2] at hd
    exact ⟨d, ⟨rfl, hc'.1, by rw [hd]; simp; exact hc'.2⟩, hc'⟩

end NitroVerif.Peg
