import NitroVerif.Lemmas.PrintMapBodyNorm
import NitroVerif.Lemmas.PrintMapBodyDoc
import NitroVerif.Model.Exports
/-!
# C06 — the operation declaration file (and the JavaScript module): four models, one file

The file as the OTHER models describe it:
* its statements, names and export decisions — C14's `Exports.printDocument` (`Exports.dts`, `Exports.js`);
* the Result / fragment types — C01's `OpTypes.toTs` of `OpTypes.resultTree` (what `OpTypes.opDecls` declares);
* the Variables types — C09's `VarTypes.varsTsL`;
* the runtime documents — C12's `DocJson.toJson` of `FragClosure.runtimeDefs`.
`typeStmts` / `jsStmts` put these together: one `RStmt` per statement, carrying its content. `RStmt.skel` forgets the content
(→ C14's statement), `RStmt.text` lays the statement out (`layoutTy` for types, json-writer's compact text for documents).

* `typeStmts_skel` / `jsStmts_skel`: the statements ARE C14's module, statement by statement;
* `opTypeOps_text` / `opJsOps_text`: the concatenated text of the printers' call sequences (`opTypeOps`, `opJsOps` of
  `Model/PrintMap.lean`) IS the laid-out text of these statements behind the header.
-/
namespace NitroVerif.PrintMap
open NitroVerif.Gql NitroVerif.DeclCfg
open NitroVerif.Ts (Ty Field)

/-- a statement of an operation module WITH its content -/
inductive RStmt where
  /-- `[export ]type N = T;` -/
  | typeAlias (name : String) (exported : Bool) (ty : Ty)
  /-- `[export |declare ]const N: T[ = <json> as unknown as T];` of the declaration file; `doc` = index of the definition -/
  | const (name : String) (doc : Nat) (exported ambient : Bool) (ty : Ty) (value : Option String)
  /-- `[export ]const N = <json>;` of the JavaScript module -/
  | jsConst (name : String) (doc : Nat) (exported : Bool) (value : String)
  /-- `export { L as default };` -/
  | exportDefault (localName : String)

/-- the statement as C14's model has it -/
def RStmt.skel : RStmt → Exports.Stmt
  | .typeAlias n e _ => .typeAlias n.toList e
  | .const n i e a _ v => .const n.toList i e a v.isSome
  | .jsConst n i e _ => .const n.toList i e false true
  | .exportDefault l => .exportDefault l.toList

/-- the text of a statement -/
def RStmt.text : RStmt → String
  | .typeAlias n e ty => (if e then "export " else "") ++ "type " ++ n ++ " = " ++ layoutTy ty ++ ";\n\n"
  | .const n _ e a ty v =>
    (if e then "export " else if a then "declare " else "") ++ "const " ++ n ++ ": " ++ layoutTy ty
      ++ (match v with
          | none => ""
          | some j => " = " ++ j ++ " as unknown as " ++ layoutTy ty)
      ++ ";\n\n"
  | .jsConst n _ e j => (if e then "export " else "") ++ "const " ++ n ++ " = " ++ j ++ ";\n\n"
  | .exportDefault l => "export { " ++ l ++ " as default };\n\n"

def stmtsText : List RStmt → String
  | [] => ""
  | s :: r => s.text ++ stmtsText r

@[simp] theorem stmtsText_nil : stmtsText [] = "" := rfl
@[simp] theorem stmtsText_cons (s : RStmt) (r : List RStmt) : stmtsText (s :: r) = s.text ++ stmtsText r := rfl
@[simp] theorem stmtsText_append (a b : List RStmt) : stmtsText (a ++ b) = stmtsText a ++ stmtsText b := by
  induction a with
  | nil => simp
  | cons s a ih => simp [ih, String.append_assoc]

/-- `TypedDocumentNode<R, V>` -/
def tdn (r v : Ty) : Ty := .app (.ref "TypedDocumentNode") [r, v]

/-- C01: the type `OpTypes.opDecls` declares for a definition (`toTs` of its result tree) -/
def resultModelTy (ns : String) (S : Schema) (D : Doc) (x : ExecDef) : Ty :=
  match OpTypes.resultTree S D x with
  | some (.ok T) => OpTypes.toTs ns T
  | _ => .prim "never"

/-- C12: the runtime document of a definition (`DocJson.toJson` of `FragClosure.runtimeDefs`), as json-writer writes it -/
def runtimeModelText (D : Doc) (x : ExecDef) : String :=
  match FragClosure.runtimeDefs D x with
  | .ok defs => jsonText (DocJson.toJson defs)
  | .error _ => ""

def optValue (printValues : Bool) (D : Doc) (x : ExecDef) : Option String :=
  if printValues then some (runtimeModelText D x) else none

/-- the statements of one operation in the declaration file -/
def opStmts (fo : FullOpts) (S : Schema) (D : Doc) (count i : Nat) (op : OperationDef) : List RStmt :=
  let r := operationName fo.names op ++ fo.names.resultSuffix
  let v := operationName fo.names op ++ fo.names.variablesSuffix
  [.typeAlias r fo.exportResult (resultModelTy fo.ns S D (.op op)),
   .typeAlias v fo.exportInput (VarTypes.varsTsL (inRef fo.ns) fo.optionalInput op.vars),
   .const (operationVariableName fo.names op) i fo.namedExport (!fo.namedExport && !fo.names.printValues)
     (tdn (.ref r) (.ref v)) (optValue fo.names.printValues D (.op op))]
  ++ (if fo.defaultExport && count == 1 then [.exportDefault (operationVariableName fo.names op)] else [])

/-- the statements of one fragment in the declaration file -/
def fragStmts (fo : FullOpts) (S : Schema) (D : Doc) (docFile i : Nat) (f : FragmentDef) : List RStmt :=
  let e := docFile == f.pos.file
  [.typeAlias (f.name ++ fo.names.fragmentTypeSuffix) e (resultModelTy fo.ns S D (.frag f)),
   .const (f.name ++ fo.names.fragmentVariableSuffix) i e (!e && !fo.names.printValues)
     (tdn (.ref (f.name ++ fo.names.fragmentTypeSuffix)) (.prim "never")) (optValue fo.names.printValues D (.frag f))]

/-- the statements of the declaration file; `i` = index of the head definition (`#import` lines are no definitions) -/
def typeStmts (fo : FullOpts) (S : Schema) (D : Doc) (docFile count : Nat) : Nat → Doc → List RStmt
  | _, [] => []
  | i, .op op :: rest => opStmts fo S D count i op ++ typeStmts fo S D docFile count (i + 1) rest
  | i, .frag f :: rest => fragStmts fo S D docFile i f ++ typeStmts fo S D docFile count (i + 1) rest
  | i, .imp _ :: rest => typeStmts fo S D docFile count i rest

/-- the statements of the JavaScript module -/
def jsStmts (fo : FullOpts) (D : Doc) (docFile count : Nat) : Nat → Doc → List RStmt
  | _, [] => []
  | i, .op op :: rest =>
    [.jsConst (operationVariableName fo.names op) i fo.namedExport (runtimeModelText D (.op op))]
    ++ (if fo.defaultExport && count == 1 then [.exportDefault (operationVariableName fo.names op)] else [])
    ++ jsStmts fo D docFile count (i + 1) rest
  | i, .frag f :: rest =>
    .jsConst (f.name ++ fo.names.fragmentVariableSuffix) i (docFile == f.pos.file) (runtimeModelText D (.frag f))
    :: jsStmts fo D docFile count (i + 1) rest
  | i, .imp _ :: rest => jsStmts fo D docFile count i rest

/-- the two `import type` lines -/
def opHeaderText (fo : FullOpts) : String :=
  "import type { TypedDocumentNode } from \"" ++ fo.typedDocumentNodeSource ++ "\";\n"
  ++ ("import type * as " ++ fo.ns ++ " from \"" ++ fo.schemaSource ++ "\";\n\n")

/-! ## the text -/

theorem rawText_exportKw (b : Bool) : rawText (exportKw b) = if b then "export " else "" := by cases b <;> rfl

theorem rawText_constPrefix (e pv : Bool) :
    rawText (constPrefixOps e pv) = (if e then "export " else if (!e && !pv) then "declare " else "") ++ "const " := by
  cases e <;> cases pv <;> rfl

theorem resultTy_text {ns : String} {S : Schema} {D : Doc} {x : ExecDef} {rt : TSTy} (h : resultTy ns S D x = .ok rt) :
    rawText (printTy rt) = layoutTy (resultModelTy ns S D x) := by
  unfold resultTy at h
  unfold resultModelTy
  split at h
  · rename_i T hT
    cases h
    rw [hT, rawText_printTy_norm _ (simple_treeTy ns T false), norm_erase_toTs]
  · cases h
  · rename_i hT
    cases h
    rw [hT]
    rfl

theorem varsTy_text (ns : String) (oi : Bool) (vars : List VarDef) :
    rawText (printTy (varsTy ns oi vars)) = layoutTy (VarTypes.varsTsL (inRef ns) oi vars) := by
  rw [rawText_printTy_norm _ (simple_varsTy ns oi vars), norm_erase_varsTy]

theorem optRuntime_value {pv : Bool} {D : Doc} {x : ExecDef} {js : Option String} (h : optRuntime pv D x = .ok js) :
    js = optValue pv D x := by
  unfold optRuntime at h
  unfold optValue
  cases pv
  · simp at h; cases h; rfl
  · simp only [if_true] at h ⊢
    unfold runtimeText at h
    unfold runtimeModelText
    cases hr : FragClosure.runtimeDefs D x with
    | error e => simp [hr, Except.map] at h
    | ok defs => simp [hr, Except.map] at h; simp [← h]

theorem runtimeText_value {D : Doc} {x : ExecDef} {js : String} (h : runtimeText D x = .ok js) :
    js = runtimeModelText D x := by
  unfold runtimeText at h
  unfold runtimeModelText
  cases hr : FragClosure.runtimeDefs D x with
  | error e => simp [hr] at h
  | ok defs => simp [hr] at h; simp [← h]

theorem layout_tdn (a b : String) : layoutTy (tdn (.ref a) (.ref b)) = "TypedDocumentNode" ++ "<" ++ a ++ ", " ++ b ++ ">" := by
  simp [-String.reduceAppend, tdn, layoutTy, layoutList, joinSep, String.append_assoc]

theorem layout_tdn_never (a : String) :
    layoutTy (tdn (.ref a) (.prim "never")) = "TypedDocumentNode" ++ "<" ++ a ++ ", " ++ "never" ++ ">" := by
  simp [-String.reduceAppend, tdn, layoutTy, layoutList, joinSep, String.append_assoc]

/-- string literals the printer writes in one piece -/
theorem lit_tdn_open : ("TypedDocumentNode<" : String) = "TypedDocumentNode" ++ "<" := by decide
theorem lit_never_close : (", never>" : String) = ", " ++ "never" ++ ">" := by decide
theorem lit_close_end : (">;\n\n" : String) = ">" ++ ";\n\n" := by decide
theorem lit_close_eq : ("> = " : String) = ">" ++ " = " := by decide
theorem lit_as_unknown : (" as unknown as TypedDocumentNode<" : String) = " as unknown as " ++ ("TypedDocumentNode" ++ "<") := by decide
theorem lit_never_close_end : (", never>;\n\n" : String) = ", " ++ "never" ++ ">" ++ ";\n\n" := by decide

theorem opTypeOperationOps_text {fo : FullOpts} {S : Schema} {D : Doc} {count : Nat} {op : OperationDef} {sp : Pos}
    {a : List POp} (h : opTypeOperationOps fo S D count op sp = .ok a) (i : Nat) :
    rawText a = stmtsText (opStmts fo S D count i op) := by
  unfold opTypeOperationOps at h
  split at h
  · cases h
  · rename_i rt hrt
    split at h
    · cases h
    · rename_i js hjs
      cases h
      have h1 := resultTy_text hrt
      have h2 := varsTy_text fo.ns fo.optionalInput op.vars
      have h3 := optRuntime_value hjs
      subst h3
      simp only [opStmts, resultDeclOps, varsDeclOps, opConstOps, defaultExportOps, rawText_append, rawText_exportKw,
        rawText_constPrefix, rawText_cons, rawText_nil, text_write, text_writeFor, h1, h2, stmtsText_append, stmtsText_cons,
        stmtsText_nil, RStmt.text, layout_tdn, lit_tdn_open, lit_close_end, lit_close_eq, lit_as_unknown]
      cases hv : optValue fo.names.printValues D (.op op) <;> cases hd : (fo.defaultExport && count == 1) <;>
        cases fo.namedExport <;> cases fo.names.printValues <;>
        simp [-String.reduceAppend, String.append_assoc, RStmt.text]

theorem opTypeFragmentOps_text {fo : FullOpts} {S : Schema} {D : Doc} {docFile : Nat} {f : FragmentDef}
    {a : List POp} (h : opTypeFragmentOps fo S D docFile f = .ok a) (i : Nat) :
    rawText a = stmtsText (fragStmts fo S D docFile i f) := by
  unfold opTypeFragmentOps at h
  split at h
  · cases h
  · rename_i rt hrt
    split at h
    · cases h
    · rename_i js hjs
      cases h
      have h1 := resultTy_text hrt
      have h3 := optRuntime_value hjs
      subst h3
      simp only [fragStmts, fragDeclOps, fragConstOps, rawText_append, rawText_exportKw,
        rawText_constPrefix, rawText_cons, rawText_nil, text_write, text_writeFor, h1, stmtsText_cons,
        stmtsText_nil, RStmt.text, layout_tdn_never, lit_tdn_open, lit_never_close, lit_as_unknown, lit_never_close_end]
      cases hv : optValue fo.names.printValues D (.frag f) <;> cases (docFile == f.pos.file) <;>
        cases fo.names.printValues <;>
        simp [-String.reduceAppend, String.append_assoc]

theorem opTypeDefsOps_text (fo : FullOpts) (S : Schema) (D : Doc) (docFile count : Nat) :
    ∀ (L : Doc) (sps : List Pos) (r : List POp) (i : Nat), opTypeDefsOps fo S D docFile count L sps = .ok r →
      rawText r = stmtsText (typeStmts fo S D docFile count i L)
  | [], _, r, _, h => by cases h; rfl
  | .op op :: rest, sps, r, i, h => by
    simp only [opTypeDefsOps] at h
    split at h
    · cases h
    · rename_i a ha
      split at h
      · cases h
      · rename_i r' hr'
        cases h
        simp [typeStmts, opTypeOperationOps_text ha i, opTypeDefsOps_text fo S D docFile count rest sps.tail r' (i + 1) hr']
  | .frag f :: rest, sps, r, i, h => by
    simp only [opTypeDefsOps] at h
    split at h
    · cases h
    · rename_i a ha
      split at h
      · cases h
      · rename_i r' hr'
        cases h
        simp [typeStmts, opTypeFragmentOps_text ha i, opTypeDefsOps_text fo S D docFile count rest sps r' (i + 1) hr']
  | .imp _ :: rest, sps, r, i, h => by
    simp only [opTypeDefsOps] at h
    simpa [typeStmts] using opTypeDefsOps_text fo S D docFile count rest sps r i h

/-- the concatenated text of the type printer's call sequence is the header followed by the laid-out statements -/
theorem opTypeOps_text {fo : FullOpts} {S : Schema} {D : Doc} {docFile : Nat} {sps : List Pos} {ops : List POp}
    (h : opTypeOps fo S D docFile sps = .ok ops) :
    rawText ops = opHeaderText fo ++ stmtsText (typeStmts fo S D docFile (operationCount D) 0 D) := by
  unfold opTypeOps at h
  split at h
  · cases h
  · rename_i r hr
    have h' := Except.ok.inj h
    subst h'
    rw [rawText_append, opTypeDefsOps_text fo S D docFile _ D sps r 0 hr]
    have hp : ∀ a b : String, rawText [.write a, .write b] = a ++ b := by
      intro a b; simp only [rawText_cons, rawText_nil, text_write, String.append_empty]
    have hh : rawText (opTypeHeaderOps fo) = opHeaderText fo := hp _ _
    rw [hh]

theorem opJsDefsOps_text (fo : FullOpts) (D : Doc) (docFile count : Nat) :
    ∀ (L : Doc) (r : List POp) (i : Nat), opJsDefsOps fo D docFile count L = .ok r →
      rawText r = stmtsText (jsStmts fo D docFile count i L)
  | [], r, _, h => by cases h; rfl
  | .op op :: rest, r, i, h => by
    simp only [opJsDefsOps] at h
    split at h
    · cases h
    · rename_i js hjs
      split at h
      · cases h
      · rename_i r' hr'
        cases h
        have hv := runtimeText_value hjs
        subst hv
        have ih := opJsDefsOps_text fo D docFile count rest r' (i + 1) hr'
        simp only [jsStmts, jsConstOps, defaultExportOps, rawText_append, rawText_exportKw, rawText_cons, rawText_nil,
          text_write, text_writeFor, ih, stmtsText_append, stmtsText_cons, stmtsText_nil, RStmt.text]
        cases (fo.defaultExport && count == 1) <;> cases fo.namedExport <;>
          simp [-String.reduceAppend, String.append_assoc, RStmt.text]
  | .frag f :: rest, r, i, h => by
    simp only [opJsDefsOps] at h
    split at h
    · cases h
    · rename_i js hjs
      split at h
      · cases h
      · rename_i r' hr'
        cases h
        have hv := runtimeText_value hjs
        subst hv
        have ih := opJsDefsOps_text fo D docFile count rest r' (i + 1) hr'
        simp only [jsStmts, jsConstOps, rawText_append, rawText_exportKw, rawText_cons, rawText_nil,
          text_write, text_writeFor, ih, stmtsText_cons, RStmt.text]
        cases (docFile == f.pos.file) <;> simp [-String.reduceAppend, String.append_assoc]
  | .imp _ :: rest, r, i, h => by
    simp only [opJsDefsOps] at h
    simpa [jsStmts] using opJsDefsOps_text fo D docFile count rest r i h

/-- the concatenated text of the JavaScript printer's call sequence is the laid-out statements -/
theorem opJsOps_text {fo : FullOpts} {D : Doc} {docFile : Nat} {ops : List POp} (h : opJsOps fo D docFile = .ok ops) :
    rawText ops = stmtsText (jsStmts fo D docFile (operationCount D) 0 D) :=
  opJsDefsOps_text fo D docFile _ D ops 0 h

end NitroVerif.PrintMap
