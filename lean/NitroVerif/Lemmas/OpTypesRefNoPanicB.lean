/-
No-panic, part B: merging does not panic.
  * `deepMergeGo_ok`   — `deep_merge_selection_tree` succeeds if, for every field name, folding `merge_fields` over the
                         fields of that name succeeds;
  * `wd_le`            — the depth of a tree related to a set of selection sets nesting at most `k` deep is bounded by
                         the wrapper depth of its type and `k · (G + 1)` (`G` = wrapper depth of the schema's field types);
  * `mergeTrees_ok`    — `merge_selection_trees` of two trees related at the same type to coherent sets succeeds when
                         its fuel is at least the depth of the left tree (no "different types" panic, no out-of-fuel).
-/
import NitroVerif.Lemmas.OpTypesRefMerge
import NitroVerif.Lemmas.OpTypesRefFuel
namespace NitroVerif.OpTypes.Ref
open NitroVerif.Gql NitroVerif.Ts NitroVerif.Exec NitroVerif.OpTypes

/-! ### `deep_merge_selection_tree` -/

theorem mergeAll_append (mt : SelTree → SelTree → Except Panic SelTree) : ∀ (a b : List SField) (g : SField),
    mergeAll mt g (a ++ b) = match mergeAll mt g a with
      | .ok m => mergeAll mt m b
      | .error e => .error e
  | [], b, g => by simp [mergeAll]
  | x :: a, b, g => by
    simp only [List.cons_append, mergeAll]
    cases mergeFieldsWith mt g x with
    | error e => rfl
    | ok y => exact mergeAll_append mt a b y

theorem mergeInto_ok (mt : SelTree → SelTree → Except Panic SelTree) (f : SField) : ∀ (acc : List SField),
    acc.any (·.name == f.name) = true →
    (∀ pre g post, acc = pre ++ g :: post → (∀ x ∈ pre, x.name ≠ f.name) → g.name = f.name →
      ∃ r, mergeFieldsWith mt g f = .ok r) →
    ∃ acc', mergeInto mt f acc = .ok acc'
  | [], h, _ => by simp at h
  | g :: gs, hany, hm => by
    simp only [mergeInto]
    by_cases hg : (g.name == f.name) = true
    · obtain ⟨r, hr⟩ := hm [] g gs rfl (by simp) (by simpa using hg)
      simp [hg, hr, bind, Except.bind]
    · have hg' : (g.name == f.name) = false := by simpa using hg
      simp only [List.any_cons, hg', Bool.false_or] at hany
      obtain ⟨acc', hacc⟩ := mergeInto_ok mt f gs hany (fun pre g0 post hgs hpre hn =>
        hm (g :: pre) g0 post (by simp [hgs]) (by
          intro x hx
          rcases List.mem_cons.1 hx with rfl | hx
          · simpa using hg
          · exact hpre x hx) hn)
      simp [hg', hacc, bind, Except.bind]

/-- `deep_merge_selection_tree` succeeds when the per-name folds succeed -/
theorem deepMergeGo_ok (mt : SelTree → SelTree → Except Panic SelTree) : ∀ (fs acc xs : List SField),
    Repr mt acc xs →
    (∀ k f0 rest, (xs ++ fs).filter (·.name == k) = f0 :: rest → ∃ m, mergeAll mt f0 rest = .ok m) →
    ∃ M, deepMergeGo mt fs acc = .ok M
  | [], acc, _, _, _ => ⟨acc, rfl⟩
  | f :: fs, acc, xs, hrep, hall => by
    simp only [deepMergeGo]
    by_cases hany : acc.any (·.name == f.name) = true
    · simp only [hany, ↓reduceIte, bind, Except.bind]
      have hmi : ∃ acc', mergeInto mt f acc = .ok acc' := by
        refine mergeInto_ok mt f acc hany ?_
        intro pre g post hacc _ hgn
        obtain ⟨f0, rest, hfil, hma⟩ := hrep.2.1 g (by rw [hacc]; simp)
        have hfil' : (xs ++ f :: fs).filter (·.name == f.name) = f0 :: (rest ++ f :: fs.filter (·.name == f.name)) := by
          rw [hgn] at hfil
          simp [List.filter_append, hfil, List.filter_cons]
        obtain ⟨m, hm⟩ := hall f.name f0 _ hfil'
        rw [mergeAll_append, hma] at hm
        simp only [mergeAll] at hm
        cases hx : mergeFieldsWith mt g f with
        | error e => simp [hx] at hm
        | ok r => exact ⟨r, rfl⟩
      obtain ⟨acc', hacc'⟩ := hmi
      simp only [hacc']
      obtain ⟨pre, g, post, r, h1, h2, h3, h4⟩ := mergeInto_spec mt f acc acc' hany hacc'
      subst h1; subst h4
      exact deepMergeGo_ok mt fs _ (xs ++ [f]) (repr_merge hrep h2 h3) (by simpa using hall)
    · have hany' : acc.any (·.name == f.name) = false := by simpa using hany
      simp only [hany', Bool.false_eq_true, ↓reduceIte]
      exact deepMergeGo_ok mt fs _ (xs ++ [f]) (repr_new hrep hany') (by simpa using hall)

theorem deepMerge_ok {mt : SelTree → SelTree → Except Panic SelTree} {fs : List SField}
    (hall : ∀ k f0 rest, fs.filter (·.name == k) = f0 :: rest → ∃ m, mergeAll mt f0 rest = .ok m) :
    ∃ M, deepMergeWith mt fs = .ok M :=
  deepMergeGo_ok mt fs [] [] ⟨by simp, by simp, by simp⟩ (by simpa using hall)

/-! ### depth of trees -/

def gdepth : GType → Nat
  | .named _ _ => 0
  | .list t _ => gdepth t + 1
  | .nonNull t => gdepth t + 1

mutual
def wd : SelTree → Nat
  | .nonNull t => wd t + 1
  | .list t => wd t + 1
  | .object bs => wbs bs + 1
def wbs : List Branch → Nat
  | [] => 0
  | b :: bs => max (wb b) (wbs bs)
def wb : Branch → Nat
  | .mk _ _ un al => max (wfs un) (wfs al)
def wfs : List SField → Nat
  | [] => 0
  | f :: fs => max (wf f) (wfs fs)
def wf : SField → Nat
  | .object _ t => wd t
  | _ => 0
end

theorem wbs_mem : ∀ {bs : List Branch} {b : Branch}, b ∈ bs → wb b ≤ wbs bs
  | b0 :: bs, b, h => by
    simp only [wbs]
    rcases List.mem_cons.1 h with rfl | h
    · omega
    · have := wbs_mem h; omega

theorem wfs_mem : ∀ {fs : List SField} {f : SField}, f ∈ fs → wf f ≤ wfs fs
  | f0 :: fs, f, h => by
    simp only [wfs]
    rcases List.mem_cons.1 h with rfl | h
    · omega
    · have := wfs_mem h; omega

theorem wbs_le {bs : List Branch} {N : Nat} (h : ∀ b ∈ bs, wb b ≤ N) : wbs bs ≤ N := by
  induction bs with
  | nil => simp [wbs]
  | cons b bs ih =>
    simp only [wbs]
    have := h b (by simp)
    have := ih (fun b' hb' => h b' (List.mem_cons_of_mem _ hb'))
    omega

theorem wfs_le {fs : List SField} {N : Nat} (h : ∀ f ∈ fs, wf f ≤ N) : wfs fs ≤ N := by
  induction fs with
  | nil => simp [wfs]
  | cons f fs ih =>
    simp only [wfs]
    have := h f (by simp)
    have := ih (fun f' hf' => h f' (List.mem_cons_of_mem _ hf'))
    omega

/-- selection sets of `Sb` nest at most `k` field levels deep -/
def NestLe (c : Ctx) : Nat → SSet → Prop
  | 0, Sb => ∀ o t, PU c Sb o allInc t → t.sub = none
  | k + 1, Sb => ∀ o t, PU c Sb o allInc t → NestLe c k (SubSet c Sb o allInc t.key)

theorem nestLe_subset {c : Ctx} : ∀ (k : Nat) (Sb Sb' : SSet), (∀ s, Sb' s → Sb s) → NestLe c k Sb → NestLe c k Sb'
  | 0, Sb, Sb', hs, h => by
    intro o t ⟨s, h1, h2⟩; exact h o t ⟨s, hs s h1, h2⟩
  | k + 1, Sb, Sb', hs, h => by
    intro o t ⟨s, h1, h2⟩
    refine nestLe_subset k _ _ ?_ (h o t ⟨s, hs s h1, h2⟩)
    rintro s' ⟨t', ⟨s2, h3, h4⟩, hk, hsub⟩
    exact ⟨t', ⟨s2, hs s2 h3, h4⟩, hk, hsub⟩

/-- the field types of the schema have wrapper depth at most `G` -/
def FieldDepthLe (c : Ctx) (G : Nat) : Prop := ∀ o f fd, c.S.field? o f = some fd → gdepth fd.ty ≤ G

mutual
theorem wd_le {c : Ctx} {G : Nat} (hG : FieldDepthLe c G) : ∀ (T : SelTree) (ty : GType) (Sb : SSet) (k : Nat),
    RelTree c T ty Sb → NestLe c k Sb → wd T ≤ gdepth ty + 1 + k * (G + 1)
  | .nonNull T, ty, Sb, k, h, hn => by
    cases ty <;> simp only [RelTree] at h
    have := wd_le hG T _ Sb k h hn
    simp only [wd, gdepth]; omega
  | .list T, ty, Sb, k, h, hn => by
    cases ty <;> simp only [RelTree] at h
    have := wd_le hG T _ Sb k h hn
    simp only [wd, gdepth]; omega
  | .object bs, ty, Sb, k, h, hn => by
    cases ty <;> simp only [RelTree] at h
    rename_i n p
    have := wbs_le' hG bs n Sb k h.2.2 hn
    simp only [wd, gdepth]; omega
theorem wbs_le' {c : Ctx} {G : Nat} (hG : FieldDepthLe c G) : ∀ (bs : List Branch) (n : Name) (Sb : SSet) (k : Nat),
    RelBranches c bs n Sb → NestLe c k Sb → wbs bs ≤ k * (G + 1)
  | [], _, _, _, _, _ => by simp [wbs]
  | b :: bs, n, Sb, k, h, hn => by
    simp only [RelBranches] at h
    have h1 := wb_le hG b n Sb k h.1 hn
    have h2 := wbs_le' hG bs n Sb k h.2 hn
    simp only [wbs]; omega
theorem wb_le {c : Ctx} {G : Nat} (hG : FieldDepthLe c G) : ∀ (b : Branch) (n : Name) (Sb : SSet) (k : Nat),
    RelBranch c b n Sb → NestLe c k Sb → wb b ≤ k * (G + 1)
  | .mk tn vars un al, n, Sb, k, h, hn => by
    simp only [RelBranch] at h
    obtain ⟨_, _, hself, _, _, _, hf⟩ := h
    obtain ⟨hu, ha, _⟩ := hf _ hself
    have h1 := wfs_le' hG tn _ false un Sb k hu hn
    have h2 := wfs_le' hG tn _ true al Sb k ha hn
    simp only [wb]; omega
theorem wfs_le' {c : Ctx} {G : Nat} (hG : FieldDepthLe c G) (tn : Name) (σ : Sigma) (tag : Bool) :
    ∀ (fs : List SField) (Sb : SSet) (k : Nat), RelFields c tn σ Sb tag fs → NestLe c k Sb → wfs fs ≤ k * (G + 1)
  | [], _, _, _, _ => by simp [wfs]
  | f :: fs, Sb, k, h, hn => by
    simp only [RelFields] at h
    have h1 := wf_le hG tn σ tag f Sb k h.1 hn
    have h2 := wfs_le' hG tn σ tag fs Sb k h.2 hn
    simp only [wfs]; omega
theorem wf_le {c : Ctx} {G : Nat} (hG : FieldDepthLe c G) (tn : Name) (σ : Sigma) (tag : Bool) :
    ∀ (f : SField) (Sb : SSet) (k : Nat), RelField c tn σ Sb tag f → NestLe c k Sb → wf f ≤ k * (G + 1)
  | .empty _, _, _, _, _ => by simp [wf]
  | .leaf _ _ _, _, _, _, _ => by simp [wf]
  | .object key T, Sb, k, h, hn => by
    simp only [RelField] at h
    obtain ⟨t, fd, ht, hk, _, hsome, _, hfd, hrel⟩ := h
    cases k with
    | zero =>
      have := hn tn t (pu_all ht)
      rw [this] at hsome; cases hsome
    | succ k =>
      have hn' : NestLe c k (SubSet c Sb tn (included σ) key) := by
        refine nestLe_subset k _ _ ?_ (hk ▸ hn tn t (pu_all ht))
        rintro s ⟨t', ht', hk', hs'⟩
        exact ⟨t', pu_all ht', hk', hs'⟩
      have h1 := wd_le hG T fd.ty _ k hrel hn'
      have h2 := hG tn t.name fd hfd
      simp only [wf]
      have : (k + 1) * (G + 1) = k * (G + 1) + (G + 1) := by rw [Nat.add_mul]; simp
      omega
end

/-! ### merging related fields / branches / trees succeeds -/

theorem mapM_ok {α β ε : Type} {f : α → Except ε β} : ∀ (l : List α), (∀ a ∈ l, ∃ b, f a = .ok b) →
    ∃ r, l.mapM f = .ok r
  | [], _ => ⟨[], by simp [pure, Except.pure]⟩
  | a :: l, h => by
    obtain ⟨b, hb⟩ := h a (by simp)
    obtain ⟨r, hr⟩ := mapM_ok l (fun a' ha' => h a' (List.mem_cons_of_mem _ ha'))
    exact ⟨b :: r, by simp [List.mapM_cons, hb, hr, bind, Except.bind, pure, Except.pure]⟩

theorem filterMapM_ok {α β ε : Type} {f : α → Except ε (Option β)} : ∀ (l : List α), (∀ a ∈ l, ∃ b, f a = .ok b) →
    ∃ r, l.filterMapM f = .ok r
  | [], _ => ⟨[], by simp [pure, Except.pure]⟩
  | a :: l, h => by
    obtain ⟨b, hb⟩ := h a (by simp)
    obtain ⟨r, hr⟩ := filterMapM_ok l (fun a' ha' => h a' (List.mem_cons_of_mem _ ha'))
    cases b with
    | none => exact ⟨r, by simp [List.filterMapM_cons, hb, hr, bind, Except.bind]⟩
    | some b => exact ⟨b :: r, by simp [List.filterMapM_cons, hb, hr, bind, Except.bind, pure, Except.pure]⟩

/-- the merge of two trees succeeds whenever the left tree is at most `N` deep -/
def MergeProg (c : Ctx) (mt : SelTree → SelTree → Except Panic SelTree) (N : Nat) : Prop :=
  ∀ T1 T2 ty A B, RelTree c T1 ty A → RelTree c T2 ty B → (∀ d, Coh c d (SUnion A B) ty.unwrapped) → wd T1 ≤ N →
    ∃ T, mt T1 T2 = .ok T

section
variable {c : Ctx} {tn : Name} {σ : Sigma} {tag : Bool}

theorem mergeFields_ok {mt : SelTree → SelTree → Except Panic SelTree} {N : Nat} (MP : MergeProg c mt N) {A B : SSet}
    {f1 f2 : SField} (h1 : RelField c tn σ A tag f1) (h2 : RelField c tn σ B tag f2) (hname : f1.name = f2.name)
    (hw : wf f1 ≤ N) (hcoh : CohAt c (SUnion A B) tn)
    (hnest : ∀ t fd, PU c (SUnion A B) tn allInc t → c.S.field? tn t.name = some fd →
      ∀ d, Coh c d (SubSet c (SUnion A B) tn allInc t.key) fd.ty.unwrapped) :
    ∃ m, mergeFieldsWith mt f1 f2 = .ok m := by
  have monoA : ∀ o inc t, PU c A o inc t → PU c (SUnion A B) o inc t := fun _ _ _ h => pu_union.2 (Or.inl h)
  have monoB : ∀ o inc t, PU c B o inc t → PU c (SUnion A B) o inc t := fun _ _ _ h => pu_union.2 (Or.inr h)
  -- a leaf and an object field under one key contradict coherence
  have mixed : ∀ {A' B' : SSet} {k ty b k' T}, (∀ o inc t, PU c A' o inc t → PU c (SUnion A B) o inc t) →
      (∀ o inc t, PU c B' o inc t → PU c (SUnion A B) o inc t) →
      RelField c tn σ A' tag (.leaf k ty b) → RelField c tn σ B' tag (.object k' T) → k = k' → False := by
    intro A' B' k ty b k' T mA mB hl ho hk
    simp only [RelField] at hl ho
    obtain ⟨t1, ht1, hk1, _, hc1⟩ := hl
    obtain ⟨t2, fd2, ht2, hk2, _, hs2, hn2, _, _⟩ := ho
    obtain ⟨_, hnm, hsm⟩ := cohAt_full hcoh t1 t2 (mA _ _ _ (pu_all ht1)) (mB _ _ _ (pu_all ht2)) (by rw [hk1, hk2, hk])
    split at hc1
    · rename_i htn; rw [hnm, hn2] at htn; cases htn
    · rw [hc1.2.1, hs2] at hsm; cases hsm
  cases f1 with
  | empty k =>
    cases f2 with
    | empty k' => exact ⟨_, rfl⟩
    | leaf k' ty' b' => exact ⟨_, rfl⟩
    | object k' T' => exact ⟨_, rfl⟩
  | leaf k ty b =>
    cases f2 with
    | empty k' => exact ⟨_, rfl⟩
    | leaf k' ty' b' => exact ⟨_, rfl⟩
    | object k' T' => exact (mixed monoA monoB h1 h2 hname).elim
  | object k T =>
    cases f2 with
    | empty k' => exact ⟨_, rfl⟩
    | leaf k' ty' b' => exact (mixed monoB monoA h2 h1 hname.symm).elim
    | object k' T' =>
      simp only [SField.name] at hname
      have h1' := h1
      have h2' := h2
      simp only [RelField] at h1' h2'
      obtain ⟨t1, fd1, ht1, hk1, _, _, _, hf1, hr1⟩ := h1'
      obtain ⟨t2, fd2, ht2, hk2, _, _, _, hf2, hr2⟩ := h2'
      have hsame := (cohAt_full hcoh t1 t2 (monoA _ _ _ (pu_all ht1)) (monoB _ _ _ (pu_all ht2)) (by rw [hk1, hk2, hname])).2.1
      rw [← hsame, hf1] at hf2; cases hf2
      obtain ⟨Tm, hTm⟩ := MP T T' fd1.ty _ _ hr1 hr2 (by
        intro d
        have := hnest t1 fd1 (monoA _ _ _ (pu_all ht1)) hf1 d
        refine coh_subset d _ _ _ ?_ this
        rintro s (⟨t', ht', hk', hs'⟩ | ⟨t', ht', hk', hs'⟩)
        · exact ⟨t', monoA _ _ _ (pu_all ht'), by rw [hk', hk1], hs'⟩
        · exact ⟨t', monoB _ _ _ (pu_all ht'), by rw [hk', hk1, hname], hs'⟩) (by simpa [wf] using hw)
      exact ⟨.object k Tm, by simp [mergeFieldsWith, hTm, bind, Except.bind]⟩

theorem mergedFields_ok {mt : SelTree → SelTree → Except Panic SelTree} {N : Nat} (MP : MergeProg c mt N) {A B : SSet}
    {lf rf : List SField} (hl : RelFields c tn σ A tag lf) (hr : RelFields c tn σ B tag rf)
    (hnl : (lf.map SField.name).Nodup) (hnr : (rf.map SField.name).Nodup) (hw : wfs lf ≤ N)
    (hcoh : CohAt c (SUnion A B) tn)
    (hnest : ∀ t fd, PU c (SUnion A B) tn allInc t → c.S.field? tn t.name = some fd →
      ∀ d, Coh c d (SubSet c (SUnion A B) tn allInc t.key) fd.ty.unwrapped) :
    ∃ M, deepMergeWith mt (lf ++ rf) = .ok M := by
  apply deepMerge_ok
  intro k f0 rest hfil
  rw [List.filter_append] at hfil
  rcases filter_name_nodup hnl k with ⟨hl0, _⟩ | ⟨f1, hl1, hf1, hf1n⟩ <;>
    rcases filter_name_nodup hnr k with ⟨hr0, _⟩ | ⟨f2, hr1, hf2, hf2n⟩
  · rw [hl0, hr0] at hfil; cases hfil
  · rw [hl0, hr1] at hfil
    simp only [List.nil_append, List.cons.injEq] at hfil
    obtain ⟨rfl, rfl⟩ := hfil
    exact ⟨_, rfl⟩
  · rw [hl1, hr0] at hfil
    simp only [List.append_nil, List.cons.injEq] at hfil
    obtain ⟨rfl, rfl⟩ := hfil
    exact ⟨_, rfl⟩
  · rw [hl1, hr1] at hfil
    simp only [List.cons_append, List.nil_append, List.cons.injEq] at hfil
    obtain ⟨rfl, rfl⟩ := hfil
    obtain ⟨m, hm⟩ := mergeFields_ok MP (relFields_mem hl _ hf1) (relFields_mem hr _ hf2) (by rw [hf1n, hf2n])
      (by have := wfs_mem hf1; omega) hcoh hnest
    exact ⟨m, by simp [mergeAll, hm]⟩

end

theorem mapM_ne_error {α β ε : Type} {f : α → Except ε β} (l : List α) (h : ∀ a ∈ l, ∃ b, f a = .ok b) (e : ε) :
    l.mapM f ≠ .error e := by
  obtain ⟨r, hr⟩ := mapM_ok l h
  rw [hr]; intro h'; cases h'

theorem mergeBranches_ok {c : Ctx} {mt : SelTree → SelTree → Except Panic SelTree} {N : Nat} (MP : MergeProg c mt N)
    {l r : List Branch} {n : Name} {A B : SSet} (hbl : RelBranches c l n A) (hbr : RelBranches c r n B)
    (hw : wbs l ≤ N) (hC : ∀ d, Coh c d (SUnion A B) n) : ∃ bs, mergeBranchesWith mt l r = .ok bs := by
  simp only [mergeBranchesWith, bind, Except.bind]
  split
  · rename_i e heq
    refine (mapM_ne_error l ?_ e heq).elim
    intro lb hlb
    split
    · exact ⟨_, rfl⟩
    · apply filterMapM_ok
      intro rb hrb
      obtain ⟨hrbr, hty⟩ := List.mem_filter.1 hrb
      have hty : rb.typeName = lb.typeName := by simpa using hty
      cases hv : unifyVars lb.vars rb.vars with
      | none => exact ⟨_, rfl⟩
      | some v =>
        simp only
        have hRl := relBranches_mem hbl lb hlb
        have hRr := relBranches_mem hbr rb hrbr
        have hwl : wb lb ≤ N := by have := wbs_mem hlb; omega
        obtain ⟨tn0, lv, lu, la⟩ := lb
        obtain ⟨tn, rv, ru, ra⟩ := rb
        simp only [Branch.typeName] at hty; subst hty
        simp only [Branch.vars] at hv
        simp only [RelBranch] at hRl hRr
        obtain ⟨hposs, _, hselfl, hnlu, hnla, _, hfl⟩ := hRl
        obtain ⟨_, _, hselfr, hnru, hnra, _, hfr⟩ := hRr
        have hcoh : CohAt c (SUnion A B) tn := by
          have := hC 1; simp only [Coh] at this; exact (this tn hposs).1
        have hnest : ∀ t fd, PU c (SUnion A B) tn allInc t → c.S.field? tn t.name = some fd →
            ∀ d, Coh c d (SubSet c (SUnion A B) tn allInc t.key) fd.ty.unwrapped := by
          intro t fd ht hfd d
          have := hC (d + 1); simp only [Coh] at this; exact (this tn hposs).2 t fd ht hfd
        have hself := consistent_unify hselfl hselfr hv
        obtain ⟨hagl, hagr⟩ := (agree_unify hv).1 hself
        obtain ⟨hul, hal, _⟩ := hfl _ hagl
        obtain ⟨hur, har, _⟩ := hfr _ hagr
        simp only [wb] at hwl
        obtain ⟨U, hU⟩ := mergedFields_ok MP hul hur hnlu hnru (by omega) hcoh hnest
        obtain ⟨Aa, hA⟩ := mergedFields_ok MP hal har hnla hnra (by omega) hcoh hnest
        simp only [Branch.unaliased, Branch.aliased, hU, hA]
        exact ⟨_, rfl⟩
  · exact ⟨_, rfl⟩

/-- **`merge_selection_trees` does not panic** on trees related (at one type) to coherent sets of selection sets, with
    fuel at least the depth of the left tree -/
theorem mergeTrees_ok (c : Ctx) : ∀ (mf : Nat), MergeProg c (mergeTrees mf) mf
  | 0 => by
    intro T1 T2 ty A B _ _ _ hw
    cases T1 <;> simp [wd] at hw
  | mf + 1 => by
    intro T1 T2 ty A B h1 h2 hC hw
    cases T1 with
    | nonNull l =>
      cases ty <;> simp only [RelTree] at h1
      cases T2 <;> simp only [RelTree] at h2
      rename_i ty' r
      simp only [wd] at hw
      obtain ⟨T, hT⟩ := mergeTrees_ok c mf l r ty' A B h1 h2 (by simpa [GType.unwrapped] using hC) (by omega)
      exact ⟨.nonNull T, by simp [mergeTrees, hT, bind, Except.bind]⟩
    | list l =>
      cases ty <;> simp only [RelTree] at h1
      cases T2 <;> simp only [RelTree] at h2
      rename_i ty' p r
      simp only [wd] at hw
      obtain ⟨T, hT⟩ := mergeTrees_ok c mf l r ty' A B h1 h2 (by simpa [GType.unwrapped] using hC) (by omega)
      exact ⟨.list T, by simp [mergeTrees, hT, bind, Except.bind]⟩
    | object l =>
      cases ty <;> simp only [RelTree] at h1
      cases T2 <;> simp only [RelTree] at h2
      rename_i n p r
      simp only [wd] at hw
      obtain ⟨bs, hbs⟩ := mergeBranches_ok (mergeTrees_ok c mf) h1.2.2 h2.2.2 (by omega)
        (by simpa [GType.unwrapped] using hC)
      exact ⟨.object bs, by simp [mergeTrees, hbs, bind, Except.bind]⟩

end NitroVerif.OpTypes.Ref
