/-
Helper lemmas about positions (`Peg.lineCol` / `Peg.offsetOf`) and text slices, for Props/C07.
-/
import NitroVerif.Model.Peg
namespace NitroVerif.Peg

/-- walking over characters that are not line breaks while a line break is still awaited -/
theorem offsetOfFrom_skip (pre rest : List Char) (k col acc : Nat) (hpre : ∀ x ∈ pre, x ≠ '\n') :
    offsetOfFrom (pre ++ rest) (k + 1) col acc = offsetOfFrom rest (k + 1) col (acc + pre.length) := by
  induction pre generalizing acc with
  | nil => simp
  | cons x pre ih =>
    have hx : x ≠ '\n' := hpre x (List.mem_cons_self ..)
    have hrest : ∀ y ∈ pre, y ≠ '\n' := fun y hy => hpre y (List.mem_cons_of_mem _ hy)
    simp only [List.cons_append, offsetOfFrom, hx, if_false]
    rw [ih (acc + 1) hrest]
    simp [Nat.add_assoc, Nat.add_comm 1]

theorem takeWhile_append_length (pre rest : List Char) (hpre : ∀ x ∈ pre, x ≠ '\n') :
    pre.length ≤ ((pre ++ rest).takeWhile (· ≠ '\n')).length := by
  induction pre with
  | nil => simp
  | cons x pre ih =>
    have hx : x ≠ '\n' := hpre x (List.mem_cons_self ..)
    have hrest : ∀ y ∈ pre, y ≠ '\n' := fun y hy => hpre y (List.mem_cons_of_mem _ hy)
    simp only [List.cons_append, List.takeWhile_cons, hx, ne_eq, not_false_eq_true, decide_true, if_true,
      List.length_cons]
    exact Nat.succ_le_succ (ih hrest)

/-- the generalised inverse: `pre` is the part of the current line before the cursor -/
theorem offsetOfFrom_lineColFrom (r : List Char) :
    ∀ (n l c acc : Nat) (pre : List Char), n ≤ r.length → (∀ x ∈ pre, x ≠ '\n') → pre.length = c →
      l ≤ (lineColFrom r n l c).1 ∧
      offsetOfFrom (pre ++ r) ((lineColFrom r n l c).1 - l) (lineColFrom r n l c).2 acc = some (acc + c + n) := by
  induction r with
  | nil =>
    intro n l c acc pre hn hpre hc
    have : n = 0 := by simpa using hn
    subst this
    simp only [lineColFrom, Nat.le_refl, Nat.sub_self, offsetOfFrom, true_and]
    have := takeWhile_append_length pre [] hpre
    simp only [hc] at this
    simpa using this
  | cons ch r ih =>
    intro n l c acc pre hn hpre hc
    cases n with
    | zero =>
      simp only [lineColFrom, Nat.le_refl, Nat.sub_self, offsetOfFrom, true_and]
      have := takeWhile_append_length pre (ch :: r) hpre
      simp only [hc] at this
      simpa using this
    | succ n =>
      have hn' : n ≤ r.length := by simpa using hn
      by_cases hch : ch = '\n'
      · subst hch
        simp only [lineColFrom, if_true]
        obtain ⟨h1, h2⟩ := ih n (l + 1) 0 (acc + c + 1) [] hn' (by simp) rfl
        refine ⟨by omega, ?_⟩
        have hk : (lineColFrom r n (l + 1) 0).1 - l = ((lineColFrom r n (l + 1) 0).1 - (l + 1)) + 1 := by omega
        rw [hk, offsetOfFrom_skip pre _ _ _ _ hpre]
        simp only [offsetOfFrom, if_true]
        simp only [List.nil_append] at h2
        rw [hc]
        rw [h2]
        congr 1
        omega
      · simp only [lineColFrom, hch, if_false]
        have hpre' : ∀ x ∈ pre ++ [ch], x ≠ '\n' := by
          intro x hx
          rcases List.mem_append.mp hx with h | h
          · exact hpre x h
          · have : x = ch := by simpa using h
            exact this ▸ hch
        obtain ⟨h1, h2⟩ := ih n l (c + 1) acc (pre ++ [ch]) hn' hpre' (by simp [hc])
        refine ⟨h1, ?_⟩
        simp only [List.append_assoc, List.singleton_append] at h2
        rw [h2]
        congr 1
        omega

/-- `slice` is a prefix of the input from its start -/
theorem slice_prefix (input : List Char) (s e : Nat) : slice input s e <+: input.drop s := by
  unfold slice
  exact List.take_prefix _ _

end NitroVerif.Peg
