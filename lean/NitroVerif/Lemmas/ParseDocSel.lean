/-
Selections (helper lemmas for Props/C07Doc): the text of a field / fragment spread / inline fragment / selection set with
a gap after every token, the selection with the positions of its tokens, and the pieces of the `Field` rule: optional
alias, name, optional arguments, optional directives.
-/
import NitroVerif.Lemmas.ParseDocDirs
namespace NitroVerif.DocParse
open NitroVerif.Peg NitroVerif.Gen NitroVerif.Gen.Parts NitroVerif.Build NitroVerif.TypeParse NitroVerif.StringParse
open NitroVerif.Gql NitroVerif.ValueParse NitroVerif.Spec.Lex

set_option linter.unusedSimpArgs false

abbrev dots : List Char := ['.', '.', '.']
abbrev kwOn : List Char := ['o', 'n']

/-! ### texts -/

/-- `alias gap : gap` -/
def rAlias (τ : Trivia) (p : Nat) : Option (Name × Pos) → List Char
  | none => []
  | some (a, _) => tk τ false p a.toList ++ tk τ false (p + (tk τ false p a.toList).length) [':']

/-- `( … ) gap`, nothing for an empty argument list -/
def rOptArgs (τ : Trivia) (sep : Bool) (p : Nat) : List Arg → List Char
  | [] => []
  | a :: as => tk τ sep p (renderArgs τ p (a :: as))

/-- alias, name, arguments, directives of a field, each token followed by its gap; `sD`: the last gap is made non-empty -/
def rHead (τ : Trivia) (sD : Bool) (p : Nat) (al : Option (Name × Pos)) (n : Name) (args : List Arg)
    (dirs : List Directive) : List Char :=
  let tA := rAlias τ p al
  let tN := tk τ (sD && dirs.isEmpty && args.isEmpty) (p + tA.length) n.toList
  let tG := rOptArgs τ (sD && dirs.isEmpty) (p + tA.length + tN.length) args
  tA ++ (tN ++ (tG ++ rDirs τ sD (p + tA.length + tN.length + tG.length) dirs))

/-- offsets of the name, the arguments and the directives of a field head written at `p` -/
def hOffN (τ : Trivia) (p : Nat) (al : Option (Name × Pos)) : Nat := p + (rAlias τ p al).length
def hOffG (τ : Trivia) (sD : Bool) (p : Nat) (al : Option (Name × Pos)) (n : Name) (args : List Arg)
    (dirs : List Directive) : Nat :=
  hOffN τ p al + (tk τ (sD && dirs.isEmpty && args.isEmpty) (hOffN τ p al) n.toList).length
def hOffD (τ : Trivia) (sD : Bool) (p : Nat) (al : Option (Name × Pos)) (n : Name) (args : List Arg)
    (dirs : List Directive) : Nat :=
  hOffG τ sD p al n args dirs + (rOptArgs τ (sD && dirs.isEmpty) (hOffG τ sD p al n args dirs) args).length

/-- `on gap Type gap` -/
def rCond (τ : Trivia) (sep : Bool) (p : Nat) : Option (Name × Pos) → List Char
  | none => []
  | some (t, _) => tk τ true p kwOn ++ tk τ sep (p + (tk τ true p kwOn).length) t.toList

mutual
/-- a selection, every token followed by its gap; `sep`: the gap after the last token is made non-empty -/
def rSel (τ : Trivia) : Bool → Nat → Selection → List Char
  | sep, p, .field al n _ args dirs none => rHead τ sep p al n args dirs
  | sep, p, .field al n _ args dirs (some ss) =>
    let tH := rHead τ false p al n args dirs
    let tO := tk τ false (p + tH.length) ['{']
    let tI := rSels τ (p + tH.length + tO.length) ss
    tH ++ (tO ++ (tI ++ tk τ sep (p + tH.length + tO.length + tI.length) ['}']))
  | sep, p, .spread n _ dirs _ =>
    let t0 := tk τ false p dots
    let tN := tk τ (sep && dirs.isEmpty) (p + t0.length) n.toList
    t0 ++ (tN ++ rDirs τ sep (p + t0.length + tN.length) dirs)
  | sep, p, .inline cond dirs ss _ =>
    let t0 := tk τ false p dots
    let tC := rCond τ false (p + t0.length) cond
    let tD := rDirs τ false (p + t0.length + tC.length) dirs
    let tO := tk τ false (p + t0.length + tC.length + tD.length) ['{']
    let tI := rSels τ (p + t0.length + tC.length + tD.length + tO.length) ss
    t0 ++ (tC ++ (tD ++ (tO ++ (tI ++ tk τ sep (p + t0.length + tC.length + tD.length + tO.length + tI.length) ['}']))))
/-- the selections of a selection set: a non-empty gap between two selections -/
def rSels (τ : Trivia) : Nat → List Selection → List Char
  | _, [] => []
  | p, [s] => rSel τ false p s
  | p, s :: t :: r => rSel τ true p s ++ rSels τ (p + (rSel τ true p s).length) (t :: r)
end

/-- `{ gap selections } gap` -/
def rSelSet (τ : Trivia) (sep : Bool) (p : Nat) (ss : List Selection) : List Char :=
  let tO := tk τ false p ['{']
  let tI := rSels τ (p + tO.length) ss
  tO ++ (tI ++ tk τ sep (p + tO.length + tI.length) ['}'])

/-! ### the selections with the positions of their tokens -/

def wpAlias (inp : List Char) (p : Nat) : Option (Name × Pos) → Option (Name × Pos)
  | none => none
  | some (a, _) => some (a, posAt inp p)

def wpField (τ : Trivia) (inp : List Char) (sD : Bool) (p : Nat) (al : Option (Name × Pos)) (n : Name) (args : List Arg)
    (dirs : List Directive) (sel : Option (List Selection)) : Selection :=
  .field (wpAlias inp p al) n (posAt inp (hOffN τ p al)) (withPosFs τ inp (hOffG τ sD p al n args dirs + 1) true args)
    (wpDirs τ inp sD (hOffD τ sD p al n args dirs) dirs) sel

def wpCond (τ : Trivia) (inp : List Char) (p : Nat) : Option (Name × Pos) → Option (Name × Pos)
  | none => none
  | some (t, _) => some (t, posAt inp (p + (tk τ true p kwOn).length))

mutual
def wpSel (τ : Trivia) (inp : List Char) : Bool → Nat → Selection → Selection
  | sep, p, .field al n _ args dirs none => wpField τ inp sep p al n args dirs none
  | _, p, .field al n _ args dirs (some ss) =>
    let tH := rHead τ false p al n args dirs
    let tO := tk τ false (p + tH.length) ['{']
    wpField τ inp false p al n args dirs (some (wpSels τ inp (p + tH.length + tO.length) ss))
  | sep, p, .spread n _ dirs _ =>
    let t0 := tk τ false p dots
    let tN := tk τ (sep && dirs.isEmpty) (p + t0.length) n.toList
    .spread n (posAt inp (p + t0.length)) (wpDirs τ inp sep (p + t0.length + tN.length) dirs) (posAt inp p)
  | _, p, .inline cond dirs ss _ =>
    let t0 := tk τ false p dots
    let tC := rCond τ false (p + t0.length) cond
    let tD := rDirs τ false (p + t0.length + tC.length) dirs
    let tO := tk τ false (p + t0.length + tC.length + tD.length) ['{']
    .inline (wpCond τ inp (p + t0.length) cond) (wpDirs τ inp false (p + t0.length + tC.length) dirs)
      (wpSels τ inp (p + t0.length + tC.length + tD.length + tO.length) ss) (posAt inp p)
def wpSels (τ : Trivia) (inp : List Char) : Nat → List Selection → List Selection
  | _, [] => []
  | p, [s] => [wpSel τ inp false p s]
  | p, s :: t :: r => wpSel τ inp true p s :: wpSels τ inp (p + (rSel τ true p s).length) (t :: r)
end

/-! ### well-formed selections -/

mutual
def WFSel : Selection → Prop
  | .field al n _ args dirs none =>
    (∀ a ∈ al, validName a.1.toList) ∧ validName n.toList ∧ WFFs args ∧ WFDirs dirs
  | .field al n _ args dirs (some ss) =>
    (∀ a ∈ al, validName a.1.toList) ∧ validName n.toList ∧ WFFs args ∧ WFDirs dirs ∧ ss ≠ [] ∧ WFSels ss
  | .spread n _ dirs _ => validName n.toList ∧ n.toList ≠ kwOn ∧ WFDirs dirs
  | .inline cond dirs ss _ => (∀ c ∈ cond, validName c.1.toList) ∧ WFDirs dirs ∧ ss ≠ [] ∧ WFSels ss
def WFSels : List Selection → Prop
  | [] => True
  | s :: r => WFSel s ∧ WFSels r
end

end NitroVerif.DocParse
