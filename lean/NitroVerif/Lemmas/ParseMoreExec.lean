/-
Executable definitions followed by a `Tail` instead of a token (helper lemmas for Props/C07, third stage): the last token of
an operation / fragment definition is the `}` of its selection set; what follows its trailing gap may be a token, an
`#import` statement or a final unterminated comment (`Tail`, Lemmas/ParseMoreStop.lean). Copies of `selSetT`, `opT`,
`opShortT`, `fragT` (Lemmas/ParseDocSelMain.lean, ParseDocOp.lean) in which only the closing `}` is treated differently
(`strT'`); everything inside the braces is followed by a real token and uses the original lemmas.
-/
import NitroVerif.Lemmas.ParseMoreStop
namespace NitroVerif.DocParse
open NitroVerif.Peg NitroVerif.Gen NitroVerif.Gen.Parts NitroVerif.Build NitroVerif.TypeParse NitroVerif.StringParse
open NitroVerif.Gql NitroVerif.ValueParse NitroVerif.Spec.Lex NitroVerif.ParseText

set_option linter.unusedSimpArgs false
set_option linter.unusedVariables false

variable {inp : List Char}

/-- the round-trip statement for a selection set whose trailing gap is followed by a `Tail` -/
def SelSetOk' (τ : Trivia) (inp : List Char) (ss : List Selection) : Prop := ∀ (sep : Bool) (p : Nat) (n : Nat) (c' : Cur),
  HasAt inp p (rSelSet τ sep p ss) → Tail inp n (p + (rSelSet τ sep p ss).length) c' →
  ∃ pr, RunsK (B (rSelSet τ sep p ss).length + 5 + n) (.call R.SelectionSet) (At inp p) c' [pr] ∧
    PairOk R.SelectionSet p pr ∧
    ∀ fuel, (rSelSet τ sep p ss).length ≤ fuel →
      buildSelectionSet (Ctx.spec inp) fuel pr = .ok (wpSels τ inp (p + (tk τ false p ['{']).length) ss)

/-- the `SelectionSet` rule over selections that satisfy the round-trip statement -/
theorem selSetT' (τ : Trivia) (hτ : ∀ q, Ws (τ q)) (ss : List Selection) (hne : ss ≠ [])
    (hall : ∀ s ∈ ss, WFSel s ∧ SelOk τ inp s) : SelSetOk' τ inp ss := by
  intro sep p n c' h ht
  cases ss with
  | nil => exact absurd rfl hne
  | cons a r =>
    simp only [rSelSet] at h ht ⊢
    rw [rSels_eq] at h ht ⊢
    rw [wpSels_eq]
    generalize hO : tk τ false p ['{'] = tO at *
    generalize hI : renderItems (rSel τ) true false (p + tO.length) (a :: r) = tI at *
    generalize hC : tk τ sep (p + tO.length + tI.length) ['}'] = tC at *
    have hlen : p + (tO ++ (tI ++ tC)).length = p + tO.length + tI.length + tC.length := by
      simp only [List.length_append]; omega
    rw [hlen] at ht
    have g0 : HasAt inp p tO := h.left
    have g1 : HasAt inp (p + tO.length) tI := h.right.left
    have g2 : HasAt inp (p + tO.length + tI.length) tC := h.right.right
    have hdC : Hd (· = '}') tC := hC ▸ hd_tk (hd_cons _ rfl)
    have hlO : 1 ≤ tO.length := by rw [← hO]; simp [tk]
    have hlC : 1 ≤ tC.length := hdC.length_pos
    have hnE : Nxt inp selBad false (p + tO.length + tI.length) := Nxt.of_hd g2 hdC (by rintro c rfl; decide)
    have hfail : Fails gList (40 + 100) true (.call R.Selection) .nonAtomic (At inp (p + tO.length + tI.length)) :=
      (selection_fails (headNot_of_hd g2 hdC (by rintro c rfl; decide)) hnE.tok).mono (by omega)
    obtain ⟨pss, hmany, hgood⟩ := items_many1K (rSel τ) true false (.call R.Selection) (fun _ => selBad) 40 (SelGood τ inp) r a
      (p + tO.length)
      (fun x hx s q hat hnx => by
        obtain ⟨pr, hr, hok, hb⟩ := (hall x hx).2 s q hat hnx
        exact ⟨pr, hr, hok, hb⟩)
      (fun x hx s q => (hd_rSel τ s q x (hall x hx).1).mono (by
        rintro c (hc | rfl)
        · have := nameStart_not_punct hc
          refine ⟨nameStart_not_trivia hc, ?_, fun h => by cases h⟩
          rintro (rfl | rfl | rfl | rfl) <;> simp_all
        · decide))
      (hI ▸ g1) (by rw [hI]; exact hnE) (by rw [hI]; exact hfail)
    rw [hI] at hmany
    have hTokI : Tok (At inp (p + tO.length)) := by
      obtain ⟨s', tail, htl⟩ := renderItems_cons (rSel τ) true false (p + tO.length) a r
      refine tok_of_hd g1 (hI ▸ htl ▸ (hd_rSel τ s' _ a (hall a (List.mem_cons_self ..)).1).append _) ?_
      rintro c (hc | rfl)
      · exact nameStart_not_trivia hc
      · decide
    have r0 := strT hτ ['{'] (hO ▸ g0) (by rw [hO]; exact hTokI)
    have r2 := strT' hτ ['}'] (hC ▸ g2) (by rw [hC]; exact ht)
    rw [hO] at r0
    rw [hC] at r2
    obtain ⟨e, rS⟩ := runsK_rule look_SelectionSet (by decide) (by decide)
      (runsK_seq r0 (runsK_seq (runsK_plus1 hmany) r2))
    have hclean : CleanL pss := goodItems_clean (rSel τ) true false (SelGood τ inp) (a :: r)
      (fun x _ s q pr hg => hg.1.clean) _ pss hgood
    refine ⟨_, rS.mono (by barith), pairOk_mk (by decide) (by decide) (by simpa using hclean), ?_⟩
    intro fuel hf
    obtain ⟨f, rfl⟩ : ∃ f, fuel = f + 1 := ⟨fuel - 1, by simp only [List.length_append] at hf; omega⟩
    have hall' := goodItems_all (rSel τ) true false (SelGood τ inp) R.Selection (a :: r)
      (fun x _ s q pr hg => hg.1.rule) _ pss hgood
    simp only [At, List.nil_append, List.append_nil]
    rw [buildSelectionSet_eq _ _ _ _ _ hall']
    exact goodItems_mapM (rSel τ) true false (SelGood τ inp) (selFn (Ctx.spec inp) f) (wpSel τ inp) f (a :: r)
      (fun x _ s q pr hg hl => hg.2 f hl) _ pss (by rw [hI]; simp only [List.length_append] at hf; omega) hgood


theorem selSet_all' (τ : Trivia) (hτ : ∀ q, Ws (τ q)) (ss : List Selection) (hne : ss ≠ []) (hwf : WFSels ss) :
    SelSetOk' τ inp ss :=
  selSetT' τ hτ ss hne fun x hx => ⟨wfSels_mem hwf hx, sel_all τ hτ x.size x (Nat.le_refl _) (wfSels_mem hwf hx)⟩

/-- the round-trip statement for one executable definition written at `p` with the text `t`, followed by a `Tail` -/
def DefOk' (inp : List Char) (p : Nat) (t : List Char) (n : Nat) (c' : Cur) (d : ExecDef) : Prop :=
  ∃ pr, RunsK (B t.length + 40 + n) (.call R.ExecutableDefinition) (At inp p) c' [pr] ∧
    PairOk R.ExecutableDefinition p pr ∧
    ∀ fuel, t.length ≤ fuel → buildExecutableDefinition (Ctx.spec inp) fuel pr = .ok d

theorem opT' (τ : Trivia) (hτ : ∀ q, Ws (τ q)) (o : OperationDef) (hwf : WFOp o) {sep : Bool} {p : Nat} {n : Nat} {c' : Cur}
    (h : HasAt inp p (rOp τ sep p o)) (ht : Tail inp n (p + (rOp τ sep p o).length) c') :
    DefOk' inp p (rOp τ sep p o) n c' (.op (wpOp τ inp p o)) := by
  obtain ⟨hname, hvars, hdirs, hne, hsel⟩ := hwf
  unfold DefOk'
  simp only [rOp, wpOp] at h ht ⊢
  generalize hsK : o.name.isSome = sK at *
  generalize hK : tk τ sK p (opKw o.kind) = tK at *
  generalize hN : rOptName τ (p + tK.length) o.name = tN at *
  generalize hV : rOptVars τ false (p + tK.length + tN.length) o.vars = tV at *
  generalize hD : rDirs τ false (p + tK.length + tN.length + tV.length) o.dirs = tD at *
  generalize hS : rSelSet τ sep (p + tK.length + tN.length + tV.length + tD.length) o.sel = tS at *
  have hlen : p + (tK ++ (tN ++ (tV ++ (tD ++ tS)))).length =
      p + tK.length + tN.length + tV.length + tD.length + tS.length := by
    simp only [List.length_append]; omega
  rw [hlen] at ht
  have g0 : HasAt inp p tK := h.left
  have g1 : HasAt inp (p + tK.length) tN := h.right.left
  have g2 : HasAt inp (p + tK.length + tN.length) tV := h.right.right.left
  have g3 : HasAt inp (p + tK.length + tN.length + tV.length) tD := h.right.right.right.left
  have g4 : HasAt inp (p + tK.length + tN.length + tV.length + tD.length) tS := h.right.right.right.right
  have hdS : Hd (· = '{') tS := hS ▸ hd_rSelSet τ sep _ o.sel
  have hlK : 1 ≤ tK.length := (hK ▸ hd_tk (hd_opKw o.kind)).length_pos
  have hlS := hdS.length_pos
  -- what follows the directives, the variable definitions, the name
  have n4 : Nxt inp (fun c => c = '(' ∨ c = '@' ∨ nameStart c) false (p + tK.length + tN.length + tV.length + tD.length) :=
    Nxt.of_hd g4 hdS (by rintro c rfl; decide)
  have n3 : Nxt inp (fun c => c = '(' ∨ nameStart c) false (p + tK.length + tN.length + tV.length) :=
    Nxt.rest g3 n4 (hD ▸ hd_rDirs τ false _ o.dirs) (P := (· = '@')) (by rintro c rfl; decide)
      (fun c hc => hc.elim Or.inl (fun h => Or.inr (Or.inr h))) (fun _ _ => rfl)
  have n2 : Nxt inp (fun c => nameStart c) false (p + tK.length + tN.length) :=
    Nxt.rest g2 n3 (hV ▸ hd_rOptVars τ false _ o.vars) (P := (· = '(')) (by rintro c rfl; decide)
      (fun c hc => Or.inr hc) (fun _ _ => rfl)
  -- the keyword
  have n1 : Nxt inp (fun _ => False) sK (p + tK.length) := by
    cases hnm : o.name with
    | none =>
      have htN : tN = [] := by rw [← hN, hnm]; rfl
      subst htN
      have : Nxt inp (fun c => nameStart c) false (p + tK.length) := by simpa using n2
      rw [← hsK, hnm]
      exact ⟨this.tok, fun _ _ _ h => h, this.glue⟩
    | some a =>
      rw [← hsK, hnm]
      exact Nxt.of_hd_sep g1 (hN ▸ hnm ▸ hd_tk (hd_of_validName (hname a (hnm ▸ rfl))))
        (fun d hd => ⟨nameStart_not_trivia hd, id⟩)
  have rK := opTypeT hτ o.kind (hK ▸ g0) (by rw [hK]; exact n1)
  rw [hK] at rK
  obtain ⟨oN, rN, hbN⟩ := optNameT hτ o.name hname (bad := fun c => nameStart c) (fun _ h => h) (hN ▸ g1)
    (by rw [hN]; exact n2)
  rw [hN] at rN
  obtain ⟨oV, rV, hokV, hbV⟩ := optVarsT τ hτ o.vars hvars (bad := fun c => c = '(' ∨ nameStart c) (Or.inl rfl)
    (hV ▸ g2) (by rw [hV]; exact n3)
  rw [hV] at rV hbV
  obtain ⟨oD, rD, hokD, _, hbD⟩ := optDirsT τ hτ o.dirs hdirs (bad := fun c => c = '(' ∨ c = '@' ∨ nameStart c)
    (Or.inl rfl) (Or.inr (Or.inl rfl)) (hD ▸ g3) (by rw [hD]; exact n4)
  rw [hD] at rD hbD
  obtain ⟨prS, rS, hokS, hbS⟩ := selSet_all' τ hτ o.sel hne hsel sep _ n c' (hS ▸ g4) (by rw [hS]; exact ht)
  rw [hS] at rS hbS
  obtain ⟨e, rO⟩ := runsK_rule look_OperationDefinition (by decide) (by decide)
    (runsK_choice_l (b := .call R.SelectionSet) (runsK_seq rK.toK (runsK_seq rN (runsK_seq rV (runsK_seq rD rS)))))
  obtain ⟨e', rE⟩ := runsK_rule look_ExecutableDefinition (by decide) (by decide)
    (runsK_choice_l (b := .choice (.call R.FragmentDefinition) (.call R.ext_ImportStatement)) rO)
  have hcleanN : CleanL oN.toList := by
    rcases hbN with ⟨_, rfl⟩ | ⟨a, ap, _, rfl, _⟩
    · trivial
    · exact ⟨cleanP_of (by decide) (by decide) trivial, trivial⟩
  refine ⟨_, rE.mono (by barith), ?_, ?_⟩
  · refine pairOk_mk (by decide) (by decide) ⟨cleanP_of (by decide) (by decide) ?_, trivial⟩
    simp only [cleanL_append, cleanL_cons, cleanL_nil, and_true]
    refine ⟨cleanP_of (by decide) (by decide) ⟨cleanP_of ?_ ?_ trivial, trivial⟩, hcleanN,
      clean_opt (fun x hx => (hokV x hx).clean), clean_opt (fun x hx => (hokD x hx).clean), hokS.clean⟩
    all_goals cases o.kind <;> decide
  · intro fuel hf
    have hf' : tK.length + (tN.length + (tV.length + (tD.length + tS.length))) ≤ fuel := by simpa using hf
    have hch : [Pair.mk R.OperationType p (p + (opKw o.kind).length)
          [Pair.mk (opKwRule o.kind) p (p + (opKw o.kind).length) []]] ++
          (oN.toList ++ (oV.toList ++ (oD.toList ++ [prS]))) =
        slotPairs [some (Pair.mk R.OperationType p (p + (opKw o.kind).length)
          [Pair.mk (opKwRule o.kind) p (p + (opKw o.kind).length) []]), oN, oV, oD, some prS] := by simp [slotPairs]
    rw [hch]
    have hNr : ∀ x ∈ oN, x.rule = R.Name := by
      rcases hbN with ⟨_, rfl⟩ | ⟨a, ap, _, rfl, _⟩
      · simp
      · intro x hx; cases hx; rfl
    have hm := matchParts_slots P_OperationDefinition _ p_op_nodup
      (show slotsOk P_OperationDefinition [some (Pair.mk R.OperationType p (p + (opKw o.kind).length)
          [Pair.mk (opKwRule o.kind) p (p + (opKw o.kind).length) []]), oN, oV, oD, some prS] from
        ⟨fun x hx => by cases hx; rfl, hNr, fun x hx => (hokV x hx).rule, fun x hx => (hokD x hx).rule,
          ⟨_, rfl, hokS.rule⟩, trivial⟩)
    have hkw : asStr (Ctx.spec inp) (Pair.mk R.OperationType p (p + (opKw o.kind).length)
        [Pair.mk (opKwRule o.kind) p (p + (opKw o.kind).length) []]) = opKw o.kind :=
      (hK ▸ g0 : HasAt inp p (tk τ sK p (opKw o.kind))).left.slice
    have hfV := hbV fuel (by omega)
    have hfD := hbD fuel (by omega)
    have hfS := hbS fuel (by omega)
    cases oV with
    | none =>
      have hv0 : wpVarDefs τ inp (p + tK.length + tN.length + (tk τ false (p + tK.length + tN.length) ['(']).length)
          o.vars = [] := by simpa [optVarsB] using hfV.symm
      rcases hbN with ⟨hn0, rfl⟩ | ⟨a, ap, hn0, rfl, ha⟩
      · simp [buildExecutableDefinition, onlyChildOf, onlyChild, Pair.children, OC_ExecutableDefinition, Pair.rule, hm,
          Pair.start, Pair.stop, hkw, strToOperationType_opKw, hv0, hfD, hfS, hn0, At, toPos_spec',
          bind, Except.bind, pure, Except.pure, R.OperationDefinition]
      · have hsa := ha.slice
        simp [buildExecutableDefinition, onlyChildOf, onlyChild, Pair.children, OC_ExecutableDefinition, Pair.rule, hm,
          Pair.start, Pair.stop, hkw, strToOperationType_opKw, hv0, hfD, hfS, hn0, At, toPos_spec', ident,
          asString_spec', hsa, bind, Except.bind, pure, Except.pure, R.OperationDefinition]
    | some v =>
      simp only [optVarsB] at hfV
      rcases hbN with ⟨hn0, rfl⟩ | ⟨a, ap, hn0, rfl, ha⟩
      · simp [buildExecutableDefinition, onlyChildOf, onlyChild, Pair.children, OC_ExecutableDefinition, Pair.rule, hm,
          Pair.start, Pair.stop, hkw, strToOperationType_opKw, hfV, hfD, hfS, hn0, At, toPos_spec',
          bind, Except.bind, pure, Except.pure, R.OperationDefinition]
      · have hsa := ha.slice
        simp [buildExecutableDefinition, onlyChildOf, onlyChild, Pair.children, OC_ExecutableDefinition, Pair.rule, hm,
          Pair.start, Pair.stop, hkw, strToOperationType_opKw, hfV, hfD, hfS, hn0, At, toPos_spec', ident,
          asString_spec', hsa, bind, Except.bind, pure, Except.pure, R.OperationDefinition]



/-- the `{ … }` shorthand -/
theorem opShortT' (τ : Trivia) (hτ : ∀ q, Ws (τ q)) (o : OperationDef) (hne : o.sel ≠ []) (hsel : WFSels o.sel)
    {sep : Bool} {p : Nat} {n : Nat} {c' : Cur} (h : HasAt inp p (rSelSet τ sep p o.sel))
    (ht : Tail inp n (p + (rSelSet τ sep p o.sel).length) c') :
    DefOk' inp p (rSelSet τ sep p o.sel) n c' (.op (wpOpShort τ inp p o)) := by
  unfold DefOk'
  obtain ⟨prS, rS, hokS, hbS⟩ := selSet_all' τ hτ o.sel hne hsel sep p n c' h ht
  have hdS := hd_rSelSet τ sep p o.sel
  have f1 : Fails gList 25 true (.seq (.call R.OperationType) (.seq (.opt (.call R.Name))
      (.seq (.opt (.call R.VariablesDefinition)) (.seq (.opt (.call R.Directives)) (.call R.SelectionSet)))))
      .nonAtomic (At inp p) :=
    (fails_seq_1 (opType_fails (headNot_of_hd h hdS (by rintro c rfl; decide)))).mono (by omega)
  obtain ⟨e, rO⟩ := runsK_rule look_OperationDefinition (by decide) (by decide) (runsK_choice_r f1 rS)
  obtain ⟨e', rE⟩ := runsK_rule look_ExecutableDefinition (by decide) (by decide)
    (runsK_choice_l (b := .choice (.call R.FragmentDefinition) (.call R.ext_ImportStatement)) rO)
  refine ⟨_, rE.mono (by barith), ?_, ?_⟩
  · exact pairOk_mk (by decide) (by decide) ⟨cleanP_of (by decide) (by decide) ⟨hokS.clean, trivial⟩, trivial⟩
  · intro fuel hf
    have hch : [prS] = slotPairs [none, none, none, none, some prS] := by simp [slotPairs]
    rw [hch]
    have hm := matchParts_slots P_OperationDefinition _ p_op_nodup
      (show slotsOk P_OperationDefinition [none, none, none, none, some prS] from
        ⟨(fun x hx => by cases hx), (fun x hx => by cases hx), (fun x hx => by cases hx), (fun x hx => by cases hx),
          ⟨_, rfl, hokS.rule⟩, trivial⟩)
    have hfS := hbS fuel hf
    simp [buildExecutableDefinition, onlyChildOf, onlyChild, Pair.children, OC_ExecutableDefinition, Pair.rule, hm,
      optDirs, hfS, At, toPos_spec', Pair.start, bind, Except.bind, pure, Except.pure, R.OperationDefinition, wpOpShort]


theorem fragT' (τ : Trivia) (hτ : ∀ q, Ws (τ q)) (f : FragmentDef) (hwf : WFFrag f) {sep : Bool} {p : Nat} {n : Nat} {c' : Cur}
    (h : HasAt inp p (rFrag τ sep p f)) (ht : Tail inp n (p + (rFrag τ sep p f).length) c') :
    DefOk' inp p (rFrag τ sep p f) n c' (.frag (wpFrag τ inp p f)) := by
  obtain ⟨hname, hne, hcond, hdirs, hsne, hsel⟩ := hwf
  unfold DefOk'
  simp only [rFrag, wpFrag] at h ht ⊢
  generalize hK : tk τ true p kwFragment = tK at *
  generalize hN : tk τ true (p + tK.length) f.name.toList = tN at *
  generalize hC : rCond τ false (p + tK.length + tN.length) (some (f.cond, f.condPos)) = tC at *
  generalize hD : rDirs τ false (p + tK.length + tN.length + tC.length) f.dirs = tD at *
  generalize hS : rSelSet τ sep (p + tK.length + tN.length + tC.length + tD.length) f.sel = tS at *
  have hlen : p + (tK ++ (tN ++ (tC ++ (tD ++ tS)))).length =
      p + tK.length + tN.length + tC.length + tD.length + tS.length := by
    simp only [List.length_append]; omega
  rw [hlen] at ht
  have g0 : HasAt inp p tK := h.left
  have g1 : HasAt inp (p + tK.length) tN := h.right.left
  have g2 : HasAt inp (p + tK.length + tN.length) tC := h.right.right.left
  have g3 : HasAt inp (p + tK.length + tN.length + tC.length) tD := h.right.right.right.left
  have g4 : HasAt inp (p + tK.length + tN.length + tC.length + tD.length) tS := h.right.right.right.right
  have hdS : Hd (· = '{') tS := hS ▸ hd_rSelSet τ sep _ f.sel
  have hdK : Hd (· = 'f') tK := hK ▸ hd_tk (hd_cons _ rfl)
  have hdN : Hd nameStart tN := hN ▸ hd_tk (hd_of_validName hname)
  have hdC : Hd (· = 'o') tC := by
    have := hd_rCond τ false (p + tK.length + tN.length) (some (f.cond, f.condPos))
    rw [hC] at this
    rcases this with h0 | h1
    · rw [← hC] at h0; simp [rCond, tk] at h0
    · exact h1
  have hlK := hdK.length_pos
  have hlS := hdS.length_pos
  -- the operation alternative fails
  have f1 := opDef_fails (headNot_of_hd g0 hdK (by rintro c rfl; decide))
  -- `fragment`
  have rK := kwT hτ look_KEYWORD_fragment (hK ▸ g0) (bad := fun _ => False) (by
    rw [hK]; exact Nxt.of_hd_sep g1 hdN (fun d hd => ⟨nameStart_not_trivia hd, id⟩))
  rw [hK] at rK
  -- the name
  have n2 : Nxt inp (fun _ => False) true (p + tK.length + tN.length) :=
    Nxt.of_hd_sep g2 hdC (by rintro c rfl; decide)
  obtain ⟨gN, _, gGlue⟩ := tk_gap hτ (hN ▸ g1) (by rw [hN]; exact n2)
  have rN := nameT hτ hname (hN ▸ g1) (by rw [hN]; exact n2)
  rw [hN] at rN
  have rNot := runsK_not (kw_fails_name (la := .neg) look_KEYWORD_on kwOn_valid hname hne gN gGlue)
    (tok_of_hd g1 hdN (fun d => nameStart_not_trivia))
  have rFN := runsKE_rule look_FragmentName (by decide) (by decide) (runsKE_seq rNot rN)
  -- type condition, directives, selection set
  have n4 : Nxt inp (fun c => c = '(' ∨ c = '@' ∨ nameStart c) false (p + tK.length + tN.length + tC.length + tD.length) :=
    Nxt.of_hd g4 hdS (by rintro c rfl; decide)
  have n3 : Nxt inp (fun d => nameStart d) false (p + tK.length + tN.length + tC.length) :=
    Nxt.rest g3 n4 (hD ▸ hd_rDirs τ false _ f.dirs) (P := (· = '@')) (by rintro c rfl; decide)
      (fun c hc => Or.inr (Or.inr hc)) (fun _ _ => rfl)
  obtain ⟨eC, rC, hct⟩ := condT τ hτ f.cond f.condPos hcond (hC ▸ g2) (by rw [hC]; exact n3)
  rw [hC] at rC
  obtain ⟨oD, rD, hokD, _, hbD⟩ := optDirsT τ hτ f.dirs hdirs (bad := fun c => c = '(' ∨ c = '@' ∨ nameStart c)
    (Or.inl rfl) (Or.inr (Or.inl rfl)) (hD ▸ g3) (by rw [hD]; exact n4)
  rw [hD] at rD hbD
  obtain ⟨prS, rS, hokS, hbS⟩ := selSet_all' τ hτ f.sel hsne hsel sep _ n c' (hS ▸ g4) (by rw [hS]; exact ht)
  rw [hS] at rS hbS
  obtain ⟨e, rF⟩ := runsK_rule look_FragmentDefinition (by decide) (by decide)
    (runsK_seq rK.toK (runsK_seq rFN.toK (runsK_seq rC (runsK_seq rD rS))))
  obtain ⟨e', rE⟩ := runsK_rule look_ExecutableDefinition (by decide) (by decide)
    (runsK_choice_r f1 (runsK_choice_l (b := .call R.ext_ImportStatement) rF))
  refine ⟨_, rE.mono (by barith), ?_, ?_⟩
  · refine pairOk_mk (by decide) (by decide) ⟨cleanP_of (by decide) (by decide) ?_, trivial⟩
    simp only [cleanL_append, cleanL_cons, cleanL_nil, and_true]
    exact ⟨cleanP_of (by decide) (by decide) trivial,
      cleanP_of (by decide) (by decide) ⟨cleanP_of (by decide) (by decide) trivial, trivial⟩,
      cleanP_of (by decide) (by decide) ⟨cleanP_of (by decide) (by decide) trivial,
        cleanP_of (by decide) (by decide) ⟨cleanP_of (by decide) (by decide) trivial, trivial⟩, trivial⟩,
      clean_opt (fun x hx => (hokD x hx).clean), hokS.clean⟩
  · intro fuel hf
    have hf' : tK.length + (tN.length + (tC.length + (tD.length + tS.length))) ≤ fuel := by simpa using hf
    generalize hkp : Pair.mk R.KEYWORD_fragment p (p + kwFragment.length) [] = kp at *
    generalize hfn : Pair.mk R.FragmentName (At inp (p + tK.length)).pos (At inp (p + tK.length + f.name.toList.length)).pos
      ([] ++ [Pair.mk R.Name (p + tK.length) (p + tK.length + f.name.toList.length) []]) = fnp at *
    generalize htc : Pair.mk R.TypeCondition (p + tK.length + tN.length) eC [Pair.mk R.KEYWORD_on (p + tK.length + tN.length)
      (p + tK.length + tN.length + 2) [], Pair.mk R.NamedType (p + tK.length + tN.length + (tk τ true (p + tK.length + tN.length) kwOn).length)
        (p + tK.length + tN.length + (tk τ true (p + tK.length + tN.length) kwOn).length + f.cond.toList.length)
        [Pair.mk R.Name (p + tK.length + tN.length + (tk τ true (p + tK.length + tN.length) kwOn).length)
          (p + tK.length + tN.length + (tk τ true (p + tK.length + tN.length) kwOn).length + f.cond.toList.length) []]] = tcp at *
    have hch : [kp] ++ ([fnp] ++ ([tcp] ++ (oD.toList ++ [prS]))) =
        slotPairs [some kp, some fnp, some tcp, oD, some prS] := by simp [slotPairs]
    rw [hch]
    have hm := matchParts_slots P_FragmentDefinition _ p_frag_nodup
      (show slotsOk P_FragmentDefinition [some kp, some fnp, some tcp, oD, some prS] from
        ⟨⟨_, rfl, hkp ▸ rfl⟩, ⟨_, rfl, hfn ▸ rfl⟩, ⟨_, rfl, htc ▸ rfl⟩, fun x hx => (hokD x hx).rule,
          ⟨_, rfl, hokS.rule⟩, trivial⟩)
    have hti : typeConditionIdent (Ctx.spec inp) tcp = .ok (String.ofList f.cond.toList,
        posAt inp (p + tK.length + tN.length + (tk τ true (p + tK.length + tN.length) kwOn).length)) :=
      htc ▸ typeConditionIdent_pair inp _ eC _ f.cond.toList hct
    have hnm : asString (Ctx.spec inp) fnp = f.name := by
      rw [← hfn]
      simp [asString_spec', Pair.start, Pair.stop, At, gN.slice]
    have hnp : toPos (Ctx.spec inp) fnp = posAt inp (p + tK.length) := by rw [← hfn]; rfl
    simp [buildExecutableDefinition, onlyChildOf, onlyChild, Pair.children, OC_ExecutableDefinition, Pair.rule, hm,
      hti, hnm, hnp, hbD fuel (by omega), hbS fuel (by omega), At, toPos_spec', Pair.start, bind, Except.bind, pure,
      Except.pure, R.OperationDefinition, R.FragmentDefinition]


end NitroVerif.DocParse
