import NitroVerif.Lemmas.GqlPrintOwnFitsExec
import NitroVerif.Lemmas.GqlPrintOwnFlatTs
/-!
C16 over nitrogql's own parser: the printer's token lists of type-system documents fit the flat forms WITH the leading
separators (`lead = true`: `implements & A & B`, `= | A | B`, `on | A | B` — what the printer writes).
Every item ends with a line feed, so every `sep` demanded after an item is honoured.
-/
namespace NitroVerif.C16Own
open NitroVerif.Gql NitroVerif.GqlPrint NitroVerif.ValueParse NitroVerif.DocParse NitroVerif.TypeParse NitroVerif.StringParse

/-! ### descriptions, input value definitions -/

theorem fits_desc (d : Option String) (cs : List (List Char × Bool)) (ts : List Tok) (h : Fits cs ts) :
    Fits (cOptDesc d ++ cs) (printDesc d ++ ts) := by
  cases d with
  | none => simpa [cOptDesc, printDesc] using h
  | some s =>
    simp only [cOptDesc, printDesc]; lnorm
    exact fits_str s false (by simp) (fits_nl h)

theorem printInputValueDef_eq (v : InputValueDef) :
    printInputValueDef v = printDesc v.desc ++ [.name v.name, .p ":", sp] ++ printType v.ty ++ pDefault v.default ++
      printDirs v.dirs := by
  unfold printInputValueDef; cases v.default <;> rfl

theorem fits_ivd (v : InputValueDef) (hwf : WFIVD v) (sep : Bool) (cs : List (List Char × Bool)) (ts : List Tok)
    (hs : sep = true → gapNext ts = true) (h : Fits cs ts) : Fits (cIVD sep v ++ cs) (printInputValueDef v ++ ts) := by
  obtain ⟨hn, ht, hd, hdirs⟩ := hwf
  simp only [cIVD, printInputValueDef_eq]; lnorm
  refine fits_desc v.desc _ _ ?_
  refine fits_name v.name false (good_of_validName hn) (by simp) ?_
  refine fits_p ":" false (by decide) (by simp) (fits_sp ?_)
  refine fits_type v.ty ht _ _ _ ?_ ?_
  · intro he
    simp only [Bool.and_eq_true, List.isEmpty_iff, Option.isNone_iff_eq_none] at he
    obtain ⟨⟨hsep, hde⟩, hdn⟩ := he
    simpa [hde, hdn, printDirs, pDefault] using hs hsep
  refine fits_optDefault v.default hd _ _ _ ?_ ?_
  · intro he
    simp only [Bool.and_eq_true, List.isEmpty_iff] at he
    simpa [he.2, printDirs] using hs he.1
  exact fits_dirs v.dirs hdirs sep cs ts hs h

theorem fits_argDefsSep : ∀ (vs : List InputValueDef), (∀ v ∈ vs, WFIVD v) → ∀ (first : Bool)
    (cs : List (List Char × Bool)) (ts : List Tok), Fits cs ts →
    Fits (cList cIVD true false vs ++ cs) (printArgDefsSep vs first ++ ts) := by
  intro vs
  induction vs with
  | nil => intro _ first cs ts h; simpa [cList, printArgDefsSep] using h
  | cons v vs ih =>
    intro hwf first cs ts h
    simp only [cList, printArgDefsSep]; lnorm
    have step := fits_ivd v (hwf v (by simp)) (if vs.isEmpty then false else true) _ _ (by
      intro he
      cases vs with
      | nil => simp at he
      | cons w ws => simp [printArgDefsSep, gapNext]) (ih (fun x hx => hwf x (by simp [hx])) false cs ts h)
    cases first
    · exact fits_lay ", " (by decide) step
    · exact step

theorem fits_optArgsDef (vs : List InputValueDef) (hwf : ∀ v ∈ vs, WFIVD v) (cs : List (List Char × Bool))
    (ts : List Tok) (h : Fits cs ts) : Fits (cOptArgsDef false vs ++ cs) (printArgDefs vs ++ ts) := by
  cases vs with
  | nil => simpa [cOptArgsDef, printArgDefs] using h
  | cons v vs =>
    simp only [cOptArgsDef, cBraced, printArgDefs]; lnorm
    refine fits_p "(" false (by decide) (by simp) ?_
    refine fits_argDefsSep (v :: vs) hwf true _ _ ?_
    exact fits_p ")" false (by decide) (by simp) h

/-! ### lines of definitions, bracketed bodies -/

section Lines
variable {α : Type} (ci : Bool → α → List (List Char × Bool)) (pr : α → List Tok) (plines : List α → List Tok)

theorem fits_lines (hnil : plines [] = []) (hcons : ∀ x xs, plines (x :: xs) = pr x ++ [nl] ++ plines xs)
    (sm sl : Bool) : ∀ (xs : List α),
    (∀ x ∈ xs, ∀ (sep : Bool) (cs : List (List Char × Bool)) (ts : List Tok), (sep = true → gapNext ts = true) →
      Fits cs ts → Fits (ci sep x ++ cs) (pr x ++ ts)) →
    ∀ (cs : List (List Char × Bool)) (ts : List Tok), Fits cs ts →
      Fits (cList ci sm sl xs ++ cs) (plines xs ++ ts) := by
  intro xs
  induction xs with
  | nil => intro _ cs ts h; simpa [cList, hnil] using h
  | cons x xs ih =>
    intro hitem cs ts h
    simp only [cList, hcons]; lnorm
    refine hitem x (by simp) _ _ _ (fun _ => gapNext_nl _) (fits_nl ?_)
    exact ih (fun y hy => hitem y (by simp [hy])) cs ts h

/-- ` {` line feed, indented lines, `}` -/
theorem fits_bracedLines (hnil : plines [] = []) (hcons : ∀ x xs, plines (x :: xs) = pr x ++ [nl] ++ plines xs)
    (x : α) (xs : List α)
    (hitem : ∀ y ∈ x :: xs, ∀ (sep : Bool) (cs : List (List Char × Bool)) (ts : List Tok), (sep = true → gapNext ts = true) →
      Fits cs ts → Fits (ci sep y ++ cs) (pr y ++ ts))
    (sep : Bool) (cs : List (List Char × Bool)) (ts : List Tok) (hs : sep = true → gapNext ts = true) (h : Fits cs ts) :
    Fits (cBraced ci true '{' '}' sep (x :: xs) ++ cs) (braced (plines (x :: xs)) (x :: xs).isEmpty ++ ts) := by
  simp only [cBraced, braced, List.isEmpty_cons, Bool.false_eq_true, if_false]; lnorm
  refine fits_sp (fits_p "{" false (by decide) (by simp) (fits_nl (fits_ind ?_)))
  have := fits_lines ci pr plines hnil hcons true false (x :: xs) hitem (([ '}' ], sep) :: cs) (.ded :: .p "}" :: ts)
    (fits_ded (fits_p "}" sep (by decide) hs h))
  simpa using this

end Lines

theorem gapNext_braced (body : List Tok) (e : Bool) (ts : List Tok) : gapNext (braced body e ++ nl :: ts) = true := by
  cases e <;> simp [braced, sp, nl, gapNext]

/-! ### field definitions, enum values -/

theorem fits_fieldDef (f : FieldDef) (hwf : WFFieldDef f) (sep : Bool) (cs : List (List Char × Bool)) (ts : List Tok)
    (hs : sep = true → gapNext ts = true) (h : Fits cs ts) : Fits (cFieldDef sep f ++ cs) (printFieldDef f ++ ts) := by
  obtain ⟨hn, hargs, ht, hdirs⟩ := hwf
  simp only [cFieldDef, printFieldDef]; lnorm
  refine fits_desc f.desc _ _ ?_
  refine fits_name f.name false (good_of_validName hn) (by simp) ?_
  refine fits_optArgsDef f.args hargs _ _ ?_
  refine fits_p ":" false (by decide) (by simp) (fits_sp ?_)
  refine fits_type f.ty ht _ _ _ ?_ (fits_dirs f.dirs hdirs sep cs ts hs h)
  intro he
  simp only [Bool.and_eq_true, List.isEmpty_iff] at he
  simpa [he.2, printDirs] using hs he.1

theorem fits_optFields (fs : List FieldDef) (hwf : ∀ f ∈ fs, WFFieldDef f) (sep : Bool) (cs : List (List Char × Bool))
    (ts : List Tok) (hs : sep = true → gapNext ts = true) (h : Fits cs ts) :
    Fits (cOptFields sep fs ++ cs) (braced (printFieldLinesTs fs) fs.isEmpty ++ ts) := by
  cases fs with
  | nil => simpa [cOptFields, braced] using h
  | cons f fs =>
    exact fits_bracedLines cFieldDef printFieldDef printFieldLinesTs rfl (fun _ _ => rfl) f fs
      (fun y hy s c t hs' h' => fits_fieldDef y (hwf y hy) s c t hs' h') sep cs ts hs h

theorem fits_enumVal (v : EnumValueDef) (hwf : WFEnumVal v) (sep : Bool) (cs : List (List Char × Bool)) (ts : List Tok)
    (hs : sep = true → gapNext ts = true) (h : Fits cs ts) : Fits (cEnumVal sep v ++ cs) (printEnumValueDef v ++ ts) := by
  simp only [cEnumVal, printEnumValueDef]; lnorm
  refine fits_desc v.desc _ _ ?_
  refine fits_name v.name _ (good_of_validName hwf.1) ?_ (fits_dirs v.dirs hwf.2.2.2.2 sep cs ts hs h)
  intro he
  simp only [Bool.and_eq_true, List.isEmpty_iff] at he
  simpa [he.2, printDirs] using hs he.1

theorem fits_optEnumVals (vs : List EnumValueDef) (hwf : ∀ v ∈ vs, WFEnumVal v) (sep : Bool)
    (cs : List (List Char × Bool)) (ts : List Tok) (hs : sep = true → gapNext ts = true) (h : Fits cs ts) :
    Fits (cOptEnumVals sep vs ++ cs) (braced (printEnumValueLines vs) vs.isEmpty ++ ts) := by
  cases vs with
  | nil => simpa [cOptEnumVals, braced] using h
  | cons v vs =>
    exact fits_bracedLines cEnumVal printEnumValueDef printEnumValueLines rfl (fun _ _ => rfl) v vs
      (fun y hy s c t hs' h' => fits_enumVal y (hwf y hy) s c t hs' h') sep cs ts hs h

theorem fits_optInputs (vs : List InputValueDef) (hwf : ∀ v ∈ vs, WFIVD v) (sep : Bool)
    (cs : List (List Char × Bool)) (ts : List Tok) (hs : sep = true → gapNext ts = true) (h : Fits cs ts) :
    Fits (cOptInputs sep vs ++ cs) (braced (printInputLines vs) vs.isEmpty ++ ts) := by
  cases vs with
  | nil => simpa [cOptInputs, braced] using h
  | cons v vs =>
    exact fits_bracedLines cIVD printInputValueDef printInputLines rfl (fun _ _ => rfl) v vs
      (fun y hy s c t hs' h' => fits_ivd y (hwf y hy) s c t hs' h') sep cs ts hs h

/-! ### name lists with the leading separator -/

/-- ` c name` for every name: `c gap name gap`, every gap non-empty (the last one: whatever follows) -/
theorem fits_sepNames (c : Char) (cstr : String) (hc : cstr.toList = [c]) (hg : goodStr [c] = true) :
    ∀ (ns : List (Name × Pos)), (∀ x ∈ ns, validName x.1.toList) → ∀ (sep : Bool) (cs : List (List Char × Bool))
      (ts : List Tok), (sep = true → gapNext ts = true) → Fits cs ts →
      Fits (cList (ciSepName c) false sep ns ++ cs) ((ns.flatMap fun x => [sp, .p cstr, sp, .name x.1]) ++ ts) := by
  intro ns
  induction ns with
  | nil => intro _ sep cs ts _ h; simpa [cList] using h
  | cons n rest ih =>
    intro hv sep cs ts hs h
    simp only [cList, ciSepName, List.flatMap_cons]; lnorm
    refine fits_sp ?_
    have := fits_p cstr false (hc ▸ hg) (by simp) (fits_sp (fits_name n.1 (if rest.isEmpty then sep else false)
      (good_of_validName (hv n (by simp))) ?_ (ih (fun x hx => hv x (by simp [hx])) sep cs ts hs h)))
    · rw [hc] at this; exact this
    · intro he
      cases rest with
      | nil => simpa using hs (by simpa using he)
      | cons m ms => simp at he

theorem gapNext_sepNames (cstr : String) (ns : List (Name × Pos)) (ts : List Tok) (h : ns ≠ []) :
    gapNext ((ns.flatMap fun x => [sp, .p cstr, sp, .name x.1]) ++ ts) = true := by
  cases ns with
  | nil => exact absurd rfl h
  | cons n rest => rfl

/-- the whole list in the printer's form: `c A c B …` -/
theorem fits_namesLd (c : Char) (cstr : String) (hc : cstr.toList = [c]) (hg : goodStr [c] = true)
    (ns : List (Name × Pos)) (hv : ∀ x ∈ ns, validName x.1.toList) (sep : Bool) (cs : List (List Char × Bool))
    (ts : List Tok) (hs : sep = true → gapNext ts = true) (h : Fits cs ts) :
    Fits (cNamesLd true c sep ns ++ cs) ((ns.flatMap fun x => [sp, .p cstr, sp, .name x.1]) ++ ts) := by
  cases ns with
  | nil => simpa [cNamesLd] using h
  | cons n rest =>
    simp only [cNamesLd, cNames, if_true, List.flatMap_cons]; lnorm
    refine fits_sp ?_
    have := fits_p cstr false (hc ▸ hg) (by simp) (fits_sp (fits_name n.1 (sep && rest.isEmpty)
      (good_of_validName (hv n (by simp))) ?_
      (fits_sepNames c cstr hc hg rest (fun x hx => hv x (by simp [hx])) sep cs ts hs h)))
    · rw [hc] at this; exact this
    · intro he
      simp only [Bool.and_eq_true, List.isEmpty_iff] at he
      simpa [he.2] using hs he.1

theorem printImplements_eq (n : Name × Pos) (rest : List (Name × Pos)) :
    printImplements (n :: rest) = [sp, .name "implements"] ++ ((n :: rest).flatMap fun x => [sp, .p "&", sp, .name x.1]) := by
  simp [printImplements]

theorem fits_optImpl (ns : List (Name × Pos)) (hv : ∀ x ∈ ns, validName x.1.toList) (sep : Bool)
    (cs : List (List Char × Bool)) (ts : List Tok) (hs : sep = true → gapNext ts = true) (h : Fits cs ts) :
    Fits (cOptImpl true sep ns ++ cs) (printImplements ns ++ ts) := by
  cases ns with
  | nil => simpa [cOptImpl, printImplements] using h
  | cons n rest =>
    rw [printImplements_eq]
    simp only [cOptImpl]; lnorm
    refine fits_sp (fits_name "implements" true (by decide) (fun _ => rfl) ?_)
    have := fits_namesLd '&' "&" rfl (by decide) (n :: rest) hv sep cs ts hs h
    simpa using this

theorem gapNext_printImplements (ns : List (Name × Pos)) (ts : List Tok) (h : ns ≠ []) :
    gapNext (printImplements ns ++ ts) = true := by
  cases ns with
  | nil => exact absurd rfl h
  | cons n rest => rfl

/-! ### type definitions and extensions -/

theorem kindKw_eq (k : TypeKind) : (kindKeyword k).toList = kindKw k := by cases k <;> rfl
theorem good_kindKeyword (k : TypeKind) : goodNm (kindKeyword k).toList = true := by cases k <;> decide

theorem gapNext_dirs_nl (ds : List Directive) (ts : List Tok) : gapNext (printDirs ds ++ nl :: ts) = true := by
  cases ds <;> rfl

/-- what follows the name of a definition / extension in the printer's output always begins with a layout token -/
theorem gapNext_typeBody (t : TypeDef) (ext : Bool) (ts : List Tok) : gapNext (printTypeBody t ext ++ ts) = true := by
  unfold printTypeBody
  cases t.kind <;> simp only []
  · cases t.dirs <;> rfl
  · cases t.implements with
    | nil =>
      cases t.dirs with
      | nil => cases t.fields <;> rfl
      | cons d ds => rfl
    | cons n r => rfl
  · cases t.implements with
    | nil =>
      cases t.dirs with
      | nil => cases t.fields <;> rfl
      | cons d ds => rfl
    | cons n r => rfl
  · cases t.dirs <;> rfl
  · cases t.dirs with
    | nil => cases t.values <;> rfl
    | cons d ds => rfl
  · cases t.dirs with
    | nil => cases t.inputs <;> rfl
    | cons d ds => rfl

/-- the body of an object / interface type definition or extension -/
theorem fits_objBody (t : TypeDef) (himpl : ∀ x ∈ t.implements, validName x.1.toList) (hdirs : WFDirs t.dirs)
    (hfields : ∀ f ∈ t.fields, WFFieldDef f) (sep : Bool) (cs : List (List Char × Bool)) (ts : List Tok)
    (h : Fits cs ts) :
    Fits (cOptImpl true (sep && t.fields.isEmpty && t.dirs.isEmpty) t.implements ++
        (cDirs (sep && t.fields.isEmpty) t.dirs ++ cOptFields sep t.fields) ++ cs)
      (printImplements t.implements ++ printDirs t.dirs ++ braced (printFieldLinesTs t.fields) t.fields.isEmpty ++
        [nl] ++ ts) := by
  lnorm
  refine fits_optImpl t.implements himpl _ _ _ ?_ ?_
  · intro _
    cases t.dirs with
    | nil => exact gapNext_braced _ _ _
    | cons d ds => rfl
  refine fits_dirs t.dirs hdirs _ _ _ (fun _ => gapNext_braced _ _ _) ?_
  exact fits_optFields t.fields hfields sep _ _ (fun _ => gapNext_nl _) (fits_nl h)

/-- the body of a union type definition or extension: ` = | A | B` -/
theorem fits_unionBody (t : TypeDef) (hdirs : WFDirs t.dirs) (hm : ∀ x ∈ t.members, validName x.1.toList) (sep : Bool)
    (cs : List (List Char × Bool)) (ts : List Tok) (h : Fits cs ts) :
    Fits (cDirs false t.dirs ++ ((['='], false) :: cNamesLd true '|' sep t.members) ++ cs)
      (printDirs t.dirs ++ [sp, .p "="] ++ printMembers t.members ++ [nl] ++ ts) := by
  lnorm
  refine fits_dirs t.dirs hdirs false _ _ (by simp) (fits_sp ?_)
  refine fits_p "=" false (by decide) (by simp) ?_
  have := fits_namesLd '|' "|" rfl (by decide) t.members hm sep cs (nl :: ts) (fun _ => gapNext_nl _) (fits_nl h)
  simpa [printMembers] using this

theorem fits_enumBody (t : TypeDef) (hdirs : WFDirs t.dirs) (hv : ∀ v ∈ t.values, WFEnumVal v) (sep : Bool)
    (cs : List (List Char × Bool)) (ts : List Tok) (h : Fits cs ts) :
    Fits (cDirs (sep && t.values.isEmpty) t.dirs ++ cOptEnumVals sep t.values ++ cs)
      (printDirs t.dirs ++ braced (printEnumValueLines t.values) t.values.isEmpty ++ [nl] ++ ts) := by
  lnorm
  refine fits_dirs t.dirs hdirs _ _ _ (fun _ => gapNext_braced _ _ _) ?_
  exact fits_optEnumVals t.values hv sep _ _ (fun _ => gapNext_nl _) (fits_nl h)

theorem fits_inputBody (t : TypeDef) (hdirs : WFDirs t.dirs) (hv : ∀ v ∈ t.inputs, WFIVD v) (sep : Bool)
    (cs : List (List Char × Bool)) (ts : List Tok) (h : Fits cs ts) :
    Fits (cDirs (sep && t.inputs.isEmpty) t.dirs ++ cOptInputs sep t.inputs ++ cs)
      (printDirs t.dirs ++ braced (printInputLines t.inputs) t.inputs.isEmpty ++ [nl] ++ ts) := by
  lnorm
  refine fits_dirs t.dirs hdirs _ _ _ (fun _ => gapNext_braced _ _ _) ?_
  exact fits_optInputs t.inputs hv sep _ _ (fun _ => gapNext_nl _) (fits_nl h)

theorem fits_defHead (sN : Bool) (desc : Option String) (k : TypeKind) (name : Name) (hn : validName name.toList)
    (cs : List (List Char × Bool)) (ts : List Tok) (hs : sN = true → gapNext ts = true) (h : Fits cs ts) :
    Fits (cDefHead sN desc (kindKw k) name ++ cs) (printDesc desc ++ [.name (kindKeyword k), sp, .name name] ++ ts) := by
  simp only [cDefHead]; lnorm
  refine fits_desc desc _ _ ?_
  rw [← kindKw_eq]
  refine fits_name (kindKeyword k) true (good_kindKeyword k) (fun _ => rfl) (fits_sp ?_)
  exact fits_name name sN (good_of_validName hn) hs h

theorem fits_extHead (sN : Bool) (k : TypeKind) (name : Name) (hn : validName name.toList)
    (cs : List (List Char × Bool)) (ts : List Tok) (hs : sN = true → gapNext ts = true) (h : Fits cs ts) :
    Fits (cExtHead sN (kindKw k) name ++ cs) ([.name "extend", sp, .name (kindKeyword k), sp, .name name] ++ ts) := by
  simp only [cExtHead]; lnorm
  refine fits_name "extend" true (by decide) (fun _ => rfl) (fits_sp ?_)
  rw [← kindKw_eq]
  refine fits_name (kindKeyword k) true (good_kindKeyword k) (fun _ => rfl) (fits_sp ?_)
  exact fits_name name sN (good_of_validName hn) hs h

theorem fits_typeDef (t : TypeDef) (hwf : WFTypeDef t) (sep : Bool) (cs : List (List Char × Bool)) (ts : List Tok)
    (h : Fits cs ts) : Fits (cTypeDefAny true sep t ++ cs) (printTypeDef t ++ ts) := by
  obtain ⟨hn, hdirs, hk⟩ := hwf
  have hbody := gapNext_typeBody t false ts
  unfold cTypeDefAny printTypeDef
  unfold printTypeBody at hbody ⊢
  cases hkind : t.kind <;> simp only [hkind] at hk hbody ⊢
  · -- scalar
    simp only [cScalarDef]
    have := fits_defHead (sep && t.dirs.isEmpty) t.desc .scalar t.name hn (cDirs sep t.dirs ++ cs)
      (printDirs t.dirs ++ [nl] ++ ts) (fun _ => by simpa using hbody)
      (by lnorm; exact fits_dirs t.dirs hdirs sep _ _ (fun _ => gapNext_nl _) (fits_nl h))
    simpa [List.append_assoc] using this
  · -- object
    simp only [cObjDef]
    have := fits_defHead (!t.implements.isEmpty || (sep && t.fields.isEmpty && t.dirs.isEmpty)) t.desc .object t.name hn _ _
      (fun _ => by simpa using hbody) (fits_objBody t hk.1 hdirs hk.2.1 sep cs ts h)
    simpa [List.append_assoc] using this
  · -- interface
    simp only [cObjDef]
    have := fits_defHead (!t.implements.isEmpty || (sep && t.fields.isEmpty && t.dirs.isEmpty)) t.desc .interface t.name hn _ _
      (fun _ => by simpa using hbody) (fits_objBody t hk.1 hdirs hk.2.1 sep cs ts h)
    simpa [List.append_assoc] using this
  · -- union
    simp only [cUnionDef]
    have := fits_defHead false t.desc .union t.name hn _ _ (by simp) (fits_unionBody t hdirs hk.2 sep cs ts h)
    simpa [List.append_assoc] using this
  · -- enum
    simp only [cEnumDef]
    have := fits_defHead (sep && t.values.isEmpty && t.dirs.isEmpty) t.desc .enum t.name hn _ _
      (fun _ => by simpa using hbody) (fits_enumBody t hdirs hk sep cs ts h)
    simpa [List.append_assoc] using this
  · -- input
    simp only [cInputDef]
    have := fits_defHead (sep && t.inputs.isEmpty && t.dirs.isEmpty) t.desc .input t.name hn _ _
      (fun _ => by simpa using hbody) (fits_inputBody t hdirs hk sep cs ts h)
    simpa [List.append_assoc] using this

/-- a union extension is printed with `=` even when it has no members (`extend union U @d =`, open finding): the printer's
    output is a rendering only when there are members -/
def extOK (t : TypeDef) : Bool := t.kind != .union || !t.members.isEmpty

theorem fits_typeExt (t : TypeDef) (hwf : WFTypeExt t) (hu : extOK t = true) (sep : Bool) (cs : List (List Char × Bool))
    (ts : List Tok) (h : Fits cs ts) : Fits (cTypeExtAny true sep t ++ cs) (printTypeExt t ++ ts) := by
  obtain ⟨hn, hdirs, hk⟩ := hwf
  have hbody := gapNext_typeBody t true ts
  unfold cTypeExtAny printTypeExt
  unfold printTypeBody at hbody ⊢
  cases hkind : t.kind <;> simp only [hkind] at hk hbody ⊢
  · simp only [cScalarExt]
    have := fits_extHead (sep && t.dirs.isEmpty) .scalar t.name hn (cDirs sep t.dirs ++ cs)
      (printDirs t.dirs ++ [nl] ++ ts) (fun _ => by simpa using hbody)
      (by lnorm; exact fits_dirs t.dirs hdirs sep _ _ (fun _ => gapNext_nl _) (fits_nl h))
    simpa [List.append_assoc] using this
  · simp only [cObjExt]
    have := fits_extHead (!t.implements.isEmpty || (sep && t.fields.isEmpty && t.dirs.isEmpty)) .object t.name hn _ _
      (fun _ => by simpa using hbody) (fits_objBody t hk.1 hdirs hk.2.1 sep cs ts h)
    simpa [List.append_assoc] using this
  · simp only [cObjExt]
    have := fits_extHead (!t.implements.isEmpty || (sep && t.fields.isEmpty && t.dirs.isEmpty)) .interface t.name hn _ _
      (fun _ => by simpa using hbody) (fits_objBody t hk.1 hdirs hk.2.1 sep cs ts h)
    simpa [List.append_assoc] using this
  · have hm : t.members.isEmpty = false := by
      have hne : (TypeKind.union != TypeKind.union) = false := by decide
      unfold extOK at hu
      rw [hkind, hne] at hu
      simpa using hu
    simp only [cUnionExt, hm, Bool.false_eq_true, if_false, cUnionExtM]
    have := fits_extHead false .union t.name hn _ _ (by simp) (fits_unionBody t hdirs hk.2 sep cs ts h)
    simpa [List.append_assoc] using this
  · simp only [cEnumExt]
    have := fits_extHead (sep && t.values.isEmpty && t.dirs.isEmpty) .enum t.name hn _ _
      (fun _ => by simpa using hbody) (fits_enumBody t hdirs hk sep cs ts h)
    simpa [List.append_assoc] using this
  · simp only [cInputExt]
    have := fits_extHead (sep && t.inputs.isEmpty && t.dirs.isEmpty) .input t.name hn _ _
      (fun _ => by simpa using hbody) (fits_inputBody t hdirs hk sep cs ts h)
    simpa [List.append_assoc] using this

/-! ### schema definition / extension -/

/-- directives written without any separator (`schema @a@b{`), any `sep` for the last one -/
theorem fits_dirsTightSep : ∀ (ds : List Directive), WFDirs ds → ∀ (sep : Bool) (cs : List (List Char × Bool))
    (ts : List Tok), (sep = true → gapNext ts = true) → Fits cs ts →
    Fits (cDirs sep ds ++ cs) (printDirsTight ds ++ ts) := by
  intro ds
  induction ds with
  | nil => intro _ sep cs ts _ h; simpa [cDirs, cList, printDirsTight] using h
  | cons d ds ih =>
    intro hwf sep cs ts hs h
    have ih' := ih hwf.2 sep cs ts hs h
    simp only [cDirs, cList, printDirsTight] at ih' ⊢
    lnorm
    refine fits_dir d hwf.1 _ _ _ ?_ ih'
    intro he
    cases ds with
    | nil => simpa [printDirsTight] using hs (by simpa using he)
    | cons d' ds' => simp at he

theorem fits_roots : ∀ (rs : List (OpKind × Name × Pos)), (∀ x ∈ rs, validName x.2.1.toList) → ∀ (sm sl : Bool)
    (cs : List (List Char × Bool)) (ts : List Tok), Fits cs ts →
    Fits (cList cRoot sm sl rs ++ cs) (printRoots rs ++ ts) := by
  intro rs
  induction rs with
  | nil => intro _ sm sl cs ts h; simpa [cList, printRoots] using h
  | cons r rs ih =>
    intro hv sm sl cs ts h
    obtain ⟨k, n, np⟩ := r
    simp only [cList, cRoot, printRoots]; lnorm
    rw [← opKw_eq]
    refine fits_name k.asStr false (by cases k <;> decide) (by simp) ?_
    refine fits_p ":" false (by decide) (by simp) (fits_sp ?_)
    refine fits_name n _ (good_of_validName (hv (k, n, np) (by simp))) (fun _ => gapNext_nl _) (fits_nl ?_)
    exact ih (fun x hx => hv x (by simp [hx])) sm sl cs ts h

theorem fits_schemaDef (s : SchemaDef) (hwf : WFSchemaDef s) (sep : Bool) (cs : List (List Char × Bool)) (ts : List Tok)
    (h : Fits cs ts) : Fits (cSchemaDef sep s ++ cs) (printSchemaDef s ++ ts) := by
  obtain ⟨hdirs, _, hv⟩ := hwf
  simp only [cSchemaDef, cRoots, cBraced, printSchemaDef]; lnorm
  refine fits_desc s.desc _ _ ?_
  refine fits_name "schema" false (by decide) (by simp) (fits_sp ?_)
  refine fits_dirsTightSep s.dirs hdirs false _ _ (by simp) ?_
  refine fits_p "{" false (by decide) (by simp) (fits_nl (fits_ind ?_))
  refine fits_roots s.roots hv true false _ _ (fits_ded ?_)
  exact fits_p "}" sep (by decide) (fun _ => gapNext_nl _) (fits_nl h)

theorem fits_schemaExt (s : SchemaDef) (hwf : WFSchemaExt s) (sep : Bool) (cs : List (List Char × Bool)) (ts : List Tok)
    (h : Fits cs ts) : Fits (cSchemaExt sep s ++ cs) (printSchemaExt s ++ ts) := by
  obtain ⟨hdirs, _, hv⟩ := hwf
  simp only [cSchemaExt, printSchemaExt]; lnorm
  refine fits_name "extend" true (by decide) (fun _ => rfl) (fits_sp ?_)
  refine fits_name "schema" false (by decide) (by simp) (fits_sp ?_)
  cases hr : s.roots with
  | nil =>
    simp only [cOptRoots, List.isEmpty_nil, if_true, Bool.and_true, List.nil_append]
    exact fits_dirsTightSep s.dirs hdirs sep _ _ (fun _ => gapNext_nl _) (fits_nl h)
  | cons a r =>
    simp only [cOptRoots, cRoots, cBraced, List.isEmpty_cons, Bool.false_eq_true, if_false, Bool.and_false]; lnorm
    refine fits_dirsTightSep s.dirs hdirs false _ _ (by simp) ?_
    refine fits_p "{" false (by decide) (by simp) (fits_nl (fits_ind ?_))
    refine fits_roots (a :: r) (hr ▸ hv) true false _ _ (fits_ded ?_)
    exact fits_p "}" sep (by decide) (fun _ => gapNext_nl _) (fits_nl h)

/-! ### directive definitions -/

def validNameB : List Char → Bool
  | [] => false
  | d :: ds => decide (nameStart d) && ds.all fun x => decide (nameCont x)

theorem validName_of_B {w : List Char} (h : validNameB w = true) : validName w := by
  cases w with
  | nil => cases h
  | cons d ds =>
    simp only [validNameB, Bool.and_eq_true, decide_eq_true_eq, List.all_eq_true] at h
    exact ⟨h.1, h.2⟩

theorem validName_of_locWord {w : List Char} (h : w ∈ locWords) : validName w := by
  have hall : locWords.all validNameB = true := by decide
  exact validName_of_B (List.all_eq_true.mp hall w h)

theorem fits_directiveDef (d : DirectiveDef) (hwf : WFDirectiveDef d) (sep : Bool) (cs : List (List Char × Bool))
    (ts : List Tok) (h : Fits cs ts) : Fits (cDirectiveDef true sep d ++ cs) (printDirectiveDef d ++ ts) := by
  obtain ⟨hn, hargs, _, hloc⟩ := hwf
  simp only [cDirectiveDef, printDirectiveDef]; lnorm
  refine fits_desc d.desc _ _ ?_
  refine fits_name "directive" false (by decide) (by simp) (fits_sp ?_)
  refine fits_p "@" false (by decide) (by simp) ?_
  refine fits_name d.name _ (good_of_validName hn) ?_ ?_
  · intro he
    simp only [List.isEmpty_iff] at he
    rw [he]
    cases d.repeatable <;> rfl
  refine fits_optArgsDef d.args hargs _ _ ?_
  have tail : Fits ((kwOn, true) :: cNamesLd true '|' sep (locNames d) ++ cs)
      (sp :: .name "on" :: (printLocations d.locations ++ nl :: ts)) := by
    refine fits_sp (fits_name "on" true (by decide) ?_ ?_)
    · intro _
      cases d.locations <;> rfl
    have := fits_namesLd '|' "|" rfl (by decide) (locNames d)
      (by
        intro x hx
        simp only [locNames, List.mem_map] at hx
        obtain ⟨l, hl, rfl⟩ := hx
        exact validName_of_locWord (hloc l hl))
      sep cs (nl :: ts) (fun _ => gapNext_nl _) (fits_nl h)
    simpa [printLocations, locNames, List.flatMap_map] using this
  cases d.repeatable with
  | false => simpa [cOptRep] using tail
  | true =>
    simp only [cOptRep, if_true]; lnorm
    exact fits_sp (fits_name "repeatable" true (by decide) (fun _ => rfl) tail)

/-! ### items and documents -/

/-- the item is one whose printed form the grammar can read back (only union extensions without members are not) -/
def itemOK : TsItem → Bool
  | .typeExt t => extOK t
  | _ => true

theorem fits_tsItem (it : TsItem) (hwf : WFTsItem it) (hok : itemOK it = true) (sep : Bool) (cs : List (List Char × Bool))
    (ts : List Tok) (h : Fits cs ts) : Fits (cTsItem true sep it ++ cs) (printTsItem it ++ ts) := by
  cases it with
  | typeDef t => exact fits_typeDef t hwf sep cs ts h
  | schemaDef s => exact fits_schemaDef s hwf sep cs ts h
  | directiveDef d => exact fits_directiveDef d hwf sep cs ts h
  | schemaExt s => exact fits_schemaExt s hwf sep cs ts h
  | typeExt t => exact fits_typeExt t hwf hok sep cs ts h

theorem fits_tsDoc : ∀ (doc : List TsItem), (∀ d ∈ doc, WFTsItem d) → (∀ d ∈ doc, itemOK d = true) →
    Fits (cTsDoc true doc) (printTsDoc doc) := by
  intro doc
  induction doc with
  | nil => intro _ _; exact fits_nil
  | cons d ds ih =>
    intro hwf hok
    have := fits_tsItem d (hwf d (by simp)) (hok d (by simp)) (if ds.isEmpty then false else true) _ _
      (ih (fun x hx => hwf x (by simp [hx])) (fun x hx => hok x (by simp [hx])))
    simpa [cTsDoc, cList, printTsDoc] using this

/-- `TypeSystemOrExtensionDocument`: an extra line feed after every definition -/
theorem fits_tsExtDoc : ∀ (doc : List TsItem), (∀ d ∈ doc, WFTsItem d) → (∀ d ∈ doc, itemOK d = true) →
    Fits (cTsDoc true doc) (printTsExtDoc doc) := by
  intro doc
  induction doc with
  | nil => intro _ _; exact fits_nil
  | cons d ds ih =>
    intro hwf hok
    have := fits_tsItem d (hwf d (by simp)) (hok d (by simp)) (if ds.isEmpty then false else true) _ _
      (fits_nl (ih (fun x hx => hwf x (by simp [hx])) (fun x hx => hok x (by simp [hx]))))
    simpa [cTsDoc, cList, printTsExtDoc] using this

end NitroVerif.C16Own
