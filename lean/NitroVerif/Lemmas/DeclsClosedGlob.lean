/-
Binding time (`globalise`) and the body constructions of the declaration printers:
* `globalise` commutes with `tsOf` / `objectBodyL` / `inputBodyL` / `membersBodyL` / `optFieldTy` (the stored body of
  an alias is the body over the globalised leaves);
* `globalise` leaves a type unchanged when none of its free names is bound (configured scalar texts);
* membership in a type without absolute references does not depend on the declaration table.
-/
import NitroVerif.Model.SchemaDecls
import NitroVerif.Model.VarTypes
import NitroVerif.Lemmas.DeclsClosedMem
namespace NitroVerif.Ts

/-! ### free names of a type -/

mutual
/-- the names a type mentions as references (`X`) or as heads of qualified references (`X.y.z`) -/
def Ty.freeNames : Ty → List String
  | .ref n => [n]
  | .qref p => match p with | n :: _ => [n] | [] => []
  | .app f as => f.freeNames ++ Ty.freeNamesList as
  | .obj fs => Ty.freeNamesFields fs
  | .arr t => t.freeNames
  | .roArr t => t.freeNames
  | .union ts => Ty.freeNamesList ts
  | .inter ts => Ty.freeNamesList ts
  | .fn ps r => Ty.freeNamesParams ps ++ r.freeNames
  | .index t k => t.freeNames ++ k.freeNames
  | .tuple ts => Ty.freeNamesList ts
  | _ => []
def Ty.freeNamesList : List Ty → List String
  | [] => []
  | t :: ts => t.freeNames ++ Ty.freeNamesList ts
def Ty.freeNamesFields : List (String × Bool × Bool × Ty) → List String
  | [] => []
  | (_, _, _, t) :: fs => t.freeNames ++ Ty.freeNamesFields fs
def Ty.freeNamesParams : List (String × Ty) → List String
  | [] => []
  | (_, t) :: ps => t.freeNames ++ Ty.freeNamesParams ps
end

/-- from `sc`, the name `n` denotes nothing: neither as a type nor as the head of a qualified reference -/
def Unbound (D : Decls) (sc : Scope) (n : String) : Prop :=
  D.resolveRef sc n = none ∧ ∀ r rest, D.resolveQ sc (n :: r :: rest) = none

mutual
theorem globalise_id (D : Decls) (sc : Scope) : ∀ (t : Ty), (∀ n ∈ t.freeNames, Unbound D sc n) →
    globalise D sc [] t = t
  | .ref n, h => by
    have := (h n (by simp [Ty.freeNames])).1
    simp [globalise, this]
  | .qref p, h => by
    cases p with
    | nil => simp [globalise]
    | cons n rest =>
      have hn := h n (by simp [Ty.freeNames])
      cases rest with
      | nil => simp [globalise, Decls.resolveQ, hn.1]
      | cons r rest => simp [globalise, hn.2 r rest]
  | .app f as, h => by
    simp only [globalise]
    rw [globalise_id D sc f (fun n hn => h n (by simp [Ty.freeNames, hn])),
      globaliseList_id D sc as (fun n hn => h n (by simp [Ty.freeNames, hn]))]
  | .obj fs, h => by
    simp only [globalise]
    rw [globaliseFields_id D sc fs (fun n hn => h n (by simp [Ty.freeNames, hn]))]
  | .arr t, h => by
    simp only [globalise]
    rw [globalise_id D sc t (fun n hn => h n (by simp [Ty.freeNames, hn]))]
  | .roArr t, h => by
    simp only [globalise]
    rw [globalise_id D sc t (fun n hn => h n (by simp [Ty.freeNames, hn]))]
  | .union ts, h => by
    simp only [globalise]
    rw [globaliseList_id D sc ts (fun n hn => h n (by simp [Ty.freeNames, hn]))]
  | .inter ts, h => by
    simp only [globalise]
    rw [globaliseList_id D sc ts (fun n hn => h n (by simp [Ty.freeNames, hn]))]
  | .fn ps r, h => by
    simp only [globalise]
    rw [globaliseParams_id D sc ps (fun n hn => h n (by simp [Ty.freeNames, hn])),
      globalise_id D sc r (fun n hn => h n (by simp [Ty.freeNames, hn]))]
  | .index t k, h => by
    simp only [globalise]
    rw [globalise_id D sc t (fun n hn => h n (by simp [Ty.freeNames, hn])),
      globalise_id D sc k (fun n hn => h n (by simp [Ty.freeNames, hn]))]
  | .tuple ts, h => by
    simp only [globalise]
    rw [globaliseList_id D sc ts (fun n hn => h n (by simp [Ty.freeNames, hn]))]
  | .prim _, _ => by simp [globalise]
  | .strLit _, _ => by simp [globalise]
  | .numLit _, _ => by simp [globalise]
  | .other _ _, _ => by simp [globalise]
theorem globaliseList_id (D : Decls) (sc : Scope) : ∀ (ts : List Ty), (∀ n ∈ Ty.freeNamesList ts, Unbound D sc n) →
    globaliseList D sc [] ts = ts
  | [], _ => by simp [globaliseList]
  | t :: ts, h => by
    simp only [globaliseList]
    rw [globalise_id D sc t (fun n hn => h n (by simp [Ty.freeNamesList, hn])),
      globaliseList_id D sc ts (fun n hn => h n (by simp [Ty.freeNamesList, hn]))]
theorem globaliseFields_id (D : Decls) (sc : Scope) : ∀ (fs : List (String × Bool × Bool × Ty)),
    (∀ n ∈ Ty.freeNamesFields fs, Unbound D sc n) → globaliseFields D sc [] fs = fs
  | [], _ => by simp [globaliseFields]
  | (k, r, o, t) :: fs, h => by
    simp only [globaliseFields]
    rw [globalise_id D sc t (fun n hn => h n (by simp [Ty.freeNamesFields, hn])),
      globaliseFields_id D sc fs (fun n hn => h n (by simp [Ty.freeNamesFields, hn]))]
theorem globaliseParams_id (D : Decls) (sc : Scope) : ∀ (ps : List (String × Ty)),
    (∀ n ∈ Ty.freeNamesParams ps, Unbound D sc n) → globaliseParams D sc [] ps = ps
  | [], _ => by simp [globaliseParams]
  | (k, t) :: ps, h => by
    simp only [globaliseParams]
    rw [globalise_id D sc t (fun n hn => h n (by simp [Ty.freeNamesParams, hn])),
      globaliseParams_id D sc ps (fun n hn => h n (by simp [Ty.freeNamesParams, hn]))]
end

/-! ### types without absolute references do not look at the declaration table -/

mutual
/-- no absolute reference on the interpreted spine of the type (what a parser of TypeScript text produces), and every
    application on the spine has a head satisfying `p` (= a head no helper-type hook interprets) -/
def Ty.spine (p : Ty → Bool) : Ty → Bool
  | .other tag _ => tag != "abs"
  | .app f _ => p f
  | .obj fs => Ty.spineFields p fs
  | .arr t => t.spine p
  | .roArr t => t.spine p
  | .union ts => Ty.spineList p ts
  | .inter ts => Ty.spineList p ts
  | _ => true
def Ty.spineList (p : Ty → Bool) : List Ty → Bool
  | [] => true
  | t :: ts => t.spine p && Ty.spineList p ts
def Ty.spineFields (p : Ty → Bool) : List (String × Bool × Bool × Ty) → Bool
  | [] => true
  | (_, _, _, t) :: fs => t.spine p && Ty.spineFields p fs
end

/-- no absolute reference on the interpreted spine -/
def Ty.noAbs (t : Ty) : Bool := t.spine (fun _ => true)

/-- the head of an application is not the helper `Omit` (the only head `Ts.stdHook` interprets) -/
def notOmitHead : Ty → Bool
  | .ref n => n != "Omit"
  | _ => true

/-- no absolute reference and no `Omit<…>` application on the interpreted spine -/
def Ty.noOmit (t : Ty) : Bool := t.spine notOmitHead

section spine
variable {p : Ty → Bool}

theorem spineList_mem : ∀ {ts : List Ty}, Ty.spineList p ts = true → ∀ t ∈ ts, t.spine p = true := by
  intro ts
  induction ts with
  | nil => intro _ t h; cases h
  | cons a r ih =>
    intro h t ht
    simp only [Ty.spineList, Bool.and_eq_true] at h
    rcases List.mem_cons.1 ht with rfl | ht
    · exact h.1
    · exact ih h.2 t ht

theorem spineFields_mem : ∀ {fs : List Field}, Ty.spineFields p fs = true → ∀ f ∈ fs, f.2.2.2.spine p = true := by
  intro fs
  induction fs with
  | nil => intro _ f h; cases h
  | cons a r ih =>
    intro h f hf
    obtain ⟨k, ro, o, t⟩ := a
    simp only [Ty.spineFields, Bool.and_eq_true] at h
    rcases List.mem_cons.1 hf with rfl | hf
    · exact h.1
    · exact ih h.2 f hf

theorem mergeField_spine (f : Field) (hf : f.2.2.2.spine p = true) : ∀ (gs : List Field),
    Ty.spineFields p gs = true → Ty.spineFields p (mergeField f gs) = true := by
  intro gs
  induction gs with
  | nil =>
    intro _
    obtain ⟨k, ro, o, t⟩ := f
    simp only [mergeField, Ty.spineFields, Bool.and_eq_true]; exact ⟨hf, trivial⟩
  | cons g r ih =>
    intro h
    obtain ⟨k', ro', o', t'⟩ := g
    simp only [Ty.spineFields, Bool.and_eq_true] at h
    simp only [mergeField]
    split
    · simp only [Ty.spineFields, Ty.spine, Ty.spineList, Bool.and_eq_true]
      exact ⟨⟨h.1, hf, trivial⟩, h.2⟩
    · simp only [Ty.spineFields, Bool.and_eq_true]
      exact ⟨h.1, ih h.2⟩

theorem mergeFields_spine : ∀ (b a : List Field), Ty.spineFields p a = true → Ty.spineFields p b = true →
    Ty.spineFields p (mergeFields a b) = true := by
  intro b
  induction b with
  | nil => intro a ha _; exact ha
  | cons f r ih =>
    intro a ha hb
    obtain ⟨k, ro, o, t⟩ := f
    simp only [Ty.spineFields, Bool.and_eq_true] at hb
    simp only [mergeFields, List.foldl_cons]
    exact ih _ (mergeField_spine _ hb.1 a ha) hb.2

/-- invariant of an object view: if it is a record, its field types satisfy the spine condition -/
def ObjView.spine (p : Ty → Bool) : ObjView → Prop
  | .isObj fs => Ty.spineFields p fs = true
  | _ => True

theorem ObjView.merge_spine {a b : ObjView} (ha : a.spine p) (hb : b.spine p) : (a.merge b).spine p := by
  cases a <;> cases b <;> simp_all [ObjView.merge, ObjView.spine]
  exact mergeFields_spine _ _ ha hb

theorem foldl_merge_spine {α : Type} (f : α → ObjView) : ∀ (l : List α) (a : ObjView), a.spine p →
    (∀ t ∈ l, (f t).spine p) → (l.foldl (fun acc t => acc.merge (f t)) a).spine p := by
  intro l
  induction l with
  | nil => intro a ha _; exact ha
  | cons x r ih =>
    intro a ha h
    simp only [List.foldl_cons]
    exact ih _ (ObjView.merge_spine ha (h x List.mem_cons_self)) (fun t ht => h t (List.mem_cons_of_mem _ ht))

variable {e1 e2 : Env} (h1 : ∀ d f as, p f = true → e1.appHook d f as = none)
  (h2 : ∀ d f as, p f = true → e2.appHook d f as = none)
include h1 h2

theorem objView_indep : ∀ (n : Nat) (t : Ty), t.spine p = true →
    objView e1 n t = objView e2 n t ∧ (objView e1 n t).spine p := by
  intro n
  induction n with
  | zero => intro t _; simp [objView, ObjView.spine]
  | succ n ih =>
    intro t ht
    cases t with
    | obj fs => simp only [objView, ObjView.spine, true_and]; simpa [Ty.spine] using ht
    | other tag path =>
      have : tag ≠ "abs" := by simpa [Ty.spine] using ht
      simp [objView, this, ObjView.spine]
    | app f as =>
      have hp : p f = true := by simpa [Ty.spine] using ht
      simp [objView, h1 _ f as hp, h2 _ f as hp, ObjView.spine]
    | inter ts =>
      cases ts with
      | nil => simp [objView, ObjView.spine]
      | cons t0 rest =>
        have hts : Ty.spineList p (t0 :: rest) = true := by simpa [Ty.spine] using ht
        have h0 := ih t0 (spineList_mem hts t0 List.mem_cons_self)
        have hr : ∀ t ∈ rest, objView e1 n t = objView e2 n t ∧ (objView e1 n t).spine p :=
          fun t htm => ih t (spineList_mem hts t (List.mem_cons_of_mem _ htm))
        rw [objView_inter_cons, objView_inter_cons, ← h0.1]
        exact ⟨foldl_merge_congr _ _ _ _ (fun t htm => (hr t htm).1),
          foldl_merge_spine _ _ _ h0.2 (fun t htm => (hr t htm).2)⟩
    | prim _ => simp [objView, ObjView.spine]
    | ref _ => simp [objView, ObjView.spine]
    | qref _ => simp [objView, ObjView.spine]
    | strLit _ => simp [objView, ObjView.spine]
    | numLit _ => simp [objView, ObjView.spine]
    | arr _ => simp [objView, ObjView.spine]
    | roArr _ => simp [objView, ObjView.spine]
    | union _ => simp [objView, ObjView.spine]
    | fn _ _ => simp [objView, ObjView.spine]
    | index _ _ => simp [objView, ObjView.spine]
    | tuple _ => simp [objView, ObjView.spine]

theorem isOpaque_indep (t : Ty) (ht : t.spine p = true) : t.isOpaque e1 = t.isOpaque e2 := by
  cases t with
  | other tag path =>
    have : tag ≠ "abs" := by simpa [Ty.spine] using ht
    simp [Ty.isOpaque, this]
  | app f as =>
    have hp : p f = true := by simpa [Ty.spine] using ht
    simp [Ty.isOpaque, h1 _ f as hp, h2 _ f as hp]
  | _ => simp [Ty.isOpaque]

/-- membership in a type satisfying the spine condition is the same in every table whose hooks ignore heads with `p` -/
theorem mem_indep_aux {v : J} {t : Ty} (hm : Mem e1 v t) : t.spine p = true → Mem e2 v t := by
  induction hm with
  | prim q v hp => intro _; exact .prim q v hp
  | strLit s => intro _; exact .strLit s
  | obj kvs fs _ hk ih =>
    intro ht
    have hfs : Ty.spineFields p fs = true := by simpa [Ty.spine] using ht
    exact .obj kvs fs (fun f hf hne => ih f hf hne (spineFields_mem hfs f hf)) hk
  | arr xs t _ ih => intro ht; exact .arr xs t (fun x hx => ih x hx (by simpa [Ty.spine] using ht))
  | roArr xs t _ ih => intro ht; exact .roArr xs t (fun x hx => ih x hx (by simpa [Ty.spine] using ht))
  | union v ts t htm _ ih =>
    intro ht
    exact .union v ts t htm (ih (spineList_mem (by simpa [Ty.spine] using ht) t htm))
  | interObj v ts fs n hv _ ih =>
    intro ht
    obtain ⟨he, hna⟩ := objView_indep h1 h2 n (.inter ts) ht
    rw [hv] at he hna
    exact .interObj v ts fs n he.symm (ih (by simpa [Ty.spine, ObjView.spine] using hna))
  | interAll v ts n hv _ ih =>
    intro ht
    obtain ⟨he, _⟩ := objView_indep h1 h2 n (.inter ts) ht
    rw [hv] at he
    exact .interAll v ts n he.symm (fun t htm => ih t htm (spineList_mem (by simpa [Ty.spine] using ht) t htm))
  | alias v path body _ _ _ => intro ht; simp [Ty.spine] at ht
  | hook v f as t' hh _ _ =>
    intro ht
    have hp : p f = true := by simpa [Ty.spine] using ht
    rw [h1 _ f as hp] at hh; cases hh
  | opaqueTy t ho =>
    intro ht
    exact .opaqueTy t (by rw [← isOpaque_indep h1 h2 t ht]; exact ho)

end spine

theorem mem_indep_spine {p : Ty → Bool} {e1 e2 : Env} (h1 : ∀ d f as, p f = true → e1.appHook d f as = none)
    (h2 : ∀ d f as, p f = true → e2.appHook d f as = none) {v : J} {t : Ty} (ht : t.spine p = true) :
    Mem e1 v t ↔ Mem e2 v t :=
  ⟨fun h => mem_indep_aux h1 h2 h ht, fun h => mem_indep_aux h2 h1 h ht⟩

/-- without helper-type hooks: membership in a type without absolute references is the same in every table -/
theorem mem_indep {e1 e2 : Env} (h1 : ∀ d f as, e1.appHook d f as = none) (h2 : ∀ d f as, e2.appHook d f as = none)
    {v : J} {t : Ty} (ht : t.noAbs = true) : Mem e1 v t ↔ Mem e2 v t :=
  mem_indep_spine (p := fun _ => true) (fun d f as _ => h1 d f as) (fun d f as _ => h2 d f as) ht

theorem stdHook_none {d : Decls} {f : Ty} {as : List Ty} (hf : notOmitHead f = true) : stdHook d f as = none := by
  unfold stdHook
  split
  · simp [notOmitHead] at hf
  · rfl

/-- with the standard helper types installed (`Omit`): the same, for types that do not apply `Omit` on their spine -/
theorem mem_indep_std {e1 e2 : Env} (h2 : ∀ d f as, e2.appHook d f as = none)
    {v : J} {t : Ty} (ht : t.noOmit = true) : Mem e1.withStd v t ↔ Mem e2 v t :=
  mem_indep_spine (p := notOmitHead) (fun _ _ _ hf => stdHook_none hf) (fun d f as _ => h2 d f as) ht

end NitroVerif.Ts

/-! ### `globalise` commutes with the body constructions -/

namespace NitroVerif.SchemaDecls
open NitroVerif.Gql NitroVerif.Ts NitroVerif.DeclCfg

variable (D : Decls) (sc : Scope)

theorem globalise_tsCore (L : Name → Ty) (ro : Bool) (ty : GType) :
    globalise D sc [] (tsCore L ro ty) = tsCore (fun n => globalise D sc [] (L n)) ro ty := by
  induction ty with
  | named n p => simp [tsCore]
  | nonNull t ih => simpa [tsCore] using ih
  | list t p ih =>
    cases ro <;> cases hnn : t.isNonNull <;> simp [tsCore, hnn, globalise, globaliseList, ih]

theorem globalise_tsOf (L : Name → Ty) (ro : Bool) (ty : GType) :
    globalise D sc [] (tsOf L ro ty) = tsOf (fun n => globalise D sc [] (L n)) ro ty := by
  unfold tsOf
  cases ty.isNonNull <;> simp [globalise, globaliseList, globalise_tsCore]

theorem globalise_optFieldTy (L : Name → Ty) (ro o : Bool) (ty : GType) :
    globalise D sc [] (optFieldTy L ro o ty) = optFieldTy (fun n => globalise D sc [] (L n)) ro o ty := by
  unfold optFieldTy
  cases o <;> simp [globalise, globaliseList, globalise_tsCore, globalise_tsOf]

theorem globaliseList_map {α : Type} (l : List α) (f : α → Ty) :
    globaliseList D sc [] (l.map f) = l.map fun a => globalise D sc [] (f a) := by
  induction l with
  | nil => simp [globaliseList]
  | cons a r ih => simp [globaliseList, ih]

theorem globaliseFields_map {α : Type} (l : List α) (k : α → String) (r o : α → Bool) (f : α → Ty) :
    globaliseFields D sc [] (l.map fun a => (k a, r a, o a, f a))
      = l.map fun a => (k a, r a, o a, globalise D sc [] (f a)) := by
  induction l with
  | nil => simp [globaliseFields]
  | cons a rest ih => simp [globaliseFields, ih]

theorem globalise_tsUnion (ts : List Ty) :
    globalise D sc [] (tsUnion ts) = tsUnion (globaliseList D sc [] ts) := by
  match ts with
  | [] => simp [tsUnion, globalise, globaliseList]
  | [a] => simp [tsUnion, globaliseList]
  | a :: b :: r => simp [tsUnion, globalise, globaliseList]

theorem globalise_objectBodyL (L : Name → Ty) (td : TypeDef) :
    globalise D sc [] (objectBodyL L td) = objectBodyL (fun n => globalise D sc [] (L n)) td := by
  simp only [objectBodyL, globalise, globaliseFields]
  rw [globaliseFields_map D sc td.fields (fun f => f.name) (fun _ => false) (fun _ => false)]
  simp [globalise_tsOf]

theorem globalise_inputBodyL (L : Name → Ty) (opt : Bool) (td : TypeDef) :
    globalise D sc [] (inputBodyL L opt td) = inputBodyL (fun n => globalise D sc [] (L n)) opt td := by
  simp only [inputBodyL, globalise]
  have : (td.inputs.map (inputFieldL L opt)) = td.inputs.map fun f =>
      (f.name, true, opt && !f.ty.isNonNull, optFieldTy L true (opt && !f.ty.isNonNull) f.ty) := by
    apply List.map_congr_left; intro f _; rfl
  rw [this, globaliseFields_map D sc td.inputs (fun f => f.name) (fun _ => true) (fun f => opt && !f.ty.isNonNull)]
  congr 1
  apply List.map_congr_left
  intro f _
  simp [inputFieldL, globalise_optFieldTy]

theorem globalise_membersBodyL (L : Name → Ty) (names : List Name) :
    globalise D sc [] (membersBodyL L names) = membersBodyL (fun n => globalise D sc [] (L n)) names := by
  simp only [membersBodyL, globalise_tsUnion, globaliseList_map]

theorem globalise_enumBody (td : TypeDef) : globalise D sc [] (enumBody td) = enumBody td := by
  simp only [enumBody, globalise_tsUnion, globaliseList_map, globalise]

open NitroVerif.VarTypes in
theorem globalise_varsTsL (L : Name → Ty) (opt : Bool) (vars : List VarDef) :
    globalise D sc [] (varsTsL L opt vars) = varsTsL (fun n => globalise D sc [] (L n)) opt vars := by
  simp only [varsTsL, globalise]
  have : (vars.map (varFieldL L opt)) = vars.map fun d =>
      (d.name, true, !d.ty.isNonNull && opt, optFieldTy L false (!d.ty.isNonNull && opt) d.ty) := by
    apply List.map_congr_left; intro f _; rfl
  rw [this, globaliseFields_map D sc vars (fun d => d.name) (fun _ => true) (fun d => !d.ty.isNonNull && opt)]
  congr 1
  apply List.map_congr_left
  intro f _
  simp [varFieldL, globalise_optFieldTy]

end NitroVerif.SchemaDecls
