/-
C08 (stages after parsing), part: the loader ABI.  Exactly when a call of the loader's exported functions traps.

`callQuiet`    — a call on a live instance whose tasks hold their root documents, with an emitter that does not trap:
                 the instance stays alive, the response is not a trap, and either the response is one of the three that
                 do not write RESULT (`taskId`, `loaded`, `freed`) and RESULT is unchanged, or RESULT holds a value.
`step_trap_iff`— on such an instance the ONLY trapping operation is `get_result_*` while RESULT is still empty.
`run_trap_iff` — along any history from the initial instance: some response is a trap iff the history contains a
                 `get_result_*` at a moment when every earlier response was `taskId` / `loaded` / `freed`.
-/
import NitroVerif.Lemmas.Loader
namespace NitroVerif.Loader
variable {P S J : Type} [DecidableEq P]

/-- the responses of the calls that leave the RESULT cell alone -/
def Resp.silent : Resp P J → Bool
  | .taskId _ => true
  | .loaded => true
  | .freed => true
  | _ => false

theorem callQuiet (env : Env P S J) (he : EmitTotal env) (σ : St P S J) (hd : σ.dead = false) (hr : RootOk σ)
    (c : Call P S) :
    (step env σ (.call c)).1.dead = false ∧ (step env σ (.call c)).2 ≠ .trap ∧
    (((step env σ (.call c)).2.silent = true ∧ (step env σ (.call c)).1.result = σ.result) ∨
     ((step env σ (.call c)).2.silent = false ∧ (step env σ (.call c)).1.result ≠ none)) := by
  cases c with
  | initiate f s =>
    cases hp : env.parse s with
    | error c => rw [step_initiate_err env hd hp]; simp [hd, Resp.silent]
    | ok imps => rw [step_initiate_ok env hd hp]; simp [hd, Resp.silent]
  | required t =>
    cases hl : lookup σ.tasks t with
    | none => rw [step_required_none env hd hl]; simp [hd, Resp.silent]
    | some T => rw [step_required_some env hd hl]; simp [hd, Resp.silent]
  | load t f s =>
    cases hl : lookup σ.tasks t with
    | none => rw [step_load_none env hd hl]; simp [hd, Resp.silent]
    | some T =>
      cases hp : env.parse s with
      | error c => rw [step_load_err env hd hl f hp]; simp [hd, Resp.silent]
      | ok imps => rw [step_load_ok env hd hl f hp]; simp [hd, Resp.silent]
  | emit t =>
    cases hl : lookup σ.tasks t with
    | none => rw [step_emit_none env hd hl]; simp [hd, Resp.silent]
    | some T =>
      cases hroot : lookup T.files T.root with
      | none => exact absurd hroot (hr t T hl)
      | some d =>
        rw [step_emit_some env hd hl hroot]
        cases hem : env.emit T.root (lookup T.files) with
        | js j => simp [hd, Resp.silent]
        | err c => simp [hd, Resp.silent]
        | trap => exact absurd hem (he _ _)
  | free t =>
    cases hl : lookup σ.tasks t with
    | none => rw [step_free_none env hd hl]; simp [hd, Resp.silent]
    | some T => rw [step_free_some env hd hl]; simp [hd, Resp.silent]

theorem step_getResult (env : Env P S J) (σ : St P S J) (hd : σ.dead = false) :
    step env σ .getResult = (match σ.result with
      | none => ({ σ with dead := true }, .trap)
      | some r => (σ, .result r)) := by
  simp only [step, hd, Bool.false_eq_true, if_false]
  cases σ.result <;> rfl

/-- on a live instance the only trapping operation is reading RESULT while it is empty; the instance dies exactly then -/
theorem step_trap_iff (env : Env P S J) (he : EmitTotal env) (σ : St P S J) (hd : σ.dead = false) (hr : RootOk σ)
    (op : Op P S) :
    ((step env σ op).2 = .trap ↔ (op = .getResult ∧ σ.result = none)) ∧
    ((step env σ op).1.dead = true ↔ (op = .getResult ∧ σ.result = none)) := by
  cases op with
  | call c =>
    obtain ⟨h1, h2, _⟩ := callQuiet env he σ hd hr c
    constructor
    · exact ⟨fun h => absurd h h2, fun h => by cases h.1⟩
    · constructor
      · intro h; rw [h1] at h; cases h
      · intro h; cases h.1
  | getResult =>
    rw [step_getResult env σ hd]
    cases hres : σ.result with
    | none => simp
    | some r => simp [hd]

/-- "no RESULT yet" along a history: every response so far was silent -/
theorem run_result_none (env : Env P S J) (he : EmitTotal env) : ∀ (h : List (Op P S)) (σ : St P S J),
    σ.dead = false → RootOk σ → σ.result = none → (runSt env σ h).dead = false →
    ((runSt env σ h).result = none ↔ ∀ r ∈ runResps env σ h, Resp.silent r = true) := by
  intro h
  induction h with
  | nil => intro σ _ _ hres _; simp [runSt, runResps, hres]
  | cons op h ih =>
    intro σ hd hr hres halive
    simp only [runSt, runResps, List.mem_cons, forall_eq_or_imp] at halive ⊢
    cases op with
    | getResult =>
      -- reading the empty cell kills the instance: contradiction with `halive`
      exfalso
      have : (step env σ .getResult).1.dead = true := ((step_trap_iff env he σ hd hr .getResult).2).2 ⟨rfl, hres⟩
      have hdead : ∀ (h : List (Op P S)) (τ : St P S J), τ.dead = true → (runSt env τ h).dead = true := by
        intro h
        induction h with
        | nil => intro τ ht; exact ht
        | cons o h ih2 => intro τ ht; simp only [runSt]; rw [step_dead env τ o ht]; exact ih2 τ ht
      rw [hdead h _ this] at halive; cases halive
    | call c =>
      obtain ⟨h1, _, h3⟩ := callQuiet env he σ hd hr c
      have hr' := step_rootOk env σ (.call c) hr
      rcases h3 with ⟨hs, hsame⟩ | ⟨hs, hne⟩
      · rw [ih _ h1 hr' (by rw [hsame]; exact hres) halive]
        simp [hs]
      · constructor
        · intro hnone
          exfalso
          -- RESULT, once written, is never emptied
          have hkeep : ∀ (h : List (Op P S)) (τ : St P S J), τ.result ≠ none → (runSt env τ h).result ≠ none := by
            intro h
            induction h with
            | nil => intro τ ht; exact ht
            | cons o h ih2 =>
              intro τ ht
              simp only [runSt]
              apply ih2
              cases hdτ : τ.dead with
              | true => rw [step_dead env τ o hdτ]; exact ht
              | false =>
                cases o with
                | getResult =>
                  rw [step_getResult env τ hdτ]
                  cases hres' : τ.result with
                  | none => exact absurd hres' ht
                  | some r => simp [hres']
                | call c' =>
                  cases c' with
                  | initiate f s =>
                    cases hp : env.parse s with
                    | error c => rw [step_initiate_err env hdτ hp]; simp
                    | ok imps => rw [step_initiate_ok env hdτ hp]; exact ht
                  | required t =>
                    cases hl : lookup τ.tasks t with
                    | none => rw [step_required_none env hdτ hl]; simp
                    | some T => rw [step_required_some env hdτ hl]; simp
                  | load t f s =>
                    cases hl : lookup τ.tasks t with
                    | none => rw [step_load_none env hdτ hl]; simp
                    | some T =>
                      cases hp : env.parse s with
                      | error c => rw [step_load_err env hdτ hl f hp]; simp
                      | ok imps => rw [step_load_ok env hdτ hl f hp]; exact ht
                  | emit t =>
                    cases hl : lookup τ.tasks t with
                    | none => rw [step_emit_none env hdτ hl]; simp
                    | some T =>
                      cases hroot : lookup T.files T.root with
                      | none => simp only [step, hdτ, stepCall, hl, hroot]; exact ht
                      | some d =>
                        rw [step_emit_some env hdτ hl hroot]
                        cases env.emit T.root (lookup T.files) <;> simp [ht]
                  | free t =>
                    cases hl : lookup τ.tasks t with
                    | none => rw [step_free_none env hdτ hl]; exact ht
                    | some T => rw [step_free_some env hdτ hl]; exact ht
          exact hkeep h _ hne hnone
        · intro hall
          rw [hall.1] at hs; cases hs

theorem runSt_dead (env : Env P S J) : ∀ (h : List (Op P S)) (τ : St P S J), τ.dead = true → (runSt env τ h).dead = true := by
  intro h
  induction h with
  | nil => intro τ ht; exact ht
  | cons o h ih => intro τ ht; simp only [runSt]; rw [step_dead env τ o ht]; exact ih τ ht

theorem runResps_append (env : Env P S J) : ∀ (h1 h2 : List (Op P S)) (σ : St P S J),
    runResps env σ (h1 ++ h2) = runResps env σ h1 ++ runResps env (runSt env σ h1) h2 := by
  intro h1
  induction h1 with
  | nil => intro h2 σ; rfl
  | cons o h1 ih => intro h2 σ; simp only [List.cons_append, runResps, runSt, ih]

/-- a history answers without a trap iff it keeps the instance alive -/
theorem run_alive_iff (env : Env P S J) (he : EmitTotal env) : ∀ (h : List (Op P S)) (σ : St P S J),
    σ.dead = false → RootOk σ → ((∀ r ∈ runResps env σ h, r ≠ .trap) ↔ (runSt env σ h).dead = false) := by
  intro h
  induction h with
  | nil => intro σ hd _; simp [runResps, runSt, hd]
  | cons op h ih =>
    intro σ hd hr
    simp only [runResps, runSt, List.mem_cons, forall_eq_or_imp]
    obtain ⟨t1, t2⟩ := step_trap_iff env he σ hd hr op
    by_cases hm : op = .getResult ∧ σ.result = none
    · have hdead := t2.2 hm
      constructor
      · intro h'; exact absurd (t1.2 hm) h'.1
      · intro h'; rw [runSt_dead env h _ hdead] at h'; cases h'
    · have halive : (step env σ op).1.dead = false := by
        cases hx : (step env σ op).1.dead with
        | false => rfl
        | true => exact absurd (t2.1 hx) hm
      have hnt : (step env σ op).2 ≠ .trap := fun hx => hm (t1.1 hx)
      rw [ih _ halive (step_rootOk env σ op hr)]
      exact ⟨fun h' => h'.2, fun h' => ⟨hnt, h'⟩⟩

/-- **Exactly when the loader traps.** Along any history of ABI calls from the initial instance (any ids, any sources,
    `get_result_*` anywhere), with an emitter that does not trap: some response is a trap iff the history contains a
    `get_result_ptr` / `get_result_size` at a moment when no call has written RESULT yet — i.e. every earlier response
    was a task id, `true` from `load_file`, or the return of `free_task`. -/
theorem run_trap_iff (env : Env P S J) (he : EmitTotal env) (h : List (Op P S)) :
    (∃ r ∈ runResps env init h, r = .trap) ↔
      ∃ h1 h2, h = h1 ++ .getResult :: h2 ∧ ∀ r ∈ runResps env init h1, Resp.silent r = true := by
  constructor
  · rintro ⟨r, hr, rfl⟩
    -- the first trap
    have key : ∀ (h : List (Op P S)) (σ : St P S J), σ.dead = false → RootOk σ → Resp.trap ∈ runResps env σ h →
        ∃ h1 h2, h = h1 ++ .getResult :: h2 ∧ (runSt env σ h1).dead = false ∧ (runSt env σ h1).result = none := by
      intro h
      induction h with
      | nil => intro σ _ _ hm; cases hm
      | cons op h ih =>
        intro σ hd hro hm
        obtain ⟨t1, t2⟩ := step_trap_iff env he σ hd hro op
        by_cases hmis : op = .getResult ∧ σ.result = none
        · exact ⟨[], h, by rw [hmis.1]; rfl, hd, hmis.2⟩
        · have halive : (step env σ op).1.dead = false := by
            cases hx : (step env σ op).1.dead with
            | false => rfl
            | true => exact absurd (t2.1 hx) hmis
          simp only [runResps, List.mem_cons] at hm
          rcases hm with hm | hm
          · exact absurd (t1.1 hm.symm) hmis
          · obtain ⟨h1, h2, e, a, b⟩ := ih _ halive (step_rootOk env σ op hro) hm
            exact ⟨op :: h1, h2, by rw [e]; rfl, a, b⟩
    obtain ⟨h1, h2, e, a, b⟩ := key h init rfl rootOk_init hr
    exact ⟨h1, h2, e, (run_result_none env he h1 init rfl rootOk_init rfl a).1 b⟩
  · rintro ⟨h1, h2, rfl, hs⟩
    rw [runResps_append]
    by_cases halive : (runSt env init h1).dead = false
    · have hnone := (run_result_none env he h1 init rfl rootOk_init rfl halive).2 hs
      refine ⟨.trap, List.mem_append_right _ ?_, rfl⟩
      simp only [runResps]
      have hro := (run_inv env h1 init keysLt_init rootOk_init (parsedOk_init env)).2.1
      rw [((step_trap_iff env he _ halive hro .getResult).1).2 ⟨rfl, hnone⟩]
      exact List.mem_cons_self
    · have hdead : (runSt env init h1).dead = true := by
        cases hx : (runSt env init h1).dead with
        | true => rfl
        | false => exact absurd hx halive
      refine ⟨.trap, List.mem_append_right _ ?_, rfl⟩
      simp only [runResps]
      rw [step_dead env _ _ hdead]
      exact List.mem_cons_self

end NitroVerif.Loader
