/-
C08 (stages after parsing), the operation type printer: the two fuels of the model only ever turn "out of fuel" into a
result — they never change a result and never turn one panic into another.

`Ref r r'` ("`r'` refines `r`"): `r` is the out-of-fuel value, or `r = r'`.  Every function of `Model/OpTypes.lean` that
takes a fuel is monotone in it in this sense (`boolVarsGo`, `mergeTrees`, `implTree` / `fieldsFor`, in both fuels at
once): `ref_implTree`.  Consequence (`implTree_ok_or_outOfFuel`): if SOME pair of larger fuels yields a tree, then at the
given fuels the result is that tree or out-of-fuel — never one of the three panics of the Rust code.
-/
import NitroVerif.Lemmas.OpTypesRefMain
namespace NitroVerif.Stages
open NitroVerif.Gql NitroVerif.OpTypes NitroVerif.OpTypes.Ref

def Ref {α : Type} (r r' : Except Panic α) : Prop := r = .error .outOfFuel ∨ r = r'

theorem ref_refl {α : Type} (r : Except Panic α) : Ref r r := Or.inr rfl

theorem ref_oof {α : Type} (r' : Except Panic α) : Ref (.error .outOfFuel) r' := Or.inl rfl

theorem ref_bind {α β : Type} {a a' : Except Panic α} {g g' : α → Except Panic β} (ha : Ref a a')
    (hg : ∀ x, Ref (g x) (g' x)) : Ref (a >>= g) (a' >>= g') := by
  rcases ha with ha | ha
  · left; rw [ha]; rfl
  · subst ha
    cases a with
    | error e => right; rfl
    | ok x => exact hg x

theorem ref_map {α β : Type} {a a' : Except Panic α} (h : α → β) (ha : Ref a a') : Ref (a.map h) (a'.map h) := by
  rcases ha with ha | ha
  · left; rw [ha]; rfl
  · right; rw [ha]

theorem ref_mapM {α β : Type} {f f' : α → Except Panic β} : ∀ (l : List α), (∀ x ∈ l, Ref (f x) (f' x)) →
    Ref (l.mapM f) (l.mapM f')
  | [], _ => by simp only [List.mapM_nil]; exact ref_refl _
  | a :: l, h => by
    simp only [List.mapM_cons]
    refine ref_bind (h a (by simp)) (fun b => ?_)
    refine ref_bind (ref_mapM l (fun x hx => h x (List.mem_cons_of_mem _ hx))) (fun r => ref_refl _)

theorem ref_filterMapM {α β : Type} {f f' : α → Except Panic (Option β)} : ∀ (l : List α),
    (∀ x ∈ l, Ref (f x) (f' x)) → Ref (l.filterMapM f) (l.filterMapM f')
  | [], _ => by simp only [List.filterMapM_nil]; exact ref_refl _
  | a :: l, h => by
    simp only [List.filterMapM_cons]
    refine ref_bind (h a (by simp)) (fun b => ?_)
    have ih := ref_filterMapM l (fun x hx => h x (List.mem_cons_of_mem _ hx))
    cases b with
    | none => exact ih
    | some b => exact ref_bind ih (fun r => ref_refl _)

/-! ### `get_boolean_variables` -/

theorem ref_boolVarsGo (F : Frags) : ∀ (n n' : Nat), n ≤ n' → ∀ (L : List Selection) (seen acc : List Name),
    Ref (boolVarsGo F n L seen acc) (boolVarsGo F n' L seen acc) := by
  intro n
  induction n with
  | zero =>
    intro n' _ L seen acc
    cases L with
    | nil => cases n' <;> exact ref_refl _
    | cons s rest => exact ref_oof _
  | succ n ih =>
    intro n' hn L seen acc
    obtain ⟨m, rfl⟩ : ∃ m, n' = m + 1 := ⟨n' - 1, by omega⟩
    have hm : n ≤ m := by omega
    cases L with
    | nil => exact ref_refl _
    | cons s rest =>
      cases s with
      | field a nm p args ds sub => simp only [boolVarsGo]; exact ih m hm _ _ _
      | inline cond ds ss p => simp only [boolVarsGo]; exact ih m hm _ _ _
      | spread nm np ds p =>
        simp only [boolVarsGo]
        split
        · exact ih m hm _ _ _
        · split
          · exact ref_refl _
          · exact ih m hm _ _ _

theorem ref_boolVars (F : Frags) {n n' : Nat} (h : n ≤ n') (ss : List Selection) :
    Ref (boolVars F n ss) (boolVars F n' ss) := by
  unfold boolVars
  exact ref_map _ (ref_boolVarsGo F n n' h ss [] [])

theorem ref_branchConds (S : Schema) (F : Frags) {n n' : Nat} (h : n ≤ n') (ss : List Selection) (p : Name) :
    Ref (branchConds S F n ss p) (branchConds S F n' ss p) := by
  unfold branchConds
  refine ref_bind (ref_refl _) (fun objs => ?_)
  exact ref_bind (ref_boolVars F h ss) (fun vars => ref_refl _)

/-! ### merging -/

section
variable {mt mt' : SelTree → SelTree → Except Panic SelTree} (hmt : ∀ a b, Ref (mt a b) (mt' a b))
include hmt

theorem ref_mergeFieldsWith (f g : SField) : Ref (mergeFieldsWith mt f g) (mergeFieldsWith mt' f g) := by
  cases f <;> cases g <;> simp only [mergeFieldsWith] <;> first
    | exact ref_refl _
    | exact ref_bind (hmt _ _) (fun t => ref_refl _)

theorem ref_mergeInto (f : SField) : ∀ (acc : List SField), Ref (mergeInto mt f acc) (mergeInto mt' f acc)
  | [] => ref_refl _
  | g :: gs => by
    simp only [mergeInto]
    split
    · exact ref_bind (ref_mergeFieldsWith hmt g f) (fun x => ref_refl _)
    · exact ref_bind (ref_mergeInto f gs) (fun x => ref_refl _)

theorem ref_deepMergeGo : ∀ (fs acc : List SField), Ref (deepMergeGo mt fs acc) (deepMergeGo mt' fs acc)
  | [], _ => ref_refl _
  | f :: fs, acc => by
    simp only [deepMergeGo]
    split
    · exact ref_bind (ref_mergeInto hmt f acc) (fun x => ref_deepMergeGo fs x)
    · exact ref_deepMergeGo fs _

theorem ref_deepMergeWith (fs : List SField) : Ref (deepMergeWith mt fs) (deepMergeWith mt' fs) :=
  ref_deepMergeGo hmt fs []

theorem ref_mergeBranchesWith (l r : List Branch) : Ref (mergeBranchesWith mt l r) (mergeBranchesWith mt' l r) := by
  unfold mergeBranchesWith
  refine ref_bind (ref_mapM l (fun lb _ => ?_)) (fun merged => ref_refl _)
  dsimp only
  split
  · exact ref_refl _
  · refine ref_filterMapM _ (fun rb _ => ?_)
    split
    · exact ref_refl _
    · refine ref_bind (ref_deepMergeWith hmt _) (fun u => ?_)
      exact ref_bind (ref_deepMergeWith hmt _) (fun a => ref_refl _)

end

theorem ref_mergeTrees : ∀ (n n' : Nat), n ≤ n' → ∀ (l r : SelTree), Ref (mergeTrees n l r) (mergeTrees n' l r) := by
  intro n
  induction n with
  | zero => intro n' _ l r; cases l <;> cases r <;> exact ref_oof _
  | succ n ih =>
    intro n' hn l r
    obtain ⟨m, rfl⟩ : ∃ m, n' = m + 1 := ⟨n' - 1, by omega⟩
    have hm : n ≤ m := by omega
    cases l <;> cases r <;> simp only [mergeTrees] <;> first
      | exact ref_refl _
      | exact ref_bind (ih m hm _ _) (fun t => ref_refl _)
      | exact ref_bind (ref_mergeBranchesWith (fun a b => ih m hm a b) _ _) (fun t => ref_refl _)

theorem ref_deepMerge {n n' : Nat} (h : n ≤ n') (fs : List SField) : Ref (deepMerge n fs) (deepMerge n' fs) :=
  ref_deepMergeWith (fun a b => ref_mergeTrees n n' h a b) fs

/-! ### selection set ↦ tree -/

theorem ref_wrapTree {mk mk' : Name → Except Panic (List Branch)} (h : ∀ n, Ref (mk n) (mk' n)) :
    ∀ (ty : GType), Ref (wrapTree mk ty) (wrapTree mk' ty)
  | .named n _ => by simp only [wrapTree]; exact ref_bind (h n) (fun b => ref_refl _)
  | .list t _ => by simp only [wrapTree]; exact ref_bind (ref_wrapTree h t) (fun b => ref_refl _)
  | .nonNull t => by simp only [wrapTree]; exact ref_bind (ref_wrapTree h t) (fun b => ref_refl _)

theorem ref_fieldTree (obj : TypeDef) (key name : Name) (skipped : Bool) (sub : Option (List Selection))
    {rec rec' : GType → List Selection → Except Panic SelTree} (h : ∀ ty ss, Ref (rec ty ss) (rec' ty ss)) :
    Ref (fieldTree obj key name skipped sub rec) (fieldTree obj key name skipped sub rec') := by
  unfold fieldTree
  split
  · exact ref_refl _
  · split
    · exact ref_refl _
    · split
      · exact ref_refl _
      · split
        · exact ref_refl _
        · exact ref_bind (h _ _) (fun t => ref_refl _)

theorem ref_simpleOf (obj : TypeDef) (vars : List (Name × Bool))
    {rec rec' : GType → List Selection → Except Panic SelTree} (h : ∀ ty ss, Ref (rec ty ss) (rec' ty ss))
    (s : Selection) : Ref (simpleOf obj vars rec s) (simpleOf obj vars rec' s) := by
  cases s with
  | field alias name p args dirs sub =>
    simp only [simpleOf]
    refine ref_bind (ref_refl _) (fun skipped => ?_)
    exact ref_bind (ref_fieldTree obj _ name skipped sub h) (fun f => ref_refl _)
  | spread => exact ref_refl _
  | inline => exact ref_refl _

theorem ref_fragTail (vars : List (Name × Bool)) (dirs : List Directive)
    {a a' : Except Panic (List Tagged)} (h : Ref a a') :
    Ref (a >>= fun fs => checkSkip vars dirs >>= fun b => if b then .ok (toEmpty fs) else .ok fs)
      (a' >>= fun fs => checkSkip vars dirs >>= fun b => if b then .ok (toEmpty fs) else .ok fs) :=
  ref_bind h (fun fs => ref_refl _)

theorem ref_fragOf (S : Schema) (F : Frags) (cnd : Cond)
    {recF recF' : List Selection → Except Panic (List Tagged)} (h : ∀ ss, Ref (recF ss) (recF' ss)) (s : Selection) :
    Ref (fragOf S F cnd recF s) (fragOf S F cnd recF' s) := by
  cases s with
  | field => exact ref_refl _
  | spread n np dirs p =>
    simp only [fragOf]
    split
    · exact ref_refl _
    · refine ref_bind (ref_refl _) (fun b => ?_)
      cases b with
      | false => exact ref_refl _
      | true => exact ref_bind (h _) (fun fs => ref_refl _)
  | inline cond dirs sub p =>
    cases cond with
    | none =>
      simp only [fragOf]
      exact ref_bind (h _) (fun fs => ref_refl _)
    | some cc =>
      obtain ⟨c, cp⟩ := cc
      simp only [fragOf]
      refine ref_bind (ref_refl _) (fun b => ?_)
      cases b with
      | false => exact ref_refl _
      | true => exact ref_bind (h _) (fun fs => ref_refl _)

/-- the body of `get_fields_for_selection_set` after the parent object has been found -/
def ffBody (S : Schema) (F : Frags) (c : Cond) (obj : TypeDef) (recI : GType → List Selection → Except Panic SelTree)
    (recF : List Selection → Except Panic (List Tagged)) (ss : List Selection) : Except Panic (List Tagged) := do
  let simple ← ss.filterMapM (simpleOf obj c.vars recI)
  let frags ← ss.mapM (fragOf S F c recF)
  .ok (simple ++ frags.flatten)

theorem fieldsFor_succ' (S : Schema) (F : Frags) (mfuel fuel : Nat) (c : Cond) (ss : List Selection) :
    fieldsFor S F mfuel (fuel + 1) c ss =
      match S.typeDef? c.obj.name with
      | some t => ffBody S F c t (fun ty sub => implTree S F mfuel fuel ty sub) (fun sub => fieldsFor S F mfuel fuel c sub) ss
      | none => .error .typeSystemError := by
  rw [fieldsFor_succ]
  cases S.typeDef? c.obj.name <;> rfl

theorem ref_ffBody (S : Schema) (F : Frags) (c : Cond) (obj : TypeDef)
    {recI recI' : GType → List Selection → Except Panic SelTree} (hI : ∀ ty ss, Ref (recI ty ss) (recI' ty ss))
    {recF recF' : List Selection → Except Panic (List Tagged)} (hF : ∀ ss, Ref (recF ss) (recF' ss))
    (ss : List Selection) : Ref (ffBody S F c obj recI recF ss) (ffBody S F c obj recI' recF' ss) := by
  unfold ffBody
  refine ref_bind (ref_filterMapM ss (fun s _ => ref_simpleOf obj c.vars hI s)) (fun simple => ?_)
  exact ref_bind (ref_mapM ss (fun s _ => ref_fragOf S F c hF s)) (fun frags => ref_refl _)

theorem ref_branchOf (S : Schema) (F : Frags) {mf mf' : Nat} (hmf : mf ≤ mf') {f f' : Nat}
    (ihF : ∀ c ss, Ref (fieldsFor S F mf f c ss) (fieldsFor S F mf' f' c ss)) (ss : List Selection) (cnd : Cond) :
    Ref (branchOf S F mf f ss cnd) (branchOf S F mf' f' ss cnd) := by
  unfold branchOf
  refine ref_bind (ihF cnd ss) (fun fs => ?_)
  refine ref_bind (ref_deepMerge hmf _) (fun un => ?_)
  exact ref_bind (ref_deepMerge hmf _) (fun al => ref_refl _)

theorem ref_mkBranches (S : Schema) (F : Frags) {mf mf' : Nat} (hmf : mf ≤ mf') {f f' : Nat}
    (ihF : ∀ c ss, Ref (fieldsFor S F mf f c ss) (fieldsFor S F mf' f' c ss)) (ss : List Selection) (n : Name) :
    Ref (mkBranches S F mf f ss n) (mkBranches S F mf' f' ss n) := by
  unfold mkBranches
  refine ref_bind (ref_branchConds S F hmf ss n) (fun conds => ?_)
  exact ref_mapM conds (fun cnd _ => ref_branchOf S F hmf ihF ss cnd)

theorem ref_implTree_step (S : Schema) (F : Frags) {mf mf' : Nat} (hmf : mf ≤ mf') {f f' : Nat}
    (ihF : ∀ c ss, Ref (fieldsFor S F mf f c ss) (fieldsFor S F mf' f' c ss)) (ty : GType) (ss : List Selection) :
    Ref (implTree S F mf (f + 1) ty ss) (implTree S F mf' (f' + 1) ty ss) := by
  rw [implTree_succ, implTree_succ]
  exact ref_wrapTree (fun n => ref_mkBranches S F hmf ihF ss n) ty

theorem ref_fieldsFor_step (S : Schema) (F : Frags) {mf mf' f f' : Nat}
    (ihI : ∀ ty ss, Ref (implTree S F mf f ty ss) (implTree S F mf' f' ty ss))
    (ihF : ∀ c ss, Ref (fieldsFor S F mf f c ss) (fieldsFor S F mf' f' c ss)) (c : Cond) (ss : List Selection) :
    Ref (fieldsFor S F mf (f + 1) c ss) (fieldsFor S F mf' (f' + 1) c ss) := by
  rw [fieldsFor_succ', fieldsFor_succ']
  cases S.typeDef? c.obj.name with
  | none => exact ref_refl _
  | some t => exact ref_ffBody S F c t (fun ty sub => ihI ty sub) (fun sub => ihF c sub) ss

theorem implTree_zero (S : Schema) (F : Frags) (mf : Nat) (ty : GType) (ss : List Selection) :
    implTree S F mf 0 ty ss = .error .outOfFuel := by rw [implTree]

theorem fieldsFor_zero (S : Schema) (F : Frags) (mf : Nat) (c : Cond) (ss : List Selection) :
    fieldsFor S F mf 0 c ss = .error .outOfFuel := by rw [fieldsFor]

/-- both fuels at once, both functions at once -/
theorem ref_impl (S : Schema) (F : Frags) {mf mf' : Nat} (hmf : mf ≤ mf') : ∀ (f f' : Nat), f ≤ f' →
    (∀ ty ss, Ref (implTree S F mf f ty ss) (implTree S F mf' f' ty ss)) ∧
    (∀ c ss, Ref (fieldsFor S F mf f c ss) (fieldsFor S F mf' f' c ss)) := by
  intro f
  induction f with
  | zero =>
    intro f' _
    exact ⟨fun ty ss => by rw [implTree_zero]; exact ref_oof _, fun c ss => by rw [fieldsFor_zero]; exact ref_oof _⟩
  | succ f ih =>
    intro f' hf
    obtain ⟨m, rfl⟩ : ∃ m, f' = m + 1 := ⟨f' - 1, by omega⟩
    obtain ⟨ihI, ihF⟩ := ih m (by omega)
    exact ⟨fun ty ss => ref_implTree_step S F hmf ihF ty ss, fun c ss => ref_fieldsFor_step S F ihI ihF c ss⟩

theorem ref_implTree (S : Schema) (F : Frags) {mf mf' f f' : Nat} (hmf : mf ≤ mf') (hf : f ≤ f') (ty : GType)
    (ss : List Selection) : Ref (implTree S F mf f ty ss) (implTree S F mf' f' ty ss) :=
  (ref_impl S F hmf f f' hf).1 ty ss

/-- if larger fuels yield a tree, the given fuels yield that tree or run out — never another panic -/
theorem implTree_ok_or_outOfFuel (S : Schema) (F : Frags) {mf mf' f f' : Nat} (hmf : mf ≤ mf') (hf : f ≤ f')
    (ty : GType) (ss : List Selection) {T : SelTree} (h : implTree S F mf' f' ty ss = .ok T) :
    implTree S F mf f ty ss = .ok T ∨ implTree S F mf f ty ss = .error .outOfFuel := by
  rcases ref_implTree S F hmf hf ty ss with h1 | h1
  · exact Or.inr h1
  · exact Or.inl (h1.trans h)

end NitroVerif.Stages
