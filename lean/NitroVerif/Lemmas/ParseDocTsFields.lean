/-
Type-system definitions (helper lemmas for Props/C07Doc): `FieldDefinition` / `FieldsDefinition`,
`EnumValueDefinition` / `EnumValuesDefinition`.
-/
import NitroVerif.Lemmas.ParseDocTsParts
namespace NitroVerif.DocParse
open NitroVerif.Peg NitroVerif.Gen NitroVerif.Gen.Parts NitroVerif.Build NitroVerif.TypeParse NitroVerif.StringParse
open NitroVerif.Gql NitroVerif.ValueParse NitroVerif.Spec.Lex

set_option linter.unusedSimpArgs false

theorem look_FieldsDefinition : gList.look R.FieldsDefinition =
    some (.normal, .seq (.str ['{']) (.seq (.plus (.call R.FieldDefinition)) (.str ['}']))) := rfl
theorem look_FieldDefinition : gList.look R.FieldDefinition = some (.normal, .seq (.opt (.call R.Description))
    (.seq (.call R.Name) (.seq (.opt (.call R.ArgumentsDefinition)) (.seq (.str [':']) (.seq (.call R.«Type»)
      (.opt (.call R.Directives))))))) := rfl
theorem look_EnumValuesDefinition : gList.look R.EnumValuesDefinition =
    some (.normal, .seq (.str ['{']) (.seq (.plus (.call R.EnumValueDefinition)) (.str ['}']))) := rfl
theorem look_EnumValueDefinition : gList.look R.EnumValueDefinition = some (.normal,
    .seq (.opt (.call R.Description)) (.seq (.call R.EnumValue) (.opt (.call R.Directives)))) := rfl

variable {inp : List Char}

/-! ### field definitions -/

def rFieldDef (τ : Trivia) (sep : Bool) (p : Nat) (f : FieldDef) : List Char :=
  let tS := rOptDesc τ p f.desc
  let tN := tk τ false (p + tS.length) f.name.toList
  let tA := rOptArgsDef τ false (p + tS.length + tN.length) f.args
  let tC := tk τ false (p + tS.length + tN.length + tA.length) [':']
  let tT := rType τ (sep && f.dirs.isEmpty) (p + tS.length + tN.length + tA.length + tC.length) f.ty
  tS ++ (tN ++ (tA ++ (tC ++ (tT ++ rDirs τ sep (p + tS.length + tN.length + tA.length + tC.length + tT.length) f.dirs))))

def wpFieldDef (τ : Trivia) (inp : List Char) (sep : Bool) (p : Nat) (f : FieldDef) : FieldDef :=
  let tS := rOptDesc τ p f.desc
  let tN := tk τ false (p + tS.length) f.name.toList
  let tA := rOptArgsDef τ false (p + tS.length + tN.length) f.args
  let tC := tk τ false (p + tS.length + tN.length + tA.length) [':']
  let tT := rType τ (sep && f.dirs.isEmpty) (p + tS.length + tN.length + tA.length + tC.length) f.ty
  { desc := f.desc, name := f.name, pos := posAt inp (p + tS.length),
    args := wpIVDs τ inp (p + tS.length + tN.length + (tk τ false (p + tS.length + tN.length) ['(']).length) f.args,
    ty := wpType τ inp (p + tS.length + tN.length + tA.length + tC.length) f.ty,
    dirs := wpDirs τ inp sep (p + tS.length + tN.length + tA.length + tC.length + tT.length) f.dirs }

def WFFieldDef (f : FieldDef) : Prop := validName f.name.toList ∧ (∀ v ∈ f.args, WFIVD v) ∧ WF f.ty ∧ WFDirs f.dirs

/-- what must not follow a field definition -/
abbrev fdBad : Char → Prop := fun c => c = '!' ∨ c = '@' ∨ c = '('

/-- the function `build_fields_definition` maps over the `FieldDefinition` children -/
def fieldDefFn (ctx : Ctx) (fuel : Nat) : Pair → M FieldDef := fun f => do
  match ← matchParts P_FieldDefinition f.children with
  | [desc, some name, args, some ty, dirs] =>
    let desc ← optDesc ctx desc
    let args ← match args with
      | some a => buildArgumentsDefinition ctx fuel a
      | none => pure []
    let ty ← buildType ctx fuel ty
    let dirs ← optDirs ctx fuel dirs
    .ok { desc, name := asString ctx name, pos := toPos ctx name, args, ty, dirs }
  | _ => .error (.modelBug "FieldDefinition")

theorem buildFieldsDefinition_eq (ctx : Ctx) (fuel : Nat) (s e : Nat) (cs : List Pair)
    (hcs : allChildrenGo AC_FieldsDefinition cs = .ok ()) :
    buildFieldsDefinition ctx fuel (.mk R.FieldsDefinition s e cs) = cs.mapM (fieldDefFn ctx fuel) := by
  unfold fieldDefFn
  simp [buildFieldsDefinition, allChildren, Pair.children, hcs, bind, Except.bind]
  rfl

theorem hd_rFieldDef (τ : Trivia) (sep : Bool) (p : Nat) (f : FieldDef) (hwf : WFFieldDef f) :
    Hd (fun d => nameStart d ∨ d = '"') (rFieldDef τ sep p f) := by
  simp only [rFieldDef]
  cases hd : f.desc with
  | none =>
    simp only [rOptDesc, List.nil_append, List.length_nil, Nat.add_zero]
    exact Hd.append (hd_tk (P := fun d => nameStart d ∨ d = '"') ((hd_of_validName hwf.1).mono (fun _ h => Or.inl h))) _
  | some s =>
    simp only [rOptDesc]
    exact Hd.append (hd_tk (P := fun d => nameStart d ∨ d = '"') ⟨'"', _, rfl, Or.inr rfl⟩) _

theorem p_fielddef_nodup : (P_FieldDefinition.map itemRule).Nodup := by decide

theorem fieldDefT (τ : Trivia) (hτ : ∀ q, Ws (τ q)) (f : FieldDef) (hwf : WFFieldDef f) {sep : Bool} {p : Nat}
    (h : HasAt inp p (rFieldDef τ sep p f)) (hn : Nxt inp fdBad sep (p + (rFieldDef τ sep p f).length)) :
    ∃ pr, RunsK (B (rFieldDef τ sep p f).length + 30) (.call R.FieldDefinition) (At inp p)
        (At inp (p + (rFieldDef τ sep p f).length)) [pr] ∧ PairOk R.FieldDefinition p pr ∧
      ∀ fuel, (rFieldDef τ sep p f).length ≤ fuel →
        fieldDefFn (Ctx.spec inp) fuel pr = .ok (wpFieldDef τ inp sep p f) := by
  obtain ⟨hname, hargs, hty, hdirs⟩ := hwf
  simp only [rFieldDef, wpFieldDef] at h hn ⊢
  generalize hS : rOptDesc τ p f.desc = tS at *
  generalize hN : tk τ false (p + tS.length) f.name.toList = tN at *
  generalize hA : rOptArgsDef τ false (p + tS.length + tN.length) f.args = tA at *
  generalize hC : tk τ false (p + tS.length + tN.length + tA.length) [':'] = tC at *
  generalize hsT : (sep && f.dirs.isEmpty) = sT at *
  generalize hT : rType τ sT (p + tS.length + tN.length + tA.length + tC.length) f.ty = tT at *
  generalize hD : rDirs τ sep (p + tS.length + tN.length + tA.length + tC.length + tT.length) f.dirs = tD at *
  have hlen : p + (tS ++ (tN ++ (tA ++ (tC ++ (tT ++ tD))))).length =
      p + tS.length + tN.length + tA.length + tC.length + tT.length + tD.length := by
    simp only [List.length_append]; omega
  rw [hlen] at hn ⊢
  have g0 : HasAt inp p tS := h.left
  have g1 : HasAt inp (p + tS.length) tN := h.right.left
  have g2 : HasAt inp (p + tS.length + tN.length) tA := h.right.right.left
  have g3 : HasAt inp (p + tS.length + tN.length + tA.length) tC := h.right.right.right.left
  have g4 : HasAt inp (p + tS.length + tN.length + tA.length + tC.length) tT := h.right.right.right.right.left
  have g5 : HasAt inp (p + tS.length + tN.length + tA.length + tC.length + tT.length) tD := h.right.right.right.right.right
  have hdN : Hd nameStart tN := hN ▸ hd_tk (hd_of_validName hname)
  have hdC : Hd (· = ':') tC := hC ▸ hd_tk (hd_cons _ rfl)
  have hdT : Hd (fun d => nameStart d ∨ d = '[') tT := hT ▸ hd_rType τ sT _ f.ty hty
  have hlN := hdN.length_pos
  have hlC := hdC.length_pos
  -- after the type
  have n5 : Nxt inp (· = '!') sT (p + tS.length + tN.length + tA.length + tC.length + tT.length) := by
    refine Nxt.rest g5 hn (hD ▸ hd_rDirs τ sep _ f.dirs) (P := (· = '@')) (by rintro c rfl; decide)
      (fun c hc => Or.inl hc) ?_
    intro ht hs
    have : f.dirs = [] := rDirs_eq_nil (hD.trans ht)
    rw [← hsT, this] at hs
    simpa using hs
  -- description, name
  obtain ⟨oS, rS, hokS, hbS⟩ := optDescT hτ f.desc (hS ▸ g0)
    (by rw [hS]; exact tok_of_hd g1 hdN (fun d => nameStart_not_trivia))
    (by rw [hS]; exact headNot_of_hd g1 hdN (fun d hd => (nameStart_not_punct hd).2.2.2.2.2.2.2.2.2.2.2.2.2.2.1))
  rw [hS] at rS
  have hrest : Hd (fun c => c = '(' ∨ c = ':') (tA ++ tC) := by
    rcases hd_or_nil_append (hd_or_nil_mono (hA ▸ hd_rOptArgsDef τ false _ f.args) (fun c h => Or.inl h))
        (Or.inr (hdC.mono (fun c h => Or.inr h))) with b | b
    · exact absurd (List.append_eq_nil_iff.mp b).2 hdC.ne_nil
    · exact b
  have g2' : HasAt inp (p + tS.length + tN.length) (tA ++ tC) := by
    have := h.right.right
    rw [← List.append_assoc] at this
    exact this.left
  have r1 := nameT hτ hname (hN ▸ g1) (bad := fun _ => False)
    (by rw [hN]; exact Nxt.of_hd g2' hrest (by rintro c (rfl | rfl) <;> decide))
  rw [hN] at r1
  -- arguments
  obtain ⟨oA, rA, hokA, hbA⟩ := optArgsDefT τ hτ f.args hargs (hA ▸ g2)
    (by rw [hA]; exact tok_of_hd g3 hdC (by rintro c rfl; decide))
    (by rw [hA]; exact headNot_of_hd g3 hdC (by rintro c rfl; decide))
  rw [hA] at rA hbA
  have r3 := strT hτ [':'] (hC ▸ g3) (by
    rw [hC]; exact tok_of_hd g4 hdT (by
      rintro c (hc | rfl)
      · exact nameStart_not_trivia hc
      · decide))
  rw [hC] at r3
  obtain ⟨prT, rT, hokT, hbT⟩ := (type_all τ hτ f.ty hty).2 sT _ (· = '!') rfl (hT ▸ g4) (by rw [hT]; exact n5)
  rw [hT] at rT hbT
  obtain ⟨oD, rD, hokD, _, hbD⟩ := optDirsT τ hτ f.dirs hdirs (bad := fdBad) (Or.inr (Or.inr rfl)) (Or.inr (Or.inl rfl))
    (hD ▸ g5) (by rw [hD]; exact hn)
  rw [hD] at rD hbD
  obtain ⟨e, rR⟩ := runsK_rule look_FieldDefinition (by decide) (by decide)
    (runsK_seq rS (runsK_seq r1.toK (runsK_seq rA (runsK_seq r3 (runsK_seq rT rD)))))
  refine ⟨_, rR.mono (by barith), ?_, ?_⟩
  · refine pairOk_mk (by decide) (by decide) ?_
    simp only [cleanL_append, cleanL_cons, cleanL_nil, and_true, true_and]
    exact ⟨clean_opt (fun x hx => (hokS x hx).2), cleanP_of (by decide) (by decide) trivial,
      clean_opt (fun x hx => (hokA x hx).clean), hokT.clean, clean_opt (fun x hx => (hokD x hx).clean)⟩
  · intro fuel hf
    have hf' : tS.length + (tN.length + (tA.length + (tC.length + (tT.length + tD.length)))) ≤ fuel := by
      simpa using hf
    have hch : oS.toList ++ ([Pair.mk R.Name (p + tS.length) (p + tS.length + f.name.toList.length) []] ++
          (oA.toList ++ ([] ++ ([prT] ++ oD.toList)))) =
        slotPairs [oS, some (Pair.mk R.Name (p + tS.length) (p + tS.length + f.name.toList.length) []), oA, some prT,
          oD] := by simp [slotPairs]
    rw [hch]
    have hm := matchParts_slots P_FieldDefinition _ p_fielddef_nodup
      (show slotsOk P_FieldDefinition [oS, some (Pair.mk R.Name (p + tS.length)
          (p + tS.length + f.name.toList.length) []), oA, some prT, oD] from
        ⟨fun x hx => (hokS x hx).1, ⟨_, rfl, rfl⟩, fun x hx => (hokA x hx).rule, ⟨_, rfl, hokT.rule⟩,
          fun x hx => (hokD x hx).rule, trivial⟩)
    have hname' := (hN ▸ g1 : HasAt inp _ (tk τ false _ f.name.toList)).left.slice
    have hfA := hbA fuel (by omega)
    cases oA with
    | none =>
      have ha0 : wpIVDs τ inp (p + tS.length + tN.length + (tk τ false (p + tS.length + tN.length) ['(']).length) f.args
          = [] := by simpa [optArgsDefB] using hfA.symm
      simp [fieldDefFn, Pair.children, hm, hbS, ha0, hbT fuel (by omega), hbD fuel (by omega), asString_spec',
        toPos_spec', Pair.start, Pair.stop, hname', At, bind, Except.bind, pure, Except.pure]
    | some a =>
      simp only [optArgsDefB] at hfA
      simp [fieldDefFn, Pair.children, hm, hbS, hfA, hbT fuel (by omega), hbD fuel (by omega), asString_spec',
        toPos_spec', Pair.start, Pair.stop, hname', At, bind, Except.bind, pure, Except.pure]

def FieldDefGood (τ : Trivia) (inp : List Char) : Bool → Nat → FieldDef → Pair → Prop := fun s q f pr =>
  PairOk R.FieldDefinition q pr ∧
    ∀ fuel, (rFieldDef τ s q f).length ≤ fuel → fieldDefFn (Ctx.spec inp) fuel pr = .ok (wpFieldDef τ inp s q f)

def wpFieldDefs (τ : Trivia) (inp : List Char) (p : Nat) (fs : List FieldDef) : List FieldDef :=
  mapItems (rFieldDef τ) true false (wpFieldDef τ inp) p fs

theorem fieldDef_fails {q : Nat} (h : HeadNot (fun d => nameStart d ∨ d = '"') (inp.drop q)) (ht : Tok (At inp q)) :
    Fails gList 40 true (.call R.FieldDefinition) .nonAtomic (At inp q) :=
  (fails_rule look_FieldDefinition (by decide) (by decide)
    (fails_seq_K (runsK_opt_none (description_fails (headNot_mono (fun _ h => Or.inr h) h)) ht)
      (fails_seq_1 (name_fails_at (headNot_mono (fun _ h => Or.inl h) h))))).mono (by simp)

/-- `{ … } gap` — the fields of an object / interface type; nothing for an empty list -/
def rOptFields (τ : Trivia) (sep : Bool) (p : Nat) : List FieldDef → List Char
  | [] => []
  | f :: fs => rBraced (rFieldDef τ) true τ '{' '}' sep p (f :: fs)

theorem hd_rOptFields (τ : Trivia) (sep : Bool) (p : Nat) (fs : List FieldDef) :
    rOptFields τ sep p fs = [] ∨ Hd (· = '{') (rOptFields τ sep p fs) := by
  cases fs with
  | nil => exact Or.inl rfl
  | cons v vs => exact Or.inr (hd_rBraced _ _ τ '{' '}' sep p _)

theorem fieldsDef_fails {p : Nat} (h : HeadNot (· = '{') (inp.drop p)) :
    Fails gList 4 true (.call R.FieldsDefinition) .nonAtomic (At inp p) :=
  fails_rule look_FieldsDefinition (by decide) (by decide) (fails_seq_1 (str_fails h))

/-- the `FieldsDefinition` rule on a non-empty list of field definitions -/
theorem fieldsT (τ : Trivia) (hτ : ∀ q, Ws (τ q)) (a : FieldDef) (r : List FieldDef) (hwf : ∀ f ∈ a :: r, WFFieldDef f)
    {sep : Bool} {p : Nat} (h : HasAt inp p (rOptFields τ sep p (a :: r)))
    (ht : Tok (At inp (p + (rOptFields τ sep p (a :: r)).length))) :
    ∃ pr, RunsK (B (rOptFields τ sep p (a :: r)).length + 45) (.call R.FieldsDefinition) (At inp p)
        (At inp (p + (rOptFields τ sep p (a :: r)).length)) [pr] ∧ PairOk R.FieldsDefinition p pr ∧
      ∀ fuel, (rOptFields τ sep p (a :: r)).length ≤ fuel →
        optFields (Ctx.spec inp) fuel (some pr) = .ok (wpFieldDefs τ inp (p + (tk τ false p ['{']).length) (a :: r)) := by
  simp only [rOptFields] at h ht ⊢
  obtain ⟨e, pss, hrun, hgood⟩ := bracedT (rFieldDef τ) true τ hτ R.FieldsDefinition R.FieldDefinition '{' '}'
    look_FieldsDefinition (by decide) (by decide) (fun _ => fdBad) 30 (FieldDefGood τ inp)
    ⟨by decide, by decide, by decide⟩
    (fun q hq hne => (fieldDef_fails (headNot_of_head_eq hq (by decide)) (headNot_of_head_eq hq (by decide))).mono
      (by omega))
    r a sep p
    (fun x hx s q hat hnx => by
      obtain ⟨pr, hr, hok, hb⟩ := fieldDefT τ hτ x (hwf x hx) hat hnx
      exact ⟨pr, hr, hok, hb⟩)
    (fun x hx s q => (hd_rFieldDef τ s q x (hwf x hx)).mono (by
      rintro c (hc | rfl)
      · have := nameStart_not_punct hc
        refine ⟨nameStart_not_trivia hc, ?_, fun h => by cases h⟩
        rintro (rfl | rfl | rfl) <;> simp_all
      · decide)) h ht
  have hclean : CleanL pss := goodItems_clean (rFieldDef τ) true false (FieldDefGood τ inp) (a :: r)
    (fun x _ s q pr hg => hg.1.clean) _ pss hgood
  refine ⟨_, hrun, pairOk_mk (by decide) (by decide) hclean, fun fuel hf => ?_⟩
  have hall := goodItems_all (rFieldDef τ) true false (FieldDefGood τ inp) R.FieldDefinition (a :: r)
    (fun x _ s q pr hg => hg.1.rule) _ pss hgood
  simp only [optFields]
  rw [buildFieldsDefinition_eq _ _ _ _ _ hall]
  refine goodItems_mapM (rFieldDef τ) true false (FieldDefGood τ inp) (fieldDefFn (Ctx.spec inp) fuel)
    (wpFieldDef τ inp) fuel (a :: r) (fun x _ s q pr hg hl => hg.2 fuel hl) _ pss ?_ hgood
  simp only [rBraced, List.length_append] at hf
  omega

/-! ### enum values -/

def rEnumVal (τ : Trivia) (sep : Bool) (p : Nat) (v : EnumValueDef) : List Char :=
  let tS := rOptDesc τ p v.desc
  let tN := tk τ (sep && v.dirs.isEmpty) (p + tS.length) v.name.toList
  tS ++ (tN ++ rDirs τ sep (p + tS.length + tN.length) v.dirs)

def wpEnumVal (τ : Trivia) (inp : List Char) (sep : Bool) (p : Nat) (v : EnumValueDef) : EnumValueDef :=
  let tS := rOptDesc τ p v.desc
  let tN := tk τ (sep && v.dirs.isEmpty) (p + tS.length) v.name.toList
  { desc := v.desc, name := v.name, pos := posAt inp (p + tS.length),
    dirs := wpDirs τ inp sep (p + tS.length + tN.length) v.dirs }

def WFEnumVal (v : EnumValueDef) : Prop :=
  validName v.name.toList ∧ v.name.toList ≠ kwTrue ∧ v.name.toList ≠ kwFalse ∧ v.name.toList ≠ kwNull ∧ WFDirs v.dirs

abbrev evBad : Char → Prop := fun c => c = '@' ∨ c = '('

theorem hd_rEnumVal (τ : Trivia) (sep : Bool) (p : Nat) (v : EnumValueDef) (hwf : WFEnumVal v) :
    Hd (fun d => nameStart d ∨ d = '"') (rEnumVal τ sep p v) := by
  simp only [rEnumVal]
  cases hd : v.desc with
  | none =>
    simp only [rOptDesc, List.nil_append, List.length_nil, Nat.add_zero]
    exact Hd.append (hd_tk (P := fun d => nameStart d ∨ d = '"') ((hd_of_validName hwf.1).mono (fun _ h => Or.inl h))) _
  | some s =>
    simp only [rOptDesc]
    exact Hd.append (hd_tk (P := fun d => nameStart d ∨ d = '"') ⟨'"', _, rfl, Or.inr rfl⟩) _

theorem p_enumval_nodup : (P_EnumValueDefinition.map itemRule).Nodup := by decide

/-- the `EnumValue` rule on a name other than `true`, `false`, `null`, with the exact end of its pair -/
theorem enumValueT {τ : Trivia} (hτ : ∀ q, Ws (τ q)) {n : List Char} (hn : validName n) (h1 : n ≠ kwTrue)
    (h2 : n ≠ kwFalse) (h3 : n ≠ kwNull) {s : Bool} {p : Nat} {bad : Char → Prop} (h : HasAt inp p (tk τ s p n))
    (hnx : Nxt inp bad s (p + (tk τ s p n).length)) :
    RunsKE (B (tk τ s p n).length + 10) (.call R.EnumValue) (At inp p) (At inp (p + n.length))
      (At inp (p + (tk τ s p n).length)) [.mk R.EnumValue p (p + n.length) [.mk R.Name p (p + n.length) []]] := by
  obtain ⟨gN, _, gGlue⟩ := tk_gap hτ h hnx
  have rN := nameT hτ hn h hnx
  have htok : Tok (At inp p) := tok_of_hd gN (hd_of_validName hn) (fun d => nameStart_not_trivia)
  have f1 := kw_fails_name (la := .neg) look_KEYWORD_true kw_valid.1 hn h1 gN gGlue
  have f2 := kw_fails_name (la := .neg) look_KEYWORD_false kw_valid.2.1 hn h2 gN gGlue
  have f3 := kw_fails_name (la := .neg) look_KEYWORD_null kw_valid.2.2 hn h3 gN gGlue
  have rNot := runsK_not (failsL_choice (f1.mono (by omega : 13 ≤ 14)) (failsL_choice f2 f3)) htok
  have := runsKE_rule look_EnumValue (by decide) (by decide) (runsKE_seq rNot rN)
  exact RunsKE.cast (this.mono (by barith)) rfl rfl rfl (by simp [At])

theorem enumValDefT (τ : Trivia) (hτ : ∀ q, Ws (τ q)) (v : EnumValueDef) (hwf : WFEnumVal v) {sep : Bool} {p : Nat}
    (h : HasAt inp p (rEnumVal τ sep p v)) (hn : Nxt inp evBad sep (p + (rEnumVal τ sep p v).length)) :
    ∃ pr, RunsK (B (rEnumVal τ sep p v).length + 30) (.call R.EnumValueDefinition) (At inp p)
        (At inp (p + (rEnumVal τ sep p v).length)) [pr] ∧ PairOk R.EnumValueDefinition p pr ∧
      ∀ fuel, (rEnumVal τ sep p v).length ≤ fuel →
        buildEnumValueDefinition (Ctx.spec inp) fuel pr = .ok (wpEnumVal τ inp sep p v) := by
  obtain ⟨hname, hn1, hn2, hn3, hdirs⟩ := hwf
  simp only [rEnumVal, wpEnumVal] at h hn ⊢
  generalize hS : rOptDesc τ p v.desc = tS at *
  generalize hsN : (sep && v.dirs.isEmpty) = sN at *
  generalize hN : tk τ sN (p + tS.length) v.name.toList = tN at *
  generalize hD : rDirs τ sep (p + tS.length + tN.length) v.dirs = tD at *
  have hlen : p + (tS ++ (tN ++ tD)).length = p + tS.length + tN.length + tD.length := by
    simp only [List.length_append]; omega
  rw [hlen] at hn ⊢
  have g0 : HasAt inp p tS := h.left
  have g1 : HasAt inp (p + tS.length) tN := h.right.left
  have g2 : HasAt inp (p + tS.length + tN.length) tD := h.right.right
  have hdN : Hd nameStart tN := hN ▸ hd_tk (hd_of_validName hname)
  have hlN := hdN.length_pos
  have n2 : Nxt inp (fun _ => False) sN (p + tS.length + tN.length) := by
    refine Nxt.rest g2 hn (hD ▸ hd_rDirs τ sep _ v.dirs) (P := (· = '@')) (by rintro c rfl; decide) (fun c hc => hc.elim) ?_
    intro ht hs
    have : v.dirs = [] := rDirs_eq_nil (hD.trans ht)
    rw [← hsN, this] at hs
    simpa using hs
  obtain ⟨oS, rS, hokS, hbS⟩ := optDescT hτ v.desc (hS ▸ g0)
    (by rw [hS]; exact tok_of_hd g1 hdN (fun d => nameStart_not_trivia))
    (by rw [hS]; exact headNot_of_hd g1 hdN (fun d hd => (nameStart_not_punct hd).2.2.2.2.2.2.2.2.2.2.2.2.2.2.1))
  rw [hS] at rS
  have r1 := enumValueT hτ hname hn1 hn2 hn3 (hN ▸ g1) (by rw [hN]; exact n2)
  rw [hN] at r1
  obtain ⟨oD, rD, hokD, _, hbD⟩ := optDirsT τ hτ v.dirs hdirs (bad := evBad) (Or.inr rfl) (Or.inl rfl)
    (hD ▸ g2) (by rw [hD]; exact hn)
  rw [hD] at rD hbD
  obtain ⟨e, rR⟩ := runsK_rule look_EnumValueDefinition (by decide) (by decide) (runsK_seq rS (runsK_seq r1.toK rD))
  refine ⟨_, rR.mono (by barith), ?_, ?_⟩
  · refine pairOk_mk (by decide) (by decide) ?_
    simp only [cleanL_append, cleanL_cons, cleanL_nil, and_true, true_and]
    exact ⟨clean_opt (fun x hx => (hokS x hx).2),
      cleanP_of (by decide) (by decide) ⟨cleanP_of (by decide) (by decide) trivial, trivial⟩,
      clean_opt (fun x hx => (hokD x hx).clean)⟩
  · intro fuel hf
    have hf' : tS.length + (tN.length + tD.length) ≤ fuel := by simpa using hf
    have hch : oS.toList ++ ([Pair.mk R.EnumValue (p + tS.length) (p + tS.length + v.name.toList.length)
          [Pair.mk R.Name (p + tS.length) (p + tS.length + v.name.toList.length) []]] ++ oD.toList) =
        slotPairs [oS, some (Pair.mk R.EnumValue (p + tS.length) (p + tS.length + v.name.toList.length)
          [Pair.mk R.Name (p + tS.length) (p + tS.length + v.name.toList.length) []]), oD] := by simp [slotPairs]
    rw [hch]
    have hm := matchParts_slots P_EnumValueDefinition _ p_enumval_nodup
      (show slotsOk P_EnumValueDefinition [oS, some (Pair.mk R.EnumValue (p + tS.length)
          (p + tS.length + v.name.toList.length) [Pair.mk R.Name (p + tS.length)
            (p + tS.length + v.name.toList.length) []]), oD] from
        ⟨fun x hx => (hokS x hx).1, ⟨_, rfl, rfl⟩, fun x hx => (hokD x hx).rule, trivial⟩)
    have hname' := (hN ▸ g1 : HasAt inp _ (tk τ sN _ v.name.toList)).left.slice
    simp [buildEnumValueDefinition, Pair.children, hm, hbS, hbD fuel (by omega), asString_spec', toPos_spec',
      Pair.start, Pair.stop, hname', At, bind, Except.bind]

def EnumValGood (τ : Trivia) (inp : List Char) : Bool → Nat → EnumValueDef → Pair → Prop := fun s q v pr =>
  PairOk R.EnumValueDefinition q pr ∧
    ∀ fuel, (rEnumVal τ s q v).length ≤ fuel →
      buildEnumValueDefinition (Ctx.spec inp) fuel pr = .ok (wpEnumVal τ inp s q v)

def wpEnumVals (τ : Trivia) (inp : List Char) (p : Nat) (vs : List EnumValueDef) : List EnumValueDef :=
  mapItems (rEnumVal τ) true false (wpEnumVal τ inp) p vs

theorem look_EnumValue' : gList.look R.EnumValue = some (.normal,
    .seq (.not (.choice (.call R.KEYWORD_true) (.choice (.call R.KEYWORD_false) (.call R.KEYWORD_null)))) (.call R.Name)) :=
  rfl

theorem enumValDef_fails {q : Nat} (h : HeadNot (fun d => nameStart d ∨ d = '"') (inp.drop q)) (ht : Tok (At inp q)) :
    Fails gList 60 true (.call R.EnumValueDefinition) .nonAtomic (At inp q) := by
  have hns : HeadNot nameStart (inp.drop q) := headNot_mono (fun _ h => Or.inl h) h
  have kf : ∀ {r : RuleId} {x : Char} {xs : List Char},
      gList.look r = some (.atomic, .seq (.str (x :: xs)) (.not (.call R.NameContinue))) → nameStart x →
      FailsL gList .neg 13 true (.call r) .nonAtomic (At inp q) := fun hl hx =>
    kw_fails_head hl (headNot_mono (fun d (hd : d = _) => hd ▸ hx) hns)
  have rNot := runsK_not (failsL_choice ((kf look_KEYWORD_true (by decide)).mono (by omega : 13 ≤ 14))
    (failsL_choice (kf look_KEYWORD_false (by decide)) (kf look_KEYWORD_null (by decide)))) ht
  have fE := fails_rule look_EnumValue' (by decide) (by decide) (fails_seq_K rNot (name_fails_at hns))
  exact (fails_rule look_EnumValueDefinition (by decide) (by decide)
    (fails_seq_K (runsK_opt_none (description_fails (headNot_mono (fun _ h => Or.inr h) h)) ht) (fails_seq_1 fE))).mono
    (by simp)

/-- `{ … } gap` — the values of an enum type; nothing for an empty list -/
def rOptEnumVals (τ : Trivia) (sep : Bool) (p : Nat) : List EnumValueDef → List Char
  | [] => []
  | v :: vs => rBraced (rEnumVal τ) true τ '{' '}' sep p (v :: vs)

theorem hd_rOptEnumVals (τ : Trivia) (sep : Bool) (p : Nat) (vs : List EnumValueDef) :
    rOptEnumVals τ sep p vs = [] ∨ Hd (· = '{') (rOptEnumVals τ sep p vs) := by
  cases vs with
  | nil => exact Or.inl rfl
  | cons v vs => exact Or.inr (hd_rBraced _ _ τ '{' '}' sep p _)

theorem enumValsDef_fails {p : Nat} (h : HeadNot (· = '{') (inp.drop p)) :
    Fails gList 4 true (.call R.EnumValuesDefinition) .nonAtomic (At inp p) :=
  fails_rule look_EnumValuesDefinition (by decide) (by decide) (fails_seq_1 (str_fails h))

/-- the `EnumValuesDefinition` rule on a non-empty list of enum values -/
theorem enumValsT (τ : Trivia) (hτ : ∀ q, Ws (τ q)) (a : EnumValueDef) (r : List EnumValueDef)
    (hwf : ∀ v ∈ a :: r, WFEnumVal v) {sep : Bool} {p : Nat} (h : HasAt inp p (rOptEnumVals τ sep p (a :: r)))
    (ht : Tok (At inp (p + (rOptEnumVals τ sep p (a :: r)).length))) :
    ∃ pr, RunsK (B (rOptEnumVals τ sep p (a :: r)).length + 45) (.call R.EnumValuesDefinition) (At inp p)
        (At inp (p + (rOptEnumVals τ sep p (a :: r)).length)) [pr] ∧ PairOk R.EnumValuesDefinition p pr ∧
      ∀ fuel, (rOptEnumVals τ sep p (a :: r)).length ≤ fuel →
        optEnumValues (Ctx.spec inp) fuel (some pr) =
          .ok (wpEnumVals τ inp (p + (tk τ false p ['{']).length) (a :: r)) := by
  simp only [rOptEnumVals] at h ht ⊢
  obtain ⟨e, pss, hrun, hgood⟩ := bracedT (rEnumVal τ) true τ hτ R.EnumValuesDefinition R.EnumValueDefinition '{' '}'
    look_EnumValuesDefinition (by decide) (by decide) (fun _ => evBad) 30 (EnumValGood τ inp)
    ⟨by decide, by decide, by decide⟩
    (fun q hq hne => (enumValDef_fails (headNot_of_head_eq hq (by decide)) (headNot_of_head_eq hq (by decide))).mono
      (by omega))
    r a sep p
    (fun x hx s q hat hnx => by
      obtain ⟨pr, hr, hok, hb⟩ := enumValDefT τ hτ x (hwf x hx) hat hnx
      exact ⟨pr, hr, hok, hb⟩)
    (fun x hx s q => (hd_rEnumVal τ s q x (hwf x hx)).mono (by
      rintro c (hc | rfl)
      · have := nameStart_not_punct hc
        refine ⟨nameStart_not_trivia hc, ?_, fun h => by cases h⟩
        rintro (rfl | rfl) <;> simp_all
      · decide)) h ht
  have hclean : CleanL pss := goodItems_clean (rEnumVal τ) true false (EnumValGood τ inp) (a :: r)
    (fun x _ s q pr hg => hg.1.clean) _ pss hgood
  refine ⟨_, hrun, pairOk_mk (by decide) (by decide) hclean, fun fuel hf => ?_⟩
  have hall := goodItems_all (rEnumVal τ) true false (EnumValGood τ inp) R.EnumValueDefinition (a :: r)
    (fun x _ s q pr hg => hg.1.rule) _ pss hgood
  simp only [optEnumValues, allChildren, Pair.children, AC_EnumValuesDefinition, hall, bind, Except.bind]
  refine goodItems_mapM (rEnumVal τ) true false (EnumValGood τ inp) (buildEnumValueDefinition (Ctx.spec inp) fuel)
    (wpEnumVal τ inp) fuel (a :: r) (fun x _ s q pr hg hl => hg.2 fuel hl) _ pss ?_ hgood
  simp only [rBraced, List.length_append] at hf
  omega

end NitroVerif.DocParse
