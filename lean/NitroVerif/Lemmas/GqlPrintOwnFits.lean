import NitroVerif.Lemmas.GqlPrintOwnFlat
/-!
C16 over nitrogql's own parser: the printer's token lists FIT the flat forms of C07's renderings (`Fits`), construct by
construct, in continuation form:
  `(sep = true → gapNext ts = true) → Fits cs ts → Fits (c… sep x ++ cs) (print… x ++ ts)`.
This file: names / numbers are good tokens; types, values, arguments, directives.
-/
namespace NitroVerif.C16Own
open NitroVerif.Gql NitroVerif.GqlPrint NitroVerif.ValueParse NitroVerif.DocParse NitroVerif.TypeParse NitroVerif.StringParse

/-! ### names and numbers are good tokens -/

theorem nameCont_ok {x : Char} (h : nameCont x) : x ≠ '\n' ∧ x ≠ '\r' ∧ x ≠ '$' ∧ x ≠ '{' := by
  refine ⟨?_, ?_, ?_, ?_⟩ <;> (rintro rfl; exact absurd h (by decide))
theorem nameStart_not_gap {d : Char} (h : nameStart d) : isGapC d = false := by
  cases hg : isGapC d with
  | false => rfl
  | true =>
    simp only [isGapC, Bool.or_eq_true, beq_iff_eq] at hg
    rcases hg with (rfl | rfl) | rfl <;> exact absurd h (by decide)

/-- a token all of whose characters are harmless and whose first character is not a layout character -/
theorem goodNm_of_chars {t : List Char} (hne : t ≠ []) (hhd : ∀ d r, t = d :: r → isGapC d = false)
    (h : ∀ x ∈ t, x ≠ '\n' ∧ x ≠ '\r' ∧ x ≠ '$' ∧ x ≠ '{') : goodNm t = true := by
  cases t with
  | nil => exact absurd rfl hne
  | cons d ds =>
    simp only [goodNm, goodStr, headNotBrace, Bool.and_eq_true, Bool.not_eq_true', List.all_eq_true, bne_iff_ne]
    exact ⟨⟨⟨hhd d ds rfl, fun x hx => (h x hx).1⟩, fun x hx => ⟨(h x hx).2.1, (h x hx).2.2.1⟩⟩, (h d (by simp)).2.2.2⟩

theorem good_of_validName {n : List Char} (h : validName n) : goodNm n = true := by
  cases n with
  | nil => exact absurd h id
  | cons d ds =>
    obtain ⟨hd, hds⟩ := h
    refine goodNm_of_chars (by simp) ?_ ?_
    · intro d' r he
      cases he
      exact nameStart_not_gap hd
    · intro x hx
      rcases List.mem_cons.mp hx with rfl | hx
      · exact nameCont_ok (nameStart_nameCont hd)
      · exact nameCont_ok (hds x hx)

/-- the characters of a number -/
def numChar (x : Char) : Prop := digit x ∨ x = '-' ∨ x = '+' ∨ x = '.' ∨ x = 'e' ∨ x = 'E'

theorem numChar_ok {x : Char} (h : numChar x) : (x ≠ '\n' ∧ x ≠ '\r' ∧ x ≠ '$' ∧ x ≠ '{') ∧ isGapC x = false := by
  rcases h with h | rfl | rfl | rfl | rfl | rfl
  · constructor
    · refine ⟨?_, ?_, ?_, ?_⟩ <;> (rintro rfl; exact absurd h (by decide))
    · cases hg : isGapC x with
      | false => rfl
      | true =>
        simp only [isGapC, Bool.or_eq_true, beq_iff_eq] at hg
        rcases hg with (rfl | rfl) | rfl <;> exact absurd h (by decide)
  all_goals decide

theorem good_of_numChars {t : List Char} (hne : t ≠ []) (h : ∀ x ∈ t, numChar x) : goodNm t = true :=
  goodNm_of_chars hne (fun d r he => (numChar_ok (h d (by simp [he]))).2) (fun x hx => (numChar_ok (h x hx)).1)

theorem intText_numChars {t : List Char} (h : IntText t) : t ≠ [] ∧ ∀ x ∈ t, numChar x := by
  cases h with
  | zero neg =>
    cases neg
    · exact ⟨by simp [sign], by intro x hx; simp [sign] at hx; subst hx; exact Or.inl (by decide)⟩
    · refine ⟨by simp [sign], ?_⟩
      intro x hx
      simp [sign] at hx
      rcases hx with rfl | rfl
      · exact Or.inr (Or.inl rfl)
      · exact Or.inl (by decide)
  | nz neg d ds hd hds =>
    refine ⟨by cases neg <;> simp [sign], ?_⟩
    intro x hx
    simp only [List.mem_append, List.mem_cons] at hx
    rcases hx with hx | rfl | hx
    · cases neg
      · simp [sign] at hx
      · simp [sign] at hx; subst hx; exact Or.inr (Or.inl rfl)
    · exact Or.inl (nzdigit_digit hd)
    · exact Or.inl (hds x hx)

theorem expText_numChars {t : List Char} (h : ExpText t) : ∀ x ∈ t, numChar x := by
  cases h with
  | mk e sg d ds he hsg hd hds =>
    intro x hx
    simp only [List.mem_cons, List.mem_append] at hx
    rcases hx with rfl | hx | rfl | hx
    · rcases he with rfl | rfl
      · exact Or.inr (Or.inr (Or.inr (Or.inr (Or.inl rfl))))
      · exact Or.inr (Or.inr (Or.inr (Or.inr (Or.inr rfl))))
    · rcases hsg with rfl | rfl | rfl
      · cases hx
      · simp at hx; subst hx; exact Or.inr (Or.inr (Or.inl rfl))
      · simp at hx; subst hx; exact Or.inr (Or.inl rfl)
    · exact Or.inl hd
    · exact Or.inl (hds x hx)

theorem floatText_numChars {t : List Char} (h : FloatText t) : t ≠ [] ∧ ∀ x ∈ t, numChar x := by
  cases h with
  | fe ip fd ex hip hfd hex =>
    obtain ⟨hne, hi⟩ := intText_numChars hip
    refine ⟨by simp [hne], ?_⟩
    intro x hx
    simp only [List.mem_append, List.mem_cons] at hx
    rcases hx with hx | (rfl | hx) | hx
    · exact hi x hx
    · exact Or.inr (Or.inr (Or.inr (Or.inl rfl)))
    · exact Or.inl (hfd x hx)
    · exact expText_numChars hex x hx
  | f ip fd hip hfd =>
    obtain ⟨hne, hi⟩ := intText_numChars hip
    refine ⟨by simp [hne], ?_⟩
    intro x hx
    simp only [List.mem_append, List.mem_cons] at hx
    rcases hx with hx | rfl | hx
    · exact hi x hx
    · exact Or.inr (Or.inr (Or.inr (Or.inl rfl)))
    · exact Or.inl (hfd x hx)
  | e ip ex hip hex =>
    obtain ⟨hne, hi⟩ := intText_numChars hip
    refine ⟨by simp [hne], ?_⟩
    intro x hx
    simp only [List.mem_append] at hx
    rcases hx with hx | hx
    · exact hi x hx
    · exact expText_numChars hex x hx

theorem good_of_int {t : List Char} (h : IntText t) : goodNm t = true :=
  good_of_numChars (intText_numChars h).1 (intText_numChars h).2
theorem good_of_float {t : List Char} (h : FloatText t) : goodNm t = true :=
  good_of_numChars (floatText_numChars h).1 (floatText_numChars h).2

/-- list normalisation used before applying the token lemmas -/
macro "lnorm" : tactic =>
  `(tactic| simp only [List.append_assoc, List.cons_append, List.nil_append, List.singleton_append])

/-! ### types -/

theorem fits_type : ∀ (t : GType), WF t → ∀ (sep : Bool) (cs : List (List Char × Bool)) (ts : List Tok),
    (sep = true → gapNext ts = true) → Fits cs ts → Fits (cType sep t ++ cs) (printType t ++ ts) := by
  intro t
  induction t with
  | named n pos =>
    intro hwf sep cs ts hs h
    exact fits_name n sep (good_of_validName hwf) hs h
  | list t pos ih =>
    intro hwf sep cs ts hs h
    simp only [cType, printType]
    lnorm
    refine fits_p "[" false (by decide) (by simp) ?_
    refine ih hwf false _ _ (by simp) ?_
    exact fits_p "]" sep (by decide) hs h
  | nonNull t ih =>
    intro hwf sep cs ts hs h
    simp only [cType, printType]
    lnorm
    refine ih hwf.1 false _ _ (by simp) ?_
    exact fits_p "!" sep (by decide) hs h

/-! ### values -/

theorem gapNext_lay_cons (s : String) (ts : List Tok) (h : s.toList ≠ []) : gapNext (.lay s :: ts) = true := by
  simp [gapNext, h]

mutual
theorem fits_value : (v : Value) → WFV v → ∀ (sep : Bool) (cs : List (List Char × Bool)) (ts : List Tok),
    (sep = true → gapNext ts = true) → Fits cs ts → Fits (cValue sep v ++ cs) (printValue v ++ ts)
  | .var n _ => fun hwf sep cs ts hs h => by
    simp only [cValue, printValue]; lnorm
    exact fits_var n sep (good_of_validName hwf) hs h
  | .int s _ => fun hwf sep cs ts hs h => by
    simp only [cValue, printValue]; lnorm
    exact fits_int s sep (good_of_int hwf) hs h
  | .float s _ => fun hwf sep cs ts hs h => by
    simp only [cValue, printValue]; lnorm
    exact fits_float s sep (good_of_float hwf) hs h
  | .str s _ => fun _ sep cs ts hs h => by
    simp only [cValue, printValue]; lnorm
    exact fits_str s sep hs h
  | .bool b _ => fun _ sep cs ts hs h => by
    simp only [cValue, printValue]; lnorm
    cases b
    · exact fits_name "false" sep (by decide) hs h
    · exact fits_name "true" sep (by decide) hs h
  | .null _ => fun _ sep cs ts hs h => by
    simp only [cValue, printValue]; lnorm
    exact fits_name "null" sep (by decide) hs h
  | .enum n _ => fun hwf sep cs ts hs h => by
    simp only [cValue, printValue]; lnorm
    exact fits_name n sep (good_of_validName hwf.1) hs h
  | .list vs _ => fun hwf sep cs ts hs h => by
    simp only [cValue, printValue]; lnorm
    refine fits_p "[" false (by decide) (by simp) ?_
    refine fits_valueList vs hwf true _ _ ?_
    exact fits_p "]" sep (by decide) hs h
  | .obj fs _ => fun hwf sep cs ts hs h => by
    have hwf' : WFFs fs := hwf
    simp only [cValue]
    match fs, hwf' with
    | [], _ =>
      simp only [printValue, cFields]; lnorm
      refine fits_p "{" false (by decide) (by simp) ?_
      exact fits_p "}" sep (by decide) hs h
    | [(k, kp, v)], hw =>
      simp only [printValue, cFields, List.isEmpty_nil, Bool.not_true]; lnorm
      refine fits_p "{" false (by decide) (by simp) ?_
      refine fits_name k false (good_of_validName hw.1) (by simp) ?_
      refine fits_p ":" false (by decide) (by simp) (fits_sp ?_)
      refine fits_value v hw.2.1 false _ _ (by simp) ?_
      exact fits_p "}" sep (by decide) hs h
    | f1 :: f2 :: fs', hw =>
      simp only [printValue]; lnorm
      refine fits_p "{" false (by decide) (by simp) (fits_nl (fits_ind ?_))
      refine fits_fieldLines (f1 :: f2 :: fs') hw _ _ (fits_ded ?_)
      exact fits_p "}" sep (by decide) hs h
theorem fits_valueList : (vs : List Value) → WFVs vs → ∀ (first : Bool) (cs : List (List Char × Bool)) (ts : List Tok),
    Fits cs ts → Fits (cItems vs ++ cs) (printValueList vs first ++ ts)
  | [] => fun _ first cs ts h => by simpa [cItems, printValueList] using h
  | v :: vs => fun hwf first cs ts h => by
    simp only [cItems, printValueList]; lnorm
    have step : Fits (cValue (!vs.isEmpty) v ++ (cItems vs ++ cs)) (printValue v ++ (printValueList vs false ++ ts)) := by
      refine fits_value v hwf.1 _ _ _ ?_ (fits_valueList vs hwf.2 false cs ts h)
      intro he
      cases vs with
      | nil => simp at he
      | cons w ws => simp [printValueList, gapNext]
    cases first
    · exact fits_lay "," (by decide) step
    · exact step
theorem fits_fieldLines : (fs : List (Name × Pos × Value)) → WFFs fs → ∀ (cs : List (List Char × Bool)) (ts : List Tok),
    Fits cs ts → Fits (cFields fs ++ cs) (printFieldLines fs ++ ts)
  | [] => fun _ cs ts h => by simpa [cFields, printFieldLines] using h
  | (k, kp, v) :: fs => fun hwf cs ts h => by
    simp only [cFields, printFieldLines]; lnorm
    refine fits_name k false (good_of_validName hwf.1) (by simp) ?_
    refine fits_p ":" false (by decide) (by simp) (fits_sp ?_)
    refine fits_value v hwf.2.1 _ _ _ (fun _ => by simp [nl, gapNext]) (fits_nl ?_)
    exact fits_fieldLines fs hwf.2.2 cs ts h
end

/-! ### arguments, directives -/

theorem fits_args (args : List Arg) (hne : args ≠ []) (hwf : WFFs args) (sep : Bool) (cs : List (List Char × Bool))
    (ts : List Tok) (hs : sep = true → gapNext ts = true) (h : Fits cs ts) :
    Fits (cArgs sep args ++ cs) (printArgs args ++ ts) := by
  simp only [cArgs]
  match args, hne, hwf with
  | [(k, kp, v)], _, hw =>
    simp only [printArgs, cFields, List.isEmpty_nil, Bool.not_true]; lnorm
    refine fits_p "(" false (by decide) (by simp) ?_
    refine fits_name k false (good_of_validName hw.1) (by simp) ?_
    refine fits_p ":" false (by decide) (by simp) (fits_sp ?_)
    refine fits_value v hw.2.1 false _ _ (by simp) ?_
    exact fits_p ")" sep (by decide) hs h
  | f1 :: f2 :: fs', _, hw =>
    simp only [printArgs]; lnorm
    refine fits_p "(" false (by decide) (by simp) (fits_nl (fits_ind ?_))
    refine fits_fieldLines (f1 :: f2 :: fs') hw _ _ (fits_ded ?_)
    exact fits_p ")" sep (by decide) hs h

theorem fits_dir (d : Directive) (hwf : WFDir d) (sep : Bool) (cs : List (List Char × Bool)) (ts : List Tok)
    (hs : sep = true → gapNext ts = true) (h : Fits cs ts) : Fits (cDir sep d ++ cs) (printDirective d ++ ts) := by
  simp only [cDir, printDirective]
  cases hd : d.args with
  | nil =>
    simp only [printArgs]; lnorm
    refine fits_p "@" false (by decide) (by simp) ?_
    exact fits_name d.name sep (good_of_validName hwf.1) hs h
  | cons a as =>
    lnorm
    refine fits_p "@" false (by decide) (by simp) ?_
    refine fits_name d.name false (good_of_validName hwf.1) (by simp) ?_
    exact fits_args (a :: as) (by simp) (hd ▸ hwf.2) sep cs ts hs h

theorem gapNext_printDirs (ds : List Directive) (ts : List Tok) (h : ds ≠ []) : gapNext (printDirs ds ++ ts) = true := by
  cases ds with
  | nil => exact absurd rfl h
  | cons d ds => simp [printDirs, sp, gapNext]

/-- `for d in directives { write(" "); d.print }` -/
theorem fits_dirs : ∀ (ds : List Directive), WFDirs ds → ∀ (sep : Bool) (cs : List (List Char × Bool)) (ts : List Tok),
    (sep = true → gapNext ts = true) → Fits cs ts → Fits (cDirs sep ds ++ cs) (printDirs ds ++ ts) := by
  intro ds
  induction ds with
  | nil => intro _ sep cs ts _ h; simpa [cDirs, cList, printDirs] using h
  | cons d ds ih =>
    intro hwf sep cs ts hs h
    have ih' := ih hwf.2 sep cs ts hs h
    simp only [cDirs, cList, printDirs] at ih' ⊢
    lnorm
    refine fits_sp (fits_dir d hwf.1 _ _ _ ?_ ih')
    intro he
    cases ds with
    | nil => simpa [printDirs] using hs (by simpa using he)
    | cons d' ds' => simp [printDirs, sp, gapNext]

/-- directives written without any separator (`schema @a@b{`) -/
theorem fits_dirsTight : ∀ (ds : List Directive), WFDirs ds → ∀ (cs : List (List Char × Bool)) (ts : List Tok),
    Fits cs ts → Fits (cDirs false ds ++ cs) (printDirsTight ds ++ ts) := by
  intro ds
  induction ds with
  | nil => intro _ cs ts h; simpa [cDirs, cList, printDirsTight] using h
  | cons d ds ih =>
    intro hwf cs ts h
    have ih' := ih hwf.2 cs ts h
    simp only [cDirs, cList, printDirsTight] at ih' ⊢
    lnorm
    refine fits_dir d hwf.1 _ _ _ ?_ ih'
    intro he
    cases ds <;> simp at he

end NitroVerif.C16Own
