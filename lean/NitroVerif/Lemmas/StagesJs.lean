/-
C08 (stages after parsing), part: the JavaScript / JSON printers of operation documents.

`print_operation_runtime` / `print_fragment_runtime` (operation_js_printer/printers.rs) have one panic site each:
`fragments.get(name).expect("fragment not found")` for a name collected by `fragment_names_in_selection_set`
(`Model/FragClosure.lean`: `RtErr.fragmentNotFound`); C12 characterises it (`C12_panic_only_on_undefined`).  Here it is
lifted over the checker: in a document the operation checker accepts every spread names a defined fragment
(`handler_quiet` of C03's walk lemmas = rule 5.5.2.1), the last definition of a name is what both the checker's
`fragment_map` and the printer's `fragments` map hold, hence every transitively spread name is defined and the runtime
document of EVERY definition is produced.  The JSON tree printer itself (`Model/DocJson.lean`) is a total structural
recursion without panic sites.
-/
import NitroVerif.Lemmas.CheckOpVisited
import NitroVerif.Lemmas.FragClosure
namespace NitroVerif.Stages
open NitroVerif.Gql NitroVerif.CheckOp NitroVerif.CheckCommon NitroVerif.Valid NitroVerif.FragClosure NitroVerif.ReadDoc
  NitroVerif.C12

/-- the spread collectors of the reference reader (C12) and of the checker model are the same function -/
theorem spreads_eq : ∀ (k : Nat) (ss : List Selection), Selection.sizeList ss ≤ k →
    ReadDoc.spreads ss = spreadNames ss := by
  intro k
  induction k with
  | zero =>
    intro ss hsz
    cases ss with
    | nil => simp [ReadDoc.spreads, spreadNames]
    | cons s ss => have := Selection.one_le_size s; simp [Selection.sizeList] at hsz; omega
  | succ k ih =>
    intro ss
    induction ss with
    | nil => intro _; simp [ReadDoc.spreads, spreadNames]
    | cons s ss ihs =>
      intro hsz
      have hs1 := Selection.one_le_size s
      simp only [Selection.sizeList] at hsz
      rw [spreadNames_cons, ReadDoc.spreads, ihs (by omega)]
      congr 1
      cases s with
      | field al name namePos args dirs sel =>
        cases sel with
        | none => simp [ReadDoc.spreadsSel, spreadNamesSel]
        | some ss' =>
          have hss : Selection.sizeList ss' ≤ k := by simp [Selection.size] at hsz; omega
          simp only [ReadDoc.spreadsSel, spreadNamesSel]
          exact ih ss' hss
      | spread => simp [ReadDoc.spreadsSel, spreadNamesSel]
      | inline cond dirs ss' pos =>
        have hss : Selection.sizeList ss' ≤ k := by simp [Selection.size] at hsz; omega
        simp only [ReadDoc.spreadsSel, spreadNamesSel]
        exact ih ss' hss

theorem spreads_eq' (ss : List Selection) : ReadDoc.spreads ss = spreadNames ss := spreads_eq _ ss (Nat.le_refl _)

/-- the printer's `fragments` map and the checker's `fragment_map` are both collected into a `HashMap` in document
    order: the LAST definition of a name wins in both -/
theorem getFrag_eq_fragMap (D : Doc) (n : Name) : getFrag D n = fragMap D n := by
  unfold fragMap
  induction D with
  | nil => rfl
  | cons d r ih =>
    cases d with
    | frag f =>
      have hf : CheckOp.fragsOf (ExecDef.frag f :: r) = f :: CheckOp.fragsOf r := by simp [CheckOp.fragsOf]
      rw [hf, List.reverse_cons, List.find?_append, ← ih]
      simp only [getFrag]
      cases getFrag r n with
      | some g => rfl
      | none =>
        simp only [Option.none_or, List.find?_cons, List.find?_nil]
        by_cases hfn : f.name = n
        · simp [hfn]
        · have : (f.name == n) = false := by simpa using hfn
          simp [hfn, this]
    | op o =>
      have hf : CheckOp.fragsOf (ExecDef.op o :: r) = CheckOp.fragsOf r := by simp [CheckOp.fragsOf]
      rw [hf, ← ih]; rfl
    | imp i =>
      have hf : CheckOp.fragsOf (ExecDef.imp i :: r) = CheckOp.fragsOf r := by simp [CheckOp.fragsOf]
      rw [hf, ← ih]; rfl

/-- the selection set of a definition -/
def selOfDef : ExecDef → List Selection
  | .op o => o.sel
  | .frag f => f.sel
  | .imp _ => []

section
variable {S : Schema} {D : Doc}

/-- in an accepted document every spread (anywhere inside a definition) names a fragment the document defines -/
theorem spreads_defined (h : checkOp S D = []) (hS : NoReservedFields S) {d : ExecDef} (hd : d ∈ D) {n : Name}
    (hn : n ∈ spreadNames (selOfDef d)) : ∃ f, fragMap D n = some f := by
  have key : ∀ t, ctxsOfDef S d = ctxsOfRoot S t (selOfDef d) → ∃ f, fragMap D n = some f := by
    intro t hctx
    obtain ⟨p, np, ds, ps, hmem⟩ := spread_in_allSels S n _ (selOfDef d) (Nat.le_refl _) hn (some t)
    have hmem' : (p, Selection.spread n np ds ps) ∈ allSels (allCtxs S D) := by
      simp only [allCtxs, allSels, List.mem_flatMap] at hmem ⊢
      obtain ⟨c, hc, hpc⟩ := hmem
      exact ⟨c, ⟨d, hd, by rw [hctx]; simpa [ctxsOfRoot] using hc⟩, hpc⟩
    obtain ⟨A, k, seen, vars, hA, hl⟩ := all_visited h hS _ hmem'
    cases p with
    | none => exact absurd hl (by simp [LocalFact])
    | some t' =>
      simp only [LocalFact] at hl
      obtain ⟨root, fields, _, hf, _, hq⟩ := hl
      obtain ⟨_, f, _, _, hm, _⟩ := handler_quiet hA hf hq
      exact ⟨f, hm⟩
  cases d with
  | op o => exact key _ rfl
  | frag f => exact key _ rfl
  | imp i => simp [selOfDef, spreadNames] at hn

/-- … hence every name TRANSITIVELY spread from a definition is defined -/
theorem reach_defined (h : checkOp S D = []) (hS : NoReservedFields S) {ss : List Selection} {n : Name}
    (hr : Reach (envOf D) ss n) : (∃ d ∈ D, selOfDef d = ss) → (getFrag D n).isSome = true := by
  induction hr with
  | direct hn =>
    rintro ⟨d, hd, rfl⟩
    rw [spreads_eq'] at hn
    obtain ⟨f, hf⟩ := spreads_defined h hS hd hn
    rw [getFrag_eq_fragMap, hf]; rfl
  | step _ he _ _ ih2 =>
    intro _
    apply ih2
    simp only [envOf, envOfGet, Option.map_eq_some_iff] at he
    obtain ⟨g, hg, rfl⟩ := he
    exact ⟨.frag g, (getFrag_some D _ g hg).2.2, rfl⟩

/-- the runtime document of every definition of an accepted document is produced: `expect("fragment not found")` is
    unreachable, and the depth bound of the model is not exhausted -/
theorem runtimeDefs_ok (h : checkOp S D = []) (hS : NoReservedFields S) {x : ExecDef} (hx : x ∈ D) :
    ∃ ds, runtimeDefs D x = .ok ds := by
  cases x with
  | imp i => exact ⟨[], rfl⟩
  | op o =>
    obtain ⟨names, hn⟩ := fragmentNames_total D o.sel
    have hc := hn
    rw [fragmentNames_eq_closure] at hc
    obtain ⟨_, hreach⟩ := closure_good _ _ _ _ hc
    have hall : ∀ n ∈ names, (getFrag D n).isSome :=
      fun n hm => reach_defined h hS ((hreach n).mp hm) ⟨_, hx, rfl⟩
    refine ⟨.op o :: fragDefs D names, ?_⟩
    simp [runtimeDefs, FragClosure.opNames, hn, withNames, lookupAll_ok D names hall]
  | frag f =>
    obtain ⟨names, hn⟩ := fragmentNames_total D f.sel
    have hc := hn
    rw [fragmentNames_eq_closure] at hc
    obtain ⟨_, hreach⟩ := closure_good _ _ _ _ hc
    have hall : ∀ n ∈ names.filter (fun n => n != f.name), (getFrag D n).isSome :=
      fun n hm => reach_defined h hS ((hreach n).mp (List.mem_filter.mp hm).1) ⟨_, hx, rfl⟩
    refine ⟨.frag f :: fragDefs D (names.filter fun n => n != f.name), ?_⟩
    simp [runtimeDefs, FragClosure.fragNames, hn, withNames, lookupAll_ok D _ hall]

end
end NitroVerif.Stages
