/-
Generic machinery for C17 (concrete part 3b): lists related "up to a permutation and pointwise" (`PermRel`), results
of `Except` computations related "both fail, or both succeed with related values" (`ExRel`), and how `mapM`,
`filterMapM`, `filter`, `flatten`, `++` transport these relations.
Core Lean only.
-/
import NitroVerif.Lemmas.DeterminismConcreteDecls
namespace NitroVerif.DeterminismRel
open NitroVerif.DeterminismDecls (RelList relList_refl relList_map relList_append)

universe u
variable {α β γ δ ε : Type}

/-! ### `RelList` -/

theorem relList_nil_left {R : α → β → Prop} {l : List β} : RelList R [] l ↔ l = [] := by
  cases l <;> simp [RelList]

theorem relList_nil_right {R : α → β → Prop} {l : List α} : RelList R l [] ↔ l = [] := by
  cases l <;> simp [RelList]

theorem relList_cons {R : α → β → Prop} {a : α} {b : β} {l : List α} {l' : List β} :
    RelList R (a :: l) (b :: l') ↔ R a b ∧ RelList R l l' := Iff.rfl

theorem relList_cons_left {R : α → β → Prop} {a : α} {l : List α} {l' : List β} :
    RelList R (a :: l) l' ↔ ∃ b r, l' = b :: r ∧ R a b ∧ RelList R l r := by
  cases l' with
  | nil => simp [RelList]
  | cons b r =>
    constructor
    · intro h; exact ⟨b, r, rfl, h.1, h.2⟩
    · rintro ⟨b', r', he, h1, h2⟩
      cases he
      exact ⟨h1, h2⟩

theorem relList_length {R : α → β → Prop} : ∀ {l : List α} {l' : List β}, RelList R l l' → l.length = l'.length
  | [], [], _ => rfl
  | _ :: _, _ :: _, h => by simp [relList_length h.2]
  | [], _ :: _, h => h.elim
  | _ :: _, [], h => h.elim

theorem relList_mono {R R' : α → β → Prop} (hm : ∀ a b, R a b → R' a b) :
    ∀ {l : List α} {l' : List β}, RelList R l l' → RelList R' l l'
  | [], [], _ => trivial
  | _ :: _, _ :: _, h => ⟨hm _ _ h.1, relList_mono hm h.2⟩
  | [], _ :: _, h => h.elim
  | _ :: _, [], h => h.elim

theorem relList_eq {l l' : List α} : RelList (· = ·) l l' ↔ l = l' := by
  induction l generalizing l' with
  | nil => rw [relList_nil_left]; exact eq_comm
  | cons a l ih =>
    cases l' with
    | nil => simp [RelList]
    | cons b l' => simp [RelList, ih]

theorem relList_filter {R : α → β → Prop} {p : α → Bool} {q : β → Bool} (hpq : ∀ a b, R a b → p a = q b) :
    ∀ {l : List α} {l' : List β}, RelList R l l' → RelList R (l.filter p) (l'.filter q)
  | [], [], _ => trivial
  | a :: l, b :: l', h => by
    have := hpq a b h.1
    simp only [List.filter_cons, this]
    cases q b
    · exact relList_filter hpq h.2
    · exact ⟨h.1, relList_filter hpq h.2⟩
  | [], _ :: _, h => h.elim
  | _ :: _, [], h => h.elim

theorem relList_any {R : α → β → Prop} {p : α → Bool} {q : β → Bool} (hpq : ∀ a b, R a b → p a = q b) :
    ∀ {l : List α} {l' : List β}, RelList R l l' → l.any p = l'.any q
  | [], [], _ => rfl
  | a :: l, b :: l', h => by simp only [List.any_cons, hpq a b h.1, relList_any hpq h.2]
  | [], _ :: _, h => h.elim
  | _ :: _, [], h => h.elim

theorem relList_map' {R : α → β → Prop} {Q : γ → δ → Prop} {f : α → γ} {g : β → δ}
    (hfg : ∀ a b, R a b → Q (f a) (g b)) :
    ∀ {l : List α} {l' : List β}, RelList R l l' → RelList Q (l.map f) (l'.map g)
  | [], [], _ => trivial
  | _ :: _, _ :: _, h => ⟨hfg _ _ h.1, relList_map' hfg h.2⟩
  | [], _ :: _, h => h.elim
  | _ :: _, [], h => h.elim

theorem relList_flatten {R : α → β → Prop} :
    ∀ {l : List (List α)} {l' : List (List β)}, RelList (RelList R) l l' → RelList R l.flatten l'.flatten
  | [], [], _ => trivial
  | _ :: _, _ :: _, h => by
    simp only [List.flatten_cons]
    exact relList_append h.1 (relList_flatten h.2)
  | [], _ :: _, h => h.elim
  | _ :: _, [], h => h.elim

/-- a pointwise relation commutes with a permutation on the right -/
theorem relList_perm_right {R : α → β → Prop} {l' l'' : List β} (hp : l'.Perm l'') :
    ∀ {l : List α}, RelList R l l' → ∃ g, l.Perm g ∧ RelList R g l'' := by
  induction hp with
  | nil => intro l h; exact ⟨l, List.Perm.refl _, h⟩
  | cons x _ ih =>
    intro l h
    obtain ⟨a, r, rfl, ha, hr⟩ : ∃ a r, l = a :: r ∧ R a x ∧ RelList R r _ := by
      cases l with
      | nil => exact h.elim
      | cons a r => exact ⟨a, r, rfl, h.1, h.2⟩
    obtain ⟨g, hg, hgr⟩ := ih hr
    exact ⟨a :: g, hg.cons a, ha, hgr⟩
  | swap x y t =>
    intro l h
    match l, h with
    | a :: b :: r, ⟨ha, hb, hr⟩ => exact ⟨b :: a :: r, List.Perm.swap _ _ _, hb, ha, hr⟩
  | trans _ _ ih1 ih2 =>
    intro l h
    obtain ⟨g, hg, hgr⟩ := ih1 h
    obtain ⟨g', hg', hgr'⟩ := ih2 hgr
    exact ⟨g', hg.trans hg', hgr'⟩

/-! ### `PermRel` -/

/-- `l` can be permuted into a list pointwise `R`-related to `l'` -/
def PermRel (R : α → β → Prop) (l : List α) (l' : List β) : Prop := ∃ g, l.Perm g ∧ RelList R g l'

theorem PermRel.of_rel {R : α → β → Prop} {l : List α} {l' : List β} (h : RelList R l l') : PermRel R l l' :=
  ⟨l, List.Perm.refl _, h⟩

theorem PermRel.nil {R : α → β → Prop} : PermRel R ([] : List α) ([] : List β) := .of_rel trivial

theorem PermRel.perm_left {R : α → β → Prop} {l₁ l₂ : List α} {l' : List β} (hp : l₁.Perm l₂)
    (h : PermRel R l₂ l') : PermRel R l₁ l' := by
  obtain ⟨g, hg, hr⟩ := h
  exact ⟨g, hp.trans hg, hr⟩

theorem PermRel.perm_right {R : α → β → Prop} {l : List α} {l₁' l₂' : List β} (h : PermRel R l l₁')
    (hp : l₁'.Perm l₂') : PermRel R l l₂' := by
  obtain ⟨g, hg, hr⟩ := h
  obtain ⟨g', hg', hr'⟩ := relList_perm_right hp hr
  exact ⟨g', hg.trans hg', hr'⟩

theorem PermRel.of_perm {l l' : List α} (h : l.Perm l') : PermRel (· = ·) l l' :=
  ⟨l', h, relList_eq.mpr rfl⟩

theorem PermRel.length {R : α → β → Prop} {l : List α} {l' : List β} (h : PermRel R l l') : l.length = l'.length := by
  obtain ⟨g, hg, hr⟩ := h
  rw [hg.length_eq, relList_length hr]

theorem PermRel.isEmpty {R : α → β → Prop} {l : List α} {l' : List β} (h : PermRel R l l') :
    l.isEmpty = l'.isEmpty := by
  have := h.length
  cases l <;> cases l' <;> simp_all

theorem PermRel.nil_left {R : α → β → Prop} {l' : List β} (h : PermRel R ([] : List α) l') : l' = [] := by
  have := h.length
  cases l' with
  | nil => rfl
  | cons _ _ => simp at this

theorem PermRel.mono {R R' : α → β → Prop} (hm : ∀ a b, R a b → R' a b) {l : List α} {l' : List β}
    (h : PermRel R l l') : PermRel R' l l' := by
  obtain ⟨g, hg, hr⟩ := h
  exact ⟨g, hg, relList_mono hm hr⟩

theorem PermRel.append {R : α → β → Prop} {a a' : List α} {b b' : List β} (h : PermRel R a b) (h' : PermRel R a' b') :
    PermRel R (a ++ a') (b ++ b') := by
  obtain ⟨g, hg, hr⟩ := h
  obtain ⟨g', hg', hr'⟩ := h'
  exact ⟨g ++ g', hg.append hg', relList_append hr hr'⟩

theorem PermRel.cons {R : α → β → Prop} {a : α} {b : β} {l : List α} {l' : List β} (hab : R a b)
    (h : PermRel R l l') : PermRel R (a :: l) (b :: l') := by
  obtain ⟨g, hg, hr⟩ := h
  exact ⟨a :: g, hg.cons a, hab, hr⟩

theorem PermRel.filter {R : α → β → Prop} {p : α → Bool} {q : β → Bool} (hpq : ∀ a b, R a b → p a = q b)
    {l : List α} {l' : List β} (h : PermRel R l l') : PermRel R (l.filter p) (l'.filter q) := by
  obtain ⟨g, hg, hr⟩ := h
  exact ⟨g.filter p, hg.filter p, relList_filter hpq hr⟩

theorem PermRel.any {R : α → β → Prop} {p : α → Bool} {q : β → Bool} (hpq : ∀ a b, R a b → p a = q b)
    {l : List α} {l' : List β} (h : PermRel R l l') : l.any p = l'.any q := by
  obtain ⟨g, hg, hr⟩ := h
  rw [← relList_any hpq hr]
  rw [Bool.eq_iff_iff, List.any_eq_true, List.any_eq_true]
  exact ⟨fun ⟨x, hx, hp⟩ => ⟨x, hg.mem_iff.mp hx, hp⟩, fun ⟨x, hx, hp⟩ => ⟨x, hg.mem_iff.mpr hx, hp⟩⟩

theorem PermRel.map {R : α → β → Prop} {Q : γ → δ → Prop} {f : α → γ} {g : β → δ}
    (hfg : ∀ a b, R a b → Q (f a) (g b)) {l : List α} {l' : List β} (h : PermRel R l l') :
    PermRel Q (l.map f) (l'.map g) := by
  obtain ⟨k, hk, hr⟩ := h
  exact ⟨k.map f, hk.map f, relList_map' hfg hr⟩

theorem permRel_flatten_of_rel {R : α → β → Prop} :
    ∀ {l : List (List α)} {l' : List (List β)}, RelList (PermRel R) l l' → PermRel R l.flatten l'.flatten
  | [], [], _ => .nil
  | _ :: _, _ :: _, h => by
    simp only [List.flatten_cons]
    exact h.1.append (permRel_flatten_of_rel h.2)
  | [], _ :: _, h => h.elim
  | _ :: _, [], h => h.elim

theorem PermRel.flatten {R : α → β → Prop} {l : List (List α)} {l' : List (List β)}
    (h : PermRel (PermRel R) l l') : PermRel R l.flatten l'.flatten := by
  obtain ⟨g, hg, hr⟩ := h
  exact (permRel_flatten_of_rel hr).perm_left hg.flatten

theorem PermRel.flatMap {R : α → β → Prop} {Q : γ → δ → Prop} {f : α → List γ} {g : β → List δ}
    (hfg : ∀ a b, R a b → PermRel Q (f a) (g b)) {l : List α} {l' : List β} (h : PermRel R l l') :
    PermRel Q (l.flatMap f) (l'.flatMap g) := by
  rw [List.flatMap_def, List.flatMap_def]
  exact (h.map hfg).flatten

/-! ### `ExRel` -/

/-- both computations fail (with any panic), or both succeed with `R`-related values -/
def ExRel (R : α → β → Prop) : Except ε α → Except ε β → Prop
  | .ok a, .ok b => R a b
  | .error _, .error _ => True
  | _, _ => False

theorem exRel_ok {R : α → β → Prop} {a : α} {b : β} (h : R a b) : ExRel (ε := ε) R (.ok a) (.ok b) := h

theorem exRel_pure {R : α → β → Prop} {a : α} {b : β} (h : R a b) :
    ExRel (ε := ε) R (pure a) (pure b) := h

theorem exRel_error {R : α → β → Prop} (e e' : ε) : ExRel R (.error e : Except ε α) (.error e' : Except ε β) :=
  trivial

theorem exRel_bind {R : α → β → Prop} {Q : γ → δ → Prop} {x : Except ε α} {y : Except ε β}
    {f : α → Except ε γ} {g : β → Except ε δ} (hxy : ExRel R x y)
    (hfg : ∀ a b, R a b → ExRel Q (f a) (g b)) : ExRel Q (x >>= f) (y >>= g) := by
  cases x <;> cases y
  · trivial
  · exact hxy.elim
  · exact hxy.elim
  · exact hfg _ _ hxy

theorem exRel_mono {R R' : α → β → Prop} (hm : ∀ a b, R a b → R' a b) {x : Except ε α} {y : Except ε β}
    (h : ExRel R x y) : ExRel R' x y := by
  cases x <;> cases y
  · trivial
  · exact h.elim
  · exact h.elim
  · exact hm _ _ h

theorem exRel_refl {R : α → α → Prop} (hr : ∀ a, R a a) (x : Except ε α) : ExRel R x x := by
  cases x
  · trivial
  · exact hr _

theorem exRel_of_eq {R : α → α → Prop} (hr : ∀ a, R a a) {x y : Except ε α} (h : x = y) : ExRel R x y :=
  h ▸ exRel_refl hr x

theorem exRel_trans {R : α → β → Prop} {Q : β → γ → Prop} {P : α → γ → Prop}
    (hc : ∀ a b c, R a b → Q b c → P a c) {x : Except ε α} {y : Except ε β} {z : Except ε γ}
    (h1 : ExRel R x y) (h2 : ExRel Q y z) : ExRel P x z := by
  cases x <;> cases y <;> cases z <;> first | trivial | exact h1.elim | exact h2.elim | exact hc _ _ _ h1 h2

theorem exRel_map {R : α → β → Prop} {Q : γ → δ → Prop} {x : Except ε α} {y : Except ε β} {f : α → γ} {g : β → δ}
    (hxy : ExRel R x y) (hfg : ∀ a b, R a b → Q (f a) (g b)) : ExRel Q (f <$> x) (g <$> y) := by
  cases x <;> cases y
  · trivial
  · exact hxy.elim
  · exact hxy.elim
  · exact hfg _ _ hxy

/-! ### `mapM` / `filterMapM` in `Except` -/

theorem exRel_mapM_rel {R : α → β → Prop} {Q : γ → δ → Prop} {f : α → Except ε γ} {f' : β → Except ε δ}
    (hf : ∀ a b, R a b → ExRel Q (f a) (f' b)) :
    ∀ {l : List α} {l' : List β}, RelList R l l' → ExRel (RelList Q) (l.mapM f) (l'.mapM f')
  | [], [], _ => by simp only [List.mapM_nil]; exact exRel_pure trivial
  | a :: l, b :: l', h => by
    simp only [List.mapM_cons]
    apply exRel_bind (hf a b h.1)
    intro c d hcd
    apply exRel_bind (exRel_mapM_rel hf h.2)
    intro cs ds hcs
    exact exRel_pure ⟨hcd, hcs⟩
  | [], _ :: _, h => h.elim
  | _ :: _, [], h => h.elim

theorem exRel_mapM_perm {f : α → Except ε γ} {l l' : List α} (hp : l.Perm l') :
    ExRel List.Perm (l.mapM f) (l'.mapM f) := by
  induction hp with
  | nil => simp only [List.mapM_nil]; exact exRel_pure (List.Perm.refl _)
  | cons x _ ih =>
    simp only [List.mapM_cons]
    apply exRel_bind (exRel_refl (fun _ => rfl) (f x))
    intro c d hcd
    subst hcd
    apply exRel_bind ih
    intro cs ds hcs
    exact exRel_pure (hcs.cons c)
  | swap x y t =>
    simp only [List.mapM_cons]
    cases f x <;> cases f y <;> cases t.mapM f <;> first | trivial | exact List.Perm.swap _ _ _
  | trans _ _ ih1 ih2 => exact exRel_trans (fun _ _ _ h1 h2 => h1.trans h2) ih1 ih2

theorem exRel_mapM_permRel {R : α → β → Prop} {Q : γ → δ → Prop} {f : α → Except ε γ} {f' : β → Except ε δ}
    (hf : ∀ a b, R a b → ExRel Q (f a) (f' b)) {l : List α} {l' : List β} (h : PermRel R l l') :
    ExRel (PermRel Q) (l.mapM f) (l'.mapM f') := by
  obtain ⟨g, hg, hr⟩ := h
  exact exRel_trans (fun a b c h1 h2 => ⟨b, h1, h2⟩) (exRel_mapM_perm hg) (exRel_mapM_rel hf hr)

/-- related optional results -/
def OptRel (Q : γ → δ → Prop) : Option γ → Option δ → Prop
  | some c, some d => Q c d
  | none, none => True
  | _, _ => False

theorem exRel_filterMapM_rel {R : α → β → Prop} {Q : γ → δ → Prop} {f : α → Except ε (Option γ)}
    {f' : β → Except ε (Option δ)} (hf : ∀ a b, R a b → ExRel (OptRel Q) (f a) (f' b)) :
    ∀ {l : List α} {l' : List β}, RelList R l l' → ExRel (RelList Q) (l.filterMapM f) (l'.filterMapM f')
  | [], [], _ => by simp only [List.filterMapM_nil]; exact exRel_pure trivial
  | a :: l, b :: l', h => by
    simp only [List.filterMapM_cons]
    apply exRel_bind (hf a b h.1)
    intro c d hcd
    cases c <;> cases d
    · exact exRel_filterMapM_rel hf h.2
    · exact hcd.elim
    · exact hcd.elim
    · apply exRel_bind (exRel_filterMapM_rel hf h.2)
      intro cs ds hcs
      exact exRel_pure ⟨hcd, hcs⟩
  | [], _ :: _, h => h.elim
  | _ :: _, [], h => h.elim

theorem filterMapM_eq_mapM (f : α → Except ε (Option γ)) (l : List α) :
    l.filterMapM f = (fun os => os.filterMap id) <$> l.mapM f := by
  induction l with
  | nil => rfl
  | cons a l ih =>
    simp only [List.filterMapM_cons, List.mapM_cons, ih]
    cases f a with
    | error e => rfl
    | ok o => cases o <;> cases l.mapM f <;> rfl

theorem exRel_filterMapM_perm {f : α → Except ε (Option γ)} {l l' : List α} (hp : l.Perm l') :
    ExRel List.Perm (l.filterMapM f) (l'.filterMapM f) := by
  rw [filterMapM_eq_mapM, filterMapM_eq_mapM]
  exact exRel_map (exRel_mapM_perm hp) fun _ _ h => h.filterMap id

theorem exRel_filterMapM_permRel {R : α → β → Prop} {Q : γ → δ → Prop} {f : α → Except ε (Option γ)}
    {f' : β → Except ε (Option δ)} (hf : ∀ a b, R a b → ExRel (OptRel Q) (f a) (f' b)) {l : List α} {l' : List β}
    (h : PermRel R l l') : ExRel (PermRel Q) (l.filterMapM f) (l'.filterMapM f') := by
  obtain ⟨g, hg, hr⟩ := h
  exact exRel_trans (fun a b c h1 h2 => ⟨b, h1, h2⟩) (exRel_filterMapM_perm hg) (exRel_filterMapM_rel hf hr)

end NitroVerif.DeterminismRel
