import NitroVerif.Lemmas.CheckOpComplete
/-!
Completeness of `check_value` (C04): a literal the specification's input coercion accepts (`valueIssues = []`),
expected at a position whose named type is an input type of the schema, and whose variable usages are all
handled quietly, makes `checkValue` report only allowed kinds — for every value, by induction on its size
(nested lists and input objects).
-/
namespace NitroVerif.CheckOp
open NitroVerif.Gql NitroVerif.CheckCommon NitroVerif.Valid

/-- the (unwrapped) named type of `t` is defined and is an input type (scalar, enum or input object) -/
def InputTy (S : Schema) (t : GType) : Prop :=
  ∃ td, S.typeDef? t.unwrapped = some td ∧ Schema.isInputKind td.kind = true

/-- the variable case of `check_value_at` is quiet on the usage `u` -/
def UseQuiet (A : ErrKind → Bool) (vars : Option (List VarDef)) (u : VarUse) : Prop :=
  Quiet A (varCheck vars u.name u.pos u.locTy u.locDefault)

/-- every field of every input object has an input type -/
def InputFieldsTyped (S : Schema) : Prop := ∀ td ∈ S.typeDefs, ∀ a ∈ td.inputs, InputTy S a.ty

theorem inputTy_of_unwrapped {S : Schema} {t t' : GType} (h : t'.unwrapped = t.unwrapped) (hi : InputTy S t) :
    InputTy S t' := by
  unfold InputTy at hi ⊢
  rw [h]; exact hi

theorem scalarAccepts_null (n : Name) (p : Pos) : scalarAccepts n (.null p) = true := by
  unfold scalarAccepts
  by_cases h1 : n = "Boolean" <;> by_cases h2 : n = "Int" <;> by_cases h3 : n = "Float" <;>
    by_cases h4 : n = "String" <;> by_cases h5 : n = "ID" <;> simp [h1, h2, h3, h4, h5]

/-- `null` against a defined input type is accepted -/
theorem namedLeaf_null {S : Schema} {n : Name} {np p : Pos} {td : TypeDef} (ht : S.typeDef? n = some td)
    (hk : Schema.isInputKind td.kind = true) : namedLeaf S (.null p) n np = [] := by
  unfold namedLeaf
  simp only [ht]
  unfold leafCompat
  cases hkk : td.kind <;> simp [hkk, Schema.isInputKind, scalarAccepts_null] at hk ⊢

/-- a leaf literal the specification coerces to the named type is accepted by `namedLeaf` -/
theorem namedLeaf_of_coercible {S : Schema} {v : Value} {n : Name} {np : Pos} (hv : Value.isLeafLit v = true)
    (h : leafCoercible S v n = true) : namedLeaf S v n np = [] := by
  unfold leafCoercible at h
  cases ht : S.typeDef? n with
  | none => simp [ht] at h
  | some td =>
    have hname := typeDef?_name ht
    simp only [ht] at h
    unfold namedLeaf
    simp only [ht]
    unfold leafCompat
    cases hk : td.kind with
    | scalar =>
      simp only [hk] at h ⊢
      have h' : scalarAccepts n v = true := by rw [scalar_table n v hv]; exact h
      rw [hname, h']
      simp
    | object => simp [hk] at h
    | interface => simp [hk] at h
    | union => simp [hk] at h
    | input => simp [hk] at h
    | enum =>
      simp only [hk] at h ⊢
      cases v <;> simp [Value.isLeafLit] at hv <;> try (simp at h; done)
      rename_i m p
      simp only at h ⊢
      obtain ⟨x, hx, hxm⟩ := List.any_eq_true.mp h
      have : td.values.all (·.name != m) = false := by
        cases hall : td.values.all (·.name != m) with
        | false => rfl
        | true =>
          have := List.all_eq_true.mp hall x hx
          simp at hxm this
          exact absurd hxm this
      simp [this]

theorem kind_beq_scalar {k : TypeKind} : (k == TypeKind.scalar) = true → k = .scalar := by
  cases k <;> decide

/-- a list or object literal against a custom scalar is accepted -/
theorem namedLeaf_custom_scalar {S : Schema} {v : Value} {n : Name} {np : Pos} {td : TypeDef}
    (hv : (∃ vs p, v = .list vs p) ∨ (∃ fs p, v = .obj fs p))
    (ht : S.typeDef? n = some td) (hk : td.kind = .scalar) (hb : isBuiltinScalar n = false) :
    namedLeaf S v n np = [] := by
  have hname := typeDef?_name ht
  unfold namedLeaf
  simp only [ht]
  unfold leafCompat
  simp only [hk]
  rcases hv with ⟨vs, p, rfl⟩ | ⟨fs, p, rfl⟩
  · rw [hname, scalarAccepts_list, hb]; simp
  · rw [hname, scalarAccepts_obj, hb]; simp

/-- the tags `valueIssues` produces are those of the four value rules -/
theorem valueIssues_tags (S : Schema) : ∀ (k : Nat) (v : Value), v.size ≤ k → ∀ (t : GType),
    ∀ x ∈ valueIssues S v t, x = "5.6.1" ∨ x = "5.6.2" ∨ x = "5.6.3" ∨ x = "5.6.4" := by
  intro k
  induction k with
  | zero => intro v hv; cases v <;> simp [Value.size] at hv
  | succ k ih =>
    have hlist : ∀ (vs : List Value) (inner : GType), Value.sizeList vs ≤ k →
        ∀ x ∈ valueIssuesList S vs inner, x = "5.6.1" ∨ x = "5.6.2" ∨ x = "5.6.3" ∨ x = "5.6.4" := by
      intro vs inner
      induction vs with
      | nil => intro _ x hx; simp [valueIssuesList] at hx
      | cons v vs ihvs =>
        intro hsz x hx
        simp only [Value.sizeList] at hsz
        simp only [valueIssuesList, List.mem_append] at hx
        rcases hx with hx | hx
        · exact ih v (by omega) inner x hx
        · exact ihvs (by omega) x hx
    have hfields : ∀ (inputs : List InputValueDef) (fs : List (Name × Pos × Value)), Value.sizeFields fs ≤ k →
        ∀ x ∈ fieldIssues S fs inputs, x = "5.6.1" ∨ x = "5.6.2" ∨ x = "5.6.3" ∨ x = "5.6.4" := by
      intro inputs fs
      induction fs with
      | nil => intro _ x hx; simp [fieldIssues] at hx
      | cons f fs ihfs =>
        obtain ⟨kk, p, v⟩ := f
        intro hsz x hx
        simp only [Value.sizeFields] at hsz
        simp only [fieldIssues, List.mem_append] at hx
        rcases hx with hx | hx
        · cases hfd : inputs.find? (·.name == kk) with
          | none => simp [hfd] at hx
          | some d => simp only [hfd] at hx; exact ih v (by omega) d.ty x hx
        · exact ihfs (by omega) x hx
    intro v hsz t x hx
    cases v with
    | var n p => simp [valueIssues] at hx
    | null p =>
      simp only [valueIssues] at hx
      split at hx <;> simp at hx
      exact Or.inl hx
    | list vs p =>
      simp only [Value.size] at hsz
      simp only [valueIssues] at hx
      split at hx
      · exact hlist vs _ (by omega) x hx
      · split at hx
        · split at hx <;> simp at hx
          exact Or.inl hx
        · simp at hx; exact Or.inl hx
      · simp at hx
    | obj fs p =>
      simp only [Value.size] at hsz
      simp only [valueIssues] at hx
      split at hx
      · split at hx
        · simp only [List.mem_append] at hx
          rcases hx with ((hx | hx) | hx) | hx
          · split at hx <;> simp at hx
            exact Or.inr (Or.inl hx)
          · split at hx <;> simp at hx
            exact Or.inr (Or.inr (Or.inl hx))
          · split at hx <;> simp at hx
            exact Or.inr (Or.inr (Or.inr hx))
          · exact hfields _ fs (by omega) x hx
        · split at hx <;> simp at hx
          exact Or.inl hx
      · simp at hx; exact Or.inl hx
    | int s p => simp only [valueIssues] at hx; split at hx <;> simp at hx; exact Or.inl hx
    | float s p => simp only [valueIssues] at hx; split at hx <;> simp at hx; exact Or.inl hx
    | str s p => simp only [valueIssues] at hx; split at hx <;> simp at hx; exact Or.inl hx
    | bool s p => simp only [valueIssues] at hx; split at hx <;> simp at hx; exact Or.inl hx
    | enum s p => simp only [valueIssues] at hx; split at hx <;> simp at hx; exact Or.inl hx

/-- a value none of the four value rules complains about has no issue at all -/
theorem valueIssues_nil {S : Schema} {v : Value} {t : GType}
    (h1 : (valueIssues S v t).contains "5.6.1" = false) (h2 : (valueIssues S v t).contains "5.6.2" = false)
    (h3 : (valueIssues S v t).contains "5.6.3" = false) (h4 : (valueIssues S v t).contains "5.6.4" = false) :
    valueIssues S v t = [] := by
  cases hvi : valueIssues S v t with
  | nil => rfl
  | cons x xs =>
    exfalso
    have hx : x ∈ valueIssues S v t := by rw [hvi]; simp
    rcases valueIssues_tags S _ v (Nat.le_refl _) t x hx with rfl | rfl | rfl | rfl
    · have : (valueIssues S v t).contains "5.6.1" = true := by simpa using hx
      rw [this] at h1; cases h1
    · have : (valueIssues S v t).contains "5.6.2" = true := by simpa using hx
      rw [this] at h2; cases h2
    · have : (valueIssues S v t).contains "5.6.3" = true := by simpa using hx
      rw [this] at h3; cases h3
    · have : (valueIssues S v t).contains "5.6.4" = true := by simpa using hx
      rw [this] at h4; cases h4

/-- with unique definition names a definition is the one found under its own name -/
theorem find?_inputDef_of_nodup : ∀ (defs : List InputValueDef), nodupB (defs.map (·.name)) = true → ∀ d ∈ defs,
    defs.find? (·.name == d.name) = some d := by
  intro defs
  induction defs with
  | nil => intro _ d h; cases h
  | cons x xs ih =>
    intro hnd d hd
    simp only [List.map_cons] at hnd
    obtain ⟨hx, hnd'⟩ := (nodupB_cons_iff _ _).mp hnd
    rw [List.find?_cons]
    rcases List.mem_cons.mp hd with rfl | hd
    · simp
    · have hne : x.name ≠ d.name := by
        intro h; exact hx (h ▸ List.mem_map.mpr ⟨d, hd, rfl⟩)
      have h1 : (x.name == d.name) = false := beq_eq_false_iff_ne.mpr hne
      simp only [h1]
      exact ih hnd' d hd

/-- the nested check `lookupField` reports is quiet when every value field with that key is -/
theorem lookupField_quiet {S : Schema} {A : ErrKind → Bool} {vars : Option (List VarDef)} {n : Name} {t : GType} {ld : Bool} :
    ∀ (fs : List (Name × Pos × Value)), (∀ k p v, (k, p, v) ∈ fs → k = n → Quiet A (checkValue S vars v t ld)) →
      ∀ ds, lookupField S vars fs n t ld = some ds → Quiet A ds := by
  intro fs
  induction fs with
  | nil => intro _ ds h; simp [lookupField] at h
  | cons f fs ih =>
    obtain ⟨k, p, v⟩ := f
    intro hq ds h
    simp only [lookupField] at h
    by_cases hk : n = k
    · subst hk
      simp only [beq_self_eq_true, if_true, Option.some.injEq] at h
      subst h
      exact hq n p v (by simp) rfl
    · have h1 : (n == k) = false := beq_eq_false_iff_ne.mpr hk
      simp only [h1, Bool.false_eq_true, if_false] at h
      exact ih (fun k' p' v' hm => hq k' p' v' (List.mem_cons_of_mem _ hm)) ds h

/-- the input-object case is quiet when the literal's keys are unique and defined, the required fields are
    present, and the nested checks are quiet -/
theorem objResult_complete {A : ErrKind → Bool} {S : Schema} {vars : Option (List VarDef)}
    {fs : List (Name × Pos × Value)} {inputs : List InputValueDef} {p : Pos}
    (hnd : nodupB (fs.map (·.1)) = true)
    (hdef : ∀ f ∈ fs, inputs.any (·.name == f.1) = true)
    (hreq : ∀ d ∈ inputs, (d.ty.isNonNull && d.default.isNone) = true → fs.any (·.1 == d.name) = true)
    (hq : ∀ k p' v, (k, p', v) ∈ fs → ∀ d ∈ inputs, d.name = k → Quiet A (checkValue S vars v d.ty d.default.isSome)) :
    Quiet A (objResult (inputs.map fun f => fieldOutcome (lookupField S vars fs f.name f.ty f.default.isSome) f) fs.length p) := by
  unfold objResult
  rw [quiet_append]
  refine ⟨?_, ?_⟩
  · rw [quiet_flatMap]
    intro oc hoc
    obtain ⟨d, hd, rfl⟩ := List.mem_map.mp hoc
    unfold fieldOutcome
    cases hl : lookupField S vars fs d.name d.ty d.default.isSome with
    | none => simp only []; split <;> exact quiet_nil
    | some ds =>
      simp only []
      exact lookupField_quiet fs (fun k p' v hm hk => hq k p' v hm d hd hk.symm) ds hl
  · have hok : ((inputs.map fun f => fieldOutcome (lookupField S vars fs f.name f.ty f.default.isSome) f).all (·.ok)) = true := by
      rw [List.all_eq_true]
      intro oc hoc
      obtain ⟨d, hd, rfl⟩ := List.mem_map.mp hoc
      unfold fieldOutcome
      cases hl : lookupField S vars fs d.name d.ty d.default.isSome with
      | some ds => rfl
      | none =>
        simp only []
        cases hr : (d.ty.isNonNull && d.default.isNone) with
        | false => simp
        | true =>
          exfalso
          have hany := hreq d hd hr
          obtain ⟨f, hf, hfn⟩ := List.any_eq_true.mp hany
          have hs : (lookupField S vars fs d.name d.ty d.default.isSome).isSome = true := by
            rw [lookupField_isSome]
            simp only [List.contains_iff_mem]
            exact List.mem_map.mpr ⟨f, hf, by simpa using hfn⟩
          rw [hl] at hs; cases hs
    have hcount : ((inputs.map fun f => fieldOutcome (lookupField S vars fs f.name f.ty f.default.isSome) f).filter (·.seen)).length
        = ((inputs.map (·.name)).filter (fun x => (fs.map (·.1)).contains x)).length := by
      rw [List.filter_map, List.length_map, List.filter_map, List.length_map]
      congr 1
      apply List.filter_congr
      intro d _
      simp only [Function.comp]
      rw [← lookupField_isSome S vars d.name d.ty d.default.isSome fs]
      unfold fieldOutcome
      cases lookupField S vars fs d.name d.ty d.default.isSome with
      | none => simp only [Option.isSome_none]; split <;> rfl
      | some ds => rfl
    have hle : fs.length ≤ ((inputs.map (·.name)).filter (fun x => (fs.map (·.1)).contains x)).length := by
      have h1 := matched_le hnd (inputs.map (·.name))
      have h2 : (fs.map (·.1)).filter (fun x => (inputs.map (·.name)).contains x) = fs.map (·.1) := by
        rw [List.filter_eq_self]
        intro x hx
        obtain ⟨f, hf, rfl⟩ := List.mem_map.mp hx
        obtain ⟨d, hd, hdn⟩ := List.any_eq_true.mp (hdef f hf)
        simp only [List.contains_iff_mem]
        exact List.mem_map.mpr ⟨d, hd, by simpa using hdn⟩
      rw [h2, List.length_map] at h1
      exact h1
    rw [hok, hcount]
    have : ¬ (((inputs.map (·.name)).filter (fun x => (fs.map (·.1)).contains x)).length < fs.length) := by omega
    rw [decide_eq_false this]
    exact quiet_nil

section
variable {S : Schema} {A : ErrKind → Bool} {vars : Option (List VarDef)}
  (hU : uniqueArgNamesB S = true) (hI : InputFieldsTyped S)
include hU hI

/-- **Completeness of `check_value`.** -/
theorem checkValue_complete : ∀ (k : Nat) (v : Value), v.size ≤ k → ∀ (t : GType) (ld : Bool), InputTy S t →
    valueIssues S v t = [] → (∀ u ∈ varUses S v t ld, UseQuiet A vars u) → Quiet A (checkValue S vars v t ld) := by
  intro k
  induction k with
  | zero => intro v hv; cases v <;> simp [Value.size] at hv
  | succ k ih =>
    have hlist : ∀ (vs : List Value) (inner : GType), Value.sizeList vs ≤ k → InputTy S inner →
        valueIssuesList S vs inner = [] → (∀ u ∈ varUsesList S vs inner, UseQuiet A vars u) →
        Quiet A (checkValueList S vars vs inner) := by
      intro vs inner
      induction vs with
      | nil => intro _ _ _ _; simp only [checkValueList]; exact quiet_nil
      | cons v vs ihvs =>
        intro hsz hin hvi hu
        simp only [Value.sizeList] at hsz
        simp only [valueIssuesList] at hvi
        obtain ⟨hv1, hv2⟩ := append_eq_nil' hvi
        simp only [checkValueList]
        rw [quiet_append]
        refine ⟨ih v (by omega) inner false hin hv1 ?_, ihvs (by omega) hin hv2 ?_⟩
        · intro u huu; exact hu u (by simp only [varUsesList, List.mem_append]; exact Or.inl huu)
        · intro u huu; exact hu u (by simp only [varUsesList, List.mem_append]; exact Or.inr huu)
    -- the nested checks of the fields of an object literal
    have hfields : ∀ (inputs : List InputValueDef), nodupB (inputs.map (·.name)) = true → (∀ a ∈ inputs, InputTy S a.ty) →
        ∀ (fs : List (Name × Pos × Value)), Value.sizeFields fs ≤ k →
        fieldIssues S fs inputs = [] → (∀ u ∈ varUsesFields S fs inputs, UseQuiet A vars u) →
        ∀ kk p v, (kk, p, v) ∈ fs → ∀ d ∈ inputs, d.name = kk → Quiet A (checkValue S vars v d.ty d.default.isSome) := by
      intro inputs hnd hin fs
      induction fs with
      | nil => intro _ _ _ kk p v hm; cases hm
      | cons f fs ihfs =>
        obtain ⟨k1, p1, v1⟩ := f
        intro hsz hfi hu kk p v hm d hd hdk
        simp only [Value.sizeFields] at hsz
        simp only [fieldIssues] at hfi
        obtain ⟨hf1, hf2⟩ := append_eq_nil' hfi
        rcases List.mem_cons.mp hm with hm | hm
        · have e1 : kk = k1 := (Prod.mk.inj hm).1
          have e3 : v = v1 := (Prod.mk.inj (Prod.mk.inj hm).2).2
          subst e1 e3
          have hfd : inputs.find? (·.name == kk) = some d := by
            rw [← hdk]; exact find?_inputDef_of_nodup inputs hnd d hd
          simp only [hfd] at hf1
          refine ih v (by omega) d.ty d.default.isSome (hin d hd) hf1 ?_
          intro u huu
          exact hu u (by simp only [varUsesFields, hfd, List.mem_append]; exact Or.inl huu)
        · refine ihfs (by omega) hf2 ?_ kk p v hm d hd hdk
          intro u huu
          exact hu u (by simp only [varUsesFields, List.mem_append]; exact Or.inr huu)
    intro v hsz t ld hin hvi hu
    cases v with
    | var n p =>
      simp only [checkValue]
      exact hu ⟨n, p, t, ld⟩ (by simp [varUses])
    | null p =>
      simp only [checkValue, Value.isNull, if_true]
      simp only [valueIssues] at hvi
      cases hnn : t.isNonNull with
      | true => simp [hnn] at hvi
      | false =>
        simp only [Bool.false_eq_true, if_false]
        cases t with
        | nonNull x => simp [GType.isNonNull] at hnn
        | list x q => simp only [CheckCommon.stripNonNull]; exact quiet_nil
        | named n q =>
          simp only [CheckCommon.stripNonNull]
          obtain ⟨td, ht, hk⟩ := hin
          simp only [GType.unwrapped] at ht
          rw [namedLeaf_null ht hk]; exact quiet_nil
    | list vs p =>
      simp only [checkValue]
      simp only [Value.size] at hsz
      simp only [valueIssues, stripNonNull_eq] at hvi
      cases hst : CheckCommon.stripNonNull t with
      | nonNull x => exact absurd hst (stripNonNull_not_nonNull t x)
      | list inner q =>
        simp only [hst] at hvi ⊢
        have hin' : InputTy S inner := by
          apply inputTy_of_unwrapped _ hin
          rw [← stripNonNull_unwrapped t, hst]; rfl
        refine hlist vs inner (by omega) hin' hvi ?_
        intro u huu
        exact hu u (by simp only [varUses, stripNonNull_eq, hst]; exact huu)
      | named n np =>
        simp only [hst] at hvi ⊢
        cases ht : S.typeDef? n with
        | none => simp [ht] at hvi
        | some td =>
          simp only [ht] at hvi
          cases hc : (td.kind == TypeKind.scalar && !isBuiltinScalar n) with
          | false => simp [hc] at hvi
          | true =>
            simp only [Bool.and_eq_true, Bool.not_eq_true'] at hc
            rw [namedLeaf_custom_scalar (Or.inl ⟨vs, p, rfl⟩) ht (kind_beq_scalar hc.1) hc.2]; exact quiet_nil
    | obj fs p =>
      simp only [checkValue]
      simp only [Value.size] at hsz
      rw [baseNamed_fst]
      simp only [valueIssues] at hvi
      cases ht : S.typeDef? t.unwrapped with
      | none => simp [ht] at hvi
      | some td =>
        simp only [ht] at hvi ⊢
        cases hki : (td.kind == TypeKind.input) with
        | true =>
          simp only [hki, if_true] at hvi ⊢
          obtain ⟨hvi, h4⟩ := append_eq_nil' hvi
          obtain ⟨hvi, h3⟩ := append_eq_nil' hvi
          obtain ⟨h1, h2⟩ := append_eq_nil' hvi
          have e1 : (fs.all fun f => td.inputs.any (·.name == f.1)) = true := by
            cases hc : (fs.all fun f => td.inputs.any (·.name == f.1)) with
            | true => rfl
            | false => rw [hc] at h1; simp at h1
          have e2 : nodupB (fs.map (·.1)) = true := by
            cases hc : nodupB (fs.map (·.1)) with
            | true => rfl
            | false => rw [hc] at h2; simp at h2
          have e3 : (td.inputs.all fun d => !(d.ty.isNonNull && d.default.isNone) || fs.any (·.1 == d.name)) = true := by
            cases hc : (td.inputs.all fun d => !(d.ty.isNonNull && d.default.isNone) || fs.any (·.1 == d.name)) with
            | true => rfl
            | false => rw [hc] at h3; simp at h3
          have hmem := typeDef?_mem ht
          apply objResult_complete e2 (List.all_eq_true.mp e1)
          · intro d hd hr
            have := List.all_eq_true.mp e3 d hd
            simpa [hr] using this
          · refine hfields td.inputs (inputs_nodup hU ht) (hI td hmem) fs (by omega) h4 ?_
            intro u huu
            exact hu u (by simp only [varUses, ht, hki, if_true]; exact huu)
        | false =>
          simp only [hki, Bool.false_eq_true, if_false] at hvi ⊢
          cases hc : (td.kind == TypeKind.scalar && !isBuiltinScalar td.name) with
          | false => simp [hc] at hvi
          | true =>
            simp only [Bool.and_eq_true, Bool.not_eq_true'] at hc
            have hname := typeDef?_name ht
            have := namedLeaf_custom_scalar (np := p) (Or.inr ⟨fs, p, rfl⟩) ht (kind_beq_scalar hc.1) (by rw [← hname]; exact hc.2)
            unfold namedLeaf at this
            simp only [ht] at this
            have this' : ((leafCompat (Value.obj fs p) td).fst ++
                if (leafCompat (Value.obj fs p) td).snd = true then [] else [(ErrKind.TypeMismatch, p)]) = [] := this
            rw [this']; exact quiet_nil
    | int s p =>
      simp only [checkValue, Value.isNull, Bool.false_eq_true, if_false]
      rw [baseNamed_fst]
      simp only [valueIssues] at hvi
      have : leafCoercible S (.int s p) t.unwrapped = true := by
        cases hc : leafCoercible S (.int s p) t.unwrapped with | true => rfl | false => simp [hc] at hvi
      rw [namedLeaf_of_coercible rfl this]; exact quiet_nil
    | float s p =>
      simp only [checkValue, Value.isNull, Bool.false_eq_true, if_false]
      rw [baseNamed_fst]
      simp only [valueIssues] at hvi
      have : leafCoercible S (.float s p) t.unwrapped = true := by
        cases hc : leafCoercible S (.float s p) t.unwrapped with | true => rfl | false => simp [hc] at hvi
      rw [namedLeaf_of_coercible rfl this]; exact quiet_nil
    | str s p =>
      simp only [checkValue, Value.isNull, Bool.false_eq_true, if_false]
      rw [baseNamed_fst]
      simp only [valueIssues] at hvi
      have : leafCoercible S (.str s p) t.unwrapped = true := by
        cases hc : leafCoercible S (.str s p) t.unwrapped with | true => rfl | false => simp [hc] at hvi
      rw [namedLeaf_of_coercible rfl this]; exact quiet_nil
    | bool s p =>
      simp only [checkValue, Value.isNull, Bool.false_eq_true, if_false]
      rw [baseNamed_fst]
      simp only [valueIssues] at hvi
      have : leafCoercible S (.bool s p) t.unwrapped = true := by
        cases hc : leafCoercible S (.bool s p) t.unwrapped with | true => rfl | false => simp [hc] at hvi
      rw [namedLeaf_of_coercible rfl this]; exact quiet_nil
    | enum s p =>
      simp only [checkValue, Value.isNull, Bool.false_eq_true, if_false]
      rw [baseNamed_fst]
      simp only [valueIssues] at hvi
      have : leafCoercible S (.enum s p) t.unwrapped = true := by
        cases hc : leafCoercible S (.enum s p) t.unwrapped with | true => rfl | false => simp [hc] at hvi
      rw [namedLeaf_of_coercible rfl this]; exact quiet_nil

/-- `checkValue_complete` without the size bound -/
theorem checkValue_complete' {v : Value} {t : GType} {ld : Bool} (hin : InputTy S t)
    (hvi : valueIssues S v t = []) (hu : ∀ u ∈ varUses S v t ld, UseQuiet A vars u) :
    Quiet A (checkValue S vars v t ld) :=
  checkValue_complete hU hI _ v (Nat.le_refl _) t ld hin hvi hu
end

end NitroVerif.CheckOp
