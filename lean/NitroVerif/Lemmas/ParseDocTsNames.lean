/-
Type-system definitions (helper lemmas for Props/C07Doc): lists of named types separated by `&` / `|`
(`ImplementsInterfaces`, `UnionMemberTypes`) and `RootOperationTypeDefinitions`.
-/
import NitroVerif.Lemmas.ParseDocTsFields
import NitroVerif.Lemmas.ParseDocOp
namespace NitroVerif.DocParse
open NitroVerif.Peg NitroVerif.Gen NitroVerif.Gen.Parts NitroVerif.Build NitroVerif.TypeParse NitroVerif.StringParse
open NitroVerif.Gql NitroVerif.ValueParse NitroVerif.Spec.Lex NitroVerif.ParseText

set_option linter.unusedSimpArgs false

theorem look_ImplementsInterfaces : gList.look R.ImplementsInterfaces = some (.normal, .seq (.call R.KEYWORD_implements)
    (.seq (.opt (.str ['&'])) (.seq (.call R.NamedType) (.star (.seq (.str ['&']) (.call R.NamedType)))))) := rfl
theorem look_UnionMemberTypes : gList.look R.UnionMemberTypes = some (.normal, .seq (.opt (.str ['|']))
    (.seq (.call R.NamedType) (.star (.seq (.str ['|']) (.call R.NamedType))))) := rfl
theorem look_KEYWORD_implements : gList.look R.KEYWORD_implements = some (.atomic,
    .seq (.str ['i', 'm', 'p', 'l', 'e', 'm', 'e', 'n', 't', 's']) (.not (.call R.NameContinue))) := rfl
theorem look_RootOperationTypeDefinitions : gList.look R.RootOperationTypeDefinitions = some (.normal,
    .seq (.str ['{']) (.seq (.plus (.call R.RootOperationTypeDefinition)) (.str ['}']))) := rfl
theorem look_RootOperationTypeDefinition : gList.look R.RootOperationTypeDefinition = some (.normal,
    .seq (.call R.OperationType) (.seq (.str [':']) (.call R.NamedType))) := rfl

variable {inp : List Char}

/-! ### `Name (c Name)*` -/

/-- `c gap name gap` -/
def riSepName (τ : Trivia) (c : Char) : Bool → Nat → (Name × Pos) → List Char := fun s q n =>
  tk τ false q [c] ++ tk τ s (q + (tk τ false q [c]).length) n.1.toList

/-- names separated by `c` (no leading separator) -/
def rNames (τ : Trivia) (c : Char) (sep : Bool) (p : Nat) : List (Name × Pos) → List Char
  | [] => []
  | n :: rest =>
    tk τ (sep && rest.isEmpty) p n.1.toList ++
      renderItems (riSepName τ c) false sep (p + (tk τ (sep && rest.isEmpty) p n.1.toList).length) rest

def wpNames (τ : Trivia) (inp : List Char) (c : Char) (sep : Bool) (p : Nat) : List (Name × Pos) → List (Name × Pos)
  | [] => []
  | n :: rest => (n.1, posAt inp p) ::
      mapItems (riSepName τ c) false sep (fun _ q m => (m.1, posAt inp (q + (tk τ false q [c]).length)))
        (p + (tk τ (sep && rest.isEmpty) p n.1.toList).length) rest

def NameGood (τ : Trivia) (inp : List Char) (c : Char) : Bool → Nat → (Name × Pos) → Pair → Prop := fun _ q n pr =>
  pr = .mk R.NamedType (q + (tk τ false q [c]).length) (q + (tk τ false q [c]).length + n.1.toList.length)
    [.mk R.Name (q + (tk τ false q [c]).length) (q + (tk τ false q [c]).length + n.1.toList.length) []] ∧
  HasAt inp (q + (tk τ false q [c]).length) n.1.toList

theorem ident_namedType (inp : List Char) (q : Nat) (n : Name) (h : HasAt inp q n.toList) :
    ident (Ctx.spec inp) (.mk R.NamedType q (q + n.toList.length) [.mk R.Name q (q + n.toList.length) []]) =
      (n, posAt inp q) := by
  have hs := h.slice
  simp [ident, asString_spec', toPos_spec', Pair.start, Pair.stop, hs]

theorem hd_rNames (τ : Trivia) (c : Char) (sep : Bool) (p : Nat) (ns : List (Name × Pos))
    (hv : ∀ n ∈ ns, validName n.1.toList) : rNames τ c sep p ns = [] ∨ Hd nameStart (rNames τ c sep p ns) := by
  cases ns with
  | nil => exact Or.inl rfl
  | cons n rest => exact Or.inr (Hd.append (hd_tk (hd_of_validName (hv n (List.mem_cons_self ..)))) _)

/-- `NamedType (c NamedType)*` on a non-empty list of valid names; what follows must not begin with `c` -/
theorem namesT (τ : Trivia) (hτ : ∀ q, Ws (τ q)) (c : Char) (hc : ¬ trivia c ∧ ¬ nameCont c) (n : Name × Pos)
    (rest : List (Name × Pos)) (hv : ∀ x ∈ n :: rest, validName x.1.toList) {sep : Bool} {p : Nat} {bad : Char → Prop}
    (hb : bad c) (h : HasAt inp p (rNames τ c sep p (n :: rest)))
    (hn : Nxt inp bad sep (p + (rNames τ c sep p (n :: rest)).length)) :
    ∃ pss, RunsK (B (rNames τ c sep p (n :: rest)).length + 40)
        (.seq (.call R.NamedType) (.star (.seq (.str [c]) (.call R.NamedType)))) (At inp p)
        (At inp (p + (rNames τ c sep p (n :: rest)).length)) pss ∧
      (∀ x ∈ pss, x.rule = R.NamedType) ∧ CleanL pss ∧
      pss.map (ident (Ctx.spec inp)) = wpNames τ inp c sep p (n :: rest) := by
  simp only [rNames, wpNames] at h hn ⊢
  generalize hs1 : (sep && rest.isEmpty) = s1 at *
  generalize hN : tk τ s1 p n.1.toList = tN at *
  generalize hI : renderItems (riSepName τ c) false sep (p + tN.length) rest = tI at *
  have hlen : p + (tN ++ tI).length = p + tN.length + tI.length := by simp only [List.length_append]; omega
  rw [hlen] at hn ⊢
  have g0 : HasAt inp p tN := h.left
  have g1 : HasAt inp (p + tN.length) tI := h.right
  have hvn : validName n.1.toList := hv n (List.mem_cons_self ..)
  have hhd : ∀ x s q, Hd (· = c) (riSepName τ c s q x) := fun x s q =>
    Hd.append (hd_tk (P := (· = c)) (hd_cons [] rfl)) _
  -- one `c Name` item
  have hitem : ∀ x ∈ rest, ∀ s q, HasAt inp q (riSepName τ c s q x) → Nxt inp (fun _ => False) s (q + (riSepName τ c s q x).length) →
      ∃ pr, RunsK (B (riSepName τ c s q x).length + 10) (.seq (.str [c]) (.call R.NamedType)) (At inp q)
        (At inp (q + (riSepName τ c s q x).length)) [pr] ∧ NameGood τ inp c s q x pr := by
    intro x hx s q hat hnx
    simp only [riSepName, NameGood] at hat hnx ⊢
    generalize hC : tk τ false q [c] = tC at *
    generalize hM : tk τ s (q + tC.length) x.1.toList = tM at *
    have hl : q + (tC ++ tM).length = q + tC.length + tM.length := by simp only [List.length_append]; omega
    rw [hl] at hnx ⊢
    have hxv : validName x.1.toList := hv x (List.mem_cons_of_mem _ hx)
    have a0 : HasAt inp q tC := hat.left
    have a1 : HasAt inp (q + tC.length) tM := hat.right
    have r0 := strT hτ [c] (hC ▸ a0) (by
      rw [hC]; exact tok_of_hd a1 (hM ▸ hd_tk (hd_of_validName hxv)) (fun d => nameStart_not_trivia))
    have r1 := runsKE_rule look_NamedType' (by decide) (by decide) (nameT hτ hxv (hM ▸ a1) (by rw [hM]; exact hnx))
    rw [hC] at r0
    rw [hM] at r1
    refine ⟨_, RunsK.cast ((runsK_seq r0 r1.toK).mono (by barith)) rfl rfl (by simp [At]), rfl,
      (hM ▸ a1 : HasAt inp _ (tk τ s _ _)).left⟩
  -- the first name
  have hnx0 : Nxt inp (fun _ => False) s1 (p + tN.length) := by
    cases rest with
    | nil =>
      have hI0 : tI = [] := by rw [← hI]; rfl
      subst hI0
      have hs : s1 = sep := by rw [← hs1]; simp
      rw [hs]
      have : Nxt inp bad sep (p + tN.length) := by simpa using hn
      exact ⟨this.tok, fun _ _ _ h => h, this.glue⟩
    | cons m ms =>
      obtain ⟨s', tail, htl⟩ := renderItems_cons (riSepName τ c) false sep (p + tN.length) m ms
      exact Nxt.of_hd g1 (hI ▸ htl ▸ (hhd m s' _).append _) (by rintro d rfl; exact ⟨hc.1, id, hc.2⟩)
  have r0 := runsKE_rule look_NamedType' (by decide) (by decide) (nameT hτ hvn (hN ▸ g0) (by rw [hN]; exact hnx0))
  rw [hN] at r0
  have hname0 := (hN ▸ g0 : HasAt inp p (tk τ s1 p n.1.toList)).left
  -- the remaining names
  have hfailE : Fails gList (10 + 100) true (.seq (.str [c]) (.call R.NamedType)) .nonAtomic
      (At inp (p + tN.length + tI.length)) :=
    (fails_seq_1 (str_fails (headNot_mono (fun d (hd : d = c) => hd ▸ hb) hn.ok))).mono (by omega)
  cases rest with
  | nil =>
    have hI0 : tI = [] := by rw [← hI]; rfl
    subst hI0
    simp only [List.length_nil, Nat.add_zero] at hn hfailE ⊢
    have rS := runsK_star (ManyK.nil hfailE hn.tok)
    refine ⟨_, (runsK_seq r0.toK rS).mono (by barith), ?_, ?_, ?_⟩
    · intro x hx; simp at hx; subst hx; rfl
    · exact ⟨cleanP_of (by decide) (by decide) ⟨cleanP_of (by decide) (by decide) trivial, trivial⟩, trivial⟩
    · simp [mapItems, At, ident_namedType inp p n.1 hname0]
  | cons m ms =>
    obtain ⟨pss, hmany, hgood⟩ := items_many1K (riSepName τ c) false sep (.seq (.str [c]) (.call R.NamedType))
      (fun _ _ => False) 10 (NameGood τ inp c) ms m (p + tN.length) hitem
      (fun x _ s q => (hhd x s q).mono (by rintro d rfl; exact ⟨hc.1, id, fun _ => hc.2⟩))
      (hI ▸ g1) (by rw [hI]; exact ⟨hn.tok, fun _ _ _ h => h, hn.glue⟩) (by rw [hI]; exact hfailE)
    rw [hI] at hmany
    obtain ⟨k, hk, hmany'⟩ := hmany.many
    have rS := runsK_star hmany'
    have hrules : ∀ x ∈ pss, x.rule = R.NamedType :=
      goodItems_forall (riSepName τ c) false sep _ (fun x => x.rule = R.NamedType) (m :: ms)
        (fun x _ s q pr hg => by rw [hg.1]; rfl) _ pss hgood
    have hclean : CleanL pss := goodItems_clean (riSepName τ c) false sep _ (m :: ms)
      (fun x _ s q pr hg => by
        rw [hg.1]
        exact cleanP_of (by decide) (by decide) ⟨cleanP_of (by decide) (by decide) trivial, trivial⟩) _ pss hgood
    have hmap := goodItems_map (riSepName τ c) false sep (NameGood τ inp c) (ident (Ctx.spec inp))
      (fun _ q x => (x.1, posAt inp (q + (tk τ false q [c]).length))) (m :: ms)
      (fun x _ s q pr hg => by rw [hg.1, ident_namedType inp _ x.1 hg.2]) _ pss hgood
    refine ⟨_, (runsK_seq r0.toK rS).mono (by barith), ?_, ?_, ?_⟩
    · intro x hx
      simp only [List.singleton_append, List.mem_cons] at hx
      rcases hx with rfl | hx
      · rfl
      · exact hrules x hx
    · exact ⟨cleanP_of (by decide) (by decide) ⟨cleanP_of (by decide) (by decide) trivial, trivial⟩, hclean⟩
    · simp [At, ident_namedType inp p n.1 hname0, hmap]


/-! ### `implements A & B` -/

abbrev kwImplements : List Char := ['i', 'm', 'p', 'l', 'e', 'm', 'e', 'n', 't', 's']

def rOptImpl (τ : Trivia) (sep : Bool) (p : Nat) : List (Name × Pos) → List Char
  | [] => []
  | n :: rest => tk τ true p kwImplements ++ rNames τ '&' sep (p + (tk τ true p kwImplements).length) (n :: rest)

theorem hd_rOptImpl (τ : Trivia) (sep : Bool) (p : Nat) (ns : List (Name × Pos)) :
    rOptImpl τ sep p ns = [] ∨ Hd (· = 'i') (rOptImpl τ sep p ns) := by
  cases ns with
  | nil => exact Or.inl rfl
  | cons n rest => exact Or.inr (Hd.append (hd_tk (P := (· = 'i')) (hd_cons _ rfl)) _)

theorem rOptImpl_eq_nil {τ : Trivia} {sep : Bool} {p : Nat} {ns : List (Name × Pos)} (h : rOptImpl τ sep p ns = []) :
    ns = [] := by
  cases ns with
  | nil => rfl
  | cons n rest => exact absurd h (Hd.append (hd_tk (P := (· = 'i')) (hd_cons _ rfl)) _).ne_nil

theorem mapM_ident (ctx : Ctx) : ∀ (pss : List Pair), (∀ x ∈ pss, x.rule = R.NamedType) →
    pss.mapM (fun n => if n.rule ≠ R.NamedType then (Except.error Panic.implementsItem : M (String × Pos))
      else .ok (ident ctx n)) = .ok (pss.map (ident ctx)) := by
  intro pss
  induction pss with
  | nil => intro _; rfl
  | cons x xs ih =>
    intro h
    have hx := h x (List.mem_cons_self ..)
    simp only [List.mapM_cons, hx, ne_eq, not_true_eq_false, if_false, ih (fun y hy => h y (List.mem_cons_of_mem _ hy)),
      List.map_cons, bind, Except.bind, pure, Except.pure]

/-- `ImplementsInterfaces?`; if the list is empty the next token must not begin with `i` -/
theorem optImplT (τ : Trivia) (hτ : ∀ q, Ws (τ q)) (ns : List (Name × Pos)) (hv : ∀ x ∈ ns, validName x.1.toList)
    {sep : Bool} {p : Nat} {bad : Char → Prop} (hb : bad '&') (hbi : ns = [] → bad 'i')
    (h : HasAt inp p (rOptImpl τ sep p ns))
    (hn : Nxt inp bad sep (p + (rOptImpl τ sep p ns).length)) :
    ∃ o : Option Pair, RunsK (B (rOptImpl τ sep p ns).length + 50) (.opt (.call R.ImplementsInterfaces)) (At inp p)
        (At inp (p + (rOptImpl τ sep p ns).length)) o.toList ∧ (∀ x ∈ o, PairOk R.ImplementsInterfaces p x) ∧
      optImplements (Ctx.spec inp) o = .ok (wpNames τ inp '&' sep (p + (tk τ true p kwImplements).length) ns) := by
  cases ns with
  | nil =>
    have hn' : Nxt inp bad sep p := by simpa [rOptImpl] using hn
    have hf := fails_rule look_ImplementsInterfaces (by decide) (by decide)
      (fails_seq_1 (kw_fails_head (la := .none) look_KEYWORD_implements
        (headNot_mono (fun d (hd : d = 'i') => hd ▸ hbi rfl) hn'.ok)))
    simp only [rOptImpl, List.length_nil, Nat.add_zero]
    exact ⟨none, (runsK_opt_none hf hn'.tok).mono (by barith), by simp, rfl⟩
  | cons n rest =>
    simp only [rOptImpl] at h hn ⊢
    generalize hK : tk τ true p kwImplements = tK at *
    generalize hN : rNames τ '&' sep (p + tK.length) (n :: rest) = tN at *
    have hlen : p + (tK ++ tN).length = p + tK.length + tN.length := by simp only [List.length_append]; omega
    rw [hlen] at hn ⊢
    have g0 : HasAt inp p tK := h.left
    have g1 : HasAt inp (p + tK.length) tN := h.right
    have hdN : Hd nameStart tN := by
      rw [← hN]; simp only [rNames]
      exact Hd.append (hd_tk (hd_of_validName (hv n (List.mem_cons_self ..)))) _
    have r0 := kwT hτ look_KEYWORD_implements (hK ▸ g0) (bad := fun _ => False) (by
      rw [hK]; exact Nxt.of_hd_sep g1 hdN (fun d hd => ⟨nameStart_not_trivia hd, id⟩))
    rw [hK] at r0
    have rAmp : RunsK 22 (.opt (.str ['&'])) (At inp (p + tK.length)) (At inp (p + tK.length)) [] :=
      (runsK_opt_none (str_fails (headNot_of_hd g1 hdN (fun d hd => (nameStart_not_punct hd).2.2.2.2.2.2.2.2.2.2.2.2.2.1)))
        (tok_of_hd g1 hdN (fun d => nameStart_not_trivia))).mono (by simp)
    obtain ⟨pss, rN, hrules, hclean, hmap⟩ := namesT τ hτ '&' (by decide) n rest hv hb (hN ▸ g1) (by rw [hN]; exact hn)
    rw [hN] at rN
    obtain ⟨e, rI⟩ := runsK_rule look_ImplementsInterfaces (by decide) (by decide) (runsK_seq r0.toK (runsK_seq rAmp rN))
    have hlK : 1 ≤ tK.length := by rw [← hK]; simp [tk]
    refine ⟨some (.mk R.ImplementsInterfaces p e (.mk R.KEYWORD_implements p (p + kwImplements.length) [] :: pss)), ?_, ?_, ?_⟩
    · exact RunsK.cast ((runsK_opt_some rI).mono (by barith)) rfl rfl (by simp [At])
    · intro x hx
      cases hx
      exact pairOk_mk (by decide) (by decide) ⟨cleanP_of (by decide) (by decide) trivial, hclean⟩
    · simp only [optImplements, buildImplementsInterfaces, Pair.children]
      rw [if_neg (by simp [Pair.rule]), mapM_ident _ pss hrules, hmap]

/-! ### `A | B` -/

theorem unionMembers_fails {p : Nat} (h : HeadNot (fun d => nameStart d ∨ d = '|') (inp.drop p)) (ht : Tok (At inp p)) :
    Fails gList 40 true (.call R.UnionMemberTypes) .nonAtomic (At inp p) :=
  (fails_rule look_UnionMemberTypes (by decide) (by decide)
    (fails_seq_K (runsK_opt_none (str_fails (headNot_mono (fun _ h => Or.inr h) h)) ht)
      (fails_seq_1 (namedType_fails_at (headNot_mono (fun _ h => Or.inl h) h))))).mono (by simp)

/-- the `UnionMemberTypes` rule on a non-empty list of valid names; what follows must not begin with `|` -/
theorem membersT (τ : Trivia) (hτ : ∀ q, Ws (τ q)) (n : Name × Pos) (rest : List (Name × Pos))
    (hv : ∀ x ∈ n :: rest, validName x.1.toList) {sep : Bool} {p : Nat} {bad : Char → Prop} (hb : bad '|')
    (h : HasAt inp p (rNames τ '|' sep p (n :: rest))) (hn : Nxt inp bad sep (p + (rNames τ '|' sep p (n :: rest)).length)) :
    ∃ pr, RunsK (B (rNames τ '|' sep p (n :: rest)).length + 50) (.call R.UnionMemberTypes) (At inp p)
        (At inp (p + (rNames τ '|' sep p (n :: rest)).length)) [pr] ∧ PairOk R.UnionMemberTypes p pr ∧
      namedTypeIdents (Ctx.spec inp) AC_UnionMemberTypes (some pr) = .ok (wpNames τ inp '|' sep p (n :: rest)) := by
  have hdN : Hd nameStart (rNames τ '|' sep p (n :: rest)) := by
    simp only [rNames]
    exact Hd.append (hd_tk (hd_of_validName (hv n (List.mem_cons_self ..)))) _
  have rBar : RunsK 22 (.opt (.str ['|'])) (At inp p) (At inp p) [] :=
    (runsK_opt_none (str_fails (headNot_of_hd h hdN (fun d hd => (nameStart_not_punct hd).2.2.2.2.2.2.2.2.2.2.2.2.1)))
      (tok_of_hd h hdN (fun d => nameStart_not_trivia))).mono (by simp)
  obtain ⟨pss, rN, hrules, hclean, hmap⟩ := namesT τ hτ '|' (by decide) n rest hv hb h hn
  obtain ⟨e, rU⟩ := runsK_rule look_UnionMemberTypes (by decide) (by decide) (runsK_seq rBar rN)
  have hall : allChildrenGo AC_UnionMemberTypes pss = .ok () := by
    clear hmap hclean rU rN
    induction pss with
    | nil => rfl
    | cons x xs ih =>
      simp only [allChildrenGo, AC_UnionMemberTypes, hrules x (List.mem_cons_self ..), if_true]
      exact ih (fun y hy => hrules y (List.mem_cons_of_mem _ hy))
  refine ⟨.mk R.UnionMemberTypes p e pss, RunsK.cast (rU.mono (by barith)) rfl rfl (by simp [At]),
    pairOk_mk (by decide) (by decide) hclean, ?_⟩
  simp [namedTypeIdents, allChildren, Pair.children, hall, hmap, bind, Except.bind]

/-! ### root operation types -/

def rRoot (τ : Trivia) (sep : Bool) (p : Nat) (r : OpKind × Name × Pos) : List Char :=
  let tK := tk τ false p (opKw r.1)
  let tC := tk τ false (p + tK.length) [':']
  tK ++ (tC ++ tk τ sep (p + tK.length + tC.length) r.2.1.toList)

def wpRoot (τ : Trivia) (inp : List Char) (_sep : Bool) (p : Nat) (r : OpKind × Name × Pos) : OpKind × Name × Pos :=
  let tK := tk τ false p (opKw r.1)
  let tC := tk τ false (p + tK.length) [':']
  (r.1, r.2.1, posAt inp (p + tK.length + tC.length))

/-- the function `build_root_operation_type_definitions` maps over its children -/
def rootFn (ctx : Ctx) : Pair → M (OpKind × String × Pos) := fun d => do
  let (ot, nt) ← get2 "RootOperationTypeDefinition" (← matchParts P_RootOperationTypeDefinition d.children)
  let k ← strToOperationType (asStr ctx ot)
  .ok (k, asString ctx nt, toPos ctx nt)

theorem buildRoots_eq (ctx : Ctx) (s e : Nat) (cs : List Pair)
    (hcs : allChildrenGo AC_RootOperationTypeDefinitions cs = .ok ()) :
    buildRootOperationTypeDefinitions ctx (.mk R.RootOperationTypeDefinitions s e cs) = cs.mapM (rootFn ctx) := by
  unfold rootFn
  simp [buildRootOperationTypeDefinitions, allChildren, Pair.children, hcs, bind, Except.bind]

def RootGood (τ : Trivia) (inp : List Char) : Bool → Nat → (OpKind × Name × Pos) → Pair → Prop := fun s q r pr =>
  PairOk R.RootOperationTypeDefinition q pr ∧ rootFn (Ctx.spec inp) pr = .ok (wpRoot τ inp s q r)

theorem hd_rRoot (τ : Trivia) (sep : Bool) (p : Nat) (r : OpKind × Name × Pos) :
    Hd (fun c => c = 'q' ∨ c = 'm' ∨ c = 's') (rRoot τ sep p r) := by
  simp only [rRoot]
  exact Hd.append (hd_tk (hd_opKw r.1)) _

theorem rootT (τ : Trivia) (hτ : ∀ q, Ws (τ q)) (r : OpKind × Name × Pos) (hv : validName r.2.1.toList) {sep : Bool}
    {p : Nat} (h : HasAt inp p (rRoot τ sep p r)) (hn : Nxt inp (fun _ => False) sep (p + (rRoot τ sep p r).length)) :
    ∃ pr, RunsK (B (rRoot τ sep p r).length + 30) (.call R.RootOperationTypeDefinition) (At inp p)
        (At inp (p + (rRoot τ sep p r).length)) [pr] ∧ RootGood τ inp sep p r pr := by
  simp only [rRoot, RootGood, wpRoot] at h hn ⊢
  generalize hK : tk τ false p (opKw r.1) = tK at *
  generalize hC : tk τ false (p + tK.length) [':'] = tC at *
  generalize hN : tk τ sep (p + tK.length + tC.length) r.2.1.toList = tN at *
  have hlen : p + (tK ++ (tC ++ tN)).length = p + tK.length + tC.length + tN.length := by
    simp only [List.length_append]; omega
  rw [hlen] at hn ⊢
  have g0 : HasAt inp p tK := h.left
  have g1 : HasAt inp (p + tK.length) tC := h.right.left
  have g2 : HasAt inp (p + tK.length + tC.length) tN := h.right.right
  have hdC : Hd (· = ':') tC := hC ▸ hd_tk (hd_cons _ rfl)
  have hdN : Hd nameStart tN := hN ▸ hd_tk (hd_of_validName hv)
  have r0 := opTypeT hτ r.1 (hK ▸ g0) (bad := fun _ => False) (by
    rw [hK]; exact Nxt.of_hd g1 hdC (by rintro c rfl; decide))
  have r1 := strT hτ [':'] (hC ▸ g1) (by rw [hC]; exact tok_of_hd g2 hdN (fun d => nameStart_not_trivia))
  have r2 := runsKE_rule look_NamedType' (by decide) (by decide) (nameT hτ hv (hN ▸ g2) (by rw [hN]; exact hn))
  rw [hK] at r0
  rw [hC] at r1
  rw [hN] at r2
  obtain ⟨e, rR⟩ := runsK_rule look_RootOperationTypeDefinition (by decide) (by decide)
    (runsK_seq r0.toK (runsK_seq r1 r2.toK))
  refine ⟨_, rR.mono (by barith), ?_, ?_⟩
  · refine pairOk_mk (by decide) (by decide) ⟨cleanP_of (by decide) (by decide) ⟨cleanP_of ?_ ?_ trivial, trivial⟩,
      cleanP_of (by decide) (by decide) ⟨cleanP_of (by decide) (by decide) trivial, trivial⟩, trivial⟩
    all_goals cases r.1 <;> decide
  · have hkw : asStr (Ctx.spec inp) (Pair.mk R.OperationType p (p + (opKw r.1).length)
        [Pair.mk (opKwRule r.1) p (p + (opKw r.1).length) []]) = opKw r.1 :=
      (hK ▸ g0 : HasAt inp p (tk τ false p (opKw r.1))).left.slice
    have hname := (hN ▸ g2 : HasAt inp _ (tk τ sep _ r.2.1.toList)).left.slice
    simp [rootFn, Pair.children, matchParts, P_RootOperationTypeDefinition, Pair.rule, get2, hkw,
      strToOperationType_opKw, asString_spec', toPos_spec', Pair.start, Pair.stop, hname, At, Except.map, bind,
      Except.bind]

theorem root_fails {q : Nat} (h : HeadNot (fun c => c = 'q' ∨ c = 'm' ∨ c = 's') (inp.drop q)) :
    Fails gList 30 true (.call R.RootOperationTypeDefinition) .nonAtomic (At inp q) :=
  (fails_rule look_RootOperationTypeDefinition (by decide) (by decide) (fails_seq_1 (opType_fails h))).mono (by simp)

/-- `{ roots } gap` -/
def rRoots (τ : Trivia) (sep : Bool) (p : Nat) (rs : List (OpKind × Name × Pos)) : List Char :=
  rBraced (rRoot τ) true τ '{' '}' sep p rs

def wpRoots (τ : Trivia) (inp : List Char) (p : Nat) (rs : List (OpKind × Name × Pos)) : List (OpKind × Name × Pos) :=
  mapItems (rRoot τ) true false (wpRoot τ inp) p rs

theorem rootsDef_fails {p : Nat} (h : HeadNot (· = '{') (inp.drop p)) :
    Fails gList 4 true (.call R.RootOperationTypeDefinitions) .nonAtomic (At inp p) :=
  fails_rule look_RootOperationTypeDefinitions (by decide) (by decide) (fails_seq_1 (str_fails h))

theorem rootsT (τ : Trivia) (hτ : ∀ q, Ws (τ q)) (a : OpKind × Name × Pos) (r : List (OpKind × Name × Pos))
    (hv : ∀ x ∈ a :: r, validName x.2.1.toList) {sep : Bool} {p : Nat} (h : HasAt inp p (rRoots τ sep p (a :: r)))
    (ht : Tok (At inp (p + (rRoots τ sep p (a :: r)).length))) :
    ∃ pr, RunsK (B (rRoots τ sep p (a :: r)).length + 45) (.call R.RootOperationTypeDefinitions) (At inp p)
        (At inp (p + (rRoots τ sep p (a :: r)).length)) [pr] ∧ PairOk R.RootOperationTypeDefinitions p pr ∧
      buildRootOperationTypeDefinitions (Ctx.spec inp) pr =
        .ok (wpRoots τ inp (p + (tk τ false p ['{']).length) (a :: r)) := by
  simp only [rRoots] at h ht ⊢
  obtain ⟨e, pss, hrun, hgood⟩ := bracedT (rRoot τ) true τ hτ R.RootOperationTypeDefinitions
    R.RootOperationTypeDefinition '{' '}' look_RootOperationTypeDefinitions (by decide) (by decide)
    (fun _ _ => False) 30 (RootGood τ inp) ⟨by decide, id, by decide⟩
    (fun q hq hne => (root_fails (headNot_of_head_eq hq (by decide))).mono (by omega))
    r a sep p
    (fun x hx s q hat hnx => rootT τ hτ x (hv x hx) hat hnx)
    (fun x hx s q => (hd_rRoot τ s q x).mono (by
      rintro c (rfl | rfl | rfl) <;> exact ⟨by decide, id, fun h => by cases h⟩)) h ht
  have hclean : CleanL pss := goodItems_clean (rRoot τ) true false (RootGood τ inp) (a :: r)
    (fun x _ s q pr hg => hg.1.clean) _ pss hgood
  refine ⟨_, hrun, pairOk_mk (by decide) (by decide) hclean, ?_⟩
  have hall := goodItems_all (rRoot τ) true false (RootGood τ inp) R.RootOperationTypeDefinition (a :: r)
    (fun x _ s q pr hg => hg.1.rule) _ pss hgood
  rw [buildRoots_eq _ _ _ _ hall]
  exact goodItems_mapM (rRoot τ) true false (RootGood τ inp) (rootFn (Ctx.spec inp)) (wpRoot τ inp) _ (a :: r)
    (fun x _ s q pr hg _ => hg.2) _ pss (Nat.le_refl _) hgood

end NitroVerif.DocParse
