import NitroVerif.Lemmas.JsonTextDoc
/-!
# C12, text level — the literal contains no raw control character

`chars_printable`: for a tree without numbers (`shape`; the document printer's trees) every character of json-writer's text is
U+0020 or above — json-writer escapes every C0 control, and the structural characters are printable. In particular the literal
contains no line break: it stays on the line of its `const`, and the indentation `SourceWriter` inserts at line starts never
falls inside it.
-/
namespace NitroVerif.JsonText
open NitroVerif NitroVerif.PrintMap

theorem hexDigit_printable : ∀ n, n < 32 → 32 ≤ (hexDigit (n / 16)).toNat ∧ 32 ≤ (hexDigit (n % 16)).toNat := by
  decide

theorem jsonEscChar_printable (c : Char) : ∀ x ∈ jsonEscChar c, 32 ≤ x.toNat := by
  unfold jsonEscChar
  repeat' split
  all_goals try (intro x hx; simp only [List.mem_cons, List.not_mem_nil, or_false] at hx; rcases hx with rfl | rfl <;> decide)
  · rename_i h
    have := hexDigit_printable _ h
    intro x hx
    simp only [List.mem_cons, List.not_mem_nil, or_false] at hx
    rcases hx with rfl | rfl | rfl | rfl | rfl | rfl
    · decide
    · decide
    · decide
    · decide
    · exact this.1
    · exact this.2
  · rename_i h
    intro x hx
    simp only [List.mem_cons, List.not_mem_nil, or_false] at hx
    subst hx
    omega

theorem escChars_printable (s : List Char) : ∀ x ∈ escChars s, 32 ≤ x.toNat := by
  intro x hx
  simp only [escChars, List.mem_flatMap] at hx
  obtain ⟨c, _, hc⟩ := hx
  exact jsonEscChar_printable c x hc

theorem strChars_printable (s : String) : ∀ x ∈ strChars s, 32 ≤ x.toNat := by
  intro x hx
  simp only [strChars, List.mem_cons, List.mem_append, List.not_mem_nil, or_false] at hx
  rcases hx with rfl | hx | rfl
  · decide
  · exact escChars_printable _ x hx
  · decide

mutual
theorem chars_printable : (t : Json) → shape t = true → ∀ x ∈ chars t, 32 ≤ x.toNat
  | .null, _ => by simp only [chars]; decide
  | .bool b, _ => by cases b <;> (simp only [chars]; decide)
  | .num _, h => by simp [shape] at h
  | .str s, _ => by simp only [chars]; exact strChars_printable s
  | .arr xs, h => by
    simp only [shape] at h
    intro x hx
    simp only [chars, List.mem_cons, List.mem_append, List.not_mem_nil, or_false] at hx
    rcases hx with rfl | hx | rfl
    · decide
    · exact charsList_printable xs true h x hx
    · decide
  | .obj kvs, h => by
    simp only [shape, Bool.and_eq_true] at h
    intro x hx
    simp only [chars, List.mem_cons, List.mem_append, List.not_mem_nil, or_false] at hx
    rcases hx with rfl | hx | rfl
    · decide
    · exact charsFields_printable kvs true h.2 x hx
    · decide
theorem charsList_printable : (xs : List Json) → (first : Bool) → shapeList xs = true →
    ∀ x ∈ charsList xs first, 32 ≤ x.toNat
  | [], _, _ => by simp [charsList]
  | y :: ys, first, h => by
    simp only [shapeList, Bool.and_eq_true] at h
    intro x hx
    simp only [charsList, List.mem_append] at hx
    rcases hx with (hx | hx) | hx
    · cases first <;> simp at hx
      subst hx; decide
    · exact chars_printable y h.1 x hx
    · exact charsList_printable ys false h.2 x hx
theorem charsFields_printable : (kvs : List (String × Json)) → (first : Bool) → shapeFields kvs = true →
    ∀ x ∈ charsFields kvs first, 32 ≤ x.toNat
  | [], _, _ => by simp [charsFields]
  | (k, v) :: r, first, h => by
    simp only [shapeFields, Bool.and_eq_true] at h
    intro x hx
    simp only [charsFields, List.mem_append, List.mem_cons] at hx
    rcases hx with ((hx | hx) | (hx | hx)) | hx
    · cases first <;> simp at hx
      subst hx; decide
    · exact strChars_printable k x hx
    · subst hx; decide
    · exact chars_printable v h.1 x hx
    · exact charsFields_printable r false h.2 x hx
end

end NitroVerif.JsonText
