/-
C08 (stages after parsing), the operation type printer, part D: from "all sufficiently large fuels" to EVERY pair of
fuels, in particular the model's own.  `doc_trees_ok` (part C) gives a tree at large fuels; `ref_implTree`
(Lemmas/StagesFuel.lean) says smaller fuels can only replace a result by out-of-fuel.  Hence, for an accepted document
under the side conditions, at ANY fuels the result is a tree or the model's out-of-fuel value — never one of the panics
of the Rust code ("Type system error", "Cannot merge fields of different types", "Cannot merge selection trees of
different types").
-/
import NitroVerif.Lemmas.StagesGenC
import NitroVerif.Lemmas.StagesFuel
namespace NitroVerif.Stages
open NitroVerif.Gql NitroVerif.CheckOp NitroVerif.Valid NitroVerif.OpTypes NitroVerif.OpTypes.Ref

theorem treeOf_ok_or_outOfFuel (S : Schema) (D : Doc) {mf mf' f f' : Nat} (hmf : mf ≤ mf') (hf : f ≤ f') (x : ExecDef)
    (hbig : ∀ r, treeOf S D mf' f' x = some r → ∃ T, r = .ok T) :
    ∀ r, treeOf S D mf f x = some r → (∃ T, r = .ok T) ∨ r = .error .outOfFuel := by
  intro r hr
  cases x with
  | imp i => simp [treeOf] at hr
  | op o =>
    simp only [treeOf, Option.some.injEq] at hr hbig
    subst hr
    obtain ⟨T, hT⟩ := hbig _ rfl
    rcases implTree_ok_or_outOfFuel S (OpTypes.fragsOf D) hmf hf _ _ hT with h | h
    · exact Or.inl ⟨T, h⟩
    · exact Or.inr h
  | frag g =>
    simp only [treeOf, Option.some.injEq] at hr hbig
    subst hr
    obtain ⟨T, hT⟩ := hbig _ rfl
    rcases implTree_ok_or_outOfFuel S (OpTypes.fragsOf D) hmf hf _ _ hT with h | h
    · exact Or.inl ⟨T, h⟩
    · exact Or.inr h

theorem doc_trees_any_fuel {S : Schema} {D : Doc} (hS : schemaOkB S = true) (hI : ifaceOkB S = true)
    (hSI : skipIncludeB S = true) (h : checkOp S D = []) {Dc d : Nat} (hcoh : noKeyClashB S D Dc d = true)
    (fuel mfuel : Nat) : ∀ x ∈ D, ∀ r, treeOf S D mfuel fuel x = some r → (∃ T, r = .ok T) ∨ r = .error .outOfFuel := by
  obtain ⟨N, M, hNM⟩ := doc_trees_ok hS hI hSI h hcoh
  intro x hx
  exact treeOf_ok_or_outOfFuel S D (Nat.le_max_left mfuel M) (Nat.le_max_left fuel N) x
    (hNM (max fuel N) (Nat.le_max_right _ _) (max mfuel M) (Nat.le_max_right _ _) x hx)

end NitroVerif.Stages
