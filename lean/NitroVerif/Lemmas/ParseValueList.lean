/-
Lists of the `Value` sub-language (helper lemmas for Props/C07 `render_parse_value`): `e*` / `e+` in a rule body generated
WITH skip calls (`sequence(optional(e ~ (skip ~ e)*))`, `Peg.starRest`), and the `ListValue` rule on the rendering of a
list whose items are known to parse (`ValRuns`), by induction on the list of items.
-/
import NitroVerif.Lemmas.ParseValueDefs
namespace NitroVerif.ValueParse
open NitroVerif.Peg NitroVerif.Gen NitroVerif.Build NitroVerif.TypeParse NitroVerif.StringParse NitroVerif.Gql

/-! ### `e*` with skip calls -/

/-- `repeat(sequence(skip ~ a))` from `c` ends at `c'` with pairs `ps` -/
def RunsSR (n : Nat) (a : Expr) (c c' : Cur) (ps : List Pair) : Prop :=
  ∀ tr, ∃ tr', ∀ f, n ≤ f → starRest gList f a .nonAtomic .none tr c = (tr', .ok c' ps)

theorem RunsSR.mono {n m a c c' ps} (h : RunsSR n a c c' ps) (hnm : n ≤ m) : RunsSR m a c c' ps :=
  fun tr => let ⟨tr', h'⟩ := h tr; ⟨tr', fun f hf => h' f (Nat.le_trans hnm hf)⟩

theorem RunsSR.cast {n a c c' ps d d' qs} (h : RunsSR n a c c' ps) (h1 : c = d) (h2 : c' = d') (h3 : ps = qs) :
    RunsSR n a d d' qs := h1 ▸ h2 ▸ h3 ▸ h

theorem SkipTo.cast {n c c' d d'} (h : SkipTo n c c') (h1 : c = d) (h2 : c' = d') : SkipTo n d d' := h1 ▸ h2 ▸ h

/-- the loop stops: after the skip the item fails; the cursor returned is the one BEFORE the skip -/
theorem runsSR_nil {k m a c c1} (hs : SkipTo k c c1) (hf : Fails gList m true a .nonAtomic c1) :
    RunsSR (max k m + 1) a c c [] := by
  intro tr
  obtain ⟨tr1, h1⟩ := hs tr
  obtain ⟨tr2, h2⟩ := hf tr1
  refine ⟨tr2, fun f hf' => ?_⟩
  obtain ⟨f', rfl⟩ : ∃ f', f = f' + 1 := ⟨f - 1, by omega⟩
  simp only [starRest, h1 f' (by omega), h2 f' (by omega)]

theorem runsSR_cons {k n m a c c1 c2 c3 p2 p3} (hs : SkipTo k c c1) (ha : Runs gList n true a .nonAtomic c1 c2 p2)
    (hr : RunsSR m a c2 c3 p3) : RunsSR (max k (max n m) + 1) a c c3 (p2 ++ p3) := by
  intro tr
  obtain ⟨tr1, h1⟩ := hs tr
  obtain ⟨tr2, h2⟩ := ha tr1
  obtain ⟨tr3, h3⟩ := hr tr2
  refine ⟨tr3, fun f hf' => ?_⟩
  obtain ⟨f', rfl⟩ : ∃ f', f = f' + 1 := ⟨f - 1, by omega⟩
  simp only [starRest, h1 f' (by omega), h2 f' (by omega), h3 f' (by omega), List.nil_append]

theorem runs_star_sk_nil {n a c} (hf : Fails gList n true a .nonAtomic c) :
    Runs gList (n + 1) true (.star a) .nonAtomic c c [] := by
  intro tr
  obtain ⟨tr1, h1⟩ := hf tr
  refine ⟨tr1, fun f hf' => ?_⟩
  obtain ⟨f', rfl⟩ : ∃ f', f = f' + 1 := ⟨f - 1, by omega⟩
  simp only [eval, if_true, h1 f' (by omega)]

theorem runs_star_sk_cons {n m a c c1 c2 p1 p2} (ha : Runs gList n true a .nonAtomic c c1 p1) (hr : RunsSR m a c1 c2 p2) :
    Runs gList (max n m + 1) true (.star a) .nonAtomic c c2 (p1 ++ p2) := by
  intro tr
  obtain ⟨tr1, h1⟩ := ha tr
  obtain ⟨tr2, h2⟩ := hr tr1
  refine ⟨tr2, fun f hf' => ?_⟩
  obtain ⟨f', rfl⟩ : ∃ f', f = f' + 1 := ⟨f - 1, by omega⟩
  simp only [eval, if_true, h1 f' (by omega), h2 f' (by omega)]

theorem runs_plus_sk {n a c c' ps} (h : Runs gList n true (.seq a (.star a)) .nonAtomic c c' ps) :
    Runs gList (n + 1) true (.plus a) .nonAtomic c c' ps := runsL_plus (la := .none) h

/-! ### what may follow a value inside a list / object -/

theorem valEnd_close {x : Char} {r : List Char} (hx : x = ']' ∨ x = '}' ∨ x = ')') : ValEnd (x :: r) :=
  valEnd_of_head fun d r' he => by
    cases he
    rcases hx with h | h | h
    · exact Or.inr (Or.inl h)
    · exact Or.inr (Or.inr (Or.inl h))
    · exact Or.inr (Or.inr (Or.inr (Or.inl h)))

theorem valEnd_ws_append {t u : List Char} (ht : Ws t) (hu : ValEnd u) : ValEnd (t ++ u) := by
  cases t with
  | nil => exact hu
  | cons d t' =>
    exact valEnd_of_head fun d' r he => by
      cases he
      rcases ht.head d t' rfl with h | h
      · exact Or.inl h
      · exact Or.inr (Or.inr (Or.inr (Or.inr h)))

theorem valEnd_ws_ne {t u : List Char} (ht : Ws t) (hne : t ≠ []) : ValEnd (t ++ u) := by
  cases t with
  | nil => exact absurd rfl hne
  | cons d t' =>
    exact valEnd_of_head fun d' r he => by
      cases he
      rcases ht.head d t' rfl with h | h
      · exact Or.inl h
      · exact Or.inr (Or.inr (Or.inr (Or.inr h)))

theorem headNot_trivia_close {x : Char} {r : List Char} (hx : x = ']' ∨ x = '}' ∨ x = ')' ∨ x = ':') :
    HeadNot trivia (x :: r) := by
  rcases hx with rfl | rfl | rfl | rfl <;> exact headNot_cons (by decide) _

/-- the statement of `render_parse_value` for one value (parser half) -/
def ValRuns (τ : Trivia) (v : Value) : Prop := ∀ p rest, ValEnd rest →
  RunsRule gList (B (renderV τ p v).length) R.Value .nonAtomic ⟨p, renderV τ p v ++ rest⟩
    ⟨p + (renderV τ p v).length, rest⟩ [valuePair τ p v]

theorem renderV_headNot_trivia (τ : Trivia) (p : Nat) (v : Value) (h : WFV v) (x : List Char) :
    HeadNot trivia (renderV τ p v ++ x) := by
  obtain ⟨d, r, hd, hh⟩ := renderV_head τ p v h
  rw [hd]; exact headNot_cons (valHead_not_trivia hh) _

theorem renderV_headNot_close (τ : Trivia) (p : Nat) (v : Value) (h : WFV v) (x : List Char) (c : Char)
    (hc : c = ']' ∨ c = '}' ∨ c = ':') : HeadNot (· = c) (renderV τ p v ++ x) := by
  obtain ⟨d, r, hd, hh⟩ := renderV_head τ p v h
  rw [hd]
  refine headNot_cons ?_ _
  have := valHead_not_close hh
  rcases hc with rfl | rfl | rfl
  · exact this.1
  · exact this.2.1
  · exact this.2.2

/-! ### the items of a list -/

theorem itemsBody_cons (τ : Trivia) (q : Nat) (first : Bool) (v : Value) (vs : List Value) :
    itemsBody τ q first (v :: vs) = gapOf first (τ q) ++ (renderV τ (q + (gapOf first (τ q)).length) v ++
      itemsBody τ (q + (gapOf first (τ q)).length + (renderV τ (q + (gapOf first (τ q)).length) v).length) false vs) := by
  simp [itemsBody]

theorem itemPairs_cons (τ : Trivia) (q : Nat) (first : Bool) (v : Value) (vs : List Value) :
    itemPairs τ q first (v :: vs) = valuePair τ (q + (gapOf first (τ q)).length) v ::
      itemPairs τ (q + (gapOf first (τ q)).length + (renderV τ (q + (gapOf first (τ q)).length) v).length) false vs := by
  simp [itemPairs, valuePair]

/-- what follows an item: the next separator (whitespace, non-empty) or the padding and the closing bracket -/
theorem valEnd_items (τ : Trivia) (hτ : ∀ q, Ws (τ q)) (q : Nat) (vs : List Value) (x : Char) (rest : List Char)
    (hx : x = ']' ∨ x = '}' ∨ x = ')') :
    ValEnd (itemsBody τ q false vs ++ (τ (q + (itemsBody τ q false vs).length) ++ x :: rest)) := by
  cases vs with
  | nil => simpa [itemsBody] using valEnd_ws_append (hτ q) (valEnd_close hx)
  | cons v vs =>
    rw [itemsBody_cons, List.append_assoc]
    exact valEnd_ws_ne (ws_gapOf (hτ q)) (by simpa [gapOf] using sepOf_ne_nil (τ q))

/-- the loop over the remaining items, from the cursor right after an item -/
theorem items_sr (τ : Trivia) (hτ : ∀ q, Ws (τ q)) (vs : List Value) (hvs : ∀ v ∈ vs, WFV v ∧ ValRuns τ v) :
    ∀ (q : Nat) (rest : List Char),
      RunsSR (B ((itemsBody τ q false vs).length + (τ (q + (itemsBody τ q false vs).length)).length)) (.call R.Value)
        ⟨q, itemsBody τ q false vs ++ (τ (q + (itemsBody τ q false vs).length) ++ ']' :: rest)⟩
        ⟨q + (itemsBody τ q false vs).length, τ (q + (itemsBody τ q false vs).length) ++ ']' :: rest⟩
        (itemPairs τ q false vs) := by
  induction vs with
  | nil =>
    intro q rest
    have hs := skip_ws (τ q) (hτ q) q (']' :: rest) (headNot_trivia_close (Or.inl rfl))
    have hf := fails_call (sk := true) (value_fails_close (p := q + (τ q).length) (r := rest) (Or.inl rfl))
    have := runsSR_nil hs hf
    refine RunsSR.cast (this.mono ?_) (by simp [itemsBody]) (by simp [itemsBody]) (by simp [itemPairs])
    simp [itemsBody, B]; omega
  | cons v vs ih =>
    intro q rest
    obtain ⟨hwf, hv⟩ := hvs v (List.mem_cons_self ..)
    have ih' := ih (fun w hw => hvs w (List.mem_cons_of_mem _ hw))
    -- names for the pieces
    generalize hg : gapOf false (τ q) = g
    generalize ht : renderV τ (q + g.length) v = t
    generalize hib : itemsBody τ (q + g.length + t.length) false vs = ib
    have hbody : itemsBody τ q false (v :: vs) = g ++ (t ++ ib) := by rw [itemsBody_cons, hg, ht, hib]
    have hpairs : itemPairs τ q false (v :: vs) = valuePair τ (q + g.length) v ::
        itemPairs τ (q + g.length + t.length) false vs := by rw [itemPairs_cons, hg, ht]
    have hlen : q + (itemsBody τ q false (v :: vs)).length = q + g.length + t.length + ib.length := by
      rw [hbody]; simp; omega
    rw [hlen, hbody, hpairs]
    generalize hpad : τ (q + g.length + t.length + ib.length) = pad
    have hgws : Ws g := hg ▸ ws_gapOf (hτ q)
    have hg1 : 1 ≤ g.length := by
      rw [← hg]; simp only [gapOf, Bool.false_eq_true, if_false]
      exact List.length_pos_iff.mpr (sepOf_ne_nil _)
    -- the skip over the separator
    have hs : SkipTo (g.length + 60) ⟨q, g ++ (t ++ (ib ++ (pad ++ ']' :: rest)))⟩
        ⟨q + g.length, t ++ (ib ++ (pad ++ ']' :: rest))⟩ :=
      skip_ws g hgws q _ (ht ▸ renderV_headNot_trivia τ _ v hwf _)
    -- the item
    have hend : ValEnd (ib ++ (pad ++ ']' :: rest)) := by
      have := valEnd_items τ hτ (q + g.length + t.length) vs ']' rest (Or.inl rfl)
      rw [hib, hpad] at this
      exact this
    have hval := hv (q + g.length) (ib ++ (pad ++ ']' :: rest)) hend
    rw [ht] at hval
    have hcall := runs_call (sk := true) hval
    -- the rest of the loop
    have hrest := ih' (q + g.length + t.length) rest
    rw [hib, hpad] at hrest
    have := runsSR_cons hs hcall hrest
    refine RunsSR.cast (this.mono ?_) (by simp) rfl (by simp [valuePair, ht])
    simp [B]; omega

/-- `Value+`'s tail after the first item: skip, `Value*`, and the skip in front of the closing bracket -/
theorem items_plus (τ : Trivia) (hτ : ∀ q, Ws (τ q)) (vs : List Value) (hvs : ∀ v ∈ vs, WFV v ∧ ValRuns τ v)
    (q : Nat) (rest : List Char) :
    ∃ c3 cE, SkipTo (B ((itemsBody τ q false vs).length + (τ (q + (itemsBody τ q false vs).length)).length) + 2)
        ⟨q, itemsBody τ q false vs ++ (τ (q + (itemsBody τ q false vs).length) ++ ']' :: rest)⟩ c3 ∧
      Runs gList (B ((itemsBody τ q false vs).length + (τ (q + (itemsBody τ q false vs).length)).length) + 2) true
        (.star (.call R.Value)) .nonAtomic c3 cE (itemPairs τ q false vs) ∧
      SkipTo (B ((itemsBody τ q false vs).length + (τ (q + (itemsBody τ q false vs).length)).length) + 2) cE
        ⟨q + (itemsBody τ q false vs).length + (τ (q + (itemsBody τ q false vs).length)).length, ']' :: rest⟩ := by
  cases vs with
  | nil =>
    have hs := skip_ws (τ q) (hτ q) q (']' :: rest) (headNot_trivia_close (Or.inl rfl))
    have hf := fails_call (sk := true) (value_fails_close (p := q + (τ q).length) (r := rest) (Or.inl rfl))
    have hst := runs_star_sk_nil hf
    have hs2 := skipTo_noop (p := q + (τ q).length) (rest := ']' :: rest) (headNot_trivia_close (Or.inl rfl))
    refine ⟨_, _, SkipTo.cast (hs.mono ?_) (by simp [itemsBody]) rfl, Runs.cast (hst.mono ?_) rfl rfl (by simp [itemPairs]),
      SkipTo.cast (hs2.mono ?_) rfl (by simp [itemsBody])⟩ <;>
      first | (simp [itemsBody, B]; done) | (simp [itemsBody, B]; omega)
  | cons v vs =>
    obtain ⟨hwf, hv⟩ := hvs v (List.mem_cons_self ..)
    have hsr := items_sr τ hτ vs (fun w hw => hvs w (List.mem_cons_of_mem _ hw))
    generalize hg : gapOf false (τ q) = g
    generalize ht : renderV τ (q + g.length) v = t
    generalize hib : itemsBody τ (q + g.length + t.length) false vs = ib
    have hbody : itemsBody τ q false (v :: vs) = g ++ (t ++ ib) := by rw [itemsBody_cons, hg, ht, hib]
    have hpairs : itemPairs τ q false (v :: vs) = valuePair τ (q + g.length) v ::
        itemPairs τ (q + g.length + t.length) false vs := by rw [itemPairs_cons, hg, ht]
    have hlen : q + (itemsBody τ q false (v :: vs)).length = q + g.length + t.length + ib.length := by
      rw [hbody]; simp; omega
    rw [hlen, hbody, hpairs]
    generalize hpad : τ (q + g.length + t.length + ib.length) = pad
    have hgws : Ws g := hg ▸ ws_gapOf (hτ q)
    have hs : SkipTo (g.length + 60) ⟨q, g ++ (t ++ (ib ++ (pad ++ ']' :: rest)))⟩
        ⟨q + g.length, t ++ (ib ++ (pad ++ ']' :: rest))⟩ :=
      skip_ws g hgws q _ (ht ▸ renderV_headNot_trivia τ _ v hwf _)
    have hend : ValEnd (ib ++ (pad ++ ']' :: rest)) := by
      have := valEnd_items τ hτ (q + g.length + t.length) vs ']' rest (Or.inl rfl)
      rw [hib, hpad] at this
      exact this
    have hval := hv (q + g.length) (ib ++ (pad ++ ']' :: rest)) hend
    rw [ht] at hval
    have hcall := runs_call (sk := true) hval
    have hrest := hsr (q + g.length + t.length) rest
    rw [hib, hpad] at hrest
    have hst := runs_star_sk_cons hcall hrest
    have hpws : Ws pad := hpad ▸ hτ _
    have hs2 := skip_ws pad hpws (q + g.length + t.length + ib.length) (']' :: rest) (headNot_trivia_close (Or.inl rfl))
    refine ⟨_, _, SkipTo.cast (hs.mono ?_) (by simp) rfl, Runs.cast (hst.mono ?_) rfl rfl (by simp [valuePair, ht]),
      SkipTo.cast (hs2.mono ?_) rfl (by simp)⟩ <;> first | (simp [B]; done) | (simp [B]; omega)

theorem listHeads (rest : List Char) :
    HeadNot (· = '$') ('[' :: rest) ∧ HeadNot (fun d => d = '-' ∨ digit d) ('[' :: rest) ∧ HeadNot (· = '"') ('[' :: rest) ∧
    HeadNot nameStart ('[' :: rest) ∧ HeadNot trivia ('[' :: rest) :=
  ⟨headNot_cons (by decide) _, headNot_cons (by decide) _, headNot_cons (by decide) _, headNot_cons (by decide) _,
    headNot_cons (by decide) _⟩

/-- the `Value` rule on a list whose items parse -/
theorem value_list (τ : Trivia) (hτ : ∀ q, Ws (τ q)) (vs : List Value) (pos : Pos)
    (hvs : ∀ v ∈ vs, WFV v ∧ ValRuns τ v) : ValRuns τ (.list vs pos) := by
  intro p rest _
  obtain ⟨a1, a2, a3, a4, a5⟩ := listHeads (itemsBody τ (p + 1) true vs ++
    (τ (p + 1 + (itemsBody τ (p + 1) true vs).length) ++ [']']) ++ rest)
  have etext : renderV τ p (.list vs pos) ++ rest = '[' :: (itemsBody τ (p + 1) true vs ++
      (τ (p + 1 + (itemsBody τ (p + 1) true vs).length) ++ [']']) ++ rest) := by simp [renderV]
  rw [etext]
  obtain ⟨f1, f2, f3⟩ := nonnum_fails (p := p) a1 a2
  have f4 := fails_call (sk := true) (stringValue_fails (p := p) a3)
  have f5 := fails_call (sk := true) (booleanValue_fails_head (p := p) a4)
  have f6 := fails_call (sk := true) (nullValue_fails_head (p := p) a4)
  have f7 := fails_call (sk := true) (enumValue_fails_head (p := p) a4 a5)
  -- the ListValue rule
  have hlv : RunsRule gList (60 * (renderV τ p (.list vs pos)).length + 80) R.ListValue .nonAtomic
      ⟨p, '[' :: (itemsBody τ (p + 1) true vs ++ (τ (p + 1 + (itemsBody τ (p + 1) true vs).length) ++ [']']) ++ rest)⟩
      ⟨p + (renderV τ p (.list vs pos)).length, rest⟩ [innerV τ p (.list vs pos)] := by
    have hopen : ∀ x : List Char, Runs gList 1 true (.str ['[']) .nonAtomic ⟨p, '[' :: x⟩ ⟨p + 1, x⟩ [] := fun x =>
      runs_str (c := ⟨p, '[' :: x⟩) (by simp [matchStr])
    cases vs with
    | nil =>
      have hs := skip_ws (τ (p + 1)) (hτ _) (p + 1) (']' :: rest) (headNot_trivia_close (Or.inl rfl))
      have hclose : Runs gList 1 true (.str [']']) .nonAtomic ⟨p + 1 + (τ (p + 1)).length, ']' :: rest⟩
          ⟨p + 1 + (τ (p + 1)).length + 1, rest⟩ [] :=
        runs_str (c := ⟨p + 1 + (τ (p + 1)).length, ']' :: rest⟩) (by simp [matchStr])
      have alt := runs_choice_l (b := .seq (.str ['[']) (.seq (.plus (.call R.Value)) (.str [']'])))
        (runs_seq_skip' (hopen _) hs hclose)
      have := runsRule_normal look_ListValue (nsp (by decide) (by decide)) alt
      refine RunsRule.cast (this.mono ?_) (by simp [itemsBody]) ?_
        (by first | (simp [innerV, itemPairs, renderV, itemsBody]; done) | (simp [innerV, itemPairs, renderV, itemsBody]; omega))
      · simp [renderV, itemsBody]; omega
      · first | (simp [renderV, itemsBody]; done) | (simp [renderV, itemsBody]; omega)
    | cons v vs =>
      obtain ⟨hwf, hv⟩ := hvs v (List.mem_cons_self ..)
      generalize hg : gapOf true (τ (p + 1)) = g
      generalize ht : renderV τ (p + 1 + g.length) v = t
      generalize hib : itemsBody τ (p + 1 + g.length + t.length) false vs = ib
      have hbody : itemsBody τ (p + 1) true (v :: vs) = g ++ (t ++ ib) := by rw [itemsBody_cons, hg, ht, hib]
      have hpairs : itemPairs τ (p + 1) true (v :: vs) = valuePair τ (p + 1 + g.length) v ::
          itemPairs τ (p + 1 + g.length + t.length) false vs := by rw [itemPairs_cons, hg, ht]
      have hlen : p + 1 + (itemsBody τ (p + 1) true (v :: vs)).length = p + 1 + g.length + t.length + ib.length := by
        rw [hbody]; simp; omega
      have hL : (renderV τ p (.list (v :: vs) pos)).length =
          g.length + t.length + ib.length + (τ (p + 1 + g.length + t.length + ib.length)).length + 2 := by
        have : renderV τ p (.list (v :: vs) pos) =
            '[' :: (g ++ (t ++ ib) ++ (τ (p + 1 + g.length + t.length + ib.length) ++ [']'])) := by
          simp only [renderV]; rw [hlen, hbody]
        rw [this]; simp; omega
      have hinner : innerV τ p (.list (v :: vs) pos) = .mk R.ListValue p (p + (renderV τ p (.list (v :: vs) pos)).length)
          (valuePair τ (p + 1 + g.length) v :: itemPairs τ (p + 1 + g.length + t.length) false vs) := by
        simp [innerV, hpairs]
      rw [hinner, hL, hlen, hbody]
      generalize hpad : τ (p + 1 + g.length + t.length + ib.length) = pad
      have hgws : Ws g := by rw [← hg]; exact ws_gapOf (hτ _)
      -- after `[`: the padding, then the first item
      have hs0 : SkipTo (g.length + 60) ⟨p + 1, g ++ (t ++ (ib ++ (pad ++ ']' :: rest)))⟩
          ⟨p + 1 + g.length, t ++ (ib ++ (pad ++ ']' :: rest))⟩ :=
        skip_ws g hgws (p + 1) _ (ht ▸ renderV_headNot_trivia τ _ v hwf _)
      -- first alternative `"[" ~ "]"` fails
      have hne : HeadNot (· = ']') (t ++ (ib ++ (pad ++ ']' :: rest))) :=
        ht ▸ renderV_headNot_close τ _ v hwf _ ']' (Or.inl rfl)
      have alt1 := fails_seq_skip_last' (hopen _) hs0 (strL_head_fails (la := .none) (sk := true) (at_ := .nonAtomic)
        (p := p + 1 + g.length) (xs := []) hne)
      -- second alternative
      have hend : ValEnd (ib ++ (pad ++ ']' :: rest)) := by
        have := valEnd_items τ hτ (p + 1 + g.length + t.length) vs ']' rest (Or.inl rfl)
        rw [hib, hpad] at this
        exact this
      have hval := hv (p + 1 + g.length) (ib ++ (pad ++ ']' :: rest)) hend
      rw [ht] at hval
      have hcall := runs_call (sk := true) hval
      obtain ⟨c3, cE, k1, k2, k3⟩ := items_plus τ hτ vs (fun w hw => hvs w (List.mem_cons_of_mem _ hw))
        (p + 1 + g.length + t.length) rest
      rw [hib, hpad] at k1 k2 k3
      have hplus := runs_plus_sk (runs_seq_skip' hcall k1 k2)
      have hclose : Runs gList 1 true (.str [']']) .nonAtomic ⟨p + 1 + g.length + t.length + ib.length + pad.length, ']' :: rest⟩
          ⟨p + 1 + g.length + t.length + ib.length + pad.length + 1, rest⟩ [] :=
        runs_str (c := ⟨p + 1 + g.length + t.length + ib.length + pad.length, ']' :: rest⟩) (by simp [matchStr])
      have alt2 := runs_seq_skip' (hopen _) hs0 (runs_seq_skip' hplus k3 hclose)
      have := runsRule_normal look_ListValue (nsp (by decide) (by decide)) (runs_choice_r' alt1 alt2)
      refine RunsRule.cast (this.mono ?_) (by simp) ?_
        (by first | (simp [valuePair, ht]; done) | (simp [valuePair, ht]; omega))
      · simp [B]; omega
      · first | rfl | (congr 1; omega)
  have := value_rule (runs_choice_r' f1 (runs_choice_r' f2 (runs_choice_r' f3 (runs_choice_r' f4
    (runs_choice_r' f5 (runs_choice_r' f6 (runs_choice_r' f7 (runs_choice_l (runs_call (sk := true) hlv)))))))))
  refine RunsRule.cast (this.mono ?_) rfl rfl (by simp [valuePair])
  first | (simp [B]; done) | (simp [B]; omega)

end NitroVerif.ValueParse
