/-
C01/C02, second stage: the fuel of the executable specification is an artefact — more of it never removes a response.
`collectGo` returns the same groups with more fuel; hence `RefLocal` (and `Exec`) with fuel `f` is contained in `RefLocal`
with any fuel `f' ≥ f`.  (`withFuel c f` = the specification context `c` run with fuel `f`.)
-/
import NitroVerif.Lemmas.OpTypesRefThm
namespace NitroVerif.OpTypes.Closed
open NitroVerif.Gql NitroVerif.Ts NitroVerif.Exec

/-- the specification context with another fuel -/
def withFuel (c : Ctx) (f : Nat) : Ctx := { c with fuel := f }

theorem collectGo_withFuel (c : Ctx) (f : Nat) (σ : Sigma) (o : Name) :
    ∀ (n : Nat) (L : List Selection) (V : List Name) (g : Groups),
      collectGo (withFuel c f) σ o n L V g = collectGo c σ o n L V g := by
  intro n
  induction n with
  | zero => intro L V g; cases L <;> rfl
  | succ n ih =>
    intro L V g
    cases L with
    | nil => rfl
    | cons s rest =>
      simp only [collectGo, ih]
      rfl

theorem collectGo_succ (c : Ctx) (σ : Sigma) (o : Name) :
    ∀ (n : Nat) (L : List Selection) (V : List Name) (g r : Groups),
      collectGo c σ o n L V g = some r → collectGo c σ o (n + 1) L V g = some r := by
  intro n
  induction n with
  | zero =>
    intro L V g r h
    cases L with
    | nil => simpa [collectGo] using h
    | cons s rest => simp [collectGo] at h
  | succ n ih =>
    intro L V g r h
    cases L with
    | nil => simpa [collectGo] using h
    | cons s rest =>
      simp only [collectGo] at h ⊢
      by_cases hinc : (!included σ (selDirs s)) = true
      · simp only [hinc, ↓reduceIte] at h ⊢
        exact ih _ _ _ _ h
      · simp only [hinc, ↓reduceIte] at h ⊢
        cases s with
        | field alias name p args ds sub => exact ih _ _ _ _ h
        | spread nm np ds p =>
          simp only at h ⊢
          by_cases hv : V.contains nm = true
          · simp only [hv, ↓reduceIte] at h ⊢; exact ih _ _ _ _ h
          · simp only [hv, ↓reduceIte] at h ⊢
            cases hF : c.F nm with
            | none => simp only [hF] at h ⊢; exact ih _ _ _ _ h
            | some fd =>
              simp only [hF] at h ⊢
              by_cases ha : fragmentTypeApplies c.S o fd.cond = true
              · simp only [ha, ↓reduceIte] at h ⊢; exact ih _ _ _ _ h
              · simp only [ha, ↓reduceIte] at h ⊢; exact ih _ _ _ _ h
        | inline cond ds ss p =>
          cases cond with
          | none => exact ih _ _ _ _ h
          | some tc =>
            simp only at h ⊢
            by_cases ha : fragmentTypeApplies c.S o tc.1 = true
            · simp only [ha, ↓reduceIte] at h ⊢; exact ih _ _ _ _ h
            · simp only [ha, ↓reduceIte] at h ⊢; exact ih _ _ _ _ h

theorem collectGo_le (c : Ctx) (σ : Sigma) (o : Name) {n m : Nat} (hle : n ≤ m) {L : List Selection} {V : List Name}
    {g r : Groups} (h : collectGo c σ o n L V g = some r) : collectGo c σ o m L V g = some r := by
  induction hle with
  | refl => exact h
  | step _ ih => exact collectGo_succ c σ o _ _ _ _ _ ih

theorem collectFields_withFuel {c : Ctx} {f : Nat} (hle : c.fuel ≤ f) {σ : Sigma} {o : Name} {ss : List Selection}
    {g : Groups} (h : collectFields c σ o ss = some g) : collectFields (withFuel c f) σ o ss = some g := by
  unfold collectFields at h ⊢
  rw [collectGo_withFuel]
  exact collectGo_le c σ o hle h

theorem namedOk_withFuel (c : Ctx) (f : Nat) (R : Name → List Selection → J → Bool) (sub : List Selection) (n : Name)
    (v : J) : namedOk (withFuel c f) R sub n v = namedOk c R sub n v := rfl

mutual
theorem completeB_withFuel (c : Ctx) (f : Nat) (R : Name → List Selection → J → Bool) (sub : List Selection) :
    ∀ (ty : GType) (v : J), completeB (withFuel c f) R sub ty v = completeB c R sub ty v
  | .nonNull t, v => by simp only [completeB, completeNN_withFuel c f R sub t v]
  | .named n _, v => by simp only [completeB, namedOk_withFuel]
  | .list t _, v => by
    simp only [completeB]
    have : completeB (withFuel c f) R sub t = completeB c R sub t := funext (completeB_withFuel c f R sub t)
    rw [this]
theorem completeNN_withFuel (c : Ctx) (f : Nat) (R : Name → List Selection → J → Bool) (sub : List Selection) :
    ∀ (ty : GType) (v : J), completeNN (withFuel c f) R sub ty v = completeNN c R sub ty v
  | .nonNull t, v => by simp only [completeNN, completeNN_withFuel c f R sub t v]
  | .named n _, v => by simp only [completeNN, namedOk_withFuel]
  | .list t _, v => by
    simp only [completeNN]
    have : completeB (withFuel c f) R sub t = completeB c R sub t := funext (completeB_withFuel c f R sub t)
    rw [this]
end

theorem fieldOk_withFuel (c : Ctx) (f : Nat) (R : Name → List Selection → J → Bool) (o : Name) (fs : List CField) (v : J) :
    fieldOk (withFuel c f) R o fs v = fieldOk c R o fs v := by
  unfold fieldOk
  cases fs with
  | nil => rfl
  | cons x xs =>
    simp only
    have : (withFuel c f).S = c.S := rfl
    rw [this]
    split
    · rfl
    · split
      · exact completeB_withFuel c f R _ _ _
      · rfl

theorem setOkB_withFuel (c : Ctx) (f : Nat) (R : Name → List Selection → J → Bool) (o : Name) (g : Groups) (v : J) :
    setOkB (withFuel c f) R o g v = setOkB c R o g v := by
  unfold setOkB
  cases v with
  | obj kvs =>
    simp only
    have : (fun (x : Name × List CField) => fieldOk (withFuel c f) R o x.2 (J.get kvs x.1)) =
        fun x => fieldOk c R o x.2 (J.get kvs x.1) := funext fun x => fieldOk_withFuel c f R o _ _
    rw [this]
  | _ => rfl

/-- **more fuel of the executable specification never removes a response** -/
theorem refLocalN_withFuel {c : Ctx} {f : Nat} (hle : c.fuel ≤ f) :
    ∀ (n : Nat) (o : Name) (ss : List Selection) (v : J), RefLocalN c n o ss v → RefLocalN (withFuel c f) n o ss v := by
  intro n
  induction n with
  | zero => intro _ _ _ h; exact h
  | succ n ih =>
    intro o ss v h
    obtain ⟨σ, g, hg, Rb, hR, hs⟩ := h
    exact ⟨σ, g, collectFields_withFuel hle hg, Rb, fun o' s x hx => ih o' s x (hR o' s x hx),
      by rw [setOkB_withFuel]; exact hs⟩

theorem refLocal_withFuel {c : Ctx} {f : Nat} (hle : c.fuel ≤ f) {o : Name} {ss : List Selection} {v : J}
    (h : RefLocal c o ss v) : RefLocal (withFuel c f) o ss v := by
  obtain ⟨n, hn⟩ := h
  exact ⟨n, refLocalN_withFuel hle n o ss v hn⟩

end NitroVerif.OpTypes.Closed
