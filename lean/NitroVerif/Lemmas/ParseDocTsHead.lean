/-
Type definitions, the common head (helper lemmas for Props/C07Doc): `Description? keyword Name` in continuation form (for
a succeeding and for a failing continuation), and the failure of the alternatives of another kind
(`Description? KEYWORD_x …` on a text whose keyword is another word).
-/
import NitroVerif.Lemmas.ParseDocTsNames
namespace NitroVerif.DocParse
open NitroVerif.Peg NitroVerif.Gen NitroVerif.Gen.Parts NitroVerif.Build NitroVerif.TypeParse NitroVerif.StringParse
open NitroVerif.Gql NitroVerif.ValueParse NitroVerif.Spec.Lex NitroVerif.ParseText

set_option linter.unusedSimpArgs false

variable {inp : List Char}

def kindKw : TypeKind → List Char
  | .scalar => ['s', 'c', 'a', 'l', 'a', 'r']
  | .object => ['t', 'y', 'p', 'e']
  | .interface => ['i', 'n', 't', 'e', 'r', 'f', 'a', 'c', 'e']
  | .union => ['u', 'n', 'i', 'o', 'n']
  | .enum => ['e', 'n', 'u', 'm']
  | .input => ['i', 'n', 'p', 'u', 't']

def kindKwRule : TypeKind → RuleId
  | .scalar => R.KEYWORD_scalar
  | .object => R.KEYWORD_type
  | .interface => R.KEYWORD_interface
  | .union => R.KEYWORD_union
  | .enum => R.KEYWORD_enum
  | .input => R.KEYWORD_input

theorem look_kindKw (k : TypeKind) : gList.look (kindKwRule k) =
    some (.atomic, .seq (.str (kindKw k)) (.not (.call R.NameContinue))) := by cases k <;> rfl

theorem validName_of_lower : ∀ (w : List Char), w ≠ [] → (∀ x ∈ w, 'a' ≤ x ∧ x ≤ 'z') → validName w := by
  intro w hne h
  cases w with
  | nil => exact absurd rfl hne
  | cons d ds =>
    exact ⟨Or.inl (Or.inl (h d (List.mem_cons_self ..))),
      fun x hx => Or.inl (Or.inl (h x (List.mem_cons_of_mem _ hx)))⟩

theorem kindKw_valid (k : TypeKind) : validName (kindKw k) := by
  refine validName_of_lower _ (by cases k <;> simp [kindKw]) ?_
  cases k <;> decide

theorem kindKw_ne {k k' : TypeKind} (h : k ≠ k') : kindKw k' ≠ kindKw k := by
  cases k <;> cases k' <;> first | exact absurd rfl h | decide

abbrev kwExtend : List Char := ['e', 'x', 't', 'e', 'n', 'd']
abbrev kwSchema : List Char := ['s', 'c', 'h', 'e', 'm', 'a']
abbrev kwDirective : List Char := ['d', 'i', 'r', 'e', 'c', 't', 'i', 'v', 'e']

theorem look_KEYWORD_extend : gList.look R.KEYWORD_extend =
    some (.atomic, .seq (.str kwExtend) (.not (.call R.NameContinue))) := rfl
theorem look_KEYWORD_schema : gList.look R.KEYWORD_schema =
    some (.atomic, .seq (.str kwSchema) (.not (.call R.NameContinue))) := rfl
theorem look_KEYWORD_directive : gList.look R.KEYWORD_directive =
    some (.atomic, .seq (.str kwDirective) (.not (.call R.NameContinue))) := rfl

theorem kw_words_valid : validName kwExtend ∧ validName kwSchema ∧ validName kwDirective := by
  refine ⟨validName_of_lower _ (by simp) ?_, validName_of_lower _ (by simp) ?_, validName_of_lower _ (by simp) ?_⟩ <;>
    decide

/-- a token followed by a non-empty gap: what follows is anything that begins a token -/
theorem nxt_sep {q : Nat} (ht : Tok (At inp q)) : Nxt inp (fun _ => False) true q :=
  ⟨ht, fun _ _ _ h => h, fun h => by cases h⟩

/-! ### `Description? KEYWORD_x …` / `extend KEYWORD_x …` on a text with another keyword -/

/-- `Description? ~ KEYWORD_x ~ T` fails where, after the optional description, another word `w'` stands -/
theorem descKw_fails {τ : Trivia} (hτ : ∀ q, Ws (τ q)) {r : RuleId} {w : List Char}
    (hl : gList.look r = some (.atomic, .seq (.str w) (.not (.call R.NameContinue)))) (hw : validName w)
    (desc : Option String) (w' : List Char) (hw' : validName w') (hne : w' ≠ w) {p : Nat} (T : Expr) {sK : Bool}
    {bad : Char → Prop} (h : HasAt inp p (rOptDesc τ p desc ++ tk τ sK (p + (rOptDesc τ p desc).length) w'))
    (hn : Nxt inp bad sK (p + (rOptDesc τ p desc).length + (tk τ sK (p + (rOptDesc τ p desc).length) w').length)) :
    Fails gList (B (rOptDesc τ p desc).length + 30) true (.seq (.opt (.call R.Description)) (.seq (.call r) T))
      .nonAtomic (At inp p) := by
  generalize hS : rOptDesc τ p desc = tS at *
  have g0 : HasAt inp p tS := h.left
  have g1 : HasAt inp (p + tS.length) (tk τ sK (p + tS.length) w') := h.right
  have hd1 : Hd nameStart (tk τ sK (p + tS.length) w') := hd_tk (hd_of_validName hw')
  obtain ⟨oS, rS, _, _⟩ := optDescT hτ desc (hS ▸ g0)
    (by rw [hS]; exact tok_of_hd g1 hd1 (fun d => nameStart_not_trivia))
    (by rw [hS]; exact headNot_of_hd g1 hd1 (fun d hd => (nameStart_not_punct hd).2.2.2.2.2.2.2.2.2.2.2.2.2.2.1))
  rw [hS] at rS
  obtain ⟨gW, _, gGlue⟩ := tk_gap hτ g1 hn
  have fK : Fails gList 13 true (.call r) .nonAtomic (At inp (p + tS.length)) :=
    kw_fails_name (la := .none) hl hw hw' hne gW gGlue
  exact (fails_seq_K rS (fails_seq_1 fK)).mono (by barith)

/-- `extend ~ KEYWORD_x ~ T` fails where another word `w'` follows `extend` -/
theorem extKw_fails {τ : Trivia} (hτ : ∀ q, Ws (τ q)) {r : RuleId} {w : List Char}
    (hl : gList.look r = some (.atomic, .seq (.str w) (.not (.call R.NameContinue)))) (hw : validName w)
    (w' : List Char) (hw' : validName w') (hne : w' ≠ w) {p : Nat} (T : Expr)
    (h : HasAt inp p (tk τ true p kwExtend ++ tk τ true (p + (tk τ true p kwExtend).length) w'))
    (ht : Tok (At inp (p + (tk τ true p kwExtend).length + (tk τ true (p + (tk τ true p kwExtend).length) w').length))) :
    Fails gList (B (tk τ true p kwExtend).length + 30) true (.seq (.call R.KEYWORD_extend) (.seq (.call r) T))
      .nonAtomic (At inp p) := by
  generalize hS : tk τ true p kwExtend = tS at *
  have g0 : HasAt inp p tS := h.left
  have g1 : HasAt inp (p + tS.length) (tk τ true (p + tS.length) w') := h.right
  have hd1 : Hd nameStart (tk τ true (p + tS.length) w') := hd_tk (hd_of_validName hw')
  have rE := kwT hτ look_KEYWORD_extend (hS ▸ g0) (bad := fun _ => False)
    (by rw [hS]; exact Nxt.of_hd_sep g1 hd1 (fun d hd => ⟨nameStart_not_trivia hd, id⟩))
  rw [hS] at rE
  obtain ⟨gW, _, gGlue⟩ := tk_gap hτ g1 (nxt_sep ht)
  have fK : Fails gList 13 true (.call r) .nonAtomic (At inp (p + tS.length)) :=
    kw_fails_name (la := .none) hl hw hw' hne gW gGlue
  exact (fails_seq_K rE.toK (fails_seq_1 fK)).mono (by barith)

/-! ### the head of a definition: `Description? keyword Name` -/

/-- `Description? gap keyword gap name gap` (`sN`: the last gap is made non-empty) -/
def rDefHead (τ : Trivia) (sN : Bool) (p : Nat) (desc : Option String) (kw : List Char) (name : Name) : List Char :=
  let tS := rOptDesc τ p desc
  let tK := tk τ true (p + tS.length) kw
  tS ++ (tK ++ tk τ sN (p + tS.length + tK.length) name.toList)

/-- offsets of the keyword and of the name -/
def dhOffK (τ : Trivia) (p : Nat) (desc : Option String) : Nat := p + (rOptDesc τ p desc).length
def dhOffN (τ : Trivia) (p : Nat) (desc : Option String) (kw : List Char) : Nat :=
  dhOffK τ p desc + (tk τ true (dhOffK τ p desc) kw).length

theorem hd_rDefHead (τ : Trivia) (sN : Bool) (p : Nat) (desc : Option String) (kw : List Char) (name : Name)
    (hkw : validName kw) : Hd (fun d => nameStart d ∨ d = '"') (rDefHead τ sN p desc kw name) := by
  simp only [rDefHead]
  cases desc with
  | none =>
    simp only [rOptDesc, List.nil_append, List.length_nil, Nat.add_zero]
    exact Hd.append (hd_tk (P := fun d => nameStart d ∨ d = '"') ((hd_of_validName hkw).mono (fun _ h => Or.inl h))) _
  | some s =>
    simp only [rOptDesc]
    exact Hd.append (hd_tk (P := fun d => nameStart d ∨ d = '"') ⟨'"', _, rfl, Or.inr rfl⟩) _

/-- the head of a definition followed by any continuation `T` of the rule body that succeeds — or fails -/
theorem defHeadK {τ : Trivia} (hτ : ∀ q, Ws (τ q)) {r : RuleId} {kw : List Char}
    (hl : gList.look r = some (.atomic, .seq (.str kw) (.not (.call R.NameContinue)))) (hkw : validName kw)
    (desc : Option String) (name : Name) (hname : validName name.toList) {sN : Bool} {p : Nat} {bad : Char → Prop}
    (h : HasAt inp p (rDefHead τ sN p desc kw name)) (hn : Nxt inp bad sN (p + (rDefHead τ sN p desc kw name).length)) :
    ∃ oS : Option Pair,
      (∀ (T : Expr) (nT : Nat) (cE : Cur) (psT : List Pair),
        RunsK nT T (At inp (p + (rDefHead τ sN p desc kw name).length)) cE psT →
        RunsK (max nT (B (rDefHead τ sN p desc kw name).length + 10) + 5)
          (.seq (.opt (.call R.Description)) (.seq (.call r) (.seq (.call R.Name) T))) (At inp p) cE
          (oS.toList ++ ([.mk r (dhOffK τ p desc) (dhOffK τ p desc + kw.length) []] ++
            ([.mk R.Name (dhOffN τ p desc kw) (dhOffN τ p desc kw + name.toList.length) []] ++ psT)))) ∧
      (∀ (T : Expr) (nT : Nat), Fails gList nT true T .nonAtomic (At inp (p + (rDefHead τ sN p desc kw name).length)) →
        Fails gList (max nT (B (rDefHead τ sN p desc kw name).length + 10) + 5) true
          (.seq (.opt (.call R.Description)) (.seq (.call r) (.seq (.call R.Name) T))) .nonAtomic (At inp p)) ∧
      (∀ x ∈ oS, x.rule = R.Description ∧ CleanP x) ∧ optDesc (Ctx.spec inp) oS = .ok desc ∧
      HasAt inp (dhOffN τ p desc kw) name.toList := by
  have hoK : dhOffK τ p desc = p + (rOptDesc τ p desc).length := rfl
  have hoN : dhOffN τ p desc kw = p + (rOptDesc τ p desc).length + (tk τ true (p + (rOptDesc τ p desc).length) kw).length :=
    rfl
  simp only [rDefHead] at h hn ⊢
  rw [hoK, hoN]
  generalize hS : rOptDesc τ p desc = tS at *
  generalize hK : tk τ true (p + tS.length) kw = tK at *
  generalize hN : tk τ sN (p + tS.length + tK.length) name.toList = tN at *
  have hlen : p + (tS ++ (tK ++ tN)).length = p + tS.length + tK.length + tN.length := by
    simp only [List.length_append]; omega
  rw [hlen] at hn ⊢
  have g0 : HasAt inp p tS := h.left
  have g1 : HasAt inp (p + tS.length) tK := h.right.left
  have g2 : HasAt inp (p + tS.length + tK.length) tN := h.right.right
  have hdK : Hd nameStart tK := hK ▸ hd_tk (hd_of_validName hkw)
  have hdN : Hd nameStart tN := hN ▸ hd_tk (hd_of_validName hname)
  obtain ⟨oS, rS, hokS, hbS⟩ := optDescT hτ desc (hS ▸ g0)
    (by rw [hS]; exact tok_of_hd g1 hdK (fun d => nameStart_not_trivia))
    (by rw [hS]; exact headNot_of_hd g1 hdK (fun d hd => (nameStart_not_punct hd).2.2.2.2.2.2.2.2.2.2.2.2.2.2.1))
  rw [hS] at rS
  have rK := kwT hτ hl (hK ▸ g1) (bad := fun _ => False)
    (by rw [hK]; exact Nxt.of_hd_sep g2 hdN (fun d hd => ⟨nameStart_not_trivia hd, id⟩))
  rw [hK] at rK
  have rN := nameT hτ hname (hN ▸ g2) (by rw [hN]; exact hn)
  rw [hN] at rN
  refine ⟨oS, ?_, ?_, hokS, hbS, (hN ▸ g2 : HasAt inp _ (tk τ sN _ name.toList)).left⟩
  · intro T nT cE psT hT
    exact (runsK_seq rS (runsK_seq rK.toK (runsK_seq rN.toK hT))).mono (by barith)
  · intro T nT hT
    exact (fails_seq_K rS (fails_seq_K rK.toK (fails_seq_K rN.toK hT))).mono (by barith)

/-! ### … of an extension: `extend keyword Name` -/

def rExtHead (τ : Trivia) (sN : Bool) (p : Nat) (kw : List Char) (name : Name) : List Char :=
  let tS := tk τ true p kwExtend
  let tK := tk τ true (p + tS.length) kw
  tS ++ (tK ++ tk τ sN (p + tS.length + tK.length) name.toList)

def ehOffK (τ : Trivia) (p : Nat) : Nat := p + (tk τ true p kwExtend).length
def ehOffN (τ : Trivia) (p : Nat) (kw : List Char) : Nat := ehOffK τ p + (tk τ true (ehOffK τ p) kw).length

theorem extHeadK {τ : Trivia} (hτ : ∀ q, Ws (τ q)) {r : RuleId} {kw : List Char}
    (hl : gList.look r = some (.atomic, .seq (.str kw) (.not (.call R.NameContinue)))) (hkw : validName kw)
    (name : Name) (hname : validName name.toList) {sN : Bool} {p : Nat} {bad : Char → Prop}
    (h : HasAt inp p (rExtHead τ sN p kw name)) (hn : Nxt inp bad sN (p + (rExtHead τ sN p kw name).length)) :
    (∀ (T : Expr) (nT : Nat) (cE : Cur) (psT : List Pair),
      RunsK nT T (At inp (p + (rExtHead τ sN p kw name).length)) cE psT →
      RunsK (max nT (B (rExtHead τ sN p kw name).length + 10) + 5)
        (.seq (.call R.KEYWORD_extend) (.seq (.call r) (.seq (.call R.Name) T))) (At inp p) cE
        ([.mk R.KEYWORD_extend p (p + kwExtend.length) []] ++ ([.mk r (ehOffK τ p) (ehOffK τ p + kw.length) []] ++
          ([.mk R.Name (ehOffN τ p kw) (ehOffN τ p kw + name.toList.length) []] ++ psT)))) ∧
    (∀ (T : Expr) (nT : Nat), Fails gList nT true T .nonAtomic (At inp (p + (rExtHead τ sN p kw name).length)) →
      Fails gList (max nT (B (rExtHead τ sN p kw name).length + 10) + 5) true
        (.seq (.call R.KEYWORD_extend) (.seq (.call r) (.seq (.call R.Name) T))) .nonAtomic (At inp p)) ∧
    HasAt inp (ehOffN τ p kw) name.toList := by
  have hoK : ehOffK τ p = p + (tk τ true p kwExtend).length := rfl
  have hoN : ehOffN τ p kw = p + (tk τ true p kwExtend).length + (tk τ true (p + (tk τ true p kwExtend).length) kw).length :=
    rfl
  simp only [rExtHead] at h hn ⊢
  rw [hoK, hoN]
  generalize hS : tk τ true p kwExtend = tS at *
  generalize hK : tk τ true (p + tS.length) kw = tK at *
  generalize hN : tk τ sN (p + tS.length + tK.length) name.toList = tN at *
  have hlen : p + (tS ++ (tK ++ tN)).length = p + tS.length + tK.length + tN.length := by
    simp only [List.length_append]; omega
  rw [hlen] at hn ⊢
  have g0 : HasAt inp p tS := h.left
  have g1 : HasAt inp (p + tS.length) tK := h.right.left
  have g2 : HasAt inp (p + tS.length + tK.length) tN := h.right.right
  have hdK : Hd nameStart tK := hK ▸ hd_tk (hd_of_validName hkw)
  have hdN : Hd nameStart tN := hN ▸ hd_tk (hd_of_validName hname)
  have rS := kwT hτ look_KEYWORD_extend (hS ▸ g0) (bad := fun _ => False)
    (by rw [hS]; exact Nxt.of_hd_sep g1 hdK (fun d hd => ⟨nameStart_not_trivia hd, id⟩))
  rw [hS] at rS
  have rK := kwT hτ hl (hK ▸ g1) (bad := fun _ => False)
    (by rw [hK]; exact Nxt.of_hd_sep g2 hdN (fun d hd => ⟨nameStart_not_trivia hd, id⟩))
  rw [hK] at rK
  have rN := nameT hτ hname (hN ▸ g2) (by rw [hN]; exact hn)
  rw [hN] at rN
  refine ⟨?_, ?_, (hN ▸ g2 : HasAt inp _ (tk τ sN _ name.toList)).left⟩
  · intro T nT cE psT hT
    exact (runsK_seq rS.toK (runsK_seq rK.toK (runsK_seq rN.toK hT))).mono (by barith)
  · intro T nT hT
    exact (fails_seq_K rS.toK (fails_seq_K rK.toK (fails_seq_K rN.toK hT))).mono (by barith)

/-- `!"{"` in front of a token that is not `{` -/
theorem notBraceK {c : Cur} (ht : Tok c) (h : HeadNot (· = '{') c.rest) :
    RunsK 22 (.not (.str ['{'])) c c [] := by
  have hf : FailsL gList .neg 1 true (.str ['{']) .nonAtomic c := strL_head_fails (la := .neg) h
  exact (runsK_not hf ht).mono (by simp)

end NitroVerif.DocParse
