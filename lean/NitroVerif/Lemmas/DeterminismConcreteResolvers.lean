/-
C17 (concrete): the resolvers declaration file model `ResolverDecls.resolversFile` under a permutation of the
definitions of the schema. Core Lean only.
-/
import NitroVerif.Lemmas.DeterminismConcreteTyRel
import NitroVerif.Model.ResolverDecls
namespace NitroVerif.DeterminismResolvers
open NitroVerif.Gql NitroVerif.Ts NitroVerif.DeclCfg NitroVerif.SchemaDecls NitroVerif.ResolverDecls
open NitroVerif.DeterminismRel NitroVerif.DeterminismOpTypes
open NitroVerif.DeterminismDecls (RelList relList_refl relList_map relList_append typeDefsOf_eq objectImplementers_perm')
open NitroVerif.Determinism (NoDupTypeNames typeDefs_perm)

theorem tsUnion_eq : SchemaDecls.tsUnion = OpTypes.tsUnion := by
  funext l
  match l with
  | [] => rfl
  | [_] => rfl
  | _ :: _ :: _ => rfl

theorem permRel_of_perm_refl {α : Type} {R : α → α → Prop} (hr : ∀ a, R a a) {l l' : List α} (h : l.Perm l') :
    PermRel R l l' := ⟨l', h, relList_refl hr l'⟩

theorem permRel_map_of_perm {α β γ : Type} {R : β → γ → Prop} {f : α → β} {g : α → γ} (hfg : ∀ a, R (f a) (g a))
    {l l' : List α} (h : l.Perm l') : PermRel R (l.map f) (l'.map g) :=
  ⟨l'.map f, h.map f, relList_map f g l' fun a _ => hfg a⟩

theorem permRel_filterMap_of_perm {α β γ : Type} {R : β → γ → Prop} {f : α → Option β} {g : α → Option γ}
    (hfg : ∀ a, OptRel R (f a) (g a)) {l l' : List α} (h : l.Perm l') : PermRel R (l.filterMap f) (l'.filterMap g) :=
  ⟨l'.filterMap f, h.filterMap f, relList_filterMap_same hfg l'⟩

theorem tsUnion_map_perm {l l' : List Name} (h : l.Perm l') (f : Name → Ty) :
    TyRel (SchemaDecls.tsUnion (l.map f)) (SchemaDecls.tsUnion (l'.map f)) := by
  rw [tsUnion_eq]
  exact tsUnion_rel (permRel_of_perm_refl tyRel_refl (h.map f))

section
variable {T T' : TsDoc}

theorem resolverOutputType_rel (h : T.Perm T') (td : TypeDef) :
    TyRel (resolverOutputType ⟨T⟩ td) (resolverOutputType ⟨T'⟩ td) := by
  unfold resolverOutputType
  cases hk : td.kind <;> simp only [] <;> first
    | exact tyRel_refl _
    | exact tsUnion_map_perm (objectImplementers_perm' h td.name) _

theorem typeResolver_rel {l l' : List Name} (h : l.Perm l') : TyRel (typeResolver l) (typeResolver l') := by
  unfold typeResolver
  exact tyRel_obj.mpr ⟨⟨rfl, rfl, rfl, tyRel_app.mpr
    ⟨tsUnion_map_perm h _, tyRel_refl _, tsUnion_map_perm h _, trivial⟩⟩, trivial⟩

theorem isEmptyObject_typeResolver (l : List Name) : isEmptyObject (typeResolver l) = false := rfl

theorem rootField_rel (h : T.Perm T') (td : TypeDef) :
    OptRel TyFieldRel
      (match resolverType ⟨T⟩ td with | some t => some (td.name, false, isEmptyObject t, t) | none => none)
      (match resolverType ⟨T'⟩ td with | some t => some (td.name, false, isEmptyObject t, t) | none => none) := by
  unfold resolverType
  cases hk : td.kind <;> simp only []
  · trivial
  · exact ⟨rfl, rfl, rfl, tyRel_refl _⟩
  · exact ⟨rfl, rfl, rfl, typeResolver_rel (objectImplementers_perm' h td.name)⟩
  · exact ⟨rfl, rfl, rfl, tyRel_refl _⟩
  · trivial
  · trivial

end

/-- the four fixed statements at the top of the resolvers file -/
def resolversHeader : List Stmt :=
  [.import "graphql" true (.named [("GraphQLResolveInfo", "GraphQLResolveInfo")]),
   .import schemaSource true (.star schemaNs),
   .rawType false "__Resolver" resolverText,
   .rawType false "__TypeResolver" typeResolverText]

/-- **The equivalence on emitted resolvers files.** Same header; the same `type X = …` aliases up to their order and
    the order of union members (`TyRel`); a `Resolvers<Context>` record with the same fields up to their order and
    the order of union members inside; a `ResolverOutput<T extends …>` whose bound lists the same names and whose
    object has the same fields, up to order. -/
def ResolversFileEquiv (f f' : File) : Prop :=
  ∃ (outs outs' : List (String × Ty)) (rs rs' : List Ts.Field) (names names' : List Ty) (os os' : List Ts.Field),
    f = resolversHeader ++ outs.map (fun p => Stmt.type false p.1 [] p.2) ++
        [.type true "Resolvers" [("Context", none)] (.obj rs),
         .type true "ResolverOutput" [("T", some (SchemaDecls.tsUnion names))] (.index (.obj os) (.ref "T"))] ∧
    f' = resolversHeader ++ outs'.map (fun p => Stmt.type false p.1 [] p.2) ++
        [.type true "Resolvers" [("Context", none)] (.obj rs'),
         .type true "ResolverOutput" [("T", some (SchemaDecls.tsUnion names'))] (.index (.obj os') (.ref "T"))] ∧
    PermRel (fun p p' => p.1 = p'.1 ∧ TyRel p.2 p'.2) outs outs' ∧
    PermRel TyFieldRel rs rs' ∧ names.Perm names' ∧ os.Perm os'

theorem resolversFile_perm {T T' : TsDoc} (c : Cfg) (h : T.Perm T') :
    ResolversFileEquiv (resolversFile c T) (resolversFile c T') := by
  have htd : (typeDefsOf T).Perm (typeDefsOf T') := typeDefs_perm h
  have houts := htd.filter (fun td : TypeDef => td.kind != .input)
  let outsOf (T : TsDoc) := (typeDefsOf T).filter (fun td : TypeDef => td.kind != .input)
  let rootOf (T : TsDoc) : TypeDef → Option Ts.Field := fun td =>
    match resolverType ⟨T⟩ td with | some t => some (td.name, false, isEmptyObject t, t) | none => none
  refine ⟨(outsOf T).map fun td => (td.name, resolverOutputType ⟨T⟩ td),
    (outsOf T').map fun td => (td.name, resolverOutputType ⟨T'⟩ td),
    (typeDefsOf T).filterMap (rootOf T), (typeDefsOf T').filterMap (rootOf T'),
    (outsOf T).map (fun td => Ty.strLit td.name), (outsOf T').map (fun td => Ty.strLit td.name),
    (outsOf T).map (fun td => (td.name, false, false, Ty.ref td.name)),
    (outsOf T').map (fun td => (td.name, false, false, Ty.ref td.name)),
    ?_, ?_, ?_, ?_, houts.map _, houts.map _⟩
  · simp only [resolversFile, resolversHeader, rootResolvers, List.map_map, Function.comp_def, outsOf, rootOf]
    rfl
  · simp only [resolversFile, resolversHeader, rootResolvers, List.map_map, Function.comp_def, outsOf, rootOf]
    rfl
  · exact permRel_map_of_perm (fun td => ⟨rfl, resolverOutputType_rel h td⟩) houts
  · exact permRel_filterMap_of_perm (fun td => rootField_rel h td) htd

end NitroVerif.DeterminismResolvers
