/-
C17 (concrete part 3b): the relation "same TypeScript type up to the order of the members of every union"
(`TyRel`), and `OpTypes.toTs` maps `TreeRel`-related trees to `TyRel`-related types.
Core Lean only.
-/
import NitroVerif.Lemmas.DeterminismConcreteImplTree
namespace NitroVerif.DeterminismOpTypes
open NitroVerif.Gql NitroVerif.OpTypes NitroVerif.DeterminismRel NitroVerif.Ts
open NitroVerif.DeterminismDecls (RelList relList_refl relList_map relList_append)

mutual
/-- the same TypeScript type up to the order of the members of every union, at every depth reachable through
    unions, arrays, type applications and object types (the constructors `toTs` produces) -/
def TyRel : Ty → Ty → Prop
  | .union ts, t => ∃ ts', t = .union ts' ∧ TysPermRel ts ts'
  | .arr a, t => ∃ b, t = .arr b ∧ TyRel a b
  | .app f as, t => ∃ bs, t = .app f bs ∧ TysRel as bs
  | .obj fs, t => ∃ fs', t = .obj fs' ∧ TyFieldsRel fs fs'
  | .prim s, t => t = .prim s
  | .ref n, t => t = .ref n
  | .qref p, t => t = .qref p
  | .strLit s, t => t = .strLit s
  | .numLit s, t => t = .numLit s
  | .roArr a, t => t = .roArr a
  | .inter ts, t => t = .inter ts
  | .fn ps r, t => t = .fn ps r
  | .index a k, t => t = .index a k
  | .tuple ts, t => t = .tuple ts
  | .other tag ps, t => t = .other tag ps
/-- the second list is a permutation of the first up to `TyRel` -/
def TysPermRel : List Ty → List Ty → Prop
  | [], l => l = []
  | a :: rest, l => ∃ b l1 l2, l = l1 ++ b :: l2 ∧ TyRel a b ∧ TysPermRel rest (l1 ++ l2)
def TysRel : List Ty → List Ty → Prop
  | [], l => l = []
  | a :: rest, l => ∃ b r, l = b :: r ∧ TyRel a b ∧ TysRel rest r
/-- same keys and flags in the same order, related types -/
def TyFieldsRel : List Ts.Field → List Ts.Field → Prop
  | [], l => l = []
  | (k, ro, o, t) :: rest, l => ∃ t' r, l = (k, ro, o, t') :: r ∧ TyRel t t' ∧ TyFieldsRel rest r
end

/-- a relation defined by "pick the partner of the head anywhere in the other list" is `PermRel` -/
theorem permRel_of_pick {α : Type} {R : α → α → Prop} {P : List α → List α → Prop}
    (hnil : ∀ l, P [] l ↔ l = [])
    (hcons : ∀ a r l, P (a :: r) l ↔ ∃ b l1 l2, l = l1 ++ b :: l2 ∧ R a b ∧ P r (l1 ++ l2)) :
    ∀ l l', P l l' ↔ PermRel R l l' := by
  intro l
  induction l with
  | nil =>
    intro l'
    rw [hnil]
    exact ⟨fun h => by subst h; exact .nil, fun h => h.nil_left⟩
  | cons a rest ih =>
    intro l'
    rw [hcons]
    constructor
    · rintro ⟨b, l1, l2, rfl, hb, hr⟩
      exact (PermRel.cons hb ((ih _).mp hr)).perm_right List.perm_middle.symm
    · rintro ⟨g, hg, hr⟩
      have hag : a ∈ g := hg.mem_iff.mp List.mem_cons_self
      obtain ⟨g1, g2, rfl⟩ := List.append_of_mem hag
      have hrest : rest.Perm (g1 ++ g2) := (List.perm_cons a).mp (hg.trans List.perm_middle)
      have hsplit : ∀ (g1 : List α) (l' : List α), RelList R (g1 ++ a :: g2) l' →
          ∃ l1 b l2, l' = l1 ++ b :: l2 ∧ R a b ∧ RelList R (g1 ++ g2) (l1 ++ l2) := by
        intro g1
        induction g1 with
        | nil =>
          intro l' h
          obtain ⟨b, r, rfl, h1, h2⟩ := relList_cons_left.mp h
          exact ⟨[], b, r, rfl, h1, h2⟩
        | cons x g1 ih' =>
          intro l' h
          obtain ⟨x', r, rfl, h1, h2⟩ := relList_cons_left.mp h
          obtain ⟨l1, b, l2, rfl, hb, hr⟩ := ih' r h2
          exact ⟨x' :: l1, b, l2, rfl, hb, h1, hr⟩
      obtain ⟨l1, b, l2, rfl, hb, hr'⟩ := hsplit g1 l' hr
      exact ⟨b, l1, l2, rfl, hb, (ih _).mpr ⟨g1 ++ g2, hrest, hr'⟩⟩

theorem tysPermRel_iff {l l' : List Ty} : TysPermRel l l' ↔ PermRel TyRel l l' :=
  permRel_of_pick (fun l => by rw [TysPermRel]) (fun a r l => by rw [TysPermRel]) l l'

theorem tysRel_iff : ∀ {l l' : List Ty}, TysRel l l' ↔ RelList TyRel l l'
  | [], l' => by rw [TysRel, relList_nil_left]
  | a :: l, l' => by
    rw [TysRel, relList_cons_left]
    constructor
    · rintro ⟨b, r, he, h1, h2⟩; exact ⟨b, r, he, h1, tysRel_iff.mp h2⟩
    · rintro ⟨b, r, he, h1, h2⟩; exact ⟨b, r, he, h1, tysRel_iff.mpr h2⟩

/-- two object fields with the same key and flags and related types -/
def TyFieldRel (f f' : Ts.Field) : Prop := f.1 = f'.1 ∧ f.2.1 = f'.2.1 ∧ f.2.2.1 = f'.2.2.1 ∧ TyRel f.2.2.2 f'.2.2.2

theorem tyFieldsRel_iff : ∀ {l l' : List Ts.Field}, TyFieldsRel l l' ↔ RelList TyFieldRel l l'
  | [], l' => by rw [TyFieldsRel, relList_nil_left]
  | (k, ro, o, t) :: l, l' => by
    rw [TyFieldsRel, relList_cons_left]
    constructor
    · rintro ⟨t', r, he, h1, h2⟩; exact ⟨_, r, he, ⟨rfl, rfl, rfl, h1⟩, tyFieldsRel_iff.mp h2⟩
    · rintro ⟨⟨k', ro', o', t'⟩, r, he, ⟨h1, h2, h3, h4⟩, h5⟩
      simp only at h1 h2 h3 h4
      subst h1; subst h2; subst h3
      exact ⟨t', r, he, h4, tyFieldsRel_iff.mpr h5⟩

theorem tyRel_union {ts ts' : List Ty} : TyRel (.union ts) (.union ts') ↔ PermRel TyRel ts ts' := by
  rw [TyRel, ← tysPermRel_iff]
  constructor
  · rintro ⟨x, he, h⟩; cases he; exact h
  · intro h; exact ⟨ts', rfl, h⟩

theorem tyRel_arr {a b : Ty} : TyRel (.arr a) (.arr b) ↔ TyRel a b := by
  rw [TyRel]
  constructor
  · rintro ⟨x, he, h⟩; cases he; exact h
  · intro h; exact ⟨b, rfl, h⟩

theorem tyRel_app {f : Ty} {as bs : List Ty} : TyRel (.app f as) (.app f bs) ↔ RelList TyRel as bs := by
  rw [TyRel, ← tysRel_iff]
  constructor
  · rintro ⟨x, he, h⟩; cases he; exact h
  · intro h; exact ⟨bs, rfl, h⟩

theorem tyRel_obj {fs fs' : List Ts.Field} : TyRel (.obj fs) (.obj fs') ↔ RelList TyFieldRel fs fs' := by
  rw [TyRel, ← tyFieldsRel_iff]
  constructor
  · rintro ⟨x, he, h⟩; cases he; exact h
  · intro h; exact ⟨fs', rfl, h⟩

mutual
theorem tyRel_refl : ∀ t : Ty, TyRel t t
  | .union ts => tyRel_union.mpr (.of_rel (tysRefl ts))
  | .arr a => tyRel_arr.mpr (tyRel_refl a)
  | .app f as => tyRel_app.mpr (tysRefl as)
  | .obj fs => tyRel_obj.mpr (tyFieldsRefl fs)
  | .prim _ => by rw [TyRel]
  | .ref _ => by rw [TyRel]
  | .qref _ => by rw [TyRel]
  | .strLit _ => by rw [TyRel]
  | .numLit _ => by rw [TyRel]
  | .roArr _ => by rw [TyRel]
  | .inter _ => by rw [TyRel]
  | .fn _ _ => by rw [TyRel]
  | .index _ _ => by rw [TyRel]
  | .tuple _ => by rw [TyRel]
  | .other _ _ => by rw [TyRel]
theorem tysRefl : ∀ l : List Ty, RelList TyRel l l
  | [] => trivial
  | a :: l => ⟨tyRel_refl a, tysRefl l⟩
theorem tyFieldsRefl : ∀ l : List Ts.Field, RelList TyFieldRel l l
  | [] => trivial
  | (_, _, _, t) :: l => ⟨⟨rfl, rfl, rfl, tyRel_refl t⟩, tyFieldsRefl l⟩
end

/-! ### `ts_union`, `orNull` -/

theorem tsUnion_rel {l l' : List Ty} (h : PermRel TyRel l l') : TyRel (OpTypes.tsUnion l) (OpTypes.tsUnion l') := by
  have hlen := h.length
  match l, l', h, hlen with
  | [], [], _, _ => exact tyRel_refl _
  | [a], [b], h, _ =>
    obtain ⟨g, hg, hr⟩ := h
    have : g = [a] := List.perm_singleton.mp hg.symm
    subst this
    exact hr.1
  | a :: a' :: as, b :: b' :: bs, h, _ => exact tyRel_union.mpr h
  | [], _ :: _, _, hl => simp at hl
  | _ :: _, [], _, hl => simp at hl
  | [_], _ :: _ :: _, _, hl => simp at hl
  | _ :: _ :: _, [_], _, hl => simp at hl

theorem orNull_rel {t t' : Ty} (h : TyRel t t') : TyRel (orNull t) (orNull t') := by
  have pair : ∀ {a b : Ty}, TyRel a b → TyRel (.union [a, .prim "null"]) (.union [b, .prim "null"]) :=
    fun hab => tyRel_union.mpr (.of_rel ⟨hab, tyRel_refl _, trivial⟩)
  cases t with
  | union ts =>
    rw [TyRel] at h
    obtain ⟨ts', rfl, hts⟩ := h
    simp only [orNull]
    exact tyRel_union.mpr ((tysPermRel_iff.mp hts).append (.of_rel ⟨tyRel_refl _, trivial⟩))
  | arr a =>
    have h' := h
    rw [TyRel] at h'
    obtain ⟨b, rfl, _⟩ := h'
    exact pair h
  | app f as =>
    have h' := h
    rw [TyRel] at h'
    obtain ⟨bs, rfl, _⟩ := h'
    exact pair h
  | obj fs =>
    have h' := h
    rw [TyRel] at h'
    obtain ⟨fs', rfl, _⟩ := h'
    exact pair h
  | prim _ => have h' := h; rw [TyRel] at h'; subst h'; exact pair h
  | ref _ => have h' := h; rw [TyRel] at h'; subst h'; exact pair h
  | qref _ => have h' := h; rw [TyRel] at h'; subst h'; exact pair h
  | strLit _ => have h' := h; rw [TyRel] at h'; subst h'; exact pair h
  | numLit _ => have h' := h; rw [TyRel] at h'; subst h'; exact pair h
  | roArr _ => have h' := h; rw [TyRel] at h'; subst h'; exact pair h
  | inter _ => have h' := h; rw [TyRel] at h'; subst h'; exact pair h
  | fn _ _ => have h' := h; rw [TyRel] at h'; subst h'; exact pair h
  | index _ _ => have h' := h; rw [TyRel] at h'; subst h'; exact pair h
  | tuple _ => have h' := h; rw [TyRel] at h'; subst h'; exact pair h
  | other _ _ => have h' := h; rw [TyRel] at h'; subst h'; exact pair h

/-! ### `toTs` -/

theorem branchesTs_eq_map (r : Refs) : ∀ bs : List Branch, branchesTs r bs = bs.map (branchTs r)
  | [] => by simp only [branchesTs, List.map_nil]
  | b :: bs => by simp only [branchesTs, List.map_cons, branchesTs_eq_map r bs]

mutual
theorem treeTs_rel (r : Refs) : ∀ (t t' : SelTree) (nn : Bool), TreeRel t t' → TyRel (treeTs r t nn) (treeTs r t' nn)
  | .nonNull a, t', nn, h => by
    rw [TreeRel] at h
    obtain ⟨b, rfl, hab⟩ := h
    simp only [treeTs]
    exact treeTs_rel r a b true hab
  | .list a, t', nn, h => by
    rw [TreeRel] at h
    obtain ⟨b, rfl, hab⟩ := h
    simp only [treeTs]
    have := tyRel_arr.mpr (treeTs_rel r a b false hab)
    cases nn
    · exact orNull_rel this
    · exact this
  | .object bs, t', nn, h => by
    rw [TreeRel] at h
    obtain ⟨bs', rfl, hb⟩ := h
    simp only [treeTs]
    have := tsUnion_rel (branchesTs_rel r bs bs' hb)
    cases nn
    · exact orNull_rel this
    · exact this
theorem branchesTs_rel (r : Refs) : ∀ (bs bs' : List Branch), BranchesRel bs bs' →
    PermRel TyRel (branchesTs r bs) (branchesTs r bs')
  | [], bs', h => by
    rw [BranchesRel] at h
    subst h
    exact .nil
  | b :: rest, bs', h => by
    rw [BranchesRel] at h
    obtain ⟨b', l1, l2, rfl, hb, hr⟩ := h
    have ih := branchesTs_rel r rest (l1 ++ l2) hr
    have hb' := branchTs_rel r b b' hb
    rw [branchesTs_eq_map r (l1 ++ l2)] at ih
    rw [branchesTs_eq_map r (l1 ++ b' :: l2)]
    simp only [branchesTs, List.map_append, List.map_cons] at ih ⊢
    exact (PermRel.cons hb' ih).perm_right List.perm_middle.symm
theorem branchTs_rel (r : Refs) : ∀ (b b' : Branch), BranchRel b b' → TyRel (branchTs r b) (branchTs r b')
  | .mk n v un al, b', h => by
    rw [BranchRel] at h
    obtain ⟨un', al', rfl, hun, hal⟩ := h
    simp only [branchTs]
    exact tyRel_app.mpr ⟨tyRel_refl _, tyRel_obj.mpr (fieldsTs_rel r n un un' hun),
      tyRel_obj.mpr (fieldsTs_rel r n al al' hal), trivial⟩
theorem fieldsTs_rel (r : Refs) (p : Name) : ∀ (fs fs' : List SField), FieldsRel fs fs' →
    RelList TyFieldRel (fieldsTs r p fs) (fieldsTs r p fs')
  | [], fs', h => by
    rw [FieldsRel] at h
    subst h
    trivial
  | f :: fs, fs', h => by
    rw [FieldsRel] at h
    obtain ⟨f', rest, rfl, hf, hr⟩ := h
    simp only [fieldsTs]
    exact ⟨fieldTs_rel r p f f' hf, fieldsTs_rel r p fs rest hr⟩
theorem fieldTs_rel (r : Refs) (p : Name) : ∀ (f f' : SField), FieldRel f f' → TyFieldRel (fieldTs r p f) (fieldTs r p f')
  | .empty n, f', h => by
    rw [FieldRel] at h
    subst h
    exact ⟨rfl, rfl, rfl, tyRel_refl _⟩
  | .leaf n t b, f', h => by
    rw [FieldRel] at h
    subst h
    exact ⟨rfl, rfl, rfl, tyRel_refl _⟩
  | .object n sel, f', h => by
    rw [FieldRel] at h
    obtain ⟨sel', rfl, hs⟩ := h
    simp only [fieldTs]
    exact ⟨rfl, rfl, rfl, treeTs_rel r sel sel' false hs⟩
end

theorem toTs_rel (ns : String) {t t' : SelTree} (h : TreeRel t t') : TyRel (toTs ns t) (toTs ns t') :=
  treeTs_rel _ t t' false h

/-! ### the result-type declarations of an operation file -/

/-- two `type X = …;` statements of the operation declaration file: same name, same export flag, and the types are
    both panics or `TyRel`-related -/
def OpDeclRel (d d' : OpTypes.Decl) : Prop :=
  d.name = d'.name ∧ d.exported = d'.exported ∧ ExRel TyRel d.ty d'.ty

theorem exRel_exceptMap {α β γ δ ε : Type} {R : α → β → Prop} {Q : γ → δ → Prop} {x : Except ε α} {y : Except ε β}
    {f : α → γ} {g : β → δ} (hxy : ExRel R x y) (hfg : ∀ a b, R a b → Q (f a) (g b)) :
    ExRel Q (x.map f) (y.map g) := by
  cases x <;> cases y
  · trivial
  · exact hxy.elim
  · exact hxy.elim
  · exact hfg _ _ hxy

theorem relList_filterMap_same {α γ δ : Type} {Q : γ → δ → Prop} {f : α → Option γ} {g : α → Option δ}
    (hfg : ∀ a, OptRel Q (f a) (g a)) : ∀ l : List α, RelList Q (l.filterMap f) (l.filterMap g)
  | [] => trivial
  | a :: l => by
    have := hfg a
    simp only [List.filterMap_cons]
    cases hf : f a <;> cases hg : g a <;> rw [hf, hg] at this
    · exact relList_filterMap_same hfg l
    · exact this.elim
    · exact this.elim
    · exact ⟨this, relList_filterMap_same hfg l⟩

theorem opDecls_rel {S S' : Schema} (h : SchemaRel S S') (hroot : ∀ k, S.rootName k = S'.rootName k)
    (o : Opts) (d : Doc) : RelList OpDeclRel (opDecls S o d) (opDecls S' o d) := by
  unfold opDecls
  apply relList_filterMap_same
  intro x
  cases x with
  | op op =>
    simp only [resultTree, hroot]
    exact ⟨rfl, rfl, exRel_exceptMap ((implTree_fieldsFor_rel h _ _ _).1 _ _) fun _ _ hab => toTs_rel _ hab⟩
  | frag f =>
    simp only [resultTree]
    exact ⟨rfl, rfl, exRel_exceptMap ((implTree_fieldsFor_rel h _ _ _).1 _ _) fun _ _ hab => toTs_rel _ hab⟩
  | imp i => trivial

end NitroVerif.DeterminismOpTypes
