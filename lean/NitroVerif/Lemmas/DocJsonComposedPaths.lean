/-
Helper lemmas for the instance of C13 with the C20 path model: `resolve_relative_path(from_file, literal)` as a
left fold of `normalize_path`'s step over the literal's components, and the respellings that cannot be told apart.
No property statements here.
-/
import NitroVerif.Model.Paths
namespace NitroVerif.Paths

theorem normalize_append (p : P) (c : Comp) : normalize (p ++ [c]) = normStep (normalize p) c := by
  simp [normalize, List.foldl_append]

/-- `PathBuf::push` followed by `normalize_path` = one step of `normalize_path` on the normalised base -/
theorem normalize_push (p : P) (c : Comp) : normalize (push p c) = normStep (normalize p) c := by
  cases c with
  | root => simp [push, normalize, normStep]
  | cur =>
    cases p with
    | nil => simp [push, normalize, normStep]
    | cons a r => simp [push, normStep]
  | parent => exact normalize_append p _
  | normal s => exact normalize_append p _

theorem normalize_pushPath (p rel : P) : normalize (pushPath p rel) = rel.foldl normStep (normalize p) := by
  induction rel generalizing p with
  | nil => rfl
  | cons c r ih =>
    simp only [pushPath, List.foldl_cons] at ih ⊢
    rw [ih, normalize_push]

/-- `resolve_relative_path(from_file, rel)`: the literal's components are applied, `normalize_path`-step by step, to
    the normalised directory of the importing file -/
theorem resolve_eq_foldl (doc rel : P) : resolve doc rel = rel.foldl normStep (normalize (pop (normalize doc))) := by
  unfold resolve
  exact normalize_pushPath _ _

/-- two component lists are respellings of one another: they move every directory stack to the same place -/
def SameTarget (a b : P) : Prop := ∀ s : P, a.foldl normStep s = b.foldl normStep s

theorem SameTarget.refl (a : P) : SameTarget a a := fun _ => rfl
theorem SameTarget.symm {a b : P} (h : SameTarget a b) : SameTarget b a := fun s => (h s).symm
theorem SameTarget.trans {a b c : P} (h1 : SameTarget a b) (h2 : SameTarget b c) : SameTarget a c :=
  fun s => (h1 s).trans (h2 s)

theorem SameTarget.append {a b c d : P} (h1 : SameTarget a b) (h2 : SameTarget c d) : SameTarget (a ++ c) (b ++ d) := by
  intro s; rw [List.foldl_append, List.foldl_append, h1 s, h2]

/-- a `.` segment anywhere changes nothing -/
theorem sameTarget_cur (pre post : P) : SameTarget (pre ++ Comp.cur :: post) (pre ++ post) := by
  apply SameTarget.append (SameTarget.refl pre)
  intro s; simp [normStep]

/-- `x/..` anywhere changes nothing -/
theorem sameTarget_updown (pre post : P) (x : String) :
    SameTarget (pre ++ Comp.normal x :: Comp.parent :: post) (pre ++ post) := by
  apply SameTarget.append (SameTarget.refl pre)
  intro s; simp [normStep]

/-- respellings resolve to the same path from every importing file -/
theorem resolve_sameTarget {a b : P} (h : SameTarget a b) (doc : P) : resolve doc a = resolve doc b := by
  rw [resolve_eq_foldl, resolve_eq_foldl, h]

/-- `resolve_relative_path` normalises its base: resolving against `normalize_path(doc)` or against `doc` is the same
    (needs only that `normalize_path` is idempotent, passed in so that this file stays independent of `Props/C20.lean`) -/
theorem resolve_normalize_base (hidem : ∀ p : P, normalize (normalize p) = normalize p) (doc rel : P) :
    resolve (normalize doc) rel = resolve doc rel := by
  unfold resolve
  rw [hidem]

end NitroVerif.Paths
