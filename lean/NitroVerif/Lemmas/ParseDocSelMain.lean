/-
Selections, assembly (helper lemmas for Props/C07Doc): fragment spreads, inline fragments, the `Selection` choice, the
`SelectionSet` rule over a list of selections, and the induction on the selection tree.
-/
import NitroVerif.Lemmas.ParseDocSelRun
namespace NitroVerif.DocParse
open NitroVerif.Peg NitroVerif.Gen NitroVerif.Gen.Parts NitroVerif.Build NitroVerif.TypeParse NitroVerif.StringParse
open NitroVerif.Gql NitroVerif.ValueParse NitroVerif.Spec.Lex

set_option linter.unusedSimpArgs false

variable {inp : List Char}

/-- what must not follow a selection: `(`, `@`, `{`, `:` -/
abbrev selBad : Char → Prop := fun c => c = '(' ∨ c = '@' ∨ c = '{' ∨ c = ':'

/-- the statement of the round trip for one selection -/
def SelOk (τ : Trivia) (inp : List Char) (s : Selection) : Prop := ∀ (sep : Bool) (p : Nat),
  HasAt inp p (rSel τ sep p s) → Nxt inp selBad sep (p + (rSel τ sep p s).length) →
  ∃ pr, RunsK (B (rSel τ sep p s).length + 40) (.call R.Selection) (At inp p) (At inp (p + (rSel τ sep p s).length)) [pr] ∧
    PairOk R.Selection p pr ∧
    ∀ fuel, (rSel τ sep p s).length ≤ fuel → selFn (Ctx.spec inp) fuel pr = .ok (wpSel τ inp sep p s)

/-- … and for a selection set -/
def SelSetOk (τ : Trivia) (inp : List Char) (ss : List Selection) : Prop := ∀ (sep : Bool) (p : Nat),
  HasAt inp p (rSelSet τ sep p ss) → Tok (At inp (p + (rSelSet τ sep p ss).length)) →
  ∃ pr, RunsK (B (rSelSet τ sep p ss).length + 5) (.call R.SelectionSet) (At inp p)
      (At inp (p + (rSelSet τ sep p ss).length)) [pr] ∧ PairOk R.SelectionSet p pr ∧
    ∀ fuel, (rSelSet τ sep p ss).length ≤ fuel →
      buildSelectionSet (Ctx.spec inp) fuel pr = .ok (wpSels τ inp (p + (tk τ false p ['{']).length) ss)

/-! ### failing alternatives -/

theorem alias_fails {p : Nat} (h : HeadNot nameStart (inp.drop p)) :
    Fails gList 13 true (.call R.Alias) .nonAtomic (At inp p) :=
  fails_rule look_Alias (by decide) (by decide) (fails_seq_1 (name_fails_at h))

theorem field_fails {p : Nat} (h : HeadNot nameStart (inp.drop p)) (ht : Tok (At inp p)) :
    Fails gList 30 true (.call R.Field) .nonAtomic (At inp p) :=
  (fails_rule look_Field (by decide) (by decide)
    (fails_seq_K (runsK_opt_none (alias_fails h) ht) (fails_seq_1 (name_fails_at h)))).mono (by simp)

theorem spread_fails_head {p : Nat} (h : HeadNot (· = '.') (inp.drop p)) :
    Fails gList 4 true (.call R.FragmentSpread) .nonAtomic (At inp p) :=
  fails_rule look_FragmentSpread (by decide) (by decide) (fails_seq_1 (str_fails h))

theorem inline_fails_head {p : Nat} (h : HeadNot (· = '.') (inp.drop p)) :
    Fails gList 4 true (.call R.InlineFragment) .nonAtomic (At inp p) :=
  fails_rule look_InlineFragment (by decide) (by decide) (fails_seq_1 (str_fails h))

theorem selection_fails {p : Nat} (h : HeadNot (fun d => nameStart d ∨ d = '.') (inp.drop p)) (ht : Tok (At inp p)) :
    Fails gList 40 true (.call R.Selection) .nonAtomic (At inp p) :=
  (fails_rule look_Selection (by decide) (by decide)
    (fails_choice_K (field_fails (headNot_mono (fun _ h => Or.inl h) h) ht)
      (fails_choice_K (spread_fails_head (headNot_mono (fun _ h => Or.inr h) h))
        (inline_fails_head (headNot_mono (fun _ h => Or.inr h) h))))).mono (by simp)

theorem selectionSet_fails {p : Nat} (h : HeadNot (· = '{') (inp.drop p)) :
    Fails gList 4 true (.call R.SelectionSet) .nonAtomic (At inp p) :=
  fails_rule look_SelectionSet (by decide) (by decide) (fails_seq_1 (str_fails h))

theorem kwOn_valid : validName kwOn := ⟨by decide, fun x hx => by
  simp only [List.mem_cons, List.not_mem_nil, or_false] at hx; subst hx; decide⟩

/-! ### fragment spread -/

theorem p_spread_nodup : (P_FragmentSpread.map itemRule).Nodup := by decide

theorem spreadT (τ : Trivia) (hτ : ∀ q, Ws (τ q)) (n : Name) (np : Pos) (dirs : List Directive) (pos : Pos)
    (hwf : WFSel (.spread n np dirs pos)) : SelOk τ inp (.spread n np dirs pos) := by
  obtain ⟨hnm, hne, hdirs⟩ := hwf
  intro sep p h hn
  have hwp : wpSel τ inp sep p (.spread n np dirs pos) =
      .spread n (posAt inp (p + (tk τ false p dots).length)) (wpDirs τ inp sep (p + (tk τ false p dots).length +
        (tk τ (sep && dirs.isEmpty) (p + (tk τ false p dots).length) n.toList).length) dirs) (posAt inp p) := by
    simp only [wpSel]
  rw [hwp]
  simp only [rSel] at h hn ⊢
  generalize h0 : tk τ false p dots = t0 at *
  generalize hsN : (sep && dirs.isEmpty) = sN at *
  generalize hN : tk τ sN (p + t0.length) n.toList = tN at *
  generalize hD : rDirs τ sep (p + t0.length + tN.length) dirs = tD at *
  have hlen : p + (t0 ++ (tN ++ tD)).length = p + t0.length + tN.length + tD.length := by
    simp only [List.length_append]; omega
  rw [hlen] at hn ⊢
  have g0 : HasAt inp p t0 := h.left
  have g1 : HasAt inp (p + t0.length) tN := h.right.left
  have g2 : HasAt inp (p + t0.length + tN.length) tD := h.right.right
  have hd0 : Hd (· = '.') t0 := h0 ▸ hd_tk (hd_cons _ rfl)
  -- the field alternative fails
  have f1 := field_fails (headNot_of_hd g0 hd0 (by rintro c rfl; decide)) (tok_of_hd g0 hd0 (by rintro c rfl; decide))
  -- `...`
  have hnmTok : Tok (At inp (p + t0.length)) :=
    tok_of_hd g1 (hN ▸ hd_tk (hd_of_validName hnm)) (fun d => nameStart_not_trivia)
  have r0 := strT hτ dots (h0 ▸ g0) (by rw [h0]; exact hnmTok)
  rw [h0] at r0
  -- the name
  have n2 : Nxt inp (fun _ => False) sN (p + t0.length + tN.length) := by
    refine Nxt.rest g2 hn (hD ▸ hd_rDirs τ sep _ dirs) (P := (· = '@')) (by rintro c rfl; decide) (fun c hc => hc.elim) ?_
    intro ht hs
    have : dirs = [] := rDirs_eq_nil (hD.trans ht)
    subst this
    rw [← hsN] at hs
    simpa using hs
  obtain ⟨gN, gGap, gGlue⟩ := tk_gap hτ (hN ▸ g1) (by rw [hN]; exact n2)
  have rN := nameT hτ hnm (hN ▸ g1) (by rw [hN]; exact n2)
  rw [hN] at rN
  have rNot := runsK_not (kw_fails_name (la := .neg) look_KEYWORD_on kwOn_valid hnm hne gN gGlue) hnmTok
  have rFN := runsKE_rule look_FragmentName (by decide) (by decide) (runsKE_seq rNot rN)
  -- the directives
  obtain ⟨oD, rD, hokD, _, hbD⟩ := optDirsT τ hτ dirs hdirs (bad := selBad) (Or.inl rfl) (Or.inr (Or.inl rfl))
    (hD ▸ g2) (by rw [hD]; exact hn)
  rw [hD] at rD hbD
  obtain ⟨e, rS⟩ := runsK_rule look_FragmentSpread (by decide) (by decide) (runsK_seq r0 (runsK_seq rFN.toK rD))
  obtain ⟨e', rSel⟩ := runsK_rule look_Selection (by decide) (by decide) (runsK_choice_r f1 (runsK_choice_l rS))
  have hl0 : 3 ≤ t0.length := by rw [← h0]; simp [tk]
  refine ⟨_, rSel.mono (by barith), ?_, ?_⟩
  · refine pairOk_mk (by decide) (by decide) ⟨cleanP_of (by decide) (by decide) ?_, trivial⟩
    simp only [List.nil_append, List.cons_append, cleanL_cons, At]
    refine ⟨cleanP_of (by decide) (by decide) ⟨cleanP_of (by decide) (by decide) trivial, trivial⟩, ?_⟩
    cases oD with
    | none => trivial
    | some x => exact ⟨(hokD x rfl).clean, trivial⟩
  · intro fuel hf
    have hm := matchParts_slots P_FragmentSpread
      [some (.mk R.FragmentName (p + t0.length) (p + t0.length + n.toList.length)
        [.mk R.Name (p + t0.length) (p + t0.length + n.toList.length) []]), oD] p_spread_nodup
      ⟨⟨_, rfl, rfl⟩, fun x hx => (hokD x hx).rule, trivial⟩
    have hname := gN.slice
    have hfD := hbD fuel (by simp only [List.length_append] at hf; omega)
    simp only [slotPairs, Option.toList_some, List.append_nil, List.cons_append, List.nil_append] at hm
    unfold selFn
    simp [onlyChildOf, onlyChild, Pair.children, OC_Selection, Pair.rule, bind, Except.bind, At, hm, hfD,
      asString_spec', toPos_spec', Pair.start, Pair.stop, hname, pure, Except.pure, R.Field, R.FragmentSpread]


/-! ### fields -/

theorem slotPairs_field (oA oG oD oS : Option Pair) (nm : Pair) :
    oA.toList ++ ([nm] ++ (oG.toList ++ (oD.toList ++ oS.toList))) = slotPairs [oA, some nm, oG, oD, oS] := by
  simp [slotPairs]

theorem hd_rHead (τ : Trivia) (sD : Bool) (p : Nat) (al : Option (Name × Pos)) (n : Name) (args : List Arg)
    (dirs : List Directive) (hal : ∀ a ∈ al, validName a.1.toList) (hnm : validName n.toList) :
    Hd nameStart (rHead τ sD p al n args dirs) := by
  simp only [rHead]
  cases al with
  | none => simpa [rAlias] using (hd_tk (hd_of_validName hnm)).append _
  | some ap =>
    obtain ⟨a, apos⟩ := ap
    simp only [rAlias, List.append_assoc]
    exact (hd_tk (hd_of_validName (hal (a, apos) rfl))).append _

theorem fieldNoneT (τ : Trivia) (hτ : ∀ q, Ws (τ q)) (al : Option (Name × Pos)) (n : Name) (np : Pos) (args : List Arg)
    (dirs : List Directive) (hwf : WFSel (.field al n np args dirs none)) : SelOk τ inp (.field al n np args dirs none) := by
  obtain ⟨hal, hnm, hargs, hdirs⟩ := hwf
  intro sep p h hn
  have hwp : wpSel τ inp sep p (.field al n np args dirs none) = wpField τ inp sep p al n args dirs none := by
    simp only [wpSel]
  rw [hwp]
  simp only [rSel] at h hn ⊢
  obtain ⟨oA, oG, oD, hrun, hokA, hB⟩ := headK τ hτ al n args dirs hal hnm hargs hdirs h
    (hn.mono (fun c hc => hc.elim Or.inl (fun h => h.elim (fun h => Or.inr (Or.inl h)) (fun h => Or.inr (Or.inr (Or.inr h))))))
  have hT := runsK_opt_none (selectionSet_fails (headNot_mono (fun c hc => Or.inr (Or.inr (Or.inl hc))) hn.ok)) hn.tok
  obtain ⟨e, rF⟩ := runsK_rule look_Field (by decide) (by decide) (hrun _ _ _ _ hT)
  obtain ⟨e', rS⟩ := runsK_rule look_Selection (by decide) (by decide) (runsK_choice_l rF)
  have hl := (hd_rHead τ sep p al n args dirs hal hnm).length_pos
  refine ⟨_, rS.mono (by barith), ?_, ?_⟩
  · refine pairOk_mk (by decide) (by decide) ⟨cleanP_of (by decide) (by decide) ?_, trivial⟩
    simp only [cleanL_append, cleanL_cons, cleanL_nil, Option.toList_none, and_true]
    exact ⟨clean_opt (fun x hx => (hokA x hx).2), cleanP_of (by decide) (by decide) trivial,
      clean_opt (fun x hx => (hB.argsOk x hx).clean), clean_opt (fun x hx => (hB.dirsOk x hx).clean)⟩
  · intro fuel hf
    have := selFn_field τ inp fuel sep p al n args dirs oA oG oD none e e' none hB (fun x hx => (hokA x hx).1)
      (by simp) hf rfl
    rw [← slotPairs_field] at this
    simpa [At] using this

theorem hd_rSelSet (τ : Trivia) (sep : Bool) (p : Nat) (ss : List Selection) : Hd (· = '{') (rSelSet τ sep p ss) := by
  simp only [rSelSet]
  exact Hd.append (hd_tk (P := (· = '{')) (hd_cons [] rfl)) _

theorem rSel_field_some (τ : Trivia) (sep : Bool) (p : Nat) (al : Option (Name × Pos)) (n : Name) (np : Pos)
    (args : List Arg) (dirs : List Directive) (ss : List Selection) :
    rSel τ sep p (.field al n np args dirs (some ss)) =
      rHead τ false p al n args dirs ++ rSelSet τ sep (p + (rHead τ false p al n args dirs).length) ss := by
  simp only [rSel, rSelSet]

theorem fieldSomeT (τ : Trivia) (hτ : ∀ q, Ws (τ q)) (al : Option (Name × Pos)) (n : Name) (np : Pos) (args : List Arg)
    (dirs : List Directive) (ss : List Selection) (hal : ∀ a ∈ al, validName a.1.toList) (hnm : validName n.toList)
    (hargs : WFFs args) (hdirs : WFDirs dirs) (hss : SelSetOk τ inp ss) :
    SelOk τ inp (.field al n np args dirs (some ss)) := by
  intro sep p h hn
  have hwp : wpSel τ inp sep p (.field al n np args dirs (some ss)) = wpField τ inp false p al n args dirs
      (some (wpSels τ inp (p + (rHead τ false p al n args dirs).length +
        (tk τ false (p + (rHead τ false p al n args dirs).length) ['{']).length) ss)) := by
    simp only [wpSel]
  rw [hwp, rSel_field_some] at *
  generalize hH : rHead τ false p al n args dirs = tH at *
  generalize hS : rSelSet τ sep (p + tH.length) ss = tS at *
  have hlen : p + (tH ++ tS).length = p + tH.length + tS.length := by simp only [List.length_append]; omega
  rw [hlen] at hn ⊢
  have g1 : HasAt inp p tH := h.left
  have g2 : HasAt inp (p + tH.length) tS := h.right
  obtain ⟨oA, oG, oD, hrun, hokA, hB⟩ := headK τ hτ al n args dirs hal hnm hargs hdirs (hH ▸ g1)
    (by rw [hH]; exact Nxt.of_hd g2 (hS ▸ hd_rSelSet τ sep _ ss) (by rintro c rfl; decide))
  obtain ⟨prS, rSS, hokS, hbS⟩ := hss sep (p + tH.length) (hS ▸ g2) (by rw [hS]; exact hn.tok)
  rw [hS] at rSS hbS
  rw [hH] at hrun
  obtain ⟨e, rF⟩ := runsK_rule look_Field (by decide) (by decide) (hrun _ _ _ _ (runsK_opt_some rSS))
  obtain ⟨e', rS⟩ := runsK_rule look_Selection (by decide) (by decide) (runsK_choice_l rF)
  have hl : 1 ≤ tH.length := hH ▸ (hd_rHead τ false p al n args dirs hal hnm).length_pos
  refine ⟨_, rS.mono (by barith), ?_, ?_⟩
  · refine pairOk_mk (by decide) (by decide) ⟨cleanP_of (by decide) (by decide) ?_, trivial⟩
    simp only [cleanL_append, cleanL_cons, cleanL_nil, and_true]
    exact ⟨clean_opt (fun x hx => (hokA x hx).2), cleanP_of (by decide) (by decide) trivial,
      clean_opt (fun x hx => (hB.argsOk x hx).clean), clean_opt (fun x hx => (hB.dirsOk x hx).clean), hokS.clean⟩
  · intro fuel hf
    have hf' : tH.length + tS.length ≤ fuel := by simpa using hf
    have hsel : optSelB (Ctx.spec inp) fuel (some prS) = .ok (some (wpSels τ inp (p + tH.length +
        (tk τ false (p + tH.length) ['{']).length) ss)) := by
      simp only [optSelB, hbS fuel (by omega)]
    have := selFn_field τ inp fuel false p al n args dirs oA oG oD (some prS) e e' _ hB (fun x hx => (hokA x hx).1)
      (by intro x hx; cases hx; exact hokS.rule) (by rw [hH]; omega) hsel
    rw [← slotPairs_field] at this
    simpa [At, hH] using this


/-! ### inline fragments -/

theorem look_NamedType' : gList.look R.NamedType = some (.normal, .call R.Name) := rfl

theorem p_inline_nodup : (P_InlineFragment.map itemRule).Nodup := by decide

theorem hd_rCond (τ : Trivia) (sep : Bool) (p : Nat) (c : Option (Name × Pos)) :
    rCond τ sep p c = [] ∨ Hd (· = 'o') (rCond τ sep p c) := by
  cases c with
  | none => exact Or.inl rfl
  | some t => exact Or.inr (Hd.append (hd_tk (P := (· = 'o')) (hd_cons ['n'] rfl)) _)

/-- `TypeCondition`: `on gap Type gap` -/
theorem condT (τ : Trivia) (hτ : ∀ q, Ws (τ q)) (t : Name) (tp : Pos) (hv : validName t.toList) {p : Nat}
    {bad : Char → Prop} (h : HasAt inp p (rCond τ false p (some (t, tp))))
    (hn : Nxt inp bad false (p + (rCond τ false p (some (t, tp))).length)) :
    ∃ e, RunsK (B (rCond τ false p (some (t, tp))).length + 8) (.call R.TypeCondition) (At inp p)
        (At inp (p + (rCond τ false p (some (t, tp))).length))
        [.mk R.TypeCondition p e [.mk R.KEYWORD_on p (p + 2) [],
          .mk R.NamedType (p + (tk τ true p kwOn).length) (p + (tk τ true p kwOn).length + t.toList.length)
            [.mk R.Name (p + (tk τ true p kwOn).length) (p + (tk τ true p kwOn).length + t.toList.length) []]]] ∧
      HasAt inp (p + (tk τ true p kwOn).length) t.toList := by
  simp only [rCond] at h hn ⊢
  generalize h1 : tk τ true p kwOn = t1 at *
  generalize h2 : tk τ false (p + t1.length) t.toList = t2 at *
  have hlen : p + (t1 ++ t2).length = p + t1.length + t2.length := by simp only [List.length_append]; omega
  rw [hlen] at hn ⊢
  have g1 : HasAt inp p t1 := h.left
  have g2 : HasAt inp (p + t1.length) t2 := h.right
  have r1 := kwT hτ look_KEYWORD_on (h1 ▸ g1) (bad := fun _ => False) (by
    rw [h1]; exact Nxt.of_hd_sep g2 (h2 ▸ hd_tk (hd_of_validName hv)) (fun d hd => ⟨nameStart_not_trivia hd, id⟩))
  have r2 := nameT hτ hv (h2 ▸ g2) (by rw [h2]; exact hn)
  rw [h1] at r1
  rw [h2] at r2
  have r2' := runsKE_rule look_NamedType' (by decide) (by decide) r2
  obtain ⟨e, rT⟩ := runsK_rule look_TypeCondition (by decide) (by decide) (runsK_seq r1.toK r2'.toK)
  exact ⟨e, RunsK.cast (rT.mono (by barith)) rfl rfl (by simp [At]), (h2 ▸ g2 : HasAt inp _ (tk τ false _ _)).left⟩

/-- `TypeCondition?` in front of something that begins with `@` or `{` -/
theorem optCondT (τ : Trivia) (hτ : ∀ q, Ws (τ q)) (c : Option (Name × Pos)) (hc : ∀ t ∈ c, validName t.1.toList)
    {p : Nat} (h : HasAt inp p (rCond τ false p c))
    (hn : Nxt inp (fun d => nameStart d) false (p + (rCond τ false p c).length)) :
    ∃ o : Option Pair, RunsK (B (rCond τ false p c).length + 10) (.opt (.call R.TypeCondition)) (At inp p)
        (At inp (p + (rCond τ false p c).length)) o.toList ∧ (∀ x ∈ o, x.rule = R.TypeCondition ∧ CleanP x) ∧
      ((c = none ∧ o = none) ∨ ∃ t tp e, c = some (t, tp) ∧ HasAt inp (p + (tk τ true p kwOn).length) t.toList ∧
        o = some (.mk R.TypeCondition p e [.mk R.KEYWORD_on p (p + 2) [],
          .mk R.NamedType (p + (tk τ true p kwOn).length) (p + (tk τ true p kwOn).length + t.toList.length)
            [.mk R.Name (p + (tk τ true p kwOn).length) (p + (tk τ true p kwOn).length + t.toList.length) []]])) := by
  cases c with
  | none =>
    have hn' : Nxt inp (fun d => nameStart d) false p := by simpa [rCond] using hn
    have hf := fails_rule look_TypeCondition (by decide) (by decide)
      (fails_seq_1 (kw_fails_head (la := .none) look_KEYWORD_on
        (headNot_mono (fun d hd => by subst hd; decide) hn'.ok)))
    refine ⟨none, ?_, by simp, Or.inl ⟨rfl, rfl⟩⟩
    simp only [rCond, List.length_nil, Nat.add_zero, Option.toList_none]
    exact (runsK_opt_none hf hn'.tok).mono (by barith)
  | some tt =>
    obtain ⟨t, tp⟩ := tt
    have hv : validName t.toList := hc (t, tp) rfl
    obtain ⟨e, rT, hat⟩ := condT τ hτ t tp hv h hn
    refine ⟨some (.mk R.TypeCondition p e [.mk R.KEYWORD_on p (p + 2) [],
        .mk R.NamedType (p + (tk τ true p kwOn).length) (p + (tk τ true p kwOn).length + t.toList.length)
          [.mk R.Name (p + (tk τ true p kwOn).length) (p + (tk τ true p kwOn).length + t.toList.length) []]]), ?_, ?_,
      Or.inr ⟨t, tp, e, rfl, hat, rfl⟩⟩
    · exact (runsK_opt_some rT).mono (by omega)
    · intro x hx
      cases hx
      exact ⟨rfl, cleanP_of (by decide) (by decide) ⟨cleanP_of (by decide) (by decide) trivial,
        cleanP_of (by decide) (by decide) ⟨cleanP_of (by decide) (by decide) trivial, trivial⟩, trivial⟩⟩

theorem typeConditionIdent_pair (inp : List Char) (p e q : Nat) (t : List Char) (h : HasAt inp q t) :
    typeConditionIdent (Ctx.spec inp) (.mk R.TypeCondition p e [.mk R.KEYWORD_on p (p + 2) [],
      .mk R.NamedType q (q + t.length) [.mk R.Name q (q + t.length) []]]) = .ok (String.ofList t, posAt inp q) := by
  have hs := h.slice
  simp [typeConditionIdent, matchParts, P_TypeCondition, Pair.children, Pair.rule, get2, ident, asString_spec',
    toPos_spec', Pair.start, Pair.stop, hs, Except.map, bind, Except.bind]

theorem inlineT (τ : Trivia) (hτ : ∀ q, Ws (τ q)) (cond : Option (Name × Pos)) (dirs : List Directive)
    (ss : List Selection) (pos : Pos) (hc : ∀ t ∈ cond, validName t.1.toList) (hdirs : WFDirs dirs)
    (hss : SelSetOk τ inp ss) : SelOk τ inp (.inline cond dirs ss pos) := by
  intro sep p h hn
  have hwp : wpSel τ inp sep p (.inline cond dirs ss pos) =
      .inline (wpCond τ inp (p + (tk τ false p dots).length) cond)
        (wpDirs τ inp false (p + (tk τ false p dots).length + (rCond τ false (p + (tk τ false p dots).length) cond).length) dirs)
        (wpSels τ inp (p + (tk τ false p dots).length + (rCond τ false (p + (tk τ false p dots).length) cond).length +
          (rDirs τ false (p + (tk τ false p dots).length + (rCond τ false (p + (tk τ false p dots).length) cond).length) dirs).length +
          (tk τ false (p + (tk τ false p dots).length + (rCond τ false (p + (tk τ false p dots).length) cond).length +
          (rDirs τ false (p + (tk τ false p dots).length + (rCond τ false (p + (tk τ false p dots).length) cond).length) dirs).length) ['{']).length) ss)
        (posAt inp p) := by
    simp only [wpSel]
  have htxt : rSel τ sep p (.inline cond dirs ss pos) = tk τ false p dots ++
      (rCond τ false (p + (tk τ false p dots).length) cond ++
        (rDirs τ false (p + (tk τ false p dots).length + (rCond τ false (p + (tk τ false p dots).length) cond).length) dirs ++
          rSelSet τ sep (p + (tk τ false p dots).length + (rCond τ false (p + (tk τ false p dots).length) cond).length +
            (rDirs τ false (p + (tk τ false p dots).length + (rCond τ false (p + (tk τ false p dots).length) cond).length) dirs).length) ss)) := by
    simp only [rSel, rSelSet]
  rw [hwp]
  rw [htxt] at h hn ⊢
  clear hwp htxt
  generalize h0 : tk τ false p dots = t0 at *
  generalize hC : rCond τ false (p + t0.length) cond = tC at *
  generalize hD : rDirs τ false (p + t0.length + tC.length) dirs = tD at *
  generalize hS : rSelSet τ sep (p + t0.length + tC.length + tD.length) ss = tS at *
  have hlen : p + (t0 ++ (tC ++ (tD ++ tS))).length = p + t0.length + tC.length + tD.length + tS.length := by
    simp only [List.length_append]; omega
  rw [hlen] at hn ⊢
  have g0 : HasAt inp p t0 := h.left
  have g1 : HasAt inp (p + t0.length) tC := h.right.left
  have g2 : HasAt inp (p + t0.length + tC.length) tD := h.right.right.left
  have g3 : HasAt inp (p + t0.length + tC.length + tD.length) tS := h.right.right.right
  have hd0 : Hd (· = '.') t0 := h0 ▸ hd_tk (hd_cons _ rfl)
  have hdS : Hd (· = '{') tS := hS ▸ hd_rSelSet τ sep _ ss
  have hl0 : 3 ≤ t0.length := by rw [← h0]; simp [tk]
  have hlS := hdS.length_pos
  -- what follows the type condition / the directives
  have n3 : Nxt inp (fun c => c = '(' ∨ c = '@' ∨ nameStart c) false (p + t0.length + tC.length + tD.length) :=
    Nxt.of_hd g3 hdS (by rintro c rfl; decide)
  have n2 : Nxt inp (fun d => nameStart d) false (p + t0.length + tC.length) :=
    Nxt.rest g2 n3 (hD ▸ hd_rDirs τ false _ dirs) (P := (· = '@')) (by rintro c rfl; decide)
      (fun c hc => Or.inr (Or.inr hc)) (fun _ _ => rfl)
  have hrest : Hd (fun c => c = 'o' ∨ c = '@' ∨ c = '{') (tC ++ (tD ++ tS)) := by
    have a : tD ++ tS = [] ∨ Hd (fun c => c = 'o' ∨ c = '@' ∨ c = '{') (tD ++ tS) :=
      hd_or_nil_append (hd_or_nil_mono (hD ▸ hd_rDirs τ false _ dirs) (fun c h => Or.inr (Or.inl h)))
        (Or.inr (hdS.mono (fun c h => Or.inr (Or.inr h))))
    have b := hd_or_nil_append (hd_or_nil_mono (hC ▸ hd_rCond τ false _ cond) (fun c h => Or.inl h)) a
    rcases b with b | b
    · exact absurd (List.append_eq_nil_iff.mp (List.append_eq_nil_iff.mp b).2).2 hdS.ne_nil
    · exact b
  have g1' : HasAt inp (p + t0.length) (tC ++ (tD ++ tS)) := h.right
  have hTok1 : Tok (At inp (p + t0.length)) := tok_of_hd g1' hrest (by rintro c (rfl | rfl | rfl) <;> decide)
  -- the field alternative fails
  have f1 := field_fails (headNot_of_hd g0 hd0 (by rintro c rfl; decide)) (tok_of_hd g0 hd0 (by rintro c rfl; decide))
  -- `...`
  have r0 := strT hτ dots (h0 ▸ g0) (by rw [h0]; exact hTok1)
  rw [h0] at r0
  -- the type condition
  obtain ⟨oC, rC, hokC, hbC⟩ := optCondT τ hτ cond hc (hC ▸ g1) (by rw [hC]; exact n2)
  rw [hC] at rC
  -- the spread alternative fails: `FragmentName` fails after `...`
  have fFN : Fails gList 40 true (.call R.FragmentName) .nonAtomic (At inp (p + t0.length)) := by
    refine (fails_rule look_FragmentName (by decide) (by decide) ?_).mono (by omega : 36 + 2 ≤ 40)
    cases cond with
    | none =>
      have htC : tC = [] := by rw [← hC]; rfl
      subst htC
      have hh : Hd (fun c => c = '@' ∨ c = '{') (tD ++ tS) := by
        have := hd_or_nil_append (hd_or_nil_mono (hD ▸ hd_rDirs τ false _ dirs) (fun c h => Or.inl h))
          (Or.inr (hdS.mono (fun c h => Or.inr h)))
        rcases this with b | b
        · exact absurd (List.append_eq_nil_iff.mp b).2 hdS.ne_nil
        · exact b
      have hat : HasAt inp (p + t0.length) (tD ++ tS) := by simpa using g1'
      have rNot := runsK_not (kw_fails_head (la := .neg) look_KEYWORD_on
        (headNot_of_hd hat hh (by rintro c (rfl | rfl) <;> decide))) hTok1
      exact (fails_seq_K rNot (name_fails_at (headNot_of_hd hat hh (by rintro c (rfl | rfl) <;> decide)))).mono (by simp)
    | some tt =>
      obtain ⟨t, tp⟩ := tt
      simp only [rCond] at hC
      have gk : HasAt inp (p + t0.length) (tk τ true (p + t0.length) kwOn) := (hC ▸ g1).left
      have gg : HasAt inp (p + t0.length + (tk τ true (p + t0.length) kwOn).length)
          (tk τ false (p + t0.length + (tk τ true (p + t0.length) kwOn).length) t.toList) := (hC ▸ g1).right
      obtain ⟨gw, _, gglue⟩ := tk_gap hτ gk (bad := fun _ => False)
        (Nxt.of_hd_sep gg (hd_tk (hd_of_validName (hc (t, tp) rfl))) (fun d hd => ⟨nameStart_not_trivia hd, id⟩))
      obtain ⟨ps, hr⟩ := kw_runsL (la := .neg) look_KEYWORD_on gw gglue
      exact (fails_seq_1 (fails_not hr)).mono (by omega)
  have f2 : Fails gList (B t0.length + 50) true (.call R.FragmentSpread) .nonAtomic (At inp p) :=
    (fails_rule look_FragmentSpread (by decide) (by decide) (fails_seq_K r0 (fails_seq_1 fFN))).mono (by barith)
  -- directives, selection set
  obtain ⟨oD, rD, hokD, _, hbD⟩ := optDirsT τ hτ dirs hdirs (bad := fun c => c = '(' ∨ c = '@' ∨ nameStart c)
    (Or.inl rfl) (Or.inr (Or.inl rfl)) (hD ▸ g2) (by rw [hD]; exact n3)
  rw [hD] at rD hbD
  obtain ⟨prS, rSS, hokS, hbS⟩ := hss sep (p + t0.length + tC.length + tD.length) (hS ▸ g3) (by rw [hS]; exact hn.tok)
  rw [hS] at rSS hbS
  obtain ⟨e, rI⟩ := runsK_rule look_InlineFragment (by decide) (by decide)
    (runsK_seq r0 (runsK_seq rC (runsK_seq rD rSS)))
  obtain ⟨e', rSel⟩ := runsK_rule look_Selection (by decide) (by decide)
    (runsK_choice_r f1 (runsK_choice_r f2 rI))
  refine ⟨_, rSel.mono (by barith), ?_, ?_⟩
  · refine pairOk_mk (by decide) (by decide) ⟨cleanP_of (by decide) (by decide) ?_, trivial⟩
    simp only [cleanL_append, cleanL_cons, cleanL_nil, and_true, true_and]
    exact ⟨clean_opt (fun x hx => (hokC x hx).2), clean_opt (fun x hx => (hokD x hx).clean), hokS.clean⟩
  · intro fuel hf
    have hf' : t0.length + (tC.length + (tD.length + tS.length)) ≤ fuel := by simpa using hf
    have hm := matchParts_slots P_InlineFragment [oC, oD, some prS] p_inline_nodup
      ⟨fun x hx => (hokC x hx).1, fun x hx => (hokD x hx).rule, ⟨_, rfl, hokS.rule⟩, trivial⟩
    have hch : [] ++ (oC.toList ++ (oD.toList ++ [prS])) = slotPairs [oC, oD, some prS] := by simp [slotPairs]
    rw [hch]
    have hfD := hbD fuel (by omega)
    have hfS := hbS fuel (by omega)
    unfold selFn
    rcases hbC with ⟨rfl, rfl⟩ | ⟨t, tp, eC, rfl, hct, rfl⟩
    · simp [onlyChildOf, onlyChild, Pair.children, OC_Selection, Pair.rule, bind, Except.bind, At, hm, hfD, hfS,
        toPos_spec', Pair.start, pure, Except.pure, R.Field, R.FragmentSpread, R.InlineFragment, wpCond]
    · have hti := typeConditionIdent_pair inp (p + t0.length) eC _ t.toList hct
      simp [onlyChildOf, onlyChild, Pair.children, OC_Selection, Pair.rule, bind, Except.bind, At, hm, hfD, hfS,
        toPos_spec', Pair.start, pure, Except.pure, R.Field, R.FragmentSpread, R.InlineFragment, wpCond, hti]


/-! ### selection sets -/

theorem rSels_eq (τ : Trivia) : ∀ (ss : List Selection) (p : Nat),
    rSels τ p ss = renderItems (rSel τ) true false p ss := by
  intro ss
  induction ss with
  | nil => intro p; simp only [rSels, renderItems]
  | cons s r ih =>
    intro p
    cases r with
    | nil => simp only [rSels, renderItems]
    | cons t r => simp only [rSels, renderItems, ih]

theorem wpSels_eq (τ : Trivia) (inp : List Char) : ∀ (ss : List Selection) (p : Nat),
    wpSels τ inp p ss = mapItems (rSel τ) true false (wpSel τ inp) p ss := by
  intro ss
  induction ss with
  | nil => intro p; simp only [wpSels, mapItems]
  | cons s r ih =>
    intro p
    cases r with
    | nil => simp only [wpSels, mapItems]
    | cons t r => simp only [wpSels, mapItems, ih]

theorem hd_rSel (τ : Trivia) (sep : Bool) (p : Nat) (s : Selection) (hwf : WFSel s) :
    Hd (fun d => nameStart d ∨ d = '.') (rSel τ sep p s) := by
  cases s with
  | field al n np args dirs sel =>
    cases sel with
    | none =>
      obtain ⟨hal, hnm, _, _⟩ := hwf
      simp only [rSel]
      exact (hd_rHead τ sep p al n args dirs hal hnm).mono (fun _ h => Or.inl h)
    | some ss =>
      obtain ⟨hal, hnm, _, _, _, _⟩ := hwf
      rw [rSel_field_some]
      exact ((hd_rHead τ false p al n args dirs hal hnm).mono (fun _ h => Or.inl h)).append _
  | spread n np dirs pos =>
    simp only [rSel]
    exact Hd.append (hd_tk (P := fun d => nameStart d ∨ d = '.') (hd_cons ['.', '.'] (Or.inr rfl))) _
  | inline cond dirs ss pos =>
    simp only [rSel]
    exact Hd.append (hd_tk (P := fun d => nameStart d ∨ d = '.') (hd_cons ['.', '.'] (Or.inr rfl))) _

def SelGood (τ : Trivia) (inp : List Char) : Bool → Nat → Selection → Pair → Prop := fun s q x pr =>
  PairOk R.Selection q pr ∧
    ∀ fuel, (rSel τ s q x).length ≤ fuel → selFn (Ctx.spec inp) fuel pr = .ok (wpSel τ inp s q x)

/-- the `SelectionSet` rule over selections that satisfy the round-trip statement -/
theorem selSetT (τ : Trivia) (hτ : ∀ q, Ws (τ q)) (ss : List Selection) (hne : ss ≠ [])
    (hall : ∀ s ∈ ss, WFSel s ∧ SelOk τ inp s) : SelSetOk τ inp ss := by
  intro sep p h ht
  cases ss with
  | nil => exact absurd rfl hne
  | cons a r =>
    simp only [rSelSet] at h ht ⊢
    rw [rSels_eq, wpSels_eq] at *
    generalize hO : tk τ false p ['{'] = tO at *
    generalize hI : renderItems (rSel τ) true false (p + tO.length) (a :: r) = tI at *
    generalize hC : tk τ sep (p + tO.length + tI.length) ['}'] = tC at *
    have hlen : p + (tO ++ (tI ++ tC)).length = p + tO.length + tI.length + tC.length := by
      simp only [List.length_append]; omega
    rw [hlen] at ht ⊢
    have g0 : HasAt inp p tO := h.left
    have g1 : HasAt inp (p + tO.length) tI := h.right.left
    have g2 : HasAt inp (p + tO.length + tI.length) tC := h.right.right
    have hdC : Hd (· = '}') tC := hC ▸ hd_tk (hd_cons _ rfl)
    have hlO : 1 ≤ tO.length := by rw [← hO]; simp [tk]
    have hlC : 1 ≤ tC.length := hdC.length_pos
    have hnE : Nxt inp selBad false (p + tO.length + tI.length) := Nxt.of_hd g2 hdC (by rintro c rfl; decide)
    have hfail : Fails gList (40 + 100) true (.call R.Selection) .nonAtomic (At inp (p + tO.length + tI.length)) :=
      (selection_fails (headNot_of_hd g2 hdC (by rintro c rfl; decide)) hnE.tok).mono (by omega)
    obtain ⟨pss, hmany, hgood⟩ := items_many1K (rSel τ) true false (.call R.Selection) (fun _ => selBad) 40 (SelGood τ inp) r a
      (p + tO.length)
      (fun x hx s q hat hnx => by
        obtain ⟨pr, hr, hok, hb⟩ := (hall x hx).2 s q hat hnx
        exact ⟨pr, hr, hok, hb⟩)
      (fun x hx s q => (hd_rSel τ s q x (hall x hx).1).mono (by
        rintro c (hc | rfl)
        · have := nameStart_not_punct hc
          refine ⟨nameStart_not_trivia hc, ?_, fun h => by cases h⟩
          rintro (rfl | rfl | rfl | rfl) <;> simp_all
        · decide))
      (hI ▸ g1) (by rw [hI]; exact hnE) (by rw [hI]; exact hfail)
    rw [hI] at hmany
    have hTokI : Tok (At inp (p + tO.length)) := by
      obtain ⟨s', tail, htl⟩ := renderItems_cons (rSel τ) true false (p + tO.length) a r
      refine tok_of_hd g1 (hI ▸ htl ▸ (hd_rSel τ s' _ a (hall a (List.mem_cons_self ..)).1).append _) ?_
      rintro c (hc | rfl)
      · exact nameStart_not_trivia hc
      · decide
    have r0 := strT hτ ['{'] (hO ▸ g0) (by rw [hO]; exact hTokI)
    have r2 := strT hτ ['}'] (hC ▸ g2) (by rw [hC]; exact ht)
    rw [hO] at r0
    rw [hC] at r2
    obtain ⟨e, rS⟩ := runsK_rule look_SelectionSet (by decide) (by decide)
      (runsK_seq r0 (runsK_seq (runsK_plus1 hmany) r2))
    have hclean : CleanL pss := goodItems_clean (rSel τ) true false (SelGood τ inp) (a :: r)
      (fun x _ s q pr hg => hg.1.clean) _ pss hgood
    refine ⟨_, rS.mono (by barith), pairOk_mk (by decide) (by decide) (by simpa using hclean), ?_⟩
    intro fuel hf
    obtain ⟨f, rfl⟩ : ∃ f, fuel = f + 1 := ⟨fuel - 1, by simp only [List.length_append] at hf; omega⟩
    have hall' := goodItems_all (rSel τ) true false (SelGood τ inp) R.Selection (a :: r)
      (fun x _ s q pr hg => hg.1.rule) _ pss hgood
    simp only [At, List.nil_append, List.append_nil]
    rw [buildSelectionSet_eq _ _ _ _ _ hall']
    exact goodItems_mapM (rSel τ) true false (SelGood τ inp) (selFn (Ctx.spec inp) f) (wpSel τ inp) f (a :: r)
      (fun x _ s q pr hg hl => hg.2 f hl) _ pss (by rw [hI]; simp only [List.length_append] at hf; omega) hgood

/-! ### the induction on the selection tree -/

theorem size_mem_sels {s : Selection} : ∀ {ss : List Selection}, s ∈ ss → s.size ≤ Selection.sizeList ss := by
  intro ss
  induction ss with
  | nil => intro h; cases h
  | cons w ws ih =>
    intro h
    simp only [Selection.sizeList]
    rcases List.mem_cons.mp h with rfl | h
    · omega
    · have := ih h; omega

theorem wfSels_mem {s : Selection} : ∀ {ss : List Selection}, WFSels ss → s ∈ ss → WFSel s := by
  intro ss
  induction ss with
  | nil => intro _ h; cases h
  | cons w ws ih =>
    intro hwf h
    simp only [WFSels] at hwf
    rcases List.mem_cons.mp h with rfl | h
    · exact hwf.1
    · exact ih hwf.2 h

/-- every well-formed selection satisfies the round-trip statement -/
theorem sel_all (τ : Trivia) (hτ : ∀ q, Ws (τ q)) : ∀ (N : Nat) (s : Selection), s.size ≤ N → WFSel s → SelOk τ inp s := by
  intro N
  induction N with
  | zero =>
    intro s hs
    cases s with
    | field al n np args dirs sel => cases sel <;> simp [Selection.size] at hs
    | spread => simp [Selection.size] at hs
    | inline => simp [Selection.size] at hs
  | succ N ih =>
    intro s hs hwf
    cases s with
    | field al n np args dirs sel =>
      cases sel with
      | none => exact fieldNoneT τ hτ al n np args dirs hwf
      | some ss =>
        obtain ⟨hal, hnm, hargs, hdirs, hne, hss⟩ := hwf
        have hsz : Selection.sizeList ss ≤ N := by simp only [Selection.size] at hs; omega
        exact fieldSomeT τ hτ al n np args dirs ss hal hnm hargs hdirs
          (selSetT τ hτ ss hne fun x hx =>
            ⟨wfSels_mem hss hx, ih x (Nat.le_trans (size_mem_sels hx) hsz) (wfSels_mem hss hx)⟩)
    | spread n np dirs pos => exact spreadT τ hτ n np dirs pos hwf
    | inline cond dirs ss pos =>
      obtain ⟨hc, hdirs, hne, hss⟩ := hwf
      have hsz : Selection.sizeList ss ≤ N := by simp only [Selection.size] at hs; omega
      exact inlineT τ hτ cond dirs ss pos hc hdirs
        (selSetT τ hτ ss hne fun x hx =>
          ⟨wfSels_mem hss hx, ih x (Nat.le_trans (size_mem_sels hx) hsz) (wfSels_mem hss hx)⟩)

/-- … and every non-empty well-formed selection set -/
theorem selSet_all (τ : Trivia) (hτ : ∀ q, Ws (τ q)) (ss : List Selection) (hne : ss ≠ []) (hwf : WFSels ss) :
    SelSetOk τ inp ss :=
  selSetT τ hτ ss hne fun x hx => ⟨wfSels_mem hwf hx, sel_all τ hτ x.size x (Nat.le_refl _) (wfSels_mem hwf hx)⟩

end NitroVerif.DocParse
