/-
Selections, assembly (helper lemmas for Props/C07Doc): fragment spreads, inline fragments, the `Selection` choice, the
`SelectionSet` rule over a list of selections, and the induction on the selection tree.
-/
import NitroVerif.Lemmas.ParseDocSelRun
namespace NitroVerif.DocParse
open NitroVerif.Peg NitroVerif.Gen NitroVerif.Gen.Parts NitroVerif.Build NitroVerif.TypeParse NitroVerif.StringParse
open NitroVerif.Gql NitroVerif.ValueParse NitroVerif.Spec.Lex

set_option linter.unusedSimpArgs false

variable {inp : List Char}

/-- what must not follow a selection: `(`, `@`, `{`, `:` -/
abbrev selBad : Char → Prop := fun c => c = '(' ∨ c = '@' ∨ c = '{' ∨ c = ':'

/-- the statement of the round trip for one selection -/
def SelOk (τ : Trivia) (inp : List Char) (s : Selection) : Prop := ∀ (sep : Bool) (p : Nat),
  HasAt inp p (rSel τ sep p s) → Nxt inp selBad sep (p + (rSel τ sep p s).length) →
  ∃ pr, RunsK (B (rSel τ sep p s).length + 40) (.call R.Selection) (At inp p) (At inp (p + (rSel τ sep p s).length)) [pr] ∧
    PairOk R.Selection p pr ∧
    ∀ fuel, (rSel τ sep p s).length ≤ fuel → selFn (Ctx.spec inp) fuel pr = .ok (wpSel τ inp sep p s)

/-- … and for a selection set -/
def SelSetOk (τ : Trivia) (inp : List Char) (ss : List Selection) : Prop := ∀ (sep : Bool) (p : Nat),
  HasAt inp p (rSelSet τ sep p ss) → Tok (At inp (p + (rSelSet τ sep p ss).length)) →
  ∃ pr, RunsK (B (rSelSet τ sep p ss).length + 5) (.call R.SelectionSet) (At inp p)
      (At inp (p + (rSelSet τ sep p ss).length)) [pr] ∧ PairOk R.SelectionSet p pr ∧
    ∀ fuel, (rSelSet τ sep p ss).length ≤ fuel →
      buildSelectionSet (Ctx.spec inp) fuel pr = .ok (wpSels τ inp (p + (tk τ false p ['{']).length) ss)

/-! ### failing alternatives -/

theorem alias_fails {p : Nat} (h : HeadNot nameStart (inp.drop p)) :
    Fails gList 13 true (.call R.Alias) .nonAtomic (At inp p) :=
  fails_rule look_Alias (by decide) (by decide) (fails_seq_1 (name_fails_at h))

theorem field_fails {p : Nat} (h : HeadNot nameStart (inp.drop p)) (ht : Tok (At inp p)) :
    Fails gList 30 true (.call R.Field) .nonAtomic (At inp p) :=
  (fails_rule look_Field (by decide) (by decide)
    (fails_seq_K (runsK_opt_none (alias_fails h) ht) (fails_seq_1 (name_fails_at h)))).mono (by simp)

theorem spread_fails_head {p : Nat} (h : HeadNot (· = '.') (inp.drop p)) :
    Fails gList 4 true (.call R.FragmentSpread) .nonAtomic (At inp p) :=
  fails_rule look_FragmentSpread (by decide) (by decide) (fails_seq_1 (str_fails h))

theorem inline_fails_head {p : Nat} (h : HeadNot (· = '.') (inp.drop p)) :
    Fails gList 4 true (.call R.InlineFragment) .nonAtomic (At inp p) :=
  fails_rule look_InlineFragment (by decide) (by decide) (fails_seq_1 (str_fails h))

theorem selection_fails {p : Nat} (h : HeadNot (fun d => nameStart d ∨ d = '.') (inp.drop p)) (ht : Tok (At inp p)) :
    Fails gList 40 true (.call R.Selection) .nonAtomic (At inp p) :=
  (fails_rule look_Selection (by decide) (by decide)
    (fails_choice_K (field_fails (headNot_mono (fun _ h => Or.inl h) h) ht)
      (fails_choice_K (spread_fails_head (headNot_mono (fun _ h => Or.inr h) h))
        (inline_fails_head (headNot_mono (fun _ h => Or.inr h) h))))).mono (by simp)

theorem selectionSet_fails {p : Nat} (h : HeadNot (· = '{') (inp.drop p)) :
    Fails gList 4 true (.call R.SelectionSet) .nonAtomic (At inp p) :=
  fails_rule look_SelectionSet (by decide) (by decide) (fails_seq_1 (str_fails h))

theorem kwOn_valid : validName kwOn := ⟨by decide, fun x hx => by
  simp only [List.mem_cons, List.not_mem_nil, or_false] at hx; subst hx; decide⟩

/-! ### fragment spread -/

theorem p_spread_nodup : (P_FragmentSpread.map itemRule).Nodup := by decide

theorem spreadT (τ : Trivia) (hτ : ∀ q, Ws (τ q)) (n : Name) (np : Pos) (dirs : List Directive) (pos : Pos)
    (hwf : WFSel (.spread n np dirs pos)) : SelOk τ inp (.spread n np dirs pos) := by
  obtain ⟨hnm, hne, hdirs⟩ := hwf
  intro sep p h hn
  have hwp : wpSel τ inp sep p (.spread n np dirs pos) =
      .spread n (posAt inp (p + (tk τ false p dots).length)) (wpDirs τ inp sep (p + (tk τ false p dots).length +
        (tk τ (sep && dirs.isEmpty) (p + (tk τ false p dots).length) n.toList).length) dirs) (posAt inp p) := by
    simp only [wpSel]
  rw [hwp]
  simp only [rSel] at h hn ⊢
  generalize h0 : tk τ false p dots = t0 at *
  generalize hsN : (sep && dirs.isEmpty) = sN at *
  generalize hN : tk τ sN (p + t0.length) n.toList = tN at *
  generalize hD : rDirs τ sep (p + t0.length + tN.length) dirs = tD at *
  have hlen : p + (t0 ++ (tN ++ tD)).length = p + t0.length + tN.length + tD.length := by
    simp only [List.length_append]; omega
  rw [hlen] at hn ⊢
  have g0 : HasAt inp p t0 := h.left
  have g1 : HasAt inp (p + t0.length) tN := h.right.left
  have g2 : HasAt inp (p + t0.length + tN.length) tD := h.right.right
  have hd0 : Hd (· = '.') t0 := h0 ▸ hd_tk (hd_cons _ rfl)
  -- the field alternative fails
  have f1 := field_fails (headNot_of_hd g0 hd0 (by rintro c rfl; decide)) (tok_of_hd g0 hd0 (by rintro c rfl; decide))
  -- `...`
  have hnmTok : Tok (At inp (p + t0.length)) :=
    tok_of_hd g1 (hN ▸ hd_tk (hd_of_validName hnm)) (fun d => nameStart_not_trivia)
  have r0 := strT hτ dots (h0 ▸ g0) (by rw [h0]; exact hnmTok)
  rw [h0] at r0
  -- the name
  have n2 : Nxt inp (fun _ => False) sN (p + t0.length + tN.length) := by
    refine Nxt.rest g2 hn (hD ▸ hd_rDirs τ sep _ dirs) (P := (· = '@')) (by rintro c rfl; decide) (fun c hc => hc.elim) ?_
    intro ht hs
    have : dirs = [] := rDirs_eq_nil (hD.trans ht)
    subst this
    rw [← hsN] at hs
    simpa using hs
  obtain ⟨gN, gGap, gGlue⟩ := tk_gap hτ (hN ▸ g1) (by rw [hN]; exact n2)
  have rN := nameT hτ hnm (hN ▸ g1) (by rw [hN]; exact n2)
  rw [hN] at rN
  have rNot := runsK_not (kw_fails_name (la := .neg) look_KEYWORD_on kwOn_valid hnm hne gN gGlue) hnmTok
  have rFN := runsKE_rule look_FragmentName (by decide) (by decide) (runsKE_seq rNot rN)
  -- the directives
  obtain ⟨oD, rD, hokD, _, hbD⟩ := optDirsT τ hτ dirs hdirs (bad := selBad) (Or.inl rfl) (Or.inr (Or.inl rfl))
    (hD ▸ g2) (by rw [hD]; exact hn)
  rw [hD] at rD hbD
  obtain ⟨e, rS⟩ := runsK_rule look_FragmentSpread (by decide) (by decide) (runsK_seq r0 (runsK_seq rFN.toK rD))
  obtain ⟨e', rSel⟩ := runsK_rule look_Selection (by decide) (by decide) (runsK_choice_r f1 (runsK_choice_l rS))
  have hl0 : 3 ≤ t0.length := by rw [← h0]; simp [tk]
  refine ⟨_, rSel.mono (by barith), ?_, ?_⟩
  · refine pairOk_mk (by decide) (by decide) ⟨cleanP_of (by decide) (by decide) ?_, trivial⟩
    simp only [List.nil_append, List.cons_append, cleanL_cons, At]
    refine ⟨cleanP_of (by decide) (by decide) ⟨cleanP_of (by decide) (by decide) trivial, trivial⟩, ?_⟩
    cases oD with
    | none => trivial
    | some x => exact ⟨(hokD x rfl).clean, trivial⟩
  · intro fuel hf
    have hm := matchParts_slots P_FragmentSpread
      [some (.mk R.FragmentName (p + t0.length) (p + t0.length + n.toList.length)
        [.mk R.Name (p + t0.length) (p + t0.length + n.toList.length) []]), oD] p_spread_nodup
      ⟨⟨_, rfl, rfl⟩, fun x hx => (hokD x hx).rule, trivial⟩
    have hname := gN.slice
    have hfD := hbD fuel (by simp only [List.length_append] at hf; omega)
    simp only [slotPairs, Option.toList_some, List.append_nil, List.cons_append, List.nil_append] at hm
    unfold selFn
    simp [onlyChildOf, onlyChild, Pair.children, OC_Selection, Pair.rule, bind, Except.bind, At, hm, hfD,
      asString_spec', toPos_spec', Pair.start, Pair.stop, hname, pure, Except.pure, R.Field, R.FragmentSpread]


/-! ### fields -/

theorem slotPairs_field (oA oG oD oS : Option Pair) (nm : Pair) :
    oA.toList ++ ([nm] ++ (oG.toList ++ (oD.toList ++ oS.toList))) = slotPairs [oA, some nm, oG, oD, oS] := by
  simp [slotPairs]

theorem clean_opt {o : Option Pair} (h : ∀ x ∈ o, CleanP x) : CleanL o.toList := by
  cases o with
  | none => trivial
  | some x => exact ⟨h x rfl, trivial⟩

theorem hd_rHead (τ : Trivia) (sD : Bool) (p : Nat) (al : Option (Name × Pos)) (n : Name) (args : List Arg)
    (dirs : List Directive) (hal : ∀ a ∈ al, validName a.1.toList) (hnm : validName n.toList) :
    Hd nameStart (rHead τ sD p al n args dirs) := by
  simp only [rHead]
  cases al with
  | none => simpa [rAlias] using (hd_tk (hd_of_validName hnm)).append _
  | some ap =>
    obtain ⟨a, apos⟩ := ap
    simp only [rAlias, List.append_assoc]
    exact (hd_tk (hd_of_validName (hal (a, apos) rfl))).append _

theorem fieldNoneT (τ : Trivia) (hτ : ∀ q, Ws (τ q)) (al : Option (Name × Pos)) (n : Name) (np : Pos) (args : List Arg)
    (dirs : List Directive) (hwf : WFSel (.field al n np args dirs none)) : SelOk τ inp (.field al n np args dirs none) := by
  obtain ⟨hal, hnm, hargs, hdirs⟩ := hwf
  intro sep p h hn
  have hwp : wpSel τ inp sep p (.field al n np args dirs none) = wpField τ inp sep p al n args dirs none := by
    simp only [wpSel]
  rw [hwp]
  simp only [rSel] at h hn ⊢
  obtain ⟨oA, oG, oD, hrun, hokA, hB⟩ := headK τ hτ al n args dirs hal hnm hargs hdirs h
    (hn.mono (fun c hc => hc.elim Or.inl (fun h => h.elim (fun h => Or.inr (Or.inl h)) (fun h => Or.inr (Or.inr (Or.inr h))))))
  have hT := runsK_opt_none (selectionSet_fails (headNot_mono (fun c hc => Or.inr (Or.inr (Or.inl hc))) hn.ok)) hn.tok
  obtain ⟨e, rF⟩ := runsK_rule look_Field (by decide) (by decide) (hrun _ _ _ _ hT)
  obtain ⟨e', rS⟩ := runsK_rule look_Selection (by decide) (by decide) (runsK_choice_l rF)
  have hl := (hd_rHead τ sep p al n args dirs hal hnm).length_pos
  refine ⟨_, rS.mono (by barith), ?_, ?_⟩
  · refine pairOk_mk (by decide) (by decide) ⟨cleanP_of (by decide) (by decide) ?_, trivial⟩
    simp only [cleanL_append, cleanL_cons, cleanL_nil, Option.toList_none, and_true]
    exact ⟨clean_opt (fun x hx => (hokA x hx).2), cleanP_of (by decide) (by decide) trivial,
      clean_opt (fun x hx => (hB.argsOk x hx).clean), clean_opt (fun x hx => (hB.dirsOk x hx).clean)⟩
  · intro fuel hf
    have := selFn_field τ inp fuel sep p al n args dirs oA oG oD none e e' none hB (fun x hx => (hokA x hx).1)
      (by simp) hf rfl
    rw [← slotPairs_field] at this
    simpa [At] using this

theorem hd_rSelSet (τ : Trivia) (sep : Bool) (p : Nat) (ss : List Selection) : Hd (· = '{') (rSelSet τ sep p ss) := by
  simp only [rSelSet]
  exact Hd.append (hd_tk (P := (· = '{')) (hd_cons [] rfl)) _

theorem rSel_field_some (τ : Trivia) (sep : Bool) (p : Nat) (al : Option (Name × Pos)) (n : Name) (np : Pos)
    (args : List Arg) (dirs : List Directive) (ss : List Selection) :
    rSel τ sep p (.field al n np args dirs (some ss)) =
      rHead τ false p al n args dirs ++ rSelSet τ sep (p + (rHead τ false p al n args dirs).length) ss := by
  simp only [rSel, rSelSet]

theorem fieldSomeT (τ : Trivia) (hτ : ∀ q, Ws (τ q)) (al : Option (Name × Pos)) (n : Name) (np : Pos) (args : List Arg)
    (dirs : List Directive) (ss : List Selection) (hal : ∀ a ∈ al, validName a.1.toList) (hnm : validName n.toList)
    (hargs : WFFs args) (hdirs : WFDirs dirs) (hss : SelSetOk τ inp ss) :
    SelOk τ inp (.field al n np args dirs (some ss)) := by
  intro sep p h hn
  have hwp : wpSel τ inp sep p (.field al n np args dirs (some ss)) = wpField τ inp false p al n args dirs
      (some (wpSels τ inp (p + (rHead τ false p al n args dirs).length +
        (tk τ false (p + (rHead τ false p al n args dirs).length) ['{']).length) ss)) := by
    simp only [wpSel]
  rw [hwp, rSel_field_some] at *
  generalize hH : rHead τ false p al n args dirs = tH at *
  generalize hS : rSelSet τ sep (p + tH.length) ss = tS at *
  have hlen : p + (tH ++ tS).length = p + tH.length + tS.length := by simp only [List.length_append]; omega
  rw [hlen] at hn ⊢
  have g1 : HasAt inp p tH := h.left
  have g2 : HasAt inp (p + tH.length) tS := h.right
  obtain ⟨oA, oG, oD, hrun, hokA, hB⟩ := headK τ hτ al n args dirs hal hnm hargs hdirs (hH ▸ g1)
    (by rw [hH]; exact Nxt.of_hd g2 (hS ▸ hd_rSelSet τ sep _ ss) (by rintro c rfl; decide))
  obtain ⟨prS, rSS, hokS, hbS⟩ := hss sep (p + tH.length) (hS ▸ g2) (by rw [hS]; exact hn.tok)
  rw [hS] at rSS hbS
  rw [hH] at hrun
  obtain ⟨e, rF⟩ := runsK_rule look_Field (by decide) (by decide) (hrun _ _ _ _ (runsK_opt_some rSS))
  obtain ⟨e', rS⟩ := runsK_rule look_Selection (by decide) (by decide) (runsK_choice_l rF)
  have hl : 1 ≤ tH.length := hH ▸ (hd_rHead τ false p al n args dirs hal hnm).length_pos
  refine ⟨_, rS.mono (by barith), ?_, ?_⟩
  · refine pairOk_mk (by decide) (by decide) ⟨cleanP_of (by decide) (by decide) ?_, trivial⟩
    simp only [cleanL_append, cleanL_cons, cleanL_nil, and_true]
    exact ⟨clean_opt (fun x hx => (hokA x hx).2), cleanP_of (by decide) (by decide) trivial,
      clean_opt (fun x hx => (hB.argsOk x hx).clean), clean_opt (fun x hx => (hB.dirsOk x hx).clean), hokS.clean⟩
  · intro fuel hf
    have hf' : tH.length + tS.length ≤ fuel := by simpa using hf
    have hsel : optSelB (Ctx.spec inp) fuel (some prS) = .ok (some (wpSels τ inp (p + tH.length +
        (tk τ false (p + tH.length) ['{']).length) ss)) := by
      simp only [optSelB, hbS fuel (by omega)]
    have := selFn_field τ inp fuel false p al n args dirs oA oG oD (some prS) e e' _ hB (fun x hx => (hokA x hx).1)
      (by intro x hx; cases hx; exact hokS.rule) (by rw [hH]; omega) hsel
    rw [← slotPairs_field] at this
    simpa [At, hH] using this

end NitroVerif.DocParse
