import NitroVerif.Lemmas.CheckOpApply
/-! Argument names: uniqueness (5.4.2) and definedness (5.4.1; the checker detects an unknown argument by
counting the matched definitions, which is sound when argument and definition names are unique). -/
namespace NitroVerif.CheckOp
open NitroVerif.Gql NitroVerif.CheckCommon NitroVerif.Valid

/-- scan lemma for the uniqueness loop of `check_arguments` -/
theorem dupArgsAux_quiet {A : ErrKind → Bool} (hA : Admissible A) :
    ∀ (as : List Arg) (seen : List Name), Quiet A (dupArgsAux seen as) →
      (∀ a ∈ as, a.1 ∉ seen) ∧ nodupB (as.map (·.1)) = true := by
  intro as
  induction as with
  | nil => intro _ _; simp [nodupB]
  | cons a as ih =>
    intro seen h
    simp only [dupArgsAux] at h
    rw [quiet_append] at h
    obtain ⟨h1, h2⟩ := h
    obtain ⟨ihA, ihB⟩ := ih _ h2
    have hs : seen.contains a.1 = false := by
      cases hc : seen.contains a.1 with
      | false => rfl
      | true =>
        simp only [hc, if_true] at h1
        have hk := hA _ (by decide : ErrKind.DuplicatedName ≠ ErrKind.UnknownVariable)
        rw [quiet_single, hk] at h1; cases h1
    refine ⟨?_, ?_⟩
    · intro b hb
      rcases List.mem_cons.mp hb with rfl | hb
      · simpa using hs
      · intro hmem; exact ihA b hb (List.mem_append_left _ hmem)
    · simp only [List.map_cons, nodupB, Bool.and_eq_true, Bool.not_eq_true', ihB, and_true]
      cases hc : (as.map (·.1)).contains a.1 with
      | false => rfl
      | true =>
        exfalso
        have : a.1 ∈ as.map (·.1) := by simpa using hc
        obtain ⟨b, hb, hbn⟩ := List.mem_map.mp this
        exact ihA b hb (by rw [hbn]; exact List.mem_append_right _ (by simp))

theorem filter_length_mono {α} {p q : α → Bool} (hpq : ∀ x, p x = true → q x = true) :
    ∀ (l : List α), (l.filter p).length ≤ (l.filter q).length := by
  intro l
  induction l with
  | nil => simp
  | cons x xs ih =>
    simp only [List.filter_cons]
    cases hp : p x with
    | true => simp [hpq x hp]; exact ih
    | false =>
      cases hq : q x with
      | true => simp; omega
      | false => simpa using ih

theorem filter_length_strict {α} {p q : α → Bool} (hpq : ∀ x, p x = true → q x = true) :
    ∀ (l : List α), (∃ x ∈ l, q x = true ∧ p x = false) → (l.filter p).length < (l.filter q).length := by
  intro l
  induction l with
  | nil => rintro ⟨x, hx, _⟩; cases hx
  | cons y ys ih =>
    rintro ⟨x, hx, hqx, hpx⟩
    simp only [List.filter_cons]
    rcases List.mem_cons.mp hx with rfl | hx
    · have := filter_length_mono hpq ys
      simp [hqx, hpx]; omega
    · have := ih ⟨x, hx, hqx, hpx⟩
      cases hp : p y with
      | true => simp [hpq y hp]; exact this
      | false =>
        cases hq : q y with
        | true => simp; omega
        | false => simpa using this

/-- for a duplicate-free `L`: the elements of `L` occurring in `N` are at most as many as the elements of `N`
    occurring in `L` -/
theorem matched_le {L : List Name} (hL : nodupB L = true) (N : List Name) :
    (L.filter (fun x => N.contains x)).length ≤ (N.filter (fun y => L.contains y)).length := by
  induction L with
  | nil => simp
  | cons x L' ih =>
    obtain ⟨hx, hL'⟩ := (nodupB_cons_iff _ _).mp hL
    have ih' := ih hL'
    have hmono : ∀ y, (fun y => L'.contains y) y = true → (fun y => (x :: L').contains y) y = true := by
      intro y hy; simp at hy ⊢; exact Or.inr hy
    simp only [List.filter_cons]
    cases hxN : N.contains x with
    | false =>
      simp only [Bool.false_eq_true, if_false]
      exact Nat.le_trans ih' (filter_length_mono (p := fun y => L'.contains y) (q := fun y => (x :: L').contains y) hmono N)
    | true =>
      simp only [if_true, List.length_cons]
      have hstrict := filter_length_strict (p := fun y => L'.contains y) (q := fun y => (x :: L').contains y) hmono N
        ⟨x, by simpa using hxN, by simp, by simpa using hx⟩
      omega

/-- `seen_args` = the number of definition names that occur among the argument names -/
theorem seen_count (S : Schema) (vars : Option (List VarDef)) (pos : Pos) (args : List Arg) (defs : List InputValueDef) :
    ((argOutcomes S vars pos args defs).filter (·.2)).length
      = ((defs.map (·.name)).filter (fun x => (args.map (·.1)).contains x)).length := by
  unfold argOutcomes
  rw [List.filter_map, List.length_map, List.filter_map, List.length_map]
  congr 1
  apply List.filter_congr
  intro d _
  simp only [Function.comp]
  cases hf : args.find? (fun a => d.name == a.1) with
  | none =>
    simp only []
    have : (args.map (·.1)).contains d.name = false := by
      rw [List.find?_eq_none] at hf
      cases hc : (args.map (·.1)).contains d.name with
      | false => rfl
      | true =>
        have : d.name ∈ args.map (·.1) := by simpa using hc
        obtain ⟨b, hb, hbn⟩ := List.mem_map.mp this
        have := hf b hb
        simp [hbn] at this
    rw [this]; split <;> rfl
  | some b =>
    simp only []
    have hb := List.mem_of_find?_eq_some hf
    have hp := List.find?_some hf
    have hp' : d.name = b.1 := by simpa using hp
    have : (args.map (·.1)).contains d.name = true := by
      simp only [List.contains_iff_mem]; exact List.mem_map.mpr ⟨b, hb, hp'.symm⟩
    rw [this]

/-- what a quiet `check_arguments` run establishes about argument NAMES, given unique definition names -/
theorem checkArguments_names {S : Schema} {A : ErrKind → Bool} (hA : Admissible A)
    {vars : Option (List VarDef)} {pos : Pos} {args : List Arg} {defs : List InputValueDef}
    (h : Quiet A (checkArguments S vars pos args defs)) :
    nodupB (args.map (·.1)) = true ∧
    (nodupB (defs.map (·.name)) = true → ∀ a ∈ args, defs.any (·.name == a.1) = true) := by
  unfold checkArguments at h
  cases hde : defs.isEmpty with
  | true =>
    simp only [hde, if_true] at h
    cases hae : args.isEmpty with
    | true =>
      have : args = [] := by simpa using hae
      subst this
      exact ⟨by simp [nodupB], by intro _ a ha; cases ha⟩
    | false =>
      simp only [hae, Bool.false_eq_true, if_false] at h
      have hk := hA _ (by decide : ErrKind.ArgumentsNotNeeded ≠ ErrKind.UnknownVariable)
      rw [quiet_single, hk] at h; cases h
  | false =>
    simp only [hde, Bool.false_eq_true, if_false] at h
    rw [quiet_append, quiet_append] at h
    obtain ⟨⟨hdup, _⟩, hunk⟩ := h
    have hnd := (dupArgsAux_quiet hA args [] hdup).2
    refine ⟨hnd, ?_⟩
    intro hdefs a ha
    cases hknown : defs.any (·.name == a.1) with
    | true => rfl
    | false =>
      exfalso
      have hall : (defs.all fun d => d.name != a.1) = true := by
        rw [List.all_eq_true]
        intro d hd
        have := List.any_eq_false.mp hknown d hd
        simpa using this
      rw [seen_count] at hunk
      split at hunk
      · have hmem : a ∈ args.filter fun a => defs.all fun d => d.name != a.1 := List.mem_filter.mpr ⟨ha, hall⟩
        have := hunk _ (List.mem_map.mpr ⟨a, hmem, rfl⟩)
        have hk := hA _ (by decide : ErrKind.UnknownArgument ≠ ErrKind.UnknownVariable)
        simp only [hk] at this; cases this
      · rename_i hge
        apply hge
        have h1 := matched_le hdefs (args.map (·.1))
        have h2 : ((args.map (·.1)).filter (fun y => (defs.map (·.name)).contains y)).length
            < ((args.map (·.1)).filter (fun _ => true)).length := by
          apply filter_length_strict (fun _ _ => rfl)
          refine ⟨a.1, List.mem_map.mpr ⟨a, ha, rfl⟩, rfl, ?_⟩
          cases hc : (defs.map (·.name)).contains a.1 with
          | false => rfl
          | true =>
            have : a.1 ∈ defs.map (·.name) := by simpa using hc
            obtain ⟨d, hd, hdn⟩ := List.mem_map.mp this
            have := List.any_eq_false.mp hknown d hd
            simp [hdn] at this
        have h3 : ((args.map (·.1)).filter (fun _ => true)).length = args.length := by
          rw [List.filter_eq_self.mpr (fun _ _ => rfl), List.length_map]
        omega

theorem directiveDef?_mem {S : Schema} {n : Name} {dd : DirectiveDef} (h : S.directiveDef? n = some dd) :
    dd ∈ S.directiveDefs := List.mem_of_find?_eq_some h

theorem fieldDef?_args_nodup {S : Schema} (hU : uniqueArgNamesB S = true) {t n : Name} {fd : FieldDef}
    (h : fieldDef? S t n = some fd) : nodupB (fd.args.map (·.name)) = true := by
  unfold fieldDef? at h
  cases ht : S.typeDef? t with
  | none => simp [ht] at h
  | some td =>
    have hmem := typeDef?_mem ht
    simp only [uniqueArgNamesB, Bool.and_eq_true, List.all_eq_true] at hU
    have hfields := (hU.1 td hmem).2
    simp only [ht] at h
    have key : ∀ (r : Option FieldDef), r = some fd →
        (r = some typenameMeta ∨ r = td.fields.find? (·.name == n)) → nodupB (fd.args.map (·.name)) = true := by
      intro r hr hcase
      rcases hcase with hc | hc
      · rw [hc] at hr; cases hr; simp [typenameMeta, nodupB]
      · rw [hc] at hr; exact hfields fd (List.mem_of_find?_eq_some hr)
    cases hk : td.kind <;> simp only [hk] at h
    · cases h
    · split at h
      · exact key _ h (Or.inl rfl)
      · exact key _ h (Or.inr rfl)
    · split at h
      · exact key _ h (Or.inl rfl)
      · exact key _ h (Or.inr rfl)
    · split at h
      · exact key _ h (Or.inl rfl)
      · cases h
    · cases h
    · cases h

/-- the argument definitions the reference validator pairs an argument list with have unique names -/
theorem argSites_defs_nodup {S : Schema} (hS : SchemaValid S) (D : Doc) :
    ∀ site ∈ argSites S D, nodupB (site.defs.map (·.name)) = true := by
  have hU := schemaValid_uniqueArgs hS
  intro site hs
  simp only [argSites, List.mem_append] at hs
  rcases hs with hs | hs
  · simp only [fieldArgSites, List.mem_filterMap] at hs
    obtain ⟨ps, _, hsite⟩ := hs
    obtain ⟨p, s⟩ := ps
    cases p with
    | none => simp at hsite
    | some t =>
      cases s with
      | spread => simp at hsite
      | inline => simp at hsite
      | field al name namePos args dirs sel =>
        simp only at hsite
        cases hfd : fieldDef? S t name with
        | none => simp [hfd] at hsite
        | some fd =>
          simp only [hfd, Option.map_some, Option.some.injEq] at hsite
          subst hsite
          exact fieldDef?_args_nodup hU hfd
  · simp only [dirArgSites, List.mem_flatMap, List.mem_filterMap] at hs
    obtain ⟨ds, _, d, _, hsite⟩ := hs
    cases hdd : S.directiveDef? d.name with
    | none => simp [hdd] at hsite
    | some dd =>
      simp only [hdd, Option.map_some, Option.some.injEq] at hsite
      subst hsite
      simp only [uniqueArgNamesB, Bool.and_eq_true, List.all_eq_true] at hU
      exact hU.2 dd (directiveDef?_mem hdd)

end NitroVerif.CheckOp
