/-
Where the implicit skip ends, generalised (helper lemmas for Props/C07, third stage). The document chain says "a token
follows" as `Tok c` (the next character is not trivia). Two more things can follow a gap at the top level of an executable
document:
* an `#import` statement — it begins with `#`, but `COMMENT` fails there (its negative lookahead succeeds), so the skip
  stops in front of it;
* a final comment that is not terminated by a line break — `COMMENT` takes it up to the end of the input.
`Tail inp n E c'` captures all three: at offset `E` there is no whitespace character and the comment loop of the skip
`(COMMENT WHITESPACE*)*`, started there, ends at `c'` (`c' = At inp E` for a token or an import statement). The skip lemmas of
`ParseComment.lean` are re-proved against `Tail`, and the leaf `"}"` of the calculus (`strT'`).
-/
import NitroVerif.Lemmas.ParseDocExec
namespace NitroVerif.DocParse
open NitroVerif.Peg NitroVerif.Gen NitroVerif.Gen.Parts NitroVerif.Build NitroVerif.TypeParse NitroVerif.StringParse
open NitroVerif.Gql NitroVerif.ValueParse NitroVerif.Spec.Lex NitroVerif.ParseText

set_option linter.unusedSimpArgs false

/-- the comment loop of the implicit skip -/
abbrev cmStar : Expr := .star (.seq (.call R.COMMENT) (.star (.call R.WHITESPACE)))

/-- `(COMMENT WHITESPACE*)*` over comments `u`, then whatever the loop does on what follows -/
theorem cms_skip_then {u : List Char} (h : Cms u) : ∀ (p : Nat) (rest : List Char) (n : Nat) (c' : Cur),
    HeadNot wsChar rest → Runs gList n false cmStar .nonAtomic ⟨p + u.length, rest⟩ c' [] →
    Runs gList (u.length + 45 + n) false cmStar .nonAtomic ⟨p, u ++ rest⟩ c' [] := by
  induction h with
  | nil =>
    intro p rest n c' _ hrun
    simpa using hrun.mono (by omega)
  | @cons body nl w t hc hw hcr ht ih =>
    intro p rest n c' hr hrun
    have hnext : HeadNot wsChar (t ++ rest) := by
      cases t with
      | nil => exact hr
      | cons c cs =>
        have := cms_head ht c cs rfl
        subst this
        exact headNot_cons (by decide) _
    have hcr' : nl = ['\r'] → HeadNot (· = '\n') (w ++ (t ++ rest)) := by
      intro hnl
      have h0 := hcr hnl
      cases hwt : w ++ t with
      | nil =>
        have hw0 : w = [] := (List.append_eq_nil_iff.mp hwt).1
        have ht0 : t = [] := (List.append_eq_nil_iff.mp hwt).2
        subst hw0 ht0
        exact headNot_mono (fun _ h => by subst h; simp [wsChar]) hr
      | cons c cs =>
        rw [← List.append_assoc, hwt]
        rw [hwt] at h0
        exact headNot_cons (P := (· = '\n')) (h0 c cs rfl) _
    have h1 := runs_call (sk := false) (comment_runs hc p (w ++ (t ++ rest)) hcr')
    have h2 := ws_star w.length w (Nat.le_refl _) hw (p + 1 + body.length + nl.length) (t ++ rest) hnext
    have item := runs_seq_nosk' h1 h2
    have hrest := ih (p + 1 + body.length + nl.length + w.length) rest n c' hr (by
      refine Runs.cast hrun ?_ rfl rfl
      congr 1; simp; omega)
    have := runs_star_cons (item.mono (by omega : _ ≤ body.length + nl.length + w.length + t.length + 45 + n))
      (hrest.mono (by omega))
    simp only [List.append_nil] at this
    refine Runs.cast (this.mono ?_) (by simp) rfl rfl
    simp; omega

/-- the implicit skip over arbitrary trivia `t`, continued by whatever its comment loop does on what follows -/
theorem skip_ws_then (t : List Char) (hws : Ws t) (p : Nat) (rest : List Char) (n : Nat) (c' : Cur)
    (hr : HeadNot wsChar rest) (hrun : Runs gList n false cmStar .nonAtomic ⟨p + t.length, rest⟩ c' []) :
    SkipTo (t.length + 60 + n) ⟨p, t ++ rest⟩ c' := by
  obtain ⟨w0, u, rfl, hw, hc⟩ := hws
  have hnext : HeadNot wsChar (u ++ rest) := by
    cases u with
    | nil => exact hr
    | cons c cs =>
      have := cms_head hc c cs rfl
      subst this
      exact headNot_cons (by decide) _
  have hW := ws_star w0.length w0 (Nat.le_refl _) hw p (u ++ rest) hnext
  have hC := cms_skip_then hc (p + w0.length) rest n c' hr (by
    refine Runs.cast hrun ?_ rfl rfl
    congr 1; simp; omega)
  have hS := runs_seq_nosk' hW hC
  intro tr
  obtain ⟨tr1, h⟩ := hS tr
  refine ⟨tr1, fun f hf => ?_⟩
  obtain ⟨f', rfl⟩ : ∃ f', f = f' + 1 := ⟨f - 1, by omega⟩
  simp only [doSkip, and_self, if_true, G.skipExpr, ws_cm.1, ws_cm.2]
  have := h f' (by simp at hf ⊢; omega)
  simpa [Nat.add_assoc] using this

variable {inp : List Char}

/-- what lies at offset `E` lets a skip that arrives there end at `c'`: no whitespace character at `E`, and the comment loop
    of the skip started at `E` ends at `c'` -/
structure Tail (inp : List Char) (n : Nat) (E : Nat) (c' : Cur) : Prop where
  ws : HeadNot wsChar (inp.drop E)
  run : Runs gList n false cmStar .nonAtomic (At inp E) c' []

/-- a gap that ends at `E` is skipped up to `c'` -/
theorem Tail.skip {n E : Nat} {c' : Cur} (hT : Tail inp n E c') {q : Nat} {g : List Char} (hg : HasAt inp q g) (hw : Ws g)
    (he : q + g.length = E) : SkipTo (g.length + 60 + n) (At inp q) c' := by
  subst he
  have := skip_ws_then g hw q (inp.drop (q + g.length)) n c' hT.ws hT.run
  simp only [At]
  rw [hg.drop]
  exact this

/-- the skip stops at `E`: `COMMENT` fails there -/
theorem tail_of_stop {n E : Nat} (hws : HeadNot wsChar (inp.drop E)) (hcm : FailsRule gList n R.COMMENT .nonAtomic (At inp E)) :
    Tail inp (n + 3) E (At inp E) :=
  ⟨hws, runs_star_nil (fails_seq_first (fails_call hcm))⟩

/-- a token follows -/
theorem tail_of_tok {E : Nat} (h : Tok (At inp E)) : Tail inp 13 E (At inp E) :=
  tail_of_stop (headNot_mono (fun _ h => wsChar_trivia h) h) (cm_fails h)

/-! ### a final comment without line terminator -/

/-- `CommentCharacter*` up to the end of the input -/
theorem cc_star_eof (b : List Char) : ∀ (p : Nat), (∀ x ∈ b, x ≠ '\n' ∧ x ≠ '\r') →
    Runs gList (b.length + 12) false (.star (.call R.CommentCharacter)) .atomic ⟨p, b⟩ ⟨p + b.length, []⟩ [] := by
  induction b with
  | nil =>
    intro p _
    have hnl : FailsRuleL gList .neg 4 R.NEWLINE .atomic ⟨p, []⟩ := newlineL_fails (headNot_nil _)
    have g1 : Runs gList 6 true (.not (.call R.NEWLINE)) .atomic ⟨p, []⟩ ⟨p, []⟩ [] :=
      runsL_not (la := .none) (failsL_call hnl)
    have g2 : Fails gList 6 true .any .atomic ⟨p, []⟩ := (failsL_any (la := .none) (c := ⟨p, []⟩) rfl).mono (by omega)
    have hf : FailsRule gList 10 R.CommentCharacter .atomic ⟨p, []⟩ :=
      (failsRuleL_normal_atomic (la := .none) look_CommentCharacter (notSpecial (by decide) (by decide))
        (failsL_seq_last_noskip (la := .none) (Or.inr (by decide)) g1 g2)).mono (by omega)
    simpa using (runs_star_nil (fails_call hf)).mono (by omega : 12 ≤ 12)
  | cons c cs ih =>
    intro p hb
    have h1 := runs_call (sk := false) (cc_runs (p := p) (r := cs) (hb c (List.mem_cons_self ..)))
    have h2 := ih (p + 1) (fun x hx => hb x (List.mem_cons_of_mem _ hx))
    have := runs_star_cons (h1.mono (by omega : 11 ≤ cs.length + 12)) h2
    simp only [List.append_nil] at this
    refine Runs.cast (this.mono (by simp)) rfl ?_ rfl
    congr 1; simp; omega

/-- the text of a final comment after `#`: no line break in it, and visibly not an import statement -/
structure EofComment (body : List Char) : Prop where
  chars : ∀ x ∈ body, x ≠ '\n' ∧ x ≠ '\r'
  noImport : NotImportHead (body.dropWhile (· = ' '))

/-- the `COMMENT` rule on a comment that ends with the input (repaired grammar: `NEWLINE | EOI`) -/
theorem comment_runs_eof {body : List Char} (h : EofComment body) (p : Nat) :
    RunsRule gList (body.length + 40) R.COMMENT .nonAtomic ⟨p, '#' :: body⟩ ⟨p + 1 + body.length, []⟩ [] := by
  obtain ⟨sp, hsplit, hsp, hb'⟩ := split_spaces body
  generalize hbd : body.dropWhile (· = ' ') = b' at hsplit hb'
  have hb'chars : ∀ c ∈ b', c ≠ '\n' ∧ c ≠ '\r' := fun c hc => h.chars c (by rw [hsplit]; simp [hc])
  have hlen : body.length = sp.length + b'.length := by rw [hsplit]; simp
  have h1 : Runs gList 1 false (.str ['#']) .atomic ⟨p, '#' :: (sp ++ b')⟩ ⟨p + 1, sp ++ b'⟩ [] :=
    runs_str (c := ⟨p, '#' :: (sp ++ b')⟩) (by simp [matchStr])
  have hhead : HeadNot (· = ' ') b' := by
    cases b' with
    | nil => exact headNot_nil _
    | cons c cs => exact headNot_cons (P := (· = ' ')) (hb' c cs rfl) _
  have h2 := spaces_star sp (p + 1) b' hsp hhead
  have hisc : FailsRuleL gList .neg (b'.length + 24) R.ext_ImportStatementContent .atomic ⟨p + 1 + sp.length, b' ++ []⟩ :=
    isc_fails (hbd ▸ h.noImport) hb'chars (fun d' r he => by cases he) _
  rw [List.append_nil] at hisc
  have h3 : Runs gList (b'.length + 26) false (.not (.call R.ext_ImportStatementContent)) .atomic ⟨p + 1 + sp.length, b'⟩
      ⟨p + 1 + sp.length, b'⟩ [] := runsL_not (la := .none) (failsL_call hisc)
  have h4 := cc_star_eof b' (p + 1 + sp.length) hb'chars
  have hnl : Fails gList 5 false (.call R.NEWLINE) .atomic ⟨p + 1 + sp.length + b'.length, []⟩ :=
    fails_call (newlineL_fails (la := .none) (headNot_nil _))
  have heoi : Runs gList 5 false (.call R.EOI) .atomic ⟨p + 1 + sp.length + b'.length, []⟩
      ⟨p + 1 + sp.length + b'.length, []⟩ [] := by
    have hb : RunsL gList .none 1 true .eoi .atomic ⟨p + 1 + sp.length + b'.length, []⟩ ⟨p + 1 + sp.length + b'.length, []⟩ [] :=
      runs_eoi true .atomic _ rfl
    have := runsRuleL_normal_atomic (la := .none) look_EOI (notSpecial (by decide) (by decide)) hb
    exact (runs_call this).mono (by omega)
  have h5 : Runs gList 6 false (.choice (.call R.NEWLINE) (.call R.EOI)) .atomic ⟨p + 1 + sp.length + b'.length, []⟩
      ⟨p + 1 + sp.length + b'.length, []⟩ [] := runs_choice_r hnl heoi
  have body := runs_seq_nosk' h1 (runs_seq_nosk' h2 (runs_seq_nosk' h3 (runs_seq_nosk' h4 h5)))
  have := runsRule_special (at_ := .nonAtomic) look_COMMENT_full (Or.inr ws_cm.2) body
  refine RunsRule.cast (this.mono ?_) (by rw [hsplit]) ?_ (by simp)
  · omega
  · congr 1; omega

/-- a final comment without line terminator lies at `E`: the skip ends at the end of the input -/
theorem tail_of_eofComment {E : Nat} {body : List Char} (h : inp.drop E = '#' :: body) (hb : EofComment body) :
    Tail inp (body.length + 60) E (At inp (E + 1 + body.length)) := by
  have hend : inp.drop (E + 1 + body.length) = [] := by
    have : inp.drop (E + ('#' :: body).length) = [] := by rw [← List.drop_drop, h]; simp
    have e : E + 1 + body.length = E + ('#' :: body).length := by simp; omega
    rw [e]; exact this
  refine ⟨by rw [h]; exact headNot_cons (by decide) _, ?_⟩
  have h1 := runs_call (sk := false) (comment_runs_eof hb E)
  have h2 : Runs gList 12 false (.star (.call R.WHITESPACE)) .nonAtomic ⟨E + 1 + body.length, []⟩ ⟨E + 1 + body.length, []⟩ [] :=
    runs_star_nil (fails_call (ws_fails (headNot_nil _)))
  have item := runs_seq_nosk' h1 h2
  have hcm : FailsRule gList 10 R.COMMENT .nonAtomic ⟨E + 1 + body.length, []⟩ := cm_fails (headNot_nil _)
  have hnil : Runs gList 13 false cmStar .nonAtomic ⟨E + 1 + body.length, []⟩ ⟨E + 1 + body.length, []⟩ [] :=
    runs_star_nil (fails_seq_first (fails_call hcm))
  have := runs_star_cons (item.mono (by omega : _ ≤ body.length + 50)) (hnil.mono (by omega))
  simp only [List.append_nil] at this
  refine Runs.cast (this.mono (by omega)) ?_ ?_ rfl
  · simp only [At]; rw [h]
  · simp only [At]; rw [hend]

/-! ### the leaf of the calculus that precedes a `Tail` -/

/-- a string terminal followed by its gap, then a `Tail` -/
theorem strT' {τ : Trivia} (hτ : ∀ q, Ws (τ q)) (s : List Char) {sep : Bool} {p : Nat} {n : Nat} {c' : Cur}
    (h : HasAt inp p (tk τ sep p s)) (hT : Tail inp n (p + (tk τ sep p s).length) c') :
    RunsK (B (tk τ sep p s).length + n) (.str s) (At inp p) c' [] := by
  refine ⟨At inp (p + s.length), ?_, ?_⟩
  · have : matchStr s (At inp p).rest = some (inp.drop (p + s.length)) := by
      simp only [At]; rw [h.left.drop]; exact matchStr_self_append _ _
    exact (runs_str (c := At inp p) this).mono (by simp [B]; omega)
  · refine (hT.skip h.right (ws_gapS (hτ _)) (by rw [tk_length]; omega)).mono ?_
    rw [tk_length]; simp [B]; omega

end NitroVerif.DocParse
