/-
`build_string_value` and `validate_unicode_escapes` (both as repaired by fff8e9c: surrogate pairs) on the pair tree of ANY
legal normal string literal (helper lemmas for Props/C07 `string_decode_general`): the builder's loop is `decodeItems` on
the items (a `\uXXXX` lead immediately followed by a `\uXXXX` trail is one supplementary character, every other item is
`SItem.decode`: the character itself, the simple escape, `char::from_u32(u32::from_str_radix(digits, 16))`), and
`validate_unicode_escapes` reports `scanItems` (a pending lead that is not followed by a trail, a trail without lead, a
`\u{…}` that denotes no scalar value).
-/
import NitroVerif.Lemmas.ParseMoreStr
import NitroVerif.Lemmas.ParseMoreStrLoop
namespace NitroVerif.StringParse
open NitroVerif.Peg NitroVerif.Gen NitroVerif.Gen.Parts NitroVerif.Build NitroVerif.Spec.Lex NitroVerif.TypeParse
open NitroVerif.ParseText NitroVerif.ValueParse

/-- what `build_string_value` computes for one item -/
def SItem.decode : SItem → M Char
  | .plain c => .ok c
  | .esc e => escapedChar ['\\', e]
  | .u4 a b c d => do charFromU32 (← parseHexU32 [a, b, c, d])
  | .ubrace ds => do charFromU32 (← parseHexU32 ds)

theorem escaped_ok {e : Char} (h : [e] ∈ escLetters) : ∃ c, escapedChar ['\\', e] = .ok c := by
  simp only [escLetters, List.mem_cons, List.cons.injEq, and_true, List.not_mem_nil, or_false] at h
  rcases h with rfl | rfl | rfl | rfl | rfl | rfl | rfl | rfl <;> exact ⟨_, rfl⟩

theorem decodeChar_item {inp : List Char} (it : SItem) (hok : it.Ok) {a : Nat} {r : List Char}
    (h : inp.drop a = it.text ++ r) : decodeChar (Ctx.spec inp) (it.pair a) = it.decode := by
  cases it with
  | plain c =>
    have hs : slice inp a (a + 1) = [c] := by
      simpa using slice_of_drop (t := [c]) (r := r) (by simpa [SItem.text] using h)
    simp [decodeChar, SItem.pair, SItem.decode, onlyChildOf, onlyChild, Pair.children, Pair.rule, OC_StringCharacter, asStr,
      Ctx.spec, Pair.start, Pair.stop, hs, bind, Except.bind, R.EscapedCharacter, R.EscapedUnicodeBrace,
      R.EscapedUnicode4, R.NormalStringCharacter]
  | esc e =>
    have hs : slice inp a (a + 2) = ['\\', e] := by
      simpa using slice_of_drop (t := ['\\', e]) (r := r) (by simpa [SItem.text] using h)
    simp [decodeChar, SItem.pair, SItem.decode, onlyChildOf, onlyChild, Pair.children, Pair.rule, OC_StringCharacter, asStr,
      Ctx.spec, Pair.start, Pair.stop, hs, bind, Except.bind, R.EscapedCharacter, R.EscapedUnicodeBrace,
      R.EscapedUnicode4, R.NormalStringCharacter]
  | u4 x y z w =>
    have hs : slice inp a (a + 6) = ['\\', 'u', x, y, z, w] := by
      simpa using slice_of_drop (t := ['\\', 'u', x, y, z, w]) (r := r) (by simpa [SItem.text] using h)
    simp [decodeChar, SItem.pair, SItem.decode, onlyChildOf, onlyChild, Pair.children, Pair.rule, OC_StringCharacter, asStr,
      Ctx.spec, Pair.start, Pair.stop, hs, bind, Except.bind, R.EscapedCharacter, R.EscapedUnicodeBrace,
      R.EscapedUnicode4, R.NormalStringCharacter]
  | ubrace ds =>
    have h' : inp.drop (a + 3) = ds ++ ('}' :: r) := by
      rw [← List.drop_drop, h]; simp [SItem.text]
    have hs : slice inp (a + 3) (a + 3 + ds.length) = ds := slice_of_drop h'
    simp [decodeChar, SItem.pair, SItem.decode, onlyChildOf, onlyChild, Pair.children, Pair.rule, OC_StringCharacter,
      OC_EscapedUnicodeBrace, asStr, Ctx.spec, Pair.start, Pair.stop, hs, bind, Except.bind, R.EscapedCharacter,
      R.EscapedUnicodeBrace, R.EscapedUnicode4, R.NormalStringCharacter, R.EscapedUnicodeBraceDigits]

theorem drop_after_item {inp : List Char} {a : Nat} {t r : List Char} (h : inp.drop a = t ++ r) :
    inp.drop (a + t.length) = r := by
  rw [← List.drop_drop, h]; simp

/-! ### the builder's loop on items -/

/-- `characters.peek().and_then(trailing_surrogate)` on items -/
def peekItem : List SItem → M (Option Nat)
  | .u4 a b c d :: _ => do
    let n ← parseHexU32 [a, b, c, d]
    .ok (if isTrailSurrogate n then some n else none)
  | _ => .ok none

/-- what the loop does after a `\uXXXX` item with code `code`, given what it peeked -/
def u4ArmI (dec : Bool → M (List Char)) (code : Nat) : Option Nat → M (List Char)
  | some t =>
    if isLeadSurrogate code then do
      let c ← charFromU32 (surrogatePairCode code t)
      (c :: ·) <$> dec true
    else do
      let c ← charFromU32 code
      (c :: ·) <$> dec false
  | none => do
    let c ← charFromU32 code
    (c :: ·) <$> dec false

/-- the loop of `build_string_value` (fix fff8e9c) on the items of a literal; `skip`: the head is a trailing surrogate that
    was consumed together with its lead -/
def decodeItems : Bool → List SItem → M (List Char)
  | _, [] => .ok []
  | true, _ :: rest => decodeItems false rest
  | false, it :: rest =>
    match it with
    | .u4 a b c d => do
      let code ← parseHexU32 [a, b, c, d]
      let tr ← peekItem rest
      u4ArmI (fun sk => decodeItems sk rest) code tr
    | _ => do
      let ch ← it.decode
      (ch :: ·) <$> decodeItems false rest

theorem u4Arm_eq (ctx : Ctx) (code : Nat) (rest : List Pair) (tr : Option Nat) :
    u4Arm ctx code rest tr = u4ArmI (fun sk => decodeChars ctx sk rest) code tr := by
  cases tr <;> rfl

theorem item_child {inp : List Char} (it : SItem) (a : Nat) :
    ∃ ch, onlyChildOf OC_StringCharacter "StringCharacter" (it.pair a) = .ok ch ∧ onlyChild (it.pair a) = .ok ch ∧
      (it.pair a).children = [ch] ∧ ch.start = a ∧
      (ch.rule = R.EscapedUnicode4 ↔ ∃ x y z w, it = .u4 x y z w) ∧
      (ch.rule = R.EscapedUnicodeBrace ↔ ∃ ds, it = .ubrace ds) ∧ ch.stop = a + it.text.length := by
  cases it with
  | plain c =>
    exact ⟨.mk R.NormalStringCharacter a (a + 1) [], by simp [SItem.pair, onlyChildOf, onlyChild, Pair.children, Pair.rule,
      OC_StringCharacter, bind, Except.bind], rfl, rfl, rfl, by simp [Pair.rule, R.NormalStringCharacter, R.EscapedUnicode4],
      by simp [Pair.rule, R.NormalStringCharacter, R.EscapedUnicodeBrace], by simp [Pair.stop, SItem.text]⟩
  | esc e =>
    exact ⟨.mk R.EscapedCharacter a (a + 2) [], by simp [SItem.pair, onlyChildOf, onlyChild, Pair.children, Pair.rule,
      OC_StringCharacter, bind, Except.bind], rfl, rfl, rfl, by simp [Pair.rule, R.EscapedCharacter, R.EscapedUnicode4],
      by simp [Pair.rule, R.EscapedCharacter, R.EscapedUnicodeBrace], by simp [Pair.stop, SItem.text]⟩
  | u4 x y z w =>
    exact ⟨.mk R.EscapedUnicode4 a (a + 6) [], by simp [SItem.pair, onlyChildOf, onlyChild, Pair.children, Pair.rule,
      OC_StringCharacter, bind, Except.bind], rfl, rfl, rfl, by simp [Pair.rule],
      by simp [Pair.rule, R.EscapedUnicode4, R.EscapedUnicodeBrace], by simp [Pair.stop, SItem.text]⟩
  | ubrace ds =>
    exact ⟨.mk R.EscapedUnicodeBrace a (a + (ds.length + 4)) [.mk R.EscapedUnicodeBraceDigits (a + 3) (a + 3 + ds.length) []],
      by simp [SItem.pair, onlyChildOf, onlyChild, Pair.children, Pair.rule, OC_StringCharacter, bind, Except.bind],
      rfl, rfl, rfl, by simp [Pair.rule, R.EscapedUnicode4, R.EscapedUnicodeBrace], by simp [Pair.rule],
      by simp [Pair.stop, SItem.text] <;> omega⟩

theorem unicode4Code_item {inp : List Char} {x y z w : Char} {a : Nat} {r : List Char}
    (h : inp.drop a = (SItem.u4 x y z w).text ++ r) :
    unicode4Code (Ctx.spec inp) (.mk R.EscapedUnicode4 a (a + 6) []) = parseHexU32 [x, y, z, w] := by
  have hs : slice inp a (a + 6) = ['\\', 'u', x, y, z, w] := by
    simpa using slice_of_drop (t := ['\\', 'u', x, y, z, w]) (r := r) (by simpa [SItem.text] using h)
  simp [unicode4Code, asStr, Ctx.spec, Pair.start, Pair.stop, hs]

theorem peekTrailing_litPairs {inp : List Char} (its : List SItem) (a : Nat) (r : List Char)
    (h : inp.drop a = litText its ++ r) : peekTrailing (Ctx.spec inp) (litPairs its a) = peekItem its := by
  cases its with
  | nil => rfl
  | cons it rest =>
    rw [litText_cons, List.append_assoc] at h
    cases it with
    | u4 x y z w =>
      simp only [litPairs]
      rw [peekTrailing_cons _ _ (ch := .mk R.EscapedUnicode4 a (a + 6) []) rfl]
      rw [trailingSurrogate, if_neg (by simp [Pair.rule]), unicode4Code_item h]
      rfl
    | plain c =>
      simp only [litPairs]
      rw [peekTrailing_cons _ _ (ch := .mk R.NormalStringCharacter a (a + 1) []) rfl,
        trailingSurrogate_other _ (by simp [Pair.rule, R.NormalStringCharacter, R.EscapedUnicode4])]
      rfl
    | esc e =>
      simp only [litPairs]
      rw [peekTrailing_cons _ _ (ch := .mk R.EscapedCharacter a (a + 2) []) rfl,
        trailingSurrogate_other _ (by simp [Pair.rule, R.EscapedCharacter, R.EscapedUnicode4])]
      rfl
    | ubrace ds =>
      simp only [litPairs]
      rw [peekTrailing_cons _ _ (ch := .mk R.EscapedUnicodeBrace a (a + (ds.length + 4))
          [.mk R.EscapedUnicodeBraceDigits (a + 3) (a + 3 + ds.length) []]) rfl,
        trailingSurrogate_other _ (by simp [Pair.rule, R.EscapedUnicodeBrace, R.EscapedUnicode4])]
      rfl

theorem decodeItems_other (it : SItem) (rest : List SItem) (h : ∀ x y z w, it ≠ .u4 x y z w) :
    decodeItems false (it :: rest) = (do let ch ← it.decode; (ch :: ·) <$> decodeItems false rest) := by
  cases it with
  | u4 x y z w => exact absurd rfl (h x y z w)
  | plain c => rw [decodeItems]; exact fun _ _ _ _ h => nomatch h
  | esc e => rw [decodeItems]; exact fun _ _ _ _ h => nomatch h
  | ubrace ds => rw [decodeItems]; exact fun _ _ _ _ h => nomatch h

/-- the builder's loop on the pair tree of a literal body is `decodeItems` on its items -/
theorem decodeChars_litPairs {inp : List Char} : ∀ (its : List SItem), AllOk its → ∀ (a : Nat) (r : List Char) (skip : Bool),
    inp.drop a = litText its ++ r → decodeChars (Ctx.spec inp) skip (litPairs its a) = decodeItems skip its := by
  intro its
  induction its with
  | nil => intro _ a r skip _; cases skip <;> rfl
  | cons it its ih =>
    intro hok a r skip h
    rw [litText_cons, List.append_assoc] at h
    have ih' := fun sk => ih (fun x hx => hok x (List.mem_cons_of_mem _ hx)) _ r sk (drop_after_item h)
    cases skip with
    | true =>
      simp only [litPairs]
      rw [decodeChars_skip, ih' false, decodeItems]
    | false =>
      obtain ⟨ch, hoc, _, _, _, hu, _, _⟩ := item_child (inp := inp) it a
      by_cases hr : ch.rule = R.EscapedUnicode4
      · obtain ⟨x, y, z, w, rfl⟩ := hu.mp hr
        simp only [litPairs]
        have hoc' : onlyChildOf OC_StringCharacter "StringCharacter" ((SItem.u4 x y z w).pair a) =
            .ok (.mk R.EscapedUnicode4 a (a + 6) []) := by
          simp [SItem.pair, onlyChildOf, onlyChild, Pair.children, Pair.rule, OC_StringCharacter, bind, Except.bind]
        have hcode := unicode4Code_item h
        have hpk := peekTrailing_litPairs its (a + (SItem.u4 x y z w).text.length) r (drop_after_item h)
        rw [decodeItems]
        cases hp : parseHexU32 [x, y, z, w] with
        | error e =>
          rw [hp] at hcode
          rw [decodeChars_err_code _ _ hoc' rfl hcode]
          rfl
        | ok code =>
          rw [hp] at hcode
          cases hq : peekItem its with
          | error e =>
            rw [hq] at hpk
            rw [decodeChars_err_peek _ _ hoc' rfl hcode hpk]
            rfl
          | ok tr =>
            rw [hq] at hpk
            rw [decodeChars_u4 _ _ hoc' rfl hcode hpk, u4Arm_eq]
            show _ = u4ArmI (fun sk => decodeItems sk its) code tr
            congr 1
            funext sk
            exact ih' sk
      · have hnu : ∀ x y z w, it ≠ .u4 x y z w := fun x y z w e => hr (hu.mpr ⟨x, y, z, w, e⟩)
        simp only [litPairs]
        rw [decodeChars_other _ _ hoc hr, decodeChar_item it (hok it (List.mem_cons_self ..)) h, ih' false,
          decodeItems_other it its hnu]

/-- `build_string_value` on the pair tree of the literal: `decodeItems`, and the position of the literal -/
theorem stringValueChars_litPair {inp : List Char} (it : SItem) (its : List SItem) (hok : AllOk (it :: its)) (p : Nat)
    (rest : List Char) (h : inp.drop p = '"' :: (litText (it :: its) ++ '"' :: rest)) :
    stringValueChars (Ctx.spec inp) (litPair (it :: its) p) =
      (decodeItems false (it :: its)).map (fun s => (s, { line := (lineCol inp p).1, col := (lineCol inp p).2 })) := by
  have h' : inp.drop (p + 1) = litText (it :: its) ++ ('"' :: rest) := by
    rw [← List.drop_drop, h]; simp
  have hm := decodeChars_litPairs (inp := inp) (it :: its) hok (p + 1) _ false h'
  simp only [stringValueChars, litPair, onlyChildOf, onlyChild, Pair.children, Pair.rule, OC_StringValue, bind, Except.bind,
    toPos, Ctx.spec, Pair.start]
  simp only [R.NormalStringValue, R.EmptyStringValue, R.BlockStringValue] at hm ⊢
  simp only [Ctx.spec] at hm
  simp [hm]
  cases decodeItems false (it :: its) <;> rfl

/-! ### `validate_unicode_escapes` on items -/

/-- the loop of `validate_unicode_escapes` (fix fff8e9c) on the items of ONE literal body written at offset `p`; `pending` =
    offset of a leading surrogate that waits for its trailing surrogate; result: offset of the escape reported as invalid -/
def scanItems : Option Nat → List SItem → Nat → Option Nat
  | pending, [], _ => pending
  | pending, it :: rest, p =>
    match it with
    | .u4 a b c d =>
      match pending, hexOk [a, b, c, d] with
      | some l, some n => if isTrailSurrogate n then scanItems none rest (p + 6) else some l
      | some l, none => some l
      | none, some n =>
        if isLeadSurrogate n then scanItems (some p) rest (p + 6)
        else if validScalar n then scanItems none rest (p + 6) else some p
      | none, none => some p
    | .ubrace ds =>
      match pending with
      | some l => some l
      | none => if escapeDenotesChar ds then scanItems none rest (p + (ds.length + 4)) else some p
    | .plain _ =>
      match pending with
      | some l => some l
      | none => scanItems none rest (p + 1)
    | .esc _ =>
      match pending with
      | some l => some l
      | none => scanItems none rest (p + 2)

theorem flatMap_litPairs_cons {inp : List Char} (it : SItem) (its : List SItem) (a : Nat) :
    ∃ ch, (litPairs (it :: its) a).flatMap Pair.children = ch :: (litPairs its (a + it.text.length)).flatMap Pair.children ∧
      (it.pair a).children = [ch] := by
  obtain ⟨ch, _, _, hc, _⟩ := item_child (inp := inp) it a
  exact ⟨ch, by simp [litPairs, List.flatMap_cons, hc], hc⟩

theorem scanEscapes_litPairs {inp : List Char} : ∀ (its : List SItem) (a : Nat) (r : List Char) (pending : Option Pair),
    inp.drop a = litText its ++ r →
    (scanEscapes (Ctx.spec inp) pending ((litPairs its a).flatMap Pair.children)).map Pair.start =
      scanItems (pending.map Pair.start) its a := by
  intro its
  induction its with
  | nil => intro a r pending _; cases pending <;> rfl
  | cons it its ih =>
    intro a r pending h
    rw [litText_cons, List.append_assoc] at h
    have ih' := fun pd => ih (a + it.text.length) r pd (drop_after_item h)
    cases it with
    | plain c =>
      have e : (litPairs (.plain c :: its) a).flatMap Pair.children =
          .mk R.NormalStringCharacter a (a + 1) [] :: (litPairs its (a + (SItem.plain c).text.length)).flatMap Pair.children := by
        simp [litPairs, List.flatMap_cons, SItem.pair, Pair.children]
      rw [e]
      cases pending with
      | some l => simp [scanEscapes, scanItems, Pair.rule, R.NormalStringCharacter, R.EscapedUnicode4, R.EscapedUnicodeBrace]
      | none =>
        have := ih' none
        simp only [SItem.text, List.length_cons, List.length_nil] at this
        simpa [scanEscapes, scanItems, Pair.rule, R.NormalStringCharacter, R.EscapedUnicode4, R.EscapedUnicodeBrace,
          SItem.text] using this
    | esc e' =>
      have e : (litPairs (.esc e' :: its) a).flatMap Pair.children =
          .mk R.EscapedCharacter a (a + 2) [] :: (litPairs its (a + (SItem.esc e').text.length)).flatMap Pair.children := by
        simp [litPairs, List.flatMap_cons, SItem.pair, Pair.children]
      rw [e]
      cases pending with
      | some l => simp [scanEscapes, scanItems, Pair.rule, R.EscapedCharacter, R.EscapedUnicode4, R.EscapedUnicodeBrace]
      | none =>
        have := ih' none
        simp only [SItem.text, List.length_cons, List.length_nil] at this
        simpa [scanEscapes, scanItems, Pair.rule, R.EscapedCharacter, R.EscapedUnicode4, R.EscapedUnicodeBrace,
          SItem.text] using this
    | u4 x y z w =>
      have e : (litPairs (.u4 x y z w :: its) a).flatMap Pair.children =
          .mk R.EscapedUnicode4 a (a + 6) [] :: (litPairs its (a + (SItem.u4 x y z w).text.length)).flatMap Pair.children := by
        simp [litPairs, List.flatMap_cons, SItem.pair, Pair.children]
      rw [e]
      have hs : slice inp a (a + 6) = ['\\', 'u', x, y, z, w] := by
        simpa using slice_of_drop (t := ['\\', 'u', x, y, z, w]) (r := litText its ++ r) (by simpa [SItem.text] using h)
      have hd : ((asStr (Ctx.spec inp) (.mk R.EscapedUnicode4 a (a + 6) [])).drop 2) = [x, y, z, w] := by
        simp [asStr, Ctx.spec, Pair.start, Pair.stop, hs]
      have h6 : a + (SItem.u4 x y z w).text.length = a + 6 := by simp [SItem.text]
      rw [h6] at ih' ⊢
      simp only [scanEscapes, Pair.rule, if_true, hd, scanItems]
      cases pending with
      | some l =>
        cases hx : hexOk [x, y, z, w] with
        | none => rfl
        | some n =>
          dsimp only [Option.map]
          by_cases ht : isTrailSurrogate n = true
          · rw [if_pos ht, if_pos ht]; exact ih' none
          · rw [if_neg ht, if_neg ht] <;> try rfl
      | none =>
        cases hx : hexOk [x, y, z, w] with
        | none => rfl
        | some n =>
          dsimp only [Option.map]
          by_cases hl : isLeadSurrogate n = true
          · rw [if_pos hl, if_pos hl]; exact ih' (some (.mk R.EscapedUnicode4 a (a + 6) []))
          · rw [if_neg hl, if_neg hl]
            by_cases hv : validScalar n = true
            · rw [if_pos hv, if_pos hv]; exact ih' none
            · rw [if_neg hv, if_neg hv] <;> try rfl
    | ubrace ds =>
      have e : (litPairs (.ubrace ds :: its) a).flatMap Pair.children =
          .mk R.EscapedUnicodeBrace a (a + (ds.length + 4)) [.mk R.EscapedUnicodeBraceDigits (a + 3) (a + 3 + ds.length) []] ::
            (litPairs its (a + (SItem.ubrace ds).text.length)).flatMap Pair.children := by
        simp [litPairs, List.flatMap_cons, SItem.pair, Pair.children]
      rw [e]
      have hs : slice inp a (a + (ds.length + 4)) = '\\' :: 'u' :: '{' :: (ds ++ ['}']) := by
        have := slice_of_drop (t := '\\' :: 'u' :: '{' :: (ds ++ ['}'])) (r := litText its ++ r) (by simpa [SItem.text] using h)
        simpa using this
      have hdg : ((asStr (Ctx.spec inp) (.mk R.EscapedUnicodeBrace a (a + (ds.length + 4))
          [.mk R.EscapedUnicodeBraceDigits (a + 3) (a + 3 + ds.length) []])).drop 3).take
          ((asStr (Ctx.spec inp) (.mk R.EscapedUnicodeBrace a (a + (ds.length + 4))
            [.mk R.EscapedUnicodeBraceDigits (a + 3) (a + 3 + ds.length) []])).length - 4) = ds := by
        simp [asStr, Ctx.spec, Pair.start, Pair.stop, hs]
      have hl : a + (SItem.ubrace ds).text.length = a + (ds.length + 4) := by simp [SItem.text] <;> omega
      rw [hl] at ih' ⊢
      cases pending with
      | some l => simp [scanEscapes, scanItems, Pair.rule, R.EscapedUnicode4, R.EscapedUnicodeBrace]
      | none =>
        simp only [scanEscapes, Pair.rule, R.EscapedUnicode4, R.EscapedUnicodeBrace, scanItems, hdg]
        by_cases hb : escapeDenotesChar ds = true
        · simp only [hb, if_true]; exact ih' none
        · simp only [hb, if_false]; rfl

theorem litPairs_no_string {inp : List Char} : ∀ (its : List SItem) (a : Nat), ∀ q ∈ flatList (litPairs its a),
    q.rule ≠ R.NormalStringValue := by
  intro its
  induction its with
  | nil => intro a q hq; simp [litPairs, flatList] at hq
  | cons it its ih =>
    intro a q hq
    simp only [litPairs, flatList, List.mem_append] at hq
    rcases hq with hq | hq
    · cases it <;> simp [SItem.pair, flat, flatList] at hq <;>
        (rcases hq with rfl | rfl | rfl <;> simp [Pair.rule, R.NormalStringValue, R.StringCharacter, R.NormalStringCharacter,
          R.EscapedCharacter, R.EscapedUnicode4, R.EscapedUnicodeBrace, R.EscapedUnicodeBraceDigits])
    · exact ih _ q hq

/-- `validate_unicode_escapes` on the pair tree of the literal: the loop over its items -/
theorem firstBadEscape_litPair {inp : List Char} (its : List SItem) (p : Nat) (rest : List Char)
    (h : inp.drop p = '"' :: (litText its ++ '"' :: rest)) :
    firstBadEscape (Ctx.spec inp) [litPair its p] = scanItems none its (p + 1) := by
  have h' : inp.drop (p + 1) = litText its ++ ('"' :: rest) := by
    rw [← List.drop_drop, h]; simp
  have hscan := scanEscapes_litPairs (inp := inp) its (p + 1) _ none h'
  have hrest : (flatList (litPairs its (p + 1))).findSome? (fun q =>
      if q.rule = R.NormalStringValue then (scanEscapes (Ctx.spec inp) none (stringCharacters q)).map Pair.start else none) = none := by
    rw [List.findSome?_eq_none_iff]
    intro q hq
    rw [if_neg (litPairs_no_string (inp := inp) its (p + 1) q hq)]
  have hflat : flatList [litPair its p] =
      litPair its p :: .mk R.NormalStringValue p (p + ((litText its).length + 2)) (litPairs its (p + 1)) ::
        flatList (litPairs its (p + 1)) := by
    simp [litPair, flatList, flat]
  have h1 : (litPair its p).rule ≠ R.NormalStringValue := by simp [litPair, Pair.rule, R.StringValue, R.NormalStringValue]
  unfold firstBadEscape
  have h2 : (Pair.mk R.NormalStringValue p (p + ((litText its).length + 2)) (litPairs its (p + 1))).rule =
      R.NormalStringValue := rfl
  have e : stringCharacters (.mk R.NormalStringValue p (p + ((litText its).length + 2)) (litPairs its (p + 1))) =
      (litPairs its (p + 1)).flatMap Pair.children := rfl
  have hscan' : (scanEscapes (Ctx.spec inp) none ((litPairs its (p + 1)).flatMap Pair.children)).map Pair.start =
      scanItems none its (p + 1) := hscan
  rw [hflat, List.findSome?_cons, if_neg h1, List.findSome?_cons, if_pos h2, hrest, e, hscan']
  generalize scanItems none its (p + 1) = x
  cases x <;> rfl

end NitroVerif.StringParse
