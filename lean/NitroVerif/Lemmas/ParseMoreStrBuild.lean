/-
`build_string_value` and `validate_unicode_escapes` on the pair tree of ANY legal normal string literal (helper lemmas for
Props/C07 `string_decode_general`): the builder maps every item to `SItem.decode` (what `value.rs` computes: the character
itself, the simple escape, `char::from_u32(u32::from_str_radix(digits, 16))`), and `validate_unicode_escapes` reports the
first `\u` escape whose digits denote no Unicode scalar value (`firstBadItem`).
-/
import NitroVerif.Lemmas.ParseMoreStr
namespace NitroVerif.StringParse
open NitroVerif.Peg NitroVerif.Gen NitroVerif.Gen.Parts NitroVerif.Build NitroVerif.Spec.Lex NitroVerif.TypeParse
open NitroVerif.ParseText NitroVerif.ValueParse

/-- what `build_string_value` computes for one item -/
def SItem.decode : SItem → M Char
  | .plain c => .ok c
  | .esc e => escapedChar ['\\', e]
  | .u4 a b c d => do charFromU32 (← parseHexU32 [a, b, c, d])
  | .ubrace ds => do charFromU32 (← parseHexU32 ds)

/-- the item is a `\u` escape that denotes no Unicode scalar value (what `validate_unicode_escapes` rejects) -/
def SItem.bad : SItem → Bool
  | .u4 a b c d => !escapeDenotesChar [a, b, c, d]
  | .ubrace ds => !escapeDenotesChar ds
  | _ => false

/-- offset of the first offending escape of a literal body written at `p` -/
def firstBadItem : List SItem → Nat → Option Nat
  | [], _ => none
  | it :: its, p => if it.bad then some p else firstBadItem its (p + it.text.length)

theorem escaped_ok {e : Char} (h : [e] ∈ escLetters) : ∃ c, escapedChar ['\\', e] = .ok c := by
  simp only [escLetters, List.mem_cons, List.cons.injEq, and_true, List.not_mem_nil, or_false] at h
  rcases h with rfl | rfl | rfl | rfl | rfl | rfl | rfl | rfl <;> exact ⟨_, rfl⟩

/-- an item that is not rejected decodes to a character, and conversely -/
theorem decode_ok_iff (it : SItem) (hok : it.Ok) : (∃ c, it.decode = .ok c) ↔ it.bad = false := by
  cases it with
  | plain c => simp [SItem.decode, SItem.bad]
  | esc e => simp only [SItem.decode, SItem.bad, iff_true]; exact escaped_ok hok
  | u4 a b c d =>
    simp only [SItem.decode, SItem.bad, escapeDenotesChar, bind, Except.bind]
    cases parseHexU32 [a, b, c, d] with
    | error e => simp
    | ok n => by_cases hv : validScalar n <;> simp [charFromU32, hv]
  | ubrace ds =>
    simp only [SItem.decode, SItem.bad, escapeDenotesChar, bind, Except.bind]
    cases parseHexU32 ds with
    | error e => simp
    | ok n => by_cases hv : validScalar n <;> simp [charFromU32, hv]

theorem decodeChar_item {inp : List Char} (it : SItem) (hok : it.Ok) {a : Nat} {r : List Char}
    (h : inp.drop a = it.text ++ r) : decodeChar (Ctx.spec inp) (it.pair a) = it.decode := by
  cases it with
  | plain c =>
    have hs : slice inp a (a + 1) = [c] := by
      simpa using slice_of_drop (t := [c]) (r := r) (by simpa [SItem.text] using h)
    simp [decodeChar, SItem.pair, SItem.decode, onlyChildOf, onlyChild, Pair.children, Pair.rule, OC_StringCharacter, asStr,
      Ctx.spec, Pair.start, Pair.stop, hs, bind, Except.bind, R.EscapedCharacter, R.EscapedUnicodeBrace,
      R.EscapedUnicode4, R.NormalStringCharacter]
  | esc e =>
    have hs : slice inp a (a + 2) = ['\\', e] := by
      simpa using slice_of_drop (t := ['\\', e]) (r := r) (by simpa [SItem.text] using h)
    simp [decodeChar, SItem.pair, SItem.decode, onlyChildOf, onlyChild, Pair.children, Pair.rule, OC_StringCharacter, asStr,
      Ctx.spec, Pair.start, Pair.stop, hs, bind, Except.bind, R.EscapedCharacter, R.EscapedUnicodeBrace,
      R.EscapedUnicode4, R.NormalStringCharacter]
  | u4 x y z w =>
    have hs : slice inp a (a + 6) = ['\\', 'u', x, y, z, w] := by
      simpa using slice_of_drop (t := ['\\', 'u', x, y, z, w]) (r := r) (by simpa [SItem.text] using h)
    simp [decodeChar, SItem.pair, SItem.decode, onlyChildOf, onlyChild, Pair.children, Pair.rule, OC_StringCharacter, asStr,
      Ctx.spec, Pair.start, Pair.stop, hs, bind, Except.bind, R.EscapedCharacter, R.EscapedUnicodeBrace,
      R.EscapedUnicode4, R.NormalStringCharacter]
  | ubrace ds =>
    have h' : inp.drop (a + 3) = ds ++ ('}' :: r) := by
      rw [← List.drop_drop, h]; simp [SItem.text]
    have hs : slice inp (a + 3) (a + 3 + ds.length) = ds := slice_of_drop h'
    simp [decodeChar, SItem.pair, SItem.decode, onlyChildOf, onlyChild, Pair.children, Pair.rule, OC_StringCharacter,
      OC_EscapedUnicodeBrace, asStr, Ctx.spec, Pair.start, Pair.stop, hs, bind, Except.bind, R.EscapedCharacter,
      R.EscapedUnicodeBrace, R.EscapedUnicode4, R.NormalStringCharacter, R.EscapedUnicodeBraceDigits]

theorem drop_after_item {inp : List Char} {a : Nat} {t r : List Char} (h : inp.drop a = t ++ r) :
    inp.drop (a + t.length) = r := by
  rw [← List.drop_drop, h]; simp

theorem mapM_litPairs {inp : List Char} : ∀ (its : List SItem), AllOk its → ∀ (a : Nat) (r : List Char),
    inp.drop a = litText its ++ r → (litPairs its a).mapM (decodeChar (Ctx.spec inp)) = its.mapM SItem.decode := by
  intro its
  induction its with
  | nil => intro _ a r _; rfl
  | cons it its ih =>
    intro hok a r h
    rw [litText_cons, List.append_assoc] at h
    have h1 := decodeChar_item it (hok it (List.mem_cons_self ..)) h
    have h2 := ih (fun x hx => hok x (List.mem_cons_of_mem _ hx)) _ r (drop_after_item h)
    simp only [litPairs, List.mapM_cons, h1, h2]

/-- `build_string_value` on the pair tree of the literal: the items decoded one by one, and the position of the literal -/
theorem stringValueChars_litPair {inp : List Char} (it : SItem) (its : List SItem) (hok : AllOk (it :: its)) (p : Nat)
    (rest : List Char) (h : inp.drop p = '"' :: (litText (it :: its) ++ '"' :: rest)) :
    stringValueChars (Ctx.spec inp) (litPair (it :: its) p) =
      ((it :: its).mapM SItem.decode).map (fun s => (s, { line := (lineCol inp p).1, col := (lineCol inp p).2 })) := by
  have h' : inp.drop (p + 1) = litText (it :: its) ++ ('"' :: rest) := by
    rw [← List.drop_drop, h]; simp
  have hm := mapM_litPairs (inp := inp) (it :: its) hok (p + 1) _ h'
  simp only [stringValueChars, litPair, onlyChildOf, onlyChild, Pair.children, Pair.rule, OC_StringValue, bind, Except.bind,
    toPos, Ctx.spec, Pair.start]
  simp only [R.NormalStringValue, R.EmptyStringValue, R.BlockStringValue] at hm ⊢
  simp only [Ctx.spec] at hm
  simp [hm]
  cases List.mapM SItem.decode (it :: its) <;> rfl

/-! ### `validate_unicode_escapes` -/

theorem badEscape_item {inp : List Char} (it : SItem) {a : Nat} {r : List Char} (h : inp.drop a = it.text ++ r) :
    ((flat (it.pair a)).find? (badEscape (Ctx.spec inp))).map Pair.start = if it.bad then some a else none := by
  cases it with
  | plain c =>
    simp [SItem.pair, flat, flatList, badEscape, Pair.rule, SItem.bad, R.EscapedUnicode4, R.EscapedUnicodeBrace,
      R.StringCharacter, R.NormalStringCharacter]
  | esc e =>
    simp [SItem.pair, flat, flatList, badEscape, Pair.rule, SItem.bad, R.EscapedUnicode4, R.EscapedUnicodeBrace,
      R.StringCharacter, R.EscapedCharacter]
  | u4 x y z w =>
    have hs : slice inp a (a + 6) = ['\\', 'u', x, y, z, w] := by
      simpa using slice_of_drop (t := ['\\', 'u', x, y, z, w]) (r := r) (by simpa [SItem.text] using h)
    by_cases hb : escapeDenotesChar [x, y, z, w] = true
    · simp [SItem.pair, flat, flatList, badEscape, Pair.rule, SItem.bad, R.EscapedUnicode4, R.EscapedUnicodeBrace,
        R.StringCharacter, asStr, Ctx.spec, Pair.start, Pair.stop, hs, hb]
    · simp [SItem.pair, flat, flatList, badEscape, Pair.rule, SItem.bad, R.EscapedUnicode4, R.EscapedUnicodeBrace,
        R.StringCharacter, asStr, Ctx.spec, Pair.start, Pair.stop, hs, hb]
  | ubrace ds =>
    have hs : slice inp a (a + (ds.length + 4)) = '\\' :: 'u' :: '{' :: (ds ++ ['}']) := by
      have := slice_of_drop (t := '\\' :: 'u' :: '{' :: (ds ++ ['}'])) (r := r) (by simpa [SItem.text] using h)
      simpa using this
    have hd : (('\\' :: 'u' :: '{' :: (ds ++ ['}'])).drop 3).take (('\\' :: 'u' :: '{' :: (ds ++ ['}'])).length - 4) = ds := by
      simp
    by_cases hb : escapeDenotesChar ds = true
    · simp [SItem.pair, flat, flatList, badEscape, Pair.rule, SItem.bad, R.EscapedUnicode4, R.EscapedUnicodeBrace,
        R.StringCharacter, R.EscapedUnicodeBraceDigits, asStr, Ctx.spec, Pair.start, Pair.stop, hs, hb]
    · simp [SItem.pair, flat, flatList, badEscape, Pair.rule, SItem.bad, R.EscapedUnicode4, R.EscapedUnicodeBrace,
        R.StringCharacter, R.EscapedUnicodeBraceDigits, asStr, Ctx.spec, Pair.start, Pair.stop, hs, hb]

theorem find_litPairs {inp : List Char} : ∀ (its : List SItem) (a : Nat) (r : List Char),
    inp.drop a = litText its ++ r →
    ((flatList (litPairs its a)).find? (badEscape (Ctx.spec inp))).map Pair.start = firstBadItem its a := by
  intro its
  induction its with
  | nil => intro a r _; rfl
  | cons it its ih =>
    intro a r h
    rw [litText_cons, List.append_assoc] at h
    have h1 := badEscape_item it h
    have h2 := ih _ r (drop_after_item h)
    simp only [litPairs, flatList, List.find?_append, firstBadItem]
    cases hf : (flat (it.pair a)).find? (badEscape (Ctx.spec inp)) with
    | some q =>
      rw [hf] at h1
      cases hb : it.bad with
      | true => simpa [hb] using h1
      | false => simp [hb] at h1
    | none =>
      rw [hf] at h1
      cases hb : it.bad with
      | true => simp [hb] at h1
      | false => simpa [hb] using h2

/-- `validate_unicode_escapes` on the pair tree of the literal: the first `\u` escape that denotes no scalar value -/
theorem firstBadEscape_litPair {inp : List Char} (its : List SItem) (p : Nat) (rest : List Char)
    (h : inp.drop p = '"' :: (litText its ++ '"' :: rest)) :
    firstBadEscape (Ctx.spec inp) [litPair its p] = firstBadItem its (p + 1) := by
  have h' : inp.drop (p + 1) = litText its ++ ('"' :: rest) := by
    rw [← List.drop_drop, h]; simp
  have := find_litPairs (inp := inp) its (p + 1) _ h'
  simp only [firstBadEscape, litPair, flatList, flat, List.append_nil, List.find?_cons]
  simp only [badEscape, Pair.rule, R.StringValue, R.NormalStringValue, R.EscapedUnicode4, R.EscapedUnicodeBrace]
  simpa using this

theorem firstBadItem_none {its : List SItem} (h : ∀ it ∈ its, it.bad = false) : ∀ p, firstBadItem its p = none := by
  induction its with
  | nil => intro p; rfl
  | cons it its ih =>
    intro p
    simp [firstBadItem, h it (List.mem_cons_self ..), ih (fun x hx => h x (List.mem_cons_of_mem _ hx))]

/-- all items decode iff none is rejected -/
theorem mapM_decode_ok {its : List SItem} (hok : AllOk its) {s : List Char} (h : its.mapM SItem.decode = .ok s) :
    ∀ it ∈ its, it.bad = false := by
  induction its generalizing s with
  | nil => intro it hit; cases hit
  | cons x xs ih =>
    intro it hit
    simp only [List.mapM_cons, bind, Except.bind] at h
    cases hx : x.decode with
    | error e => simp [hx] at h
    | ok c =>
      rw [hx] at h
      cases hxs : xs.mapM SItem.decode with
      | error e => simp [hxs] at h
      | ok cs =>
        rcases List.mem_cons.mp hit with rfl | hit
        · exact (decode_ok_iff _ (hok _ (List.mem_cons_self ..))).mp ⟨c, hx⟩
        · exact ih (fun y hy => hok y (List.mem_cons_of_mem _ hy)) hxs it hit

end NitroVerif.StringParse
