import NitroVerif.Lemmas.PrintMap
/-!
# C06 — the bodies of the operation type printer: selection-set types and Variables types are built from strings

`TSTy.simple t` — every `TypeVariable` and every `ObjectKey` of `t` has the position `Pos::builtin()` and no property has a
description: what a `TSType` looks like when it is built from strings only (`"…".into()`).  For such a type
* `tySites t = []` — `print_type` makes no mapped call (`simple_sites`),
* every `write_for` of `print_type` passes (text, `Pos::builtin()`, name = text) (`simple_calls`).
`treeTy` (selection trees), `varsTy` (variable definitions) and `tsOfType` over a string-built leaf are simple.
-/
namespace NitroVerif.PrintMap
open NitroVerif.Gql NitroVerif.DeclCfg

mutual
/-- built from strings only: built-in positions everywhere, no descriptions -/
def TSTy.simple : TSTy → Bool
  | .var _ p => decide (p = bi)
  | .func f args => f.simple && simpleList args
  | .obj fs => simpleFields fs
  | .arr t => t.simple
  | .roArr t => t.simple
  | .union ts => simpleList ts
  | .inter ts => simpleList ts
  | _ => true
def simpleList : List TSTy → Bool
  | [] => true
  | t :: ts => t.simple && simpleList ts
def simpleFields : List TSField → Bool
  | [] => true
  | .mk _ kp ty _ _ d :: r => decide (kp = bi) && d.isNone && ty.simple && simpleFields r
end

/-- a call that maps nothing: a plain `write`, `indent`, `dedent`, or a `write_for` whose node was built from the written
    text itself (position `Pos::builtin()`, name = the text) -/
def POp.unmappedCall : POp → Bool
  | .writeFor t p n => decide (p = bi) && decide (n = some t)
  | _ => true

mutual
theorem simple_sites : ∀ t : TSTy, t.simple = true → tySites t = []
  | .var n p, h => by
    have : p = bi := by simpa [TSTy.simple] using h
    subst this; simp [tySites]
  | .func f args, h => by
    simp only [TSTy.simple, Bool.and_eq_true] at h
    simp [tySites, simple_sites f h.1, simple_sitesList args h.2]
  | .strLit _, _ => rfl
  | .ns2 _ _, _ => rfl
  | .ns3 _ _ _, _ => rfl
  | .obj fs, h => by simp only [TSTy.simple] at h; simp [tySites, simple_sitesFields fs h]
  | .arr t, h => by simp only [TSTy.simple] at h; simp [tySites, simple_sites t h]
  | .roArr t, h => by simp only [TSTy.simple] at h; simp [tySites, simple_sites t h]
  | .union ts, h => by simp only [TSTy.simple] at h; simp [tySites, simple_sitesList ts h]
  | .inter ts, h => by simp only [TSTy.simple] at h; simp [tySites, simple_sitesList ts h]
  | .undefined, _ => rfl
  | .null, _ => rfl
  | .never, _ => rfl
  | .unknown, _ => rfl
  | .raw _, _ => rfl
theorem simple_sitesList : ∀ ts : List TSTy, simpleList ts = true → tySitesList ts = []
  | [], _ => rfl
  | t :: ts, h => by
    simp only [simpleList, Bool.and_eq_true] at h
    simp [tySitesList, simple_sites t h.1, simple_sitesList ts h.2]
theorem simple_sitesFields : ∀ fs : List TSField, simpleFields fs = true → fieldSites fs = []
  | [], _ => rfl
  | .mk k kp ty _ _ _ :: r, h => by
    simp only [simpleFields, Bool.and_eq_true, decide_eq_true_eq] at h
    obtain ⟨⟨⟨rfl, _⟩, h2⟩, h3⟩ := h
    simp [fieldSites, simple_sites ty h2, simple_sitesFields r h3]
end

mutual
theorem simple_calls : ∀ t : TSTy, t.simple = true → (printTy t).all POp.unmappedCall = true
  | .var n p, h => by
    have : p = bi := by simpa [TSTy.simple] using h
    subst this
    simp [printTy, POp.unmappedCall]
  | .func f args, h => by
    simp only [TSTy.simple, Bool.and_eq_true] at h
    simp [printTy, List.all_append, POp.unmappedCall, simple_calls f h.1, simple_callsSep ", " args true h.2]
  | .strLit s, _ => by simp [printTy, POp.unmappedCall]
  | .ns2 _ _, _ => by simp [printTy, POp.unmappedCall]
  | .ns3 _ _ _, _ => by simp [printTy, POp.unmappedCall]
  | .obj fs, h => by
    simp only [TSTy.simple] at h
    simp only [printTy]
    split
    · simp [POp.unmappedCall]
    · simp [List.all_append, POp.unmappedCall, simple_callsFields fs h]
  | .arr t, h => by
    simp only [TSTy.simple] at h
    simp [printTy, List.all_append, POp.unmappedCall, simple_calls t h]
  | .roArr t, h => by
    simp only [TSTy.simple] at h
    simp [printTy, List.all_append, POp.unmappedCall, simple_calls t h]
  | .union ts, h => by
    simp only [TSTy.simple] at h
    simp only [printTy]
    split
    · simp [POp.unmappedCall]
    · exact simple_callsSep " | " ts true h
  | .inter ts, h => by
    simp only [TSTy.simple] at h
    simp only [printTy]
    split
    · simp [POp.unmappedCall]
    · exact simple_callsSep " & " ts true h
  | .undefined, _ => by simp [printTy, POp.unmappedCall]
  | .null, _ => by simp [printTy, POp.unmappedCall]
  | .never, _ => by simp [printTy, POp.unmappedCall]
  | .unknown, _ => by simp [printTy, POp.unmappedCall]
  | .raw s, _ => by simp [printTy, POp.unmappedCall]
theorem simple_callsSep : ∀ (sep : String) (ts : List TSTy) (first : Bool), simpleList ts = true →
    (printSep sep ts first).all POp.unmappedCall = true
  | _, [], _, _ => by simp [printSep]
  | sep, t :: ts, first, h => by
    simp only [simpleList, Bool.and_eq_true] at h
    cases first <;>
      simp [printSep, List.all_append, POp.unmappedCall, simple_calls t h.1, simple_callsSep sep ts false h.2]
theorem simple_callsFields : ∀ fs : List TSField, simpleFields fs = true → (printFields fs).all POp.unmappedCall = true
  | [], _ => by simp [printFields]
  | .mk k kp ty ro opt d :: r, h => by
    simp only [simpleFields, Bool.and_eq_true, decide_eq_true_eq] at h
    obtain ⟨⟨⟨rfl, hd⟩, h2⟩, h3⟩ := h
    have hd' : d = none := by cases d <;> simp_all
    subst hd'
    cases ro <;> cases opt <;> cases hk : SchemaDecls.isRawIdent k <;>
      simp [printFields, optDescOps, List.all_append, POp.unmappedCall, hk, simple_calls ty h2, simple_callsFields r h3]
end

/-! ### the types of the operation printer are simple -/

theorem simple_tsUnion (l : List TSTy) (h : simpleList l = true) : (tsUnion l).simple = true := by
  match l, h with
  | [], _ => rfl
  | [t], h => simpa [tsUnion, simpleList] using h
  | _ :: _ :: _, h => simpa [tsUnion, TSTy.simple] using h

theorem simple_tsOfTypeImpl (leaf : Name → Pos → TSTy) (hl : ∀ n p, (leaf n p).simple = true) :
    ∀ t : GType, (tsOfTypeImpl leaf t).1.simple = true
  | .named n p => hl n p
  | .list t _ => by
    have ih := simple_tsOfTypeImpl leaf hl t
    simp only [tsOfTypeImpl]
    split
    · simp [TSTy.simple, simpleList, ih]
    · simp [TSTy.simple, ih]
  | .nonNull t => by simpa [tsOfTypeImpl] using simple_tsOfTypeImpl leaf hl t

theorem simple_tsOfType (leaf : Name → Pos → TSTy) (hl : ∀ n p, (leaf n p).simple = true) (t : GType) :
    (tsOfType leaf t).simple = true := by
  have ih := simple_tsOfTypeImpl leaf hl t
  simp only [tsOfType]
  split
  · simp [TSTy.simple, simpleList, ih]
  · exact ih

theorem simple_outLeaf (ns : String) (n : Name) (p : Pos) : (outLeaf ns n p).simple = true := rfl
theorem simple_inLeaf (ns : String) (n : Name) (p : Pos) : (inLeaf ns n p).simple = true := rfl

mutual
theorem simple_treeTy (ns : String) : ∀ (t : OpTypes.SelTree) (nn : Bool), (treeTy ns t nn).simple = true
  | .nonNull t, _ => by simpa [treeTy] using simple_treeTy ns t true
  | .list t, nn => by
    have ih := simple_treeTy ns t false
    cases nn <;> simp [treeTy, tsUnion, TSTy.simple, simpleList, ih]
  | .object bs, nn => by
    have ih := simple_tsUnion _ (simple_branchesTy ns bs)
    cases nn
    · simp only [treeTy, Bool.false_eq_true, if_false]
      exact simple_tsUnion _ (by simp [simpleList, ih, TSTy.simple])
    · simpa [treeTy] using ih
theorem simple_branchesTy (ns : String) : ∀ bs : List OpTypes.Branch, simpleList (branchesTy ns bs) = true
  | [] => rfl
  | b :: bs => by simp [branchesTy, simpleList, simple_branchTy ns b, simple_branchesTy ns bs]
theorem simple_branchTy (ns : String) : ∀ b : OpTypes.Branch, (branchTy ns b).simple = true
  | .mk tn _ un al => by
    simp [branchTy, TSTy.simple, simpleList, simple_fieldsTy ns tn un, simple_fieldsTy ns tn al]
theorem simple_fieldsTy (ns : String) (parent : Name) : ∀ fs : List OpTypes.SField, simpleFields (fieldsTy ns parent fs) = true
  | [] => rfl
  | .empty n :: fs => by simp [fieldsTy, fieldTy, simpleFields, TSTy.simple, simple_fieldsTy ns parent fs]
  | .leaf n ty isTn :: fs => by
    have h := simple_tsOfType (outLeaf ns) (simple_outLeaf ns) ty
    cases isTn <;> simp [fieldsTy, fieldTy, simpleFields, TSTy.simple, simple_fieldsTy ns parent fs, h]
  | .object n sel :: fs => by
    simp [fieldsTy, fieldTy, simpleFields, simple_treeTy ns sel false, simple_fieldsTy ns parent fs]
end

theorem simple_varField (ns : String) (oi : Bool) (d : VarDef) (r : List TSField) (h : simpleFields r = true) :
    simpleFields (varField ns oi d :: r) = true := by
  have ht := simple_tsOfType (inLeaf ns) (simple_inLeaf ns) d.ty
  simp only [varField]
  split <;> simp [simpleFields, tsUnion, TSTy.simple, simpleList, ht, h]

theorem simple_varsTy (ns : String) (oi : Bool) (vars : List VarDef) : (varsTy ns oi vars).simple = true := by
  simp only [varsTy, TSTy.simple]
  induction vars with
  | nil => rfl
  | cons d r ih => simpa using simple_varField ns oi d _ ih

end NitroVerif.PrintMap
