/-
C15: the document views of the two routes of a type-system document `M` (`sdlView`, `jsonView`) and the facts that
instantiate `agreeRoots_of_equiv` for them.
-/
import NitroVerif.Lemmas.RoutesViews
namespace NitroVerif.Bridge
open NitroVerif NitroVerif.Gql NitroVerif.SchemaIR NitroVerif.AstSchema NitroVerif.CheckCommon NitroVerif.CheckOp
open NitroVerif.IntrospectSpec NitroVerif.Routes NitroVerif.CliSchema

/-- what the checker / printer models read on the SDL route: the resolved document followed by the built-ins -/
def sdlView (M : TsDoc) : Gql.Schema := ⟨M ++ builtins⟩

/-- what they read on the JSON route: the document view of the schema value read from the introspection result of `M`
    (+ the five built-in scalars) -/
def jsonView (M : TsDoc) : Gql.Schema := ofIR (jsonSide M)

theorem sees_sdl (M : TsDoc) (hp : ParsedSchemaDefs M) : Sees (sdlView M) (routeSdl M) := by
  apply sees_doc
  intro d hd
  rw [schemaDefs_append, schemaDefs_builtins, List.append_nil] at hd
  exact hp d hd

theorem cleanType_idem (t : ITypeDef) : cleanType (cleanType t) = cleanType t := by
  cases t with | mk kind name desc fields interfaces possible members inputs =>
  cases kind <;> rfl

theorem builtinScalarDefs_clean : ∀ t ∈ builtinScalarDefs, cleanType t = t := by decide

theorem jsonSide_clean (M : TsDoc) : ∀ t ∈ (jsonSide M).types, cleanType t = t := by
  intro t ht
  rw [jsonSide_types] at ht
  rcases mem_extendTypes _ _ t ht with h | h
  · rcases mem_extendTypes _ _ t h with h | h
    · cases h
    · rcases List.mem_append.mp h with h | h
      · exact userTypes_clean M t h
      · simp only [specExtra, List.mem_append, List.mem_map] at h
        rcases h with ⟨u, _, rfl⟩ | ⟨u, _, rfl⟩ <;> exact cleanType_idem u
  · exact builtinScalarDefs_clean t h

theorem sees_json (M : TsDoc) : Sees (jsonView M) (jsonSide M) := sees_ofIR _ (jsonSide_clean M)

theorem namesNodup_sdl (M : TsDoc) : NamesNodup (routeSdl M) := by
  unfold NamesNodup
  rw [routeSdl_types]
  exact extendTypes_nodup _ _ (by simp)

theorem namesNodup_json (M : TsDoc) : NamesNodup (jsonSide M) := by
  unfold NamesNodup
  rw [jsonSide_types]
  exact extendTypes_nodup _ _ (extendTypes_nodup _ _ (by simp))

/-! ### root names -/

/-- the root type names a schema definition of `M` lists are not `__*` names -/
def RootNamesOk (M : TsDoc) : Prop := ∀ d ∈ schemaDefs M, ∀ r ∈ d.roots, isIntrospectionName r.2.1 = false

instance (M : TsDoc) : Decidable (RootNamesOk M) := by unfold RootNamesOk; infer_instance

theorem foldl_root_mem (k : OpKind) : ∀ (l : List (OpKind × Name × Pos)) (init : Option Name) (n : Name),
    l.foldl (fun acc (x : OpKind × Name × Pos) => if x.1 == k then some x.2.1 else acc) init = some n →
      init = some n ∨ ∃ x ∈ l, x.2.1 = n
  | [], init, n, h => Or.inl h
  | x :: r, init, n, h => by
    simp only [List.foldl_cons] at h
    rcases foldl_root_mem k r _ n h with h' | ⟨y, hy, hn⟩
    · split at h'
      · exact Or.inr ⟨x, by simp, by simpa using h'⟩
      · exact Or.inl h'
    · exact Or.inr ⟨y, by simp [hy], hn⟩

theorem conv_surj (k : OpK) : ∃ k', convOpKind k' = k := by
  cases k
  · exact ⟨.query, rfl⟩
  · exact ⟨.mutation, rfl⟩
  · exact ⟨.subscription, rfl⟩

theorem foldRoots_get_ok (ds : List SchemaDef) (h : ∀ d ∈ ds, ∀ r ∈ d.roots, isIntrospectionName r.2.1 = false)
    (k : OpK) (n : String) (hn : (foldRoots {} ds).get k = some n) : isIntrospectionName n = false := by
  obtain ⟨k', rfl⟩ := conv_surj k
  rw [foldRoots_get] at hn
  rcases foldl_root_mem k' _ _ n hn with h' | ⟨x, hx, rfl⟩
  · cases k' <;> simp [convOpKind, Roots.get] at h'
  · obtain ⟨d, hd, hxd⟩ := List.mem_flatMap.mp hx
    exact h d hd x hxd

theorem defaultRootName_ok (k : OpK) : isIntrospectionName (SchemaIR.Schema.defaultRootName k) = false := by
  cases k <;> decide

theorem rootsOk_sdl (M : TsDoc) (h : RootNamesOk M) : RootsOk (routeSdl M) := by
  intro k n hn
  unfold SchemaIR.Schema.rootName at hn
  split at hn
  · rw [(routeSdl_roots M).1] at hn
    exact foldRoots_get_ok _ h k n hn
  · have : n = SchemaIR.Schema.defaultRootName k := by simpa using hn.symm
    rw [this]; exact defaultRootName_ok k

theorem specRoots_eq_fold (M : TsDoc) (d : SchemaDef) (rest : List SchemaDef) (hs : schemaDefs M = d :: rest) :
    specRoots M = foldRoots {} [d] := by
  simp [specRoots, hs, foldRoots]

theorem rootsOk_json (M : TsDoc) (h : RootNamesOk M) : RootsOk (jsonSide M) := by
  intro k n hn
  unfold SchemaIR.Schema.rootName at hn
  split at hn
  · rw [(jsonSide_roots M).1] at hn
    cases hs : schemaDefs M with
    | nil =>
      rw [specRoots_default_get M hs] at hn
      simp only [defaultRoot] at hn
      split at hn
      · have : n = SchemaIR.Schema.defaultRootName k := by simpa using hn.symm
        rw [this]; exact defaultRootName_ok k
      · cases hn
    | cons d rest =>
      rw [specRoots_eq_fold M d rest hs] at hn
      refine foldRoots_get_ok [d] ?_ k n hn
      intro d' hd'
      have : d' = d := by simpa using hd'
      subst this
      exact h d' (by simp [hs])
  · have : n = SchemaIR.Schema.defaultRootName k := by simpa using hn.symm
    rw [this]; exact defaultRootName_ok k

/-- what the concrete theorems need of `M` beyond `ValidResolved` (all decidable): the schema definition is a parsed
    one, root type names are not `__*` names, and every type a definition refers to is defined (part of "`M` passed
    `check`") -/
structure ValidParsed (M : TsDoc) : Prop where
  resolved : ValidResolved M
  parsed : ∀ d ∈ schemaDefs M, d.pos.builtin = false
  rootNames : RootNamesOk M
  closed : closedB (sdlView M) = true

/-- the lookups of the operation checker model agree on the two routes -/
theorem agreeRoots_routes (M : TsDoc) (h : ValidParsed M) : AgreeRoots (sdlView M) (jsonView M) :=
  agreeRoots_of_equiv (sees_sdl M h.parsed) (sees_json M) (routes_equiv M h.resolved).symm
    (namesNodup_sdl M) (namesNodup_json M) (rootsOk_sdl M h.rootNames) (rootsOk_json M h.rootNames)

end NitroVerif.Bridge
