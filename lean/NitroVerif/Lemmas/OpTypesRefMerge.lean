/-
C01/C02 refinement, model side, part 2: THE MERGE LEMMA.  `merge_selection_trees` (the repaired one: branches paired by
type name AND compatible assignments) maps trees related to the sets of selection sets `A` and `B` to a tree related to
`A ∪ B` — i.e. it denotes the merged selection set.
-/
import NitroVerif.Lemmas.OpTypesRefRel
namespace NitroVerif.OpTypes.Ref
open NitroVerif.Gql NitroVerif.Ts NitroVerif.Exec NitroVerif.OpTypes

/-! ### assignments -/

theorem sigmaOf_eq (a : List (Name × Bool)) (x : Name) :
    sigmaOf a x = match a.find? (·.1 == x) with | some (_, b) => b | none => false := rfl

theorem find_key_mem {a : List (Name × Bool)} {x k : Name} {b : Bool} (h : a.find? (·.1 == x) = some (k, b)) :
    (k, b) ∈ a ∧ k = x := by
  refine ⟨List.mem_of_find?_eq_some h, ?_⟩
  have := List.find?_some h
  simpa using this

theorem find_none_iff {a : List (Name × Bool)} {x : Name} : a.find? (·.1 == x) = none ↔ a.any (·.1 == x) = false := by
  rw [List.find?_eq_none]
  constructor
  · intro h
    cases hany : a.any (·.1 == x) with
    | false => rfl
    | true =>
      obtain ⟨p, hp, hpx⟩ := List.any_eq_true.1 hany
      exact absurd hpx (h p hp)
  · intro h p hp hpx
    have : a.any (·.1 == x) = true := List.any_eq_true.2 ⟨p, hp, hpx⟩
    rw [h] at this; cases this

theorem sigmaOf_append_left {l r : List (Name × Bool)} {x : Name} (h : l.any (·.1 == x) = true) :
    sigmaOf (l ++ r) x = sigmaOf l x := by
  simp only [sigmaOf_eq, List.find?_append]
  cases hf : l.find? (·.1 == x) with
  | none => rw [find_none_iff.1 hf] at h; cases h
  | some p => simp

theorem sigmaOf_append_right {l r : List (Name × Bool)} {x : Name} (h : l.any (·.1 == x) = false) :
    sigmaOf (l ++ r) x = sigmaOf r x := by
  simp only [sigmaOf_eq, List.find?_append, find_none_iff.2 h, Option.none_or]

theorem find_congr {α : Type} {f g : α → Bool} : ∀ {l : List α}, (∀ p ∈ l, f p = g p) → l.find? f = l.find? g
  | [], _ => rfl
  | a :: l, h => by
    simp only [List.find?_cons, h a (by simp)]
    rw [find_congr (fun p hp => h p (List.mem_cons_of_mem _ hp))]

theorem sigmaOf_filter_key (q : Name → Bool) {r : List (Name × Bool)} {x : Name} (hq : q x = true) :
    sigmaOf (r.filter fun p => q p.1) x = sigmaOf r x := by
  simp only [sigmaOf_eq, List.find?_filter]
  rw [find_congr (g := fun p => p.1 == x)]
  intro p _
  by_cases hp : (p.1 == x) = true
  · have : p.1 = x := by simpa using hp
    simp [this, hq]
  · simp [hp]

/-- the assignments are compatible: no variable of `r` has another value in `l` -/
def Compat (l r : List (Name × Bool)) : Prop :=
  ∀ x ∈ r, ∀ k b, l.find? (·.1 == x.1) = some (k, b) → b = x.2

theorem unify_iff {l r v : List (Name × Bool)} :
    unifyVars l r = some v ↔ Compat l r ∧ v = l ++ r.filter fun x => !l.any (·.1 == x.1) := by
  unfold unifyVars
  constructor
  · intro h
    split at h
    · cases h
    · rename_i hc
      cases h
      refine ⟨?_, rfl⟩
      intro x hx k b hf
      have := fun hne => hc (List.any_eq_true.2 ⟨x, hx, hne⟩)
      simp only [hf] at this
      simpa using this
  · rintro ⟨hc, rfl⟩
    rw [if_neg]
    intro hany
    obtain ⟨x, hx, hFx⟩ := List.any_eq_true.1 hany
    cases hf : l.find? (·.1 == x.1) with
    | none => simp [hf] at hFx
    | some p =>
      obtain ⟨k, b⟩ := p
      simp only [hf] at hFx
      have := hc x hx k b hf
      simp [this] at hFx

theorem agree_unify {σ : Sigma} {l r v : List (Name × Bool)} (h : unifyVars l r = some v) :
    Agree σ v ↔ Agree σ l ∧ Agree σ r := by
  obtain ⟨hc, rfl⟩ := unify_iff.1 h
  constructor
  · intro hv
    refine ⟨fun p hp => hv p (List.mem_append.2 (Or.inl hp)), fun p hp => ?_⟩
    cases hf : l.find? (·.1 == p.1) with
    | none =>
      refine hv p (List.mem_append.2 (Or.inr (List.mem_filter.2 ⟨hp, ?_⟩)))
      simp [find_none_iff.1 hf]
    | some q =>
      obtain ⟨k, b⟩ := q
      obtain ⟨hm, hk⟩ := find_key_mem hf
      have := hv (k, b) (List.mem_append.2 (Or.inl hm))
      simp only at this
      rw [← hk, this, hc p hp k b hf]
  · rintro ⟨hl, hr⟩ p hp
    rcases List.mem_append.1 hp with hp | hp
    · exact hl p hp
    · exact hr p (List.mem_filter.1 hp).1

theorem unify_of_agree {σ : Sigma} {l r : List (Name × Bool)} (hl : Agree σ l) (hr : Agree σ r) :
    ∃ v, unifyVars l r = some v := by
  refine ⟨_, unify_iff.2 ⟨?_, rfl⟩⟩
  intro x hx k b hf
  obtain ⟨hm, hk⟩ := find_key_mem hf
  have h1 := hl (k, b) hm
  have h2 := hr x hx
  simp only at h1
  rw [← h1, hk, h2]

theorem consistent_unify {l r v : List (Name × Bool)} (hl : Agree (sigmaOf l) l) (hr : Agree (sigmaOf r) r)
    (h : unifyVars l r = some v) : Agree (sigmaOf v) v := by
  rw [agree_unify h]
  obtain ⟨hc, rfl⟩ := unify_iff.1 h
  constructor
  · intro p hp
    rw [sigmaOf_append_left (List.any_eq_true.2 ⟨p, hp, by simp⟩)]
    exact hl p hp
  · intro p hp
    cases hany : l.any (·.1 == p.1) with
    | true =>
      rw [sigmaOf_append_left hany]
      cases hf : l.find? (·.1 == p.1) with
      | none => rw [find_none_iff.1 hf] at hany; cases hany
      | some q =>
        obtain ⟨k, b⟩ := q
        rw [sigmaOf_eq, hf]
        exact hc p hp k b hf
    | false =>
      rw [sigmaOf_append_right hany, sigmaOf_filter_key (fun k => !l.any (·.1 == k)) (by simp [hany])]
      exact hr p hp

/-! ### union of sets of selection sets -/

def SUnion (A B : SSet) : SSet := fun s => A s ∨ B s

theorem pu_union {c : Ctx} {A B : SSet} {o : Name} {inc : Inc} {t : FT} :
    PU c (SUnion A B) o inc t ↔ PU c A o inc t ∨ PU c B o inc t := by
  simp only [PU, SUnion]
  constructor
  · rintro ⟨s, (h | h), hin⟩
    · exact Or.inl ⟨s, h, hin⟩
    · exact Or.inr ⟨s, h, hin⟩
  · rintro (⟨s, h, hin⟩ | ⟨s, h, hin⟩)
    · exact ⟨s, Or.inl h, hin⟩
    · exact ⟨s, Or.inr h, hin⟩

theorem pEquiv_of_iff {c : Ctx} {Sb Sb' : SSet} (h : ∀ s, Sb s ↔ Sb' s) : PEquiv c Sb Sb' := by
  intro o inc t
  simp only [PU]
  constructor
  · rintro ⟨s, hs, hin⟩; exact ⟨s, (h s).1 hs, hin⟩
  · rintro ⟨s, hs, hin⟩; exact ⟨s, (h s).2 hs, hin⟩

/-! ### the shape of `mergeBranchesWith` -/

/-- one merged branch -/
def MergedOf (mt : SelTree → SelTree → Except Panic SelTree) (lb rb b : Branch) : Prop :=
  ∃ v U A, unifyVars lb.vars rb.vars = some v ∧ deepMergeWith mt (lb.unaliased ++ rb.unaliased) = .ok U ∧
    deepMergeWith mt (lb.aliased ++ rb.aliased) = .ok A ∧ b = .mk lb.typeName v U A

theorem mergeBranches_char {mt : SelTree → SelTree → Except Panic SelTree} {l r bs : List Branch}
    (h : mergeBranchesWith mt l r = .ok bs) :
    (∀ b ∈ bs, (∃ lb ∈ l, ∃ rb ∈ r, rb.typeName = lb.typeName ∧ MergedOf mt lb rb b) ∨
      (b ∈ l ∧ ∀ rb ∈ r, rb.typeName ≠ b.typeName) ∨ (b ∈ r ∧ ∀ lb ∈ l, lb.typeName ≠ b.typeName)) ∧
    (∀ lb ∈ l, ∀ rb ∈ r, rb.typeName = lb.typeName → ∀ v, unifyVars lb.vars rb.vars = some v →
      ∃ b ∈ bs, MergedOf mt lb rb b) := by
  simp only [mergeBranchesWith, bind, Except.bind] at h
  split at h
  · cases h
  · rename_i merged hm
    cases h
    have hall := mapM_all2 _ _ hm
    constructor
    · intro b hb
      rcases List.mem_append.1 hb with hb | hb
      · obtain ⟨bl, hbl, hbb⟩ := List.mem_flatten.1 hb
        obtain ⟨lb, hlb, hg⟩ := hall.right bl hbl
        split at hg
        · rename_i hempty
          cases hg
          simp only [List.mem_singleton] at hbb; subst hbb
          refine Or.inr (Or.inl ⟨hlb, fun rb hrb heq => ?_⟩)
          have : rb ∈ r.filter (·.typeName == b.typeName) := List.mem_filter.2 ⟨hrb, by simpa using heq⟩
          rw [List.isEmpty_iff.1 hempty] at this; cases this
        · obtain ⟨rs, hrs, rfl⟩ := filterMapM_all2 _ _ hg
          obtain ⟨ob, hob, hbo⟩ := List.mem_filterMap.1 hbb
          simp only [id] at hbo; subst hbo
          obtain ⟨rb, hrb, hh⟩ := hrs.right _ hob
          obtain ⟨hrbr, hty⟩ := List.mem_filter.1 hrb
          refine Or.inl ⟨lb, hlb, rb, hrbr, by simpa using hty, ?_⟩
          split at hh
          · cases hh
          · rename_i v hv
            cases hU : deepMergeWith mt (lb.unaliased ++ rb.unaliased) with
            | error e => simp [hU] at hh
            | ok U =>
              cases hA : deepMergeWith mt (lb.aliased ++ rb.aliased) with
              | error e => simp [hU, hA] at hh
              | ok A =>
                simp only [hU, hA] at hh
                cases hh
                exact ⟨v, U, A, hv, hU, hA, rfl⟩
      · obtain ⟨hbr, hnl⟩ := List.mem_filter.1 hb
        refine Or.inr (Or.inr ⟨hbr, fun lb hlb heq => ?_⟩)
        have : l.any (·.typeName == b.typeName) = true := List.any_eq_true.2 ⟨lb, hlb, by simpa using heq⟩
        simp [this] at hnl
    · intro lb hlb rb hrb hty v hv
      obtain ⟨bl, hbl, hg⟩ := hall.left lb hlb
      have hmem : rb ∈ r.filter (·.typeName == lb.typeName) := List.mem_filter.2 ⟨hrb, by simpa using hty⟩
      split at hg
      · rename_i hempty
        rw [List.isEmpty_iff.1 hempty] at hmem; cases hmem
      · obtain ⟨rs, hrs, rfl⟩ := filterMapM_all2 _ _ hg
        obtain ⟨ob, hob, hh⟩ := hrs.left rb hmem
        simp only [hv] at hh
        cases hU : deepMergeWith mt (lb.unaliased ++ rb.unaliased) with
        | error e => simp [hU] at hh
        | ok U =>
          cases hA : deepMergeWith mt (lb.aliased ++ rb.aliased) with
          | error e => simp [hU, hA] at hh
          | ok A =>
            simp only [hU, hA] at hh
            cases hh
            refine ⟨.mk lb.typeName v U A, ?_, v, U, A, hv, hU, hA, rfl⟩
            exact List.mem_append.2 (Or.inl (List.mem_flatten.2 ⟨_, hbl, List.mem_filterMap.2 ⟨_, hob, rfl⟩⟩))

/-! ### fields -/

theorem relField_origin {c : Ctx} {tn : Name} {σ : Sigma} {Sb : SSet} {tag : Bool} {f : SField}
    (h : RelField c tn σ Sb tag f) : ∃ t, PU c Sb tn allInc t ∧ t.key = f.name ∧ t.aliased = tag := by
  cases f with
  | empty k => simp only [RelField] at h; exact h.1
  | leaf k ty b =>
    simp only [RelField] at h
    obtain ⟨t, ht, hk, ha, _⟩ := h
    exact ⟨t, pu_all ht, hk, ha⟩
  | object k T =>
    simp only [RelField] at h
    obtain ⟨t, fd, ht, hk, ha, _⟩ := h
    exact ⟨t, pu_all ht, hk, ha⟩

theorem filter_name_nodup : ∀ {l : List SField}, (l.map SField.name).Nodup → ∀ k,
    (l.filter (·.name == k) = [] ∧ ∀ f ∈ l, f.name ≠ k) ∨ ∃ f, l.filter (·.name == k) = [f] ∧ f ∈ l ∧ f.name = k
  | [], _, k => Or.inl ⟨rfl, fun _ h => by cases h⟩
  | a :: l, hn, k => by
    simp only [List.map_cons, List.nodup_cons] at hn
    by_cases ha : (a.name == k) = true
    · have hak : a.name = k := by simpa using ha
      refine Or.inr ⟨a, ?_, by simp, hak⟩
      rcases filter_name_nodup hn.2 k with ⟨h1, _⟩ | ⟨f, _, hf, hfk⟩
      · simp [List.filter_cons, ha, h1]
      · exact absurd (by rw [hak, ← hfk]; exact List.mem_map_of_mem hf) hn.1
    · have ha' : (a.name == k) = false := by simpa using ha
      rcases filter_name_nodup hn.2 k with ⟨h1, h2⟩ | ⟨f, h1, hf, hfk⟩
      · refine Or.inl ⟨by simp [List.filter_cons, ha', h1], fun f hf => ?_⟩
        rcases List.mem_cons.1 hf with rfl | hf
        · simpa using ha
        · exact h2 f hf
      · exact Or.inr ⟨f, by simp [List.filter_cons, ha', h1], List.mem_cons_of_mem _ hf, hfk⟩

theorem mergeAll_isEmpty {mt : SelTree → SelTree → Except Panic SelTree} : ∀ (rest : List SField) (g m : SField),
    mergeAll mt g rest = .ok m → m.isEmpty = (g.isEmpty && rest.all (·.isEmpty))
  | [], g, m, h => by simp only [mergeAll] at h; cases h; simp
  | f :: rest, g, m, h => by
    simp only [mergeAll] at h
    cases hx : mergeFieldsWith mt g f with
    | error e => simp [hx] at h
    | ok y =>
      simp only [hx] at h
      rw [mergeAll_isEmpty rest y m h, mergeFields_isEmpty hx]
      simp [Bool.and_assoc]

/-- what the merge of two trees has to satisfy -/
def MergeSpec (c : Ctx) (mt : SelTree → SelTree → Except Panic SelTree) : Prop :=
  ∀ T1 T2 T ty A B, mt T1 T2 = .ok T → RelTree c T1 ty A → RelTree c T2 ty B →
    (∀ d, Coh c d (SUnion A B) ty.unwrapped) → RelTree c T ty (SUnion A B)

section
variable {c : Ctx} {tn : Name} {σ : Sigma} {tag : Bool}

/-- a related field stays related when the set grows by selection sets that collect nothing under its key -/
theorem relField_extend {A C : SSet} {f : SField} (h : RelField c tn σ A tag f)
    (hmono : ∀ o inc t, PU c A o inc t → PU c C o inc t)
    (hback : ∀ t, PU c C tn (included σ) t → t.key = f.name → PU c A tn (included σ) t) :
    RelField c tn σ C tag f := by
  cases f with
  | empty k =>
    simp only [RelField] at h ⊢
    obtain ⟨⟨t0, h0, h1⟩, h2⟩ := h
    exact ⟨⟨t0, hmono _ _ _ h0, h1⟩, fun t ht hk => h2 t (hback t ht hk) hk⟩
  | leaf k ty b =>
    simp only [RelField] at h ⊢
    obtain ⟨t, ht, hr⟩ := h
    exact ⟨t, hmono _ _ _ ht, hr⟩
  | object k T =>
    simp only [RelField] at h ⊢
    obtain ⟨t, fd, ht, h1, h2, h3, h4, h5, h6⟩ := h
    refine ⟨t, fd, hmono _ _ _ ht, h1, h2, h3, h4, h5, relTree_congr T fd.ty _ _ (pEquiv_of_iff ?_) h6⟩
    intro s
    simp only [SubSet]
    constructor
    · rintro ⟨t', ht', hk', hs'⟩; exact ⟨t', hmono _ _ _ ht', hk', hs'⟩
    · rintro ⟨t', ht', hk', hs'⟩; exact ⟨t', hback t' ht' hk', hk', hs'⟩

theorem relField_merge {mt : SelTree → SelTree → Except Panic SelTree} (HM : MergeSpec c mt) {A B : SSet}
    {f1 f2 m : SField} (h1 : RelField c tn σ A tag f1) (h2 : RelField c tn σ B tag f2) (hname : f1.name = f2.name)
    (hm : mergeFieldsWith mt f1 f2 = .ok m) (hcoh : CohAt c (SUnion A B) tn)
    (hnest : ∀ t fd, PU c (SUnion A B) tn allInc t → c.S.field? tn t.name = some fd →
      ∀ d, Coh c d (SubSet c (SUnion A B) tn allInc t.key) fd.ty.unwrapped) :
    RelField c tn σ (SUnion A B) tag m := by
  have monoA : ∀ o inc t, PU c A o inc t → PU c (SUnion A B) o inc t := fun _ _ _ h => pu_union.2 (Or.inl h)
  have monoB : ∀ o inc t, PU c B o inc t → PU c (SUnion A B) o inc t := fun _ _ _ h => pu_union.2 (Or.inr h)
  rcases mergeFields_cases hm with ⟨rfl, he⟩ | ⟨rfl, he⟩ | ⟨n, t, b, n', t', b', rfl, rfl, rfl⟩ |
    ⟨n, l, n', r', T, rfl, rfl, hmt, rfl⟩
  · refine relField_extend h1 monoA ?_
    intro t ht hk
    rcases pu_union.1 ht with h | h
    · exact h
    · cases f2 with
      | empty k2 =>
        simp only [RelField] at h2
        exact absurd (by rw [hk, hname]; rfl) (h2.2 t h)
      | _ => simp [SField.isEmpty] at he
  · refine relField_extend h2 monoB ?_
    intro t ht hk
    rcases pu_union.1 ht with h | h
    · cases f1 with
      | empty k1 =>
        simp only [RelField] at h1
        exact absurd (by rw [hk, ← hname]; rfl) (h1.2 t h)
      | _ => simp [SField.isEmpty] at he
    · exact h
  · simp only [RelField] at h1 ⊢
    obtain ⟨t0, ht0, hr⟩ := h1
    exact ⟨t0, monoA _ _ _ ht0, hr⟩
  · simp only [RelField] at h1 h2 ⊢
    simp only [SField.name] at hname
    obtain ⟨t1, fd1, ht1, hk1, ha1, hs1, hn1, hf1, hr1⟩ := h1
    obtain ⟨t2, fd2, ht2, hk2, ha2, hs2, hn2, hf2, hr2⟩ := h2
    have hsame := (cohAt_full hcoh t1 t2 (monoA _ _ _ (pu_all ht1)) (monoB _ _ _ (pu_all ht2)) (by rw [hk1, hk2, hname])).2.1
    rw [← hsame, hf1] at hf2; cases hf2
    refine ⟨t1, fd1, monoA _ _ _ ht1, hk1, ha1, hs1, hn1, hf1, ?_⟩
    have hT := HM l r' T fd1.ty _ _ hmt hr1 hr2 (by
      intro d
      have := hnest t1 fd1 (monoA _ _ _ (pu_all ht1)) hf1 d
      refine coh_subset d _ _ _ ?_ this
      rintro s (⟨t', ht', hk', hs'⟩ | ⟨t', ht', hk', hs'⟩)
      · exact ⟨t', monoA _ _ _ (pu_all ht'), by rw [hk', hk1], hs'⟩
      · exact ⟨t', monoB _ _ _ (pu_all ht'), by rw [hk', hk1, hname], hs'⟩)
    refine relTree_congr T fd1.ty _ _ (pEquiv_of_iff ?_) hT
    intro s
    simp only [SUnion, SubSet]
    constructor
    · rintro (⟨t', ht', hk', hs'⟩ | ⟨t', ht', hk', hs'⟩)
      · exact ⟨t', monoA _ _ _ ht', hk', hs'⟩
      · exact ⟨t', monoB _ _ _ ht', by rw [hk', hname], hs'⟩
    · rintro ⟨t', ht', hk', hs'⟩
      rcases pu_union.1 ht' with h | h
      · exact Or.inl ⟨t', h, hk', hs'⟩
      · exact Or.inr ⟨t', h, by rw [hk', hname], hs'⟩

/-- the deep merge of two related field lists (of one alias class) is related to the union -/
theorem mergedFields_rel {mt : SelTree → SelTree → Except Panic SelTree} (HM : MergeSpec c mt) {A B : SSet}
    {lf rf M : List SField} (hl : RelFields c tn σ A tag lf) (hr : RelFields c tn σ B tag rf)
    (hnl : (lf.map SField.name).Nodup) (hnr : (rf.map SField.name).Nodup)
    (hM : Repr mt M (lf ++ rf))
    (covA : ∀ t, PU c A tn (included σ) t → t.aliased = tag → ∃ f ∈ lf, f.name = t.key ∧ f.isEmpty = false)
    (covB : ∀ t, PU c B tn (included σ) t → t.aliased = tag → ∃ f ∈ rf, f.name = t.key ∧ f.isEmpty = false)
    (hcoh : CohAt c (SUnion A B) tn)
    (hnest : ∀ t fd, PU c (SUnion A B) tn allInc t → c.S.field? tn t.name = some fd →
      ∀ d, Coh c d (SubSet c (SUnion A B) tn allInc t.key) fd.ty.unwrapped) :
    RelFields c tn σ (SUnion A B) tag M ∧
    ∀ t, PU c (SUnion A B) tn (included σ) t → t.aliased = tag → ∃ m ∈ M, m.name = t.key ∧ m.isEmpty = false := by
  have monoA : ∀ o inc t, PU c A o inc t → PU c (SUnion A B) o inc t := fun _ _ _ h => pu_union.2 (Or.inl h)
  have monoB : ∀ o inc t, PU c B o inc t → PU c (SUnion A B) o inc t := fun _ _ _ h => pu_union.2 (Or.inr h)
  obtain ⟨_, hrep, hcov⟩ := hM
  -- nothing is collected on a side that has no field of the name
  have noB : ∀ f1 ∈ lf, (∀ f ∈ rf, f.name ≠ f1.name) → ∀ t, PU c B tn (included σ) t → t.key ≠ f1.name := by
    intro f1 hf1 hno t ht hk
    obtain ⟨t0, h0, hk0, ha0⟩ := relField_origin (relFields_mem hl f1 hf1)
    have := (cohAt_full hcoh t t0 (monoB _ _ _ (pu_all ht)) (monoA _ _ _ h0) (by rw [hk, hk0])).1
    obtain ⟨f, hf, hfn, _⟩ := covB t ht (by rw [this, ha0])
    exact hno f hf (by rw [hfn, hk])
  have noA : ∀ f2 ∈ rf, (∀ f ∈ lf, f.name ≠ f2.name) → ∀ t, PU c A tn (included σ) t → t.key ≠ f2.name := by
    intro f2 hf2 hno t ht hk
    obtain ⟨t0, h0, hk0, ha0⟩ := relField_origin (relFields_mem hr f2 hf2)
    have := (cohAt_full hcoh t t0 (monoA _ _ _ (pu_all ht)) (monoB _ _ _ h0) (by rw [hk, hk0])).1
    obtain ⟨f, hf, hfn, _⟩ := covA t ht (by rw [this, ha0])
    exact hno f hf (by rw [hfn, hk])
  constructor
  · apply relFields_of_mem
    intro m hm
    obtain ⟨f0, rest, hfil, hma⟩ := hrep m hm
    rw [List.filter_append] at hfil
    rcases filter_name_nodup hnl m.name with ⟨hl0, hlno⟩ | ⟨f1, hl1, hf1, hf1n⟩ <;>
      rcases filter_name_nodup hnr m.name with ⟨hr0, hrno⟩ | ⟨f2, hr1, hf2, hf2n⟩
    · rw [hl0, hr0] at hfil; cases hfil
    · rw [hl0, hr1] at hfil
      simp only [List.nil_append, List.cons.injEq] at hfil
      obtain ⟨rfl, rfl⟩ := hfil
      simp only [mergeAll] at hma; cases hma
      refine relField_extend (relFields_mem hr _ hf2) monoB ?_
      intro t ht hk
      rcases pu_union.1 ht with h | h
      · exact absurd hk (noA _ hf2 (fun f hf => hlno f hf) t h)
      · exact h
    · rw [hl1, hr0] at hfil
      simp only [List.append_nil, List.cons.injEq] at hfil
      obtain ⟨rfl, rfl⟩ := hfil
      simp only [mergeAll] at hma; cases hma
      refine relField_extend (relFields_mem hl _ hf1) monoA ?_
      intro t ht hk
      rcases pu_union.1 ht with h | h
      · exact h
      · exact absurd hk (noB _ hf1 (fun f hf => hrno f hf) t h)
    · rw [hl1, hr1] at hfil
      simp only [List.cons_append, List.nil_append, List.cons.injEq] at hfil
      obtain ⟨rfl, rfl⟩ := hfil
      simp only [mergeAll] at hma
      cases hx : mergeFieldsWith mt f1 f2 with
      | error e => simp [hx] at hma
      | ok y =>
        simp only [hx] at hma; cases hma
        exact relField_merge HM (relFields_mem hl _ hf1) (relFields_mem hr _ hf2) (by rw [hf1n, hf2n]) hx hcoh hnest
  · intro t ht hta
    have fin : ∀ f ∈ lf ++ rf, f.name = t.key → f.isEmpty = false → ∃ m ∈ M, m.name = t.key ∧ m.isEmpty = false := by
      intro f hf hfn hfe
      obtain ⟨m, hm, hmn⟩ := hcov f hf
      refine ⟨m, hm, by rw [hmn, hfn], ?_⟩
      obtain ⟨f0, rest, hfil, hma⟩ := hrep m hm
      rw [mergeAll_isEmpty rest f0 m hma]
      have hmem : f ∈ f0 :: rest := by
        rw [← hfil]; exact List.mem_filter.2 ⟨hf, by simp [hmn]⟩
      rcases List.mem_cons.1 hmem with rfl | hmem
      · simp [hfe]
      · have : rest.all (·.isEmpty) = false := by
          rw [List.all_eq_false]; exact ⟨f, hmem, by simp [hfe]⟩
        simp [this]
    rcases pu_union.1 ht with h | h
    · obtain ⟨f, hf, hfn, hfe⟩ := covA t h hta
      exact fin f (List.mem_append.2 (Or.inl hf)) hfn hfe
    · obtain ⟨f, hf, hfn, hfe⟩ := covB t h hta
      exact fin f (List.mem_append.2 (Or.inr hf)) hfn hfe

end

/-! ### branches and trees -/

theorem relBranch_poss {c : Ctx} {b : Branch} {n : Name} {Sb : SSet} (h : RelBranch c b n Sb) :
    b.typeName ∈ c.S.possibleTypes n := by
  cases b; simp only [RelBranch] at h; exact h.1

theorem mergedBranch_rel {c : Ctx} {mt : SelTree → SelTree → Except Panic SelTree} (HM : MergeSpec c mt)
    {lb rb b : Branch} {n : Name} {A B : SSet} (hl : RelBranch c lb n A) (hr : RelBranch c rb n B)
    (hty : rb.typeName = lb.typeName) (hb : MergedOf mt lb rb b) (hC : ∀ d, Coh c d (SUnion A B) n) :
    RelBranch c b n (SUnion A B) := by
  obtain ⟨tn0, lv, lu, la⟩ := lb
  obtain ⟨tn, rv, ru, ra⟩ := rb
  simp only [Branch.typeName] at hty; subst hty
  obtain ⟨v, U, Aa, hv, hU, hA, rfl⟩ := hb
  simp only [Branch.vars, Branch.unaliased, Branch.aliased, Branch.typeName] at hv hU hA ⊢
  simp only [RelBranch] at hl hr ⊢
  obtain ⟨hposs, htd, hselfl, hnlu, hnla, _, hfl⟩ := hl
  obtain ⟨_, _, hselfr, hnru, hnra, _, hfr⟩ := hr
  have hcoh : CohAt c (SUnion A B) tn := by
    have := hC 1; simp only [Coh] at this; exact (this tn hposs).1
  have hnest : ∀ t fd, PU c (SUnion A B) tn allInc t → c.S.field? tn t.name = some fd →
      ∀ d, Coh c d (SubSet c (SUnion A B) tn allInc t.key) fd.ty.unwrapped := by
    intro t fd ht hfd d
    have := hC (d + 1); simp only [Coh] at this; exact (this tn hposs).2 t fd ht hfd
  have monoA : ∀ o inc t, PU c A o inc t → PU c (SUnion A B) o inc t := fun _ _ _ h => pu_union.2 (Or.inl h)
  have monoB : ∀ o inc t, PU c B o inc t → PU c (SUnion A B) o inc t := fun _ _ _ h => pu_union.2 (Or.inr h)
  have hRU := deepMerge_repr hU
  have hRA := deepMerge_repr hA
  have hself := consistent_unify hselfl hselfr hv
  refine ⟨hposs, htd, hself, hRU.1, hRA.1, ?_, ?_⟩
  · -- aliased and unaliased names are disjoint
    obtain ⟨hagl, hagr⟩ := (agree_unify hv).1 hself
    obtain ⟨hul, hal, _⟩ := hfl _ hagl
    obtain ⟨hur, har, _⟩ := hfr _ hagr
    intro f hf g hg hname
    have origin : ∀ (tag : Bool) (lf rf M : List SField), RelFields c tn (sigmaOf v) A tag lf →
        RelFields c tn (sigmaOf v) B tag rf → Repr mt M (lf ++ rf) → ∀ m ∈ M,
        ∃ t, PU c (SUnion A B) tn allInc t ∧ t.key = m.name ∧ t.aliased = tag := by
      intro tag lf rf M h1 h2 hrep m hm
      obtain ⟨f0, rest, hfil, _⟩ := hrep.2.1 m hm
      have hmem : f0 ∈ (lf ++ rf).filter (·.name == m.name) := by rw [hfil]; simp
      obtain ⟨hmem, hn0⟩ := List.mem_filter.1 hmem
      have hn0 : f0.name = m.name := by simpa using hn0
      rcases List.mem_append.1 hmem with h | h
      · obtain ⟨t, ht, hk, ha⟩ := relField_origin (relFields_mem h1 f0 h)
        exact ⟨t, monoA _ _ _ ht, by rw [hk, hn0], ha⟩
      · obtain ⟨t, ht, hk, ha⟩ := relField_origin (relFields_mem h2 f0 h)
        exact ⟨t, monoB _ _ _ ht, by rw [hk, hn0], ha⟩
    obtain ⟨ta, hta, hka, haa⟩ := origin true la ra Aa hal har hRA f hf
    obtain ⟨tu, htu, hku, hau⟩ := origin false lu ru U hul hur hRU g hg
    have := (cohAt_full hcoh ta tu hta htu (by rw [hka, hku, hname])).1
    rw [haa, hau] at this; cases this
  · intro σ hag
    obtain ⟨hagl, hagr⟩ := (agree_unify hv).1 hag
    obtain ⟨hul, hal, covl⟩ := hfl σ hagl
    obtain ⟨hur, har, covr⟩ := hfr σ hagr
    obtain ⟨hRelU, covU⟩ := mergedFields_rel (tag := false) HM hul hur hnlu hnru hRU
      (fun t ht hta => by have := covl t ht; simpa [hta] using this)
      (fun t ht hta => by have := covr t ht; simpa [hta] using this) hcoh hnest
    obtain ⟨hRelA, covA⟩ := mergedFields_rel (tag := true) HM hal har hnla hnra hRA
      (fun t ht hta => by have := covl t ht; simpa [hta] using this)
      (fun t ht hta => by have := covr t ht; simpa [hta] using this) hcoh hnest
    refine ⟨hRelU, hRelA, fun t ht => ?_⟩
    cases hta : t.aliased with
    | true => simpa using covA t ht hta
    | false => simpa using covU t ht hta

theorem mergeBranches_rel {c : Ctx} {mt : SelTree → SelTree → Except Panic SelTree} (HM : MergeSpec c mt)
    {l r bs : List Branch} {n : Name} {p : Pos} {A B : SSet} (h : mergeBranchesWith mt l r = .ok bs)
    (hl : RelTree c (.object l) (.named n p) A) (hr : RelTree c (.object r) (.named n p) B)
    (hC : ∀ d, Coh c d (SUnion A B) n) : RelTree c (.object bs) (.named n p) (SUnion A B) := by
  simp only [RelTree] at hl hr ⊢
  obtain ⟨hcomp, covl, hbl⟩ := hl
  obtain ⟨_, covr, hbr⟩ := hr
  obtain ⟨hch1, hch2⟩ := mergeBranches_char h
  refine ⟨hcomp, ?_, relBranches_of_mem ?_⟩
  · intro o ho σ
    obtain ⟨lb, hlb, hlo, hagl⟩ := covl o ho σ
    obtain ⟨rb, hrb, hro, hagr⟩ := covr o ho σ
    obtain ⟨v, hv⟩ := unify_of_agree hagl hagr
    obtain ⟨b, hb, v', U, Aa, hv', _, _, rfl⟩ := hch2 lb hlb rb hrb (by rw [hro, hlo]) v hv
    rw [hv] at hv'; cases hv'
    exact ⟨_, hb, hlo, (agree_unify hv).2 ⟨hagl, hagr⟩⟩
  · intro b hb
    rcases hch1 b hb with ⟨lb, hlb, rb, hrb, hty, hm⟩ | ⟨hbl', hno⟩ | ⟨hbr', hno⟩
    · exact mergedBranch_rel HM (relBranches_mem hbl lb hlb) (relBranches_mem hbr rb hrb) hty hm hC
    · have hp := relBranch_poss (relBranches_mem hbl b hbl')
      obtain ⟨rb, hrb, hro, _⟩ := covr _ hp (fun _ => false)
      exact absurd hro (hno rb hrb)
    · have hp := relBranch_poss (relBranches_mem hbr b hbr')
      obtain ⟨lb, hlb, hlo, _⟩ := covl _ hp (fun _ => false)
      exact absurd hlo (hno lb hlb)

/-- **The merge lemma**: `merge_selection_trees` of trees related to `A` and to `B` (at the same type) is related to
    `A ∪ B`, for every fuel with which it succeeds. -/
theorem mergeTrees_rel (c : Ctx) : ∀ (mf : Nat), MergeSpec c (mergeTrees mf)
  | 0 => by
    intro T1 T2 T ty A B h; simp [mergeTrees] at h
  | mf + 1 => by
    intro T1 T2 T ty A B h h1 h2 hC
    cases T1 with
    | nonNull l =>
      cases T2 with
      | nonNull r =>
        simp only [mergeTrees, bind, Except.bind] at h
        cases hm : mergeTrees mf l r with
        | error e => simp [hm] at h
        | ok T' =>
          simp only [hm] at h; cases h
          cases ty <;> simp only [RelTree] at h1 h2 ⊢
          exact mergeTrees_rel c mf l r T' _ A B hm h1 h2 (by simpa [GType.unwrapped] using hC)
      | list r => simp [mergeTrees] at h
      | object r => simp [mergeTrees] at h
    | list l =>
      cases T2 with
      | list r =>
        simp only [mergeTrees, bind, Except.bind] at h
        cases hm : mergeTrees mf l r with
        | error e => simp [hm] at h
        | ok T' =>
          simp only [hm] at h; cases h
          cases ty <;> simp only [RelTree] at h1 h2 ⊢
          exact mergeTrees_rel c mf l r T' _ A B hm h1 h2 (by simpa [GType.unwrapped] using hC)
      | nonNull r => simp [mergeTrees] at h
      | object r => simp [mergeTrees] at h
    | object l =>
      cases T2 with
      | object r =>
        simp only [mergeTrees, bind, Except.bind] at h
        cases hm : mergeBranchesWith (mergeTrees mf) l r with
        | error e => simp [hm] at h
        | ok bs =>
          simp only [hm] at h; cases h
          cases ty with
          | named n p => exact mergeBranches_rel (mergeTrees_rel c mf) hm h1 h2 (by simpa [GType.unwrapped] using hC)
          | list t p => simp only [RelTree] at h1
          | nonNull t => simp only [RelTree] at h1
      | nonNull r => simp [mergeTrees] at h
      | list r => simp [mergeTrees] at h

end NitroVerif.OpTypes.Ref
