/-
Lemmas for `C15_ast_roundtrip`: what `ast_to_type_system ∘ type_system_to_ast` keeps of a schema.
-/
import NitroVerif.Model.AstSchema
import NitroVerif.Lemmas.SchemaIR
namespace NitroVerif.AstSchema
open NitroVerif.Gql NitroVerif.SchemaIR

/-- a type definition whose components outside its kind are emptied (`TypeDefinition` is an enum in the code: the
    components of the other kinds do not exist) -/
def cleanType (t : ITypeDef) : ITypeDef :=
  match t.kind with
  | .scalar => { kind := .scalar, name := t.name, desc := t.desc }
  | .object => { kind := .object, name := t.name, desc := t.desc, fields := t.fields, interfaces := t.interfaces }
  | .interface => { kind := .interface, name := t.name, desc := t.desc, fields := t.fields, interfaces := t.interfaces }
  | .union => { kind := .union, name := t.name, desc := t.desc, possible := t.possible }
  | .enum => { kind := .enum, name := t.name, desc := t.desc, members := t.members }
  | .input => { kind := .input, name := t.name, desc := t.desc, inputs := t.inputs }

/-- well-formedness of a schema value: distinct type names (what `SchemaBuilder::extend` guarantees) and no
    components outside a definition's kind (what the `TypeDefinition` enum guarantees) -/
structure WellFormed (s : Schema) : Prop where
  nodup : (s.types.map (·.name)).Nodup
  clean : ∀ t ∈ s.types, cleanType t = t

theorem convType_unconvType (t : IType) : convType (unconvType t) = t := by
  induction t with
  | named n => rfl
  | list t ih => simp [unconvType, convType, ih]
  | nonNull t ih => simp [unconvType, convType, ih]

theorem eraseIV_roundtrip (v : IInputValue) : eraseIV (convIV (unconvIV v)) = eraseIV v := by
  cases v with | mk name desc ty default deprecation =>
  cases default <;> simp [eraseIV, convIV, unconvIV, convType_unconvType, deprecationOf]

theorem eraseField_roundtrip (f : IField) : eraseField (convField (unconvField f)) = eraseField f := by
  cases f with | mk name desc ty args deprecation =>
  simp [eraseField, convField, unconvField, convType_unconvType, deprecationOf, List.map_map, Function.comp_def,
    eraseIV_roundtrip]

theorem eraseMember_roundtrip (m : IEnumMember) : eraseMember (convMember (unconvMember m)) = eraseMember m := by
  cases m; simp [eraseMember, convMember, unconvMember, deprecationOf]

theorem eraseType_roundtrip (t : ITypeDef) :
    eraseType (convTypeDef (unconvTypeDef t)) = eraseType (cleanType t) := by
  cases t with | mk kind name desc fields interfaces possible members inputs =>
  cases kind <;>
    simp [eraseType, convTypeDef, unconvTypeDef, cleanType, unconvKind, List.map_map, Function.comp_def,
      eraseField_roundtrip, eraseMember_roundtrip, eraseIV_roundtrip]

theorem name_roundtrip (t : ITypeDef) : (convTypeDef (unconvTypeDef t)).name = t.name := by
  cases t with | mk kind name desc fields interfaces possible members inputs =>
  cases kind <;> simp [convTypeDef, unconvTypeDef, unconvKind]

theorem kind_roundtrip (t : ITypeDef) : (convTypeDef (unconvTypeDef t)).kind = t.kind := by
  cases t with | mk kind name desc fields interfaces possible members inputs =>
  cases kind <;> simp [convTypeDef, unconvTypeDef, unconvKind]

theorem interfaces_roundtrip (t : ITypeDef) (h : t.kind = .object) :
    (convTypeDef (unconvTypeDef t)).interfaces = t.interfaces := by
  cases t with | mk kind name desc fields interfaces possible members inputs =>
  simp at h; subst h
  simp [convTypeDef, unconvTypeDef, unconvKind, List.map_map, Function.comp_def]

theorem setRoots_rootEntries (r : Roots) : setRoots {} (rootEntries r) = r := by
  cases r with | mk q m s =>
  cases q <;> cases m <;> cases s <;> simp [rootEntries, setRoots, Roots.set, convOpKind]

theorem extendTypes_singleton (acc : List ITypeDef) (t : ITypeDef) :
    extendTypes acc [t] = if acc.any (·.name == t.name) then acc else acc ++ [t] := by
  simp [extendTypes]

theorem foldl_step_typeDefs (l : List TypeDef) (b : B) :
    (l.map TsItem.typeDef).foldl step b
      = { b with s := { b.s with types := extendTypes b.s.types (l.map convTypeDef) } } := by
  induction l generalizing b with
  | nil => simp [extendTypes]
  | cons t r ih =>
    simp only [List.map_cons, List.foldl_cons, step, ih, extendTypes_singleton]
    simp [extendTypes]

/-- the schema `ast_to_type_system(type_system_to_ast(s))` -/
theorem astToSchema_schemaToAst (s : Schema) :
    astToSchema (schemaToAst s)
      = { desc := s.desc, roots := s.roots, explicitRoots := false, directives := [],
          types := extendTypes [] (s.types.map fun t => convTypeDef (unconvTypeDef t)) } := by
  have hmap : (s.types.map fun t => TsItem.typeDef (unconvTypeDef t))
      = (s.types.map unconvTypeDef).map TsItem.typeDef := by simp [List.map_map, Function.comp_def]
  simp only [astToSchema, schemaToAst, List.foldl_cons, hmap, foldl_step_typeDefs]
  cases hd : s.desc <;> simp [step, bpos, setRoots_rootEntries, List.map_map, Function.comp_def]

end NitroVerif.AstSchema
