/-
C15: the `__nitrogql_schema` metadata object of the schema declaration file on the two routes.  The JSON route always
writes its keys in the order query, mutation, subscription (`type_system_to_ast` emits a schema definition from the three
`Option`s of the schema value); the SDL route writes them in the order of the `schema { … }` definition, or — without one —
in the order in which the object types `Query` / `Mutation` / `Subscription` are defined.  Same keys, same types.
-/
import NitroVerif.Lemmas.RoutesResolversOrder
import NitroVerif.Lemmas.DeterminismConcreteDecls
namespace NitroVerif.Bridge
open NitroVerif NitroVerif.Gql NitroVerif.SchemaIR NitroVerif.AstSchema NitroVerif.SchemaDecls NitroVerif.DeclCfg
open NitroVerif.IntrospectSpec NitroVerif.Routes NitroVerif.CliSchema NitroVerif.Ts

/-! ### a list with distinct keys, enumerated through a list of all keys -/

theorem filterMap_congr_mem {α β : Type} {f g : α → Option β} {l : List α} (h : ∀ x ∈ l, f x = g x) :
    l.filterMap f = l.filterMap g := by
  induction l with
  | nil => rfl
  | cons a r ih =>
    simp only [List.filterMap_cons, h a (by simp), ih fun x hx => h x (by simp [hx])]

theorem filterMap_find_perm {α κ : Type} [DecidableEq κ] (key : α → κ) : ∀ (l : List α) (K : List κ),
    (l.map key).Nodup → K.Nodup → (∀ a ∈ l, key a ∈ K) →
    (K.filterMap fun k => l.find? fun a => decide (key a = k)).Perm l
  | [], K, _, _, _ => by simp
  | x :: r, K, hl, hK, hsub => by
    have hx : key x ∈ K := hsub x (by simp)
    simp only [List.map_cons, List.nodup_cons] at hl
    have hp := (List.perm_cons_erase hx).filterMap fun k => (x :: r).find? fun a => decide (key a = k)
    refine hp.trans ?_
    simp only [List.filterMap_cons, List.find?_cons, decide_true]
    refine List.Perm.cons x ?_
    have hcongr : ((K.erase (key x)).filterMap fun k => (x :: r).find? fun a => decide (key a = k))
        = (K.erase (key x)).filterMap fun k => r.find? fun a => decide (key a = k) := by
      apply filterMap_congr_mem
      intro k hk
      have hne : key x ≠ k := fun e => ((hK.mem_erase_iff).mp hk).1 e.symm
      simp [hne]
    simp only [List.find?_cons] at hcongr
    rw [hcongr]
    refine filterMap_find_perm key r (K.erase (key x)) hl.2 (hK.erase _) ?_
    intro a ha
    refine (hK.mem_erase_iff).mpr ⟨?_, hsub a (by simp [ha])⟩
    intro e
    exact hl.1 (e ▸ List.mem_map.mpr ⟨a, ha, rfl⟩)

/-! ### the JSON route -/

/-- a field of the metadata object -/
def metaField (k : OpKind) (n : Name) : Ts.Field := (k.asStr, false, false, .ref n)

def allKinds : List OpKind := [.query, .mutation, .subscription]

/-- the fields the JSON route writes: query, mutation, subscription — those that are set -/
def jsonMetaFields (r : Roots) : List Ts.Field :=
  allKinds.filterMap fun k => (r.get (convOpKind k)).map (metaField k)

theorem rootEntries_fields (r : Roots) :
    (rootEntries r).map (fun (x : OpKind × Name × Pos) => (x.1.asStr, false, false, Ty.ref x.2.1)) = jsonMetaFields r := by
  cases r with | mk q m s =>
  cases q <;> cases m <;> cases s <;> rfl

theorem schemaMetadata_docJson (M : TsDoc) : schemaMetadata (docJson M) = .obj (jsonMetaFields (specRoots M)) := by
  have h : schemaMetadata (docJson M) =
      .obj ((rootEntries (jsonSide M).roots).map fun (x : OpKind × Name × Pos) => (x.1.asStr, false, false, Ty.ref x.2.1)) := rfl
  rw [h, (jsonSide_roots M).1, rootEntries_fields]

/-! ### the SDL route -/

theorem gql_schemaDefs_docSdl (M : TsDoc) : (Gql.Schema.mk (docSdl M)).schemaDefs = schemaDefs M := by
  have h1 : ∀ d : TsDoc, (Gql.Schema.mk d).schemaDefs = schemaDefs d := fun _ => rfl
  rw [h1, docSdl, schemaDefs_append, schemaDefs_builtins, List.append_nil]

/-- the key a default root type name stands for -/
def rootKey? (n : Name) : Option String :=
  if n == "Query" then some "query" else if n == "Mutation" then some "mutation"
  else if n == "Subscription" then some "subscription" else none

/-- the metadata field of an object type with a default root name -/
def defaultField (td : TypeDef) : Option Ts.Field :=
  if td.kind == .object then (rootKey? td.name).map fun k => (k, false, false, .ref td.name) else none

theorem metaOf_none (tds : List TypeDef) : DeterminismDecls.metaOf none tds = .obj (tds.filterMap defaultField) := by
  unfold DeterminismDecls.metaOf
  simp only
  congr 1
  apply filterMap_congr_mem
  intro td _
  unfold defaultField rootKey?
  by_cases hk : (td.kind == TypeKind.object) = true
  · simp only [hk, if_true]
    by_cases h1 : (td.name == "Query") = true
    · simp [h1]
    · by_cases h2 : (td.name == "Mutation") = true
      · simp [h1, h2]
      · by_cases h3 : (td.name == "Subscription") = true
        · simp [h1, h2, h3]
        · simp [h1, h2, h3]
  · simp [hk]

/-- the SDL route's metadata object: the entries of the schema definition as written, or the default-named object types
    in the order of their definitions -/
theorem schemaMetadata_docSdl (M : TsDoc) :
    schemaMetadata (docSdl M) =
      match (schemaDefs M).head? with
      | some d => .obj (d.roots.map fun (x : OpKind × Name × Pos) => metaField x.1 x.2.1)
      | none => .obj ((typeDefsOf M).filterMap defaultField) := by
  rw [DeterminismDecls.schemaMetadata_eq, gql_schemaDefs_docSdl]
  cases (schemaDefs M).head? with
  | some d => rfl
  | none =>
    rw [metaOf_none, typeDefsOf_docSdl_closed, List.filterMap_append]
    have : (builtinScalarNames.map scalarDefS).filterMap defaultField = [] := rfl
    rw [this, List.append_nil]

/-! ### with a schema definition -/

theorem foldl_no_key (k : OpKind) : ∀ (l : List (OpKind × Name × Pos)) (init : Option Name),
    (∀ x ∈ l, x.1 ≠ k) →
    l.foldl (fun acc (x : OpKind × Name × Pos) => if x.1 == k then some x.2.1 else acc) init = init
  | [], _, _ => rfl
  | x :: r, init, h => by
    have hx : (x.1 == k) = false := by rw [opKind_beq]; simpa using h x (by simp)
    simp only [List.foldl_cons, hx, Bool.false_eq_true, if_false]
    exact foldl_no_key k r init fun y hy => h y (by simp [hy])

theorem foldl_find (k : OpKind) : ∀ (l : List (OpKind × Name × Pos)), (l.map (·.1)).Nodup →
    l.foldl (fun acc (x : OpKind × Name × Pos) => if x.1 == k then some x.2.1 else acc) none
      = (l.find? fun x => decide (x.1 = k)).map (·.2.1)
  | [], _ => rfl
  | x :: r, h => by
    simp only [List.map_cons, List.nodup_cons] at h
    simp only [List.foldl_cons, List.find?_cons]
    by_cases hx : x.1 = k
    · have hb : (x.1 == k) = true := by rw [opKind_beq]; simp [hx]
      have hd : decide (x.1 = k) = true := by simp [hx]
      simp only [hb, hd, if_true, Option.map_some]
      refine foldl_no_key k r _ fun y hy e => h.1 ?_
      rw [hx, ← e]
      exact List.mem_map.mpr ⟨y, hy, rfl⟩
    · have hb : (x.1 == k) = false := by rw [opKind_beq]; simp [hx]
      have hd : decide (x.1 = k) = false := by simp [hx]
      simp only [hb, hd, Bool.false_eq_true, if_false]
      exact foldl_find k r h.2

/-- the root type names a schema definition lists each operation kind at most once -/
def RootKindsDistinct (M : TsDoc) : Prop := ∀ d ∈ schemaDefs M, (d.roots.map (·.1)).Nodup

instance (M : TsDoc) : Decidable (RootKindsDistinct M) := by unfold RootKindsDistinct; infer_instance

theorem mem_allKinds (k : OpKind) : k ∈ allKinds := by cases k <;> simp [allKinds]

theorem jsonMetaFields_setRoots (l : List (OpKind × Name × Pos)) (h : (l.map (·.1)).Nodup) :
    (jsonMetaFields (setRoots {} l)).Perm (l.map fun x => metaField x.1 x.2.1) := by
  have h1 : jsonMetaFields (setRoots {} l)
      = (allKinds.filterMap fun k => l.find? fun x => decide (x.1 = k)).map fun x => metaField x.1 x.2.1 := by
    unfold jsonMetaFields
    rw [List.map_filterMap]
    apply filterMap_congr_mem
    intro k _
    rw [setRoots_get k l {}]
    have h0 : ({} : Roots).get (convOpKind k) = none := by cases k <;> rfl
    rw [h0, foldl_find k l h]
    cases hf : l.find? (fun x => decide (x.1 = k)) with
    | none => rfl
    | some x =>
      have : x.1 = k := by simpa using List.find?_some hf
      simp [this]
  rw [h1]
  exact (filterMap_find_perm (fun x : OpKind × Name × Pos => x.1) l allKinds h (by decide)
    (fun a _ => mem_allKinds a.1)).map _

/-! ### without a schema definition -/

def defaultNames : List Name := ["Query", "Mutation", "Subscription"]

theorem rootKey?_isSome (n : Name) : (rootKey? n).isSome = true ↔ n ∈ defaultNames := by
  unfold rootKey? defaultNames
  by_cases h1 : n = "Query"
  · simp [h1]
  · by_cases h2 : n = "Mutation"
    · simp [h2]
    · by_cases h3 : n = "Subscription"
      · simp [h3]
      · simp [h1, h2, h3]

/-- the JSON route's fields when `M` has no schema definition, over the type definitions of `M` -/
def defaultJsonField (U : List TypeDef) (n : Name) : Option Ts.Field :=
  if U.any (fun t => t.name == n && t.kind == .object) then (rootKey? n).map fun k => (k, false, false, .ref n) else none

theorem defaultRoot_eq (M : TsDoc) (n : Name) :
    defaultRoot (userTypes M) n = if (typeDefsOf M).any (fun t => t.name == n && t.kind == .object) then some n else none := by
  unfold defaultRoot
  rw [userTypes_eq_map, List.any_map]
  have : ((fun t : ITypeDef => t.name == n && t.kind == IKind.object) ∘ convTypeDef)
      = fun t : TypeDef => t.name == n && t.kind == TypeKind.object := by
    funext t
    simp only [Function.comp_def, convTypeDef_name, convTypeDef_kind]
    cases t.kind <;> rfl
  rw [this]

theorem defaultRoot_field (M : TsDoc) (k : OpKind) (n : Name) (hk : rootKey? n = some k.asStr) :
    (defaultRoot (userTypes M) n).map (metaField k) = defaultJsonField (typeDefsOf M) n := by
  rw [defaultRoot_eq]
  unfold defaultJsonField
  rw [hk]
  split <;> rfl

theorem jsonMetaFields_default (M : TsDoc) (h : schemaDefs M = []) :
    jsonMetaFields (specRoots M) = defaultNames.filterMap (defaultJsonField (typeDefsOf M)) := by
  have hr : specRoots M = Roots.mk (defaultRoot (userTypes M) "Query") (defaultRoot (userTypes M) "Mutation")
      (defaultRoot (userTypes M) "Subscription") := by
    simp [specRoots, h]
  rw [hr]
  have e1 := defaultRoot_field M .query "Query" (by decide)
  have e2 := defaultRoot_field M .mutation "Mutation" (by decide)
  have e3 := defaultRoot_field M .subscription "Subscription" (by decide)
  simp only [jsonMetaFields, allKinds, defaultNames, List.filterMap_cons, List.filterMap_nil, Roots.get, convOpKind,
    e1, e2, e3]

theorem defaultField_isSome (td : TypeDef) :
    (defaultField td).isSome = true ↔ td.kind = .object ∧ td.name ∈ defaultNames := by
  unfold defaultField
  by_cases hk : td.kind = .object
  · simp [hk, typeKind_beq, rootKey?_isSome]
  · have : (td.kind == TypeKind.object) = false := by rw [typeKind_beq]; simpa using hk
    simp [this, hk]

theorem defaultField_eq (td : TypeDef) (hk : td.kind = .object) :
    defaultField td = (rootKey? td.name).map fun k => (k, false, false, .ref td.name) := by
  unfold defaultField
  simp [hk, typeKind_beq]

/-- without a schema definition: the same fields, the SDL route in the order of the type definitions -/
theorem default_fields_perm (U : List TypeDef) (hn : (U.map (·.name)).Nodup) :
    (defaultNames.filterMap (defaultJsonField U)).Perm (U.filterMap defaultField) := by
  let l := U.filter fun td => (defaultField td).isSome
  have hl : (l.map (·.name)).Nodup := hn.sublist (List.filter_sublist.map _)
  have hsub : ∀ a ∈ l, a.name ∈ defaultNames := fun a ha =>
    ((defaultField_isSome a).mp (List.mem_filter.mp ha).2).2
  have hp := (filterMap_find_perm (fun td : TypeDef => td.name) l defaultNames hl (by decide) hsub).filterMap defaultField
  have h2 : l.filterMap defaultField = U.filterMap defaultField := by
    show (U.filter _).filterMap defaultField = _
    rw [List.filterMap_filter]
    apply filterMap_congr_mem
    intro td _
    cases defaultField td <;> simp
  rw [h2, List.filterMap_filterMap] at hp
  refine (List.Perm.of_eq ?_).trans hp
  apply filterMap_congr_mem
  intro n hnm
  unfold defaultJsonField
  cases hf : l.find? (fun a => decide (a.name = n)) with
  | some td =>
    have hname : td.name = n := by simpa using List.find?_some hf
    have hmem := List.mem_of_find?_eq_some hf
    have hU : td ∈ U := (List.mem_filter.mp hmem).1
    have hobj := ((defaultField_isSome td).mp (List.mem_filter.mp hmem).2).1
    have hany : U.any (fun t => t.name == n && t.kind == .object) = true :=
      List.any_eq_true.mpr ⟨td, hU, by simp [hname, hobj, typeKind_beq]⟩
    simp only [hany, if_true, Option.bind_some, defaultField_eq td hobj, hname]
  | none =>
    have hany : U.any (fun t => t.name == n && t.kind == .object) = false := by
      rw [Bool.eq_false_iff]
      intro ht
      obtain ⟨td, hU, hp⟩ := List.any_eq_true.mp ht
      simp only [Bool.and_eq_true, beq_iff_eq, typeKind_beq, decide_eq_true_eq] at hp
      have hm : td ∈ l := List.mem_filter.mpr ⟨hU, (defaultField_isSome td).mpr ⟨hp.2, hp.1 ▸ hnm⟩⟩
      have := List.find?_eq_none.mp hf td hm
      simp [hp.1] at this
    simp [hany]

end NitroVerif.Bridge
